import Proofs.InsertAttrs
import Proofs.DescendSpec
import Proofs.Resolve
import Proofs.LeOps
/-! Every write request preserves the shape invariant (part A of C01), and the vocabulary for the
    page-set refinement: `IsPage`, `IsCrawled`, the extension relation `Ext` (shape kept, old entries
    kept), the page-set relation `Adds` and their conjunction `Step`. -/
namespace Traph
open State Layout

/-! ### well-formed stems: what `lru_iter` produces -/

/-- a stem as cut by `lru_iter`: closed by its separator, no separator inside -/
def StemWf (x : Stem) : Prop := ∃ y : Bytes, x = y ++ [sep] ∧ sep ∉ y

theorem lruIterGo_wf : ∀ (b cur : Bytes), sep ∉ cur → ∀ x ∈ lruIterGo b cur, StemWf x
  | [], _, _, x, h => by simp [lruIterGo] at h
  | a :: as, cur, hc, x, h => by
    simp only [lruIterGo] at h
    split at h
    · rename_i e
      have e' : a = sep := by simpa using e
      rcases List.mem_cons.mp h with rfl | h
      · exact ⟨cur.reverse, by rw [e'], by simpa using hc⟩
      · exact lruIterGo_wf as [] (by simp) x h
    · rename_i e
      have e' : ¬ a = sep := by simpa using e
      refine lruIterGo_wf as (a :: cur) ?_ x h
      simp only [List.mem_cons, not_or]
      exact ⟨fun h => e' h.symm, hc⟩

theorem lruIter_wf (b : Bytes) : ∀ x ∈ lruIter b, StemWf x :=
  lruIterGo_wf b [] (by simp)

theorem lruIterGo_append_stem : ∀ (y cur rest : Bytes), sep ∉ y →
    lruIterGo (y ++ sep :: rest) cur = (cur.reverse ++ y ++ [sep]) :: lruIterGo rest []
  | [], cur, rest, _ => by simp [lruIterGo]
  | a :: y, cur, rest, h => by
    simp only [List.mem_cons, not_or] at h
    have hne : (a == sep) = false := by
      cases hb : a == sep with
      | false => rfl
      | true => exact absurd (by simpa using hb : a = sep).symm h.1
    simp only [List.cons_append, lruIterGo, hne]
    rw [lruIterGo_append_stem y (a :: cur) rest h.2]
    simp

/-- `lru_iter` is a left inverse of concatenation on well-formed stems -/
theorem lruIter_flatten : ∀ (p : LRU), (∀ x ∈ p, StemWf x) → lruIter p.flatten = p
  | [], _ => rfl
  | x :: p, h => by
    obtain ⟨y, rfl, hy⟩ := h x (by simp)
    have ih := lruIter_flatten p (fun z hz => h z (by simp [hz]))
    unfold lruIter at ih ⊢
    rw [List.flatten_cons, List.append_assoc, List.singleton_append, lruIterGo_append_stem y [] _ hy, ih]
    simp

/-! ### the page set -/

def IsPage (s : State) (t : T) (p : LRU) : Prop :=
  ∃ b, (p, b) ∈ t.entries s [] ∧ (s.cell b).flags.page = true

def IsCrawled (s : State) (t : T) (p : LRU) : Prop :=
  ∃ b, (p, b) ∈ t.entries s [] ∧ (s.cell b).flags.page = true ∧ (s.cell b).flags.crawled = true

theorem IsCrawled.isPage {s : State} {t : T} {p : LRU} (h : IsCrawled s t p) : IsPage s t p := by
  obtain ⟨b, h1, h2, _⟩ := h; exact ⟨b, h1, h2⟩

/-- every stem stored in the tree is well formed -/
def WfStems (s : State) (t : T) : Prop := ∀ p b, (p, b) ∈ t.entries s [] → ∀ x ∈ p, StemWf x

/-- only pages carry the crawled mark -/
def FlagsOk (s : State) (t : T) : Prop :=
  ∀ p b, (p, b) ∈ t.entries s [] → (s.cell b).flags.crawled = true → (s.cell b).flags.page = true

/-- the two auxiliary invariants of reachable states used by the page-set refinement -/
structure Inv (s : State) (t : T) : Prop where
  wf : WfStems s t
  flags : FlagsOk s t

/-! ### `Ext`: shape kept, finite map extended -/

structure Ext (s : State) (t : T) (s' : State) (t' : T) : Prop where
  shape : Shape s' t'
  size : s.trie.size ≤ s'.trie.size
  keep : ∀ p b, (p, b) ∈ t.entries s [] → (p, b) ∈ t'.entries s' []

theorem Ext.refl {s : State} {t : T} (h : Shape s t) : Ext s t s t :=
  ⟨h, Nat.le_refl _, fun _ _ hm => hm⟩

theorem Ext.trans {s0 s1 s2 : State} {t0 t1 t2 : T} (h1 : Ext s0 t0 s1 t1) (h2 : Ext s1 t1 s2 t2) :
    Ext s0 t0 s2 t2 :=
  ⟨h2.shape, Nat.le_trans h1.size h2.size, fun p b hm => h2.keep p b (h1.keep p b hm)⟩

/-! ### `Adds`: how the page set and the crawled set move. `added` lists the submitted LRUs with
    their (mustCrawl, mayCrawl) marks -/

structure Adds (s : State) (t : T) (s' : State) (t' : T) (added : List (LRU × Bool × Bool)) : Prop where
  inv  : Inv s' t'
  page : ∀ p, IsPage s' t' p ↔ (IsPage s t p ∨ ∃ x ∈ added, x.1 = p)
  may  : ∀ p, IsCrawled s' t' p → (IsCrawled s t p ∨ ∃ x ∈ added, x.1 = p ∧ x.2.2 = true)
  must : ∀ p, (IsCrawled s t p ∨ ∃ x ∈ added, x.1 = p ∧ x.2.1 = true) → IsCrawled s' t' p

theorem Adds.refl {s : State} {t : T} (hi : Inv s t) : Adds s t s t [] :=
  ⟨hi, fun p => by simp, fun p h => Or.inl h, fun p h => by simpa using h⟩

theorem Adds.trans {s0 s1 s2 : State} {t0 t1 t2 : T} {A B : List (LRU × Bool × Bool)}
    (h1 : Adds s0 t0 s1 t1 A) (h2 : Adds s1 t1 s2 t2 B) : Adds s0 t0 s2 t2 (A ++ B) where
  inv := h2.inv
  page := fun p => by
    rw [h2.page, h1.page]
    simp only [List.mem_append]
    constructor
    · rintro ((h | ⟨x, hx, e⟩) | ⟨x, hx, e⟩)
      · exact Or.inl h
      · exact Or.inr ⟨x, Or.inl hx, e⟩
      · exact Or.inr ⟨x, Or.inr hx, e⟩
    · rintro (h | ⟨x, hx | hx, e⟩)
      · exact Or.inl (Or.inl h)
      · exact Or.inl (Or.inr ⟨x, hx, e⟩)
      · exact Or.inr ⟨x, hx, e⟩
  may := fun p h => by
    rcases h2.may p h with h | ⟨x, hx, e⟩
    · rcases h1.may p h with h | ⟨x, hx, e⟩
      · exact Or.inl h
      · exact Or.inr ⟨x, List.mem_append_left _ hx, e⟩
    · exact Or.inr ⟨x, List.mem_append_right _ hx, e⟩
  must := fun p h => by
    rcases h with h | ⟨x, hx, e⟩
    · exact h2.must p (Or.inl (h1.must p (Or.inl h)))
    · rcases List.mem_append.mp hx with hx | hx
      · exact h2.must p (Or.inl (h1.must p (Or.inr ⟨x, hx, e⟩)))
      · exact h2.must p (Or.inr ⟨x, hx, e⟩)

/-- the marks may be weakened: the same LRUs, every may-mark kept, no must-mark invented -/
theorem Adds.weaken {s s' : State} {t t' : T} {A B : List (LRU × Bool × Bool)} (h : Adds s t s' t' A)
    (hpage : ∀ p, (∃ x ∈ A, x.1 = p) ↔ (∃ y ∈ B, y.1 = p))
    (hmay : ∀ x ∈ A, x.2.2 = true → ∃ y ∈ B, y.1 = x.1 ∧ y.2.2 = true)
    (hmust : ∀ y ∈ B, y.2.1 = true → ∃ x ∈ A, x.1 = y.1 ∧ x.2.1 = true) : Adds s t s' t' B where
  inv := h.inv
  page := fun p => by rw [h.page, hpage]
  may := fun p hp => by
    rcases h.may p hp with h1 | ⟨x, hx, e, hm⟩
    · exact Or.inl h1
    · obtain ⟨y, hy, e1, h3⟩ := hmay x hx hm; exact Or.inr ⟨y, hy, e1.trans e, h3⟩
  must := fun p hp => by
    rcases hp with hp | ⟨y, hy, e, hm⟩
    · exact h.must p (Or.inl hp)
    · obtain ⟨x, hx, e1, h2⟩ := hmust y hy hm; exact h.must p (Or.inr ⟨x, hx, e1.trans e, h2⟩)

/-- `Step`: the shape part holds outright, the page-set part for states satisfying `Inv` -/
structure Step (s : State) (t : T) (s' : State) (t' : T) (added : List (LRU × Bool × Bool)) : Prop where
  ext : Ext s t s' t'
  adds : Inv s t → Adds s t s' t' added

abbrev Keeps (s : State) (t : T) (s' : State) (t' : T) : Prop := Step s t s' t' []

theorem Step.shape {s s' : State} {t t' : T} {A} (h : Step s t s' t' A) : Shape s' t' := h.ext.shape

theorem Keeps.refl {s : State} {t : T} (h : Shape s t) : Keeps s t s t := ⟨Ext.refl h, Adds.refl⟩

theorem Step.trans {s0 s1 s2 : State} {t0 t1 t2 : T} {A B : List (LRU × Bool × Bool)}
    (h1 : Step s0 t0 s1 t1 A) (h2 : Step s1 t1 s2 t2 B) : Step s0 t0 s2 t2 (A ++ B) :=
  ⟨h1.ext.trans h2.ext, fun hi => (h1.adds hi).trans (h2.adds (h1.adds hi).inv)⟩

theorem Keeps.trans {s0 s1 s2 : State} {t0 t1 t2 : T}
    (h1 : Keeps s0 t0 s1 t1) (h2 : Keeps s1 t1 s2 t2) : Keeps s0 t0 s2 t2 := Step.trans h1 h2

theorem Keeps.then {s0 s1 s2 : State} {t0 t1 t2 : T} {A : List (LRU × Bool × Bool)}
    (h1 : Keeps s0 t0 s1 t1) (h2 : Step s1 t1 s2 t2 A) : Step s0 t0 s2 t2 A := Step.trans h1 h2

theorem Step.then_keeps {s0 s1 s2 : State} {t0 t1 t2 : T} {A : List (LRU × Bool × Bool)}
    (h1 : Step s0 t0 s1 t1 A) (h2 : Keeps s1 t1 s2 t2) : Step s0 t0 s2 t2 A := by
  have := Step.trans h1 h2
  rwa [List.append_nil] at this

theorem Step.of_eq {s s' : State} {t t' : T} {A B : List (LRU × Bool × Bool)} (h : Step s t s' t' A)
    (e : A = B) : Step s t s' t' B := e ▸ h

/-- page-set facts of a `Keeps` step -/
theorem Keeps.page {s s' : State} {t t' : T} (k : Keeps s t s' t') (hi : Inv s t) (p : LRU) :
    IsPage s' t' p ↔ IsPage s t p := by
  rw [(k.adds hi).page]; simp

theorem Keeps.crawled {s s' : State} {t t' : T} (k : Keeps s t s' t') (hi : Inv s t) (p : LRU) :
    IsCrawled s' t' p ↔ IsCrawled s t p :=
  ⟨fun h => by
    rcases (k.adds hi).may p h with h | ⟨x, hx, _⟩
    · exact h
    · simp at hx, fun h => (k.adds hi).must p (Or.inl h)⟩

/-! ### writes that change nothing structural -/

theorem entry_lt {s : State} {t : T} (h : Shape s t) {p : LRU} {b : Nat} (hm : (p, b) ∈ t.entries s []) :
    b < s.trie.size := h.rep.lt_size b (entries_addr_mem t [] p b hm)

theorem NoStruct.entries {s s' : State} (n : NoStruct s s') (t : T) (pre : LRU) :
    t.entries s' pre = t.entries s pre := T.entries_frame t pre (fun a _ => n.stemAt a)

theorem NoStruct.ext {s s' : State} {t : T} (n : NoStruct s s') (h : Shape s t) : Ext s t s' t :=
  ⟨n.shape h, Nat.le_of_eq n.1.symm, fun p b hm => by rw [n.entries]; exact hm⟩

/-- a non-structural write that leaves the page and crawled marks of every block alone -/
theorem Keeps.of_noStruct {s s' : State} {t : T} (h : Shape s t) (n : NoStruct s s')
    (hp : ∀ b, (s'.cell b).flags.page = (s.cell b).flags.page)
    (hc : ∀ b, (s'.cell b).flags.crawled = (s.cell b).flags.crawled) : Keeps s t s' t := by
  have e := n.entries t []
  refine ⟨n.ext h, fun hi => ⟨⟨?_, ?_⟩, ?_, ?_, ?_⟩⟩
  · intro p b hm; rw [e] at hm; exact hi.wf p b hm
  · intro p b hm; rw [e] at hm; rw [hp, hc]; exact hi.flags p b hm
  · intro p
    simp only [IsPage, e, hp, List.not_mem_nil, false_and, exists_false, or_false]
  · intro p hp'
    left
    simpa only [IsCrawled, e, hp, hc] using hp'
  · intro p hp'
    rcases hp' with hp' | ⟨x, hx, _⟩
    · simpa only [IsCrawled, e, hp, hc] using hp'
    · simp at hx

theorem noStruct_of_trie_eq {s s' : State} (e : s'.trie = s.trie) : NoStruct s s' :=
  ⟨by rw [e], fun i c hc => ⟨c, by rw [e]; exact hc, rfl, rfl, rfl, rfl, rfl⟩⟩

/-- RAM-only updates, header writes, link-store appends: the trie is the same array -/
theorem Keeps.of_trie_eq {s s' : State} {t : T} (h : Shape s t) (e : s'.trie = s.trie) : Keeps s t s' t :=
  Keeps.of_noStruct h (noStruct_of_trie_eq e) (fun b => by unfold State.cell; rw [e])
    (fun b => by unfold State.cell; rw [e])

theorem noStruct_modCell (s : State) (i : Nat) (f : Cell → Cell)
    (hf : ∀ c, (f c).left = c.left ∧ (f c).right = c.right ∧ (f c).child = c.child ∧
      (f c).chunk = c.chunk ∧ (f c).flags.hasTail = c.flags.hasTail) : NoStruct s (s.modCell i f) := by
  refine ⟨trie_modCell_size _ _ _, fun j c hc => ?_⟩
  rw [getElem?_modCell]
  by_cases e : i = j
  · rw [if_pos e, hc]
    obtain ⟨h1, h2, h3, h4, h5⟩ := hf c
    exact ⟨_, rfl, h1, h2, h3, h4, h5⟩
  · rw [if_neg e]; exact ⟨c, hc, rfl, rfl, rfl, rfl, rfl⟩

/-- a block rewrite that touches neither pointers, stem bytes nor the page / crawled marks -/
theorem keeps_modCell {s : State} {t : T} (h : Shape s t) (i : Nat) (f : Cell → Cell)
    (hf : ∀ c, (f c).left = c.left ∧ (f c).right = c.right ∧ (f c).child = c.child ∧
      (f c).chunk = c.chunk ∧ (f c).flags.hasTail = c.flags.hasTail)
    (hp : ∀ c, (f c).flags.page = c.flags.page) (hc : ∀ c, (f c).flags.crawled = c.flags.crawled) :
    Keeps s t (s.modCell i f) t :=
  Keeps.of_noStruct h (noStruct_modCell s i f hf)
    (fun b => by rw [cell_modCell]; split <;> simp [hp])
    (fun b => by rw [cell_modCell]; split <;> simp [hc])

theorem keeps_appendStub {s : State} {t : T} (h : Shape s t) (b : Stub) : Keeps s t (s.appendStub b).1 t :=
  Keeps.of_trie_eq h rfl

theorem keeps_setHdr {s : State} {t : T} (h : Shape s t) (id : Nat) : Keeps s t (s.setHdr id) t :=
  Keeps.of_trie_eq h rfl

theorem keeps_foldl_modCell {α : Type} (g : α → Nat) (f : α → Cell → Cell)
    (hf : ∀ a c, ((f a c).left = c.left ∧ (f a c).right = c.right ∧ (f a c).child = c.child ∧
      (f a c).chunk = c.chunk ∧ (f a c).flags.hasTail = c.flags.hasTail))
    (hp : ∀ a c, (f a c).flags.page = c.flags.page) (hc : ∀ a c, (f a c).flags.crawled = c.flags.crawled) :
    ∀ (l : List α) (s : State) (t : T), Shape s t →
      Keeps s t (l.foldl (fun st a => st.modCell (g a) (f a)) s) t
  | [], s, t, h => Keeps.refl h
  | a :: l, s, t, h => by
    rw [List.foldl_cons]
    have k := keeps_modCell h (g a) (f a) (hf a) (hp a) (hc a)
    exact k.trans (keeps_foldl_modCell g f hf hp hc l _ t k.shape)

/-! ### `add_lru` -/

theorem Keeps.of_grow {s s' : State} {t t' : T} {stems : LRU} (h : Shape s t) (g : Grow stems s t s' t')
    (a : AttrStep s s') (hst : ∀ x ∈ stems, StemWf x) : Keeps s t s' t' := by
  have old : ∀ p b, (p, b) ∈ t'.entries s' [] → (s'.cell b).flags.page = true ∨ (s'.cell b).flags.crawled = true →
      (p, b) ∈ t.entries s [] := by
    intro p b hm hf
    rcases g.new p b hm with h1 | ⟨hb, _⟩
    · exact h1
    · have c := a.new b hb
      rw [c.page, c.crawled] at hf
      simp at hf
  refine ⟨⟨g.shape, g.size, g.keep⟩, fun hi => ⟨⟨?_, ?_⟩, ?_, ?_, ?_⟩⟩
  · intro p b hm x hx
    rcases g.new p b hm with h1 | ⟨_, k, _, _, rfl⟩
    · exact hi.wf p b h1 x hx
    · exact hst x (List.mem_of_mem_take hx)
  · intro p b hm hcr
    have h1 := old p b hm (Or.inr hcr)
    have e := a.old b (entry_lt h h1)
    rw [e.page]; rw [e.crawled] at hcr
    exact hi.flags p b h1 hcr
  · intro p
    simp only [List.not_mem_nil, false_and, exists_false, or_false]
    constructor
    · rintro ⟨b, hm, hp⟩
      have h1 := old p b hm (Or.inl hp)
      exact ⟨b, h1, by rw [← (a.old b (entry_lt h h1)).page]; exact hp⟩
    · rintro ⟨b, hm, hp⟩
      exact ⟨b, g.keep p b hm, by rw [(a.old b (entry_lt h hm)).page]; exact hp⟩
  · rintro p ⟨b, hm, hp, hcr⟩
    have h1 := old p b hm (Or.inl hp)
    have e := a.old b (entry_lt h h1)
    exact Or.inl ⟨b, h1, by rw [← e.page]; exact hp, by rw [← e.crawled]; exact hcr⟩
  · rintro p (⟨b, hm, hp, hcr⟩ | ⟨x, hx, _⟩)
    · have e := a.old b (entry_lt h hm)
      exact ⟨b, g.keep p b hm, by rw [e.page]; exact hp, by rw [e.crawled]; exact hcr⟩
    · simp at hx

theorem addLru_nil (s : State) (flag : Bool) : s.addLru [] flag = (s, 1, {}) := by
  simp only [addLru, addLruDescend, addLruCreate]

/-- `add_lru` of well-formed stems: shape kept, page set untouched; the returned block is the node of
    the LRU -/
theorem keeps_addLru {s : State} {t : T} (h : Shape s t) (stems : LRU) (flag : Bool)
    (hst : ∀ x ∈ stems, StemWf x) :
    ∃ t', Keeps s t (s.addLru stems flag).1 t' ∧
      (stems ≠ [] → (stems, (s.addLru stems flag).2.1) ∈ t'.entries (s.addLru stems flag).1 []) := by
  by_cases hne : stems = []
  · subst hne
    rw [addLru_nil]
    exact ⟨t, Keeps.refl h, fun h => absurd rfl h⟩
  · obtain ⟨t', g, hent⟩ := addLru_grow h stems flag hne
    exact ⟨t', Keeps.of_grow h g (attrStep_addLru s stems flag) hst, fun _ => hent⟩


/-! ### the per-block attribute writes of the API -/

theorem keeps_setWe {s : State} {t : T} (h : Shape s t) (i v : Nat) :
    Keeps s t (s.modCell i (fun c => { c with we := v })) t :=
  keeps_modCell h i _ (fun _ => ⟨rfl, rfl, rfl, rfl, rfl⟩) (fun _ => rfl) (fun _ => rfl)

theorem keeps_setRule {s : State} {t : T} (h : Shape s t) (i : Nat) (b : Bool) :
    Keeps s t (s.modCell i (fun c => { c with flags := { c.flags with rule := b } })) t :=
  keeps_modCell h i _ (fun _ => ⟨rfl, rfl, rfl, rfl, rfl⟩) (fun _ => rfl) (fun _ => rfl)

/-! ### link store -/

theorem keeps_addStubsGo : ∀ (targets : List Nat) (s : State) (tail : Nat) (t : T), Shape s t →
    Keeps s t (s.addStubsGo tail targets).1 t
  | [], s, tail, t, h => by simp only [addStubsGo]; exact Keeps.refl h
  | x :: ts, s, tail, t, h => by
    simp only [addStubsGo]
    have k := keeps_appendStub h { target := x, prev := tail }
    exact k.trans (keeps_addStubsGo ts _ _ t k.shape)

theorem keeps_addStubs {s : State} {t : T} (h : Shape s t) (page : Nat) (targets : List Nat) (out : Bool) :
    Keeps s t (s.addStubs page targets out) t := by
  unfold addStubs
  split
  · exact Keeps.refl h
  · have k := keeps_addStubsGo targets s (if out then (s.cell page).out else (s.cell page).inn) t h
    exact k.trans (keeps_modCell k.shape _ _ (fun c => by cases out <;> exact ⟨rfl, rfl, rfl, rfl, rfl⟩)
      (fun c => by cases out <;> rfl) (fun c => by cases out <;> rfl))

theorem keeps_flushLists (out : Bool) (pages : List (Bytes × Nat)) :
    ∀ (l : List (Bytes × List Bytes)) (s : State) (t : T), Shape s t → Keeps s t (flushLists out pages s l) t
  | [], s, t, h => by simp only [flushLists]; exact Keeps.refl h
  | (p, others) :: rest, s, t, h => by
    simp only [flushLists]
    have k := keeps_addStubs h ((dictGet? pages p).getD 0) (blocksOf pages others) out
    exact k.trans (keeps_flushLists out pages rest _ t k.shape)

/-! ### webentity edits -/

theorem keeps_genId {s : State} {t : T} (h : Shape s t) : Keeps s t s.genId.1 t := keeps_setHdr h _

theorem keeps_addLruIter {s : State} {t : T} (h : Shape s t) (x : Bytes) (flag : Bool) :
    ∃ t', Keeps s t (s.addLru (lruIter x) flag).1 t' ∧
      (lruIter x ≠ [] → (lruIter x, (s.addLru (lruIter x) flag).2.1) ∈ t'.entries (s.addLru (lruIter x) flag).1 []) :=
  keeps_addLru h (lruIter x) flag (lruIter_wf x)

theorem keeps_addPrefixesScan : ∀ (ps : List Bytes) (s : State) (t : T) (valid : List (Bytes × Nat)) (nInv : Nat),
    Shape s t → ∃ t', Keeps s t (s.addPrefixesScan ps valid nInv).1 t'
  | [], s, t, valid, nInv, h => ⟨t, by simp only [addPrefixesScan]; exact Keeps.refl h⟩
  | p :: ps, s, t, valid, nInv, h => by
    obtain ⟨t1, k1, _⟩ := keeps_addLruIter h p true
    rcases ha : s.addLru (lruIter p) true with ⟨s1, n, hh⟩
    rw [ha] at k1
    simp only [addPrefixesScan, ha]
    split
    · obtain ⟨t2, k2⟩ := keeps_addPrefixesScan ps s1 t1 valid (nInv + 1) k1.shape
      exact ⟨t2, k1.trans k2⟩
    · obtain ⟨t2, k2⟩ := keeps_addPrefixesScan ps s1 t1 (dictSet valid p n) nInv k1.shape
      exact ⟨t2, k1.trans k2⟩

theorem keeps_addPrefixes {s : State} {t : T} (h : Shape s t) (prefixes : List Bytes) (best : Bool) :
    ∃ t', Keeps s t (s.addPrefixes prefixes best).1 t' := by
  obtain ⟨t1, k1⟩ := keeps_addPrefixesScan prefixes s t [] 0 h
  rcases ha : s.addPrefixesScan prefixes [] 0 with ⟨s1, valid, nInv⟩
  rw [ha] at k1
  simp only [addPrefixes, ha]
  split
  · exact ⟨t1, k1⟩
  · split
    · exact ⟨t1, k1⟩
    · have k2 := keeps_genId k1.shape
      have k3 := keeps_foldl_modCell (fun pn : Bytes × Nat => pn.2) (fun _ c => { c with we := s1.genId.2 })
        (fun _ _ => ⟨rfl, rfl, rfl, rfl, rfl⟩) (fun _ _ => rfl) (fun _ _ => rfl) valid _ t1 k2.shape
      exact ⟨t1, k1.trans (k2.trans k3)⟩

theorem keeps_createWebentityAuto {s : State} {t : T} (h : Shape s t) (pfx : Bytes) :
    ∃ t', Keeps s t (s.createWebentityAuto pfx).1 t' := by
  obtain ⟨t1, k1⟩ := keeps_addPrefixes h (lruVariations pfx) true
  unfold createWebentityAuto
  split <;> rename_i heq <;> rw [heq] at k1 <;> exact ⟨t1, k1⟩

theorem keeps_createWebentity {s : State} {t : T} (h : Shape s t) (prefixes : List Bytes) :
    ∃ t', Keeps s t (s.createWebentity prefixes).1 t' := by
  obtain ⟨t1, k1⟩ := keeps_addPrefixes h prefixes false
  unfold createWebentity
  split <;> rename_i heq <;> rw [heq] at k1 <;> exact ⟨t1, k1⟩

theorem keeps_deleteWebentity {s : State} {t : T} (h : Shape s t) (weid : Nat) (prefixes : List Bytes) :
    Keeps s t (s.deleteWebentity weid prefixes).1 t := by
  unfold deleteWebentity
  split
  · exact Keeps.refl h
  · exact keeps_foldl_modCell (fun pn : Bytes × Nat => pn.2) (fun _ c => { c with we := 0 })
      (fun _ _ => ⟨rfl, rfl, rfl, rfl, rfl⟩) (fun _ _ => rfl) (fun _ _ => rfl) _ s t h

theorem keeps_addPrefix {s : State} {t : T} (h : Shape s t) (pfx : Bytes) (weid : Nat) :
    ∃ t', Keeps s t (s.addPrefix pfx weid).1 t' := by
  obtain ⟨t1, k1, _⟩ := keeps_addLruIter h pfx true
  rcases ha : s.addLru (lruIter pfx) true with ⟨s1, n, hh⟩
  rw [ha] at k1
  simp only [addPrefix, ha]
  split
  · exact ⟨t1, k1⟩
  · exact ⟨t1, k1.trans (keeps_setWe k1.shape n weid)⟩

theorem keeps_removePrefix {s : State} {t : T} (h : Shape s t) (pfx : Bytes) (weid : Option Nat) :
    ∃ t', Keeps s t (s.removePrefix pfx weid).1 t' := by
  obtain ⟨t1, k1, _⟩ := keeps_addLruIter h pfx false
  rcases ha : s.addLru (lruIter pfx) false with ⟨s1, n, hh⟩
  rw [ha] at k1
  simp only at k1
  simp only [removePrefix, ha]
  repeat' split
  all_goals first | exact ⟨t1, k1⟩ | exact ⟨t1, k1.trans (keeps_setWe k1.shape n 0)⟩

theorem keeps_movePrefix {s : State} {t : T} (h : Shape s t) (pfx : Bytes) (target : Nat) (source : Option Nat) :
    ∃ t', Keeps s t (s.movePrefix pfx target source).1 t' := by
  obtain ⟨t1, k1⟩ := keeps_removePrefix h pfx source
  unfold movePrefix
  split
  · rename_i heq; rw [heq] at k1; exact ⟨t1, k1⟩
  · rename_i s1 _ heq
    rw [heq] at k1
    obtain ⟨t2, k2⟩ := keeps_addPrefix k1.shape pfx target
    exact ⟨t2, k1.trans k2⟩

theorem keeps_removeRule {s : State} {t : T} (h : Shape s t) (anchor : Bytes) :
    Keeps s t (s.removeRule anchor).1 t := by
  unfold removeRule
  split
  · exact Keeps.refl h
  · simp only
    have k0 : Keeps s t { s with rules := s.rules.filter (fun p => p.1 ≠ anchor) } t := Keeps.of_trie_eq h rfl
    split
    · exact k0
    · exact k0.trans (keeps_setRule k0.shape _ false)

theorem keeps_reopen {s : State} {t : T} (h : Shape s t) (dflt : Rule) (rules : List (Bytes × Rule)) :
    Keeps s t (s.reopen dflt rules) t := Keeps.of_trie_eq h rfl

end Traph

import Proofs.InsertAttrs
import Proofs.LinkLists
import Proofs.SizesLinks
/-! C16 — the link lists under interleaving: *refresh before write*.

    Every list write of the model (`addStubs`) re-reads the page block (`refresh()`), chains the new stubs
    behind the head it has just read and rewrites only the head pointer. Consequently, whatever ran since
    the generator last looked at the block, the list hanging off every block after a write is the list
    before the write with the new ends prepended (`LinkGrow`), and trie-side writes (`add_lru`,
    `__add_page`, webentity creation, flag writes) do not touch heads or stubs at all (`LinkFrame`).
    `CoLinkStep s s'` packages: the heads stay inside the store (`HeadsOk`) and every out-list and in-list of `s`
    is a suffix of the list of the same block in `s'`. -/
namespace Traph
open State

/-- the stub array is well formed and the two list heads of every block are stubs of the store
    (0, the header slot, stands for "no list") -/
def HeadsOk (s : State) : Prop :=
  s.LinksWf ∧ ∀ a, (s.cell a).out < s.links.size ∧ (s.cell a).inn < s.links.size

/-- targets of the out-links recorded for block `a`, newest first -/
def outList (s : State) (a : Nat) : List Nat := s.walk0 (s.cell a).out
/-- sources of the in-links recorded for block `a`, newest first -/
def inList (s : State) (a : Nat) : List Nat := s.walk0 (s.cell a).inn

/-- every list of `s` is a suffix of the list of the same block in `s'`: links are only ever prepended -/
def LinkGrow (s s' : State) : Prop :=
  ∀ a, (∃ new, outList s' a = new ++ outList s a) ∧ (∃ new, inList s' a = new ++ inList s a)

theorem LinkGrow.refl (s : State) : LinkGrow s s := fun _ => ⟨⟨[], rfl⟩, ⟨[], rfl⟩⟩

theorem LinkGrow.trans {a b c : State} (h1 : LinkGrow a b) (h2 : LinkGrow b c) : LinkGrow a c := fun x => by
  obtain ⟨⟨n1, e1⟩, ⟨m1, f1⟩⟩ := h1 x
  obtain ⟨⟨n2, e2⟩, ⟨m2, f2⟩⟩ := h2 x
  exact ⟨⟨n2 ++ n1, by rw [e2, e1, List.append_assoc]⟩, ⟨m2 ++ m1, by rw [f2, f1, List.append_assoc]⟩⟩

/-- a link recorded once is recorded for ever -/
theorem LinkGrow.mem_out {s s' : State} (h : LinkGrow s s') {a x : Nat} (hx : x ∈ outList s a) : x ∈ outList s' a := by
  obtain ⟨⟨n, e⟩, _⟩ := h a
  rw [e]; exact List.mem_append_right _ hx

theorem LinkGrow.mem_in {s s' : State} (h : LinkGrow s s') {a x : Nat} (hx : x ∈ inList s a) : x ∈ inList s' a := by
  obtain ⟨_, ⟨n, e⟩⟩ := h a
  rw [e]; exact List.mem_append_right _ hx

/-- heads stay in the store, lists only grow at the front -/
def CoLinkStep (s s' : State) : Prop := HeadsOk s → HeadsOk s' ∧ LinkGrow s s'

theorem CoLinkStep.refl (s : State) : CoLinkStep s s := fun h => ⟨h, LinkGrow.refl s⟩

theorem CoLinkStep.trans {a b c : State} (h1 : CoLinkStep a b) (h2 : CoLinkStep b c) : CoLinkStep a c := fun h => by
  obtain ⟨k1, g1⟩ := h1 h
  obtain ⟨k2, g2⟩ := h2 k1
  exact ⟨k2, g1.trans g2⟩

/-! ### trie-side writes: heads and stubs untouched -/

structure LinkFrame (s s' : State) : Prop where
  links : s'.links = s.links
  out   : ∀ a, (s'.cell a).out = (s.cell a).out
  inn   : ∀ a, (s'.cell a).inn = (s.cell a).inn

theorem LinkFrame.refl (s : State) : LinkFrame s s := ⟨rfl, fun _ => rfl, fun _ => rfl⟩

theorem LinkFrame.trans {a b c : State} (h1 : LinkFrame a b) (h2 : LinkFrame b c) : LinkFrame a c :=
  ⟨h2.links.trans h1.links, fun x => (h2.out x).trans (h1.out x), fun x => (h2.inn x).trans (h1.inn x)⟩

theorem LinkFrame.of_eq {s s' : State} (ht : s'.trie = s.trie) (hl : s'.links = s.links) : LinkFrame s s' :=
  ⟨hl, fun a => by unfold State.cell; rw [ht], fun a => by unfold State.cell; rw [ht]⟩

theorem co_walk0_congr {s s' : State} (h : s'.links = s.links) (i : Nat) : s'.walk0 i = s.walk0 i := by
  unfold State.walk0; rw [State.walk_congr h]

theorem LinkFrame.outList {s s' : State} (f : LinkFrame s s') (a : Nat) : outList s' a = outList s a := by
  unfold Traph.outList; rw [f.out, co_walk0_congr f.links]

theorem LinkFrame.inList {s s' : State} (f : LinkFrame s s') (a : Nat) : inList s' a = inList s a := by
  unfold Traph.inList; rw [f.inn, co_walk0_congr f.links]

theorem LinkFrame.step {s s' : State} (f : LinkFrame s s') : CoLinkStep s s' := fun h => by
  refine ⟨⟨State.linksWf_congr f.links h.1, fun a => ?_⟩, fun a => ⟨⟨[], ?_⟩, ⟨[], ?_⟩⟩⟩
  · rw [f.out, f.inn, f.links]; exact h.2 a
  · rw [f.outList]; rfl
  · rw [f.inList]; rfl

theorem LinkFrame.of_attrStep {s s' : State} (a : AttrStep s s') (hl : s'.links = s.links) : LinkFrame s s' := by
  refine ⟨hl, fun b => ?_, fun b => ?_⟩
  · by_cases hb : b < s.trie.size
    · exact (a.old b hb).out
    · rw [(a.new b (Nat.le_of_not_lt hb)).out, cell_of_size_le s b (Nat.le_of_not_lt hb)]
  · by_cases hb : b < s.trie.size
    · exact (a.old b hb).inn
    · rw [(a.new b (Nat.le_of_not_lt hb)).inn, cell_of_size_le s b (Nat.le_of_not_lt hb)]

theorem linkFrame_modCell (s : State) (i : Nat) (f : Cell → Cell)
    (hf : ∀ c, (f c).out = c.out ∧ (f c).inn = c.inn) : LinkFrame s (s.modCell i f) := by
  refine ⟨State.links_modCell s i f, fun a => ?_, fun a => ?_⟩
  · rw [cell_modCell]; split
    · exact (hf _).1
    · rfl
  · rw [cell_modCell]; split
    · exact (hf _).2
    · rfl

theorem linkFrame_foldl_modCell {α : Type} (g : α → Nat) (f : α → Cell → Cell)
    (hf : ∀ a c, (f a c).out = c.out ∧ (f a c).inn = c.inn) :
    ∀ (l : List α) (s : State), LinkFrame s (l.foldl (fun st a => st.modCell (g a) (f a)) s)
  | [], s => LinkFrame.refl s
  | a :: l, s => by
    rw [List.foldl_cons]
    exact (linkFrame_modCell s (g a) (f a) (hf a)).trans (linkFrame_foldl_modCell g f hf l _)

theorem linkFrame_addLru (s : State) (stems : LRU) (flag : Bool) : LinkFrame s (s.addLru stems flag).1 :=
  LinkFrame.of_attrStep (attrStep_addLru s stems flag) (links_addLru s stems flag)

theorem linkFrame_addPageTrie (s : State) (stems : LRU) (crawled : Bool) :
    LinkFrame s (s.addPageTrie stems crawled).1 := by
  unfold State.addPageTrie
  have f1 := linkFrame_addLru s stems false
  rcases ha : s.addLru stems false with ⟨s1, n, h⟩
  rw [ha] at f1
  simp only at f1 ⊢
  split
  · exact f1.trans (linkFrame_modCell _ _ _ (fun _ => ⟨rfl, rfl⟩))
  · split
    · exact f1.trans (linkFrame_modCell _ _ _ (fun _ => ⟨rfl, rfl⟩))
    · exact f1

theorem linkFrame_addPrefixesScan : ∀ (ps : List Bytes) (s : State) (valid : List (Bytes × Nat)) (k : Nat),
    LinkFrame s (State.addPrefixesScan s ps valid k).1
  | [], s, _, _ => LinkFrame.refl s
  | p :: ps, s, valid, k => by
    have f1 := linkFrame_addLru s (lruIter p) true
    rcases h : s.addLru (lruIter p) true with ⟨s1, n, hh⟩
    rw [h] at f1
    simp only [State.addPrefixesScan, h]
    split
    · exact f1.trans (linkFrame_addPrefixesScan ps s1 _ _)
    · exact f1.trans (linkFrame_addPrefixesScan ps s1 _ _)

theorem linkFrame_addPrefixes (s : State) (ps : List Bytes) (best : Bool) :
    LinkFrame s (s.addPrefixes ps best).1 := by
  have f1 := linkFrame_addPrefixesScan ps s [] 0
  rcases ha : s.addPrefixesScan ps [] 0 with ⟨s1, valid, nInv⟩
  rw [ha] at f1
  simp only [State.addPrefixes, ha]
  split
  · exact f1
  · split
    · exact f1
    · have f2 : LinkFrame s1 s1.genId.1 := LinkFrame.of_eq rfl rfl
      exact f1.trans (f2.trans (linkFrame_foldl_modCell (fun pn : Bytes × Nat => pn.2)
        (fun _ c => { c with we := s1.genId.2 }) (fun _ _ => ⟨rfl, rfl⟩) valid _))

theorem linkFrame_createWebentityAuto (s : State) (pfx : Bytes) :
    LinkFrame s (s.createWebentityAuto pfx).1 := by
  have f := linkFrame_addPrefixes s (lruVariations pfx) true
  unfold State.createWebentityAuto
  split <;> rename_i heq <;> rw [heq] at f <;> exact f

/-- `__add_page` (trie insertion, page / crawled marks, automatic webentity creation) leaves every
    list head and every stub alone -/
theorem linkFrame_addPageCore (s : State) (lru : Bytes) (crawled : Bool) :
    LinkFrame s (s.addPageCore lru crawled).1 := by
  have f1 := linkFrame_addPageTrie s (lruIter lru) crawled
  rcases ha : s.addPageTrie (lruIter lru) crawled with ⟨s1, n, h⟩
  rw [ha] at f1
  simp only at f1
  simp only [State.addPageCore, ha]
  repeat' split
  all_goals first | exact f1 | exact f1.trans (linkFrame_createWebentityAuto s1 _)

/-! ### the list write: refresh, chain behind the head just read, move the head -/

theorem co_cell_of_trie_eq {s s' : State} (h : s'.trie = s.trie) (a : Nat) : s'.cell a = s.cell a := by
  unfold State.cell; rw [h]

/-- **refresh-before-write**: `add_links(page, targets, out)` prepends the reversed targets to the list
    the page has *now* (whoever wrote it) and changes no other list -/
theorem addStubs_lists {s : State} (hk : HeadsOk s) (page : Nat) (targets : List Nat) (out : Bool) :
    HeadsOk (s.addStubs page targets out) ∧
    (∀ a, outList (s.addStubs page targets out) a =
      (if a = page ∧ page < s.trie.size ∧ out = true then targets.reverse else []) ++ outList s a) ∧
    (∀ a, inList (s.addStubs page targets out) a =
      (if a = page ∧ page < s.trie.size ∧ out = false then targets.reverse else []) ++ inList s a) := by
  by_cases hne : targets = []
  · subst hne
    have : s.addStubs page [] out = s := rfl
    rw [this]
    exact ⟨hk, fun a => by simp, fun a => by simp⟩
  · unfold State.addStubs
    have hemp : targets.isEmpty = false := by
      cases targets with
      | nil => exact absurd rfl hne
      | cons _ _ => rfl
    rw [hemp]
    simp only [Bool.false_eq_true, if_false]
    have hhead : (if out = true then (s.cell page).out else (s.cell page).inn) < s.links.size := by
      split
      · exact (hk.2 page).1
      · exact (hk.2 page).2
    generalize hH : (if out = true then (s.cell page).out else (s.cell page).inn) = head at hhead
    obtain ⟨a1, a2, a3, a4, a5, a6⟩ := State.addStubsGo_aux targets s hk.1 head hhead
    obtain ⟨b1, b2⟩ := a6 hne
    rcases hgo : s.addStubsGo head targets with ⟨s1, newHead⟩
    rw [hgo] at a1 a2 a3 a4 a5 b1 b2
    simp only at a1 a2 a3 a4 a5 b1 b2 ⊢
    have hcell : ∀ a, s1.cell a = s.cell a := co_cell_of_trie_eq a3
    have hsz : s1.trie.size = s.trie.size := by rw [a3]
    have hw0 : ∀ h, h < s.links.size → s1.walk0 h = s.walk0 h := by
      intro h hh
      unfold State.walk0
      split
      · exact a4 h hh
      · rfl
    have hlinks : (s1.modCell page (fun c => if out = true then { c with out := newHead } else { c with inn := newHead })).links
        = s1.links := State.links_modCell _ _ _
    have hnew : newHead < s1.links.size := by omega
    refine ⟨⟨State.linksWf_congr hlinks a1, fun a => ?_⟩, fun a => ?_, fun a => ?_⟩
    · rw [hlinks, cell_modCell, hsz]
      have hold := hk.2 a
      split
      · rw [hcell]
        cases out
        · simp only [Bool.false_eq_true, if_false]; exact ⟨by omega, hnew⟩
        · simp only [if_true]; exact ⟨hnew, by omega⟩
      · rw [hcell]; exact ⟨by omega, by omega⟩
    · unfold Traph.outList
      rw [co_walk0_congr hlinks, cell_modCell, hsz]
      by_cases hc : page = a ∧ a < s.trie.size
      · obtain ⟨rfl, hlt⟩ := hc
        rw [if_pos ⟨rfl, hlt⟩, hcell]
        cases out
        · simp only [Bool.false_eq_true, if_false, and_false, List.nil_append]
          exact hw0 _ (hk.2 page).1
        · simp only [if_true, and_true, true_and, if_pos hlt]
          rw [a5, ← hH]; rfl
      · rw [if_neg hc, hcell, hw0 _ (hk.2 a).1]
        have hn : ¬ (a = page ∧ page < s.trie.size ∧ out = true) := fun h => hc ⟨h.1.symm, h.1 ▸ h.2.1⟩
        rw [if_neg hn]
        rfl
    · unfold Traph.inList
      rw [co_walk0_congr hlinks, cell_modCell, hsz]
      by_cases hc : page = a ∧ a < s.trie.size
      · obtain ⟨rfl, hlt⟩ := hc
        rw [if_pos ⟨rfl, hlt⟩, hcell]
        cases out
        · simp only [Bool.false_eq_true, if_false, and_true, true_and, if_pos hlt]
          rw [a5, ← hH]; rfl
        · simp only [if_true, Bool.true_eq_false, and_false, if_false, List.nil_append]
          exact hw0 _ (hk.2 page).2
      · rw [if_neg hc, hcell, hw0 _ (hk.2 a).2]
        have hn : ¬ (a = page ∧ page < s.trie.size ∧ out = false) := fun h => hc ⟨h.1.symm, h.1 ▸ h.2.1⟩
        rw [if_neg hn]
        rfl

theorem linkStep_addStubs (s : State) (page : Nat) (targets : List Nat) (out : Bool) :
    CoLinkStep s (s.addStubs page targets out) := fun hk => by
  obtain ⟨h1, h2, h3⟩ := addStubs_lists hk page targets out
  exact ⟨h1, fun a => ⟨⟨_, h2 a⟩, ⟨_, h3 a⟩⟩⟩

/-- a fresh index: no list at all -/
theorem headsOk_of_trie_init (s : State) (ht : s.trie = #[{}]) (hl : s.links = #[{}]) : HeadsOk s := by
  refine ⟨⟨by rw [hl]; decide, fun i st h => ?_⟩, fun a => ?_⟩
  · rw [hl] at h
    rcases Array.getElem?_eq_some_iff.mp h with ⟨hi, hst⟩
    have hi0 : i = 0 := by simpa using hi
    subst hi0
    right
    refine ⟨rfl, ?_⟩
    rw [← hst]; rfl
  · have hc : s.cell a = {} := by
      unfold State.cell
      rw [ht]
      by_cases h0 : a = 0
      · subst h0; rfl
      · have : (#[({} : Cell)])[a]? = none := by
          apply Array.getElem?_eq_none
          simp; omega
        rw [this]; rfl
    rw [hc, hl]
    exact ⟨by decide, by decide⟩

end Traph

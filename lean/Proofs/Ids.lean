import Traph
import Proofs.IdsFrame
/-! C12: webentity ids are fresh. The header counter `hdrId` only ever grows (outside `clear`), every id a
    request reports lies strictly above the counter before the request and at or below the counter after
    it, so along any history the reported ids form a strictly increasing sequence — across deletions
    (which do not touch the counter) and across close/reopen (the counter is part of the file). -/
namespace Traph
open State

/-- the webentity ids a report announces (the `None` key of the Python dict carries no id) -/
def Report.ids (r : Report) : List Nat := r.we.filterMap (·.1)

/-- `ids` is a strictly increasing list inside the half-open interval `(lo, hi]` -/
def IdsBetween (lo hi : Nat) (ids : List Nat) : Prop :=
  lo ≤ hi ∧ ids.Pairwise (· < ·) ∧ ∀ i ∈ ids, lo < i ∧ i ≤ hi

theorem IdsBetween.nil {lo hi : Nat} (h : lo ≤ hi) : IdsBetween lo hi [] :=
  ⟨h, List.Pairwise.nil, fun _ hi => by cases hi⟩

theorem IdsBetween.le {lo hi : Nat} {ids : List Nat} (h : IdsBetween lo hi ids) : lo ≤ hi := h.1

theorem IdsBetween.mono {lo hi hi' : Nat} {ids : List Nat} (h : IdsBetween lo hi ids) (hh : hi ≤ hi') :
    IdsBetween lo hi' ids :=
  ⟨Nat.le_trans h.1 hh, h.2.1, fun i hi => ⟨(h.2.2 i hi).1, Nat.le_trans (h.2.2 i hi).2 hh⟩⟩

theorem IdsBetween.single (lo : Nat) : IdsBetween lo (lo + 1) [lo + 1] :=
  ⟨by omega, List.pairwise_singleton _ _, fun i hi => by simp at hi; omega⟩

@[simp] theorem Report.ids_pages (n : Nat) : ({ pages := n } : Report).ids = [] := rfl

@[simp] theorem Report.ids_single (k : Option Nat) (ps : List Bytes) (n : Nat) :
    ({ pages := n, we := [(k, ps)] } : Report).ids = k.toList := by
  cases k <;> rfl

/-! ### `dict.update` on reports -/

theorem ids_dictSet_none (d : List (Option Nat × List Bytes)) (v : List Bytes) :
    (dictSet d none v).filterMap (·.1) = d.filterMap (·.1) := by
  induction d with
  | nil => rfl
  | cons kv rest ih =>
    rcases kv with ⟨k, v'⟩
    cases k with
    | none => simp [dictSet]
    | some j => simp [dictSet, ih]

theorem ids_dictSet_some (d : List (Option Nat × List Bytes)) (i : Nat) (v : List Bytes)
    (h : i ∉ d.filterMap (·.1)) : (dictSet d (some i) v).filterMap (·.1) = d.filterMap (·.1) ++ [i] := by
  induction d with
  | nil => rfl
  | cons kv rest ih =>
    rcases kv with ⟨k, v'⟩
    cases k with
    | none =>
      have h' : i ∉ rest.filterMap (·.1) := by simpa using h
      simp [dictSet, ih h']
    | some j =>
      have hj : j ≠ i := by intro e; subst e; simp at h
      have h' : i ∉ rest.filterMap (·.1) := by
        intro hm; apply h; simp only [List.filterMap_cons]; exact List.mem_cons_of_mem _ hm
      simp [dictSet, hj, ih h']

/-- merging `b` into `d` appends `b`'s ids, provided they are increasing and all above `d`'s -/
theorem ids_foldl_dictSet : ∀ (b d : List (Option Nat × List Bytes)),
    (b.filterMap (·.1)).Pairwise (· < ·) →
    (∀ i ∈ d.filterMap (·.1), ∀ j ∈ b.filterMap (·.1), i < j) →
    (b.foldl (fun d kv => dictSet d kv.1 kv.2) d).filterMap (·.1) = d.filterMap (·.1) ++ b.filterMap (·.1)
  | [], d, _, _ => by simp
  | (none, v) :: b, d, hp, hd => by
    rw [List.foldl_cons, ids_foldl_dictSet b _ (by simpa using hp) (by
      rw [ids_dictSet_none]; intro i hi j hj; exact hd i hi j (by simpa using hj)), ids_dictSet_none]
    simp
  | (some k, v) :: b, d, hp, hd => by
    have hk : k ∉ d.filterMap (·.1) := fun hm => Nat.lt_irrefl k (hd k hm k (by simp))
    have hp' : (k :: b.filterMap (·.1)).Pairwise (· < ·) := by simpa using hp
    rw [List.pairwise_cons] at hp'
    rw [List.foldl_cons, ids_foldl_dictSet b _ hp'.2 (by
      rw [ids_dictSet_some _ _ _ hk]
      intro i hi j hj
      rcases List.mem_append.mp hi with hi | hi
      · exact hd i hi j (by simp [hj])
      · simp at hi; subst hi; exact hp'.1 j hj), ids_dictSet_some _ _ _ hk]
    simp

/-- KEY composition lemma: ids of `a += b` when `b` was produced after `a` -/
theorem ids_add (a b : Report) {lo mid hi : Nat} (ha : IdsBetween lo mid a.ids) (hb : IdsBetween mid hi b.ids) :
    (a.add b).ids = a.ids ++ b.ids ∧ IdsBetween lo hi (a.add b).ids := by
  have e : (a.add b).ids = a.ids ++ b.ids := by
    unfold Report.add Report.ids
    exact ids_foldl_dictSet b.we a.we hb.2.1 (fun i hi j hj =>
      Nat.lt_of_le_of_lt (ha.2.2 i hi).2 (hb.2.2 j hj).1)
  refine ⟨e, Nat.le_trans ha.1 hb.1, ?_, ?_⟩
  · rw [e, List.pairwise_append]
    exact ⟨ha.2.1, hb.2.1, fun i hi j hj => Nat.lt_of_le_of_lt (ha.2.2 i hi).2 (hb.2.2 j hj).1⟩
  · intro i hi
    rw [e] at hi
    rcases List.mem_append.mp hi with hi | hi
    · exact ⟨(ha.2.2 i hi).1, Nat.le_trans (ha.2.2 i hi).2 hb.1⟩
    · exact ⟨Nat.lt_of_le_of_lt ha.1 (hb.2.2 i hi).1, (hb.2.2 i hi).2⟩

theorem IdsBetween.add {a b : Report} {lo mid hi : Nat} (ha : IdsBetween lo mid a.ids)
    (hb : IdsBetween mid hi b.ids) : IdsBetween lo hi (a.add b).ids := (ids_add a b ha hb).2

/-! ### `__add_prefixes` : the only caller of `genId` -/

@[simp] theorem hdrId_addPrefixesScan : ∀ (ps : List Bytes) (s : State) (valid : List (Bytes × Nat)) (k : Nat),
    (addPrefixesScan s ps valid k).1.hdrId = s.hdrId
  | [], _, _, _ => rfl
  | p :: ps, s, valid, k => by
    rcases h : s.addLru (lruIter p) true with ⟨s1, n, hh⟩
    have h1 : s1.hdrId = s.hdrId := by have := hdrId_addLru s (lruIter p) true; rw [h] at this; exact this
    simp only [addPrefixesScan, h]
    split <;> rw [hdrId_addPrefixesScan ps, h1]

theorem addPrefixes_ids (s : State) (ps : List Bytes) (best : Bool) :
    s.hdrId ≤ (s.addPrefixes ps best).1.hdrId ∧
    (∀ id l, (s.addPrefixes ps best).2 = .ok (some id, l) →
      id = s.hdrId + 1 ∧ (s.addPrefixes ps best).1.hdrId = s.hdrId + 1) ∧
    (∀ l, (s.addPrefixes ps best).2 = .ok (none, l) → (s.addPrefixes ps best).1.hdrId = s.hdrId) ∧
    (∀ e, (s.addPrefixes ps best).2 = .error e → (s.addPrefixes ps best).1.hdrId = s.hdrId) := by
  unfold addPrefixes
  rcases h : addPrefixesScan s ps [] 0 with ⟨s1, valid, nInv⟩
  have h1 : s1.hdrId = s.hdrId := by have := hdrId_addPrefixesScan ps s [] 0; rw [h] at this; exact this
  simp only
  split
  · simp [h1]
  · split
    · simp [h1]
    · simp [h1]

/-- `__create_webentity` (automatic creation while adding a page) -/
theorem createWebentityAuto_ids (s : State) (pfx : Bytes) :
    IdsBetween s.hdrId (s.createWebentityAuto pfx).1.hdrId (s.createWebentityAuto pfx).2.ids := by
  obtain ⟨hle, hsome, hnone, herr⟩ := addPrefixes_ids s (lruVariations pfx) true
  unfold createWebentityAuto
  rcases h : s.addPrefixes (lruVariations pfx) true with ⟨s1, res⟩
  rw [h] at hle hsome hnone herr
  simp only at hle hsome hnone herr
  rcases res with e | ⟨_ | id, l⟩
  · exact IdsBetween.nil hle
  · exact IdsBetween.nil hle
  · obtain ⟨hid, hs1⟩ := hsome id l rfl
    simp only [Report.ids_single, Option.toList, hid, hs1]
    exact IdsBetween.single _

/-- what every report-returning write request guarantees -/
def IdsOk (lo : Nat) (s : State) (x : State × Except Err Report) : Prop :=
  s.hdrId ≤ x.1.hdrId ∧ ∀ r, x.2 = .ok r → IdsBetween lo x.1.hdrId r.ids

/-- `__add_page` -/
theorem addPageCore_ids (s : State) (lru : Bytes) (crawled : Bool) :
    s.hdrId ≤ (s.addPageCore lru crawled).1.hdrId ∧
    ∀ r, (s.addPageCore lru crawled).2.2 = .ok r →
      IdsBetween s.hdrId (s.addPageCore lru crawled).1.hdrId r.ids := by
  unfold addPageCore
  rcases h : s.addPageTrie (lruIter lru) crawled with ⟨s1, n, hh⟩
  have h1 : s1.hdrId = s.hdrId := by have := hdrId_addPageTrie s (lruIter lru) crawled; rw [h] at this; exact this
  simp only
  generalize (if hh.created = true then 1 else 0 : Nat) = k
  have hrep : IdsBetween s.hdrId s1.hdrId ({ pages := k } : Report).ids := by
    rw [h1]; exact IdsBetween.nil (Nat.le_refl _)
  have Lerr : ∀ e : Err, s.hdrId ≤ (s1, n, (Except.error e : Except Err Report)).1.hdrId ∧
      ∀ r, (s1, n, (Except.error e : Except Err Report)).2.2 = .ok r →
        IdsBetween s.hdrId (s1, n, (Except.error e : Except Err Report)).1.hdrId r.ids :=
    fun e => ⟨Nat.le_of_eq h1.symm, fun r hr => by cases hr⟩
  have Lok : s.hdrId ≤ (s1, n, (Except.ok { pages := k } : Except Err Report)).1.hdrId ∧
      ∀ r, (s1, n, (Except.ok { pages := k } : Except Err Report)).2.2 = .ok r →
        IdsBetween s.hdrId (s1, n, (Except.ok { pages := k } : Except Err Report)).1.hdrId r.ids :=
    ⟨Nat.le_of_eq h1.symm, fun r hr => by cases hr; exact hrep⟩
  have Lauto : ∀ p : Bytes,
      s.hdrId ≤ ((s1.createWebentityAuto p).1, n,
        (Except.ok (({ pages := k } : Report).add (s1.createWebentityAuto p).2) : Except Err Report)).1.hdrId ∧
      ∀ r, ((s1.createWebentityAuto p).1, n,
        (Except.ok (({ pages := k } : Report).add (s1.createWebentityAuto p).2) : Except Err Report)).2.2 = .ok r →
        IdsBetween s.hdrId ((s1.createWebentityAuto p).1, n,
          (Except.ok (({ pages := k } : Report).add (s1.createWebentityAuto p).2) : Except Err Report)).1.hdrId r.ids :=
    fun p => by
      have := createWebentityAuto_ids s1 p
      exact ⟨by have := this.1; simp only; omega, fun r hr => by cases hr; exact hrep.add this⟩
  repeat' split
  all_goals first | exact Lerr _ | exact Lok | exact Lauto _

/-! ### generic bookkeeping for the request loops -/

/-- a loop threading an accumulator whose report component is `proj a` -/
def AccOk {α : Type} (proj : α → Report) (lo : Nat) (s : State) (x : State × Except Err α) : Prop :=
  s.hdrId ≤ x.1.hdrId ∧ ∀ a, x.2 = .ok a → IdsBetween lo x.1.hdrId (proj a).ids

theorem idsOk_iff (lo : Nat) (s : State) (x : State × Except Err Report) :
    IdsOk lo s x ↔ AccOk (fun r => r) lo s x := Iff.rfl

theorem AccOk.error {α : Type} {proj : α → Report} {lo : Nat} {s s1 : State} {e : Err}
    (hle : s.hdrId ≤ s1.hdrId) : AccOk proj lo s (s1, .error e) :=
  ⟨hle, fun _ h => by cases h⟩

theorem AccOk.ok {α : Type} {proj : α → Report} {lo : Nat} {s s1 : State} {a : α}
    (hle : s.hdrId ≤ s1.hdrId) (h : IdsBetween lo s1.hdrId (proj a).ids) : AccOk proj lo s (s1, .ok a) :=
  ⟨hle, fun _ h' => by cases h'; exact h⟩

theorem AccOk.trans {α : Type} {proj : α → Report} {lo : Nat} {s s1 : State} {x : State × Except Err α}
    (hle : s.hdrId ≤ s1.hdrId) (h : AccOk proj lo s1 x) : AccOk proj lo s x :=
  ⟨Nat.le_trans hle h.1, h.2⟩

@[simp] theorem hdrId_ite_modCell (b : Bool) (s : State) (n : Nat) (f : Cell → Cell) :
    (if b = true then s.modCell n f else s).hdrId = s.hdrId := by
  split
  · exact hdrId_modCell _ _ _
  · rfl

/-! ### `add_page`, `add_pages` -/

theorem addPage_ids (s : State) (lru : Bytes) (crawled : Bool) :
    IdsOk s.hdrId s (s.addPage lru crawled) := by
  have hi := addPageCore_ids s lru crawled
  unfold addPage
  rcases hc : s.addPageCore lru crawled with ⟨s1, n, res⟩
  rw [hc] at hi
  exact hi

theorem addPagesGo_ids (always crawled : Bool) : ∀ (ls : List Bytes) (s : State) (rep : Report) (lo : Nat),
    IdsBetween lo s.hdrId rep.ids → IdsOk lo s (addPagesGo always s ls crawled rep)
  | [], s, rep, lo, h => AccOk.ok (Nat.le_refl _) h
  | l :: ls, s, rep, lo, h => by
    have hi := addPageCore_ids s l crawled
    rcases hc : s.addPageCore l crawled with ⟨s1, n, res⟩
    rw [hc] at hi
    cases res with
    | error e => simp only [addPagesGo, hc]; exact AccOk.error hi.1
    | ok r =>
      simp only [addPagesGo, hc]
      refine AccOk.trans (s1 := if always = true then s1.modCell n _ else s1) ?_
        (addPagesGo_ids always crawled ls _ _ lo ?_)
      · rw [hdrId_ite_modCell]; exact hi.1
      · rw [hdrId_ite_modCell]; exact h.add (hi.2 r rfl)

theorem addPages_ids (s : State) (lrus : List Bytes) (crawled : Bool) :
    IdsOk s.hdrId s (s.addPages lrus crawled) :=
  addPagesGo_ids _ crawled lrus s {} s.hdrId (IdsBetween.nil (Nat.le_refl _))

/-! ### `add_links`, `index_batch_crawl` -/

theorem ensurePageCached_ids (s : State) (acc : LinkAcc) (l : Bytes) (c : Bool) (lo : Nat)
    (h : IdsBetween lo s.hdrId acc.rep.ids) : AccOk LinkAcc.rep lo s (s.ensurePageCached acc l c) := by
  unfold ensurePageCached
  cases dictGet? acc.pages l with
  | some _ => exact AccOk.ok (Nat.le_refl _) h
  | none =>
    have hi := addPageCore_ids s l c
    rcases hc : s.addPageCore l c with ⟨s1, n, res⟩
    rw [hc] at hi
    cases res with
    | error e => exact AccOk.error hi.1
    | ok r => exact AccOk.ok hi.1 (h.add (hi.2 r rfl))

theorem addLinksScan_ids : ∀ (links : List (Bytes × Bytes)) (s : State) (acc : LinkAcc) (lo : Nat),
    IdsBetween lo s.hdrId acc.rep.ids → AccOk LinkAcc.rep lo s (addLinksScan s links acc)
  | [], s, acc, lo, h => AccOk.ok (Nat.le_refl _) h
  | (src, tgt) :: rest, s, acc, lo, h => by
    have h1 := ensurePageCached_ids s acc src false lo h
    rcases he1 : s.ensurePageCached acc src false with ⟨s1, e | acc1⟩
    · rw [he1] at h1; simp only [addLinksScan, he1]; exact AccOk.error h1.1
    · rw [he1] at h1
      have h2 := ensurePageCached_ids s1 acc1 tgt false lo (h1.2 acc1 rfl)
      rcases he2 : s1.ensurePageCached acc1 tgt false with ⟨s2, e | acc2⟩
      · rw [he2] at h2; simp only [addLinksScan, he1, he2]; exact AccOk.error (Nat.le_trans h1.1 h2.1)
      · rw [he2] at h2; simp only [addLinksScan, he1, he2]
        exact AccOk.trans (Nat.le_trans h1.1 h2.1) (addLinksScan_ids rest s2 _ lo (h2.2 acc2 rfl))

theorem addLinks_ids (s : State) (links : List (Bytes × Bytes)) : IdsOk s.hdrId s (s.addLinks links) := by
  have h := addLinksScan_ids links s {} s.hdrId (IdsBetween.nil (Nat.le_refl _))
  unfold addLinks
  rcases he : addLinksScan s links {} with ⟨s1, e | acc⟩
  · rw [he] at h; exact AccOk.error h.1
  · rw [he] at h
    refine AccOk.ok ?_ ?_
    · simp only [hdrId_flushLists]; exact h.1
    · simp only [hdrId_flushLists]; exact h.2 acc rfl

theorem batchTargets_ids (src : Bytes) : ∀ (ts : List Bytes) (s : State) (acc : LinkAcc) (tb : List Nat) (lo : Nat),
    IdsBetween lo s.hdrId acc.rep.ids →
    AccOk (fun p : LinkAcc × List Nat => p.1.rep) lo s (batchTargets s src ts acc tb)
  | [], s, acc, tb, lo, h => AccOk.ok (Nat.le_refl _) h
  | t :: ts, s, acc, tb, lo, h => by
    have h1 := ensurePageCached_ids s acc t false lo h
    rcases he1 : s.ensurePageCached acc t false with ⟨s1, e | acc1⟩
    · rw [he1] at h1; simp only [batchTargets, he1]; exact AccOk.error h1.1
    · rw [he1] at h1; simp only [batchTargets, he1]
      exact AccOk.trans h1.1 (batchTargets_ids src ts s1 _ _ lo (h1.2 acc1 rfl))

/-- first part of one round of `batchSources`: the source page is inserted, or flagged as crawled -/
def srcStep (s : State) (acc : LinkAcc) (src : Bytes) : State × Except Err LinkAcc :=
  match dictGet? acc.pages src with
  | none => s.ensurePageCached acc src true
  | some n =>
    if !(s.cell n).flags.crawled then
      (s.modCell n (fun c => { c with flags := { c.flags with crawled := true } }), .ok acc)
    else (s, .ok acc)

theorem batchSources_cons (s : State) (src : Bytes) (tgts : List Bytes) (rest : List (Bytes × List Bytes))
    (acc : LinkAcc) : batchSources s ((src, tgts) :: rest) acc =
      match srcStep s acc src with
      | (s1, .error e) => (s1, .error e)
      | (s1, .ok acc1) =>
        match batchTargets s1 src tgts acc1 [] with
        | (s2, .error e) => (s2, .error e)
        | (s2, .ok (acc2, tb)) =>
          batchSources (s2.addStubs ((dictGet? acc2.pages src).getD 0) tb true) rest acc2 := by
  rw [batchSources]; rfl

theorem srcStep_ids (s : State) (acc : LinkAcc) (src : Bytes) (lo : Nat)
    (h : IdsBetween lo s.hdrId acc.rep.ids) : AccOk LinkAcc.rep lo s (srcStep s acc src) := by
  unfold srcStep
  cases dictGet? acc.pages src with
  | none => exact ensurePageCached_ids s acc src true lo h
  | some n =>
    simp only
    split
    · exact AccOk.ok (by simp) (by simpa using h)
    · exact AccOk.ok (Nat.le_refl _) h

theorem batchSources_ids : ∀ (data : List (Bytes × List Bytes)) (s : State) (acc : LinkAcc) (lo : Nat),
    IdsBetween lo s.hdrId acc.rep.ids → AccOk LinkAcc.rep lo s (batchSources s data acc)
  | [], s, acc, lo, h => AccOk.ok (Nat.le_refl _) h
  | (src, tgts) :: rest, s, acc, lo, h => by
    have hr1 := srcStep_ids s acc src lo h
    rw [batchSources_cons]
    rcases hs : srcStep s acc src with ⟨s1, e | acc1⟩
    · rw [hs] at hr1; exact AccOk.error hr1.1
    · rw [hs] at hr1
      simp only
      have h2 := batchTargets_ids src tgts s1 acc1 [] lo (hr1.2 acc1 rfl)
      rcases he2 : batchTargets s1 src tgts acc1 [] with ⟨s2, e | ⟨acc2, tb⟩⟩
      · rw [he2] at h2; exact AccOk.error (Nat.le_trans hr1.1 h2.1)
      · rw [he2] at h2
        simp only
        refine AccOk.trans (s1 := s2.addStubs _ tb true) ?_ (batchSources_ids rest _ acc2 lo ?_)
        · rw [hdrId_addStubs]; exact Nat.le_trans hr1.1 h2.1
        · rw [hdrId_addStubs]; exact h2.2 (acc2, tb) rfl

theorem batch_ids (s : State) (data : List (Bytes × List Bytes)) : IdsOk s.hdrId s (s.batch data) := by
  have h := batchSources_ids data s {} s.hdrId (IdsBetween.nil (Nat.le_refl _))
  unfold batch
  rcases he : batchSources s data {} with ⟨s1, e | acc⟩
  · rw [he] at h; exact AccOk.error h.1
  · rw [he] at h
    refine AccOk.ok ?_ ?_
    · simp only [hdrId_flushLists]; exact h.1
    · simp only [hdrId_flushLists]; exact h.2 acc rfl

/-! ### `add_webentity_creation_rule` -/

/-- the page re-insertion of one round of `addRuleLoop` -/
def ruleStep (s : State) (isPage : Bool) (cur : Bytes) (rep : Report) : State × Except Err Report :=
  if isPage then
    (match s.addPageCore cur false with
     | (s1, _, .error e) => (s1, .error e)
     | (s1, _, .ok r1) => (s1, .ok (rep.add r1)))
  else (s, .ok rep)

theorem addRuleLoop_cons (start fuel : Nat) (s : State) (b : Nat) (lru : Bytes) (stack : List (Nat × Bytes))
    (rep : Report) : addRuleLoop start (fuel + 1) s ((b, lru) :: stack) rep =
      match ruleStep s (s.cell b).flags.page (lru ++ s.stemAt b) rep with
      | (s1, .error e) => (s1, .error e)
      | (s1, .ok rep1) =>
        addRuleLoop start fuel s1
          (let c := s.cell b
           let stack := if b ≠ start then
             (let st := if c.right ≠ 0 then (c.right, lru) :: stack else stack
              if c.left ≠ 0 then (c.left, lru) :: st else st) else stack
           if c.child ≠ 0 then (c.child, lru ++ s.stemAt b) :: stack else stack) rep1 := by
  rw [addRuleLoop]; rfl

theorem ruleStep_ids (s : State) (isPage : Bool) (cur : Bytes) (rep : Report) (lo : Nat)
    (h : IdsBetween lo s.hdrId rep.ids) : IdsOk lo s (ruleStep s isPage cur rep) := by
  unfold ruleStep
  split
  · have hi := addPageCore_ids s cur false
    rcases hc : s.addPageCore cur false with ⟨s1, n, res⟩
    rw [hc] at hi
    cases res with
    | error e => exact AccOk.error hi.1
    | ok r => exact AccOk.ok hi.1 (h.add (hi.2 r rfl))
  · exact AccOk.ok (Nat.le_refl _) h

theorem addRuleLoop_ids (start : Nat) : ∀ (fuel : Nat) (s : State) (stack : List (Nat × Bytes)) (rep : Report)
    (lo : Nat), IdsBetween lo s.hdrId rep.ids → IdsOk lo s (addRuleLoop start fuel s stack rep) := by
  intro fuel
  induction fuel with
  | zero => intro s stack rep lo h; rw [addRuleLoop]; exact AccOk.ok (Nat.le_refl _) h
  | succ fuel ih =>
    intro s stack rep lo h
    cases stack with
    | nil =>
      rw [addRuleLoop]
      · exact AccOk.ok (Nat.le_refl _) h
      · omega
    | cons top stack =>
      rcases top with ⟨b, lru⟩
      have hr := ruleStep_ids s (s.cell b).flags.page (lru ++ s.stemAt b) rep lo h
      rw [addRuleLoop_cons]
      rcases hs : ruleStep s (s.cell b).flags.page (lru ++ s.stemAt b) rep with ⟨s1, e | rep1⟩
      · rw [hs] at hr; exact AccOk.error hr.1
      · rw [hs] at hr
        exact AccOk.trans hr.1 (ih s1 _ rep1 lo (hr.2 rep1 rfl))

theorem addRule_ids (s : State) (anchor : Bytes) (r : Rule) (w : Bool) :
    IdsOk s.hdrId s (s.addRule anchor r w) := by
  unfold addRule
  simp only
  split
  · exact AccOk.ok (Nat.le_refl _) (IdsBetween.nil (Nat.le_refl _))
  · refine AccOk.trans (s1 := State.modCell _ _ _) ?_ (addRuleLoop_ids _ _ _ _ _ _ ?_)
    · simp
    · simp only [hdrId_modCell, hdrId_addLru]
      exact IdsBetween.nil (Nat.le_refl _)

/-! ### `create_webentity` -/

theorem createWebentity_ids (s : State) (ps : List Bytes) : IdsOk s.hdrId s (s.createWebentity ps) := by
  obtain ⟨hle, hsome, hnone, herr⟩ := addPrefixes_ids s ps false
  unfold createWebentity
  rcases h : s.addPrefixes ps false with ⟨s1, res⟩
  rw [h] at hle hsome hnone herr
  simp only at hle hsome hnone herr
  rcases res with e | ⟨_ | id, l⟩
  · exact AccOk.error hle
  · exact AccOk.ok hle (IdsBetween.nil hle)
  · obtain ⟨hid, hs1⟩ := hsome id l rfl
    refine AccOk.ok hle ?_
    simp only [Report.ids_single, Option.toList, hid, hs1]
    exact IdsBetween.single _

/-- one creation request yields one key (one id, shared by all the prefixes it lists) -/
theorem one_id_per_request (s s' : State) (ps : List Bytes) (r : Report)
    (h : s.createWebentity ps = (s', .ok r)) : r.we.length = 1 := by
  unfold createWebentity at h
  rcases ha : s.addPrefixes ps false with ⟨s1, e | ⟨id, l⟩⟩
  · rw [ha] at h; simp at h
  · rw [ha] at h
    simp only [Prod.mk.injEq, Except.ok.injEq] at h
    rw [← h.2]; rfl

/-- after the id-stamping loop of `__add_prefixes`, every listed block carries the id -/
theorem we_foldl_modCell (id : Nat) : ∀ (l : List (Bytes × Nat)) (s : State) (j : Nat), j < s.trie.size →
    ((s.cell j).we = id ∨ ∃ pn ∈ l, pn.2 = j) →
    ((l.foldl (fun st pn => st.modCell pn.2 (fun c => { c with we := id })) s).cell j).we = id
  | [], s, j, _, h => by
    rcases h with h | ⟨pn, hm, _⟩
    · exact h
    · cases hm
  | pn :: l, s, j, hj, h => by
    rw [List.foldl_cons]
    apply we_foldl_modCell id l _ j (by rw [trie_modCell_size]; exact hj)
    rw [cell_modCell]
    by_cases hpj : pn.2 = j
    · left; rw [if_pos ⟨hpj, hj⟩]
    · rw [if_neg (fun hc => hpj hc.1)]
      rcases h with h | ⟨qn, hm, hq⟩
      · exact Or.inl h
      · rcases List.mem_cons.mp hm with e | hm
        · subst e; exact absurd hq hpj
        · exact Or.inr ⟨qn, hm, hq⟩

/-- one creation request, one id: the prefixes reported are exactly the valid ones found by the scan, and
    the block of every one of them is stamped with the single id the request drew -/
theorem addPrefixes_same_id (s : State) (ps : List Bytes) (best : Bool) (id : Nat) (l : List Bytes)
    (h : (s.addPrefixes ps best).2 = .ok (some id, l)) :
    l = (addPrefixesScan s ps [] 0).2.1.map (·.1) ∧
    ∀ pn ∈ (addPrefixesScan s ps [] 0).2.1, pn.2 < (addPrefixesScan s ps [] 0).1.trie.size →
      (((s.addPrefixes ps best).1.cell pn.2).we = id) := by
  unfold addPrefixes at h ⊢
  rcases hs : addPrefixesScan s ps [] 0 with ⟨s1, valid, nInv⟩
  rw [hs] at h
  simp only at h ⊢
  split at h
  · cases h
  · split at h
    · cases h
    · simp only [Except.ok.injEq, Prod.mk.injEq, Option.some.injEq] at h
      obtain ⟨hid, hl⟩ := h
      rename_i h1 h2
      rw [if_neg h1, if_neg h2]
      refine ⟨hl.symm, fun pn hm hlt => ?_⟩
      simp only
      rw [hid]
      exact we_foldl_modCell id valid s1.genId.1 pn.2 hlt (Or.inr ⟨pn, hm, rfl⟩)

/-! ### requests that never touch the counter -/

@[simp] theorem hdrId_deleteWebentity (s : State) (weid : Nat) (ps : List Bytes) :
    (s.deleteWebentity weid ps).1.hdrId = s.hdrId := by
  unfold deleteWebentity
  split
  · rfl
  · exact hdrId_foldl_modCell (fun pn : Bytes × Nat => pn.2) (fun _ c => { c with we := 0 }) _ s

@[simp] theorem hdrId_addPrefix (s : State) (pfx : Bytes) (weid : Nat) :
    (s.addPrefix pfx weid).1.hdrId = s.hdrId := by
  unfold addPrefix
  simp only
  split <;> simp

@[simp] theorem hdrId_removePrefix (s : State) (pfx : Bytes) (weid : Option Nat) :
    (s.removePrefix pfx weid).1.hdrId = s.hdrId := by
  unfold removePrefix
  simp only
  repeat' split
  all_goals simp

@[simp] theorem hdrId_movePrefix (s : State) (pfx : Bytes) (target : Nat) (source : Option Nat) :
    (s.movePrefix pfx target source).1.hdrId = s.hdrId := by
  have h1 := hdrId_removePrefix s pfx source
  unfold movePrefix
  rcases h : s.removePrefix pfx source with ⟨s1, e | u⟩
  · rw [h] at h1; exact h1
  · rw [h] at h1; simp only [hdrId_addPrefix]; exact h1

@[simp] theorem hdrId_removeRule (s : State) (anchor : Bytes) : (s.removeRule anchor).1.hdrId = s.hdrId := by
  unfold removeRule
  split
  · rfl
  · simp only
    split
    · rfl
    · simp

/-- close + reopen: the counter is part of the file -/
@[simp] theorem reopen_keeps_counter (s : State) (d : Rule) (rs : List (Bytes × Rule)) :
    (s.reopen d rs).hdrId = s.hdrId := rfl

/-! ### `clear`, fresh indexes, rule installation -/

theorem installRules_le : ∀ (rs : List (Bytes × Rule)) (s : State) (w : Bool),
    s.hdrId ≤ (installRules s rs w).1.hdrId
  | [], _, _ => Nat.le_refl _
  | (a, r) :: rest, s, w => by
    have h := (addRule_ids s a r w).1
    rcases he : s.addRule a r w with ⟨s1, e | rep⟩
    · rw [he] at h; simp only [installRules, he]; exact h
    · rw [he] at h; simp only [installRules, he]; exact Nat.le_trans h (installRules_le rest s1 w)

theorem fresh_counter (cfg : Config) (d : Rule) (log : List Write) : (State.fresh cfg d [] log).1.hdrId = 0 := rfl

/-- `clear` starts the numbering again: without rules the counter is 0; with rules it is whatever
    installing them into an index whose counter is 0 produces -/
theorem clear_resets (s : State) (d : Option Rule) :
    (s.clear d none).1.hdrId = 0 ∧
    ∀ rs, ∃ s0 : State, s0.hdrId = 0 ∧ s.clear d (some rs) = installRules s0 rs true :=
  ⟨rfl, fun _ => ⟨_, rfl, rfl⟩⟩

/-! ### MAIN: one request, then any history -/

theorem ofExcept_report {x : Except Err Report} {r : Report} (h : Ans.ofExcept .report x = .report r) :
    x = .ok r := by
  cases x with
  | error e => cases h
  | ok a => cases h; rfl

theorem step_of_idsOk {s : State} {x : State × Except Err Report} (h : IdsOk s.hdrId s x) :
    s.hdrId ≤ x.1.hdrId ∧ ∀ r, Ans.ofExcept .report x.2 = .report r → IdsBetween s.hdrId x.1.hdrId r.ids :=
  ⟨h.1, fun r hr => h.2 r (ofExcept_report hr)⟩

theorem step_of_unit {s : State} {α : Type} {x : State × Except Err α} (h : x.1.hdrId = s.hdrId) :
    s.hdrId ≤ x.1.hdrId ∧
    ∀ r, Ans.ofExcept (fun _ => Ans.unit) x.2 = .report r → IdsBetween s.hdrId x.1.hdrId r.ids := by
  refine ⟨Nat.le_of_eq h.symm, fun r hr => ?_⟩
  rcases x with ⟨s1, e | a⟩ <;> cases hr

/-- Every id reported by a request is fresh: greater than the counter before the request — which bounds
    every id issued earlier — and the counter ends at or above every id issued. -/
theorem step_ids (s : State) (op : Op) (hop : ∀ d rs, op ≠ .clear d rs) :
    s.hdrId ≤ (s.step op).1.hdrId ∧
    ∀ r, (s.step op).2 = .report r → IdsBetween s.hdrId (s.step op).1.hdrId r.ids := by
  cases op with
  | addPage l c => exact step_of_idsOk (addPage_ids s l c)
  | addPages ls c => exact step_of_idsOk (addPages_ids s ls c)
  | addLinks ls => exact step_of_idsOk (addLinks_ids s ls)
  | batch d => exact step_of_idsOk (batch_ids s d)
  | create ps => exact step_of_idsOk (createWebentity_ids s ps)
  | delete w ps => exact step_of_unit (hdrId_deleteWebentity s w ps)
  | addPrefix p w => exact step_of_unit (hdrId_addPrefix s p w)
  | removePrefix p w => exact step_of_unit (hdrId_removePrefix s p w)
  | movePrefix p t f => exact step_of_unit (hdrId_movePrefix s p t f)
  | addRule a r => exact step_of_idsOk (addRule_ids s a r true)
  | removeRule a => exact step_of_unit (hdrId_removeRule s a)
  | reopen d rs => exact ⟨Nat.le_refl _, fun r hr => by cases hr⟩
  | clear d rs => exact absurd rfl (hop d rs)

/-- the ids an answer announces -/
def Ans.ids : Ans → List Nat
  | .report r => r.ids
  | _ => []

/-- all the ids issued along a history, in order -/
def issued (s : State) : List Op → List Nat
  | [] => []
  | op :: ops => (s.step op).2.ids ++ issued (s.step op).1 ops

theorem IdsBetween.append {lo mid hi : Nat} {a b : List Nat} (ha : IdsBetween lo mid a) (hb : IdsBetween mid hi b) :
    IdsBetween lo hi (a ++ b) := by
  refine ⟨Nat.le_trans ha.1 hb.1, ?_, ?_⟩
  · rw [List.pairwise_append]
    exact ⟨ha.2.1, hb.2.1, fun i hi j hj => Nat.lt_of_le_of_lt (ha.2.2 i hi).2 (hb.2.2 j hj).1⟩
  · intro i hi
    rcases List.mem_append.mp hi with hi | hi
    · exact ⟨(ha.2.2 i hi).1, Nat.le_trans (ha.2.2 i hi).2 hb.1⟩
    · exact ⟨Nat.lt_of_le_of_lt ha.1 (hb.2.2 i hi).1, (hb.2.2 i hi).2⟩

theorem step_ansIds (s : State) (op : Op) (hop : ∀ d rs, op ≠ .clear d rs) :
    IdsBetween s.hdrId (s.step op).1.hdrId (s.step op).2.ids := by
  obtain ⟨hle, hr⟩ := step_ids s op hop
  cases ha : (s.step op).2 with
  | report r => exact hr r ha
  | _ => exact IdsBetween.nil hle

theorem run_idsBetween : ∀ (ops : List Op) (s : State), (∀ op ∈ ops, ∀ d rs, op ≠ .clear d rs) →
    IdsBetween s.hdrId (s.run ops).hdrId (issued s ops)
  | [], _, _ => IdsBetween.nil (Nat.le_refl _)
  | op :: ops, s, h =>
    (step_ansIds s op (h op (List.mem_cons_self ..))).append
      (run_idsBetween ops (s.step op).1 (fun o ho => h o (List.mem_cons_of_mem _ ho)))

/-- Along any history without `clear` — with deletions, with close/reopen — the ids issued are strictly
    increasing, all above the starting counter and at or below the final one. -/
theorem run_ids (s : State) (ops : List Op) (hops : ∀ op ∈ ops, ∀ d rs, op ≠ .clear d rs) :
    (issued s ops).Pairwise (· < ·) ∧ ∀ i ∈ issued s ops, s.hdrId < i ∧ i ≤ (s.run ops).hdrId :=
  (run_idsBetween ops s hops).2

theorem run_counter_mono (s : State) (ops : List Op) (hops : ∀ op ∈ ops, ∀ d rs, op ≠ .clear d rs) :
    s.hdrId ≤ (s.run ops).hdrId := (run_idsBetween ops s hops).1

#print axioms step_ids
#print axioms run_ids

end Traph

import Traph
/-! `forPrefixes`: the per-prefix loop shared by the webentity queries. -/
namespace Traph
open State

theorem forPrefixes_go (s : State) {α} (f : Nat → Bytes → List α) :
    ∀ (ps : List Bytes) (acc : Except Err (List α)),
      ps.foldl (s.forPrefixesStep f) acc =
      match acc with
      | .error e => .error e
      | .ok xs =>
        if ps.all (fun p => (s.lruNode (lruIter p)).isSome) then
          .ok (xs ++ ps.flatMap (fun p => match s.lruNode (lruIter p) with | some n => f n p | none => []))
        else .error .traph := by
  intro ps
  induction ps with
  | nil => intro acc; cases acc <;> simp
  | cons p ps ih =>
    intro acc
    rw [List.foldl_cons, ih]
    cases acc with
    | error e => simp [forPrefixesStep]
    | ok xs =>
      cases hn : s.lruNode (lruIter p) with
      | none => simp [forPrefixesStep, hn]
      | some n => simp [forPrefixesStep, hn, List.append_assoc]

/-- the answer is an error iff some prefix is not in the trie — and then it is the library's own error;
    otherwise it is the concatenation, prefix by prefix in the given order, of the per-prefix answers -/
theorem forPrefixes_eq (s : State) {α} (ps : List Bytes) (f : Nat → Bytes → List α) :
    s.forPrefixes ps f =
      if ps.all (fun p => (s.lruNode (lruIter p)).isSome) then
        .ok (ps.flatMap (fun p => match s.lruNode (lruIter p) with | some n => f n p | none => []))
      else .error .traph := by
  unfold forPrefixes
  rw [forPrefixes_go]
  simp

theorem forPrefixes_mem (s : State) {α} (ps : List Bytes) (f : Nat → Bytes → List α) (xs : List α)
    (h : s.forPrefixes ps f = .ok xs) (x : α) :
    x ∈ xs ↔ ∃ p ∈ ps, ∃ n, s.lruNode (lruIter p) = some n ∧ x ∈ f n p := by
  rw [forPrefixes_eq] at h
  split at h
  · cases h
    simp only [List.mem_flatMap]
    constructor
    · rintro ⟨p, hp, hx⟩
      cases hn : s.lruNode (lruIter p) with
      | none => simp [hn] at hx
      | some n => exact ⟨p, hp, n, hn, by simpa [hn] using hx⟩
    · rintro ⟨p, hp, n, hn, hx⟩
      exact ⟨p, hp, by simpa [hn] using hx⟩
  · cases h

theorem forPrefixes_err (s : State) {α} (ps : List Bytes) (f : Nat → Bytes → List α) (e : Err)
    (h : s.forPrefixes ps f = .error e) : e = .traph ∧ ∃ p ∈ ps, s.lruNode (lruIter p) = none := by
  rw [forPrefixes_eq] at h
  split at h
  · cases h
  · rename_i hall
    cases h
    refine ⟨rfl, ?_⟩
    apply Classical.byContradiction
    intro hno
    apply hall
    rw [List.all_eq_true]
    intro p hp
    cases hh : s.lruNode (lruIter p) with
    | none => exact absurd ⟨p, hp, hh⟩ hno
    | some n => rfl

end Traph

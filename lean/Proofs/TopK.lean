import Traph

namespace Traph.State

/-- strict lexicographic order on `(indegree, arrival)` -/
def keyLt (x y : Nat × Nat × Bytes) : Prop := x.1 < y.1 ∨ (x.1 = y.1 ∧ x.2.1 < y.2.1)

def SortedAsc (l : List (Nat × Nat × Bytes)) : Prop := l.Pairwise keyLt

theorem keyLt_trans {a b c : Nat × Nat × Bytes} (h1 : keyLt a b) (h2 : keyLt b c) : keyLt a c := by
  unfold keyLt at *; omega

theorem keyLt_irrefl (a : Nat × Nat × Bytes) : ¬ keyLt a a := by
  unfold keyLt; omega

theorem keyLt_total {a b : Nat × Nat × Bytes} (hne : a.2.1 ≠ b.2.1) (h : ¬ keyLt a b) : keyLt b a := by
  unfold keyLt at *; omega

theorem keyLt_fst_le {a b : Nat × Nat × Bytes} (h : keyLt a b) : a.1 ≤ b.1 := by
  unfold keyLt at h; omega

theorem heapCond_iff (x y : Nat × Nat × Bytes) :
    (decide (x.1 < y.1) || (decide (x.1 = y.1) && decide (x.2.1 < y.2.1))) = true ↔ keyLt x y := by
  simp [keyLt]

/-! ### 1, 2 : `heapInsert` -/

theorem heapInsert_perm (x : Nat × Nat × Bytes) (l : List (Nat × Nat × Bytes)) :
    (heapInsert x l).Perm (x :: l) := by
  induction l with
  | nil => exact List.Perm.refl _
  | cons y ys ih =>
    unfold heapInsert
    split
    · exact List.Perm.refl _
    · exact (List.Perm.cons y ih).trans (List.Perm.swap x y ys)

theorem mem_heapInsert {x z : Nat × Nat × Bytes} {l : List (Nat × Nat × Bytes)} :
    z ∈ heapInsert x l ↔ z = x ∨ z ∈ l := by
  rw [(heapInsert_perm x l).mem_iff, List.mem_cons]

theorem heapInsert_length (x : Nat × Nat × Bytes) (l : List (Nat × Nat × Bytes)) :
    (heapInsert x l).length = l.length + 1 := by
  rw [(heapInsert_perm x l).length_eq, List.length_cons]

theorem heapInsert_sorted (x : Nat × Nat × Bytes) (l : List (Nat × Nat × Bytes))
    (hl : SortedAsc l) (hx : ∀ y ∈ l, y.2.1 ≠ x.2.1) : SortedAsc (heapInsert x l) := by
  unfold SortedAsc at *
  induction l with
  | nil => simp [heapInsert]
  | cons y ys ih =>
    rw [List.pairwise_cons] at hl
    obtain ⟨hy, hys⟩ := hl
    unfold heapInsert
    by_cases hc : keyLt x y
    · rw [if_pos ((heapCond_iff x y).2 hc)]
      refine List.pairwise_cons.2 ⟨?_, List.pairwise_cons.2 ⟨hy, hys⟩⟩
      intro z hz
      rcases List.mem_cons.1 hz with rfl | hz
      · exact hc
      · exact keyLt_trans hc (hy z hz)
    · rw [if_neg (fun h => hc ((heapCond_iff x y).1 h))]
      refine List.pairwise_cons.2 ⟨?_, ih hys (fun z hz => hx z (List.mem_cons_of_mem _ hz))⟩
      intro z hz
      rcases mem_heapInsert.1 hz with rfl | hz
      · exact keyLt_total (Ne.symm (hx y (List.mem_cons_self ..))) hc
      · exact hy z hz

/-! ### 3 : the fold invariant -/

/-- invariant of the bounded heap `h` after the prefix `ys`, with `dr` the elements dropped so far -/
structure Inv (k : Nat) (h dr ys : List (Nat × Nat × Bytes)) : Prop where
  sorted : SortedAsc h
  perm : (h ++ dr).Perm ys
  len : h.length = min k ys.length
  low : ∀ d ∈ dr, ∀ y ∈ h, keyLt d y

theorem Inv.nil (k : Nat) : Inv k [] [] [] :=
  ⟨List.Pairwise.nil, List.Perm.refl _, by simp, by simp⟩

theorem Inv.step {k : Nat} {h dr ys : List (Nat × Nat × Bytes)} {x : Nat × Nat × Bytes}
    (inv : Inv k h dr ys) (hx : ∀ y ∈ ys, y.2.1 ≠ x.2.1) :
    ∃ dr', Inv k (boundedPush k h x) dr' (ys ++ [x]) := by
  obtain ⟨hs, hp, hlen, hlow⟩ := inv
  have hmem : ∀ y ∈ h, y ∈ ys := fun y hy => hp.mem_iff.1 (List.mem_append_left _ hy)
  have hs1 : SortedAsc (heapInsert x h) := heapInsert_sorted x h hs (fun y hy => hx y (hmem y hy))
  have hp1 := heapInsert_perm x h
  have hl1 := heapInsert_length x h
  have hplen : h.length + dr.length = ys.length := by
    have := hp.length_eq; rwa [List.length_append] at this
  unfold boundedPush
  by_cases hk : (heapInsert x h).length > k
  · simp only [hk, if_true]
    -- the minimum `m` is dropped
    cases hh : heapInsert x h with
    | nil => rw [hh] at hl1; simp at hl1
    | cons m t =>
      rw [hh] at hs1 hp1 hl1 hk
      unfold SortedAsc at hs1
      rw [List.pairwise_cons] at hs1
      obtain ⟨hm, ht⟩ := hs1
      refine ⟨m :: dr, ⟨?_, ?_, ?_, ?_⟩⟩
      · simpa [SortedAsc] using ht
      · -- t ++ m :: dr ~ m :: t ++ dr ~ x :: h ++ dr ~ x :: ys ~ ys ++ [x]
        have e1 : (t ++ m :: dr).Perm ((m :: t) ++ dr) := List.perm_middle
        have e2 : ((m :: t) ++ dr).Perm ((x :: h) ++ dr) := List.Perm.append_right dr hp1
        have e3 : ((x :: h) ++ dr).Perm (x :: ys) := List.Perm.cons x hp
        have e4 : (x :: ys).Perm (ys ++ [x]) := (List.perm_append_singleton x ys).symm
        simpa using e1.trans (e2.trans (e3.trans e4))
      · simp only [List.drop_one, List.tail_cons, List.length_append, List.length_cons,
          List.length_nil] at *
        omega
      · intro d hd y hy
        have hy' : y ∈ t := by simpa using hy
        rcases List.mem_cons.1 hd with rfl | hd
        · exact hm y hy'
        · have hyh : y ∈ heapInsert x h := by rw [hh]; exact List.mem_cons_of_mem _ hy'
          rcases mem_heapInsert.1 hyh with rfl | hyh
          · -- y is the new element; the dropped minimum `m` is below it
            have hmy : keyLt m y := hm y hy'
            have hmh : m ∈ heapInsert y h := by rw [hh]; exact List.mem_cons_self ..
            rcases mem_heapInsert.1 hmh with rfl | hmh
            · exact absurd hmy (keyLt_irrefl _)
            · exact keyLt_trans (hlow d hd m hmh) hmy
          · exact hlow d hd y hyh
  · simp only [hk, if_false]
    -- nothing has been dropped yet
    have hdr : dr = [] := by
      apply List.eq_nil_of_length_eq_zero
      omega
    subst hdr
    refine ⟨[], ⟨hs1, ?_, ?_, by simp⟩⟩
    · have e3 : (x :: h).Perm (x :: ys) := List.Perm.cons x (by simpa using hp)
      simpa using hp1.trans (e3.trans (List.perm_append_singleton x ys).symm)
    · simp only [List.length_append, List.length_cons, List.length_nil] at *
      omega

theorem foldl_inv (k : Nat) : ∀ (xs h dr ys : List (Nat × Nat × Bytes)),
    Inv k h dr ys → ((ys ++ xs).map (·.2.1)).Nodup →
    ∃ dr', Inv k (xs.foldl (boundedPush k) h) dr' (ys ++ xs) := by
  intro xs
  induction xs with
  | nil => intro h dr ys inv _; exact ⟨dr, by simpa using inv⟩
  | cons x xs ih =>
    intro h dr ys inv hnd
    have hx : ∀ y ∈ ys, y.2.1 ≠ x.2.1 := by
      intro y hy
      rw [List.map_append, List.nodup_append] at hnd
      exact hnd.2.2 _ (List.mem_map_of_mem hy) _ (List.mem_map_of_mem (List.mem_cons_self ..))
    obtain ⟨dr1, inv1⟩ := inv.step hx
    have := ih (boundedPush k h x) dr1 (ys ++ [x]) inv1 (by simpa using hnd)
    simpa using this

theorem topK_inv (k : Nat) (xs : List (Nat × Nat × Bytes)) (hnd : (xs.map (·.2.1)).Nodup) :
    ∃ dr, Inv k (topK k xs) dr xs := by
  simpa [topK] using foldl_inv k xs [] [] [] (Inv.nil k) (by simpa using hnd)

theorem topK_sorted (k : Nat) (xs : List (Nat × Nat × Bytes)) (hnd : (xs.map (·.2.1)).Nodup) :
    SortedAsc (topK k xs) := by
  obtain ⟨_, inv⟩ := topK_inv k xs hnd
  exact inv.sorted

theorem topK_sublist_perm (k : Nat) (xs : List (Nat × Nat × Bytes)) (hnd : (xs.map (·.2.1)).Nodup) :
    ∃ dropped, (topK k xs ++ dropped).Perm xs := by
  obtain ⟨dr, inv⟩ := topK_inv k xs hnd
  exact ⟨dr, inv.perm⟩

theorem topK_length (k : Nat) (xs : List (Nat × Nat × Bytes)) (hnd : (xs.map (·.2.1)).Nodup) :
    (topK k xs).length = min k xs.length := by
  obtain ⟨_, inv⟩ := topK_inv k xs hnd
  exact inv.len

theorem topK_max (k : Nat) (xs : List (Nat × Nat × Bytes)) (hnd : (xs.map (·.2.1)).Nodup) :
    ∀ kept ∈ topK k xs, ∀ d, d ∈ xs → d ∉ topK k xs → keyLt d kept := by
  obtain ⟨dr, inv⟩ := topK_inv k xs hnd
  intro kept hkept d hd hnot
  have : d ∈ topK k xs ++ dr := inv.perm.mem_iff.2 hd
  rcases List.mem_append.1 this with h | h
  · exact absurd h hnot
  · exact inv.low d h kept hkept

/-- in particular no omitted page has a larger indegree than a listed one -/
theorem topK_max_indegree (k : Nat) (xs : List (Nat × Nat × Bytes)) (hnd : (xs.map (·.2.1)).Nodup) :
    ∀ kept ∈ topK k xs, ∀ d, d ∈ xs → d ∉ topK k xs → d.1 ≤ kept.1 :=
  fun kept hk d hd hn => keyLt_fst_le (topK_max k xs hnd kept hk d hd hn)

/-! ### 4 : the reported order -/

theorem topK_reverse_nonincreasing (k : Nat) (xs : List (Nat × Nat × Bytes))
    (hnd : (xs.map (·.2.1)).Nodup) :
    ((topK k xs).reverse.map (·.1)).Pairwise (· ≥ ·) := by
  have hs := topK_sorted k xs hnd
  unfold SortedAsc at hs
  rw [List.pairwise_map, List.pairwise_reverse]
  exact hs.imp (fun h => keyLt_fst_le h)

/-! ### 5 : the arrival numbers assigned by `enumFrom` are distinct -/

theorem enumFrom_fst_ge {α} (l : List α) : ∀ (i : Nat), ∀ p ∈ enumFrom i l, i ≤ p.1 := by
  induction l with
  | nil => intro i p hp; simp [enumFrom] at hp
  | cons x xs ih =>
    intro i p hp
    simp only [enumFrom, List.mem_cons] at hp
    rcases hp with rfl | hp
    · exact Nat.le_refl _
    · exact Nat.le_of_succ_le (ih (i + 1) p hp)

theorem enumFrom_arrivals_nodup {α} (i : Nat) (l : List α) : ((enumFrom i l).map (·.1)).Nodup := by
  induction l generalizing i with
  | nil => simp [enumFrom]
  | cons x xs ih =>
    simp only [enumFrom, List.map_cons, List.nodup_cons]
    refine ⟨?_, ih (i + 1)⟩
    intro hmem
    obtain ⟨p, hp, hpi⟩ := List.mem_map.1 hmem
    have := enumFrom_fst_ge xs (i + 1) p hp
    omega

theorem mostLinked_keys_nodup (pages : List (Bytes × Nat)) :
    ((((enumFrom 1 pages).map (fun ip => (ip.2.2, ip.1, ip.2.1))).map (·.2.1))).Nodup := by
  rw [List.map_map]
  exact enumFrom_arrivals_nodup 1 pages

#print axioms heapInsert_perm
#print axioms heapInsert_sorted
#print axioms topK_sorted
#print axioms topK_length
#print axioms topK_max
#print axioms topK_sublist_perm
#print axioms topK_reverse_nonincreasing
#print axioms enumFrom_arrivals_nodup
#print axioms mostLinked_keys_nodup

end Traph.State

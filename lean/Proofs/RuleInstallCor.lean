import Proofs.RuleFuel
/-! Consequences of `C06_rule_install` (Proofs/RuleInstall.lean, Proofs/RuleFuel.lean):
    * the set of pages and their crawled marks are untouched by a rule installation (`C06_rule_install_pages`);
    * every page beneath the anchor is re-inserted in a state that already carries the new rule table and
      extends the attachments of the index before; what that re-insertion attaches stays attached until the
      end (`reinsert_visit_state`), hence the page finally resolves at a stem-prefix at least as long as
      max(E, K) of its own re-insertion (`C06_rule_install_resolves`);
    * an LRU none of whose stem-prefixes is among the reported prefixes of the created webentities resolves
      as before (`C06_rule_install_others`);
    * the order of the re-insertions matters for the ids (`order_matters_*`, evaluated on a concrete index):
      the property's "in some order" is the model's DFS order. -/
set_option linter.unusedSimpArgs false
namespace Traph
open State Layout

/-! ### resolution only looks at the stem-prefixes of the query -/

theorem LongestAt.congr_on {M M' : LRU → Nat} {stems : LRU}
    (e : ∀ j, 0 < j → j ≤ stems.length → M' (stems.take j) = M (stems.take j)) {k : Nat}
    (h : LongestAt M stems k) : LongestAt M' stems k := by
  obtain ⟨h1, h2, h3, h4⟩ := h
  exact ⟨h1, h2, by rw [e k h1 h2]; exact h3, fun j hj hjl => by rw [e j (by omega) hjl]; exact h4 j hj hjl⟩

theorem NoneAt.congr_on {M M' : LRU → Nat} {stems : LRU}
    (e : ∀ j, 0 < j → j ≤ stems.length → M' (stems.take j) = M (stems.take j))
    (h : NoneAt M stems) : NoneAt M' stems := fun j h1 h2 => by rw [e j h1 h2]; exact h j h1 h2

theorem retrieveWebentity_congr_on {s s' : State} {t t' : T} (h : Shape s t) (h' : Shape s' t') (q : Bytes)
    (e : ∀ j, 0 < j → j ≤ (lruIter q).length → s'.weMap ((lruIter q).take j) = s.weMap ((lruIter q).take j)) :
    s'.retrieveWebentity q = s.retrieveWebentity q := by
  cases hr : s.retrieveWebentity q with
  | ok w =>
    obtain ⟨k, hl, rfl⟩ := (retrieveWebentity_ok_iff h q w).mp hr
    exact (retrieveWebentity_ok_iff h' q _).mpr ⟨k, hl.congr_on e, (e k hl.1 hl.2.1).symm⟩
  | error er =>
    obtain ⟨rfl, hn⟩ := (retrieveWebentity_error_iff h q er).mp hr
    exact (retrieveWebentity_error_iff h' q _).mpr ⟨rfl, hn.congr_on e⟩

theorem retrievePrefix_congr_on {s s' : State} {t t' : T} (h : Shape s t) (h' : Shape s' t') (q : Bytes)
    (e : ∀ j, 0 < j → j ≤ (lruIter q).length → s'.weMap ((lruIter q).take j) = s.weMap ((lruIter q).take j)) :
    s'.retrievePrefix q = s.retrievePrefix q := by
  cases hr : s.retrievePrefix q with
  | ok w =>
    obtain ⟨k, hl, rfl⟩ := (retrievePrefix_ok_iff h q w).mp hr
    exact (retrievePrefix_ok_iff h' q _).mpr ⟨k, hl.congr_on e, rfl⟩
  | error er =>
    obtain ⟨rfl, hn⟩ := (retrievePrefix_error_iff h q er).mp hr
    exact (retrievePrefix_error_iff h' q _).mpr ⟨rfl, hn.congr_on e⟩

/-- a map that only gains attachments resolves every query at a stem-prefix at least as long -/
theorem LongestAt.mono {M M' : LRU → Nat} {stems : LRU} (hm : ∀ p, M p ≠ 0 → M' p = M p) {k : Nat}
    (h : LongestAt M stems k) :
    ∃ k', k ≤ k' ∧ LongestAt M' stems k' ∧ (k' = k → M' (stems.take k') = M (stems.take k)) := by
  have hk : M' (stems.take k) = M (stems.take k) := hm _ h.2.2.1
  rcases longest_or_none M' stems with hn | ⟨k', hl⟩
  · have := hn k h.1 h.2.1
    rw [hk] at this
    exact absurd this h.2.2.1
  · refine ⟨k', ?_, hl, fun e => by rw [e]; exact hk⟩
    apply Nat.le_of_not_lt
    intro hlt
    have := hl.2.2.2 k hlt h.2.1
    rw [hk] at this
    exact h.2.2.1 this

/-! ### (3a) pages and crawled marks -/

/-- a rule installation leaves the set of pages and the set of crawled pages exactly as they were, and its
    report counts no page -/
theorem C06_rule_install_pages {s : State} {t : T} (h : Shape s t) (hi : Inv s t) (anchor : Bytes) (r : Rule)
    (hne : lruIter anchor ≠ []) :
    ∃ t', Shape (s.addRule anchor r true).1 t' ∧
      (∀ p, IsPage (s.addRule anchor r true).1 t' p ↔ IsPage s t p) ∧
      (∀ p, IsCrawled (s.addRule anchor r true).1 t' p ↔ IsCrawled s t p) ∧
      (∀ rp, (s.addRule anchor r true).2 = .ok rp → rp.pages = 0) := by
  obtain ⟨t', x, f⟩ := addRule_step h anchor r true
  obtain ⟨a, hr⟩ := f hne hi
  refine ⟨t', x.shape, fun p => by rw [a.page]; simp, fun p => ⟨fun hc => ?_, fun hc => a.must p (Or.inl hc)⟩, hr⟩
  rcases a.may p hc with hc | ⟨y, hy, _⟩
  · exact hc
  · simp at hy

/-! ### the states a re-insertion goes through -/

theorem reinsert_append : ∀ (L1 L2 : List Bytes) (s : State) (rep : Report),
    s.reinsert (L1 ++ L2) rep =
      match s.reinsert L1 rep with
      | (s1, .error e) => (s1, .error e)
      | (s1, .ok rep1) => s1.reinsert L2 rep1
  | [], L2, s, rep => rfl
  | l :: L1, L2, s, rep => by
    simp only [List.cons_append, State.reinsert]
    rcases s.addPageCore l false with ⟨s1, n1, res⟩
    cases res with
    | error e => rfl
    | ok r1 => exact reinsert_append L1 L2 s1 _

/-- attachments are never moved or removed by re-insertions; the RAM part (rule table) is not touched;
    shape is kept -/
theorem reinsert_keeps : ∀ (L : List Bytes) (s : State) (t : T) (rep : Report), Shape s t →
    (∃ t', Shape (s.reinsert L rep).1 t') ∧
    (∀ p, s.weMap p ≠ 0 → (s.reinsert L rep).1.weMap p = s.weMap p) ∧
    (s.reinsert L rep).1.hdrId ≥ s.hdrId
  | [], s, t, rep, h => ⟨⟨t, h⟩, fun _ _ => rfl, Nat.le_refl _⟩
  | l :: L, s, t, rep, h => by
    obtain ⟨t1, h1⟩ := shape_addPageCore h l false
    have hw : (∀ p, s.weMap p ≠ 0 → (s.addPageCore l false).1.weMap p = s.weMap p) ∧
        s.hdrId ≤ (s.addPageCore l false).1.hdrId := by
      rcases addPageCore_weMap_cases h l false with ⟨_, h3, h4⟩ | ⟨_, _, _, h3, h4⟩ | ⟨_, fl, _, _, h3, hfl, h4⟩
      · exact ⟨fun p _ => by rw [h3], by omega⟩
      · exact ⟨fun p _ => by rw [h3], by omega⟩
      · refine ⟨fun p hp => ?_, by omega⟩
        rw [h3]; unfold mapSetAll
        rw [if_neg]
        intro hm
        obtain ⟨x, hx, rfl⟩ := List.mem_map.mp hm
        exact hp (hfl x hx)
    rcases hA : s.addPageCore l false with ⟨s1, n1, res⟩
    rw [hA] at h1 hw
    simp only at h1 hw
    simp only [State.reinsert, hA]
    cases res with
    | error e => exact ⟨⟨t1, h1⟩, hw.1, hw.2⟩
    | ok r1 =>
      obtain ⟨g1, g2, g3⟩ := reinsert_keeps L s1 t1 (rep.add r1) h1
      refine ⟨g1, fun p hp => ?_, Nat.le_trans hw.2 g3⟩
      rw [g2 p (by rw [hw.1 p hp]; exact hp), hw.1 p hp]

theorem ramEq_createWebentityAuto (s : State) (pfx : Bytes) : RamEq s (s.createWebentityAuto pfx).1 := by
  have scan : ∀ (ps : List Bytes) (s : State) (valid : List (Bytes × Nat)) (nInv : Nat),
      RamEq s (s.addPrefixesScan ps valid nInv).1 := by
    intro ps
    induction ps with
    | nil => intro s valid nInv; exact RamEq.refl s
    | cons p ps ih =>
      intro s valid nInv
      have r1 := ramEq_addLru s (lruIter p) true
      rcases ha : s.addLru (lruIter p) true with ⟨s1, n, hh⟩
      rw [ha] at r1
      simp only [addPrefixesScan, ha]
      split
      · exact r1.trans (ih _ _ _)
      · exact r1.trans (ih _ _ _)
  have pre : RamEq s (s.addPrefixes (lruVariations pfx) true).1 := by
    have r1 := scan (lruVariations pfx) s [] 0
    rcases ha : s.addPrefixesScan (lruVariations pfx) [] 0 with ⟨s1, valid, nInv⟩
    rw [ha] at r1
    simp only [addPrefixes, ha]
    split
    · exact r1
    · split
      · exact r1
      · refine r1.trans ?_
        have fold : ∀ (l : List (Bytes × Nat)) (st : State) (id : Nat),
            RamEq st (l.foldl (fun st pn => st.modCell pn.2 (fun c => { c with we := id })) st) := by
          intro l
          induction l with
          | nil => intro st id; exact RamEq.refl st
          | cons a l ih => intro st id; exact (ramEq_modCell st _ _).trans (ih _ _)
        exact (show RamEq s1 s1.genId.1 from ⟨rfl, rfl⟩).trans (fold valid _ _)
  unfold createWebentityAuto
  split <;> rename_i heq <;> rw [heq] at pre <;> exact pre

theorem ramEq_addPageCore (s : State) (lru : Bytes) (c : Bool) : RamEq s (s.addPageCore lru c).1 := by
  obtain ⟨s2, res, e, hs2, _, _⟩ := addPageCore_cases s lru c
  rw [e]
  rcases hs2 with rfl | ⟨x, rfl⟩
  · exact ramEq_addPageTrie s _ c
  · exact (ramEq_addPageTrie s _ c).trans (ramEq_createWebentityAuto _ x)

theorem ramEq_reinsert : ∀ (L : List Bytes) (s : State) (rep : Report), RamEq s (s.reinsert L rep).1
  | [], s, _ => RamEq.refl s
  | l :: L, s, rep => by
    have r1 := ramEq_addPageCore s l false
    rcases hA : s.addPageCore l false with ⟨s1, n1, res⟩
    rw [hA] at r1
    simp only [State.reinsert, hA]
    cases res with
    | error e => exact r1
    | ok r => exact r1.trans (ramEq_reinsert L s1 _)

/-- (3b) when the whole re-insertion succeeds, every listed page is re-inserted in a state `si` that carries
    the same rule table as the start, extends its attachments, and whose own attachments — and those the
    re-insertion of the page adds — survive to the end -/
theorem reinsert_visit_state {s : State} {t : T} (h : Shape s t) (L : List Bytes) (rep rp : Report)
    (hok : (s.reinsert L rep).2 = .ok rp) {lru : Bytes} (hl : lru ∈ L) :
    ∃ si ti, Shape si ti ∧ RamEq s si ∧
      (∀ p, s.weMap p ≠ 0 → si.weMap p = s.weMap p) ∧
      (∃ r, (si.addPageCore lru false).2.2 = .ok r) ∧
      (∀ p, (si.addPageCore lru false).1.weMap p ≠ 0 →
        (s.reinsert L rep).1.weMap p = (si.addPageCore lru false).1.weMap p) := by
  obtain ⟨L1, L2, rfl⟩ := List.append_of_mem hl
  rw [reinsert_append] at hok ⊢
  obtain ⟨⟨ti, hti⟩, g2, _⟩ := reinsert_keeps L1 s t rep h
  have rq := ramEq_reinsert L1 s rep
  rcases h1 : s.reinsert L1 rep with ⟨si, res⟩
  rw [h1] at hok hti g2 rq
  cases res with
  | error e => simp at hok
  | ok rep1 =>
    simp only at hok hti g2 rq ⊢
    obtain ⟨t', ht'⟩ := shape_addPageCore hti lru false
    refine ⟨si, ti, hti, rq, g2, ?_⟩
    rcases hA : si.addPageCore lru false with ⟨s', n', res'⟩
    rw [hA] at ht'
    simp only [State.reinsert, hA] at hok ⊢
    cases res' with
    | error e => simp at hok
    | ok r =>
      simp only at hok ⊢
      obtain ⟨_, k2, _⟩ := reinsert_keeps L2 s' t' (rep1.add r) ht'
      exact ⟨⟨r, rfl⟩, k2⟩

/-- (3b) a page beneath the anchor, after a successful installation: if its own re-insertion (in the state
    `si` of `reinsert_visit_state`) left it resolving at its `k`-th stem-prefix to webentity `w`, it finally
    resolves at a stem-prefix at least as long, and to `w` itself if at the same one. By `C06_post_creation` /
    `C06_post_no_creation` applied to `si`, that `k`-th prefix is max(E, K) of the page under the new rules. -/
theorem resolves_after {s' sf : State} {t' tf : T} (h' : Shape s' t') (hf : Shape sf tf)
    (hm : ∀ p, s'.weMap p ≠ 0 → sf.weMap p = s'.weMap p) (lru : Bytes) (w : Nat)
    (hr : s'.retrieveWebentity lru = .ok w) :
    ∃ k k', k ≤ k' ∧ LongestAt s'.weMap (lruIter lru) k ∧ LongestAt sf.weMap (lruIter lru) k' ∧
      sf.retrieveWebentity lru = .ok (sf.weMap ((lruIter lru).take k')) ∧
      sf.retrievePrefix lru = .ok ((lruIter lru).take k').flatten ∧
      (k' = k → sf.retrieveWebentity lru = .ok w) := by
  obtain ⟨k, hl, rfl⟩ := (retrieveWebentity_ok_iff h' lru w).mp hr
  obtain ⟨k', hkk, hl', he⟩ := hl.mono hm
  refine ⟨k, k', hkk, hl, hl', (retrieveWebentity_ok_iff hf lru _).mpr ⟨k', hl', rfl⟩,
    (retrievePrefix_ok_iff hf lru _).mpr ⟨k', hl', rfl⟩, fun e => ?_⟩
  rw [(retrieveWebentity_ok_iff hf lru _).mpr ⟨k', hl', rfl⟩, he e]

/-- (3b) creation case: if the re-insertion of the page in state `si` plans a webentity for the stem-prefix
    `K` (K > E under the rule table of `si`), then in any later state `sf` that keeps the attachments made by
    that re-insertion the page resolves at a stem-prefix at least as long as `K`, and to the webentity
    created for `K` (id `si.hdrId + 1`) if at `K` itself -/
theorem created_resolves {si sf : State} {ti tf : T} (hti : Shape si ti) (hf : Shape sf tf) (lru : Bytes)
    (hm : ∀ p, (si.addPageCore lru false).1.weMap p ≠ 0 → sf.weMap p = (si.addPageCore lru false).1.weMap p)
    (hne : lruIter lru ≠ []) {K : Bytes} (hp : si.autoPlan lru = some (some K))
    {k : Nat} (hk0 : 0 < k) (hkl : k ≤ (lruIter lru).length) (hK : K = ((lruIter lru).take k).flatten) :
    ∃ k', k ≤ k' ∧ LongestAt sf.weMap (lruIter lru) k' ∧
      sf.retrieveWebentity lru = .ok (sf.weMap ((lruIter lru).take k')) ∧
      sf.retrievePrefix lru = .ok ((lruIter lru).take k').flatten ∧
      (k' = k → sf.retrieveWebentity lru = .ok (si.hdrId + 1)) := by
  obtain ⟨_, hKf, _, aw, _, _⟩ := C06_post_creation hti lru false hne hp hk0 hkl hK
  have hwfK : ∀ x ∈ (lruIter lru).take k, StemWf x := fun x hx => lruIter_wf lru x (List.mem_of_mem_take hx)
  have hiK : lruIter K = (lruIter lru).take k := by rw [hK]; exact lruIter_flatten _ hwfK
  obtain ⟨hKmem, hKfree⟩ := (mem_freeOf _ _ _).mp hKf
  have hMk : (si.addPageCore lru false).1.weMap ((lruIter lru).take k) = si.hdrId + 1 := by
    rw [aw]; unfold mapAttach
    rw [if_pos ⟨List.mem_map.mpr ⟨K, hKmem, hiK⟩, by rw [← hiK]; exact hKfree⟩]
  have hfk : sf.weMap ((lruIter lru).take k) = si.hdrId + 1 := by
    rw [hm _ (by rw [hMk]; omega), hMk]
  rcases longest_or_none sf.weMap (lruIter lru) with hn | ⟨k', hl⟩
  · have := hn k hk0 hkl
    rw [hfk] at this; omega
  · have hge : k ≤ k' := by
      apply Nat.le_of_not_lt
      intro hlt
      have := hl.2.2.2 k hlt hkl
      rw [hfk] at this; omega
    have hrw := (retrieveWebentity_ok_iff hf lru _).mpr ⟨k', hl, rfl⟩
    refine ⟨k', hge, hl, hrw, (retrievePrefix_ok_iff hf lru _).mpr ⟨k', hl, rfl⟩, fun e => ?_⟩
    rw [hrw, e, hfk]

/-- (3b) packaged for the request: after a successful `add_webentity_creation_rule`, for every page `lru`
    beneath the anchor there is the state `si` in which it was re-inserted (new rule table, attachments of the
    index before kept), such that whatever stem-prefix it resolved at right after its re-insertion, it resolves
    in the final index at one at least as long (and to the same webentity if the same prefix) -/
theorem C06_rule_install_resolves {s : State} {t : T} (h : Shape s t) (hi : Inv s t) (hz : SizeOk s t)
    (anchor : Bytes) (r : Rule) (hne : lruIter anchor ≠ []) (rp : Report)
    (hok : (s.addRule anchor r true).2 = .ok rp) {lru : Bytes}
    (hl : lru ∈ (s.rulePrologue anchor r).1.pagesBelow (s.rulePrologue anchor r).2 anchor) :
    ∃ si ti tf, Shape si ti ∧ Shape (s.addRule anchor r true).1 tf ∧
      si.rules = dictSet s.rules anchor r ∧ si.dflt = s.dflt ∧
      (∀ p, s.weMap p ≠ 0 → si.weMap p = s.weMap p) ∧
      (∃ r1, (si.addPageCore lru false).2.2 = .ok r1) ∧
      (∀ w, (si.addPageCore lru false).1.retrieveWebentity lru = .ok w →
        ∃ k k', k ≤ k' ∧ LongestAt (si.addPageCore lru false).1.weMap (lruIter lru) k ∧
          LongestAt (s.addRule anchor r true).1.weMap (lruIter lru) k' ∧
          (s.addRule anchor r true).1.retrieveWebentity lru =
            .ok ((s.addRule anchor r true).1.weMap ((lruIter lru).take k')) ∧
          (s.addRule anchor r true).1.retrievePrefix lru = .ok ((lruIter lru).take k').flatten ∧
          (k' = k → (s.addRule anchor r true).1.retrieveWebentity lru = .ok w)) ∧
      (∀ K k, si.autoPlan lru = some (some K) → 0 < k → k ≤ (lruIter lru).length →
        K = ((lruIter lru).take k).flatten →
        ∃ k', k ≤ k' ∧ LongestAt (s.addRule anchor r true).1.weMap (lruIter lru) k' ∧
          (s.addRule anchor r true).1.retrieveWebentity lru =
            .ok ((s.addRule anchor r true).1.weMap ((lruIter lru).take k')) ∧
          (s.addRule anchor r true).1.retrievePrefix lru = .ok ((lruIter lru).take k').flatten ∧
          (k' = k → (s.addRule anchor r true).1.retrieveWebentity lru = .ok (si.hdrId + 1))) := by
  have e := C06_rule_install_full h hi hz anchor r hne
  have hlne : lruIter lru ≠ [] := by
    obtain ⟨p, ⟨b, hm, _⟩, _, rfl⟩ := (pagesBelow_prologue_iff h hi anchor r hne lru).mp hl
    rw [lruIter_flatten p (hi.wf p b hm)]
    exact entry_ne_nil hm
  obtain ⟨t2, k2, _⟩ := rulePrologue_keeps h anchor r
  rw [e] at hok ⊢
  obtain ⟨si, ti, hti, rq, g2, g3, g4⟩ := reinsert_visit_state k2.shape _ {} rp hok hl
  obtain ⟨⟨tf, htf⟩, _, _⟩ := reinsert_keeps
    ((s.rulePrologue anchor r).1.pagesBelow (s.rulePrologue anchor r).2 anchor) _ t2 {} k2.shape
  have hw2 : (s.rulePrologue anchor r).1.weMap = s.weMap := by
    have w0 : ({ s with rules := dictSet s.rules anchor r } : State).weMap = s.weMap := weMap_trie_eq rfl
    have k0 : Keeps s t { s with rules := dictSet s.rules anchor r } t := Keeps.of_trie_eq h rfl
    obtain ⟨t1, k1, _⟩ := keeps_addLruIter k0.shape anchor false
    have w1 := weMap_addLru k0.shape (lruIter anchor) false
    have w2' : (s.rulePrologue anchor r).1.weMap =
        (State.addLru { s with rules := dictSet s.rules anchor r } (lruIter anchor) false).1.weMap :=
      weMap_modCell k1.shape _ _ (fun _ => ⟨rfl, rfl, rfl, rfl, rfl⟩) (fun _ => rfl)
    rw [w2', w1, w0]
  have hr2 : (s.rulePrologue anchor r).1.rules = dictSet s.rules anchor r ∧
      (s.rulePrologue anchor r).1.dflt = s.dflt := by
    have r1 := ramEq_addLru { s with rules := dictSet s.rules anchor r } (lruIter anchor) false
    unfold State.rulePrologue
    simp only [rules_modCell, dflt_modCell]
    exact ⟨r1.1, r1.2⟩
  obtain ⟨t', ht'⟩ := shape_addPageCore hti lru false
  refine ⟨si, ti, tf, hti, htf, by rw [rq.1, hr2.1], by rw [rq.2, hr2.2],
    fun p hp => by rw [g2 p (by rw [hw2]; exact hp), hw2], g3, fun w hw => ?_, fun K k hp hk0 hkl hK => ?_⟩
  · exact resolves_after ht' htf g4 lru w hw
  · exact created_resolves hti htf lru g4 hlne hp hk0 hkl hK

/-! ### (3c) LRUs the created webentities do not reach -/

theorem applyCreated_other (M : LRU → Nat) : ∀ (we : List (Option Nat × List Bytes)) (q : LRU),
    (∀ e ∈ we, ∀ v ∈ e.2, lruIter v ≠ q) → applyCreated M we q = M q := by
  intro we
  induction we generalizing M with
  | nil => intro q _; rfl
  | cons e we ih =>
    intro q hq
    have e1 : applyCreated M (e :: we) = applyCreated (applyCreated M [e]) we := applyCreated_append M [e] we
    rw [e1, ih _ q (fun e' he' => hq e' (by simp [he']))]
    obtain ⟨o, l⟩ := e
    cases o with
    | none => rfl
    | some id =>
      rw [applyCreated_single]
      unfold mapSetAll
      rw [if_neg]
      intro hm
      obtain ⟨v, hv, hvq⟩ := List.mem_map.mp hm
      exact hq (some id, l) (by simp) v hv hvq

/-- (3c) an LRU (page or not, beneath the anchor or not) none of whose stem-prefixes is one of the prefixes
    reported for the created webentities resolves after the installation exactly as before -/
theorem C06_rule_install_others {s : State} {t : T} (h : Shape s t) (anchor : Bytes) (r : Rule) (rp : Report)
    (hok : (s.addRule anchor r true).2 = .ok rp) (q : Bytes)
    (hq : ∀ e ∈ rp.we, ∀ v ∈ e.2, ∀ j, lruIter v ≠ (lruIter q).take j) :
    (s.addRule anchor r true).1.retrieveWebentity q = s.retrieveWebentity q ∧
    (s.addRule anchor r true).1.retrievePrefix q = s.retrievePrefix q := by
  obtain ⟨rep', hr, he⟩ := addRule_rep h anchor r true
  have := he rp hok
  subst this
  obtain ⟨t', x, _⟩ := addRule_step h anchor r true
  have hag : ∀ j, 0 < j → j ≤ (lruIter q).length →
      (s.addRule anchor r true).1.weMap ((lruIter q).take j) = s.weMap ((lruIter q).take j) := by
    intro j _ _
    rw [hr.map]
    exact applyCreated_other _ _ _ (fun e he v hv => hq e he v hv j)
  exact ⟨retrieveWebentity_congr_on h x.shape q hag, retrievePrefix_congr_on h x.shape q hag⟩

/-! ### (4) the order matters -/

/-- two pages under `s:http|h:com|`, no rule, no webentity -/
def orderA : Bytes := [115, 58, 104, 116, 116, 112, 124, 104, 58, 99, 111, 109, 124, 104, 58, 97, 124, 112, 58, 120, 124]
def orderB : Bytes := [115, 58, 104, 116, 116, 112, 124, 104, 58, 99, 111, 109, 124, 104, 58, 98, 124, 112, 58, 121, 124]
def orderAnchor : Bytes := [115, 58, 104, 116, 116, 112, 124, 104, 58, 99, 111, 109, 124]
def orderState : State :=
  (State.fresh {} .never [] []).1.run [.addPage orderA false, .addPage orderB false]
def okOr0 : Except Err Nat → Nat | .ok w => w | _ => 0

set_option maxRecDepth 100000 in
/-- the model walks `…|h:a|p:x|` before `…|h:b|p:y|` -/
theorem order_matters_list :
    (orderState.rulePrologue orderAnchor .domain).1.pagesBelow
      (orderState.rulePrologue orderAnchor .domain).2 orderAnchor = [orderA, orderB] := by decide

set_option maxRecDepth 100000 in
/-- in that order page A gets webentity 1; re-inserting in the other order gives it webentity 2: the final
    index depends on the order (only through the ids here) -/
theorem order_matters_ids :
    okOr0 (((orderState.rulePrologue orderAnchor .domain).1.reinsert [orderA, orderB] {}).1.retrieveWebentity orderA) = 1 ∧
    okOr0 (((orderState.rulePrologue orderAnchor .domain).1.reinsert [orderB, orderA] {}).1.retrieveWebentity orderA) = 2 ∧
    okOr0 ((orderState.addRule orderAnchor .domain true).1.retrieveWebentity orderA) = 1 := by decide

end Traph

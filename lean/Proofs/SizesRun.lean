import Proofs.KnownRun
/-! C19 at the level of histories: the sizes of the two stores are functions of the history.
    * trie store: one header block plus, for every known LRU, the blocks of its last stem
      (`C19_trie_history`), the known LRUs being the prefix closure of everything named (`C02_known`);
    * link store: one header stub plus two stubs per submitted link (`C19_links_history`), self-links and
      repeated links included, a batch entry without targets adding nothing;
    * neither size ever decreases along a history without `clear` (`C19_monotone`);
    * a request that names only known LRUs and submits no link changes neither size (`C19_idempotent_step`),
      whatever its kind. -/
namespace Traph
open State Layout

/-! ### the trie store -/

/-- C19, trie store, along a history (no `clear`, no request aborted by `KeyError`) on a fresh index: the
    store holds one header block plus the blocks of the last stem of every LRU of the prefix closure of
    what was named — over *any* duplicate-free enumeration `K` of that closure -/
theorem C19_trie_history (cfg : Config) (dflt : Rule) (rules : List (Bytes × Rule)) (ops : List Op)
    (hop : ∀ op ∈ ops, ∀ d rs, op ≠ .clear d rs)
    (hok : NoKeyErr (State.fresh cfg dflt rules []).1 ops)
    (K : List LRU) (hnd : K.Nodup)
    (hK : ∀ p, p ∈ K ↔ Covered (anchors rules ++ (State.fresh cfg dflt rules []).1.namedRun ops) p) :
    ((State.fresh cfg dflt rules []).1.run ops).trie.size = 1 + (K.map lruBlocks).sum := by
  obtain ⟨t, g, h⟩ := C02_known cfg dflt rules ops hop hok
  exact size_of_known g K hnd (fun p => by rw [hK, h])

/-- …in particular over the explicit enumeration `prefixClosure` -/
theorem C19_trie_history_closure (cfg : Config) (dflt : Rule) (rules : List (Bytes × Rule)) (ops : List Op)
    (hop : ∀ op ∈ ops, ∀ d rs, op ≠ .clear d rs)
    (hok : NoKeyErr (State.fresh cfg dflt rules []).1 ops) :
    ((State.fresh cfg dflt rules []).1.run ops).trie.size =
      1 + ((prefixClosure (anchors rules ++ (State.fresh cfg dflt rules []).1.namedRun ops)).map lruBlocks).sum :=
  C19_trie_history cfg dflt rules ops hop hok _ (prefixClosure_nodup _) (mem_prefixClosure _)

/-- the same for every history, `clear` being a reset -/
theorem C19_trie_history_since (cfg : Config) (dflt : Rule) (rules : List (Bytes × Rule)) (ops : List Op)
    (hok : NoKeyErr (State.fresh cfg dflt rules []).1 ops) :
    ((State.fresh cfg dflt rules []).1.run ops).trie.size =
      1 + ((prefixClosure ((State.fresh cfg dflt rules []).1.namedSince (anchors rules) ops)).map lruBlocks).sum := by
  obtain ⟨t, g, h⟩ := C02_known_since cfg dflt rules ops hok
  exact size_of_known g _ (prefixClosure_nodup _) (fun p => by rw [mem_prefixClosure, h])

/-- the accounting invariant itself, in every reachable state (aborted requests and `clear` included) -/
theorem sizeOk_run (cfg : Config) (dflt : Rule) (rules : List (Bytes × Rule)) (ops : List Op) :
    ∃ t, Shape ((State.fresh cfg dflt rules []).1.run ops) t ∧ SizeOk ((State.fresh cfg dflt rules []).1.run ops) t ∧
      ((State.fresh cfg dflt rules []).1.run ops).trie.size =
        1 + ((t.keys ((State.fresh cfg dflt rules []).1.run ops)).map lruBlocks).sum := by
  obtain ⟨t, g⟩ := good_run_any cfg dflt rules ops
  exact ⟨t, g.shape, g.sizeOk, sizeOk_keys g⟩

/-! ### the link store -/

/-- number of links a request submits -/
def Op.nlinks : Op → Nat
  | .addLinks links => links.length
  | .batch data => (data.map (fun d => d.2.length)).sum
  | _ => 0

theorem links_addPagesGo (always : Bool) : ∀ (ls : List Bytes) (s : State) (c : Bool) (rep : Report),
    (addPagesGo always s ls c rep).1.links = s.links
  | [], _, _, _ => rfl
  | l :: ls, s, c, rep => by
    have hl := links_addPageCore s l c
    rw [addPagesGo]
    split
    · rename_i s1 _ e heq; rw [heq] at hl; exact hl
    · rename_i s1 n r heq
      rw [heq] at hl
      rw [links_addPagesGo always ls]
      split
      · rw [links_modCell]; exact hl
      · exact hl

theorem links_ruleVisit (s : State) (b : Nat) (lru : Bytes) (rep : Report) :
    (ruleVisit s b lru rep).1.links = s.links := by
  unfold ruleVisit
  split
  · have hl := links_addPageCore s (lru ++ s.stemAt b) false
    split
    · rename_i heq; rw [heq] at hl; exact hl
    · rename_i heq; rw [heq] at hl; exact hl
  · rfl

theorem links_addRuleLoop (start : Nat) : ∀ (fuel : Nat) (s : State) (stack : List (Nat × Bytes)) (rep : Report),
    (addRuleLoop start fuel s stack rep).1.links = s.links
  | 0, s, stack, rep => by simp [addRuleLoop]
  | fuel + 1, s, [], rep => by simp [addRuleLoop]
  | fuel + 1, s, (b, lru) :: stack, rep => by
    have hl := links_ruleVisit s b lru rep
    rw [addRuleLoop_succ_cons]
    split
    · rename_i heq; rw [heq] at hl; exact hl
    · rename_i heq
      rw [heq] at hl
      rw [links_addRuleLoop start fuel]
      exact hl

theorem links_addRule (s : State) (a : Bytes) (r : Rule) (w : Bool) : (s.addRule a r w).1.links = s.links := by
  have hl := links_addLru { s with rules := dictSet s.rules a r } (lruIter a) false
  rcases ha : State.addLru { s with rules := dictSet s.rules a r } (lruIter a) false with ⟨s1, n, hh⟩
  rw [ha] at hl
  simp only [addRule, ha]
  split
  · rfl
  · rw [links_addRuleLoop, links_modCell]
    exact hl

theorem links_addPrefix (s : State) (p : Bytes) (w : Nat) : (s.addPrefix p w).1.links = s.links := by
  have hl := links_addLru s (lruIter p) true
  rcases ha : s.addLru (lruIter p) true with ⟨s1, n, hh⟩
  rw [ha] at hl
  simp only [addPrefix, ha]
  split
  · exact hl
  · rw [links_modCell]; exact hl

theorem links_removePrefix (s : State) (p : Bytes) (w : Option Nat) : (s.removePrefix p w).1.links = s.links := by
  have hl := links_addLru s (lruIter p) false
  rcases ha : s.addLru (lruIter p) false with ⟨s1, n, hh⟩
  rw [ha] at hl
  simp only at hl
  simp only [removePrefix, ha]
  repeat' split
  all_goals first | exact hl | (rw [links_modCell]; exact hl)

theorem links_movePrefix (s : State) (p : Bytes) (tg : Nat) (f : Option Nat) :
    (s.movePrefix p tg f).1.links = s.links := by
  have hl := links_removePrefix s p f
  unfold movePrefix
  split
  · rename_i heq; rw [heq] at hl; exact hl
  · rename_i s1 _ heq
    rw [heq] at hl
    rw [links_addPrefix]; exact hl

theorem links_createWebentity (s : State) (ps : List Bytes) : (s.createWebentity ps).1.links = s.links := by
  have hl := links_addPrefixes s ps false
  unfold createWebentity
  split
  · rename_i heq; rw [heq] at hl; exact hl
  · rename_i heq; rw [heq] at hl; exact hl

theorem links_deleteWebentity (s : State) (w : Nat) (ps : List Bytes) :
    (s.deleteWebentity w ps).1.links = s.links := by
  unfold deleteWebentity
  split
  · rfl
  · exact links_foldl_modCell (fun pn : Bytes × Nat => pn.2) (fun _ c => { c with we := 0 }) _ s

theorem links_removeRule (s : State) (a : Bytes) : (s.removeRule a).1.links = s.links := by
  unfold removeRule
  split
  · rfl
  · simp only
    split
    · rfl
    · rw [links_modCell]

/-! #### `index_batch_crawl`: two stubs per (source, target) pair -/

/-- number of (source, target) pairs of a batch -/
def batchLinkCount (data : List (Bytes × List Bytes)) : Nat := (data.map (fun d => d.2.length)).sum

theorem batchTargets_links : ∀ (ts : List Bytes) (s : State) (src : Bytes) (acc : LinkAcc) (tb : List Nat),
    (batchTargets s src ts acc tb).1.links = s.links ∧
    ∀ r, (batchTargets s src ts acc tb).2 = .ok r →
      r.2.length = tb.length + ts.length ∧ multiTotal r.1.inl = multiTotal acc.inl + ts.length
  | [], s, src, acc, tb => ⟨rfl, fun r h => by cases h; exact ⟨rfl, rfl⟩⟩
  | x :: ts, s, src, acc, tb => by
    obtain ⟨a1, a2⟩ := ensurePageCached_spec s acc x false
    rw [batchTargets]
    split
    · rename_i s1 e heq
      rw [heq] at a1
      exact ⟨a1, fun r h => by cases h⟩
    · rename_i s1 acc1 heq
      rw [heq] at a1 a2
      obtain ⟨_, i1⟩ := a2 acc1 rfl
      obtain ⟨b1, b2⟩ := batchTargets_links ts s1 src { acc1 with inl := multiAdd acc1.inl x src }
        (tb ++ [(dictGet? acc1.pages x).getD 0])
      refine ⟨b1.trans a1, fun r h => ?_⟩
      obtain ⟨c1, c2⟩ := b2 r h
      simp only [multiAdd_total, i1, List.length_append, List.length_singleton] at c1 c2
      simp only [List.length_cons]
      exact ⟨by omega, by omega⟩

theorem sourceStep_links (s : State) (acc : LinkAcc) (src : Bytes) :
    (sourceStep s acc src).1.links = s.links ∧
    ∀ acc', (sourceStep s acc src).2 = .ok acc' → acc'.inl = acc.inl := by
  unfold sourceStep
  split
  · obtain ⟨a1, a2⟩ := ensurePageCached_spec s acc src true
    exact ⟨a1, fun acc' h => (a2 acc' h).2⟩
  · split
    · exact ⟨links_modCell _ _ _, fun acc' h => by cases h; rfl⟩
    · exact ⟨rfl, fun acc' h => by cases h; rfl⟩

theorem batchSources_links : ∀ (data : List (Bytes × List Bytes)) (s : State) (acc : LinkAcc) (acc' : LinkAcc),
    (batchSources s data acc).2 = .ok acc' →
      (batchSources s data acc).1.links.size = s.links.size + batchLinkCount data ∧
      multiTotal acc'.inl = multiTotal acc.inl + batchLinkCount data
  | [], s, acc, acc', h => by
    simp only [batchSources] at h ⊢
    cases h
    exact ⟨rfl, rfl⟩
  | (src, tgts) :: rest, s, acc, acc', h => by
    obtain ⟨a1, a2⟩ := sourceStep_links s acc src
    rw [batchSources_cons_ps] at h ⊢
    split at h
    · cases h
    · rename_i s1 acc1 heq
      rw [heq] at a1 a2
      have i1 := a2 acc1 rfl
      obtain ⟨b1, b2⟩ := batchTargets_links tgts s1 src acc1 []
      split at h
      · cases h
      · rename_i s2 acc2 tb heq2
        rw [heq2] at b1 b2
        obtain ⟨c1, c2⟩ := b2 (acc2, tb) rfl
        obtain ⟨d1, d2⟩ := batchSources_links rest _ acc2 acc' h
        rw [d1, d2, addStubs_size, c1, c2, b1, a1, i1]
        simp only [batchLinkCount, List.map_cons, List.sum_cons, List.length_nil]
        exact ⟨by omega, by omega⟩

/-- a successful `index_batch_crawl` appends exactly two stubs per (source, target) pair -/
theorem batch_links_size (s : State) (data : List (Bytes × List Bytes)) (r : Report)
    (hok : (s.batch data).2 = .ok r) :
    (s.batch data).1.links.size = s.links.size + 2 * batchLinkCount data := by
  unfold batch at hok ⊢
  split
  · rename_i heq
    rw [heq] at hok
    cases hok
  · rename_i s1 acc heq
    have h := batchSources_links data s {} acc (by rw [heq])
    rw [heq] at h
    simp only at h ⊢
    rw [flushLists_size, h.1, h.2]
    simp only [multiTotal_nil]
    omega

/-- MAIN (link store, one request): unless aborted by the `KeyError` of `__add_page`, a request appends
    exactly two stubs per link it submits — none at all for the requests that submit no link -/
theorem links_step (s : State) (op : Op) (hop : ∀ d rs, op ≠ .clear d rs)
    (hne : (s.step op).2 ≠ .err (.other "KeyError")) :
    (s.step op).1.links.size = s.links.size + 2 * op.nlinks := by
  cases op with
  | addPage l c => exact congrArg Array.size (links_addPage s l c)
  | addPages ls c => exact congrArg Array.size (links_addPagesGo _ ls s c {})
  | addLinks links =>
    obtain ⟨r, hr, _⟩ := ofExcept_report_ok (addLinks_err s links) hne
    exact addLinks_links_size s links r hr
  | batch data =>
    obtain ⟨r, hr, _⟩ := ofExcept_report_ok (batch_err s data) hne
    exact batch_links_size s data r hr
  | create ps => exact congrArg Array.size (links_createWebentity s ps)
  | delete w ps => exact congrArg Array.size (links_deleteWebentity s w ps)
  | addPrefix p w => exact congrArg Array.size (links_addPrefix s p w)
  | removePrefix p w => exact congrArg Array.size (links_removePrefix s p w)
  | movePrefix p tg f => exact congrArg Array.size (links_movePrefix s p tg f)
  | addRule a r => exact congrArg Array.size (links_addRule s a r true)
  | removeRule a => exact congrArg Array.size (links_removeRule s a)
  | reopen d rs => rfl
  | clear d rs => exact absurd rfl (hop d rs)

/-- number of links submitted along a history -/
def linksSubmitted (ops : List Op) : Nat := (ops.map Op.nlinks).sum

theorem links_run : ∀ (ops : List Op) (s : State), (∀ op ∈ ops, ∀ d rs, op ≠ .clear d rs) → NoKeyErr s ops →
    (s.run ops).links.size = s.links.size + 2 * linksSubmitted ops
  | [], s, _, _ => rfl
  | op :: ops, s, hop, hok => by
    rw [run_cons, links_run ops _ (fun o ho => hop o (by simp [ho])) hok.2,
      links_step s op (hop op (by simp)) hok.1]
    simp only [linksSubmitted, List.map_cons, List.sum_cons]
    omega

/-- C19, link store, along a history (no `clear`, no request aborted by `KeyError`) on a fresh index:
    one header stub plus two stubs per submitted link -/
theorem C19_links_history (cfg : Config) (dflt : Rule) (rules : List (Bytes × Rule)) (ops : List Op)
    (hop : ∀ op ∈ ops, ∀ d rs, op ≠ .clear d rs)
    (hok : NoKeyErr (State.fresh cfg dflt rules []).1 ops) :
    ((State.fresh cfg dflt rules []).1.run ops).links.size = 1 + 2 * linksSubmitted ops := by
  obtain ⟨_, _, _, hl, _⟩ := fresh_known cfg dflt rules []
  rw [links_run ops _ hop hok, hl]

/-- links submitted since the last `clear` -/
def linksSince : Nat → List Op → Nat
  | acc, [] => acc
  | _, .clear _ _ :: ops => linksSince 0 ops
  | acc, op :: ops => linksSince (acc + op.nlinks) ops

theorem links_run_since : ∀ (ops : List Op) (s : State) (acc : Nat), s.links.size = 1 + 2 * acc → NoKeyErr s ops →
    (s.run ops).links.size = 1 + 2 * linksSince acc ops
  | [], s, acc, h, _ => h
  | op :: ops, s, acc, h, hok => by
    rw [run_cons]
    by_cases hc : ∃ d rs, op = .clear d rs
    · obtain ⟨d, rs, rfl⟩ := hc
      obtain ⟨_, _, _, hl, _⟩ := clear_known s d rs
      have : linksSince acc (.clear d rs :: ops) = linksSince 0 ops := by simp [linksSince]
      rw [this]
      exact links_run_since ops _ 0 hl hok.2
    · have hop : ∀ d rs, op ≠ .clear d rs := fun d rs e => hc ⟨d, rs, e⟩
      have : linksSince acc (op :: ops) = linksSince (acc + op.nlinks) ops := by
        cases op <;> first | rfl | exact absurd rfl (hop _ _)
      rw [this]
      exact links_run_since ops _ _ (by rw [links_step s op hop hok.1, h]; omega) hok.2

/-- the same for every history, `clear` being a reset -/
theorem C19_links_history_since (cfg : Config) (dflt : Rule) (rules : List (Bytes × Rule)) (ops : List Op)
    (hok : NoKeyErr (State.fresh cfg dflt rules []).1 ops) :
    ((State.fresh cfg dflt rules []).1.run ops).links.size = 1 + 2 * linksSince 0 ops := by
  obtain ⟨_, _, _, hl, _⟩ := fresh_known cfg dflt rules []
  exact links_run_since ops _ 0 (by rw [hl]) hok

/-! ### monotonicity and idempotence -/

/-- neither store ever shrinks along a history without `clear` — aborted requests included -/
theorem C19_monotone (s : State) (ops : List Op) (hl : Live s) (hop : ∀ op ∈ ops, ∀ d rs, op ≠ .clear d rs) :
    s.trie.size ≤ (s.run ops).trie.size ∧ s.links.size ≤ (s.run ops).links.size :=
  ⟨(run_le s ops hl hop).1.size, (run_le s ops hl hop).1.lsize⟩

/-- …in particular between any two points of a history on a fresh index -/
theorem C19_monotone_fresh (cfg : Config) (dflt : Rule) (rules : List (Bytes × Rule)) (a b : List Op)
    (hop : ∀ op ∈ a ++ b, ∀ d rs, op ≠ .clear d rs) :
    ((State.fresh cfg dflt rules []).1.run a).trie.size ≤ ((State.fresh cfg dflt rules []).1.run (a ++ b)).trie.size ∧
    ((State.fresh cfg dflt rules []).1.run a).links.size ≤ ((State.fresh cfg dflt rules []).1.run (a ++ b)).links.size := by
  have h := prefix_le (State.fresh cfg dflt rules []).1 a b (live_fresh cfg dflt rules []) hop
  exact ⟨h.size, h.lsize⟩

/-- C19, idempotence, for every kind of request: in a `Good` state (every reachable state is), a request
    that is not aborted by `KeyError`, names only LRUs that are already stored (or that cut into no stem)
    and submits no link changes the size of neither store -/
theorem C19_idempotent_step {s : State} {t : T} (g : Good s t) (op : Op) (hop : ∀ d rs, op ≠ .clear d rs)
    (hne : (s.step op).2 ≠ .err (.other "KeyError"))
    (hknown : ∀ l ∈ s.named op, l ≠ [] → Known s t l) (hlinks : op.nlinks = 0) :
    (s.step op).1.trie.size = s.trie.size ∧ (s.step op).1.links.size = s.links.size := by
  obtain ⟨t', _, f⟩ := named_step g op hop
  refine ⟨(f hne).size_eq g hknown, ?_⟩
  rw [links_step s op hop hne, hlinks]; omega

/-- the trie part alone: whatever links the request submits -/
theorem C19_idempotent_trie {s : State} {t : T} (g : Good s t) (op : Op) (hop : ∀ d rs, op ≠ .clear d rs)
    (hne : (s.step op).2 ≠ .err (.other "KeyError"))
    (hknown : ∀ l ∈ s.named op, l ≠ [] → Known s t l) :
    (s.step op).1.trie.size = s.trie.size := by
  obtain ⟨t', _, f⟩ := named_step g op hop
  exact (f hne).size_eq g hknown

/-- exact growth of one request: the blocks of the last stems of the newly stored LRUs -/
theorem C19_step_growth {s : State} {t : T} (g : Good s t) (op : Op) (hop : ∀ d rs, op ≠ .clear d rs)
    (hne : (s.step op).2 ≠ .err (.other "KeyError"))
    (N : List LRU) (hnd : N.Nodup) (hN : ∀ p, p ∈ N ↔ Covered (s.named op) p ∧ ¬ Known s t p) :
    (s.step op).1.trie.size = s.trie.size + (N.map lruBlocks).sum := by
  obtain ⟨t', _, f⟩ := named_step g op hop
  have k := f hne
  have hdisj : (t.keys s ++ N).Nodup := by
    rw [List.nodup_append]
    refine ⟨keys_nodup g.shape, hnd, fun a ha b hb e => ?_⟩
    subst e
    exact ((hN a).mp hb).2 (mem_keys.mp ha)
  rw [size_of_known k.good (t.keys s ++ N) hdisj (fun p => by
    rw [List.mem_append, mem_keys, hN, k.known]
    constructor
    · rintro (h | h)
      · exact Or.inl h
      · exact Or.inr h.1
    · rintro (h | h)
      · exact Or.inl h
      · by_cases hk : Known s t p
        · exact Or.inl hk
        · exact Or.inr ⟨h, hk⟩)]
  rw [List.map_append, List.sum_append, sizeOk_keys g]
  omega

#print axioms C19_trie_history
#print axioms C19_trie_history_since
#print axioms sizeOk_run
#print axioms links_step
#print axioms C19_links_history
#print axioms C19_links_history_since
#print axioms C19_monotone
#print axioms C19_idempotent_step
#print axioms C19_step_growth

end Traph

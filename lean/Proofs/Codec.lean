import Traph
import Proofs.LayoutOk
/-! Round-trip theorems for the binary codec of `Traph/Bytes.lean`. -/
namespace Traph
open Layout LayoutOk

/-! ### little-endian numbers -/

theorem ofLE_toLE (n k : Nat) (h : n < 256 ^ k) : ofLE (toLE n k) = n := by
  induction k generalizing n with
  | zero =>
    have : n = 0 := by simpa using h
    subst this; rfl
  | succ k ih =>
    have h' : n / 256 < 256 ^ k := by
      apply Nat.div_lt_of_lt_mul
      rw [Nat.pow_succ] at h
      omega
    simp only [toLE, ofLE, ih _ h']
    omega

theorem toLE_bytes (n k : Nat) : ∀ b ∈ toLE n k, b < 256 := by
  induction k generalizing n with
  | zero => intro b hb; simp [toLE] at hb
  | succ k ih =>
    intro b hb
    simp only [toLE, List.mem_cons] at hb
    rcases hb with rfl | hb
    · omega
    · exact ih _ b hb

/-! ### flags -/

theorem Flags.decode_encode (f : Flags) : Flags.decode f.encode = f := by
  obtain ⟨a, b, c, d, e, g, i, j⟩ := f
  cases a <;> cases b <;> cases c <;> cases d <;> cases e <;> cases g <;> cases i <;> cases j <;> rfl

theorem Flags.encode_lt (f : Flags) : f.encode < 256 := by
  obtain ⟨a, b, c, d, e, g, i, j⟩ := f
  cases a <;> cases b <;> cases c <;> cases d <;> cases e <;> cases g <;> cases i <;> cases j <;> decide

/-! ### padding, Pascal strings, slices -/

@[simp] theorem zeros_length (n : Nat) : (zeros n).length = n := by simp [zeros]

theorem zeros_bytes (n : Nat) : ∀ b ∈ zeros n, b < 256 := by
  intro b hb
  simp [zeros] at hb
  omega

theorem encodePascal_length (f : Nat) (s : Bytes) (hf : 0 < f) : (encodePascal f s).length = f := by
  simp [encodePascal]
  omega

theorem encodePascal_bytes (f : Nat) (s : Bytes) (hf : f ≤ 256) (hs : ∀ b ∈ s, b < 256) :
    ∀ b ∈ encodePascal f s, b < 256 := by
  intro b hb
  simp only [encodePascal, List.cons_append, List.mem_cons, List.mem_append] at hb
  rcases hb with rfl | hb | hb
  · simp only [List.length_take]; omega
  · exact hs b (List.mem_of_mem_take hb)
  · exact zeros_bytes _ b hb

theorem decodePascal_encodePascal (f : Nat) (s rest : Bytes) (h : s.length ≤ f - 1) :
    decodePascal f (encodePascal f s ++ rest) = s := by
  have hs : s.take (f - 1) = s := List.take_of_length_le h
  simp only [encodePascal, decodePascal, hs, List.cons_append, List.append_assoc]
  rw [List.take_take, Nat.min_eq_left h, List.take_left']
  rfl

/-- the field `x` sitting at offset `off` is what `slice` reads back -/
theorem slice_mid (pre x post : Bytes) (off w : Nat) (h1 : pre.length = off) (h2 : x.length = w) :
    slice (pre ++ x ++ post) off w = x := by
  subst h1 h2
  simp [slice]

theorem slice_last (pre x : Bytes) (off w : Nat) (h1 : pre.length = off) (h2 : x.length = w) :
    slice (pre ++ x) off w = x := by
  have := slice_mid pre x [] off w h1 h2
  simpa using this

/-! ### trie blocks -/

def Cell.Wf (c : Cell) : Prop :=
  c.chunk.length ≤ Layout.stemCap ∧ (∀ b ∈ c.chunk, b < 256) ∧ c.we < 2 ^ 32 ∧
  c.left * Layout.trieBlock < 2 ^ 64 ∧ c.right * Layout.trieBlock < 2 ^ 64 ∧
  c.child * Layout.trieBlock < 2 ^ 64 ∧ c.parent * Layout.trieBlock < 2 ^ 64 ∧
  c.out * Layout.linkBlock < 2 ^ 64 ∧ c.inn * Layout.linkBlock < 2 ^ 64

/-- the length does not depend on well-formedness (over-long chunks are truncated, numbers wrap) -/
theorem encodeCell_length' (c : Cell) : (encodeCell c).length = Layout.trieBlock := by
  simp [encodeCell, encodePascal_length, toLE_length]
  decide

theorem encodeCell_length (c : Cell) (h : c.Wf) : (encodeCell c).length = Layout.trieBlock :=
  have _ := h
  encodeCell_length' c

theorem encodeCell_bytes (c : Cell) (h : c.Wf) : ∀ b ∈ encodeCell c, b < 256 := by
  obtain ⟨_, hb, _⟩ := h
  simp only [encodeCell, List.forall_mem_append]
  refine ⟨⟨⟨⟨⟨⟨⟨⟨⟨⟨⟨?_, ?_⟩, ?_⟩, ?_⟩, ?_⟩, ?_⟩, ?_⟩, ?_⟩, ?_⟩, ?_⟩, ?_⟩, ?_⟩
  · exact encodePascal_bytes _ _ (by decide) hb
  · exact zeros_bytes _
  · intro b hb; simp only [List.mem_singleton] at hb; subst hb; exact Flags.encode_lt _
  · exact zeros_bytes _
  · exact toLE_bytes _ _
  · exact zeros_bytes _
  all_goals exact toLE_bytes _ _

theorem zeros_zero : zeros 0 = [] := rfl

set_option linter.unusedSimpArgs false in
/-- evaluate a `slice`/`drop` of an encoded block: unfold the layout numerals, distribute `drop`/`take`
    over the concatenation, and drop the pieces that fall outside the window -/
local macro "codec_simp" : tactic => `(tactic|
  simp [slice, encodeCell, encodeStub, encodeTrieHeader, List.drop_append, List.take_append,
    encodePascal_length, toLE_length, List.drop_of_length_le, List.take_of_length_le, zeros_zero,
    offStem, stemField, offFlags, offWe, widthWe, offLeft, widthLeft, offRight, widthRight, offChild,
    widthChild, offParent, widthParent, offOut, widthOut, offInn, widthInn, offTarget, widthTarget,
    offPrev, widthPrev, hdrOffId, hdrWidthId, hdrOffVer, hdrVerField, hdrBlock])

theorem slice_encodeCell_we (c : Cell) : slice (encodeCell c) offWe widthWe = toLE c.we widthWe := by
  codec_simp
theorem slice_encodeCell_left (c : Cell) :
    slice (encodeCell c) offLeft widthLeft = toLE (c.left * trieBlock) widthLeft := by codec_simp
theorem slice_encodeCell_right (c : Cell) :
    slice (encodeCell c) offRight widthRight = toLE (c.right * trieBlock) widthRight := by codec_simp
theorem slice_encodeCell_child (c : Cell) :
    slice (encodeCell c) offChild widthChild = toLE (c.child * trieBlock) widthChild := by codec_simp
theorem slice_encodeCell_parent (c : Cell) :
    slice (encodeCell c) offParent widthParent = toLE (c.parent * trieBlock) widthParent := by codec_simp
theorem slice_encodeCell_out (c : Cell) :
    slice (encodeCell c) offOut widthOut = toLE (c.out * linkBlock) widthOut := by codec_simp
theorem slice_encodeCell_inn (c : Cell) :
    slice (encodeCell c) offInn widthInn = toLE (c.inn * linkBlock) widthInn := by codec_simp
theorem flagByte_encodeCell (c : Cell) : ((encodeCell c).drop offFlags).headD 0 = c.flags.encode := by
  codec_simp

theorem pow32 : (2 : Nat) ^ 32 = 256 ^ 4 := by decide
theorem pow64 : (2 : Nat) ^ 64 = 256 ^ 8 := by decide

/-- an 8-byte pointer field stored as `index * blockSize` reads back as `index` -/
theorem ptr_roundtrip (i blk : Nat) (hb : 0 < blk) (h : i * blk < 2 ^ 64) :
    ofLE (toLE (i * blk) 8) / blk = i := by
  rw [ofLE_toLE _ _ (by rw [← pow64]; exact h)]
  exact Nat.mul_div_cancel _ hb

theorem decodeCell_encodeCell (c : Cell) (h : c.Wf) : decodeCell (encodeCell c) = c := by
  obtain ⟨h1, _, hwe, hl, hr, hc, hp, ho, hi⟩ := h
  have e1 : decodePascal stemField ((encodeCell c).drop offStem) = c.chunk := by
    simp only [encodeCell, List.append_assoc, offStem, List.drop_zero]
    exact decodePascal_encodePascal _ _ _ h1
  have e2 : ofLE (toLE c.we widthWe) = c.we := ofLE_toLE _ _ (by rw [← pow32]; exact hwe)
  unfold decodeCell
  rw [e1, flagByte_encodeCell, Flags.decode_encode, slice_encodeCell_we, e2, slice_encodeCell_left,
    slice_encodeCell_right, slice_encodeCell_child, slice_encodeCell_parent, slice_encodeCell_out,
    slice_encodeCell_inn]
  rw [ptr_roundtrip _ _ (by decide) hl, ptr_roundtrip _ _ (by decide) hr,
    ptr_roundtrip _ _ (by decide) hc, ptr_roundtrip _ _ (by decide) hp,
    ptr_roundtrip _ _ (by decide) ho, ptr_roundtrip _ _ (by decide) hi]

/-! ### link blocks -/

def Stub.Wf (s : Stub) : Prop :=
  s.target * Layout.trieBlock < 2 ^ 64 ∧ s.prev * Layout.linkBlock < 2 ^ 64

theorem encodeStub_length' (s : Stub) : (encodeStub s).length = Layout.linkBlock := by
  simp [encodeStub, toLE_length]
  decide

theorem encodeStub_length (s : Stub) (h : s.Wf) : (encodeStub s).length = Layout.linkBlock :=
  have _ := h
  encodeStub_length' s

theorem decodeStub_encodeStub (s : Stub) (h : s.Wf) : decodeStub (encodeStub s) = s := by
  obtain ⟨ht, hp⟩ := h
  have e1 : slice (encodeStub s) offTarget widthTarget = toLE (s.target * trieBlock) widthTarget := by
    codec_simp
  have e2 : slice (encodeStub s) offPrev widthPrev = toLE (s.prev * linkBlock) widthPrev := by
    codec_simp
  unfold decodeStub
  rw [e1, e2, ptr_roundtrip _ _ (by decide) ht, ptr_roundtrip _ _ (by decide) hp]

/-! ### trie header -/

theorem decodeTrieHeaderId_encode (id : Nat) (h : id < 2 ^ 32) :
    decodeTrieHeaderId (encodeTrieHeader id) = id := by
  have e : slice (encodeTrieHeader id) hdrOffId hdrWidthId = toLE id hdrWidthId := by codec_simp
  unfold decodeTrieHeaderId
  rw [e]
  exact ofLE_toLE _ _ (by rw [← pow32]; exact h)

/-! ### whole file images -/

theorem flatten_length_of_uniform (n : Nat) (l : List Bytes) (h : ∀ x ∈ l, x.length = n) :
    l.flatten.length = l.length * n := by
  induction l with
  | nil => simp
  | cons x xs ih =>
    have hx : x.length = n := h x (by simp)
    have := ih (fun y hy => h y (by simp [hy]))
    simp only [List.flatten_cons, List.length_append, List.length_cons, this, hx, Nat.succ_mul]
    omega

theorem blocksGo_flatten (n : Nat) (hn : 0 < n) (l : List Bytes) (h : ∀ x ∈ l, x.length = n) :
    ∀ fuel, l.length < fuel → blocksGo n fuel l.flatten = l := by
  induction l with
  | nil =>
    intro fuel hf
    cases fuel with
    | zero => omega
    | succ f => simp [blocksGo]
  | cons x xs ih =>
    intro fuel hf
    have hx : x.length = n := h x (by simp)
    have hxs : ∀ y ∈ xs, y.length = n := fun y hy => h y (by simp [hy])
    cases fuel with
    | zero => omega
    | succ f =>
      have hne : (x ++ xs.flatten).isEmpty = false := by
        cases x with
        | nil => simp at hx; omega
        | cons a as => rfl
      simp only [List.flatten_cons, blocksGo, hne, Bool.false_eq_true, if_false]
      rw [List.take_left' hx, List.drop_left' hx, ih hxs f (by simp at hf; omega)]

theorem blocks_flatten (n : Nat) (hn : 0 < n) (l : List Bytes) (h : ∀ x ∈ l, x.length = n) :
    blocks n l.flatten = l := by
  unfold blocks
  apply blocksGo_flatten n hn l h
  rw [flatten_length_of_uniform n l h]
  have : l.length * 1 ≤ l.length * n := Nat.mul_le_mul_left _ hn
  omega

theorem map_roundtrip {α β : Type} (f : α → β) (g : β → α) (l : List α) (h : ∀ x ∈ l, g (f x) = x) :
    (l.map f).map g = l := by
  induction l with
  | nil => rfl
  | cons x xs ih =>
    simp only [List.map_cons, h x (by simp), ih (fun y hy => h y (by simp [hy]))]

def State.WfImage (s : State) : Prop :=
  0 < s.trie.size ∧ 0 < s.links.size ∧ s.hdrId < 2 ^ 32 ∧
  (∀ c ∈ s.trie.toList.drop 1, c.Wf) ∧ (∀ b ∈ s.links.toList.drop 1, b.Wf)

theorem encodeTrie_eq (s : State) (h : s.WfImage) :
    encodeTrie s = (encodeTrieHeader s.hdrId :: (s.trie.toList.drop 1).map encodeCell).flatten := by
  have : s.trie.size ≠ 0 := by have := h.1; omega
  simp only [encodeTrie, if_neg this, List.flatten_cons]

theorem encodeLinks_eq (s : State) (h : s.WfImage) :
    encodeLinks s = (encodeLinkHeader :: (s.links.toList.drop 1).map encodeStub).flatten := by
  have : s.links.size ≠ 0 := by have := h.2.1; omega
  simp only [encodeLinks, if_neg this, List.flatten_cons]

theorem trieBlocks_uniform (s : State) :
    ∀ x ∈ encodeTrieHeader s.hdrId :: (s.trie.toList.drop 1).map encodeCell, x.length = trieBlock := by
  intro x hx
  simp only [List.mem_cons, List.mem_map] at hx
  rcases hx with rfl | ⟨c, _, rfl⟩
  · exact encodeTrieHeader_length _
  · exact encodeCell_length' c

theorem linkBlocks_uniform (s : State) :
    ∀ x ∈ encodeLinkHeader :: (s.links.toList.drop 1).map encodeStub, x.length = linkBlock := by
  intro x hx
  simp only [List.mem_cons, List.mem_map] at hx
  rcases hx with rfl | ⟨c, _, rfl⟩
  · exact encodeLinkHeader_length
  · exact encodeStub_length' c

theorem encodeTrie_length (s : State) (h : s.WfImage) :
    (encodeTrie s).length = s.trie.size * Layout.trieBlock := by
  rw [encodeTrie_eq s h, flatten_length_of_uniform _ _ (trieBlocks_uniform s)]
  have := h.1
  simp only [List.length_cons, List.length_map, List.length_drop, Array.length_toList]
  congr 1
  omega

theorem encodeLinks_length (s : State) (h : s.WfImage) :
    (encodeLinks s).length = s.links.size * Layout.linkBlock := by
  rw [encodeLinks_eq s h, flatten_length_of_uniform _ _ (linkBlocks_uniform s)]
  have := h.2.1
  simp only [List.length_cons, List.length_map, List.length_drop, Array.length_toList]
  congr 1
  omega

theorem decodeTrieImage_encodeTrie (s : State) (h : s.WfImage) :
    decodeTrieImage (encodeTrie s) = (s.hdrId, (({} : Cell) :: s.trie.toList.drop 1).toArray) := by
  obtain ⟨_, _, hid, hc, _⟩ := id h
  unfold decodeTrieImage
  rw [encodeTrie_eq s h, blocks_flatten _ (by decide) _ (trieBlocks_uniform s)]
  simp only []
  rw [decodeTrieHeaderId_encode _ hid,
    map_roundtrip encodeCell decodeCell _ (fun c hm => decodeCell_encodeCell c (hc c hm))]

theorem decodeLinksImage_encodeLinks (s : State) (h : s.WfImage) :
    decodeLinksImage (encodeLinks s) = (({} : Stub) :: s.links.toList.drop 1).toArray := by
  obtain ⟨_, _, _, _, hb⟩ := id h
  unfold decodeLinksImage
  rw [encodeLinks_eq s h, blocks_flatten _ (by decide) _ (linkBlocks_uniform s)]
  simp only []
  rw [map_roundtrip encodeStub decodeStub _ (fun c hm => decodeStub_encodeStub c (hb c hm))]

#print axioms decodeCell_encodeCell
#print axioms decodeStub_encodeStub
#print axioms decodeTrieImage_encodeTrie
#print axioms decodeLinksImage_encodeLinks

end Traph

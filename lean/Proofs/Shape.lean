import Proofs.FrameOps
/-! Shape invariant with a ghost tree (DESIGN §4.2): `T` carries addresses only; `Rep s t` says every
    labelled node is a live head cell whose left/child/right pointers are the roots of the three
    subtrees; `T.graft` is the ghost counterpart of the write pair "append the pointee, then rewrite
    the pointer". Ported from the design spikes to the real model (`State.trie`, `State.stemAt`). -/
namespace Traph
open State

inductive T where
  | nil : T
  | node (a : Nat) (l c r : T) : T
deriving Repr

def T.root : T → Nat
  | .nil => 0
  | .node a _ _ _ => a

@[simp] theorem T.root_nil : T.nil.root = 0 := rfl
@[simp] theorem T.root_node (a l c r) : (T.node a l c r).root = a := rfl

def T.addrs : T → List Nat
  | .nil => []
  | .node a l c r => a :: (l.addrs ++ c.addrs ++ r.addrs)

/-- shape consistency: every labelled node is a live non-null cell whose three pointers are the roots
    of the three subtrees -/
def Rep (s : State) : T → Prop
  | .nil => True
  | .node a l c r =>
      a ≠ 0 ∧ (∃ cell, s.trie[a]? = some cell ∧ cell.left = l.root ∧ cell.child = c.root ∧ cell.right = r.root)
      ∧ Rep s l ∧ Rep s c ∧ Rep s r

/-- graft a fresh leaf `b` at slot `s` of (every) node labelled `q` whose slot is empty -/
def T.graft (q : Nat) (s : Slot) (b : Nat) : T → T
  | .nil => .nil
  | .node a l c r =>
      let l' := if a = q ∧ s = .L ∧ l.root = 0 then T.node b .nil .nil .nil else l.graft q s b
      let c' := if a = q ∧ s = .C ∧ c.root = 0 then T.node b .nil .nil .nil else c.graft q s b
      let r' := if a = q ∧ s = .R ∧ r.root = 0 then T.node b .nil .nil .nil else r.graft q s b
      .node a l' c' r'

theorem T.root_graft (q s b) (t : T) : (t.graft q s b).root = t.root := by
  cases t <;> simp [T.graft]

/-- frame: a heap that agrees with `h` on the addresses of `t` represents `t` too -/
theorem Rep.frame {s s' : State} {t : T} (hr : Rep s t)
    (hag : ∀ a ∈ t.addrs, s'.trie[a]? = s.trie[a]?) : Rep s' t := by
  induction t with
  | nil => trivial
  | node a l c r ihl ihc ihr =>
    obtain ⟨ha, ⟨cell, hc, h1, h2, h3⟩, rl, rc, rr⟩ := hr
    refine ⟨ha, ⟨cell, ?_, h1, h2, h3⟩, ihl rl ?_, ihc rc ?_, ihr rr ?_⟩
    · rw [hag a (by simp [T.addrs])]; exact hc
    all_goals (intro x hx; apply hag; simp [T.addrs, hx])

/-- all addresses of a represented tree are in bounds -/
theorem Rep.lt_size {s : State} {t : T} (hr : Rep s t) : ∀ a ∈ t.addrs, a < s.trie.size := by
  induction t with
  | nil => simp [T.addrs]
  | node a l c r ihl ihc ihr =>
    obtain ⟨_, ⟨cell, hc, _⟩, rl, rc, rr⟩ := hr
    intro x hx
    simp [T.addrs] at hx
    rcases hx with rfl | hx | hx | hx
    · exact (Array.getElem?_eq_some_iff.mp hc).1
    · exact ihl rl x hx
    · exact ihc rc x hx
    · exact ihr rr x hx


/-- the structural write pair of `__ensure_stem_from_siblings` / `add_lru`, abstractly: `s'` agrees with
    `s` on every old block except `q`, whose empty slot `sl` now points to the fresh block `b`, whose own
    three pointers are null -/
theorem Rep.graft_write {s s' : State} {t : T} (hr : Rep s t) (q : Nat) (sl : Slot) (b : Nat)
    (hb : b = s.trie.size)
    (cq : Cell) (hcq : s.trie[q]? = some cq) (hslot : cq.slot sl = 0)
    (hq' : s'.trie[q]? = some (cq.setSlot sl b))
    (hold : ∀ a, a < s.trie.size → a ≠ q → s'.trie[a]? = s.trie[a]?)
    (fresh : Cell) (hf : s'.trie[b]? = some fresh) (hfresh : fresh.left = 0 ∧ fresh.child = 0 ∧ fresh.right = 0)
    (hsz : 0 < s.trie.size) :
    Rep s' (t.graft q sl b) := by
  subst hb
  have hqlt : q < s.trie.size := (Array.getElem?_eq_some_iff.mp hcq).1
  have hlt := hr.lt_size
  induction t with
  | nil => trivial
  | node a l c r ihl ihc ihr =>
    obtain ⟨ha, ⟨cell, hc, h1, h2, h3⟩, rl, rc, rr⟩ := hr
    have hal : a < s.trie.size := (Array.getElem?_eq_some_iff.mp hc).1
    have ihl' := ihl rl (fun x hx => hlt x (by simp [T.addrs, hx]))
    have ihc' := ihc rc (fun x hx => hlt x (by simp [T.addrs, hx]))
    have ihr' := ihr rr (fun x hx => hlt x (by simp [T.addrs, hx]))
    have leaf : Rep s' (T.node s.trie.size .nil .nil .nil) := by
      refine ⟨by omega, ⟨fresh, hf, ?_, ?_, ?_⟩, trivial, trivial, trivial⟩
      · simpa using hfresh.1
      · simpa using hfresh.2.1
      · simpa using hfresh.2.2
    by_cases haq : a = q
    · subst haq
      have : cell = cq := by rw [hc] at hcq; exact Option.some.inj hcq
      subst this
      refine ⟨ha, ⟨cell.setSlot sl s.trie.size, hq', ?_, ?_, ?_⟩, ?_, ?_, ?_⟩
      · show (cell.setSlot sl s.trie.size).left = T.root (if a = a ∧ sl = .L ∧ l.root = 0 then T.node s.trie.size .nil .nil .nil else l.graft a sl s.trie.size)
        cases sl <;> simp_all [Cell.setSlot, Cell.slot, T.root_graft]
      · show (cell.setSlot sl s.trie.size).child = T.root (if a = a ∧ sl = .C ∧ c.root = 0 then T.node s.trie.size .nil .nil .nil else c.graft a sl s.trie.size)
        cases sl <;> simp_all [Cell.setSlot, Cell.slot, T.root_graft]
      · show (cell.setSlot sl s.trie.size).right = T.root (if a = a ∧ sl = .R ∧ r.root = 0 then T.node s.trie.size .nil .nil .nil else r.graft a sl s.trie.size)
        cases sl <;> simp_all [Cell.setSlot, Cell.slot, T.root_graft]
      · simp only [T.graft]; split
        · exact leaf
        · exact ihl'
      · simp only [T.graft]; split
        · exact leaf
        · exact ihc'
      · simp only [T.graft]; split
        · exact leaf
        · exact ihr'
    · refine ⟨ha, ⟨cell, ?_, ?_, ?_, ?_⟩, ?_, ?_, ?_⟩
      · rw [hold a hal haq]; exact hc
      · simp [T.graft, haq, T.root_graft, h1]
      · simp [T.graft, haq, T.root_graft, h2]
      · simp [T.graft, haq, T.root_graft, h3]
      · simpa [T.graft, haq] using ihl'
      · simpa [T.graft, haq] using ihc'
      · simpa [T.graft, haq] using ihr'

/-- a write that leaves the three tree pointers of every block of `t` alone keeps `Rep` -/
theorem Rep.of_ptrs_eq {s s' : State} {t : T} (hr : Rep s t)
    (h : ∀ a ∈ t.addrs, ∀ c, s.trie[a]? = some c → ∃ c', s'.trie[a]? = some c' ∧ c'.left = c.left ∧ c'.child = c.child ∧ c'.right = c.right) :
    Rep s' t := by
  induction t with
  | nil => trivial
  | node a l c r ihl ihc ihr =>
    obtain ⟨ha, ⟨cell, hc, h1, h2, h3⟩, rl, rc, rr⟩ := hr
    obtain ⟨c', hc', e1, e2, e3⟩ := h a (by simp [T.addrs]) cell hc
    refine ⟨ha, ⟨c', hc', by rw [e1, h1], by rw [e2, h2], by rw [e3, h3]⟩, ihl rl ?_, ihc rc ?_, ihr rr ?_⟩
    all_goals (intro x hx; apply h; simp [T.addrs, hx])

/-! ### byte-wise order on stems -/

theorem lexLt_irrefl : ∀ a, lexLt a a = false
  | [] => rfl
  | a :: as => by simp [lexLt, lexLt_irrefl as]

theorem lexLt_trans : ∀ {a b c}, lexLt a b = true → lexLt b c = true → lexLt a c = true
  | [], [], _, h, _ => by simp [lexLt] at h
  | [], _ :: _, [], _, h => by simp [lexLt] at h
  | [], _ :: _, _ :: _, _, _ => by simp [lexLt]
  | _ :: _, [], _, h, _ => by simp [lexLt] at h
  | _ :: _, _ :: _, [], _, h => by simp [lexLt] at h
  | a :: as, b :: bs, c :: cs, h1, h2 => by
    simp only [lexLt, Bool.or_eq_true, decide_eq_true_eq, Bool.and_eq_true, beq_iff_eq] at *
    rcases h1 with h1 | ⟨rfl, h1⟩ <;> rcases h2 with h2 | ⟨rfl, h2⟩
    · left; omega
    · left; exact h1
    · left; exact h2
    · right; exact ⟨rfl, lexLt_trans h1 h2⟩

theorem lexLt_tri : ∀ a b, lexLt a b = true ∨ a = b ∨ lexLt b a = true
  | [], [] => by simp
  | [], _ :: _ => by simp [lexLt]
  | _ :: _, [] => by simp [lexLt]
  | a :: as, b :: bs => by
    simp only [lexLt, Bool.or_eq_true, decide_eq_true_eq, Bool.and_eq_true, beq_iff_eq]
    rcases Nat.lt_trichotomy a b with h | rfl | h
    · left; left; exact h
    · rcases lexLt_tri as bs with h | rfl | h
      · left; right; exact ⟨rfl, h⟩
      · right; left; rfl
      · right; right; right; exact ⟨rfl, h⟩
    · right; right; left; exact h

theorem lexLt_asymm {a b} (h : lexLt a b = true) : lexLt b a = false := by
  cases hb : lexLt b a with
  | false => rfl
  | true => have := lexLt_trans h hb; simp [lexLt_irrefl] at this

/-! ### strict BST order of every sibling tree -/

/-- sibling closure: the l/r-reachable part of the tree -/
def T.sibs : T → List Nat
  | .nil => []
  | .node a l _ r => l.sibs ++ a :: r.sibs

def OrdT (s : State) : T → Option Stem → Option Stem → Prop
  | .nil, _, _ => True
  | .node a l c r, lo, hi =>
      (∀ x, lo = some x → lexLt x (s.stemAt a) = true) ∧
      (∀ x, hi = some x → lexLt (s.stemAt a) x = true) ∧
      OrdT s l lo (some (s.stemAt a)) ∧ OrdT s r (some (s.stemAt a)) hi ∧ OrdT s c none none

def T.size : T → Nat
  | .nil => 0
  | .node _ l c r => 1 + l.size + c.size + r.size

/-- search inside one sibling tree of the ghost tree (pure, structural) -/
def T.find (s : State) (stem : Stem) : T → Find
  | .nil => .corrupt
  | .node a l _ r =>
    if s.stemAt a = stem then .found a
    else if lexLt stem (s.stemAt a) then
      (match l with | .nil => .missing a .L | _ => l.find s stem)
    else
      (match r with | .nil => .missing a .R | _ => r.find s stem)

theorem Rep.root_ne_zero {s : State} : ∀ {t : T}, Rep s t → t ≠ .nil → t.root ≠ 0
  | .nil, _, hn => absurd rfl hn
  | .node _ _ _ _, hr, _ => hr.1

/-- the heap loop computes the structural search, given enough fuel -/
theorem findSib_eq_find {s : State} {stem : Stem} :
    ∀ (t : T) (f : Nat), Rep s t → t ≠ .nil → t.size ≤ f → s.findSib stem f t.root = t.find s stem := by
  intro t
  induction t with
  | nil => intro f _ hn; exact absurd rfl hn
  | node a l c r ihl _ ihr =>
    intro f hr _ hf
    obtain ⟨ha, ⟨cell, hc, h1, h2, h3⟩, rl, rc, rr⟩ := hr
    cases f with
    | zero => simp [T.size] at hf
    | succ f =>
      show s.findSib stem (f + 1) a = _
      simp only [findSib, hc, T.find]
      by_cases e : s.stemAt a = stem
      · simp [e]
      · simp only [e, if_false]
        by_cases lt : lexLt stem (s.stemAt a) = true
        · rw [if_pos lt, if_pos lt]
          cases l with
          | nil => simp [h1]
          | node a' l' c' r' =>
            have hne : cell.left ≠ 0 := by rw [h1]; exact rl.1
            rw [if_pos hne, h1]
            exact ihl f rl (by simp) (by simp [T.size] at hf ⊢; omega)
        · rw [if_neg lt, if_neg lt]
          cases r with
          | nil => simp [h3]
          | node a' l' c' r' =>
            have hne : cell.right ≠ 0 := by rw [h3]; exact rr.1
            rw [if_pos hne, h3]
            exact ihr f rr (by simp) (by simp [T.size] at hf ⊢; omega)

theorem OrdT.below {s : State} : ∀ (t : T) lo x, OrdT s t lo (some x) → ∀ y ∈ t.sibs, lexLt (s.stemAt y) x = true := by
  intro t
  induction t with
  | nil => intro _ _ _ y hy; simp [T.sibs] at hy
  | node d l' _ r' il _ ir =>
    intro lo x ho y hy
    obtain ⟨_, hhi, ol', or', _⟩ := ho
    simp only [T.sibs, List.mem_append, List.mem_cons] at hy
    rcases hy with hy | rfl | hy
    · exact lexLt_trans (il _ _ ol' y hy) (hhi x rfl)
    · exact hhi x rfl
    · exact ir _ _ or' y hy

theorem OrdT.above {s : State} : ∀ (t : T) hi x, OrdT s t (some x) hi → ∀ y ∈ t.sibs, lexLt x (s.stemAt y) = true := by
  intro t
  induction t with
  | nil => intro _ _ _ y hy; simp [T.sibs] at hy
  | node d l' _ r' il _ ir =>
    intro hi x ho y hy
    obtain ⟨hlo, _, ol', or', _⟩ := ho
    simp only [T.sibs, List.mem_append, List.mem_cons] at hy
    rcases hy with hy | rfl | hy
    · exact il _ _ ol' y hy
    · exact hlo x rfl
    · exact lexLt_trans (hlo x rfl) (ir _ _ or' y hy)

/-- structural search is complete: an existing stem is found at its (unique) address -/
theorem T.find_found {s : State} {stem : Stem} :
    ∀ (t : T) (lo hi), OrdT s t lo hi → ∀ a ∈ t.sibs, s.stemAt a = stem → t.find s stem = .found a := by
  intro t
  induction t with
  | nil => intro _ _ _ a ha; simp [T.sibs] at ha
  | node b l c r ihl _ ihr =>
    intro lo hi ho a ha hs
    obtain ⟨_, _, ol, or_, _⟩ := ho
    simp only [T.sibs, List.mem_append, List.mem_cons] at ha
    simp only [T.find]
    rcases ha with ha | rfl | ha
    · have hlt := OrdT.below l lo _ ol a ha
      rw [hs] at hlt
      have hne : ¬ s.stemAt b = stem := by
        intro e; rw [e, lexLt_irrefl] at hlt; cases hlt
      simp only [hne, if_false, hlt, if_true]
      cases l with
      | nil => simp [T.sibs] at ha
      | node _ _ _ _ => exact ihl _ _ ol a ha hs
    · simp [hs]
    · have hgt := OrdT.above r hi _ or_ a ha
      rw [hs] at hgt
      have hne : ¬ s.stemAt b = stem := by
        intro e; rw [e, lexLt_irrefl] at hgt; cases hgt
      have hnl : ¬ lexLt stem (s.stemAt b) = true := by
        rw [lexLt_asymm hgt]; simp
      simp only [hne, if_false, hnl]
      cases r with
      | nil => simp [T.sibs] at ha
      | node _ _ _ _ => exact ihr _ _ or_ a ha hs

/-- conversely, what the search finds is a sibling carrying that stem; where it falls off is a sibling -/
theorem T.find_sound {s : State} {stem : Stem} : ∀ (t : T) a, t.find s stem = .found a → a ∈ t.sibs ∧ s.stemAt a = stem := by
  intro t
  induction t with
  | nil => intro a h; simp [T.find] at h
  | node b l c r ihl _ ihr =>
    intro a h
    simp only [T.find] at h
    simp only [T.sibs, List.mem_append, List.mem_cons]
    split at h
    · rename_i he; cases h; exact ⟨Or.inr (Or.inl rfl), he⟩
    · split at h
      · cases l with
        | nil => simp at h
        | node _ _ _ _ => obtain ⟨h1, h2⟩ := ihl a h; exact ⟨Or.inl h1, h2⟩
      · cases r with
        | nil => simp at h
        | node _ _ _ _ => obtain ⟨h1, h2⟩ := ihr a h; exact ⟨Or.inr (Or.inr h1), h2⟩

theorem T.graft_of_not_mem (q : Nat) (sl : Slot) (b : Nat) :
    ∀ (t : T), q ∉ t.addrs → t.graft q sl b = t := by
  intro t
  induction t with
  | nil => intro _; rfl
  | node a l c r ihl ihc ihr =>
    intro hq
    simp only [T.addrs, List.mem_cons, List.mem_append, not_or] at hq
    obtain ⟨hqa, ⟨hql, hqc⟩, hqr⟩ := hq
    have : ¬ a = q := fun e => hqa e.symm
    simp [T.graft, this, ihl hql, ihc hqc, ihr hqr]

theorem T.sibs_subset_addrs : ∀ (t : T) x, x ∈ t.sibs → x ∈ t.addrs := by
  intro t
  induction t with
  | nil => intro x hx; simp [T.sibs] at hx
  | node a l c r ihl _ ihr =>
    intro x hx
    simp only [T.sibs, List.mem_append, List.mem_cons] at hx
    simp only [T.addrs, List.mem_cons, List.mem_append]
    rcases hx with hx | rfl | hx
    · exact Or.inr (Or.inl (Or.inl (ihl x hx)))
    · exact Or.inl rfl
    · exact Or.inr (Or.inr (ihr x hx))

theorem T.find_missing_mem {s : State} {stem : Stem} :
    ∀ (t : T) q sl, t.find s stem = .missing q sl → q ∈ t.sibs := by
  intro t
  induction t with
  | nil => intro q sl hf; simp [T.find] at hf
  | node a l c r ihl _ ihr =>
    intro q sl hf
    simp only [T.find] at hf
    simp only [T.sibs, List.mem_append, List.mem_cons]
    split at hf
    · cases hf
    · split at hf
      · cases l with
        | nil => simp at hf; exact Or.inr (Or.inl hf.1.symm)
        | node _ _ _ _ => exact Or.inl (ihl q sl hf)
      · cases r with
        | nil => simp at hf; exact Or.inr (Or.inl hf.1.symm)
        | node _ _ _ _ => exact Or.inr (Or.inr (ihr q sl hf))

/-- `OrdT` only looks at the stems of the addresses of the tree -/
theorem OrdT.frame {s s' : State} : ∀ (t : T) lo hi, OrdT s t lo hi →
    (∀ a ∈ t.addrs, s'.stemAt a = s.stemAt a) → OrdT s' t lo hi := by
  intro t
  induction t with
  | nil => intro _ _ _ _; trivial
  | node a l c r ihl ihc ihr =>
    intro lo hi ho hag
    obtain ⟨h1, h2, ol, or_, oc⟩ := ho
    have ha : s'.stemAt a = s.stemAt a := hag a (by simp [T.addrs])
    refine ⟨?_, ?_, ?_, ?_, ?_⟩
    · intro x hx; rw [ha]; exact h1 x hx
    · intro x hx; rw [ha]; exact h2 x hx
    · rw [ha]; exact ihl _ _ ol (fun x hx => hag x (by simp [T.addrs, hx]))
    · rw [ha]; exact ihr _ _ or_ (fun x hx => hag x (by simp [T.addrs, hx]))
    · exact ihc _ _ oc (fun x hx => hag x (by simp [T.addrs, hx]))

end Traph

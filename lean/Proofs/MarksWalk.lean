import Proofs.Traverse
/-! C13, part 1 and 2: the pruned traversal (`dfs_iter` with `skip_childless = True`) as a structural
    recursion over the ghost tree (`T.prePruned`), the mark invariant `MarkOk` ("a node whose
    `noChild` flag is still set has no webentity anywhere in its child subtree"), and the consequence:
    the pruned walk from a prefix node meets exactly the webentity ids attached at the node or anywhere
    in its child subtree. -/
namespace Traph
open State

/-! ### 1. the pruned traversal, structurally -/

/-- order of `dfs_iter(skip_childless=True)`: node, child subtree *unless the node is still marked as free
    of child webentities*, left subtree, right subtree -/
def T.prePruned (s : State) : T → Bytes → List (Nat × Bytes)
  | .nil, _ => []
  | .node a l c r, lru =>
    (a, lru ++ s.stemAt a) ::
      ((if (s.cell a).flags.noChild then [] else c.prePruned s (lru ++ s.stemAt a))
        ++ l.prePruned s lru ++ r.prePruned s lru)

@[simp] theorem T.prePruned_nil (s : State) (lru : Bytes) : T.nil.prePruned s lru = [] := rfl

/-- the loop of `dfs_iter` with `skip_childless = True` over a stack of represented trees is the
    concatenation of their pruned pre-orders -/
theorem dfsGo_pruned_eq {s : State} (fr : Bool) (start : Nat) :
    ∀ (fuel : Nat) (ts : List (T × Bytes)), StackRep s ts →
      (fr = true ∨ ∀ p ∈ ts, start ∉ p.1.addrs) → stackSize ts < fuel →
      s.dfsGo fr start true fuel (ts.map (fun p => (p.1.root, p.2)))
        = (ts.map (fun p => p.1.prePruned s p.2)).flatten := by
  intro fuel
  induction fuel with
  | zero => intro ts _ _ hf; omega
  | succ f ih =>
    intro ts hs hst hf
    cases ts with
    | nil => simp [dfsGo]
    | cons p ts =>
      obtain ⟨t, lru⟩ := p
      obtain ⟨hr, hn⟩ := hs (t, lru) (by simp)
      cases t with
      | nil => exact absurd rfl hn
      | node a l c r =>
        obtain ⟨h1, h2, h3⟩ := hr.cell_eq
        obtain ⟨ha, _, rl, rc, rr⟩ := hr
        have hts : StackRep s ts := hs.tail
        have hcond : (fr || decide (a ≠ start)) = true := by
          rcases hst with h | h
          · simp [h]
          · have := h (T.node a l c r, lru) (by simp)
            simp only [T.addrs, List.mem_cons, not_or] at this
            have hne : a ≠ start := fun e => this.1 e.symm
            simp [hne]
        simp only [List.map_cons, T.root_node, dfsGo, h1, h2, h3, hcond, if_true, Bool.true_and]
        rw [pushIf_roots r lru ts rr, pushIf_roots l lru _ rl]
        have hsib : StackRep s (pushIf l lru (pushIf r lru ts)) := (hts.pushIf rr).pushIf rl
        have hstsib : fr = true ∨ ∀ p ∈ pushIf l lru (pushIf r lru ts), start ∉ p.1.addrs := by
          rcases hst with h | h
          · exact Or.inl h
          · right
            have h0 := h (T.node a l c r, lru) (by simp)
            simp only [T.addrs, List.mem_cons, List.mem_append, not_or] at h0
            have ht : ∀ p ∈ ts, start ∉ p.1.addrs := fun p hp => h p (by simp [hp])
            exact pushIf_forall (P := fun t => start ∉ t.addrs)
                (pushIf_forall (P := fun t => start ∉ t.addrs) ht (fun _ => h0.2.2))
                (fun _ => h0.2.1.1)
        simp only [stackSize_cons, T.size] at hf
        by_cases hnc : (s.cell a).flags.noChild = true
        · rw [if_pos hnc]
          rw [ih _ hsib hstsib (by rw [pushIf_size, pushIf_size]; omega)]
          rw [pushIf_flatten l _ _ (fun t x => t.prePruned s x) (fun _ => rfl),
              pushIf_flatten r _ _ (fun t x => t.prePruned s x) (fun _ => rfl)]
          simp [T.prePruned, hnc]
        · rw [if_neg hnc, pushIf_roots c _ _ rc]
          have hst' : fr = true ∨
              ∀ p ∈ pushIf c (lru ++ s.stemAt a) (pushIf l lru (pushIf r lru ts)), start ∉ p.1.addrs := by
            rcases hst with h | h
            · exact Or.inl h
            · right
              have h0 := h (T.node a l c r, lru) (by simp)
              simp only [T.addrs, List.mem_cons, List.mem_append, not_or] at h0
              have ht : ∀ p ∈ ts, start ∉ p.1.addrs := fun p hp => h p (by simp [hp])
              exact pushIf_forall (P := fun t => start ∉ t.addrs)
                (pushIf_forall (P := fun t => start ∉ t.addrs)
                  (pushIf_forall (P := fun t => start ∉ t.addrs) ht (fun _ => h0.2.2))
                  (fun _ => h0.2.1.1)) (fun _ => h0.2.1.2)
          rw [ih _ (hsib.pushIf rc) hst' (by rw [pushIf_size, pushIf_size, pushIf_size]; omega)]
          rw [pushIf_flatten c _ _ (fun t x => t.prePruned s x) (fun _ => rfl),
              pushIf_flatten l _ _ (fun t x => t.prePruned s x) (fun _ => rfl),
              pushIf_flatten r _ _ (fun t x => t.prePruned s x) (fun _ => rfl)]
          simp [T.prePruned, hnc]

/-- the pruned walk started from a node: the node, then its child subtree unless the node is marked -/
theorem dfsIter_pruned_from {s : State} {a : Nat} {l c r : T} (hr : Rep s (.node a l c r))
    (hnd : (T.node a l c r).addrs.Nodup) (hsz : (T.node a l c r).size ≤ s.trie.size) (lru : Bytes) :
    s.dfsGo false a true (s.trie.size + 1) [(a, lru)]
      = (a, lru ++ s.stemAt a) ::
          (if (s.cell a).flags.noChild then [] else c.prePruned s (lru ++ s.stemAt a)) := by
  obtain ⟨h1, h2, h3⟩ := hr.cell_eq
  obtain ⟨ha, _, rl, rc, rr⟩ := hr
  simp only [dfsGo, h2, Bool.false_or, ne_eq, not_true_eq_false, decide_false,
    Bool.false_eq_true, if_false, Bool.true_and]
  by_cases hnc : (s.cell a).flags.noChild = true
  · rw [if_pos hnc, if_pos hnc]
    cases hsz' : s.trie.size <;> simp [dfsGo]
  · rw [if_neg hnc, if_neg hnc]
    have hna : a ∉ c.addrs := by
      simp only [T.addrs, List.nodup_cons, List.mem_append, not_or] at hnd
      exact hnd.1.1.2
    have e := pushIf_roots c (lru ++ s.stemAt a) ([] : List (T × Bytes)) rc
    simp only [List.map_nil] at e
    rw [e]
    have := dfsGo_pruned_eq (s := s) false a s.trie.size (pushIf c (lru ++ s.stemAt a) [])
      (StackRep.pushIf (fun _ hp => by simp at hp) rc)
      (Or.inr (pushIf_forall (P := fun t => a ∉ t.addrs) (fun _ hp => by simp at hp) (fun _ => hna)))
      (by rw [pushIf_size]; simp [T.size] at hsz ⊢; omega)
    rw [this, pushIf_flatten c _ _ (fun t x => t.prePruned s x) (fun _ => rfl)]
    simp

/-- the same through the entry point `dfsIter (some (a, lru)) true` (which starts at `lruDirname lru`) -/
theorem dfsIter_pruned_some {s : State} {a : Nat} {l c r : T} (hr : Rep s (.node a l c r))
    (hnd : (T.node a l c r).addrs.Nodup) (hsz : (T.node a l c r).size ≤ s.trie.size) (lru : Bytes) :
    s.dfsIter (some (a, lru)) true
      = (a, lruDirname lru ++ s.stemAt a) ::
          (if (s.cell a).flags.noChild then [] else c.prePruned s (lruDirname lru ++ s.stemAt a)) :=
  dfsIter_pruned_from hr hnd hsz (lruDirname lru)

/-- the pruned walk from the root -/
theorem dfsIter_pruned_root {s : State} {t : T} (h : Shape s t) : s.dfsIter none true = t.prePruned s [] := by
  have hroot := h.root
  by_cases hsz : s.trie.size ≤ 1
  · rw [if_pos hsz] at hroot
    cases t with
    | nil => simp [dfsIter, hsz]
    | node a l c r => exact absurd hroot h.rep.1
  · rw [if_neg hsz] at hroot
    cases t with
    | nil => simp at hroot
    | node a l c r =>
      simp only [T.root_node] at hroot
      subst hroot
      have hle := h.size_le
      have := dfsGo_pruned_eq (s := s) true 1 (s.trie.size + 1) [(T.node 1 l c r, [])]
        (by intro p hp; simp only [List.mem_singleton] at hp; subst hp; exact ⟨h.rep, by simp⟩)
        (Or.inl rfl) (by simp; omega)
      simpa [dfsIter, hsz] using this

/-! ### 2. the mark invariant -/

/-- a node whose `noChild` flag is still set has no webentity anywhere in its child subtree -/
def MarkOk (s : State) : T → Prop
  | .nil => True
  | .node a l c r =>
    MarkOk s l ∧ MarkOk s r ∧ MarkOk s c ∧
      ((s.cell a).flags.noChild = true → ∀ b ∈ c.addrs, (s.cell b).we = 0)

@[simp] theorem MarkOk.nil (s : State) : MarkOk s .nil = True := rfl

theorem MarkOk.node_iff (s : State) (a : Nat) (l c r : T) :
    MarkOk s (.node a l c r) ↔ (MarkOk s l ∧ MarkOk s r ∧ MarkOk s c ∧
      ((s.cell a).flags.noChild = true → ∀ b ∈ c.addrs, (s.cell b).we = 0)) := Iff.rfl

/-- the pruned walk is a sub-list of the full walk (same blocks, same LRUs, same order) -/
theorem prePruned_sublist {s : State} : ∀ (t : T) (lru : Bytes), (t.prePruned s lru).Sublist (t.pre s lru) := by
  intro t
  induction t with
  | nil => intro _; exact List.Sublist.refl _
  | node a l c r ihl ihc ihr =>
    intro lru
    simp only [T.prePruned, T.pre]
    refine List.Sublist.cons_cons _ ?_
    refine List.Sublist.append (List.Sublist.append ?_ (ihl lru)) (ihr lru)
    split
    · exact List.nil_sublist _
    · exact ihc _

/-- every block met by the pruned walk is a node of the tree -/
theorem prePruned_sub {s : State} (t : T) (lru : Bytes) :
    ∀ b ∈ (t.prePruned s lru).map (·.1), b ∈ t.addrs := by
  intro b hb
  have h1 : b ∈ (t.pre s lru).map (·.1) := ((prePruned_sublist t lru).map _).subset hb
  exact (pre_addrs_perm t lru).subset h1

/-- pairs of the pruned walk are pairs of the full walk -/
theorem prePruned_mem_pre {s : State} (t : T) (lru : Bytes) :
    ∀ x ∈ t.prePruned s lru, x ∈ t.pre s lru :=
  fun _ hx => (prePruned_sublist t lru).subset hx

/-- KEY: under the mark invariant the pruned walk meets every node that carries a webentity -/
theorem prePruned_complete {s : State} : ∀ (t : T) (lru : Bytes), MarkOk s t →
    ∀ b ∈ t.addrs, (s.cell b).we ≠ 0 → b ∈ (t.prePruned s lru).map (·.1) := by
  intro t
  induction t with
  | nil => intro _ _ b hb; simp [T.addrs] at hb
  | node a l c r ihl ihc ihr =>
    intro lru hm b hb hw
    obtain ⟨ml, mr, mc, hmark⟩ := hm
    simp only [T.addrs, List.mem_cons, List.mem_append] at hb
    simp only [T.prePruned, List.map_cons, List.map_append, List.mem_cons, List.mem_append]
    rcases hb with rfl | (hb | hb) | hb
    · exact Or.inl rfl
    · exact Or.inr (Or.inl (Or.inr (ihl lru ml b hb hw)))
    · by_cases hnc : (s.cell a).flags.noChild = true
      · exact absurd (hmark hnc b hb) hw
      · rw [if_neg hnc]
        exact Or.inr (Or.inl (Or.inl (ihc _ mc b hb hw)))
    · exact Or.inr (Or.inr (ihr lru mr b hb hw))

/-- from the root: the pruned full traversal meets every webentity-carrying node -/
theorem dfsIter_pruned_root_complete {s : State} {t : T} (h : Shape s t) (hm : MarkOk s t) :
    ∀ b ∈ t.addrs, (s.cell b).we ≠ 0 → b ∈ (s.dfsIter none true).map (·.1) := by
  rw [dfsIter_pruned_root h]
  exact prePruned_complete t [] hm

/-- C13 (structural core): the set of ids met by the pruned DFS started from the prefix node `a` = the set
    of ids attached at `a` or anywhere in its child subtree (all proper extensions of the prefix, at any
    depth) -/
theorem C13_children_exact {s : State} {a : Nat} {l c r : T} (hr : Rep s (.node a l c r))
    (hnd : (T.node a l c r).addrs.Nodup) (hsz : (T.node a l c r).size ≤ s.trie.size)
    (hm : MarkOk s (.node a l c r)) (lru : Bytes) (w : Nat) :
    ∀ x, (x ≠ 0 ∧ x ≠ w ∧ ∃ b ∈ a :: c.addrs, (s.cell b).we = x) ↔
         (x ≠ 0 ∧ x ≠ w ∧ ∃ bl ∈ s.dfsIter (some (a, lru)) true, (s.cell bl.1).we = x) := by
  intro x
  rw [dfsIter_pruned_some hr hnd hsz lru]
  obtain ⟨_, _, mc, hmark⟩ := hm
  constructor
  · rintro ⟨h0, hw, b, hb, hx⟩
    refine ⟨h0, hw, ?_⟩
    rcases List.mem_cons.mp hb with rfl | hb
    · exact ⟨_, List.mem_cons_self, hx⟩
    · have hwb : (s.cell b).we ≠ 0 := by rw [hx]; exact h0
      by_cases hnc : (s.cell a).flags.noChild = true
      · exact absurd (hmark hnc b hb) hwb
      · rw [if_neg hnc]
        have := prePruned_complete c (lruDirname lru ++ s.stemAt a) mc b hb hwb
        obtain ⟨bl, hbl, e⟩ := List.mem_map.mp this
        exact ⟨bl, List.mem_cons_of_mem _ hbl, by rw [e]; exact hx⟩
  · rintro ⟨h0, hw, bl, hbl, hx⟩
    refine ⟨h0, hw, bl.1, ?_, hx⟩
    rcases List.mem_cons.mp hbl with rfl | hbl
    · exact List.mem_cons_self
    · refine List.mem_cons_of_mem _ ?_
      split at hbl
      · simp at hbl
      · exact prePruned_sub c _ bl.1 (List.mem_map.mpr ⟨bl, hbl, rfl⟩)

#print axioms dfsGo_pruned_eq
#print axioms dfsIter_pruned_from
#print axioms prePruned_complete
#print axioms C13_children_exact

end Traph

import Proofs.Marks
import Proofs.MarksQuery
/-! C13, beyond part 3 (f): EVERY write request of the API (`State.step`) preserves the invariant
    `MInv` = "there is a ghost tree with the shape invariant and the mark invariant"; hence it holds in every
    state reachable from a fresh index, "however a webentity's prefix came to exist" (explicit creation,
    automatic creation by `add_page` / `add_links` / `index_batch_crawl` / rule installation, moves). -/
namespace Traph
open State

/-! ### primitives -/

theorem MInv.of_trie_eq {s s' : State} (h : MInv s) (e : s'.trie = s.trie) : MInv s' := by
  obtain ⟨t, hs, hm⟩ := h
  have ns : NoStruct s s' :=
    ⟨by rw [e], fun i c hc => ⟨c, by rw [e]; exact hc, rfl, rfl, rfl, rfl, rfl⟩⟩
  have hc : ∀ b, s'.cell b = s.cell b := fun b => by unfold State.cell; rw [e]
  exact ⟨t, ns.shape hs, hm.of_cells (fun b hb => by rw [hc]; exact hb) (fun b hb => by rw [hc] at hb; exact hb)⟩

/-- a block rewrite that touches neither pointers, stem, webentity id nor the `noChild` flag -/
theorem MInv.modCell {s : State} (h : MInv s) (i : Nat) (f : Cell → Cell)
    (hf : ∀ c, (f c).left = c.left ∧ (f c).right = c.right ∧ (f c).child = c.child ∧
      (f c).chunk = c.chunk ∧ (f c).flags.hasTail = c.flags.hasTail)
    (hwe : ∀ c, (f c).we = c.we) (hnc : ∀ c, (f c).flags.noChild = c.flags.noChild) :
    MInv (s.modCell i f) := by
  obtain ⟨t, hs, hm⟩ := h
  exact ⟨t, (noStruct_modCell s i f hf).shape hs, hm.modCell_attrs i f hwe hnc⟩

theorem minv_setCrawled {s : State} (h : MInv s) (n : Nat) :
    MInv (s.modCell n (fun c => { c with flags := { c.flags with crawled := true } })) :=
  h.modCell n _ (fun _ => ⟨rfl, rfl, rfl, rfl, rfl⟩) (fun _ => rfl) (fun _ => rfl)

theorem minv_setRule {s : State} (h : MInv s) (n : Nat) (b : Bool) :
    MInv (s.modCell n (fun c => { c with flags := { c.flags with rule := b } })) :=
  h.modCell n _ (fun _ => ⟨rfl, rfl, rfl, rfl, rfl⟩) (fun _ => rfl) (fun _ => rfl)

/-! ### link store -/

theorem trie_addStubsGo : ∀ (targets : List Nat) (s : State) (tail : Nat),
    (s.addStubsGo tail targets).1.trie = s.trie
  | [], s, tail => by simp only [addStubsGo]
  | t :: ts, s, tail => by
    simp only [addStubsGo]
    rw [trie_addStubsGo ts]; rfl

theorem minv_addStubs {s : State} (h : MInv s) (page : Nat) (targets : List Nat) (out : Bool) :
    MInv (s.addStubs page targets out) := by
  unfold addStubs
  split
  · exact h
  · refine (h.of_trie_eq (trie_addStubsGo targets s _)).modCell page _ ?_ ?_ ?_
    · intro c; split <;> exact ⟨rfl, rfl, rfl, rfl, rfl⟩
    · intro c; split <;> rfl
    · intro c; split <;> rfl

theorem minv_flushLists (out : Bool) (pages : List (Bytes × Nat)) :
    ∀ (l : List (Bytes × List Bytes)) (s : State), MInv s → MInv (flushLists out pages s l)
  | [], s, h => by simp only [flushLists]; exact h
  | (p, others) :: rest, s, h => by
    simp only [flushLists]
    exact minv_flushLists out pages rest _ (minv_addStubs h _ _ out)

/-! ### pages -/

theorem minv_addPageTrie {s : State} (h : MInv s) (stems : LRU) (crawled : Bool) :
    MInv (s.addPageTrie stems crawled).1 := by
  have h1 := addLru_minv h stems false
  unfold addPageTrie
  rcases ha : s.addLru stems false with ⟨s1, n, hh⟩
  rw [ha] at h1
  simp only at h1 ⊢
  split
  · exact h1.modCell n _ (fun _ => ⟨rfl, rfl, rfl, rfl, rfl⟩) (fun _ => rfl) (fun _ => rfl)
  · split
    · exact minv_setCrawled h1 n
    · exact h1

theorem minv_addPageCore {s : State} (h : MInv s) (lru : Bytes) (crawled : Bool) :
    MInv (s.addPageCore lru crawled).1 := by
  have h1 := minv_addPageTrie h (lruIter lru) crawled
  rcases ha : s.addPageTrie (lruIter lru) crawled with ⟨s1, n, hh⟩
  rw [ha] at h1
  simp only at h1
  simp only [addPageCore, ha]
  repeat' split
  all_goals first | exact h1 | exact createWebentityAuto_markOk h1 _

theorem minv_addPage {s : State} (h : MInv s) (lru : Bytes) (crawled : Bool) :
    MInv (s.addPage lru crawled).1 := by
  simp only [addPage]
  exact minv_addPageCore h lru crawled

theorem minv_addPagesGo (always : Bool) : ∀ (ls : List Bytes) (s : State) (crawled : Bool) (rep : Report),
    MInv s → MInv (addPagesGo always s ls crawled rep).1
  | [], s, crawled, rep, h => by simp only [addPagesGo]; exact h
  | l :: ls, s, crawled, rep, h => by
    have h1 := minv_addPageCore h l crawled
    rw [addPagesGo]
    split
    · rename_i s1 _ e heq
      rw [heq] at h1; exact h1
    · rename_i s1 n r heq
      rw [heq] at h1
      simp only at h1
      have h2 : MInv (if always = true then
          s1.modCell n (fun c => { c with flags := { c.flags with crawled := true } }) else s1) := by
        split
        · exact minv_setCrawled h1 n
        · exact h1
      exact minv_addPagesGo always ls _ crawled _ h2

theorem minv_addPages {s : State} (h : MInv s) (lrus : List Bytes) (crawled : Bool) :
    MInv (s.addPages lrus crawled).1 := by
  unfold addPages
  exact minv_addPagesGo _ lrus s crawled {} h

theorem minv_ensurePageCached {s : State} (h : MInv s) (acc : LinkAcc) (l : Bytes) (crawled : Bool) :
    MInv (s.ensurePageCached acc l crawled).1 := by
  have h1 := minv_addPageCore h l crawled
  unfold ensurePageCached
  split
  · exact h
  · split <;> rename_i heq <;> rw [heq] at h1 <;> exact h1

theorem minv_addLinksScan : ∀ (links : List (Bytes × Bytes)) (s : State) (acc : LinkAcc),
    MInv s → MInv (addLinksScan s links acc).1
  | [], s, acc, h => by simp only [addLinksScan]; exact h
  | (src, tgt) :: rest, s, acc, h => by
    have h1 := minv_ensurePageCached h acc src false
    rw [addLinksScan]
    split
    · rename_i heq; rw [heq] at h1; exact h1
    · rename_i s1 acc1 heq
      rw [heq] at h1
      simp only at h1
      have h2 := minv_ensurePageCached h1 acc1 tgt false
      split
      · rename_i heq2; rw [heq2] at h2; exact h2
      · rename_i s2 acc2 heq2
        rw [heq2] at h2
        simp only at h2
        exact minv_addLinksScan rest s2 _ h2

theorem minv_addLinks {s : State} (h : MInv s) (links : List (Bytes × Bytes)) :
    MInv (s.addLinks links).1 := by
  have h1 := minv_addLinksScan links s {} h
  unfold addLinks
  split
  · rename_i heq; rw [heq] at h1; exact h1
  · rename_i s1 acc heq
    rw [heq] at h1
    simp only at h1 ⊢
    exact minv_flushLists false acc.pages acc.inl _ (minv_flushLists true acc.pages acc.outl s1 h1)

theorem minv_batchTargets : ∀ (ts : List Bytes) (s : State) (src : Bytes) (acc : LinkAcc) (tb : List Nat),
    MInv s → MInv (batchTargets s src ts acc tb).1
  | [], s, src, acc, tb, h => by simp only [batchTargets]; exact h
  | t :: ts, s, src, acc, tb, h => by
    have h1 := minv_ensurePageCached h acc t false
    rw [batchTargets]
    split
    · rename_i heq; rw [heq] at h1; exact h1
    · rename_i s1 acc1 heq
      rw [heq] at h1
      simp only at h1
      exact minv_batchTargets ts s1 src _ _ h1

theorem MInv.fst_of_eq {α : Type} {p q : State × α} (h : MInv p.1) (e : p = q) : MInv q.1 := e ▸ h

theorem minv_batchSources : ∀ (data : List (Bytes × List Bytes)) (s : State) (acc : LinkAcc),
    MInv s → MInv (batchSources s data acc).1
  | [], s, acc, h => by simp only [batchSources]; exact h
  | (src, tgts) :: rest, s, acc, h => by
    have h1 : MInv (match dictGet? acc.pages src with
        | none => s.ensurePageCached acc src true
        | some n =>
          if !(s.cell n).flags.crawled then
            (s.modCell n (fun c => { c with flags := { c.flags with crawled := true } }), Except.ok acc)
          else (s, Except.ok acc)).1 := by
      split
      · exact minv_ensurePageCached h acc src true
      · split
        · exact minv_setCrawled h _
        · exact h
    rw [batchSources]
    simp only
    split
    · rename_i heq; exact h1.fst_of_eq heq
    · rename_i s1 acc1 heq
      replace h1 : MInv s1 := h1.fst_of_eq heq
      have h2 := minv_batchTargets tgts s1 src acc1 [] h1
      split
      · rename_i heq2; rw [heq2] at h2; exact h2
      · rename_i s2 acc2 tb heq2
        rw [heq2] at h2
        simp only at h2
        exact minv_batchSources rest _ acc2 (minv_addStubs h2 _ tb true)

theorem minv_batch {s : State} (h : MInv s) (data : List (Bytes × List Bytes)) :
    MInv (s.batch data).1 := by
  have h1 := minv_batchSources data s {} h
  unfold batch
  split
  · rename_i heq; rw [heq] at h1; exact h1
  · rename_i s1 acc heq
    rw [heq] at h1
    simp only at h1 ⊢
    exact minv_flushLists false acc.pages acc.inl s1 h1

/-! ### creation rules -/

theorem minv_addRuleLoop (startBlock : Nat) : ∀ (fuel : Nat) (s : State) (stack : List (Nat × Bytes))
    (rep : Report), MInv s → MInv (addRuleLoop startBlock fuel s stack rep).1
  | 0, s, stack, rep, h => by simp only [addRuleLoop]; exact h
  | fuel + 1, s, [], rep, h => by simp only [addRuleLoop]; exact h
  | fuel + 1, s, (b, lru) :: stack, rep, h => by
    have h1 : MInv (if (s.cell b).flags.page then
          (match s.addPageCore (lru ++ s.stemAt b) false with
           | (s1, _, .error e) => (s1, Except.error e)
           | (s1, _, .ok r1) => (s1, Except.ok (rep.add r1)))
        else (s, Except.ok rep) : State × Except Err Report).1 := by
      split
      · have := minv_addPageCore h (lru ++ s.stemAt b) false
        split <;> rename_i heq <;> exact this.fst_of_eq heq
      · exact h
    rw [addRuleLoop]
    simp only
    split
    · rename_i heq; exact h1.fst_of_eq heq
    · rename_i s1 rep1 heq
      replace h1 : MInv s1 := h1.fst_of_eq heq
      exact minv_addRuleLoop startBlock fuel s1 _ _ h1

theorem minv_addRule {s : State} (h : MInv s) (anchor : Bytes) (r : Rule) (w : Bool) :
    MInv (s.addRule anchor r w).1 := by
  have h0 : MInv { s with rules := dictSet s.rules anchor r } := h.of_trie_eq rfl
  have h1 := addLru_minv h0 (lruIter anchor) false
  rcases ha : State.addLru { s with rules := dictSet s.rules anchor r } (lruIter anchor) false with ⟨s1, n, hh⟩
  rw [ha] at h1
  simp only at h1
  simp only [addRule, ha]
  split
  · exact h0
  · exact minv_addRuleLoop n _ _ _ _ (minv_setRule h1 n true)

theorem minv_removeRule {s : State} (h : MInv s) (anchor : Bytes) : MInv (s.removeRule anchor).1 := by
  unfold removeRule
  split
  · exact h
  · simp only
    have h0 : MInv { s with rules := s.rules.filter (fun p => p.1 ≠ anchor) } := h.of_trie_eq rfl
    split
    · exact h0
    · exact minv_setRule h0 _ false

theorem minv_installRules : ∀ (rules : List (Bytes × Rule)) (s : State) (w : Bool),
    MInv s → MInv (installRules s rules w).1
  | [], s, w, h => by simp only [installRules]; exact h
  | (a, r) :: rest, s, w, h => by
    have h1 := minv_addRule h a r w
    rw [installRules]
    split
    · rename_i heq; exact h1.fst_of_eq heq
    · rename_i s1 _ heq
      exact minv_installRules rest s1 w (h1.fst_of_eq heq)

/-- a fresh index satisfies the invariant (its constructor's rules included) -/
theorem minv_fresh (cfg : Config) (dflt : Rule) (rules : List (Bytes × Rule)) (log : List Write) :
    MInv (State.fresh cfg dflt rules log).1 := by
  unfold fresh
  exact minv_installRules rules _ true (minv_of_trie_init _ rfl)

theorem minv_reopen {s : State} (h : MInv s) (dflt : Rule) (rules : List (Bytes × Rule)) :
    MInv (s.reopen dflt rules) := h.of_trie_eq rfl

theorem minv_clear (s : State) (dflt : Option Rule) (rules : Option (List (Bytes × Rule))) :
    MInv (s.clear dflt rules).1 := by
  unfold clear
  simp only
  split
  · exact minv_of_trie_init _ rfl
  · exact minv_installRules _ _ true (minv_of_trie_init _ rfl)

/-! ### every write request, every reachable state -/

theorem step_minv (s : State) (op : Op) (h : MInv s) : MInv (s.step op).1 := by
  cases op with
  | addPage l c => exact minv_addPage h l c
  | addPages ls c => exact minv_addPages h ls c
  | addLinks ls => exact minv_addLinks h ls
  | batch d => exact minv_batch h d
  | create ps => exact createWebentity_markOk h ps
  | delete w ps => exact deleteWebentity_markOk h w ps
  | addPrefix p w => exact addPrefix_markOk h p w
  | removePrefix p w => exact removePrefix_markOk h p w
  | movePrefix p t f => exact movePrefix_markOk h p t f
  | addRule a r => exact minv_addRule h a r true
  | removeRule a => exact minv_removeRule h a
  | reopen d rs => exact minv_reopen h d rs
  | clear d rs => exact minv_clear s d rs

theorem run_minv : ∀ (ops : List Op) (s : State), MInv s → MInv (s.run ops)
  | [], _, h => h
  | op :: ops, s, h => run_minv ops (s.step op).1 (step_minv s op h)

/-- C13 for reachable states: in every state reached from a fresh index by any history of write requests,
    for every node `a` of the tree the pruned walk of `get_webentity_child_webentities` from `a` meets
    exactly the webentity ids attached at `a` or anywhere below it -/
theorem C13_reachable (cfg : Config) (dflt : Rule) (rules : List (Bytes × Rule)) (ops : List Op) :
    let s := (State.fresh cfg dflt rules).1.run ops
    ∃ t, Shape s t ∧ MarkOk s t ∧ ∀ a ∈ t.addrs, ∀ (lru : Bytes) (w : Nat),
      ∃ l c r, Rep s (.node a l c r) ∧ (∀ x ∈ c.addrs, x ∈ t.addrs) ∧
        ∀ x, (x ≠ 0 ∧ x ≠ w ∧ ∃ b ∈ a :: c.addrs, (s.cell b).we = x) ↔
             (x ≠ 0 ∧ x ≠ w ∧ ∃ bl ∈ s.dfsIter (some (a, lru)) true, (s.cell bl.1).we = x) := by
  intro s
  obtain ⟨t, hs, hm⟩ := run_minv ops _ (minv_fresh cfg dflt rules [])
  exact ⟨t, hs, hm, fun a ha lru w => C13_children_exact_of_shape hs hm ha lru w⟩

/-- C13, API level, for reachable states: the answer of `get_webentity_child_webentities` is exactly the set of
    ids (other than the queried one) attached to a stored path extending one of the given prefixes -/
theorem C13_reachable_api (cfg : Config) (dflt : Rule) (rules : List (Bytes × Rule)) (ops : List Op)
    (w : Nat) (ps : List Bytes) (hps : ∀ p ∈ ps, lruIter p ≠ []) (l : List Nat) :
    let s := (State.fresh cfg dflt rules).1.run ops
    s.childWebentities w ps = .ok l →
    ∃ t, Shape s t ∧ ∀ x, x ∈ l ↔ x ≠ 0 ∧ x ≠ w ∧ ∃ p ∈ ps, ∃ q b, (q, b) ∈ t.entries s [] ∧
      lruIter p <+: q ∧ (s.cell b).we = x := by
  intro s h
  obtain ⟨t, hs, hm⟩ := run_minv ops _ (minv_fresh cfg dflt rules [])
  exact ⟨t, hs, fun x => C13_childWebentities_exact hs hm w ps hps l h x⟩

end Traph

section
open Traph
#print axioms C13_reachable_api
#print axioms step_minv
#print axioms run_minv
#print axioms C13_reachable
end

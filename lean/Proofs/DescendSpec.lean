import Proofs.GraftHole
/-! What the level-by-level descent means in terms of the finite map `T.entries`:
    `descend` finds `b` for `stems` iff `(pre ++ stems, b)` is an entry; hence `lru_node` is the map
    look-up, no LRU is stored twice, every node is exactly one entry; `follow_lru` finds the same node and
    its history is the fold of `Hist.visit` over the cells matched on the way down, so the webentity it
    resolves to is the one attached to the deepest existing stem-prefix that carries one. -/
namespace Traph
open State

/-! ### `Nodup` of a node, `childAt` of a node -/

theorem T.childAt_node_self (b : Nat) (l c r : T) : (T.node b l c r).childAt b = c := by
  simp [T.childAt]

theorem T.childAt_node_left {b a : Nat} {l c r : T} (hnd : (T.node b l c r).addrs.Nodup)
    (ha : a ∈ l.sibs) : (T.node b l c r).childAt a = l.childAt a := by
  have hn := T.nodup_node hnd
  have hne : ¬ b = a := by
    intro e; subst e; exact hn.1 (T.sibs_subset_addrs l _ ha)
  simp only [T.childAt]
  rw [if_neg hne, if_pos ha]

theorem T.childAt_node_right {b a : Nat} {l c r : T} (hnd : (T.node b l c r).addrs.Nodup)
    (ha : a ∈ r.sibs) : (T.node b l c r).childAt a = r.childAt a := by
  have hn := T.nodup_node hnd
  have hne : ¬ b = a := by
    intro e; subst e; exact hn.2.2.1 (T.sibs_subset_addrs r _ ha)
  have hnl : ¬ a ∈ l.sibs := by
    intro hl
    exact hn.2.2.2.2.2.2.2.1 a (T.sibs_subset_addrs l _ hl) (T.sibs_subset_addrs r _ ha)
  simp only [T.childAt]
  rw [if_neg hne, if_neg hnl]

theorem T.childAt_nodup : ∀ (u : T) (a : Nat), u.addrs.Nodup → a ∈ u.sibs → (u.childAt a).addrs.Nodup
  | .nil, a, _, h => by simp [T.sibs] at h
  | .node b l c r, a, hnd, h => by
    have hn := T.nodup_node hnd
    simp only [T.sibs, List.mem_append, List.mem_cons] at h
    rcases h with h | rfl | h
    · rw [T.childAt_node_left hnd h]; exact T.childAt_nodup l a hn.2.2.2.1 h
    · rw [T.childAt_node_self]; exact hn.2.2.2.2.1
    · rw [T.childAt_node_right hnd h]; exact T.childAt_nodup r a hn.2.2.2.2.2.1 h

/-- (no `Nodup` needed: whichever node labelled `a` is picked, its child tree is ordered) -/
theorem OrdT.childAt {s : State} : ∀ (u : T) (lo hi : Option Stem) (a : Nat), OrdT s u lo hi → a ∈ u.sibs →
    OrdT s (u.childAt a) none none
  | .nil, _, _, a, _, h => by simp [T.sibs] at h
  | .node b l c r, lo, hi, a, ho, h => by
    obtain ⟨_, _, ol, or_, oc⟩ := ho
    simp only [T.sibs, List.mem_append, List.mem_cons] at h
    simp only [T.childAt]
    by_cases e : b = a
    · rw [if_pos e]; exact oc
    · rw [if_neg e]
      by_cases hl : a ∈ l.sibs
      · rw [if_pos hl]; exact OrdT.childAt l _ _ a ol hl
      · rw [if_neg hl]
        have : a ∈ r.sibs := by
          rcases h with h | h | h
          · exact absurd h hl
          · exact absurd h.symm e
          · exact h
        exact OrdT.childAt r _ _ a or_ this

/-! ### structure of `entries` -/

/-- every entry path strictly extends the prefix -/
theorem entries_prefix {s : State} : ∀ (u : T) (pre p : LRU) (b : Nat),
    (p, b) ∈ u.entries s pre → ∃ x rest, p = pre ++ x :: rest
  | .nil, _, _, _, h => by simp [T.entries] at h
  | .node a l c r, pre, p, b, h => by
    simp only [T.entries, List.mem_append, List.mem_cons, Prod.mk.injEq] at h
    rcases h with h | ⟨rfl, _⟩ | h | h
    · exact entries_prefix l pre p b h
    · exact ⟨s.stemAt a, [], rfl⟩
    · obtain ⟨x, rest, rfl⟩ := entries_prefix c _ p b h
      exact ⟨s.stemAt a, x :: rest, by simp⟩
    · exact entries_prefix r pre p b h

theorem entries_addr_mem {s : State} : ∀ (u : T) (pre p : LRU) (b : Nat),
    (p, b) ∈ u.entries s pre → b ∈ u.addrs
  | .nil, _, _, _, h => by simp [T.entries] at h
  | .node a l c r, pre, p, b, h => by
    simp only [T.entries, List.mem_append, List.mem_cons, Prod.mk.injEq] at h
    simp only [T.addrs, List.mem_cons, List.mem_append]
    rcases h with h | ⟨_, rfl⟩ | h | h
    · exact Or.inr (Or.inl (Or.inl (entries_addr_mem l pre p b h)))
    · exact Or.inl rfl
    · exact Or.inr (Or.inl (Or.inr (entries_addr_mem c _ p b h)))
    · exact Or.inr (Or.inr (entries_addr_mem r pre p b h))

/-- the entries of a sibling tree, sibling by sibling: the sibling's own entry, and the entries of its
    child tree one stem down -/
theorem mem_entries_iff {s : State} : ∀ (u : T) (pre p : LRU) (b : Nat), u.addrs.Nodup →
    ((p, b) ∈ u.entries s pre ↔
      ∃ a ∈ u.sibs, (p = pre ++ [s.stemAt a] ∧ b = a) ∨
        (p, b) ∈ (u.childAt a).entries s (pre ++ [s.stemAt a]))
  | .nil, _, _, _, _ => by simp [T.entries, T.sibs]
  | .node d l c r, pre, p, b, hnd => by
    have hn := T.nodup_node hnd
    have ihl := mem_entries_iff (s := s) l pre p b hn.2.2.2.1
    have ihr := mem_entries_iff (s := s) r pre p b hn.2.2.2.2.2.1
    simp only [T.entries, List.mem_append, List.mem_cons, Prod.mk.injEq]
    constructor
    · intro h
      rcases h with h | ⟨h1, h2⟩ | h | h
      · obtain ⟨a, ha, h⟩ := ihl.mp h
        refine ⟨a, by simp [T.sibs, ha], ?_⟩
        rw [T.childAt_node_left hnd ha]; exact h
      · exact ⟨d, by simp [T.sibs], Or.inl ⟨h1, h2⟩⟩
      · refine ⟨d, by simp [T.sibs], Or.inr ?_⟩
        rw [T.childAt_node_self]; exact h
      · obtain ⟨a, ha, h⟩ := ihr.mp h
        refine ⟨a, by simp [T.sibs, ha], ?_⟩
        rw [T.childAt_node_right hnd ha]; exact h
    · rintro ⟨a, ha, h⟩
      simp only [T.sibs, List.mem_append, List.mem_cons] at ha
      rcases ha with ha | rfl | ha
      · rw [T.childAt_node_left hnd ha] at h
        exact Or.inl (ihl.mpr ⟨a, ha, h⟩)
      · rw [T.childAt_node_self] at h
        rcases h with ⟨h1, h2⟩ | h
        · exact Or.inr (Or.inl ⟨h1, h2⟩)
        · exact Or.inr (Or.inr (Or.inl h))
      · rw [T.childAt_node_right hnd ha] at h
        exact Or.inr (Or.inr (Or.inr (ihr.mpr ⟨a, ha, h⟩)))

/-- every node is exactly one entry -/
theorem entries_addrs_perm {s : State} : ∀ (u : T) (pre : LRU),
    ((u.entries s pre).map (·.2)).Perm u.addrs
  | .nil, _ => by simp [T.entries, T.addrs]
  | .node a l c r, pre => by
    have hl := entries_addrs_perm (s := s) l pre
    have hc := entries_addrs_perm (s := s) c (pre ++ [s.stemAt a])
    have hr := entries_addrs_perm (s := s) r pre
    simp only [T.entries, T.addrs, List.map_append, List.map_cons]
    refine List.Perm.trans List.perm_middle ?_
    refine List.Perm.cons a ?_
    rw [List.append_assoc]
    exact hl.append (hc.append hr)

/-! ### the descent is the look-up in the finite map -/

theorem descend_found_iff {s : State} : ∀ (stems : List Stem) (u : T) (lo hi : Option Stem) (pre : LRU) (b : Nat),
    OrdT s u lo hi → u.addrs.Nodup → stems ≠ [] →
    (u.descend s stems pre = .found b ↔ (pre ++ stems, b) ∈ u.entries s pre) := by
  intro stems
  induction stems with
  | nil => intro _ _ _ _ _ _ _ h; exact absurd rfl h
  | cons stem rest ih =>
    intro u lo hi pre b hord hnd _
    rw [mem_entries_iff u pre _ b hnd]
    constructor
    · intro hd
      simp only [T.descend] at hd
      cases hf : u.find s stem with
      | corrupt => rw [hf] at hd; simp at hd
      | missing q sl => rw [hf] at hd; simp at hd
      | found a =>
        rw [hf] at hd
        simp only at hd
        obtain ⟨hmem, hst⟩ := T.find_sound u a hf
        refine ⟨a, hmem, ?_⟩
        cases rest with
        | nil =>
          simp only [Loc.found.injEq] at hd
          exact Or.inl ⟨by rw [hst], hd.symm⟩
        | cons st2 rest2 =>
          simp only at hd
          cases hc : u.childAt a with
          | nil => rw [hc] at hd; simp at hd
          | node a' l' c' r' =>
            rw [hc] at hd
            simp only at hd
            have hord' := OrdT.childAt u lo hi a hord hmem
            have hnd' := T.childAt_nodup u a hnd hmem
            rw [hc] at hord' hnd'
            have := (ih (.node a' l' c' r') none none (pre ++ [stem]) b hord' hnd' (by simp)).mp hd
            right
            rw [hst]
            simpa using this
    · rintro ⟨a, hmem, h⟩
      have key : ∀ tl, pre ++ stem :: rest = pre ++ [s.stemAt a] ++ tl → s.stemAt a = stem ∧ rest = tl := by
        intro tl e
        rw [List.append_assoc] at e
        have := List.append_cancel_left e
        simp only [List.singleton_append, List.cons.injEq] at this
        exact ⟨this.1.symm, this.2⟩
      rcases h with ⟨h1, h2⟩ | h
      · obtain ⟨hst, hrest⟩ := key [] (by simpa using h1)
        subst hrest; subst h2
        have hf := T.find_found u lo hi hord b hmem hst
        simp only [T.descend, hf]
      · obtain ⟨x, tl, e⟩ := entries_prefix _ _ _ _ h
        obtain ⟨hst, hrest⟩ := key (x :: tl) e
        subst hrest
        have hf := T.find_found u lo hi hord a hmem hst
        have hord' := OrdT.childAt u lo hi a hord hmem
        have hnd' := T.childAt_nodup u a hnd hmem
        cases hc : u.childAt a with
        | nil => rw [hc] at h; simp [T.entries] at h
        | node a' l' c' r' =>
          simp only [T.descend, hf, hc]
          rw [hc] at hord' hnd' h
          apply (ih (.node a' l' c' r') none none (pre ++ [stem]) b hord' hnd' (by simp)).mpr
          rw [hst] at h
          simpa using h

/-- `lru_node` is the look-up in the finite map denoted by the tree -/
theorem lruNode_iff_entries {s : State} {t : T} (h : Shape s t) (stems : LRU) (hne : stems ≠ []) (b : Nat) :
    s.lruNode stems = some b ↔ (stems, b) ∈ t.entries s [] := by
  unfold State.lruNode
  by_cases hsz : s.trie.size ≤ 1
  · rw [if_pos hsz]
    have hroot := h.root
    rw [if_pos hsz] at hroot
    have : t = .nil := by
      cases t with
      | nil => rfl
      | node a l c r => exact absurd hroot (Rep.root_ne_zero h.rep (by simp))
    subst this
    simp [T.entries]
  · rw [if_neg hsz]
    have hroot := h.root
    rw [if_neg hsz] at hroot
    have htne : t ≠ .nil := by
      intro e; subst e; simp at hroot
    have := lruNodeGo_eq_descend (s := s) stems t [] h.rep htne h.size_le hne
    rw [hroot] at this
    rw [this]
    have hd := descend_found_iff (s := s) stems t none none [] b h.ord h.nodup hne
    simp only [List.nil_append] at hd
    rw [← hd]
    cases t.descend s stems [] <;> simp

/-- no LRU is stored twice -/
theorem entries_path_injective {s : State} {u : T} {lo hi : Option Stem} (hord : OrdT s u lo hi)
    (hnd : u.addrs.Nodup) {pre p : LRU} {b₁ b₂ : Nat}
    (h1 : (p, b₁) ∈ u.entries s pre) (h2 : (p, b₂) ∈ u.entries s pre) : b₁ = b₂ := by
  obtain ⟨x, rest, rfl⟩ := entries_prefix _ _ _ _ h1
  have d1 := (descend_found_iff (x :: rest) u lo hi pre b₁ hord hnd (by simp)).mpr h1
  have d2 := (descend_found_iff (x :: rest) u lo hi pre b₂ hord hnd (by simp)).mpr h2
  rw [d1] at d2
  exact Loc.found.inj d2

/-! ### `follow_lru`: same node; the history is the fold of `visit` over the cells matched on the way -/

/-- the cells matched by the descent, top-down, with the stem matched at each level -/
def T.pathCells (s : State) : List Stem → T → List (Nat × Stem)
  | [], _ => []
  | stem :: rest, u =>
    match u.find s stem with
    | .found a => (a, stem) :: (match rest with | [] => [] | _ :: _ => T.pathCells s rest (u.childAt a))
    | _ => []

theorem T.pathCells_nil_tree (s : State) (stems : List Stem) : T.pathCells s stems .nil = [] := by
  cases stems <;> simp [T.pathCells, T.find]

theorem T.pathCells_cons_found {s : State} {stem : Stem} {rest : List Stem} {u : T} {a : Nat}
    (hf : u.find s stem = .found a) :
    T.pathCells s (stem :: rest) u = (a, stem) :: T.pathCells s rest (u.childAt a) := by
  cases rest <;> simp [T.pathCells, hf]

theorem followLruGo_eq {s : State} : ∀ (stems : List Stem) (u : T) (pos : Nat) (h : Hist) (pre : LRU),
    Rep s u → u ≠ .nil → u.size ≤ s.trie.size → stems ≠ [] →
    (s.followLruGo stems u.root pos h).1 = (match u.descend s stems pre with | .found b => some b | _ => none) ∧
    (s.followLruGo stems u.root pos h).2 =
      ((u.pathCells s stems).foldl (fun (acc : Hist × Nat) (c : Nat × Stem) =>
        ((acc.1.visit (s.cell c.1) (acc.2 + c.2.length)), acc.2 + c.2.length)) (h, pos)).1 := by
  intro stems
  induction stems with
  | nil => intro _ _ _ _ _ _ _ h; exact absurd rfl h
  | cons stem rest ih =>
    intro u pos h pre hr hne hsz _
    have hfs := findSib_eq_find (s := s) (stem := stem) u (s.trie.size + 1) hr hne (by omega)
    simp only [followLruGo, hfs, T.descend]
    cases hf : u.find s stem with
    | corrupt => simp [T.pathCells, hf]
    | missing q sl => simp [T.pathCells, hf]
    | found a =>
      rw [T.pathCells_cons_found hf]
      simp only [List.foldl_cons]
      obtain ⟨hmem, _⟩ := T.find_sound u a hf
      obtain ⟨hrc, cell, hcell, hch⟩ := Rep.childAt u a hr hmem
      have hcella : s.cell a = cell := by simp [State.cell, hcell]
      cases rest with
      | nil => simp [T.pathCells]
      | cons st2 rest2 =>
        simp only [List.isEmpty_cons, Bool.false_eq_true, if_false, hcella]
        cases hc : u.childAt a with
        | nil =>
          rw [hc] at hch
          simp [hch, T.pathCells_nil_tree]
        | node a' l' c' r' =>
          rw [hc] at hch hrc
          have hne0 : cell.child ≠ 0 := by rw [hch]; exact hrc.1
          rw [if_neg hne0, hch]
          have hsz' : (T.node a' l' c' r').size ≤ s.trie.size := by
            have := T.childAt_size u a; rw [hc] at this; omega
          exact ih (.node a' l' c' r') (pos + stem.length) (h.visit cell (pos + stem.length)) (pre ++ [stem])
            hrc (by simp) hsz' (by simp)

/-- `follow_lru` finds exactly what `lru_node` finds -/
theorem followLru_fst {s : State} {t : T} (h : Shape s t) (stems : LRU) (hs : stems ≠ []) :
    (s.followLru stems).1 = s.lruNode stems := by
  unfold State.followLru State.lruNode
  by_cases hsz : s.trie.size ≤ 1
  · rw [if_pos hsz, if_pos hsz]
  · rw [if_neg hsz, if_neg hsz]
    have hroot := h.root
    rw [if_neg hsz] at hroot
    have htne : t ≠ .nil := by
      intro e; subst e; simp at hroot
    have h1 := (followLruGo_eq (s := s) stems t 0 {} [] h.rep htne h.size_le hs).1
    have h2 := lruNodeGo_eq_descend (s := s) stems t [] h.rep htne h.size_le hs
    rw [hroot] at h1 h2
    rw [h1, h2]
    cases t.descend s stems [] <;> rfl

/-! ### resolution: the deepest webentity on the path -/

/-- the last non-null id of a list, 0 (= None) if there is none -/
def lastWe (l : List Nat) : Nat := ((l.filter (· ≠ 0)).getLast?).getD 0

theorem Hist.visit_we (h : Hist) (c : Cell) (pos : Nat) :
    (h.visit c pos).we = if c.we ≠ 0 then c.we else h.we := by
  unfold Hist.visit
  by_cases hw : c.we ≠ 0 <;> by_cases hr : c.flags.rule = true <;> simp [hw, hr]

theorem getLast_filter_cons (w x : Nat) (l : List Nat) :
    (((x :: l).filter (· ≠ 0)).getLast?).getD w
      = ((l.filter (· ≠ 0)).getLast?).getD (if x ≠ 0 then x else w) := by
  by_cases hx : x ≠ 0
  · rw [if_pos hx]
    have : (x :: l).filter (· ≠ 0) = x :: l.filter (· ≠ 0) := by simp [hx]
    rw [this, List.getLast?_cons]
    simp
  · rw [if_neg hx]
    have : (x :: l).filter (· ≠ 0) = l.filter (· ≠ 0) := by simp [hx]
    rw [this]

/-- general form: starting from any history -/
theorem visit_fold_we_from {s : State} : ∀ (cells : List (Nat × Stem)) (h : Hist) (pos : Nat),
    ((cells.foldl (fun (acc : Hist × Nat) (c : Nat × Stem) =>
        ((acc.1.visit (s.cell c.1) (acc.2 + c.2.length)), acc.2 + c.2.length)) (h, pos)).1).we
      = (((cells.map (fun c => (s.cell c.1).we)).filter (· ≠ 0)).getLast?).getD h.we
  | [], h, pos => by simp
  | c :: cells, h, pos => by
    rw [List.foldl_cons, visit_fold_we_from cells, List.map_cons, getLast_filter_cons, Hist.visit_we]

/-- the `we` of the history folded from the empty history is the last non-null webentity id met -/
theorem visit_fold_we {s : State} (u : T) (stems : List Stem) (pos : Nat) :
    (((u.pathCells s stems).foldl (fun (acc : Hist × Nat) (c : Nat × Stem) =>
        ((acc.1.visit (s.cell c.1) (acc.2 + c.2.length)), acc.2 + c.2.length)) (({} : Hist), pos)).1).we
      = lastWe ((u.pathCells s stems).map (fun c => (s.cell c.1).we)) := by
  rw [visit_fold_we_from]; rfl

/-- resolution returns the webentity attached to the deepest existing stem-prefix that carries one -/
theorem followLru_we {s : State} {t : T} (h : Shape s t) (stems : LRU) (hs : stems ≠ []) :
    (s.followLru stems).2.we = lastWe ((t.pathCells s stems).map (fun c => (s.cell c.1).we)) := by
  unfold State.followLru
  by_cases hsz : s.trie.size ≤ 1
  · rw [if_pos hsz]
    have hroot := h.root
    rw [if_pos hsz] at hroot
    have : t = .nil := by
      cases t with
      | nil => rfl
      | node a l c r => exact absurd hroot (Rep.root_ne_zero h.rep (by simp))
    subst this
    rw [T.pathCells_nil_tree]
    rfl
  · rw [if_neg hsz]
    have hroot := h.root
    rw [if_neg hsz] at hroot
    have htne : t ≠ .nil := by
      intro e; subst e; simp at hroot
    have h2 := (followLruGo_eq (s := s) stems t 0 {} [] h.rep htne h.size_le hs).2
    rw [hroot] at h2
    rw [h2, visit_fold_we]

/-! ### the path cells are the nodes of the existing stem-prefixes, top-down -/

theorem pathCells_entries_getElem? {s : State} : ∀ (stems : List Stem) (u : T) (lo hi : Option Stem) (pre : LRU),
    OrdT s u lo hi → u.addrs.Nodup → ∀ (k : Nat) (c : Nat × Stem), (u.pathCells s stems)[k]? = some c →
    (pre ++ stems.take (k + 1), c.1) ∈ u.entries s pre ∧ stems[k]? = some c.2 := by
  intro stems
  induction stems with
  | nil => intro u _ _ _ _ _ k c h; simp [T.pathCells] at h
  | cons stem rest ih =>
    intro u lo hi pre hord hnd k c h
    cases hf : u.find s stem with
    | corrupt => simp [T.pathCells, hf] at h
    | missing q sl => simp [T.pathCells, hf] at h
    | found a =>
      rw [T.pathCells_cons_found hf] at h
      obtain ⟨hmem, hst⟩ := T.find_sound u a hf
      rw [mem_entries_iff u pre _ _ hnd]
      cases k with
      | zero =>
        simp only [List.getElem?_cons_zero, Option.some.injEq] at h
        subst h
        exact ⟨⟨a, hmem, Or.inl ⟨by simp [hst], rfl⟩⟩, by simp⟩
      | succ k =>
        simp only [List.getElem?_cons_succ] at h
        have hord' := OrdT.childAt u lo hi a hord hmem
        have hnd' := T.childAt_nodup u a hnd hmem
        obtain ⟨h1, h2⟩ := ih (u.childAt a) none none (pre ++ [stem]) hord' hnd' k c h
        refine ⟨⟨a, hmem, Or.inr ?_⟩, by simpa using h2⟩
        rw [hst]
        simpa using h1

/-- the `k`-th path cell is the node stored under the first `k+1` stems -/
theorem pathCells_entries {s : State} {u : T} {lo hi : Option Stem} (hord : OrdT s u lo hi)
    (hnd : u.addrs.Nodup) (stems : List Stem) (pre : LRU) :
    ∀ k, k < (u.pathCells s stems).length →
      (pre ++ stems.take (k + 1), ((u.pathCells s stems)[k]!).1) ∈ u.entries s pre := by
  intro k hk
  have hget : (u.pathCells s stems)[k]? = some ((u.pathCells s stems)[k]!) := by
    rw [getElem!_pos (u.pathCells s stems) k hk]; exact List.getElem?_eq_getElem hk
  exact (pathCells_entries_getElem? stems u lo hi pre hord hnd k _ hget).1

theorem pathCells_length_le {s : State} : ∀ (stems : List Stem) (u : T),
    (u.pathCells s stems).length ≤ stems.length := by
  intro stems
  induction stems with
  | nil => intro u; simp [T.pathCells]
  | cons stem rest ih =>
    intro u
    cases hf : u.find s stem with
    | corrupt => simp [T.pathCells, hf]
    | missing q sl => simp [T.pathCells, hf]
    | found a =>
      rw [T.pathCells_cons_found hf]
      have := ih (u.childAt a)
      simp only [List.length_cons]; omega

/-- the descent succeeds exactly when every stem was matched; the node found is the last path cell -/
theorem descend_found_last {s : State} : ∀ (stems : List Stem) (u : T) (pre : LRU) (b : Nat),
    u.descend s stems pre = .found b →
    (u.pathCells s stems).length = stems.length ∧ ((u.pathCells s stems).getLast?).map (·.1) = some b := by
  intro stems
  induction stems with
  | nil => intro u pre b h; simp [T.descend] at h
  | cons stem rest ih =>
    intro u pre b hd
    simp only [T.descend] at hd
    cases hf : u.find s stem with
    | corrupt => rw [hf] at hd; simp at hd
    | missing q sl => rw [hf] at hd; simp at hd
    | found a =>
      rw [hf] at hd
      simp only at hd
      rw [T.pathCells_cons_found hf]
      cases rest with
      | nil =>
        simp only [Loc.found.injEq] at hd
        simp [T.pathCells, hd]
      | cons st2 rest2 =>
        simp only at hd
        cases hc : u.childAt a with
        | nil => rw [hc] at hd; simp at hd
        | node a' l' c' r' =>
          rw [hc] at hd
          simp only at hd
          obtain ⟨h1, h2⟩ := ih (.node a' l' c' r') (pre ++ [stem]) b hd
          refine ⟨by simp [h1], ?_⟩
          rw [List.getLast?_cons]
          cases hl : (T.pathCells s (st2 :: rest2) (T.node a' l' c' r')).getLast? with
          | none => rw [hl] at h2; simp at h2
          | some x => rw [hl] at h2; simpa using h2

#print axioms descend_found_iff
#print axioms lruNode_iff_entries
#print axioms entries_path_injective
#print axioms entries_addrs_perm
#print axioms followLruGo_eq
#print axioms followLru_we
#print axioms pathCells_entries

end Traph

import Proofs.CoReadOnly
/-! C16 — the seven new query machines drained on a fixed index (`QSt.drain`, i.e. `run_iterator`) give the
    answers of the atomic requests of `Traph/Api.lean`: checked here by kernel evaluation on a concrete index
    with two hosts, a nested webentity, crawled and uncrawled pages, weighted, internal, inbound and outbound
    links, a page whose webentity is `None`-free and a prefix that is not in the index. (The general
    statement is proved per machine in `Proofs/CoDrain*.lean` where available.) -/
namespace Traph.DrainEx
open Traph State

def b (s : String) : Bytes := s.toList.map (·.toNat)
def pa : Bytes := b "s:http|h:com|h:a|"
def pb : Bytes := b "s:http|h:com|h:b|"

/-- the index: webentity 1 on `…h:a|`, pages below it, links to and from host `b` (webentity 2, created by the
    default rule), a webentity carved out below `…h:a|p:x|`, a crawl batch -/
def idx : State := (State.fresh {} .domain [] []).1.run
  [.create [pa], .addPage (b "s:http|h:com|h:a|p:x|") false, .addPage (b "s:http|h:com|h:a|p:x|p:y|") true,
   .addLinks [(b "s:http|h:com|h:a|p:x|", b "s:http|h:com|h:b|p:1|"), (b "s:http|h:com|h:a|p:x|", b "s:http|h:com|h:a|p:x|p:y|"),
              (b "s:http|h:com|h:b|p:1|", b "s:http|h:com|h:a|p:x|"), (b "s:http|h:com|h:a|p:x|", b "s:http|h:com|h:b|p:1|"),
              (b "s:http|h:com|h:b|p:2|", b "s:http|h:com|h:a|p:q|")],
   .create [b "s:http|h:com|h:a|p:x|p:y|"],
   .batch [(b "s:http|h:com|h:a|p:m|", [b "s:http|h:com|h:a|p:x|", b "s:http|h:org|h:c|"])]]

set_option maxRecDepth 1000000 in
theorem crawled_drain :
    QSt.drain idx 100 (.crawled { cur := { prefixes := [pa, pb] } }) = idx.ask (.crawledPages [pa, pb]) ∧
    idx.ask (.crawledPages [pa, pb]) ≠ .pages [] := by decide +kernel

set_option maxRecDepth 1000000 in
theorem mostLinked_drain :
    QSt.drain idx 100 (.mostLinked { cur := { prefixes := [pa, pb] }, k := 3 }) = idx.ask (.mostLinked [pa, pb] 3 none) ∧
    QSt.drain idx 100 (.mostLinked { cur := { prefixes := [pa], depth := some 0 }, k := 10 }) = idx.ask (.mostLinked [pa] 10 (some 0)) ∧
    QSt.drain idx 100 (.mostLinked { cur := { prefixes := [pa], depth := some 1 }, k := 0 }) = idx.ask (.mostLinked [pa] 0 (some 1)) := by
  decide +kernel

set_option maxRecDepth 1000000 in
theorem children_drain :
    QSt.drain idx 100 (.children { cur := { prefixes := [pa], skip := true }, weid := 1 }) = idx.ask (.children 1 [pa]) ∧
    idx.ask (.children 1 [pa]) = .nats [3] := by decide +kernel

set_option maxRecDepth 1000000 in
theorem pagelinks_drain :
    QSt.drain idx 100 (.pagelinks { cur := { prefixes := [pa] }, weid := 1, incIn := true, incInt := true, incOut := true })
      = idx.ask (.pagelinks 1 [pa] true true true) ∧
    QSt.drain idx 100 (.pagelinks { cur := { prefixes := [pa] }, weid := 1, incIn := false, incInt := true, incOut := false })
      = idx.ask (.pagelinks 1 [pa] false true false) ∧
    QSt.drain idx 100 (.pagelinks { cur := { prefixes := [pb] }, weid := 2, incIn := true, incInt := false, incOut := false })
      = idx.ask (.pagelinks 2 [pb] true false false) ∧
    QSt.drain idx 100 (.pagelinks { cur := { prefixes := [pa] }, weid := 1, incIn := false, incInt := false, incOut := false })
      = .err .traph := by decide +kernel

set_option maxRecDepth 1000000 in
theorem cited_drain :
    QSt.drain idx 100 (.cited { cur := { prefixes := [pa] }, out := true }) = idx.ask (.cited [pa] true) ∧
    QSt.drain idx 100 (.cited { cur := { prefixes := [pa] }, out := false }) = idx.ask (.cited [pa] false) ∧
    idx.ask (.cited [pa] true) = .nats [1, 2, 3, 4] ∧
    QSt.drain idx 100 (.cited { cur := { prefixes := [pa, b "zz|"] }, out := true }) = .err .traph ∧
    idx.ask (.cited [pa, b "zz|"] true) = .err .traph := by decide +kernel

set_option maxRecDepth 1000000 in
theorem netSlow_drain :
    QSt.drain idx 100 (.netSlow { out := true, auto := true }) = idx.ask (.network true true true) ∧
    QSt.drain idx 100 (.netSlow { out := false, auto := false }) = idx.ask (.network false false true) ∧
    QSt.drain idx 100 (.netSlow { out := true, auto := false }) = idx.ask (.network true false true) := by decide +kernel

end Traph.DrainEx

#print axioms Traph.DrainEx.crawled_drain
#print axioms Traph.DrainEx.pagelinks_drain
#print axioms Traph.DrainEx.netSlow_drain

import Proofs.TraverseDepth
import Proofs.TopK
import Proofs.LinkLists
import Proofs.LeOps
/-! C20 at the API level: `get_webentity_most_linked_pages(weid, prefixes, pages_count = k, max_depth)`,
    asked with the full current prefix list of the webentity, in any order, in every reachable state.

    * A. the ranking as a function on lists (`rank k pages`): length, sub-multiset, order, maximality,
      tie-breaking (`rank_spec`), for every `k` (also `k = 0`: the empty answer).
    * B. the candidate list: `mostLinked_ok_iff`, `mlOne_mem`, `C20_cand_mem` (a candidate = an indexed page
      resolving to `w`, at most `depth` stems below its anchor prefix), `C20_cand_nodup`.
    * C. the reported indegree: `indegreeEntries_linked` / `_lonely_true` / `_lonely_false`, and
      `indegreeEntries_header`: with the unchanged code (`cfg.lonelyIndegreeOne = true`) the reported number
      is *always* the number of distinct targets met by walking the stub list from the page's in-head, the
      head `0` being the header block read as a stub (finding D4).
    * D. `C20_answer`, and `C20_reachable` for every reachable state. -/
namespace Traph
open State

/-! ### A. the ranking, on lists -/

/-- heap keys `(indegree, arrival, lru)` of the candidates, arrival numbers 1, 2, 3, … -/
def mlKeys (pages : List (Bytes × Nat)) : List (Nat × Nat × Bytes) :=
  (enumFrom 1 pages).map (fun ip => (ip.2.2, ip.1, ip.2.1))

/-- what is reported of a heap key -/
def mlOut (x : Nat × Nat × Bytes) : Bytes × Nat := (x.2.2, x.1)

/-- the answer computed from the candidate list -/
def rank (k : Nat) (pages : List (Bytes × Nat)) : List (Bytes × Nat) :=
  (topK k (mlKeys pages)).reverse.map mlOut

theorem enumFrom_length {α} (l : List α) : ∀ i, (enumFrom i l).length = l.length := by
  induction l with
  | nil => intro i; rfl
  | cons x xs ih => intro i; simp [enumFrom, ih]

theorem enumFrom_map_snd {α} (l : List α) : ∀ i, (enumFrom i l).map (·.2) = l := by
  induction l with
  | nil => intro i; rfl
  | cons x xs ih => intro i; simp [enumFrom, ih]

theorem mem_enumFrom {α} (l : List α) : ∀ (i j : Nat) (a : α),
    (j, a) ∈ enumFrom i l ↔ ∃ m, l[m]? = some a ∧ j = i + m := by
  induction l with
  | nil => intro i j a; simp [enumFrom]
  | cons x xs ih =>
    intro i j a
    simp only [enumFrom, List.mem_cons, Prod.mk.injEq, ih]
    constructor
    · rintro (⟨rfl, rfl⟩ | ⟨m, hm, rfl⟩)
      · exact ⟨0, by simp, by omega⟩
      · exact ⟨m + 1, by simpa using hm, by omega⟩
    · rintro ⟨m, hm, rfl⟩
      cases m with
      | zero => left; simp at hm; exact ⟨by omega, hm.symm⟩
      | succ m => right; exact ⟨m, by simpa using hm, by omega⟩

theorem mlKeys_length (pages : List (Bytes × Nat)) : (mlKeys pages).length = pages.length := by
  simp [mlKeys, enumFrom_length]

theorem mlKeys_out (pages : List (Bytes × Nat)) : (mlKeys pages).map mlOut = pages := by
  unfold mlKeys
  rw [List.map_map]
  have : (mlOut ∘ fun (ip : Nat × Bytes × Nat) => (ip.2.2, ip.1, ip.2.1)) = (·.2) := by
    funext ip; rfl
  rw [this, enumFrom_map_snd]

theorem mlKeys_nodup (pages : List (Bytes × Nat)) : ((mlKeys pages).map (·.2.1)).Nodup :=
  mostLinked_keys_nodup pages

/-- a heap key is a candidate with its (1-based) position in the candidate list -/
theorem mem_mlKeys (pages : List (Bytes × Nat)) (x : Nat × Nat × Bytes) :
    x ∈ mlKeys pages ↔ ∃ i, pages[i]? = some (mlOut x) ∧ x.2.1 = i + 1 := by
  unfold mlKeys
  rw [List.mem_map]
  constructor
  · rintro ⟨⟨j, lru, m⟩, hmem, rfl⟩
    obtain ⟨i, hi, rfl⟩ := (mem_enumFrom pages 1 j (lru, m)).mp hmem
    exact ⟨i, hi, by simp only; omega⟩
  · rintro ⟨i, hi, hx⟩
    obtain ⟨m, j, lru⟩ := x
    simp only [mlOut] at hi hx
    exact ⟨(j, lru, m), (mem_enumFrom pages 1 j (lru, m)).mpr ⟨i, hi, by omega⟩, rfl⟩

/-- (a) the answer has `min k (number of candidates)` entries -/
theorem rank_length (k : Nat) (pages : List (Bytes × Nat)) :
    (rank k pages).length = min k pages.length := by
  unfold rank
  rw [List.length_map, List.length_reverse, topK_length k _ (mlKeys_nodup pages), mlKeys_length]

/-- the answer is a sub-multiset of the candidate list, and every candidate left out has an indegree at
    most that of every candidate listed -/
theorem rank_perm (k : Nat) (pages : List (Bytes × Nat)) :
    ∃ dropped, (rank k pages ++ dropped).Perm pages ∧
      ∀ x ∈ rank k pages, ∀ d ∈ dropped, d.2 ≤ x.2 := by
  obtain ⟨dr, inv⟩ := topK_inv k (mlKeys pages) (mlKeys_nodup pages)
  refine ⟨dr.map mlOut, ?_, ?_⟩
  · unfold rank
    have h1 : ((topK k (mlKeys pages)).reverse.map mlOut ++ dr.map mlOut).Perm
        ((topK k (mlKeys pages) ++ dr).map mlOut) := by
      rw [List.map_append]
      exact ((List.reverse_perm _).map mlOut).append_right _
    have h2 := inv.perm.map mlOut
    rw [mlKeys_out] at h2
    exact h1.trans h2
  · intro x hx d hd
    unfold rank at hx
    obtain ⟨x', hx', rfl⟩ := List.mem_map.mp hx
    obtain ⟨d', hd', rfl⟩ := List.mem_map.mp hd
    exact keyLt_fst_le (inv.low d' hd' x' (List.mem_reverse.mp hx'))

/-- (c) non-increasing order of indegree -/
theorem rank_sorted (k : Nat) (pages : List (Bytes × Nat)) :
    ((rank k pages).map (·.2)).Pairwise (· ≥ ·) := by
  have := topK_reverse_nonincreasing k (mlKeys pages) (mlKeys_nodup pages)
  unfold rank
  rw [List.map_map]
  exact this

/-- (d) no candidate that is not listed has a larger indegree than a listed one -/
theorem rank_max (k : Nat) (pages : List (Bytes × Nat)) :
    ∀ c ∈ pages, c ∉ rank k pages → ∀ x ∈ rank k pages, c.2 ≤ x.2 := by
  obtain ⟨dropped, hp, hlow⟩ := rank_perm k pages
  intro c hc hnot x hx
  have : c ∈ rank k pages ++ dropped := hp.mem_iff.mpr hc
  rcases List.mem_append.mp this with h | h
  · exact absurd h hnot
  · exact hlow x hx c h

/-- every listed entry is a candidate -/
theorem rank_subset (k : Nat) (pages : List (Bytes × Nat)) : ∀ x ∈ rank k pages, x ∈ pages := by
  obtain ⟨dropped, hp, _⟩ := rank_perm k pages
  intro x hx
  exact hp.mem_iff.mp (List.mem_append_left _ hx)

/-- (e) no page twice in the answer when no candidate is repeated -/
theorem rank_nodup (k : Nat) (pages : List (Bytes × Nat)) (h : (pages.map (·.1)).Nodup) :
    ((rank k pages).map (·.1)).Nodup := by
  obtain ⟨dropped, hp, _⟩ := rank_perm k pages
  have := (hp.map (·.1)).nodup_iff.mpr h
  rw [List.map_append] at this
  exact (List.nodup_append.mp this).1

/-- `k = 0`: the empty answer (the code pushes, then pops because `len(pages) > 0`) -/
theorem rank_zero (pages : List (Bytes × Nat)) : rank 0 pages = [] := by
  apply List.eq_nil_of_length_eq_zero
  rw [rank_length]; omega

/-- everything fits: the whole candidate list, reordered -/
theorem rank_all (k : Nat) (pages : List (Bytes × Nat)) (h : pages.length ≤ k) :
    (rank k pages).Perm pages := by
  obtain ⟨dropped, hp, _⟩ := rank_perm k pages
  have hl := hp.length_eq
  rw [List.length_append, rank_length] at hl
  have : dropped = [] := List.eq_nil_of_length_eq_zero (by omega)
  subst this
  simpa using hp

/-- the complete specification of the answer, ties included: it is the image of a list `ks` of heap keys
    `(indegree, arrival, lru)` of candidates (arrival = 1-based position in the candidate list), in strictly
    decreasing order of `(indegree, arrival)`, and the key of every candidate left out is below every key
    kept. Hence among candidates of equal indegree the one met *later* by the walk is preferred, and
    listed first. -/
theorem rank_spec (k : Nat) (pages : List (Bytes × Nat)) :
    ∃ ks : List (Nat × Nat × Bytes), rank k pages = ks.map mlOut ∧
      (∀ x ∈ ks, ∃ i, pages[i]? = some (mlOut x) ∧ x.2.1 = i + 1) ∧
      ks.Pairwise (fun x y => keyLt y x) ∧
      ∀ i c, pages[i]? = some c → (c.2, i + 1, c.1) ∉ ks → ∀ x ∈ ks, keyLt (c.2, i + 1, c.1) x := by
  refine ⟨(topK k (mlKeys pages)).reverse, rfl, ?_, ?_, ?_⟩
  · intro x hx
    obtain ⟨dr, inv⟩ := topK_inv k (mlKeys pages) (mlKeys_nodup pages)
    exact (mem_mlKeys pages x).mp (inv.perm.mem_iff.mp (List.mem_append_left _ (List.mem_reverse.mp hx)))
  · rw [List.pairwise_reverse]
    exact topK_sorted k (mlKeys pages) (mlKeys_nodup pages)
  · intro i c hc hnot x hx
    have hmem : (c.2, i + 1, c.1) ∈ mlKeys pages := (mem_mlKeys pages _).mpr ⟨i, hc, rfl⟩
    exact topK_max k (mlKeys pages) (mlKeys_nodup pages) x (List.mem_reverse.mp hx) _ hmem
      (fun h => hnot (List.mem_reverse.mpr h))

/-! ### B. the candidate list -/

/-- the candidates found below one prefix: `(lru, reported indegree)` of the pages met by the walk -/
def mlOne (s : State) (depth : Option Nat) (n : Nat) (p : Bytes) : List (Bytes × Nat) :=
  ((s.weDfs n p depth).filter (fun bl => (s.cell bl.1).flags.page)).map
    (fun bl => (bl.2, s.indegreeEntries (s.cell bl.1).inn))

/-- the request = the ranking of the concatenated per-prefix candidate lists -/
theorem mostLinked_eq (s : State) (ps : List Bytes) (k : Nat) (depth : Option Nat) :
    s.mostLinked ps k depth = (s.forPrefixes ps (mlOne s depth)).map (rank k) := rfl

theorem mostLinked_ok_iff (s : State) (ps : List Bytes) (k : Nat) (depth : Option Nat)
    (l : List (Bytes × Nat)) :
    s.mostLinked ps k depth = .ok l ↔
      ∃ pages, s.forPrefixes ps (mlOne s depth) = .ok pages ∧ l = rank k pages := by
  rw [mostLinked_eq]
  cases s.forPrefixes ps (mlOne s depth) with
  | error e =>
    constructor
    · intro h; cases h
    · rintro ⟨_, h, _⟩; cases h
  | ok pages =>
    constructor
    · intro h
      have : rank k pages = l := by cases h; rfl
      exact ⟨pages, rfl, this.symm⟩
    · rintro ⟨pages', h, rfl⟩
      cases h; rfl

/-- the request fails exactly when some prefix is not in the trie, with the library's own error -/
theorem mostLinked_err (s : State) (ps : List Bytes) (k : Nat) (depth : Option Nat) (e : Err)
    (h : s.mostLinked ps k depth = .error e) : e = .traph ∧ ∃ p ∈ ps, s.lruNode (lruIter p) = none := by
  rw [mostLinked_eq] at h
  cases hf : s.forPrefixes ps (mlOne s depth) with
  | error e' =>
    rw [hf] at h
    have : e' = e := by cases h; rfl
    subst this
    exact forPrefixes_err s ps _ _ hf
  | ok pages => rw [hf] at h; cases h

/-- the candidate list, under a successful request: the concatenation of the per-prefix lists -/
theorem ml_pages_flatMap {s : State} {ps : List Bytes} {depth : Option Nat} {pages : List (Bytes × Nat)}
    (hl : s.forPrefixes ps (mlOne s depth) = .ok pages) :
    pages = ps.flatMap (fun p => match s.lruNode (lruIter p) with | some n => mlOne s depth n p | none => []) := by
  rw [forPrefixes_eq] at hl
  split at hl
  · cases hl; rfl
  · cases hl

/-- `P` is the anchor of the stored path `X`: the longest stored stem-prefix of `X` (possibly `X` itself)
    whose node carries a webentity id -/
def IsAnchor (s : State) (t : T) (P X : LRU) : Prop :=
  P <+: X ∧ (∃ n, (P, n) ∈ t.entries s [] ∧ (s.cell n).we ≠ 0) ∧
    ∀ j, P.length < j → j ≤ X.length → ∀ b', (X.take j, b') ∈ t.entries s [] → (s.cell b').we = 0

theorem isAnchor_unique {s : State} {t : T} {P₁ P₂ X : LRU} (h₁ : IsAnchor s t P₁ X)
    (h₂ : IsAnchor s t P₂ X) : P₁ = P₂ := by
  obtain ⟨p₁, ⟨n₁, e₁, w₁⟩, z₁⟩ := h₁
  obtain ⟨p₂, ⟨n₂, e₂, w₂⟩, z₂⟩ := h₂
  exact pa_anchor_unique p₁ p₂ e₁ e₂ w₁ w₂ z₁ z₂

/-- the candidates of one stored prefix, in terms of the finite map -/
theorem mlOne_mem {s : State} {t : T} (h : Shape s t) {p : Bytes} {n : Nat}
    (hP : (lruIter p, n) ∈ t.entries s []) (depth : Option Nat) (lru : Bytes) (m : Nat) :
    (lru, m) ∈ mlOne s depth n p ↔
      ∃ X b, (X, b) ∈ t.entries s [] ∧ (s.cell b).flags.page = true ∧
        m = s.indegreeEntries (s.cell b).inn ∧ lru = X.flatten ∧ lruIter p <+: X ∧
        (∀ j, (lruIter p).length < j → j ≤ X.length → ∀ b', (X.take j, b') ∈ t.entries s [] →
          (s.cell b').we = 0) ∧
        WithinDepth depth (lruIter p) X := by
  unfold mlOne
  simp only [List.mem_map, List.mem_filter, Prod.mk.injEq]
  constructor
  · rintro ⟨⟨b, lru'⟩, ⟨hbl, hpg⟩, rfl, rfl⟩
    obtain ⟨X, hX, hpx, hl, hz, hd⟩ := (weDfs_opt_walk_iff h hP depth b lru').mp hbl
    exact ⟨X, b, hX, hpg, rfl, hl, hpx, hz, hd⟩
  · rintro ⟨X, b, hX, hpg, rfl, rfl, hpx, hz, hd⟩
    exact ⟨(b, X.flatten), ⟨(weDfs_opt_walk_iff h hP depth b _).mpr ⟨X, hX, hpx, rfl, hz, hd⟩, hpg⟩, rfl, rfl⟩

/-- `(lru, m)` is a candidate of webentity `w` under the depth limit: `lru` is the LRU of an indexed page
    that resolves to `w`, `m` is the number the code counts on the page's in-list, and the page lies at
    most `depth` stems below its anchor — the prefix of `w` it is reached from -/
def IsCandidate (s : State) (t : T) (w : Nat) (depth : Option Nat) (lru : Bytes) (m : Nat) : Prop :=
  lru = (lruIter lru).flatten ∧ s.retrieveWebentity lru = .ok w ∧
    (∃ b, (lruIter lru, b) ∈ t.entries s [] ∧ (s.cell b).flags.page = true ∧
      m = s.indegreeEntries (s.cell b).inn) ∧
    ∃ P, IsPrefixOf s w P ∧ IsAnchor s t P (lruIter lru) ∧ WithinDepth depth P (lruIter lru)

theorem IsCandidate.isPage {s : State} {t : T} {w : Nat} {depth : Option Nat} {lru : Bytes} {m : Nat}
    (h : IsCandidate s t w depth lru m) : IsPage s t (lruIter lru) := by
  obtain ⟨_, _, ⟨b, hb, hp, _⟩, _⟩ := h
  exact ⟨b, hb, hp⟩

/-- a page has one reported indegree -/
theorem IsCandidate.indegree_unique {s : State} {t : T} (h : Shape s t) {w w' : Nat} {d d' : Option Nat}
    {lru : Bytes} {m m' : Nat} (h1 : IsCandidate s t w d lru m) (h2 : IsCandidate s t w' d' lru m') :
    m = m' := by
  obtain ⟨_, _, ⟨b, hb, _, e⟩, _⟩ := h1
  obtain ⟨_, _, ⟨b', hb', _, e'⟩, _⟩ := h2
  have := entries_path_injective h.ord h.nodup hb hb'
  subst this; rw [e, e']

/-- a tighter limit selects fewer candidates; no limit is the loosest -/
theorem WithinDepth.mono {d d' : Nat} (hd : d ≤ d') {P X : LRU} (h : WithinDepth (some d) P X) :
    WithinDepth (some d') P X := by
  simp only [WithinDepth] at h ⊢; omega

theorem IsCandidate.to_none {s : State} {t : T} {w : Nat} {depth : Option Nat} {lru : Bytes} {m : Nat}
    (h : IsCandidate s t w depth lru m) : IsCandidate s t w none lru m := by
  obtain ⟨a, b, c, P, p1, p2, _⟩ := h
  exact ⟨a, b, c, P, p1, p2, trivial⟩

/-- without a depth limit the candidates are the pages of `C05`: the last conjunct of `IsCandidate`
    follows from the resolution -/
theorem isCandidate_none_iff {s : State} {t : T} (h : Shape s t) {w : Nat} (hw : w ≠ 0) (lru : Bytes)
    (m : Nat) :
    IsCandidate s t w none lru m ↔
      lru = (lruIter lru).flatten ∧ s.retrieveWebentity lru = .ok w ∧
        ∃ b, (lruIter lru, b) ∈ t.entries s [] ∧ (s.cell b).flags.page = true ∧
          m = s.indegreeEntries (s.cell b).inn := by
  constructor
  · rintro ⟨a, b, c, _⟩; exact ⟨a, b, c⟩
  · rintro ⟨hfl, hret, b, hX, hpg, hm⟩
    refine ⟨hfl, hret, ⟨b, hX, hpg, hm⟩, ?_⟩
    have hXne : lruIter lru ≠ [] := pa_entry_ne_nil hX
    rw [pa_retrieveWebentity_iff h lru hXne hw,
      resolveAlong_entry_iff h.ord h.nodup (pre := []) (by simpa using hX) hw] at hret
    obtain ⟨k, a, hk0, hkl, ha, hwa, hz⟩ := hret
    simp only [List.nil_append] at ha hz
    refine ⟨(lruIter lru).take k,
      ⟨pa_entry_ne_nil ha, a, (lruNode_iff_entries h _ (pa_entry_ne_nil ha) a).mpr ha, hwa⟩,
      ⟨List.take_prefix _ _, ⟨a, ha, by rw [hwa]; exact hw⟩, ?_⟩, trivial⟩
    rw [List.length_take, Nat.min_eq_left hkl]; exact hz

/-- under a full prefix list the request is answered (no prefix is unknown) -/
theorem C20_ok {s : State} {w : Nat} {ps : List Bytes} (hf : FullPrefixList s w ps) (k : Nat)
    (depth : Option Nat) : ∃ l, s.mostLinked ps k depth = .ok l := by
  cases hl : s.mostLinked ps k depth with
  | ok l => exact ⟨l, rfl⟩
  | error e =>
    obtain ⟨_, p, hp, hn⟩ := mostLinked_err s ps k depth e hl
    obtain ⟨_, n, hn', _⟩ := (hf.full _).mp (List.mem_map.mpr ⟨p, hp, rfl⟩)
    rw [hn] at hn'; cases hn'

/-- C20, the candidates: asked with its full prefix list (any order), the pages ranked for `w` are exactly
    the indexed pages that resolve to `w` and lie within the depth limit below their prefix, each with the
    number counted on its in-list -/
theorem C20_cand_mem {s : State} {t : T} (h : Shape s t) (hi : Traph.Inv s t) {w : Nat} {ps : List Bytes}
    (hf : FullPrefixList s w ps) {depth : Option Nat} {pages : List (Bytes × Nat)}
    (hl : s.forPrefixes ps (mlOne s depth) = .ok pages) (lru : Bytes) (m : Nat) :
    (lru, m) ∈ pages ↔ IsCandidate s t w depth lru m := by
  rw [forPrefixes_mem s ps _ pages hl (lru, m)]
  constructor
  · rintro ⟨p, hp, n, hn, hx⟩
    have hpre := (hf.full _).mp (List.mem_map.mpr ⟨p, hp, rfl⟩)
    obtain ⟨hne, n', hn', hwn⟩ := id hpre
    rw [hn] at hn'; cases hn'
    have hP := (lruNode_iff_entries h _ hne n).mp hn
    obtain ⟨X, b, hX, hpg, rfl, rfl, hpx, hz, hd⟩ := (mlOne_mem h hP depth lru m).mp hx
    have hXi : lruIter X.flatten = X := lruIter_flatten X (hi.wf X b hX)
    have hXne : X ≠ [] := pa_entry_ne_nil hX
    unfold IsCandidate
    rw [hXi]
    refine ⟨rfl, ?_, ⟨b, hX, hpg, rfl⟩, lruIter p, hpre, ⟨hpx, ⟨n, hP, by rw [hwn]; exact hf.ne⟩, hz⟩, hd⟩
    rw [pa_retrieveWebentity_iff h _ (by rw [hXi]; exact hXne) hf.ne, hXi,
      resolveAlong_entry_iff h.ord h.nodup (pre := []) (by simpa using hX) hf.ne]
    have hlen : (lruIter p).length ≤ X.length := hpx.length_le
    refine ⟨(lruIter p).length, n, List.length_pos_iff.mpr hne, hlen, ?_, hwn, ?_⟩
    · have e := List.prefix_iff_eq_take.mp hpx
      rw [List.nil_append, ← e]; exact hP
    · simpa using hz
  · rintro ⟨hfl, _, ⟨b, hX, hpg, hm⟩, P, hpre, ⟨hpx, ⟨a, ha, _⟩, hz⟩, hd⟩
    obtain ⟨p, hp, hpe⟩ := List.mem_map.mp ((hf.full _).mpr hpre)
    have hne : P ≠ [] := pa_entry_ne_nil ha
    refine ⟨p, hp, a, by rw [hpe]; exact (lruNode_iff_entries h _ hne a).mpr ha, ?_⟩
    rw [← hpe] at ha hpx hz hd
    exact (mlOne_mem h ha depth lru m).mpr ⟨lruIter lru, b, hX, hpg, hm, hfl, hpx, hz, hd⟩

/-- the candidates of one stored prefix: no LRU twice -/
theorem mlOne_nodup {s : State} {t : T} (h : Shape s t) (hw : WfStems s t) {p : Bytes} {n : Nat}
    (hP : (lruIter p, n) ∈ t.entries s []) (depth : Option Nat) :
    ((mlOne s depth n p).map (·.1)).Nodup := by
  unfold mlOne
  rw [List.map_map]
  have h1 := weDfs_opt_addrs_nodup h hP p depth
  unfold List.Nodup at h1 ⊢
  rw [List.pairwise_map] at h1 ⊢
  refine List.Pairwise.imp_of_mem ?_ (h1.filter _)
  intro x y hx hy hne e
  apply hne
  obtain ⟨hx, _⟩ := List.mem_filter.mp hx
  obtain ⟨hy, _⟩ := List.mem_filter.mp hy
  obtain ⟨X, hX, _, ex, _⟩ := (weDfs_opt_walk_iff h hP depth x.1 x.2).mp hx
  obtain ⟨Y, hY, _, ey, _⟩ := (weDfs_opt_walk_iff h hP depth y.1 y.2).mp hy
  have e' : x.2 = y.2 := e
  have hXY : X = Y := by
    rw [← lruIter_flatten X (hw X _ hX), ← lruIter_flatten Y (hw Y _ hY), ← ex, ← ey, e']
  subst hXY
  exact entries_path_injective h.ord h.nodup hX hY

/-- C20, no repetition among the candidates: if no prefix is given twice, no page is ranked twice -/
theorem C20_cand_nodup {s : State} {t : T} (h : Shape s t) (hi : Traph.Inv s t) {w : Nat} {ps : List Bytes}
    (hf : FullPrefixList s w ps) (hnd : (ps.map lruIter).Nodup) {depth : Option Nat}
    {pages : List (Bytes × Nat)} (hl : s.forPrefixes ps (mlOne s depth) = .ok pages) :
    (pages.map (·.1)).Nodup := by
  rw [ml_pages_flatMap hl, List.map_flatMap]
  unfold List.Nodup at hnd ⊢
  rw [List.pairwise_map] at hnd
  rw [List.pairwise_flatMap]
  have hstored : ∀ p ∈ ps, ∃ n, s.lruNode (lruIter p) = some n ∧ (lruIter p, n) ∈ t.entries s [] ∧
      (s.cell n).we = w := by
    intro p hp
    obtain ⟨hne, n, hn, hwn⟩ := (hf.full _).mp (List.mem_map.mpr ⟨p, hp, rfl⟩)
    exact ⟨n, hn, (lruNode_iff_entries h _ hne n).mp hn, hwn⟩
  constructor
  · intro p hp
    obtain ⟨n, hn, hP, _⟩ := hstored p hp
    rw [hn]
    exact mlOne_nodup h hi.wf hP depth
  · refine List.Pairwise.imp_of_mem ?_ hnd
    intro p₁ p₂ hp₁ hp₂ hne x hx y hy e
    subst e
    apply hne
    obtain ⟨n₁, hn₁, hP₁, hw₁⟩ := hstored p₁ hp₁
    obtain ⟨n₂, hn₂, hP₂, hw₂⟩ := hstored p₂ hp₂
    simp only [hn₁, List.mem_map] at hx
    simp only [hn₂, List.mem_map] at hy
    obtain ⟨⟨lru₁, c₁⟩, hx, rfl⟩ := hx
    obtain ⟨⟨lru₂, c₂⟩, hy, e⟩ := hy
    simp only at e
    subst e
    obtain ⟨X, b, hX, _, _, ex, hpx, hzx, _⟩ := (mlOne_mem h hP₁ depth _ _).mp hx
    obtain ⟨Y, b', hY, _, _, ey, hpy, hzy, _⟩ := (mlOne_mem h hP₂ depth _ _).mp hy
    have hXY : X = Y := by
      rw [← lruIter_flatten X (hi.wf X _ hX), ← lruIter_flatten Y (hi.wf Y _ hY), ← ex, ← ey]
    subst hXY
    exact pa_anchor_unique hpx hpy hP₁ hP₂ (by rw [hw₁]; exact hf.ne) (by rw [hw₂]; exact hf.ne) hzx hzy

/-! ### C. the reported indegree -/

/-- a page with an in-list: the number of distinct source blocks on the list -/
theorem indegreeEntries_linked (s : State) (head : Nat) (h : head ≠ 0) :
    s.indegreeEntries head = (s.walk head).eraseDups.length := by
  unfold indegreeEntries
  rw [if_neg h, ← deduped_eq]
  simp [deduped]

/-- a page nobody links to, the unchanged code: 1 (finding D4) -/
theorem indegreeEntries_lonely_true (s : State) (h : s.cfg.lonelyIndegreeOne = true) :
    s.indegreeEntries 0 = 1 := by
  simp [indegreeEntries, h]

/-- a page nobody links to, the repaired code: 0 -/
theorem indegreeEntries_lonely_false (s : State) (h : s.cfg.lonelyIndegreeOne = false) :
    s.indegreeEntries 0 = 0 := by
  simp [indegreeEntries, h]

/-- in one expression: with the repair it is the number of distinct sources (`walk0` = the in-list, empty
    for the null head); without it, that number, but at least 1 -/
theorem indegreeEntries_eq (s : State) (head : Nat) :
    s.indegreeEntries head =
      if s.cfg.lonelyIndegreeOne && head == 0 then 1 else (s.walk0 head).eraseDups.length := by
  unfold walk0
  by_cases h : head = 0
  · subst h
    cases hc : s.cfg.lonelyIndegreeOne <;> simp [indegreeEntries, hc]
  · rw [indegreeEntries_linked s head h, if_pos h]
    have : (head == 0) = false := by simpa using h
    simp [this]

/-- with the repair the reported number is the number of distinct sources, 0 for a page nobody links to -/
theorem indegreeEntries_repaired (s : State) (hc : s.cfg.lonelyIndegreeOne = false) (head : Nat) :
    s.indegreeEntries head = (s.walk0 head).eraseDups.length := by
  rw [indegreeEntries_eq, hc]; simp

/-- block 0 of the link store, decoded as a stub, has a null `previous` pointer -/
def HeaderStub (s : State) : Prop := ∃ st, s.links[0]? = some st ∧ st.prev = 0

theorem walk_header (s : State) (h : HeaderStub s) : ∃ x, s.walk 0 = [x] := by
  obtain ⟨st, h0, hp⟩ := h
  refine ⟨st.target, ?_⟩
  unfold walk walkGo
  rw [h0]
  simp [hp]

/-- D4 explained: with the unchanged code the reported number is, for *every* head, the number of distinct
    targets met by walking the stub list from that head — for the null head the walk reads the header block
    as one stub -/
theorem indegreeEntries_header (s : State) (hh : HeaderStub s) (hc : s.cfg.lonelyIndegreeOne = true)
    (head : Nat) : s.indegreeEntries head = (s.walk head).eraseDups.length := by
  by_cases h : head = 0
  · subst h
    obtain ⟨x, hx⟩ := walk_header s hh
    rw [indegreeEntries_lonely_true s hc, hx]
    simp [List.eraseDups_cons]
  · exact indegreeEntries_linked s head h

/-- the header block of the link store is never rewritten -/
theorem headerStub_run (cfg : Config) (dflt : Rule) (rules : List (Bytes × Rule)) (ops : List Op)
    (hop : ∀ op ∈ ops, ∀ d rs, op ≠ .clear d rs) :
    HeaderStub ((State.fresh cfg dflt rules []).1.run ops) := by
  have h0 : (0 : Nat) < ({ cfg := cfg, dflt := dflt, log := .linkHdr :: .hdr 0 :: [] } : State).trie.size :=
    Nat.zero_lt_one
  have hle1 := le_installRules rules
    ({ cfg := cfg, dflt := dflt, log := .linkHdr :: .hdr 0 :: [] } : State) true h0
  have hle2 := (run_le (State.fresh cfg dflt rules []).1 ops (live_fresh cfg dflt rules []) hop).1
  have hs : ({ cfg := cfg, dflt := dflt, log := .linkHdr :: .hdr 0 :: [] } : State).links[0]? = some ({} : Stub) := rfl
  exact ⟨({} : Stub), hle2.stubs 0 _ (hle1.stubs 0 _ hs), rfl⟩

/-! ### D. the answer -/

/-- C20: in a state with its invariants, asked for webentity `w` with its full prefix list (any order),
    any `k` and any depth limit, `get_webentity_most_linked_pages` answers a list `l` such that, `pages`
    being the list of candidates (the indexed pages resolving to `w` within the depth limit, with the
    number counted on their in-list; no repetition if no prefix is given twice):
    (a) `l` has `min k pages.length` entries;
    (b) `l`, completed by the candidates left out, is a rearrangement of `pages`; in particular every entry
        is a candidate;
    (c) `l` is in non-increasing order of indegree;
    (d) no candidate left out has a larger indegree than a listed one;
    (e) no page is listed twice if no prefix is given twice. -/
theorem C20_answer {s : State} {t : T} (h : Shape s t) (hi : Traph.Inv s t) {w : Nat} {ps : List Bytes}
    (hf : FullPrefixList s w ps) (k : Nat) (depth : Option Nat) :
    ∃ pages l, s.mostLinked ps k depth = .ok l ∧ l = rank k pages ∧
      (∀ lru m, (lru, m) ∈ pages ↔ IsCandidate s t w depth lru m) ∧
      ((ps.map lruIter).Nodup → (pages.map (·.1)).Nodup) ∧
      l.length = min k pages.length ∧
      (∃ dropped, (l ++ dropped).Perm pages ∧ ∀ x ∈ l, ∀ d ∈ dropped, d.2 ≤ x.2) ∧
      (∀ lru m, (lru, m) ∈ l → IsCandidate s t w depth lru m) ∧
      (l.map (·.2)).Pairwise (· ≥ ·) ∧
      (∀ lru m, IsCandidate s t w depth lru m → (lru, m) ∉ l → ∀ x ∈ l, m ≤ x.2) ∧
      ((ps.map lruIter).Nodup → (l.map (·.1)).Nodup) := by
  obtain ⟨l, hl⟩ := C20_ok hf k depth
  obtain ⟨pages, hpg, rfl⟩ := (mostLinked_ok_iff s ps k depth l).mp hl
  have hmem := C20_cand_mem h hi hf hpg
  refine ⟨pages, rank k pages, hl, rfl, hmem, fun hnd => C20_cand_nodup h hi hf hnd hpg, rank_length k pages,
    rank_perm k pages, fun lru m hm => (hmem lru m).mp (rank_subset k pages _ hm), rank_sorted k pages,
    fun lru m hc hn x hx => rank_max k pages (lru, m) ((hmem lru m).mpr hc) hn x hx,
    fun hnd => rank_nodup k pages (C20_cand_nodup h hi hf hnd hpg)⟩

/-- the answer does not depend on the candidates' order beyond ties: with `k` at least the number of
    candidates, the answer is the whole candidate list rearranged -/
theorem C20_all {s : State} {ps : List Bytes} {k : Nat} {depth : Option Nat} {pages l : List (Bytes × Nat)}
    (hpg : s.forPrefixes ps (mlOne s depth) = .ok pages) (hl : s.mostLinked ps k depth = .ok l)
    (hk : pages.length ≤ k) : l.Perm pages := by
  obtain ⟨pages', hpg', rfl⟩ := (mostLinked_ok_iff s ps k depth l).mp hl
  rw [hpg] at hpg'; cases hpg'
  exact rank_all k pages hk

/-- C20 for every reachable index state: after any history of write requests (well-formed, no `KeyError`
    answer, no `clear`) on a fresh index with any constructor rules, for every webentity id `w`, every full
    prefix list `ps` of `w` in any order, every `k` (`k = 0` included: the empty answer) and every depth
    limit, the request is answered as `C20_answer` says; the reported indegree of a listed page is the
    number of distinct source blocks on its in-list, and for a page without in-list 1 with the unchanged
    code (D4), 0 with the repair. -/
theorem C20_reachable (cfg : Config) (dflt : Rule) (rules : List (Bytes × Rule)) (ops : List Op)
    (hrules : ∀ ar ∈ rules, lruIter ar.1 ≠ [])
    (hop : ∀ op ∈ ops, ∀ d rs, op ≠ .clear d rs) (hwf : ∀ op ∈ ops, OpWf op)
    (hok : NoKeyErr (State.fresh cfg dflt rules []).1 ops)
    (s : State) (hs : s = (State.fresh cfg dflt rules []).1.run ops) :
    ∃ t, Shape s t ∧ Traph.Inv s t ∧
      (∀ w ps k depth, FullPrefixList s w ps →
        ∃ pages l, s.mostLinked ps k depth = .ok l ∧ l = rank k pages ∧
          (∀ lru m, (lru, m) ∈ pages ↔ IsCandidate s t w depth lru m) ∧
          ((ps.map lruIter).Nodup → (pages.map (·.1)).Nodup) ∧
          l.length = min k pages.length ∧
          (∃ dropped, (l ++ dropped).Perm pages ∧ ∀ x ∈ l, ∀ d ∈ dropped, d.2 ≤ x.2) ∧
          (∀ lru m, (lru, m) ∈ l → IsCandidate s t w depth lru m) ∧
          (l.map (·.2)).Pairwise (· ≥ ·) ∧
          (∀ lru m, IsCandidate s t w depth lru m → (lru, m) ∉ l → ∀ x ∈ l, m ≤ x.2) ∧
          ((ps.map lruIter).Nodup → (l.map (·.1)).Nodup)) ∧
      (∀ head, head ≠ 0 → s.indegreeEntries head = (s.walk head).eraseDups.length) ∧
      (s.cfg.lonelyIndegreeOne = true → s.indegreeEntries 0 = 1 ∧
        ∀ head, s.indegreeEntries head = (s.walk head).eraseDups.length) ∧
      (s.cfg.lonelyIndegreeOne = false → s.indegreeEntries 0 = 0) ∧
      (∀ w, w ≠ 0 → FullPrefixList s w (prefixesOf s w) ∧ ((prefixesOf s w).map lruIter).Nodup) := by
  subst hs
  obtain ⟨t, h, hi⟩ := inv_run cfg dflt rules ops hrules hop hwf hok
  have hh := headerStub_run cfg dflt rules ops hop
  exact ⟨t, h, hi, fun w ps k depth hf => C20_answer h hi hf k depth,
    fun head hne => indegreeEntries_linked _ head hne,
    fun hc => ⟨indegreeEntries_lonely_true _ hc, fun head => indegreeEntries_header _ hh hc head⟩,
    fun hc => indegreeEntries_lonely_false _ hc,
    fun w hw => prefixesOf_full h hi hw⟩

/-! ### E. the model on a concrete index (kernel-checked evaluations)

    Webentity 1 has the prefix `a|`; pages `a|`, `a|x|`, `a|y|`, `a|y|z|`, `a|y|z|w|`; links `x→y` (twice),
    `yz→y`, `x→x`, `x→yz`. The walk meets `a|`, `a|y|`, `a|y|z|`, `a|y|z|w|`, `a|x|` in this order. -/
section Examples

private def mA : Bytes := [97, 124]
private def mAX : Bytes := [97, 124, 120, 124]
private def mAY : Bytes := [97, 124, 121, 124]
private def mAYZ : Bytes := [97, 124, 121, 124, 122, 124]
private def mAYZW : Bytes := [97, 124, 121, 124, 122, 124, 119, 124]
private def mOps : List Op :=
  [.create [mA], .addPage mA true, .addPage mAYZW true,
   .addLinks [(mAX, mAY), (mAYZ, mAY), (mAX, mAX), (mAX, mAYZ), (mAX, mAY)]]
/-- the unchanged code -/
private def mS : State := (State.fresh {} .never [] []).1.run mOps
/-- the code with D4 repaired -/
private def mS' : State := (State.fresh { lonelyIndegreeOne := false } .never [] []).1.run mOps

/-- distinct sources are counted once (`x→y` twice), a self-link counts; among equal indegrees the page
    met later comes first; the two pages nobody links to are reported with 1 (D4) -/
example : (mS.mostLinked [mA] 10 none).toOption
    = some [(mAY, 2), (mAX, 1), (mAYZW, 1), (mAYZ, 1), (mA, 1)] := by decide
/-- …and with 0 once D4 is repaired -/
example : (mS'.mostLinked [mA] 10 none).toOption
    = some [(mAY, 2), (mAX, 1), (mAYZ, 1), (mAYZW, 0), (mA, 0)] := by decide
/-- D4 also changes *which* pages are listed: with `k = 3` the unchanged code lists `a|y|z|w|` (nobody
    links to it, reported 1, met later) and leaves out `a|y|z|` (one page links to it) -/
example : (mS.mostLinked [mA] 3 none).toOption = some [(mAY, 2), (mAX, 1), (mAYZW, 1)] := by decide
example : (mS'.mostLinked [mA] 3 none).toOption = some [(mAY, 2), (mAX, 1), (mAYZ, 1)] := by decide
/-- the depth limit counts stems below the prefix: 0 = the prefix page alone, 1 = its children, … -/
example : (mS.mostLinked [mA] 10 (some 0)).toOption = some [(mA, 1)] := by decide
example : (mS.mostLinked [mA] 10 (some 1)).toOption = some [(mAY, 2), (mAX, 1), (mA, 1)] := by decide
example : (mS.mostLinked [mA] 10 (some 2)).toOption
    = some [(mAY, 2), (mAX, 1), (mAYZ, 1), (mA, 1)] := by decide
/-- `k = 0`: the empty answer -/
example : (mS.mostLinked [mA] 0 none).toOption = some [] := by decide
/-- a prefix given twice: every candidate is ranked twice -/
example : (mS.mostLinked [mA, mA] 10 (some 0)).toOption = some [(mA, 1), (mA, 1)] := by decide
/-- an unknown prefix: an error (the library's own, `mostLinked_err`) -/
example : (mS.mostLinked [[98, 124]] 10 none).toOption = none := by decide

end Examples

#print axioms rank_spec
#print axioms rank_perm
#print axioms mostLinked_ok_iff
#print axioms C20_cand_mem
#print axioms C20_cand_nodup
#print axioms indegreeEntries_header
#print axioms indegreeEntries_repaired
#print axioms headerStub_run
#print axioms C20_answer
#print axioms C20_reachable

end Traph

import Proofs.CoSchedules
import Proofs.CoFuelNet
import Proofs.WeMapBulk
import Proofs.NetworkAgg
import Proofs.Network
import Proofs.CoFinalQueries
import Proofs.CoDrainExamples
/-! C16 — the two bounds on the answer of the NETWORK query `get_webentities_links_iter(out, include_auto)`
    (`CoReq.queryNet`, machine `NetSt` / `netResume` of `Traph/Co.lean`) under ANY schedule with writers (crawl batches,
    rule installations) and other queries, from any index with the shape invariant and list heads in range
    (`Shape`, `HeadsOk`: both hold in every reachable index and are kept by every schedule; no hypothesis at all on the
    other generators' private states or on the well-formedness of their requests).

    * §0 `cnb_WeMono`: every section of every generator only ATTACHES webentities (a stem path that carries an id keeps
      it): `cnb_weMono_resume`.
    * §1 `cnb_iter`: one loop iteration of `netResume`; `cnb_netResume_succ`, `cnb_netResume_lift`: an invariant of the
      iterations is an invariant of the sections.
    * §2–5 soundness side. `cnb_Ok` (ghost `V`: the blocks expanded): the walk of phase 1 meets every block at most once
      (`cf_NI` of `Proofs/CoFuelNet`), the value carried to a block is 0 or the `we` field of a node above it
      (`cnb_Carry`), every recorded (block, id) is a page block with its id carried by itself or a node above
      (`cnb_Rec`), `pageWe` has one entry per block, every pointer's source id is recorded, and the graph under
      construction is well formed against the recorded pages (`cnb_GraphOk`: keys, tallies). Stable under foreign
      sections (`cnb_Ok.mono`), re-established by the query's own (`cnb_Ok.iter1/iter2/sec`).
    * §4 `cnb_sched_net`: the induction over schedules, generic in the local invariant, the answer property and a
      predicate assumed `Throughout`.
    * §6–8 completeness side. `cnb_res`: the id the walk computes along a list of blocks; `cnb_PCov`: a page is
      recorded with the right id or an entry of the stack leads to it by a pointer path (`HPath` of `Proofs/CoQuery`)
      carrying a value that resolves to the right id; `cnb_LCov`: where a link is on its way into the answer
      (pages to visit → pointer recorded → pointer opened, entry in the Counter snapshot → weight in the graph).
    * §9 `cnb_hpath_root`: every entry of the finite map is reached from block 1 by a pointer path whose ancestors are
      exactly the blocks of its proper stem-prefixes.
    * §11 weights. `cnb_WOk` (ghosts: pointers opened / still to open, each with the block it was read from): every
      weight is bounded by what the opened pointers' lists contain; a stale head walks a suffix of its block's present
      list (`cf_Owns`), owners are distinct, hence `cnb_WOk.bound`.
    * §10, 12 the theorems: **`C16_net_query_sound`**, **`C16_net_query_complete`**, their `_reachable` forms, and a
      kernel-checked instance (`NetEx`: the index of `Proofs/CoDrainExamples`, a query interleaved with a batch). -/
namespace Traph
open State Layout

/-! ## 0. webentity ids are only ever attached: `we` fields of the prefix map go from 0 to an id and stay -/

/-- a path that carries a webentity keeps it -/
def cnb_WeMono (s s' : State) : Prop := ∀ p, s.weMap p ≠ 0 → s'.weMap p = s.weMap p

theorem cnb_WeMono.refl (s : State) : cnb_WeMono s s := fun _ _ => rfl

theorem cnb_WeMono.trans {a b c : State} (h1 : cnb_WeMono a b) (h2 : cnb_WeMono b c) : cnb_WeMono a c := fun p hp => by
  have e1 := h1 p hp
  rw [h2 p (by rw [e1]; exact hp), e1]

theorem cnb_WeMono.of_eq {s s' : State} (e : s'.weMap = s.weMap) : cnb_WeMono s s' := fun p _ => by rw [e]

theorem cnb_weMono_addPageCore {s : State} {t : T} (h : Shape s t) (lru : Bytes) (c : Bool) :
    cnb_WeMono s (s.addPageCore lru c).1 := by
  rcases addPageCore_weMap_cases h lru c with ⟨_, e, _⟩ | ⟨r, _, _, e, _⟩ | ⟨r, fl, _, _, e, hz, _⟩
  · exact cnb_WeMono.of_eq e
  · exact cnb_WeMono.of_eq e
  · intro p hp
    rw [e]
    unfold mapSetAll
    rw [if_neg]
    intro hm
    obtain ⟨q, hq, rfl⟩ := List.mem_map.mp hm
    exact hp (hz q hq)

theorem cnb_weMono_batch : ∀ (fuel : Nat) (s : State) (b : BatchSt) (t : T), Shape s t →
    cnb_WeMono s (batchResume fuel s b).1 := by
  intro fuel s b
  fun_induction batchResume fuel s b with
  | case1 => intro t _; exact cnb_WeMono.refl _
  | case2 => intro t _; exact cnb_WeMono.refl _
  | case3 => intro t h; exact cnb_WeMono.of_eq (weMap_addStubs h _ _ _)
  | case4 _ _ _ _ _ _ ih => exact ih
  | case5 _ s _ _ _ src _ _ _ _ s1 _ _ hx =>
    intro t h
    have := cnb_weMono_addPageCore h src true
    rw [hx] at this
    exact this
  | case6 _ s _ _ _ src _ _ _ _ s1 _ _ hx ih =>
    intro t h
    have := cnb_weMono_addPageCore h src true
    obtain ⟨t1, h1⟩ := shape_addPageCore h src true
    rw [hx] at this h1
    exact this.trans (ih t1 h1)
  | case7 _ s _ _ _ _ _ _ _ n _ _ _ _ ih =>
    intro t h
    exact (cnb_WeMono.of_eq (weMap_markCrawled h n)).trans (ih t (ext_markCrawled h n).shape)
  | case8 _ _ _ _ _ _ _ _ _ _ _ _ _ ih => exact ih
  | case9 _ _ _ _ _ _ _ _ _ _ _ ih =>
    intro t h
    exact (cnb_WeMono.of_eq (weMap_addStubs h _ _ _)).trans (ih t (keeps_addStubs h _ _ _).shape)
  | case10 _ s _ _ _ _ _ _ tg _ _ s1 _ _ hx _ =>
    intro t h
    have := cnb_weMono_addPageCore h tg false
    rw [hx] at this
    exact this
  | case11 _ s _ _ _ _ _ _ tg _ _ s1 _ _ hx _ =>
    intro t h
    have := cnb_weMono_addPageCore h tg false
    rw [hx] at this
    exact this
  | case12 _ _ _ _ _ _ _ _ _ _ _ _ _ _ ih => exact ih

theorem cnb_weMono_ruleStart {s : State} {t : T} (h : Shape s t) (r : RuleSt) :
    cnb_WeMono s (ruleStart s r).1 ∧ ∃ t', Shape (ruleStart s r).1 t' := by
  unfold ruleStart
  by_cases hs : r.started = true
  · rw [if_pos hs]; exact ⟨cnb_WeMono.refl s, t, h⟩
  · rw [if_neg hs]
    have k0 : Keeps s t { s with rules := dictSet s.rules r.anchor r.rule } t := Keeps.of_trie_eq h rfl
    have e0 : ({ s with rules := dictSet s.rules r.anchor r.rule } : State).weMap = s.weMap := weMap_trie_eq rfl
    obtain ⟨t1, k1, _⟩ := keeps_addLruIter k0.shape r.anchor false
    have e1 := weMap_addLru k0.shape (lruIter r.anchor) false
    have k2 := keeps_setRule k1.shape
      (({ s with rules := dictSet s.rules r.anchor r.rule } : State).addLru (lruIter r.anchor) false).2.1 true
    have e2 := weMap_modCell k1.shape
      (({ s with rules := dictSet s.rules r.anchor r.rule } : State).addLru (lruIter r.anchor) false).2.1
      (fun c => { c with flags := { c.flags with rule := true } }) (fun _ => ⟨rfl, rfl, rfl, rfl, rfl⟩) (fun _ => rfl)
    exact ⟨cnb_WeMono.of_eq (e2.trans (e1.trans e0)), t1, k2.shape⟩

theorem cnb_weMono_ruleBody {s : State} {t : T} (h : Shape s t) (r : RuleSt) : cnb_WeMono s (ruleBody s r).1 := by
  unfold ruleBody
  split
  · exact cnb_WeMono.refl s
  · split
    · rename_i b lru rest _ _
      have q := cnb_weMono_addPageCore h (lru ++ s.stemAt b) false
      split
      · rename_i hx; rw [hx] at q; exact q
      · rename_i hx; rw [hx] at q; exact q
    · exact cnb_WeMono.refl s

/-- **every section of every generator only attaches webentities** -/
theorem cnb_weMono_resume {s : State} {t : T} (h : Shape s t) (c : CoSt) : cnb_WeMono s (c.resume s).1 := by
  cases c with
  | batch b => rw [resume_batch_fst]; exact cnb_weMono_batch _ s b t h
  | rule r =>
    rw [resume_rule_fst, ruleResume_eq]
    obtain ⟨m1, t1, h1⟩ := cnb_weMono_ruleStart h r
    exact m1.trans (cnb_weMono_ruleBody h1 _)
  | pages p => exact cnb_WeMono.refl s
  | net n => exact cnb_WeMono.refl s
  | query q => exact cnb_WeMono.refl s
  | finished => exact cnb_WeMono.refl s

/-- in terms of the blocks of the tree -/
theorem cnb_WeMono.cell {s s' : State} {t t' : T} (m : cnb_WeMono s s') (h : Shape s t) (x : Ext s t s' t')
    {p : LRU} {a : Nat} (hm : (p, a) ∈ t.entries s []) (hne : (s.cell a).we ≠ 0) : (s'.cell a).we = (s.cell a).we := by
  have e1 := weMap_entry h hm
  have e2 := weMap_entry x.shape (x.keep _ _ hm)
  rw [← e1, ← e2]
  exact m p (by rw [e1]; exact hne)

/-! ## 1. one loop iteration of the network query -/

/-- what one iteration of the loop inside a section does: go on with a new private state, or leave the section -/
inductive cnb_It where
  | cont (n : NetSt)
  | stop (n : NetSt) (o : CoOut)

/-- the stack a phase-1 iteration starts from: first section → the root; the stale copy of the block
    visited last is expanded -/
def cnb_norm (s : State) (n : NetSt) : NetSt :=
  let n := if n.started then n else { n with started := true, stack := if s.trie.size ≤ 1 then [] else [(1, 0)] }
  { n with stack := (match n.pend with
      | some (b, we, cur, c) => dfsWePush b we cur c n.stack
      | none => n.stack), pend := none }

/-- a phase-1 iteration on a normalised state -/
def cnb_iter1 (s : State) (n : NetSt) : cnb_It :=
  match n.stack with
  | [] => .cont { n with phase2 := some n.pointers }
  | (b, we) :: rest =>
    let c := s.cell b
    let cur := if c.we ≠ 0 then c.we else we
    if c.flags.page && cur ≠ 0 then
      let g := netTouch n.graph cur (fun r => if c.flags.crawled then { r with crawled := r.crawled + 1 }
                                               else { r with uncrawled := r.uncrawled + 1 })
      let head := if n.out then c.out else c.inn
      .stop { n with stack := rest, pend := some (b, we, cur, c), graph := g, pageWe := dictSet n.pageWe b cur,
                     pointers := if head ≠ 0 then n.pointers ++ [(cur, head)] else n.pointers } .yielded
    else .cont { n with stack := dfsWePush b we cur c rest }

/-- a phase-2 iteration -/
def cnb_iter2 (s : State) (n : NetSt) (ptrs : List (Nat × Nat)) : cnb_It :=
  match n.curList with
  | (t, w) :: more =>
    (match dictGet? n.pageWe t with
     | none => .cont { n with curList := more }
     | some tWe =>
       if !n.auto && n.curSrc = tWe then .cont { n with curList := more }
       else
         let g := netTouch n.graph n.curSrc (fun r => { r with targets := counterAdd r.targets tWe w })
         .stop { n with curList := more, graph := g } .yielded)
  | [] =>
    match ptrs with
    | [] => .stop n (.done (.net n.graph))
    | (src, head) :: rest => .cont { n with phase2 := some rest, curSrc := src, curList := s.weighted head }

def cnb_iter (s : State) (n : NetSt) : cnb_It :=
  match n.phase2 with
  | some ptrs => cnb_iter2 s n ptrs
  | none => cnb_iter1 s (cnb_norm s n)

theorem cnb_netResume_succ (fuel : Nat) (s : State) (n : NetSt) :
    netResume (fuel + 1) s n = match cnb_iter s n with
      | .cont n' => netResume fuel s n'
      | .stop n' o => (n', o) := by
  obtain ⟨out, auto, started, stack, pend, pageWe, pointers, phase2, curSrc, curList, graph⟩ := n
  rw [netResume]
  unfold cnb_iter
  cases phase2 with
  | some ptrs =>
    simp only
    unfold cnb_iter2
    cases curList with
    | cons tw more =>
      obtain ⟨t, w⟩ := tw
      simp only
      cases hd : dictGet? pageWe t with
      | none => rfl
      | some tWe =>
        simp only
        split <;> rfl
    | nil =>
      simp only
      cases ptrs with
      | nil => rfl
      | cons sh rest => rfl
  | none =>
    simp only
    unfold cnb_iter1 cnb_norm
    have key : ∀ (st : List (Nat × Nat)) (started' : Bool),
        (match (⟨out, auto, started', st, none, pageWe, pointers, none, curSrc, curList, graph⟩ : NetSt).stack with
          | [] => netResume fuel s { (⟨out, auto, started', st, none, pageWe, pointers, none, curSrc, curList, graph⟩ : NetSt) with
                    phase2 := some pointers }
          | (b, we) :: rest =>
            let c := s.cell b
            let cur := if c.we ≠ 0 then c.we else we
            if c.flags.page && cur ≠ 0 then
              let g := netTouch graph cur (fun r => if c.flags.crawled then { r with crawled := r.crawled + 1 }
                                                       else { r with uncrawled := r.uncrawled + 1 })
              let head := if out then c.out else c.inn
              (({ out := out, auto := auto, started := started', stack := rest, pend := some (b, we, cur, c), graph := g,
                  pageWe := dictSet pageWe b cur,
                  pointers := if head ≠ 0 then pointers ++ [(cur, head)] else pointers, phase2 := none, curSrc := curSrc,
                  curList := curList } : NetSt), CoOut.yielded)
            else netResume fuel s ⟨out, auto, started', dfsWePush b we cur c rest, none, pageWe, pointers, none, curSrc, curList, graph⟩) =
        (match cnb_iter1 s ⟨out, auto, started', st, none, pageWe, pointers, none, curSrc, curList, graph⟩ with
          | .cont n' => netResume fuel s n'
          | .stop n' o => (n', o)) := by
      intro st started'
      unfold cnb_iter1
      cases st with
      | nil => rfl
      | cons top rest =>
        obtain ⟨b, we⟩ := top
        simp only
        generalize (if (s.cell b).we ≠ 0 then (s.cell b).we else we) = cur
        by_cases hc : ((s.cell b).flags.page && decide (cur ≠ 0)) = true
        · rw [if_pos hc, if_pos hc]
        · rw [if_neg hc, if_neg hc]
    cases started with
    | true =>
      cases pend with
      | none => exact key stack true
      | some x => obtain ⟨b, we, cur, c⟩ := x; exact key (dfsWePush b we cur c stack) true
    | false =>
      cases pend with
      | none => exact key (if s.trie.size ≤ 1 then [] else [(1, 0)]) true
      | some x => obtain ⟨b, we, cur, c⟩ := x; exact key (dfsWePush b we cur c (if s.trie.size ≤ 1 then [] else [(1, 0)])) true

/-- sections are made of iterations: an invariant `J` of the iterations holds of what a section leaves behind -/
theorem cnb_netResume_lift (s : State) (J : NetSt → Prop) (P : NetSt → CoOut → Prop)
    (hcont : ∀ n n', J n → cnb_iter s n = .cont n' → J n')
    (hstop : ∀ n n' o, J n → cnb_iter s n = .stop n' o → P n' o) :
    ∀ (fuel : Nat) (n : NetSt), J n →
      (netResume fuel s n).2 = .failed (.other "fuel") ∨ P (netResume fuel s n).1 (netResume fuel s n).2
  | 0, n, _ => Or.inl rfl
  | fuel + 1, n, hJ => by
    rw [cnb_netResume_succ]
    cases hi : cnb_iter s n with
    | cont n' => exact cnb_netResume_lift s J P hcont hstop fuel n' (hcont n n' hJ hi)
    | stop n' o => exact Or.inr (hstop n n' o hJ hi)

/-! ## 2. rows, counters, stacks -/

theorem cnb_mem_netTouch (f : NetRow → NetRow) : ∀ (g : List NetRow) (A : Nat) (r : NetRow), (g.map (·.src)).Nodup →
    r ∈ netTouch g A f →
    (r ∈ g ∧ r.src ≠ A) ∨ (∃ r0 ∈ g, r0.src = A ∧ r = f r0) ∨ (A ∉ g.map (·.src) ∧ r = f (NetRow.fresh A))
  | [], A, r, _, h => by
    rw [netTouch_nil, List.mem_singleton] at h
    exact Or.inr (Or.inr ⟨by simp, h⟩)
  | r0 :: g, A, r, hnd, h => by
    rw [netTouch_cons] at h
    simp only [List.map_cons, List.nodup_cons] at hnd
    by_cases hs : r0.src = A
    · rw [if_pos hs] at h
      rcases List.mem_cons.mp h with e | h'
      · exact Or.inr (Or.inl ⟨r0, by simp, hs, e⟩)
      · refine Or.inl ⟨List.mem_cons_of_mem _ h', fun e => hnd.1 ?_⟩
        rw [hs, ← e]
        exact List.mem_map.mpr ⟨r, h', rfl⟩
    · rw [if_neg hs] at h
      rcases List.mem_cons.mp h with e | h'
      · subst e
        exact Or.inl ⟨by simp, hs⟩
      · rcases cnb_mem_netTouch f g A r hnd.2 h' with ⟨h1, h2⟩ | ⟨r1, h1, h2, h3⟩ | ⟨h1, h2⟩
        · exact Or.inl ⟨List.mem_cons_of_mem _ h1, h2⟩
        · exact Or.inr (Or.inl ⟨r1, List.mem_cons_of_mem _ h1, h2, h3⟩)
        · refine Or.inr (Or.inr ⟨?_, h2⟩)
          simp only [List.map_cons, List.mem_cons, not_or]
          exact ⟨fun e => hs e.symm, h1⟩

theorem cnb_mem_dfsWePush {b we cur : Nat} {c : Cell} {stack : List (Nat × Nat)} {x : Nat × Nat}
    (h : x ∈ dfsWePush b we cur c stack) :
    x ∈ stack ∨ (x = (c.right, we) ∧ c.right ≠ 0) ∨ (x = (c.left, we) ∧ c.left ≠ 0) ∨ (x = (c.child, cur) ∧ c.child ≠ 0) := by
  unfold dfsWePush at h
  rcases mem_ite_cons h with h | ⟨h, hP⟩
  · rcases mem_ite_cons h with h | ⟨h, hP⟩
    · rcases mem_ite_cons h with h | ⟨h, hP⟩
      · exact Or.inl h
      · exact Or.inr (Or.inl ⟨h, hP⟩)
    · exact Or.inr (Or.inr (Or.inl ⟨h, hP⟩))
  · exact Or.inr (Or.inr (Or.inr ⟨h, hP⟩))

theorem cnb_dfsWePush_mem {b we cur : Nat} {c : Cell} {stack : List (Nat × Nat)} :
    (∀ x ∈ stack, x ∈ dfsWePush b we cur c stack) ∧
    (c.right ≠ 0 → (c.right, we) ∈ dfsWePush b we cur c stack) ∧
    (c.left ≠ 0 → (c.left, we) ∈ dfsWePush b we cur c stack) ∧
    (c.child ≠ 0 → (c.child, cur) ∈ dfsWePush b we cur c stack) := by
  unfold dfsWePush
  by_cases h3 : c.child = 0 <;> by_cases h4 : c.left = 0 <;> by_cases h5 : c.right = 0 <;>
    simp [h3, h4, h5] <;> intros <;> simp_all

/-! ## 3. the local invariant of the network query (soundness side) -/

/-- `k` is a webentity id carried by the node of a (non-empty) prefix of the path `p` -/
def cnb_Near (s : State) (t : T) (p : LRU) (k : Nat) : Prop :=
  k ≠ 0 ∧ ∃ q a, q <+: p ∧ (q, a) ∈ t.entries s [] ∧ (s.cell a).we = k

/-- a value carried down by the walk: nothing yet, or the id of a node above -/
def cnb_Carry (s : State) (t : T) (p : LRU) (c : Nat) : Prop := c = 0 ∨ cnb_Near s t p c

theorem cnb_Near.mono {s s' : State} {t t' : T} (h : Shape s t) (x : Ext s t s' t') (m : cnb_WeMono s s')
    {p : LRU} {k : Nat} (hn : cnb_Near s t p k) : cnb_Near s' t' p k := by
  obtain ⟨hk, q, a, hq, hm, e⟩ := hn
  refine ⟨hk, q, a, hq, x.keep _ _ hm, ?_⟩
  rw [m.cell h x hm (by rw [e]; exact hk), e]

theorem cnb_Carry.mono {s s' : State} {t t' : T} (h : Shape s t) (x : Ext s t s' t') (m : cnb_WeMono s s')
    {p : LRU} {k : Nat} (hn : cnb_Carry s t p k) : cnb_Carry s' t' p k :=
  hn.imp id (fun hn => hn.mono h x m)

theorem cnb_Near.longer {s : State} {t : T} {p p' : LRU} {k : Nat} (hp : p <+: p') (hn : cnb_Near s t p k) :
    cnb_Near s t p' k := by
  obtain ⟨hk, q, a, hq, hm, e⟩ := hn
  exact ⟨hk, q, a, hq.trans hp, hm, e⟩

theorem cnb_Carry.longer {s : State} {t : T} {p p' : LRU} {k : Nat} (hp : p <+: p') (hn : cnb_Carry s t p k) :
    cnb_Carry s t p' k := hn.imp id (fun hn => hn.longer hp)

/-- the value the walk computes at a block: its own id, or the one carried down to it -/
theorem cnb_Carry.step {s : State} {t : T} {p : LRU} {b we : Nat} (hm : (p, b) ∈ t.entries s [])
    (hc : cnb_Carry s t p.dropLast we) :
    cnb_Carry s t p (if (s.cell b).we ≠ 0 then (s.cell b).we else we) := by
  by_cases hw : (s.cell b).we ≠ 0
  · rw [if_pos hw]
    exact Or.inr ⟨hw, p, b, List.prefix_refl _, hm, rfl⟩
  · rw [if_neg hw]
    exact hc.longer (List.dropLast_prefix p)

/-- a recorded page: a page block of the tree, with an id carried by itself or a node above -/
def cnb_Rec (s : State) (t : T) (bk : Nat × Nat) : Prop :=
  ∃ p, (p, bk.1) ∈ t.entries s [] ∧ (s.cell bk.1).flags.page = true ∧ cnb_Near s t p bk.2

theorem cnb_Rec.mono {s s' : State} {t t' : T} (h : Shape s t) (x : Ext s t s' t') (le : s ⊑ s') (m : cnb_WeMono s s')
    {bk : Nat × Nat} (hr : cnb_Rec s t bk) : cnb_Rec s' t' bk := by
  obtain ⟨p, hm, hp, hn⟩ := hr
  exact ⟨p, x.keep _ _ hm, (le.cell_le _ (entry_lt h hm)).page hp, hn.mono h x m⟩

def cnb_StackOk (s : State) (t : T) (stack : List (Nat × Nat)) : Prop :=
  ∀ x ∈ stack, ∃ p, (p, x.1) ∈ t.entries s [] ∧ cnb_Carry s t p.dropLast x.2

theorem cnb_StackOk.mono {s s' : State} {t t' : T} (h : Shape s t) (x : Ext s t s' t') (m : cnb_WeMono s s')
    {stack : List (Nat × Nat)} (hs : cnb_StackOk s t stack) : cnb_StackOk s' t' stack := fun y hy => by
  obtain ⟨p, hm, hc⟩ := hs y hy
  exact ⟨p, x.keep _ _ hm, hc.mono h x m⟩

theorem cnb_StackOk.push {s : State} {t : T} (h : Shape s t) {b we cur : Nat} {c : Cell} {stack : List (Nat × Nat)}
    (hs : cnb_StackOk s t stack) (cl : CellLe c (s.cell b)) {p : LRU} (hp : (p, b) ∈ t.entries s [])
    (hwe : cnb_Carry s t p.dropLast we) (hcur : cnb_Carry s t p cur) :
    cnb_StackOk s t (dfsWePush b we cur c stack) := by
  intro y hy
  obtain ⟨q, e, f1, f2, f3⟩ := entries_last_and_ptrs t [] p b h.rep hp
  have hq : p.dropLast = q := by rw [e, List.dropLast_concat]
  rcases cnb_mem_dfsWePush hy with hy | ⟨rfl, hne⟩ | ⟨rfl, hne⟩ | ⟨rfl, hne⟩
  · exact hs y hy
  · have e' := cl.right hne
    have hent := f2 (by rw [e']; exact hne)
    rw [e'] at hent
    exact ⟨_, hent, by rw [List.dropLast_concat, ← hq]; exact hwe⟩
  · have e' := cl.left hne
    have hent := f1 (by rw [e']; exact hne)
    rw [e'] at hent
    exact ⟨_, hent, by rw [List.dropLast_concat, ← hq]; exact hwe⟩
  · have e' := cl.child hne
    have hent := f3 (by rw [e']; exact hne)
    rw [e'] at hent
    exact ⟨_, hent, by rw [List.dropLast_concat]; exact hcur⟩

/-- the answer under construction against the pages recorded so far -/
structure cnb_GraphOk (s : State) (auto : Bool) (pw : List (Nat × Nat)) (g : List NetRow) : Prop where
  /-- one row per source, one entry per target, positive weights -/
  ok    : NetOk g
  /-- every row key is the id recorded for some page -/
  rows  : ∀ r ∈ g, ∃ b, (b, r.src) ∈ pw
  /-- every target key is the id recorded for some page; self-links only on request -/
  tgts  : ∀ r ∈ g, ∀ kw ∈ r.targets, (∃ b, (b, kw.1) ∈ pw) ∧ (auto = false → kw.1 ≠ r.src)
  /-- every recorded id has its row -/
  have_ : ∀ bk ∈ pw, bk.2 ∈ g.map (·.src)
  /-- the two tallies of a row count the recorded pages of its id; those counted as crawled are crawled -/
  tally : ∀ r ∈ g, r.crawled + r.uncrawled = pw.countP (fun bk => decide (bk.2 = r.src)) ∧
      r.crawled ≤ pw.countP (fun bk => decide (bk.2 = r.src) && (s.cell bk.1).flags.crawled)

theorem cnb_GraphOk.nil (s : State) (auto : Bool) : cnb_GraphOk s auto [] [] :=
  ⟨netOk_nil, by simp, by simp, by simp, by simp⟩

theorem cnb_GraphOk.mono {s s' : State} {auto : Bool} {pw : List (Nat × Nat)} {g : List NetRow}
    (hc : ∀ bk ∈ pw, (s.cell bk.1).flags.crawled = true → (s'.cell bk.1).flags.crawled = true)
    (hg : cnb_GraphOk s auto pw g) : cnb_GraphOk s' auto pw g := by
  refine ⟨hg.ok, hg.rows, hg.tgts, hg.have_, fun r hr => ⟨(hg.tally r hr).1, Nat.le_trans (hg.tally r hr).2 ?_⟩⟩
  apply List.countP_mono_left
  intro bk hbk hp
  simp only [Bool.and_eq_true, decide_eq_true_eq] at hp ⊢
  exact ⟨hp.1, hc bk hbk hp.2⟩

/-- phase 1 records a page: one more page in the tallies of its id -/
theorem cnb_GraphOk.visit {s : State} {auto : Bool} {pw : List (Nat × Nat)} {g : List NetRow}
    (hg : cnb_GraphOk s auto pw g) (b cur : Nat) :
    cnb_GraphOk s auto (pw ++ [(b, cur)])
      (netTouch g cur (fun r => if (s.cell b).flags.crawled then { r with crawled := r.crawled + 1 }
                                else { r with uncrawled := r.uncrawled + 1 })) := by
  generalize hf : (fun r : NetRow => if (s.cell b).flags.crawled then { r with crawled := r.crawled + 1 }
                                else { r with uncrawled := r.uncrawled + 1 }) = f
  have hsrc : ∀ r, (f r).src = r.src := by intro r; subst hf; simp only; split <;> rfl
  have htg : ∀ r, (f r).targets = r.targets := by intro r; subst hf; simp only; split <;> rfl
  have hmem := fun r hr => cnb_mem_netTouch f g cur r hg.ok.rows hr
  have hcnt0 : cur ∉ g.map (·.src) → pw.countP (fun bk => decide (bk.2 = cur)) = 0 := by
    intro hn
    rw [List.countP_eq_zero]
    intro bk hbk hp
    simp only [decide_eq_true_eq] at hp
    exact hn (hp ▸ hg.have_ bk hbk)
  refine ⟨⟨netTouch_srcs_nodup f hsrc g cur hg.ok.rows, fun r hr => ?_, fun r hr => ?_⟩, fun r hr => ?_, fun r hr => ?_,
    fun bk hbk => ?_, fun r hr => ?_⟩
  · rcases hmem r hr with ⟨h1, _⟩ | ⟨r0, h1, _, rfl⟩ | ⟨_, rfl⟩
    · exact hg.ok.keys r h1
    · rw [htg]; exact hg.ok.keys r0 h1
    · rw [htg]; simp [NetRow.fresh]
  · rcases hmem r hr with ⟨h1, _⟩ | ⟨r0, h1, _, rfl⟩ | ⟨_, rfl⟩
    · exact hg.ok.pos r h1
    · rw [htg]; exact hg.ok.pos r0 h1
    · rw [htg]; simp [NetRow.fresh]
  · rcases hmem r hr with ⟨h1, _⟩ | ⟨r0, h1, h2, rfl⟩ | ⟨_, rfl⟩
    · obtain ⟨b', hb'⟩ := hg.rows r h1
      exact ⟨b', List.mem_append_left _ hb'⟩
    · exact ⟨b, by rw [hsrc, h2]; simp⟩
    · exact ⟨b, by rw [hsrc]; simp [NetRow.fresh]⟩
  · rcases hmem r hr with ⟨h1, _⟩ | ⟨r0, h1, h2, rfl⟩ | ⟨_, rfl⟩
    · intro kw hkw
      obtain ⟨⟨b', hb'⟩, h3⟩ := hg.tgts r h1 kw hkw
      exact ⟨⟨b', List.mem_append_left _ hb'⟩, h3⟩
    · intro kw hkw
      rw [htg] at hkw
      obtain ⟨⟨b', hb'⟩, h3⟩ := hg.tgts r0 h1 kw hkw
      exact ⟨⟨b', List.mem_append_left _ hb'⟩, by rw [hsrc]; exact h3⟩
    · intro kw hkw
      rw [htg] at hkw
      simp [NetRow.fresh] at hkw
  · rw [netTouch_mem_srcs f hsrc]
    rcases List.mem_append.mp hbk with h | h
    · exact Or.inl (hg.have_ bk h)
    · simp only [List.mem_singleton] at h
      subst h
      exact Or.inr rfl
  · simp only [List.countP_append, List.countP_singleton]
    rcases hmem r hr with ⟨h1, h2⟩ | ⟨r0, h1, h2, rfl⟩ | ⟨h1, rfl⟩
    · obtain ⟨t1, t2⟩ := hg.tally r h1
      have hne : ¬ cur = r.src := fun e => h2 e.symm
      simp only [hne, decide_false, Bool.false_and, Bool.false_eq_true, if_false, Nat.add_zero]
      exact ⟨t1, t2⟩
    · obtain ⟨t1, t2⟩ := hg.tally r0 h1
      rw [hsrc, h2]
      rw [h2] at t1 t2
      subst hf
      simp only [decide_true, Bool.true_and, if_true]
      by_cases hc : (s.cell b).flags.crawled = true
      · simp only [hc, if_true]
        omega
      · simp only [hc, if_false, Bool.false_eq_true]
        omega
    · have e0 : (NetRow.fresh cur).src = cur := rfl
      rw [hsrc, e0]
      have z := hcnt0 h1
      have z2 : pw.countP (fun bk => decide (bk.2 = cur) && (s.cell bk.1).flags.crawled) = 0 := by
        rw [List.countP_eq_zero] at z ⊢
        intro bk hbk hp
        simp only [Bool.and_eq_true] at hp
        exact z bk hbk hp.1
      subst hf
      simp only [NetRow.fresh, decide_true, Bool.true_and, if_true, z, z2]
      by_cases hc : (s.cell b).flags.crawled = true
      · simp [hc]
      · simp [hc]

/-- phase 2 adds a weight between two recorded ids -/
theorem cnb_GraphOk.add {s : State} {auto : Bool} {pw : List (Nat × Nat)} {g : List NetRow}
    (hg : cnb_GraphOk s auto pw g) {A B w : Nat} (hA : ∃ b, (b, A) ∈ pw) (hB : ∃ b, (b, B) ∈ pw)
    (hauto : auto = false → B ≠ A) (hw : 0 < w) :
    cnb_GraphOk s auto pw (netTouch g A (fun r => { r with targets := counterAdd r.targets B w })) := by
  generalize hf : (fun r : NetRow => { r with targets := counterAdd r.targets B w }) = f
  have hsrc : ∀ r, (f r).src = r.src := by intro r; subst hf; rfl
  have htg : ∀ r, (f r).targets = counterAdd r.targets B w := by intro r; subst hf; rfl
  have hcr : ∀ r, (f r).crawled = r.crawled ∧ (f r).uncrawled = r.uncrawled := by intro r; subst hf; exact ⟨rfl, rfl⟩
  have hmem := fun r hr => cnb_mem_netTouch f g A r hg.ok.rows hr
  have hAin : A ∈ g.map (·.src) := by obtain ⟨b, hb⟩ := hA; exact hg.have_ _ hb
  refine ⟨⟨netTouch_srcs_nodup f hsrc g A hg.ok.rows, fun r hr => ?_, fun r hr => ?_⟩, fun r hr => ?_, fun r hr => ?_,
    fun bk hbk => ?_, fun r hr => ?_⟩
  · rcases hmem r hr with ⟨h1, _⟩ | ⟨r0, h1, _, rfl⟩ | ⟨h1, _⟩
    · exact hg.ok.keys r h1
    · rw [htg]; exact counterAdd_keys_nodup _ _ _ (hg.ok.keys r0 h1)
    · exact absurd hAin h1
  · rcases hmem r hr with ⟨h1, _⟩ | ⟨r0, h1, _, rfl⟩ | ⟨h1, _⟩
    · exact hg.ok.pos r h1
    · rw [htg]; exact counterAdd_pos _ _ _ hw (hg.ok.pos r0 h1)
    · exact absurd hAin h1
  · rcases hmem r hr with ⟨h1, _⟩ | ⟨r0, h1, h2, rfl⟩ | ⟨h1, _⟩
    · exact hg.rows r h1
    · rw [hsrc]; exact hg.rows r0 h1
    · exact absurd hAin h1
  · rcases hmem r hr with ⟨h1, _⟩ | ⟨r0, h1, h2, rfl⟩ | ⟨h1, _⟩
    · exact hg.tgts r h1
    · intro kw hkw
      rw [htg] at hkw
      have hk : kw.1 ∈ (counterAdd r0.targets B w).map (·.1) := List.mem_map.mpr ⟨kw, hkw, rfl⟩
      rw [counterAdd_mem_keys] at hk
      rw [hsrc]
      rcases hk with hk | hk
      · rw [hk, h2]; exact ⟨hB, hauto⟩
      · obtain ⟨kw', hkw', e⟩ := List.mem_map.mp hk
        rw [← e]
        exact hg.tgts r0 h1 kw' hkw'
    · exact absurd hAin h1
  · rw [netTouch_mem_srcs f hsrc]
    exact Or.inl (hg.have_ bk hbk)
  · rcases hmem r hr with ⟨h1, _⟩ | ⟨r0, h1, h2, rfl⟩ | ⟨h1, _⟩
    · exact hg.tally r h1
    · rw [hsrc, (hcr r0).1, (hcr r0).2]; exact hg.tally r0 h1
    · exact absurd hAin h1


theorem cnb_weighted_pos (s : State) (head : Nat) : ∀ tw ∈ s.weighted head, 0 < tw.2 := by
  intro tw htw
  obtain ⟨t, w⟩ := tw
  obtain ⟨hm, rfl⟩ := (State.weighted_spec s head t w).mp htw
  unfold State.count
  exact List.length_pos_of_mem (List.mem_filter.mpr ⟨hm, by simp⟩)

/-- **the local invariant of the network query**, soundness side. Ghost `V`: the blocks expanded so far. -/
structure cnb_Ok (s : State) (t : T) (n : NetSt) (V : List Nat) : Prop where
  unst  : n.started = false → n.pend = none ∧ n.phase2 = none ∧ n.pageWe = [] ∧ n.pointers = [] ∧ n.graph = [] ∧ n.curList = []
  /-- the walk meets every block at most once -/
  dfs   : n.started = true → cf_NI s t (cf_netFront n) V
  /-- the stack holds blocks of the tree; the value carried to a block is 0 or the id of a node above it -/
  stack : n.started = true → cnb_StackOk s t n.stack
  pend  : ∀ b we cur c, n.pend = some (b, we, cur, c) →
            CellLe c (s.cell b) ∧ ∃ p, (p, b) ∈ t.entries s [] ∧ cnb_Carry s t p.dropLast we ∧ cnb_Carry s t p cur
  /-- every recorded (block, id): a page block, met already, the id carried by it or by a node above it -/
  pw    : ∀ bk ∈ n.pageWe, cnb_Rec s t bk ∧ bk.1 ∈ cf_netPend n ++ V
  pwnd  : (n.pageWe.map (·.1)).Nodup
  ptrs  : ∀ kh ∈ n.pointers, ∃ b, (b, kh.1) ∈ n.pageWe
  ph2   : ∀ l, n.phase2 = some l → (∀ kh ∈ l, kh ∈ n.pointers) ∧ (n.curList ≠ [] → ∃ b, (b, n.curSrc) ∈ n.pageWe)
  ph1   : n.phase2 = none → n.curList = []
  curl  : ∀ tw ∈ n.curList, 0 < tw.2
  graph : cnb_GraphOk s n.auto n.pageWe n.graph

theorem cnb_Ok.init (s : State) (t : T) (out auto : Bool) : cnb_Ok s t { out := out, auto := auto } [] :=
  ⟨fun _ => ⟨rfl, rfl, rfl, rfl, rfl, rfl⟩, fun e => (by cases e), fun e => (by cases e), fun _ _ _ _ e => (by cases e),
   fun bk hbk => by simp at hbk, by simp, fun kh hkh => by simp at hkh, fun _ e => (by cases e), fun _ => rfl,
   fun tw htw => by simp at htw, cnb_GraphOk.nil s auto⟩

/-- stability under the sections of the other generators -/
theorem cnb_Ok.mono {s s' : State} {t t' : T} {n : NetSt} {V : List Nat} (h : Shape s t) (x : Ext s t s' t')
    (le : s ⊑ s') (m : cnb_WeMono s s') (hn : cnb_Ok s t n V) : cnb_Ok s' t' n V where
  unst := hn.unst
  dfs := fun hs => (hn.dfs hs).mono h x le
  stack := fun hs => (hn.stack hs).mono h x m
  pend := fun b we cur c e => by
    obtain ⟨cl, p, hm, h1, h2⟩ := hn.pend b we cur c e
    exact ⟨cl.trans (le.cell_le b (entry_lt h hm)), p, x.keep _ _ hm, h1.mono h x m, h2.mono h x m⟩
  pw := fun bk hbk => ⟨(hn.pw bk hbk).1.mono h x le m, (hn.pw bk hbk).2⟩
  pwnd := hn.pwnd
  ptrs := hn.ptrs
  ph2 := hn.ph2
  ph1 := hn.ph1
  curl := hn.curl
  graph := hn.graph.mono (fun bk hbk hc => by
    obtain ⟨p, hm, _⟩ := (hn.pw bk hbk).1
    exact (le.cell_le _ (entry_lt h hm)).crawled hc)

theorem cnb_Ok.norm {s : State} {t : T} {n : NetSt} {V : List Nat} (h : Shape s t) (hn : cnb_Ok s t n V) :
    ∃ V', cnb_Ok s t (cnb_norm s n) V' ∧ (cnb_norm s n).started = true ∧ (cnb_norm s n).pend = none ∧
      (cnb_norm s n).phase2 = n.phase2 := by
  obtain ⟨out, auto, started, stack, pend, pageWe, pointers, phase2, curSrc, curList, graph⟩ := n
  cases started with
  | false =>
    obtain ⟨e1, e2, e3, e4, e5, e6⟩ := hn.unst rfl
    simp only at e1 e2 e3 e4 e5 e6
    subst e1 e2 e3 e4 e5 e6
    refine ⟨[], ?_, rfl, rfl, rfl⟩
    show cnb_Ok s t ⟨out, auto, true, (if s.trie.size ≤ 1 then [] else [(1, 0)]), none, [], [], none, curSrc, [], []⟩ []
    refine ⟨fun e => (by cases e), fun _ => ?_, fun _ => ?_, fun _ _ _ _ e => (by cases e),
      fun bk hbk => by simp at hbk, by simp, fun kh hkh => by simp at hkh, fun _ e => (by cases e), fun _ => rfl,
      fun tw htw => by simp at htw, cnb_GraphOk.nil s auto⟩
    · by_cases hsz : s.trie.size ≤ 1
      · have : cf_netFront ⟨out, auto, true, (if s.trie.size ≤ 1 then [] else [(1, 0)]), none, [], [], none, curSrc, [], []⟩ = [] := by
          simp [cf_netFront, cf_netPend, hsz]
        rw [this]
        exact ⟨by simp, fun x hx => by simp at hx⟩
      · have : cf_netFront ⟨out, auto, true, (if s.trie.size ≤ 1 then [] else [(1, 0)]), none, [], [], none, curSrc, [], []⟩ = [1] := by
          simp [cf_netFront, cf_netPend, hsz]
        rw [this]
        exact cf_NI.start h hsz
    · intro y hy
      show ∃ p, (p, y.1) ∈ t.entries s [] ∧ cnb_Carry s t p.dropLast y.2
      by_cases hsz : s.trie.size ≤ 1
      · simp only [hsz, if_true] at hy
        simp at hy
      · simp only [hsz, if_false, List.mem_singleton] at hy
        subst hy
        have h1 := ((cf_NI.start h hsz).clos 1 (by simp)).1
        have := (entries_addrs_perm (s := s) t []).mem_iff.mpr h1
        obtain ⟨e, he, e1⟩ := List.mem_map.mp this
        obtain ⟨p, a⟩ := e
        simp only at e1
        subst e1
        exact ⟨p, he, Or.inl rfl⟩
  | true =>
    cases pend with
    | none => exact ⟨V, hn, rfl, rfl, rfl⟩
    | some x =>
      obtain ⟨b, we, cur, c⟩ := x
      obtain ⟨cl, p, hm, hwe, hcur⟩ := hn.pend b we cur c rfl
      refine ⟨b :: V, ?_, rfl, rfl, rfl⟩
      show cnb_Ok s t ⟨out, auto, true, dfsWePush b we cur c stack, none, pageWe, pointers, phase2, curSrc, curList, graph⟩ (b :: V)
      have hdfs := hn.dfs rfl
      have hfront : cf_netFront ⟨out, auto, true, stack, some (b, we, cur, c), pageWe, pointers, phase2, curSrc, curList, graph⟩ =
          b :: stack.map (·.1) := rfl
      rw [hfront] at hdfs
      have hexp := hdfs.expand_copy h cl
      rw [← cf_dfsWePush_map b we cur c stack] at hexp
      refine ⟨fun e => (by cases e), fun _ => hexp, fun _ => (hn.stack rfl).push h cl hm hwe hcur,
        fun _ _ _ _ e => (by cases e), fun bk hbk => ⟨(hn.pw bk hbk).1, ?_⟩, hn.pwnd, hn.ptrs, hn.ph2, hn.ph1, hn.curl, hn.graph⟩
      have := (hn.pw bk hbk).2
      simpa [cf_netPend] using this

/-- one iteration of phase 1 on a normalised state -/
theorem cnb_Ok.iter1 {s : State} {t : T} {n : NetSt} {V : List Nat} (h : Shape s t) (hn : cnb_Ok s t n V)
    (hst : n.started = true) (hpe : n.pend = none) (hp2 : n.phase2 = none) :
    (∀ n', cnb_iter1 s n = .cont n' → ∃ V', cnb_Ok s t n' V') ∧
    (∀ n' o, cnb_iter1 s n = .stop n' o → o = .yielded ∧ ∃ V', cnb_Ok s t n' V') := by
  obtain ⟨out, auto, started, stack, pend, pageWe, pointers, phase2, curSrc, curList, graph⟩ := n
  simp only at hst hpe hp2
  subst hst hpe hp2
  unfold cnb_iter1
  cases stack with
  | nil =>
    simp only
    refine ⟨fun n' e => ?_, fun n' o e => by cases e⟩
    simp only [cnb_It.cont.injEq] at e
    subst e
    exact ⟨V, (fun e => by cases e), hn.dfs, hn.stack, hn.pend, hn.pw, hn.pwnd, hn.ptrs,
      (fun l e => by
        simp only [Option.some.injEq] at e
        subst e
        exact ⟨fun kh hkh => hkh, fun hne => absurd (hn.ph1 rfl) hne⟩),
      (fun e => by cases e), hn.curl, hn.graph⟩
  | cons top rest =>
    obtain ⟨b, we⟩ := top
    simp only
    obtain ⟨p, hm, hcarry⟩ := hn.stack rfl (b, we) (by simp)
    have hcur := cnb_Carry.step hm hcarry
    have hdfs := hn.dfs rfl
    have hfront : cf_netFront ⟨out, auto, true, (b, we) :: rest, none, pageWe, pointers, none, curSrc, curList, graph⟩ =
        b :: rest.map (·.1) := rfl
    rw [hfront] at hdfs
    have hbV : b ∉ V := by
      have := hdfs.nd
      rw [List.cons_append, List.nodup_cons] at this
      exact fun hv => this.1 (List.mem_append_right _ hv)
    have hpwV : ∀ bk ∈ pageWe, bk.1 ∈ V := fun bk hbk => by simpa [cf_netPend] using (hn.pw bk hbk).2
    have hrest : cnb_StackOk s t rest := fun y hy => hn.stack rfl y (List.mem_cons_of_mem _ hy)
    generalize (if (s.cell b).we ≠ 0 then (s.cell b).we else we) = cur at hcur ⊢
    by_cases hc : ((s.cell b).flags.page && decide (cur ≠ 0)) = true
    · rw [if_pos hc]
      refine ⟨fun n' e => (by cases e), fun n' o e => ?_⟩
      simp only [cnb_It.stop.injEq] at e
      obtain ⟨e1, e2⟩ := e
      subst e1 e2
      refine ⟨rfl, V, ?_⟩
      simp only [Bool.and_eq_true, decide_eq_true_eq] at hc
      have hds : dictSet pageWe b cur = pageWe ++ [(b, cur)] :=
        dictSet_append_of_fresh _ _ _ (fun e he heq => hbV (heq ▸ hpwV e he))
      have hnear : cnb_Near s t p cur := hcur.resolve_left hc.2
      rw [hds]
      refine ⟨(fun e => by cases e), fun _ => hdfs, fun _ => hrest, ?_, ?_, ?_, ?_, (fun _ e => by cases e), fun _ => hn.ph1 rfl,
        hn.curl, hn.graph.visit b cur⟩
      · intro b' we' cur' c' e
        simp only [Option.some.injEq, Prod.mk.injEq] at e
        obtain ⟨rfl, rfl, rfl, rfl⟩ := e
        exact ⟨CellLe.refl _, p, hm, hcarry, hcur⟩
      · intro bk hbk
        rcases List.mem_append.mp hbk with hbk | hbk
        · exact ⟨(hn.pw bk hbk).1, by simp [cf_netPend, hpwV bk hbk]⟩
        · simp only [List.mem_singleton] at hbk
          subst hbk
          exact ⟨⟨p, hm, hc.1, hnear⟩, by simp [cf_netPend]⟩
      · rw [List.map_append, List.nodup_append]
        refine ⟨hn.pwnd, by simp, fun a ha c hc' => ?_⟩
        simp only [List.map_cons, List.map_nil, List.mem_singleton] at hc'
        subst hc'
        obtain ⟨bk, hbk, rfl⟩ := List.mem_map.mp ha
        exact fun e => hbV (e ▸ hpwV bk hbk)
      · intro kh hkh
        have hold : ∀ kh ∈ pointers, ∃ b', (b', kh.1) ∈ pageWe ++ [(b, cur)] := fun kh hkh => by
          obtain ⟨b', hb'⟩ := hn.ptrs kh hkh
          exact ⟨b', List.mem_append_left _ hb'⟩
        simp only at hkh
        generalize (if out = true then (s.cell b).out else (s.cell b).inn) = head at hkh
        by_cases hh : head ≠ 0
        · rw [if_pos hh] at hkh
          rcases List.mem_append.mp hkh with hkh | hkh
          · exact hold kh hkh
          · simp only [List.mem_singleton] at hkh
            subst hkh
            exact ⟨b, by simp⟩
        · rw [if_neg hh] at hkh
          exact hold kh hkh
    · rw [if_neg hc]
      refine ⟨fun n' e => ?_, fun n' o e => by cases e⟩
      simp only [cnb_It.cont.injEq] at e
      subst e
      have hexp := hdfs.expand_copy h (CellLe.refl (s.cell b))
      rw [← cf_dfsWePush_map b we cur (s.cell b) rest] at hexp
      exact ⟨b :: V, (fun e => by cases e), fun _ => hexp, fun _ => hrest.push h (CellLe.refl _) hm hcarry hcur,
        (fun _ _ _ _ e => by cases e), fun bk hbk => ⟨(hn.pw bk hbk).1, by simp [cf_netPend, hpwV bk hbk]⟩,
        hn.pwnd, hn.ptrs, (fun _ e => by cases e), fun _ => hn.ph1 rfl, hn.curl, hn.graph⟩

/-- one iteration of phase 2 -/
theorem cnb_Ok.iter2 {s : State} {t : T} {n : NetSt} {V : List Nat} {ptrs : List (Nat × Nat)} (hn : cnb_Ok s t n V)
    (hp2 : n.phase2 = some ptrs) :
    (∀ n', cnb_iter2 s n ptrs = .cont n' → cnb_Ok s t n' V) ∧
    (∀ n' o, cnb_iter2 s n ptrs = .stop n' o →
      (o = .yielded ∧ cnb_Ok s t n' V) ∨ (o = .done (.net n.graph) ∧ n' = n)) := by
  obtain ⟨out, auto, started, stack, pend, pageWe, pointers, phase2, curSrc, curList, graph⟩ := n
  simp only at hp2
  subst hp2
  have hst : started = true := by
    cases started with
    | true => rfl
    | false => have := (hn.unst rfl).2.1; cases this
  subst hst
  obtain ⟨hin, hsrc⟩ := hn.ph2 ptrs rfl
  unfold cnb_iter2
  cases curList with
  | cons tw more =>
    obtain ⟨tt, w⟩ := tw
    have hskip : ∀ g, cnb_GraphOk s auto pageWe g →
        cnb_Ok s t ⟨out, auto, true, stack, pend, pageWe, pointers, some ptrs, curSrc, more, g⟩ V := fun g hg =>
      ⟨(fun e => by cases e), hn.dfs, hn.stack, hn.pend, hn.pw, hn.pwnd, hn.ptrs,
        (fun l e => by
          simp only [Option.some.injEq] at e
          subst e
          exact ⟨hin, fun _ => hsrc (by simp)⟩),
        (fun e => by cases e), fun tw htw => hn.curl tw (List.mem_cons_of_mem _ htw), hg⟩
    simp only
    cases hd : dictGet? pageWe tt with
    | none =>
      simp only
      refine ⟨fun n' e => ?_, fun n' o e => by cases e⟩
      simp only [cnb_It.cont.injEq] at e
      subst e
      exact hskip graph hn.graph
    | some tWe =>
      simp only
      by_cases hc : (!auto && decide (curSrc = tWe)) = true
      · rw [if_pos hc]
        refine ⟨fun n' e => ?_, fun n' o e => by cases e⟩
        simp only [cnb_It.cont.injEq] at e
        subst e
        exact hskip graph hn.graph
      · rw [if_neg hc]
        refine ⟨fun n' e => (by cases e), fun n' o e => ?_⟩
        simp only [cnb_It.stop.injEq] at e
        obtain ⟨e1, e2⟩ := e
        subst e1 e2
        refine Or.inl ⟨rfl, hskip _ ?_⟩
        refine hn.graph.add (hsrc (by simp)) ⟨tt, dictGet?_mem _ _ _ hd⟩ (fun ha e => hc ?_) (hn.curl (tt, w) (by simp))
        simp only at ha
        subst ha
        simp [e]
  | nil =>
    simp only
    cases ptrs with
    | nil =>
      simp only
      refine ⟨fun n' e => (by cases e), fun n' o e => ?_⟩
      simp only [cnb_It.stop.injEq] at e
      exact Or.inr ⟨e.2.symm, e.1.symm⟩
    | cons sh rest =>
      obtain ⟨src, head⟩ := sh
      simp only
      refine ⟨fun n' e => ?_, fun n' o e => by cases e⟩
      simp only [cnb_It.cont.injEq] at e
      subst e
      exact ⟨(fun e => by cases e), hn.dfs, hn.stack, hn.pend, hn.pw, hn.pwnd, hn.ptrs,
        (fun l e => by
          simp only [Option.some.injEq] at e
          subst e
          exact ⟨fun kh hkh => hin kh (List.mem_cons_of_mem _ hkh), fun _ => hn.ptrs (src, head) (hin _ (by simp))⟩),
        (fun e => by cases e), cnb_weighted_pos s head, hn.graph⟩

/-! ## 4. every schedule -/

theorem cnb_norm_flags (s : State) (n : NetSt) : (cnb_norm s n).auto = n.auto ∧ (cnb_norm s n).out = n.out := by
  obtain ⟨out, auto, started, stack, pend, pageWe, pointers, phase2, curSrc, curList, graph⟩ := n
  cases started <;> cases pend <;> exact ⟨rfl, rfl⟩

theorem cnb_iter1_flags (s : State) (n : NetSt) :
    match cnb_iter1 s n with
    | .cont n' => n'.auto = n.auto ∧ n'.out = n.out
    | .stop n' _ => n'.auto = n.auto ∧ n'.out = n.out := by
  obtain ⟨out, auto, started, stack, pend, pageWe, pointers, phase2, curSrc, curList, graph⟩ := n
  unfold cnb_iter1
  cases stack with
  | nil => exact ⟨rfl, rfl⟩
  | cons top rest =>
    obtain ⟨b, we⟩ := top
    simp only
    generalize (if (s.cell b).we ≠ 0 then (s.cell b).we else we) = cur
    by_cases hc : ((s.cell b).flags.page && decide (cur ≠ 0)) = true
    · rw [if_pos hc]; exact ⟨rfl, rfl⟩
    · rw [if_neg hc]; exact ⟨rfl, rfl⟩

theorem cnb_iter2_flags (s : State) (n : NetSt) (ptrs : List (Nat × Nat)) :
    match cnb_iter2 s n ptrs with
    | .cont n' => n'.auto = n.auto ∧ n'.out = n.out
    | .stop n' _ => n'.auto = n.auto ∧ n'.out = n.out := by
  obtain ⟨out, auto, started, stack, pend, pageWe, pointers, phase2, curSrc, curList, graph⟩ := n
  unfold cnb_iter2
  cases curList with
  | cons tw more =>
    obtain ⟨tt, w⟩ := tw
    simp only
    cases hd : dictGet? pageWe tt with
    | none => exact ⟨rfl, rfl⟩
    | some tWe =>
      simp only
      by_cases hc : (!auto && decide (curSrc = tWe)) = true
      · rw [if_pos hc]; exact ⟨rfl, rfl⟩
      · rw [if_neg hc]; exact ⟨rfl, rfl⟩
  | nil =>
    cases ptrs with
    | nil => exact ⟨rfl, rfl⟩
    | cons sh rest => obtain ⟨src, head⟩ := sh; exact ⟨rfl, rfl⟩

theorem cnb_iter_flags (s : State) (n : NetSt) :
    match cnb_iter s n with
    | .cont n' => n'.auto = n.auto ∧ n'.out = n.out
    | .stop n' _ => n'.auto = n.auto ∧ n'.out = n.out := by
  unfold cnb_iter
  cases hp : n.phase2 with
  | some ptrs => exact cnb_iter2_flags s n ptrs
  | none =>
    simp only
    have h1 := cnb_iter1_flags s (cnb_norm s n)
    have h2 := cnb_norm_flags s n
    cases hi : cnb_iter1 s (cnb_norm s n) with
    | cont n' => rw [hi] at h1; exact ⟨h1.1.trans h2.1, h1.2.trans h2.2⟩
    | stop n' o => rw [hi] at h1; exact ⟨h1.1.trans h2.1, h1.2.trans h2.2⟩

theorem cnb_netResume_flags : ∀ (fuel : Nat) (s : State) (n : NetSt),
    (netResume fuel s n).1.auto = n.auto ∧ (netResume fuel s n).1.out = n.out
  | 0, _, _ => ⟨rfl, rfl⟩
  | fuel + 1, s, n => by
    rw [cnb_netResume_succ]
    have h1 := cnb_iter_flags s n
    cases hi : cnb_iter s n with
    | cont n' =>
      rw [hi] at h1
      have h2 := cnb_netResume_flags fuel s n'
      exact ⟨h2.1.trans h1.1, h2.2.trans h1.2⟩
    | stop n' o => rw [hi] at h1; exact h1

/-- what any schedule does to the index: the facts the local invariants of the network query are stable under -/
theorem cnb_sched_facts : ∀ (sched : Sched) (σ : Sys) (t : T), Shape σ.1 t →
    ∃ t', Ext σ.1 t (σ.run sched).1.1 t' ∧ σ.1 ⊑ (σ.run sched).1.1 ∧ CoLinkStep σ.1 (σ.run sched).1.1 ∧
      cnb_WeMono σ.1 (σ.run sched).1.1
  | [], σ, t, h => ⟨t, Ext.refl h, Le.refl _, CoLinkStep.refl _, cnb_WeMono.refl _⟩
  | i :: rest, σ, t, h => by
    cases hc : σ.2[i]? with
    | none => rw [Sys.run_cons_none _ hc]; exact cnb_sched_facts rest σ t h
    | some c =>
      rw [Sys.run_cons_some _ hc]
      obtain ⟨t1, sec⟩ := resume_sec h c
      obtain ⟨t2, x2, l2, k2, m2⟩ :=
        cnb_sched_facts rest ((c.resume σ.1).1, σ.2.set i (c.resume σ.1).2.1) t1 sec.ext.shape
      exact ⟨t2, sec.ext.trans x2, sec.le.trans l2, sec.link.trans k2, (cnb_weMono_resume h c).trans m2⟩

theorem cnb_Throughout_head {Q : State → Prop} : ∀ {σ : Sys} {sched : Sched}, Throughout Q σ sched → Q σ.1
  | _, [], h => h
  | _, _ :: _, h => h.1

/-- **the induction over schedules for the network query**: a local invariant `J` that is stable under the sections
    of the other generators (which extend the tree, move the index up in the heap order, only attach webentities
    and only prepend links) and is re-established by the query's own sections, and an answer property `A` with
    the same stability that the returning section establishes; `Q` is assumed of the index at every moment -/
theorem cnb_sched_net (Q : State → Prop) (J : State → T → NetSt → Prop) (A : State → T → List NetRow → Prop)
    (hmonoJ : ∀ s t s' t' n, Shape s t → HeadsOk s → HeadsOk s' → Ext s t s' t' → s ⊑ s' → cnb_WeMono s s' →
      LinkGrow s s' → Q s → Q s' → J s t n → J s' t' n)
    (hmonoA : ∀ s t s' t' g, Shape s t → HeadsOk s → HeadsOk s' → Ext s t s' t' → s ⊑ s' → cnb_WeMono s s' →
      LinkGrow s s' → A s t g → A s' t' g)
    (hsec : ∀ s t n, Shape s t → HeadsOk s → Q s → J s t n →
      ((netResume (s.trie.size + s.links.size + n.pointers.length + 3) s n).2 = .yielded →
        J s t (netResume (s.trie.size + s.links.size + n.pointers.length + 3) s n).1) ∧
      (∀ a, (netResume (s.trie.size + s.links.size + n.pointers.length + 3) s n).2 = .done a →
        ∃ g, a = .net g ∧ A s t g)) :
    ∀ (sched : Sched) (σ : Sys) (t : T), Shape σ.1 t → HeadsOk σ.1 → ∀ (i : Nat) (n : NetSt),
      σ.2[i]? = some (.net n) → J σ.1 t n → Throughout Q σ sched →
      ∀ a, (i, CoOut.done a) ∈ (σ.run sched).2 →
      ∃ t', Ext σ.1 t (σ.run sched).1.1 t' ∧ ∃ g, a = .net g ∧ A (σ.run sched).1.1 t' g
  | [], σ, t, _, _, i, n, _, _, _, a, hm => by simp [Sys.run_nil] at hm
  | j :: rest, σ, t, h, hk, i, n, hi, hJ, hthr, a, hm => by
    obtain ⟨hnow, hthr⟩ := hthr
    cases hc : σ.2[j]? with
    | none =>
      rw [Sys.run_cons_none _ hc] at hm ⊢
      rw [Sys.step_none hc] at hthr
      exact cnb_sched_net Q J A hmonoJ hmonoA hsec rest σ t h hk i n hi hJ hthr a hm
    | some cj =>
      rw [Sys.run_cons_some _ hc] at hm ⊢
      rw [Sys.step_some hc] at hthr
      have hjlt : j < σ.2.length := (List.getElem?_eq_some_iff.mp hc).1
      by_cases hij : j = i
      · subst hij
        rw [hc] at hi
        cases hi
        have hset : (σ.2.set j ((CoSt.net n).resume σ.1).2.1)[j]? = some ((CoSt.net n).resume σ.1).2.1 :=
          List.getElem?_set_self hjlt
        obtain ⟨hy, hd⟩ := hsec σ.1 t n h hk hnow hJ
        by_cases ho : (netResume (σ.1.trie.size + σ.1.links.size + n.pointers.length + 3) σ.1 n).2 = .yielded
        · rcases List.mem_cons.mp hm with e | hm
          · simp only [Prod.mk.injEq, true_and] at e
            rw [resume_net_out, ho] at e
            cases e
          · have hset' : (σ.2.set j ((CoSt.net n).resume σ.1).2.1)[j]? =
                some (.net (netResume (σ.1.trie.size + σ.1.links.size + n.pointers.length + 3) σ.1 n).1) := by
              rw [hset, resume_net_yielded σ.1 n ho]
            exact cnb_sched_net Q J A hmonoJ hmonoA hsec rest (σ.1, σ.2.set j ((CoSt.net n).resume σ.1).2.1) t h hk j _
              hset' (hy ho) hthr a hm
        · rcases List.mem_cons.mp hm with e | hm
          · simp only [Prod.mk.injEq, true_and] at e
            rw [resume_net_out] at e
            obtain ⟨g, eg, hA⟩ := hd a e.symm
            obtain ⟨t2, x2, l2, k2, m2⟩ := cnb_sched_facts rest (σ.1, σ.2.set j ((CoSt.net n).resume σ.1).2.1) t h
            obtain ⟨hk2, g2⟩ := k2 hk
            exact ⟨t2, x2, g, eg, hmonoA _ _ _ _ g h hk hk2 x2 l2 m2 g2 hA⟩
          · have hset' : (σ.2.set j ((CoSt.net n).resume σ.1).2.1)[j]? = some .finished := by
              rw [hset, resume_net_stopped σ.1 n ho]
            have := finished_trace rest (σ.1, σ.2.set j ((CoSt.net n).resume σ.1).2.1) j hset' _ hm
            cases this
      · have hset : (σ.2.set j (cj.resume σ.1).2.1)[i]? = some (.net n) := by
          rw [List.getElem?_set_ne hij]; exact hi
        obtain ⟨t1, sec⟩ := resume_sec h cj
        obtain ⟨hk1, g1⟩ := sec.link hk
        have m1 := cnb_weMono_resume h cj
        have hq1 : Q (cj.resume σ.1).1 := cnb_Throughout_head hthr
        have hJ1 := hmonoJ _ _ _ _ n h hk hk1 sec.ext sec.le m1 g1 hnow hq1 hJ
        rcases List.mem_cons.mp hm with e | hm
        · simp only [Prod.mk.injEq] at e
          exact absurd e.1.symm hij
        · obtain ⟨t2, x2, g, eg, hA⟩ := cnb_sched_net Q J A hmonoJ hmonoA hsec rest
            ((cj.resume σ.1).1, σ.2.set j (cj.resume σ.1).2.1) t1 sec.ext.shape hk1 i n hset hJ1 hthr a hm
          exact ⟨t2, sec.ext.trans x2, g, eg, hA⟩

/-! ## 5. soundness: keys and tallies -/

theorem cnb_Ok.iter {s : State} {t : T} {n : NetSt} {V : List Nat} (h : Shape s t) (hn : cnb_Ok s t n V) :
    (∀ n', cnb_iter s n = .cont n' → ∃ V', cnb_Ok s t n' V') ∧
    (∀ n' o, cnb_iter s n = .stop n' o →
      (o = .yielded ∧ ∃ V', cnb_Ok s t n' V') ∨ (o = .done (.net n.graph) ∧ n' = n)) := by
  unfold cnb_iter
  cases hp : n.phase2 with
  | some ptrs =>
    simp only
    obtain ⟨h1, h2⟩ := hn.iter2 hp
    refine ⟨fun n' e => ⟨V, h1 n' e⟩, fun n' o e => ?_⟩
    rcases h2 n' o e with ⟨e1, e2⟩ | e1
    · exact Or.inl ⟨e1, V, e2⟩
    · exact Or.inr e1
  | none =>
    simp only
    obtain ⟨V1, hn1, e1, e2, e3⟩ := hn.norm h
    obtain ⟨h1, h2⟩ := hn1.iter1 h e1 e2 (e3.trans hp)
    exact ⟨h1, fun n' o e => Or.inl (h2 n' o e)⟩

/-- what the answer of the network query satisfies (keys, tallies): `pw` is the list of (page block, webentity id)
    the query recorded -/
def cnb_AnsOk (s : State) (t : T) (auto : Bool) (g : List NetRow) : Prop :=
  ∃ pw : List (Nat × Nat), (pw.map (·.1)).Nodup ∧ (∀ bk ∈ pw, cnb_Rec s t bk) ∧ cnb_GraphOk s auto pw g

theorem cnb_AnsOk.mono {s s' : State} {t t' : T} {auto : Bool} {g : List NetRow} (h : Shape s t) (x : Ext s t s' t')
    (le : s ⊑ s') (m : cnb_WeMono s s') (ha : cnb_AnsOk s t auto g) : cnb_AnsOk s' t' auto g := by
  obtain ⟨pw, h1, h2, h3⟩ := ha
  refine ⟨pw, h1, fun bk hbk => (h2 bk hbk).mono h x le m, h3.mono (fun bk hbk hc => ?_)⟩
  obtain ⟨p, hm, _⟩ := h2 bk hbk
  exact (le.cell_le _ (entry_lt h hm)).crawled hc

/-- one section of the network query: the invariant is re-established, a returned answer is sound -/
theorem cnb_Ok.sec {s : State} {t : T} {n : NetSt} {V : List Nat} (h : Shape s t) (hn : cnb_Ok s t n V) (fuel : Nat) :
    ((netResume fuel s n).2 = .yielded → ∃ V', cnb_Ok s t (netResume fuel s n).1 V') ∧
    (∀ a, (netResume fuel s n).2 = .done a → ∃ g, a = .net g ∧ cnb_AnsOk s t n.auto g) := by
  have := cnb_netResume_lift s (fun n' => n'.auto = n.auto ∧ ∃ V', cnb_Ok s t n' V')
    (fun n' o => (o = .yielded → ∃ V', cnb_Ok s t n' V') ∧
      (∀ a, o = .done a → ∃ g, a = .net g ∧ cnb_AnsOk s t n.auto g))
    (fun n1 n2 ⟨ha, V1, h1⟩ e => by
      have hf := cnb_iter_flags s n1
      rw [e] at hf
      exact ⟨hf.1.trans ha, (h1.iter h).1 n2 e⟩)
    (fun n1 n2 o ⟨ha, V1, h1⟩ e => by
      rcases (h1.iter h).2 n2 o e with ⟨e1, e2⟩ | ⟨e1, e2⟩
      · subst e1
        exact ⟨fun _ => e2, fun a ea => by cases ea⟩
      · subst e1 e2
        refine ⟨fun ea => (by cases ea), fun a ea => ?_⟩
        simp only [CoOut.done.injEq] at ea
        subst ea
        exact ⟨_, rfl, n2.pageWe, h1.pwnd, fun bk hbk => (h1.pw bk hbk).1, ha ▸ h1.graph⟩)
    fuel n ⟨rfl, V, hn⟩
  rcases this with hf | hP
  · exact ⟨fun e => (by rw [hf] at e; cases e), fun a e => (by rw [hf] at e; cases e)⟩
  · exact hP

theorem cnb_Throughout_true : ∀ (sched : Sched) (σ : Sys), Throughout (fun _ => True) σ sched
  | [], _ => trivial
  | _ :: rest, _ => ⟨trivial, cnb_Throughout_true rest _⟩

/-- **soundness for every schedule, in terms of a system**: from any system whose index has the shape invariant, with
    a network query in a state satisfying its local invariant at position `i` -/
theorem cnb_sched_sound (sched : Sched) (σ : Sys) (t : T) (h : Shape σ.1 t) (hk : HeadsOk σ.1) (i : Nat) (n : NetSt)
    (V : List Nat) (hi : σ.2[i]? = some (.net n)) (hn : cnb_Ok σ.1 t n V) (a : Ans)
    (hm : (i, CoOut.done a) ∈ (σ.run sched).2) :
    ∃ t', Ext σ.1 t (σ.run sched).1.1 t' ∧ ∃ g, a = .net g ∧ cnb_AnsOk (σ.run sched).1.1 t' n.auto g := by
  have hthr : Throughout (fun _ => True) σ sched := cnb_Throughout_true sched σ
  exact cnb_sched_net (fun _ => True) (fun s t n' => n'.auto = n.auto ∧ ∃ V', cnb_Ok s t n' V')
    (fun s t g => cnb_AnsOk s t n.auto g)
    (fun s t s' t' n' hs _ _ x le m _ _ _ ⟨ha, V', hJ⟩ => ⟨ha, V', hJ.mono hs x le m⟩)
    (fun s t s' t' g hs _ _ x le m _ hA => hA.mono hs x le m)
    (fun s t n' hs _ _ ⟨ha, V', hJ⟩ => by
      obtain ⟨h1, h2⟩ := hJ.sec hs (s.trie.size + s.links.size + n'.pointers.length + 3)
      exact ⟨fun ho => ⟨(cnb_netResume_flags _ s n').1.trans ha, h1 ho⟩, fun a ea => ha ▸ h2 a ea⟩)
    sched σ t h hk i n hi ⟨rfl, V, hn⟩ hthr a hm

/-! ## 6. completeness: the walk of phase 1 reaches every page that was there from the start -/

/-- the id the walk computes along a list of blocks (root side first), starting from the carried value `c`:
    the last non-zero `we` field -/
def cnb_res (s : State) (c : Nat) (l : List Nat) : Nat :=
  l.foldl (fun acc m => if (s.cell m).we ≠ 0 then (s.cell m).we else acc) c

theorem cnb_res_nil (s : State) (c : Nat) : cnb_res s c [] = c := rfl

theorem cnb_res_cons (s : State) (c m : Nat) (l : List Nat) :
    cnb_res s c (m :: l) = cnb_res s (if (s.cell m).we ≠ 0 then (s.cell m).we else c) l := rfl

theorem cnb_res_append (s : State) (c : Nat) (l₁ l₂ : List Nat) :
    cnb_res s c (l₁ ++ l₂) = cnb_res s (cnb_res s c l₁) l₂ := by
  unfold cnb_res; rw [List.foldl_append]

theorem cnb_res_zero (s : State) : ∀ (l : List Nat) (c : Nat), (∀ m ∈ l, (s.cell m).we = 0) → cnb_res s c l = c
  | [], _, _ => rfl
  | m :: l, c, h => by
    rw [cnb_res_cons, if_neg (by simp [h m (by simp)])]
    exact cnb_res_zero s l c (fun x hx => h x (List.mem_cons_of_mem _ hx))

theorem cnb_res_indep (s : State) : ∀ (l : List Nat) (c c' : Nat), (∃ m ∈ l, (s.cell m).we ≠ 0) →
    cnb_res s c l = cnb_res s c' l
  | [], _, _, h => by obtain ⟨m, hm, _⟩ := h; simp at hm
  | m :: l, c, c', h => by
    rw [cnb_res_cons, cnb_res_cons]
    by_cases hm : (s.cell m).we ≠ 0
    · rw [if_pos hm, if_pos hm]
    · rw [if_neg hm, if_neg hm]
      obtain ⟨m', hm', hne⟩ := h
      rcases List.mem_cons.mp hm' with rfl | hm'
      · exact absurd hne hm
      · exact cnb_res_indep s l c c' ⟨m', hm', hne⟩

/-- the carried value stays right when other generators attach webentities, as long as the full resolution does -/
theorem cnb_res_mono {s s' : State} {pre L : List Nat} {c X : Nat}
    (hw : ∀ m ∈ L, (s.cell m).we ≠ 0 → (s'.cell m).we = (s.cell m).we)
    (hgood : cnb_res s c L = X) (hq : cnb_res s' 0 (pre ++ L) = X) : cnb_res s' c L = X := by
  by_cases hex : ∃ m ∈ L, (s'.cell m).we ≠ 0
  · rw [cnb_res_indep s' L c (cnb_res s' 0 pre) hex, ← cnb_res_append]
    exact hq
  · have hz' : ∀ m ∈ L, (s'.cell m).we = 0 := fun m hm => by
      apply Classical.byContradiction
      intro hne
      exact hex ⟨m, hm, hne⟩
    have hz : ∀ m ∈ L, (s.cell m).we = 0 := fun m hm => by
      apply Classical.byContradiction
      intro hne
      have := hw m hm hne
      rw [hz' m hm] at this
      exact hne this.symm
    rw [cnb_res_zero s' L c hz']
    rw [cnb_res_zero s L c hz] at hgood
    exact hgood

/-- the blocks on a pointer path from a block of the tree are blocks of the tree -/
theorem cnb_hpath_entries {s : State} {t : T} (h : Shape s t) {start b' : Nat} {lru' : Bytes} {b : Nat} {cur : Bytes}
    {anc : List Nat} (hp : HPath s start b' lru' b cur anc) :
    (∃ p, (p, b') ∈ t.entries s []) → ∀ m ∈ anc ++ [b], ∃ q, (q, m) ∈ t.entries s [] := by
  induction hp with
  | here b lru =>
    rintro ⟨p, hm⟩ m hmem
    simp only [List.nil_append, List.mem_singleton] at hmem
    subst hmem
    exact ⟨p, hm⟩
  | @left b' lru' b cur anc hne hl _ ih =>
    rintro ⟨p, hm⟩
    obtain ⟨q, e, f1, _, _⟩ := entries_last_and_ptrs t [] p b' h.rep hm
    exact ih ⟨_, f1 hl⟩
  | @right b' lru' b cur anc hne hl _ ih =>
    rintro ⟨p, hm⟩
    obtain ⟨q, e, _, f2, _⟩ := entries_last_and_ptrs t [] p b' h.rep hm
    exact ih ⟨_, f2 hl⟩
  | @child b' lru' b cur anc hl _ ih =>
    rintro ⟨p, hm⟩ m hmem
    obtain ⟨q, e, _, _, f3⟩ := entries_last_and_ptrs t [] p b' h.rep hm
    rw [List.cons_append] at hmem
    rcases List.mem_cons.mp hmem with rfl | hmem
    · exact ⟨p, hm⟩
    · exact ih ⟨_, f3 hl⟩ m hmem

/-- a page the query should record: its block, the blocks at which the pointer path from the root descends to a
    child (its proper ancestors, root side first), the webentity id it resolves to -/
structure cnb_Tgt where
  x   : Nat
  anc : List Nat
  X   : Nat

/-- the page is recorded with the right id, or the walk will still come across it: an entry of the stack the next
    iteration starts from leads to it, and carries a value that resolves to the right id along the rest of the path -/
def cnb_PCov (s : State) (t : T) (n : NetSt) (g : cnb_Tgt) : Prop :=
  dictGet? n.pageWe g.x = some g.X ∨
  (n.phase2 = none ∧ (s.cell g.x).flags.page = true ∧ ∃ y ∈ (cnb_norm s n).stack, ∃ pre anc' p cur,
      g.anc = pre ++ anc' ∧ (p, y.1) ∈ t.entries s [] ∧ HPath s 0 y.1 p.dropLast.flatten g.x cur anc' ∧
      cnb_res s y.2 (anc' ++ [g.x]) = g.X)

theorem cnb_norm_stack_mono {s s' : State} {t : T} (h : Shape s t) (le : s ⊑ s') (n : NetSt) {y : Nat × Nat}
    {p : LRU} (hm : (p, y.1) ∈ t.entries s []) (hy : y ∈ (cnb_norm s n).stack) : y ∈ (cnb_norm s' n).stack := by
  obtain ⟨out, auto, started, stack, pend, pageWe, pointers, phase2, curSrc, curList, graph⟩ := n
  cases started with
  | true => exact hy
  | false =>
    have hlt := entry_lt h hm
    have hsz := le.size
    cases pend with
    | none =>
      have e : ∀ s0 : State, (cnb_norm s0 ⟨out, auto, false, stack, none, pageWe, pointers, phase2, curSrc, curList, graph⟩).stack =
          if s0.trie.size ≤ 1 then [] else [(1, 0)] := fun _ => rfl
      rw [e] at hy ⊢
      by_cases h1 : s.trie.size ≤ 1
      · rw [if_pos h1] at hy; simp at hy
      · rw [if_neg h1] at hy; rw [if_neg (by omega)]; exact hy
    | some x =>
      obtain ⟨b, we, cur, c⟩ := x
      have e : ∀ s0 : State, (cnb_norm s0 ⟨out, auto, false, stack, some (b, we, cur, c), pageWe, pointers, phase2, curSrc, curList, graph⟩).stack =
          dfsWePush b we cur c (if s0.trie.size ≤ 1 then [] else [(1, 0)]) := fun _ => rfl
      rw [e] at hy ⊢
      by_cases h1 : s.trie.size ≤ 1
      · by_cases h2 : s'.trie.size ≤ 1
        · rw [if_pos h2]; rw [if_pos h1] at hy; exact hy
        · rw [if_neg h2]; rw [if_pos h1] at hy
          rcases cnb_mem_dfsWePush hy with hy | hy | hy | hy
          · simp at hy
          · obtain ⟨rfl, hne⟩ := hy; exact cnb_dfsWePush_mem.2.1 hne
          · obtain ⟨rfl, hne⟩ := hy; exact cnb_dfsWePush_mem.2.2.1 hne
          · obtain ⟨rfl, hne⟩ := hy; exact cnb_dfsWePush_mem.2.2.2 hne
      · rw [if_neg h1] at hy; rw [if_neg (by omega)]; exact hy

theorem cnb_PCov.mono {s s' : State} {t t' : T} {n : NetSt} {g : cnb_Tgt} (h : Shape s t) (x : Ext s t s' t')
    (le : s ⊑ s') (m : cnb_WeMono s s') (hq : cnb_res s' 0 (g.anc ++ [g.x]) = g.X) (hc : cnb_PCov s t n g) :
    cnb_PCov s' t' n g := by
  rcases hc with hc | ⟨hp, hpg, y, hy, pre, anc', p, cur, e, hm, hpath, hgood⟩
  · exact Or.inl hc
  · have hent := cnb_hpath_entries h hpath ⟨p, hm⟩
    obtain ⟨qx, hqx⟩ := hent g.x (by simp)
    refine Or.inr ⟨hp, (le.cell_le _ (entry_lt h hqx)).page hpg, y, cnb_norm_stack_mono h le n hm hy, pre, anc', p, cur, e,
      x.keep _ _ hm, hpath.mono h x le ⟨p, hm, rfl⟩, ?_⟩
    refine cnb_res_mono (pre := pre) (fun b hb hne => ?_) hgood (by rw [← List.append_assoc, ← e]; exact hq)
    obtain ⟨q, hq'⟩ := hent b hb
    exact m.cell h x hq' hne

/-- one iteration of phase 1 (on a normalised state): a page that is covered stays covered -/
theorem cnb_PCov.iter1 {s : State} {t : T} {n : NetSt} {V : List Nat} {g : cnb_Tgt} (h : Shape s t)
    (hn : cnb_Ok s t n V) (hst : n.started = true) (hpe : n.pend = none) (hp2 : n.phase2 = none) (hX : g.X ≠ 0)
    (hc : cnb_PCov s t n g) :
    (∀ n', cnb_iter1 s n = .cont n' → cnb_PCov s t n' g) ∧
    (∀ n' o, cnb_iter1 s n = .stop n' o → cnb_PCov s t n' g) := by
  obtain ⟨out, auto, started, stack, pend, pageWe, pointers, phase2, curSrc, curList, graph⟩ := n
  obtain ⟨gx, ganc, gX⟩ := g
  simp only at hst hpe hp2 hX
  subst hst hpe hp2
  unfold cnb_iter1
  cases stack with
  | nil =>
    simp only
    refine ⟨fun n' e => ?_, fun n' o e => by cases e⟩
    simp only [cnb_It.cont.injEq] at e
    subst e
    rcases hc with hc | ⟨_, _, y, hy, _⟩
    · exact Or.inl hc
    · exact absurd hy (by simp [cnb_norm])
  | cons top rest =>
    obtain ⟨m, c⟩ := top
    simp only
    generalize hcd : (if (s.cell m).we ≠ 0 then (s.cell m).we else c) = cur
    have hdfs := hn.dfs rfl
    have hfront : cf_netFront ⟨out, auto, true, (m, c) :: rest, none, pageWe, pointers, none, curSrc, curList, graph⟩ =
        m :: rest.map (·.1) := rfl
    rw [hfront] at hdfs
    have hbV : m ∉ V := by
      have := hdfs.nd
      rw [List.cons_append, List.nodup_cons] at this
      exact fun hv => this.1 (List.mem_append_right _ hv)
    have hpwV : ∀ bk ∈ pageWe, bk.1 ∈ V := fun bk hbk => by simpa [cf_netPend] using (hn.pw bk hbk).2
    obtain ⟨m1, m2, m3, m4⟩ := @cnb_dfsWePush_mem m c cur (s.cell m) rest
    have hpush : dictGet? pageWe gx = some gX ∨ (m = gx ∧ cur = gX ∧ (s.cell gx).flags.page = true) ∨
        ((s.cell gx).flags.page = true ∧ ∃ y ∈ dfsWePush m c cur (s.cell m) rest, ∃ pre anc' p cu,
          ganc = pre ++ anc' ∧ (p, y.1) ∈ t.entries s [] ∧ HPath s 0 y.1 p.dropLast.flatten gx cu anc' ∧
          cnb_res s y.2 (anc' ++ [gx]) = gX) := by
      rcases hc with hc | ⟨_, hpg, y, hy, pre, anc', p, cu, e, hm, hpath, hgood⟩
      · exact Or.inl hc
      · have hy' : y ∈ (m, c) :: rest := hy
        rcases List.mem_cons.mp hy' with rfl | hy'
        · simp only at hm hpath hgood
          obtain ⟨q, eq, f1, f2, f3⟩ := entries_last_and_ptrs t [] p m h.rep hm
          have hq : p.dropLast = q := by rw [eq, List.dropLast_concat]
          cases hpath with
          | here =>
            refine Or.inr (Or.inl ⟨rfl, ?_, hpg⟩)
            rw [List.nil_append, cnb_res_cons, cnb_res_nil, hcd] at hgood
            exact hgood
          | left hne hl hrest =>
            refine Or.inr (Or.inr ⟨hpg, _, m3 hl, pre, anc', _, cu, e, f1 hl, ?_, hgood⟩)
            rw [List.dropLast_concat, ← hq]; exact hrest
          | right hne hl hrest =>
            refine Or.inr (Or.inr ⟨hpg, _, m2 hl, pre, anc', _, cu, e, f2 hl, ?_, hgood⟩)
            rw [List.dropLast_concat, ← hq]; exact hrest
          | @child _ _ _ _ anc'' hl hrest =>
            refine Or.inr (Or.inr ⟨hpg, _, m4 hl, pre ++ [m], anc'', _, cu, (by have e' : ganc = pre ++ m :: anc'' := e; rw [e']; simp), f3 hl, ?_, ?_⟩)
            · rw [List.dropLast_concat]
              have : p.flatten = p.dropLast.flatten ++ s.stemAt m := by rw [hq, eq]; simp
              rw [this]; exact hrest
            · rw [List.cons_append, cnb_res_cons, hcd] at hgood
              exact hgood
        · exact Or.inr (Or.inr ⟨hpg, y, m1 y hy', pre, anc', p, cu, e, hm, hpath, hgood⟩)
    by_cases hc' : ((s.cell m).flags.page && decide (cur ≠ 0)) = true
    · rw [if_pos hc']
      refine ⟨fun n' e => (by cases e), fun n' o e => ?_⟩
      simp only [cnb_It.stop.injEq] at e
      obtain ⟨e1, e2⟩ := e
      subst e1 e2
      rcases hpush with hp | ⟨rfl, rfl, hpg⟩ | ⟨hpg, y, hy, rest'⟩
      · refine Or.inl ?_
        show dictGet? (dictSet pageWe m cur) gx = some gX
        have hne : gx ≠ m := fun e => hbV (e ▸ hpwV _ (dictGet?_mem _ _ _ hp))
        rw [Co.dictGet?_dictSet_ne _ _ _ _ hne]; exact hp
      · exact Or.inl (Co.dictGet?_dictSet_self _ _ _)
      · exact Or.inr ⟨rfl, hpg, y, hy, rest'⟩
    · rw [if_neg hc']
      refine ⟨fun n' e => ?_, fun n' o e => by cases e⟩
      simp only [cnb_It.cont.injEq] at e
      subst e
      rcases hpush with hp | ⟨rfl, rfl, hpg⟩ | ⟨hpg, y, hy, rest'⟩
      · exact Or.inl hp
      · exfalso
        apply hc'
        simp only [Bool.and_eq_true, decide_eq_true_eq]
        exact ⟨hpg, hX⟩
      · exact Or.inr ⟨rfl, hpg, y, hy, rest'⟩

/-- the normalisation of a phase-1 state does not change what is covered -/
theorem cnb_PCov.norm {s : State} {t : T} {n : NetSt} {g : cnb_Tgt} (hc : cnb_PCov s t n g) (hp2 : n.phase2 = none) :
    cnb_PCov s t (cnb_norm s n) g := by
  obtain ⟨out, auto, started, stack, pend, pageWe, pointers, phase2, curSrc, curList, graph⟩ := n
  rcases hc with hc | ⟨hp, hpg, y, hy, rest⟩
  · exact Or.inl (by cases started <;> cases pend <;> exact hc)
  · refine Or.inr ⟨by cases started <;> cases pend <;> exact hp, hpg, y, ?_, rest⟩
    cases started <;> cases pend <;> exact hy

/-! ## 7. completeness: a link between two covered pages is counted -/

theorem cnb_count_append (x : Nat) (l₁ l₂ : List Nat) : count x (l₁ ++ l₂) = count x l₁ + count x l₂ := by
  unfold State.count; rw [List.filter_append, List.length_append]

theorem cnb_listOf_head (s : State) (out : Bool) (a : Nat) :
    cf_listOf s out a = s.walk0 (if out then (s.cell a).out else (s.cell a).inn) := by cases out <;> rfl

/-- a link the query should count: source page, target page, its multiplicity when the query is created -/
structure cnb_Link where
  src : cnb_Tgt
  tgt : cnb_Tgt
  w   : Nat

/-- where the link is on its way into the answer -/
def cnb_LCov (s : State) (t : T) (n : NetSt) (L : cnb_Link) : Prop :=
  (n.phase2 = none ∧ cnb_PCov s t n L.src ∧ cnb_PCov s t n L.tgt ∧ L.w ≤ count L.tgt.x (cf_listOf s n.out L.src.x) ∧
     (dictGet? n.pageWe L.src.x = some L.src.X →
        ∃ h, (L.src.X, h) ∈ n.pointers ∧ h < s.links.size ∧ L.w ≤ count L.tgt.x (s.walk h))) ∨
  (∃ ptrs, n.phase2 = some ptrs ∧ dictGet? n.pageWe L.src.x = some L.src.X ∧ dictGet? n.pageWe L.tgt.x = some L.tgt.X ∧
     ((∃ h, (L.src.X, h) ∈ ptrs ∧ h < s.links.size ∧ L.w ≤ count L.tgt.x (s.walk h)) ∨
      (n.curSrc = L.src.X ∧ ∃ w', L.w ≤ w' ∧ (L.tgt.x, w') ∈ n.curList) ∨
      L.w ≤ netW n.graph L.src.X L.tgt.X))

theorem cnb_LCov.mono {s s' : State} {t t' : T} {n : NetSt} {L : cnb_Link} (h : Shape s t) (x : Ext s t s' t')
    (le : s ⊑ s') (m : cnb_WeMono s s') (hk : HeadsOk s) (hk' : HeadsOk s') (hg : LinkGrow s s')
    (hq1 : cnb_res s' 0 (L.src.anc ++ [L.src.x]) = L.src.X) (hq2 : cnb_res s' 0 (L.tgt.anc ++ [L.tgt.x]) = L.tgt.X)
    (hc : cnb_LCov s t n L) : cnb_LCov s' t' n L := by
  have hwalk : ∀ hd, hd < s.links.size → hd < s'.links.size ∧ s'.walk hd = s.walk hd := fun hd hlt =>
    ⟨Nat.lt_of_lt_of_le hlt le.lsize, cf_walk_le le hk.1 hk'.1 _ hd (Nat.lt_succ_self _) hlt⟩
  rcases hc with ⟨hp, c1, c2, hw, hptr⟩ | ⟨ptrs, hp, r1, r2, hst⟩
  · refine Or.inl ⟨hp, c1.mono h x le m hq1, c2.mono h x le m hq2, ?_, fun hr => ?_⟩
    · obtain ⟨⟨n1, e1⟩, ⟨n2, e2⟩⟩ := hg L.src.x
      refine Nat.le_trans hw ?_
      cases ho : n.out with
      | true =>
        simp only [cf_listOf, if_true]
        rw [e1, cnb_count_append]; omega
      | false =>
        simp only [cf_listOf, Bool.false_eq_true, if_false]
        rw [e2, cnb_count_append]; omega
    · obtain ⟨hd, h1, h2, h3⟩ := hptr hr
      obtain ⟨g1, g2⟩ := hwalk hd h2
      exact ⟨hd, h1, g1, by rw [g2]; exact h3⟩
  · refine Or.inr ⟨ptrs, hp, r1, r2, ?_⟩
    rcases hst with ⟨hd, h1, h2, h3⟩ | hst | hst
    · obtain ⟨g1, g2⟩ := hwalk hd h2
      exact Or.inl ⟨hd, h1, g1, by rw [g2]; exact h3⟩
    · exact Or.inr (Or.inl hst)
    · exact Or.inr (Or.inr hst)

theorem cnb_LCov.norm {s : State} {t : T} {n : NetSt} {L : cnb_Link} (hc : cnb_LCov s t n L) (hp2 : n.phase2 = none) :
    cnb_LCov s t (cnb_norm s n) L := by
  rcases hc with ⟨hp, c1, c2, hw, hptr⟩ | ⟨ptrs, hp, _⟩
  · have e : (cnb_norm s n).pageWe = n.pageWe ∧ (cnb_norm s n).pointers = n.pointers ∧ (cnb_norm s n).out = n.out ∧
        (cnb_norm s n).phase2 = n.phase2 := by
      obtain ⟨out, auto, started, stack, pend, pageWe, pointers, phase2, curSrc, curList, graph⟩ := n
      cases started <;> cases pend <;> exact ⟨rfl, rfl, rfl, rfl⟩
    refine Or.inl ⟨e.2.2.2.trans hp, c1.norm hp, c2.norm hp, by rw [e.2.2.1]; exact hw, ?_⟩
    rw [e.1, e.2.1]; exact hptr
  · rw [hp2] at hp; cases hp

/-- one iteration of phase 1 (on a normalised state): the link stays on its way -/
theorem cnb_LCov.iter1 {s : State} {t : T} {n : NetSt} {V : List Nat} {L : cnb_Link} (h : Shape s t) (hk : HeadsOk s)
    (hn : cnb_Ok s t n V) (hst : n.started = true) (hpe : n.pend = none) (hp2 : n.phase2 = none)
    (hA : L.src.X ≠ 0) (hB : L.tgt.X ≠ 0) (hw0 : 0 < L.w) (hc : cnb_LCov s t n L) :
    (∀ n', cnb_iter1 s n = .cont n' → cnb_LCov s t n' L) ∧
    (∀ n' o, cnb_iter1 s n = .stop n' o → cnb_LCov s t n' L) := by
  have hc1 : n.phase2 = none ∧ cnb_PCov s t n L.src ∧ cnb_PCov s t n L.tgt ∧
      L.w ≤ count L.tgt.x (cf_listOf s n.out L.src.x) ∧
      (dictGet? n.pageWe L.src.x = some L.src.X →
        ∃ h, (L.src.X, h) ∈ n.pointers ∧ h < s.links.size ∧ L.w ≤ count L.tgt.x (s.walk h)) := by
    rcases hc with h1 | ⟨ptrs, hp, _⟩
    · exact h1
    · rw [hp2] at hp; cases hp
  obtain ⟨_, c1, c2, hw, hptr⟩ := hc1
  obtain ⟨a1, a2⟩ := c1.iter1 h hn hst hpe hp2 hA
  obtain ⟨b1, b2⟩ := c2.iter1 h hn hst hpe hp2 hB
  obtain ⟨out, auto, started, stack, pend, pageWe, pointers, phase2, curSrc, curList, graph⟩ := n
  simp only at hst hpe hp2 hw hptr
  subst hst hpe hp2
  unfold cnb_iter1 at a1 a2 b1 b2 ⊢
  cases stack with
  | nil =>
    simp only at a1 b1 ⊢
    refine ⟨fun n' e => ?_, fun n' o e => by cases e⟩
    have r1 := a1 n' e
    have r2 := b1 n' e
    simp only [cnb_It.cont.injEq] at e
    subst e
    have r1' : dictGet? pageWe L.src.x = some L.src.X := by
      rcases r1 with r1 | ⟨hp, _⟩
      · exact r1
      · cases hp
    have r2' : dictGet? pageWe L.tgt.x = some L.tgt.X := by
      rcases r2 with r2 | ⟨hp, _⟩
      · exact r2
      · cases hp
    exact Or.inr ⟨pointers, rfl, r1', r2', Or.inl (hptr r1')⟩
  | cons top rest =>
    obtain ⟨m, c⟩ := top
    simp only at a1 a2 b1 b2 ⊢
    generalize hcd : (if (s.cell m).we ≠ 0 then (s.cell m).we else c) = cur at a1 a2 b1 b2 ⊢
    by_cases hc' : ((s.cell m).flags.page && decide (cur ≠ 0)) = true
    · rw [if_pos hc'] at a2 b2 ⊢
      refine ⟨fun n' e => (by cases e), fun n' o e => ?_⟩
      have r1 := a2 n' o e
      have r2 := b2 n' o e
      simp only [cnb_It.stop.injEq] at e
      obtain ⟨e1, e2⟩ := e
      subst e1 e2
      refine Or.inl ⟨rfl, r1, r2, hw, fun hrec => ?_⟩
      simp only at hrec ⊢
      generalize hhd : (if out = true then (s.cell m).out else (s.cell m).inn) = head
      by_cases hma : L.src.x = m
      · rw [hma, Co.dictGet?_dictSet_self] at hrec
        simp only [Option.some.injEq] at hrec
        rw [hma, cnb_listOf_head, hhd] at hw
        have hne : head ≠ 0 := by
          intro e0
          rw [e0] at hw
          simp [State.walk0] at hw
          omega
        refine ⟨head, ?_, ?_, ?_⟩
        · rw [if_pos hne, ← hrec]; simp
        · rw [← hhd]; cases out
          · exact (hk.2 m).2
          · exact (hk.2 m).1
        · simpa [State.walk0, hne] using hw
      · rw [Co.dictGet?_dictSet_ne _ _ _ _ hma] at hrec
        obtain ⟨hd, h1, h2, h3⟩ := hptr hrec
        refine ⟨hd, ?_, h2, h3⟩
        split
        · exact List.mem_append_left _ h1
        · exact h1
    · rw [if_neg hc'] at a1 b1 ⊢
      refine ⟨fun n' e => ?_, fun n' o e => by cases e⟩
      have r1 := a1 n' e
      have r2 := b1 n' e
      simp only [cnb_It.cont.injEq] at e
      subst e
      exact Or.inl ⟨rfl, r1, r2, hw, hptr⟩

theorem cnb_netW_add (g : List NetRow) (A' tWe w0 A B : Nat) :
    netW (netTouch g A' (fun r => { r with targets := counterAdd r.targets tWe w0 })) A B =
      netW g A B + (if A' = A then (if tWe = B then w0 else 0) else 0) := by
  unfold netW
  exact netSum_netTouch (fun r => ctr r.targets B) (fun r => { r with targets := counterAdd r.targets tWe w0 })
    (if tWe = B then w0 else 0) (fun _ => rfl) (fun _ => rfl)
    (fun r => ctr_counterAdd r.targets tWe w0 B) g A' A

/-- one iteration of phase 2: the link stays on its way, and is in the answer when the query returns -/
theorem cnb_LCov.iter2 {s : State} {t : T} {n : NetSt} {L : cnb_Link} {ptrs : List (Nat × Nat)}
    (hp2 : n.phase2 = some ptrs) (hauto : n.auto = true ∨ L.src.X ≠ L.tgt.X) (hw0 : 0 < L.w) (hc : cnb_LCov s t n L) :
    (∀ n', cnb_iter2 s n ptrs = .cont n' → cnb_LCov s t n' L) ∧
    (∀ n' o, cnb_iter2 s n ptrs = .stop n' o →
      (o = .yielded ∧ cnb_LCov s t n' L) ∨ (o = .done (.net n.graph) ∧ L.w ≤ netW n.graph L.src.X L.tgt.X)) := by
  have hc2 : dictGet? n.pageWe L.src.x = some L.src.X ∧ dictGet? n.pageWe L.tgt.x = some L.tgt.X ∧
     ((∃ h, (L.src.X, h) ∈ ptrs ∧ h < s.links.size ∧ L.w ≤ count L.tgt.x (s.walk h)) ∨
      (n.curSrc = L.src.X ∧ ∃ w', L.w ≤ w' ∧ (L.tgt.x, w') ∈ n.curList) ∨
      L.w ≤ netW n.graph L.src.X L.tgt.X) := by
    rcases hc with ⟨hp, _⟩ | ⟨ptrs', hp, r⟩
    · rw [hp2] at hp; cases hp
    · rw [hp2] at hp
      simp only [Option.some.injEq] at hp
      subst hp
      exact r
  obtain ⟨r1, r2, hstage⟩ := hc2
  obtain ⟨out, auto, started, stack, pend, pageWe, pointers, phase2, curSrc, curList, graph⟩ := n
  obtain ⟨⟨a, ancA, A⟩, ⟨b, ancB, B⟩, w⟩ := L
  simp only at hp2 hauto hw0 r1 r2 hstage
  subst hp2
  unfold cnb_iter2
  cases curList with
  | cons tw more =>
    obtain ⟨tt, w0⟩ := tw
    simp only
    -- skipping the entry keeps the link on its way unless it is the link's own entry
    have hskip : ∀ g, (w ≤ netW graph A B → w ≤ netW g A B) → ¬ (curSrc = A ∧ tt = b) →
        cnb_LCov s t ⟨out, auto, started, stack, pend, pageWe, pointers, some ptrs, curSrc, more, g⟩
          ⟨⟨a, ancA, A⟩, ⟨b, ancB, B⟩, w⟩ := by
      intro g hg hno
      refine Or.inr ⟨ptrs, rfl, r1, r2, ?_⟩
      rcases hstage with h1 | ⟨h1, w', h2, h3⟩ | h1
      · exact Or.inl h1
      · rcases List.mem_cons.mp h3 with e | h3
        · simp only [Prod.mk.injEq] at e
          exact absurd ⟨h1, e.1.symm⟩ hno
        · exact Or.inr (Or.inl ⟨h1, w', h2, h3⟩)
      · exact Or.inr (Or.inr (hg h1))
    cases hd : dictGet? pageWe tt with
    | none =>
      simp only
      refine ⟨fun n' e => ?_, fun n' o e => by cases e⟩
      simp only [cnb_It.cont.injEq] at e
      subst e
      refine hskip graph id (fun hh => ?_)
      rw [hh.2, r2] at hd
      cases hd
    | some tWe =>
      simp only
      by_cases hc' : (!auto && decide (curSrc = tWe)) = true
      · rw [if_pos hc']
        refine ⟨fun n' e => ?_, fun n' o e => by cases e⟩
        simp only [cnb_It.cont.injEq] at e
        subst e
        refine hskip graph id (fun hh => ?_)
        rw [hh.2, r2] at hd
        simp only [Option.some.injEq] at hd
        simp only [Bool.and_eq_true, Bool.not_eq_true', decide_eq_true_eq] at hc'
        rcases hauto with ha | ha
        · rw [ha] at hc'; exact absurd hc'.1 (by simp)
        · exact ha (hh.1.symm.trans (hc'.2.trans hd.symm))
      · rw [if_neg hc']
        refine ⟨fun n' e => (by cases e), fun n' o e => ?_⟩
        simp only [cnb_It.stop.injEq] at e
        obtain ⟨e1, e2⟩ := e
        subst e1 e2
        refine Or.inl ⟨rfl, ?_⟩
        by_cases hh : curSrc = A ∧ tt = b
        · obtain ⟨rfl, rfl⟩ := hh
          rw [r2] at hd
          simp only [Option.some.injEq] at hd
          subst hd
          have hgrow : netW (netTouch graph curSrc (fun r => { r with targets := counterAdd r.targets B w0 })) curSrc B =
              netW graph curSrc B + w0 := by
            rw [cnb_netW_add, if_pos rfl, if_pos rfl]
          refine Or.inr ⟨ptrs, rfl, r1, r2, ?_⟩
          show _ ∨ _ ∨ w ≤ netW (netTouch graph curSrc (fun r => { r with targets := counterAdd r.targets B w0 })) curSrc B
          rw [hgrow]
          rcases hstage with h1 | ⟨_, w', h2, h3⟩ | h1
          · exact Or.inl h1
          · rcases List.mem_cons.mp h3 with e | h3
            · simp only [Prod.mk.injEq] at e
              have := e.2
              exact Or.inr (Or.inr (by omega))
            · exact Or.inr (Or.inl ⟨rfl, w', h2, h3⟩)
          · exact Or.inr (Or.inr (by omega))
        · exact hskip _ (fun h1 => by rw [cnb_netW_add]; omega) hh
  | nil =>
    simp only
    cases ptrs with
    | nil =>
      simp only
      refine ⟨fun n' e => (by cases e), fun n' o e => ?_⟩
      simp only [cnb_It.stop.injEq] at e
      refine Or.inr ⟨e.2.symm, ?_⟩
      rcases hstage with ⟨hd', h1, _⟩ | ⟨_, w', _, h3⟩ | h1
      · simp at h1
      · simp at h3
      · exact h1
    | cons sh rest =>
      obtain ⟨src, head⟩ := sh
      simp only
      refine ⟨fun n' e => ?_, fun n' o e => by cases e⟩
      simp only [cnb_It.cont.injEq] at e
      subst e
      refine Or.inr ⟨rest, rfl, r1, r2, ?_⟩
      rcases hstage with ⟨hd', h1, h2, h3⟩ | ⟨_, w', _, h3⟩ | h1
      · rcases List.mem_cons.mp h1 with e | h1
        · simp only [Prod.mk.injEq] at e
          obtain ⟨rfl, rfl⟩ := e
          refine Or.inr (Or.inl ⟨rfl, count b (s.walk hd'), h3, ?_⟩)
          rw [State.weighted_spec]
          refine ⟨?_, rfl⟩
          have hpos : 0 < count b (s.walk hd') := by omega
          unfold State.count at hpos
          obtain ⟨x, hx⟩ := List.exists_mem_of_length_pos hpos
          have := List.mem_filter.mp hx
          simp only [decide_eq_true_eq] at this
          exact this.2 ▸ this.1
        · exact Or.inl ⟨hd', h1, h2, h3⟩
      · simp at h3
      · exact Or.inr (Or.inr h1)

/-! ## 8. completeness for every schedule -/

/-- one iteration, both invariants together -/
theorem cnb_LCov.iter {s : State} {t : T} {n : NetSt} {V : List Nat} {L : cnb_Link} (h : Shape s t) (hk : HeadsOk s)
    (hn : cnb_Ok s t n V) (hA : L.src.X ≠ 0) (hB : L.tgt.X ≠ 0) (hw0 : 0 < L.w)
    (hauto : n.auto = true ∨ L.src.X ≠ L.tgt.X) (hc : cnb_LCov s t n L) :
    (∀ n', cnb_iter s n = .cont n' → cnb_LCov s t n' L) ∧
    (∀ n' o, cnb_iter s n = .stop n' o →
      (o = .yielded ∧ cnb_LCov s t n' L) ∨ (o = .done (.net n.graph) ∧ L.w ≤ netW n.graph L.src.X L.tgt.X)) := by
  unfold cnb_iter
  cases hp : n.phase2 with
  | some ptrs =>
    simp only
    exact hc.iter2 hp hauto hw0
  | none =>
    simp only
    obtain ⟨V1, hn1, e1, e2, e3⟩ := hn.norm h
    obtain ⟨h1, h2⟩ := (hc.norm hp).iter1 h hk hn1 e1 e2 (e3.trans hp) hA hB hw0
    exact ⟨h1, fun n' o e => Or.inl ⟨((hn1.iter1 h e1 e2 (e3.trans hp)).2 n' o e).1, h2 n' o e⟩⟩

/-- one section of the network query, completeness side -/
theorem cnb_LCov.sec {s : State} {t : T} {n : NetSt} {V : List Nat} {L : cnb_Link} (h : Shape s t) (hk : HeadsOk s)
    (hn : cnb_Ok s t n V) (hA : L.src.X ≠ 0) (hB : L.tgt.X ≠ 0) (hw0 : 0 < L.w)
    (hauto : n.auto = true ∨ L.src.X ≠ L.tgt.X) (hc : cnb_LCov s t n L) (fuel : Nat) :
    ((netResume fuel s n).2 = .yielded → cnb_LCov s t (netResume fuel s n).1 L) ∧
    (∀ g, (netResume fuel s n).2 = .done (.net g) → L.w ≤ netW g L.src.X L.tgt.X) := by
  have := cnb_netResume_lift s (fun n' => n'.auto = n.auto ∧ (∃ V', cnb_Ok s t n' V') ∧ cnb_LCov s t n' L)
    (fun n' o => (o = .yielded → cnb_LCov s t n' L) ∧ (∀ g, o = .done (.net g) → L.w ≤ netW g L.src.X L.tgt.X))
    (fun n1 n2 ⟨ha, ⟨V1, h1⟩, c1⟩ e => by
      have hf := cnb_iter_flags s n1
      rw [e] at hf
      exact ⟨hf.1.trans ha, (h1.iter h).1 n2 e, (c1.iter h hk h1 hA hB hw0 (ha ▸ hauto)).1 n2 e⟩)
    (fun n1 n2 o ⟨ha, ⟨V1, h1⟩, c1⟩ e => by
      rcases (c1.iter h hk h1 hA hB hw0 (ha ▸ hauto)).2 n2 o e with ⟨e1, e2⟩ | ⟨e1, e2⟩
      · subst e1
        exact ⟨fun _ => e2, fun g eg => (by cases eg)⟩
      · subst e1
        refine ⟨fun ea => (by cases ea), fun g eg => ?_⟩
        simp only [CoOut.done.injEq, Ans.net.injEq] at eg
        subst eg
        exact e2)
    fuel n ⟨rfl, ⟨V, hn⟩, hc⟩
  rcases this with hf | hP
  · exact ⟨fun e => (by rw [hf] at e; cases e), fun a e => (by rw [hf] at e; cases e)⟩
  · exact hP

/-- **completeness for every schedule, in terms of a system and of pointer paths**: a link that is on its way into
    the answer, between two pages whose resolutions along their paths stay the same at every moment, is in the answer -/
theorem cnb_sched_complete (sched : Sched) (σ : Sys) (t : T) (h : Shape σ.1 t) (hk : HeadsOk σ.1) (i : Nat) (n : NetSt)
    (V : List Nat) (hi : σ.2[i]? = some (.net n)) (hn : cnb_Ok σ.1 t n V) (L : cnb_Link)
    (hA : L.src.X ≠ 0) (hB : L.tgt.X ≠ 0) (hw0 : 0 < L.w) (hauto : n.auto = true ∨ L.src.X ≠ L.tgt.X)
    (hc : cnb_LCov σ.1 t n L)
    (hthr : Throughout (fun s' => cnb_res s' 0 (L.src.anc ++ [L.src.x]) = L.src.X ∧
      cnb_res s' 0 (L.tgt.anc ++ [L.tgt.x]) = L.tgt.X) σ sched)
    (a : Ans) (hm : (i, CoOut.done a) ∈ (σ.run sched).2) :
    ∃ t', Ext σ.1 t (σ.run sched).1.1 t' ∧ ∃ g, a = .net g ∧ cnb_AnsOk (σ.run sched).1.1 t' n.auto g ∧
      L.w ≤ netW g L.src.X L.tgt.X :=
  cnb_sched_net (fun s' => cnb_res s' 0 (L.src.anc ++ [L.src.x]) = L.src.X ∧
      cnb_res s' 0 (L.tgt.anc ++ [L.tgt.x]) = L.tgt.X)
    (fun s t n' => n'.auto = n.auto ∧ (∃ V', cnb_Ok s t n' V') ∧ cnb_LCov s t n' L)
    (fun s t g => cnb_AnsOk s t n.auto g ∧ L.w ≤ netW g L.src.X L.tgt.X)
    (fun s t s' t' n' hs hk1 hk2 x le m hg _ hq' ⟨ha, ⟨V', hJ⟩, hc'⟩ =>
      ⟨ha, ⟨V', hJ.mono hs x le m⟩, hc'.mono hs x le m hk1 hk2 hg hq'.1 hq'.2⟩)
    (fun s t s' t' g hs _ _ x le m _ hA' => ⟨hA'.1.mono hs x le m, hA'.2⟩)
    (fun s t n' hs hk1 _ ⟨ha, ⟨V', hJ⟩, hc'⟩ => by
      obtain ⟨h1, h2⟩ := hJ.sec hs (s.trie.size + s.links.size + n'.pointers.length + 3)
      obtain ⟨h3, h4⟩ := hc'.sec hs hk1 hJ hA hB hw0 (ha ▸ hauto) (s.trie.size + s.links.size + n'.pointers.length + 3)
      refine ⟨fun ho => ⟨(cnb_netResume_flags _ s n').1.trans ha, h1 ho, h3 ho⟩, fun a ea => ?_⟩
      obtain ⟨g, eg, hg⟩ := h2 a ea
      subst eg
      exact ⟨g, rfl, ha ▸ hg, h4 g ea⟩)
    sched σ t h hk i n hi ⟨rfl, ⟨V, hn⟩, hc⟩ hthr a hm

/-! ## 9. from the finite map to pointer paths from the root -/

theorem cnb_zero_not_mem {s : State} : ∀ {u : T}, Rep s u → 0 ∉ u.addrs
  | .nil, _ => by simp [T.addrs]
  | .node a l c r, hr => by
    obtain ⟨ha, _, rl, rc, rr⟩ := hr
    simp only [T.addrs, List.mem_cons, List.mem_append, not_or]
    exact ⟨fun e => ha e.symm, ⟨cnb_zero_not_mem rl, cnb_zero_not_mem rc⟩, cnb_zero_not_mem rr⟩

/-- `hpath_below` with the ancestors named exactly: the `k`-th one is the block of the first `k+1` stems -/
theorem cnb_hpath_below {s : State} {start : Nat} : ∀ (p : LRU) (u : T) (pre : LRU) (b : Nat), Rep s u →
    u.addrs.Nodup → start ∉ u.addrs → (pre ++ p, b) ∈ u.entries s pre →
    ∃ anc, HPath s start u.root pre.flatten b (pre ++ p).flatten anc ∧ anc.length + 1 = p.length ∧
      ∀ k (hk : k < anc.length), (pre ++ p.take (k + 1), anc[k]) ∈ u.entries s pre
  | [], u, pre, b, _, _, _, h => by
    obtain ⟨x, rest, e⟩ := entries_prefix _ _ _ _ h
    have := congrArg List.length e
    simp at this
  | y :: p', u, pre, b, hr, hnd, hns, h => by
    obtain ⟨a, ha, hcase⟩ := entries_head_sib hnd h
    have hsibs : ∀ x ∈ u.sibs, x ≠ start := fun x hx e => hns (e ▸ T.sibs_subset_addrs u x hx)
    rcases hcase with ⟨e, rfl⟩ | ⟨x, rest, e, hch⟩
    · refine ⟨[], hpath_sib u hr hsibs b ha ?_, by rw [e]; rfl, fun k hk => by simp at hk⟩
      have : (pre ++ y :: p').flatten = pre.flatten ++ s.stemAt b := by rw [e]; simp
      rw [this]; exact HPath.here b _
    · obtain ⟨hrc, cell, hcell, hch'⟩ := Rep.childAt u a hr ha
      have hcellA : s.cell a = cell := by simp [State.cell, hcell]
      simp only [List.cons.injEq] at e
      obtain ⟨rfl, rfl⟩ := e
      obtain ⟨anc, hp, hlen, hanc⟩ := cnb_hpath_below (x :: rest) (u.childAt a) (pre ++ [s.stemAt a]) b hrc
        (T.childAt_nodup u a hnd ha) (fun hx => hns (T.childAt_addrs u a _ hx)) hch
      have hne : (s.cell a).child ≠ 0 := by
        rw [hcellA, hch']; exact Rep.root_ne_zero hrc (co_entries_ne_nil hch)
      have hp' : HPath s start (s.cell a).child (pre.flatten ++ s.stemAt a) b
          (pre ++ s.stemAt a :: x :: rest).flatten anc := by
        rw [hcellA, hch']
        have e1 : (pre ++ [s.stemAt a]).flatten = pre.flatten ++ s.stemAt a := by simp
        have e2 : pre ++ [s.stemAt a] ++ x :: rest = pre ++ s.stemAt a :: x :: rest := by simp
        rw [e1, e2] at hp
        exact hp
      refine ⟨a :: anc, hpath_sib u hr hsibs a ha (HPath.child hne hp'), by simp at hlen ⊢; omega, ?_⟩
      intro k hk
      cases k with
      | zero => simpa using co_sib_entry u pre hnd ha
      | succ k =>
        have hk' : k < anc.length := by simp at hk; omega
        have := T.childAt_entries (s := s) u pre a ha (hanc k hk')
        simpa [List.take_succ_cons] using this

theorem cnb_root_mem_sibs : ∀ {u : T} {x : Nat}, x ∈ u.addrs → u.root ∈ u.sibs
  | .nil, _, h => by simp [T.addrs] at h
  | .node a l c r, _, _ => by simp [T.sibs]

/-- every entry of the tree is reached from block 1 by a pointer path whose ancestors are the blocks of its proper
    stem-prefixes, in order -/
theorem cnb_hpath_root {s : State} {t : T} (h : Shape s t) {p : LRU} {x : Nat} (hx : (p, x) ∈ t.entries s []) :
    ∃ anc cur p1, (p1, 1) ∈ t.entries s [] ∧ HPath s 0 1 p1.dropLast.flatten x cur anc ∧
      anc.length + 1 = p.length ∧ ∀ k (hk : k < anc.length), (p.take (k + 1), anc[k]) ∈ t.entries s [] := by
  have hxa := entries_addr_mem t [] p x hx
  obtain ⟨hroot, _⟩ := cf_root_one h hxa
  obtain ⟨anc, hp, hlen, hanc⟩ := cnb_hpath_below (start := 0) p t [] x h.rep h.nodup (cnb_zero_not_mem h.rep)
    (by simpa using hx)
  have hent := co_sib_entry (s := s) t [] h.nodup (cnb_root_mem_sibs hxa)
  rw [hroot] at hent hp
  refine ⟨anc, ([] ++ p).flatten, [s.stemAt 1], by simpa using hent, ?_, hlen, fun k hk => by simpa using hanc k hk⟩
  simpa using hp

theorem cnb_entries_fun {s : State} {t : T} (h : Shape s t) {p : LRU} {b b' : Nat} (h1 : (p, b) ∈ t.entries s [])
    (h2 : (p, b') ∈ t.entries s []) : b = b' := by
  have hne := entry_ne_nil h1
  have e1 := (lruNode_iff_entries h p hne b).mpr h1
  have e2 := (lruNode_iff_entries h p hne b').mpr h2
  rw [e1] at e2
  exact Option.some.inj e2

/-- the blocks of the stem-prefixes of a path (root side first; the block of the path itself is the last one) -/
def cnb_NodesOf (s : State) (t : T) (p : LRU) (nodes : List Nat) : Prop :=
  nodes.length = p.length ∧ ∀ k (hk : k < nodes.length), (p.take (k + 1), nodes[k]) ∈ t.entries s []

theorem cnb_nodes_eq {s : State} {t : T} (h : Shape s t) {p : LRU} {x : Nat} (hx : (p, x) ∈ t.entries s [])
    {nodes anc : List Nat} (hn : cnb_NodesOf s t p nodes) (hlen : anc.length + 1 = p.length)
    (hanc : ∀ k (hk : k < anc.length), (p.take (k + 1), anc[k]) ∈ t.entries s []) : nodes = anc ++ [x] := by
  obtain ⟨h1, h2⟩ := hn
  apply List.ext_getElem
  · simp; omega
  · intro k hk1 hk2
    by_cases hk : k < anc.length
    · rw [List.getElem_append_left hk]
      exact cnb_entries_fun h (h2 k hk1) (hanc k hk)
    · have hke : k = anc.length := by simp at hk2; omega
      subst hke
      rw [List.getElem_append_right (Nat.le_refl _)]
      simp only [Nat.sub_self, List.getElem_cons_zero]
      have := h2 anc.length hk1
      rw [hlen, List.take_length] at this
      exact cnb_entries_fun h this hx

/-! ## 10. the two bounds -/

/-- the page at block `x` with path `p` is covered by a query that has not started -/
theorem cnb_PCov.init {s : State} {t : T} (h : Shape s t) (out auto : Bool) {p : LRU} {x X : Nat} {nodes : List Nat}
    (hx : (p, x) ∈ t.entries s []) (hpg : (s.cell x).flags.page = true) (hn : cnb_NodesOf s t p nodes)
    (hres : cnb_res s 0 nodes = X) :
    ∃ anc, nodes = anc ++ [x] ∧ cnb_PCov s t { out := out, auto := auto } ⟨x, anc, X⟩ := by
  obtain ⟨anc, cur, p1, h1, hpath, hlen, hanc⟩ := cnb_hpath_root h hx
  have e := cnb_nodes_eq h hx hn hlen hanc
  refine ⟨anc, e, Or.inr ⟨rfl, hpg, (1, 0), ?_, [], anc, p1, cur, rfl, h1, hpath, by rw [← e]; exact hres⟩⟩
  have hlt := entry_lt h h1
  show (1, 0) ∈ (if s.trie.size ≤ 1 then [] else [(1, 0)])
  rw [if_neg (by omega)]; simp

/-- **C16, network query, completeness (S-side facts included)**: for EVERY schedule, from every index with the shape
    invariant and list heads in range (both true of every reachable index and kept by every schedule), whatever the
    other generators are and do: let page blocks `a` (path `pa`) and `b` (path `pb`) exist when the query
    `get_webentities_links_iter(out, auto)` is created, with `b` occurring `w > 0` times in the out-list (`out = true`;
    in-list for `out = false`) of `a` at that time. If at EVERY moment of the execution the last non-zero `we` field
    along the blocks of the stem-prefixes of `pa` is `A` and along those of `pb` is `B` (`A, B ≠ 0`; `A ≠ B` unless
    `auto`) — i.e. the nearest-webentity resolutions of the two pages never change — then the answer has a row `A`
    with an entry `B` of weight at least `w`. -/
theorem C16_net_query_complete {s : State} {t : T} (hs : Shape s t) (hk : HeadsOk s) (reqs : List CoReq) (sched : Sched)
    (i : Nat) (out auto : Bool) (hreq : reqs[i]? = some (.queryNet out auto))
    (pa pb : LRU) (a b A B : Nat) (nodesA nodesB : List Nat)
    (ha : (pa, a) ∈ t.entries s []) (hb : (pb, b) ∈ t.entries s [])
    (hpa : (s.cell a).flags.page = true) (hpb : (s.cell b).flags.page = true)
    (hnA : cnb_NodesOf s t pa nodesA) (hnB : cnb_NodesOf s t pb nodesB)
    (hA : A ≠ 0) (hB : B ≠ 0) (hauto : auto = true ∨ A ≠ B)
    (hlink : 0 < count b (cf_listOf s out a))
    (hthr : Throughout (fun s' => cnb_res s' 0 nodesA = A ∧ cnb_res s' 0 nodesB = B) (s, reqs.map CoReq.init) sched)
    (g : List NetRow) (hdone : (i, CoOut.done (.net g)) ∈ (Sys.run (s, reqs.map CoReq.init) sched).2) :
    ∃ r ∈ g, r.src = A ∧ ∃ w', (B, w') ∈ r.targets ∧ count b (cf_listOf s out a) ≤ w' := by
  have hget : (s, reqs.map CoReq.init).2[i]? = some (CoSt.net { out := out, auto := auto }) := by
    simp only [List.getElem?_map, hreq, Option.map_some]; rfl
  have hq0 := cnb_Throughout_head hthr
  obtain ⟨ancA, eA, cA⟩ := cnb_PCov.init hs out auto ha hpa hnA hq0.1
  obtain ⟨ancB, eB, cB⟩ := cnb_PCov.init hs out auto hb hpb hnB hq0.2
  subst eA eB
  have hc : cnb_LCov s t { out := out, auto := auto } ⟨⟨a, ancA, A⟩, ⟨b, ancB, B⟩, count b (cf_listOf s out a)⟩ :=
    Or.inl ⟨rfl, cA, cB, Nat.le_refl _, fun e => by simp [dictGet?] at e⟩
  obtain ⟨t', x, g', eg, hans, hw⟩ := cnb_sched_complete sched (s, reqs.map CoReq.init) t hs hk i _ []
    hget (cnb_Ok.init s t out auto) ⟨⟨a, ancA, A⟩, ⟨b, ancB, B⟩, count b (cf_listOf s out a)⟩ hA hB hlink hauto hc hthr
    _ hdone
  simp only [Ans.net.injEq] at eg
  subst eg
  obtain ⟨pw, _, _, hg⟩ := hans
  simp only at hw
  obtain ⟨r, hr, hsrc, hmem⟩ := hg.ok.mem_of_weight_pos (Nat.lt_of_lt_of_le hlink hw)
  exact ⟨r, hr, hsrc, _, hmem, hw⟩

/-- **C16, network query, soundness (keys and tallies)**: for EVERY schedule, from every index with the shape invariant
    and list heads in range, whatever the other generators are and do: if the query returns `g`, there is a duplicate-free
    list `pw` of (block, id) — the pages the query recorded — such that in the FINAL index every recorded block is a
    page block of the tree and its id is a non-zero `we` field of the block of some stem-prefix of its path
    (`cnb_Rec`); `g` has one row per source id, one entry per target id, positive weights (`NetOk`); every row key
    and every target key is a recorded id; self-links only if `auto`; every recorded id has its row; the tallies of a
    row add up to the number of recorded pages of its id, and the pages it counts as crawled are crawled. -/
theorem C16_net_query_sound_keys {s : State} {t : T} (hs : Shape s t) (hk : HeadsOk s) (reqs : List CoReq) (sched : Sched)
    (i : Nat) (out auto : Bool) (hreq : reqs[i]? = some (.queryNet out auto)) (a : Ans)
    (hdone : (i, CoOut.done a) ∈ (Sys.run (s, reqs.map CoReq.init) sched).2) :
    ∃ t', Shape (Sys.run (s, reqs.map CoReq.init) sched).1.1 t' ∧
      (∀ p b, (p, b) ∈ t.entries s [] → (p, b) ∈ t'.entries (Sys.run (s, reqs.map CoReq.init) sched).1.1 []) ∧
      ∃ g, a = .net g ∧ cnb_AnsOk (Sys.run (s, reqs.map CoReq.init) sched).1.1 t' auto g := by
  have hget : (s, reqs.map CoReq.init).2[i]? = some (CoSt.net { out := out, auto := auto }) := by
    simp only [List.getElem?_map, hreq, Option.map_some]; rfl
  obtain ⟨t', x, g, eg, hans⟩ := cnb_sched_sound sched (s, reqs.map CoReq.init) t hs hk i _ [] hget
    (cnb_Ok.init s t out auto) a hdone
  exact ⟨t', x.shape, x.keep, g, eg, hans⟩

/-! ## 11. soundness of the weights: every weight is backed by links of the final index between recorded pages -/

/-- the target is a recorded page of id `B` -/
def cnb_P (pw : List (Nat × Nat)) (B : Nat) : Nat → Bool := fun t => decide (dictGet? pw t = some B)

/-- the tallies of phase 1 do not touch the weights -/
theorem cnb_netW_tally (g : List NetRow) (cur A B : Nat) (f : NetRow → NetRow) (hsrc : ∀ r, (f r).src = r.src)
    (htg : ∀ r, (f r).targets = r.targets) : netW (netTouch g cur f) A B = netW g A B := by
  unfold netW
  rw [netSum_netTouch (fun r => ctr r.targets B) f 0 hsrc (fun _ => rfl) (fun r => by simp only [htg]; rfl)]
  simp

theorem cnb_weighted_le {s s' : State} (le : s ⊑ s') (hk : HeadsOk s) (hk' : HeadsOk s') {hd : Nat}
    (hlt : hd < s.links.size) : s'.weighted hd = s.weighted hd := by
  unfold State.weighted
  rw [cf_walk_le le hk.1 hk'.1 _ hd (Nat.lt_succ_self _) hlt]

/-- what the opened pointers with source id `A` contribute at most to the weight towards id `B` -/
def cnb_opened (s : State) (pw : List (Nat × Nat)) (dn : List cf_Ptr) (A B : Nat) : Nat :=
  ((dn.filter (fun x => decide (x.2.1 = A))).map (fun x => wsumP (cnb_P pw B) (s.weighted x.2.2))).sum

theorem cnb_opened_append (s : State) (pw : List (Nat × Nat)) (dn : List cf_Ptr) (x : cf_Ptr) (A B : Nat) :
    cnb_opened s pw (dn ++ [x]) A B =
      cnb_opened s pw dn A B + (if x.2.1 = A then wsumP (cnb_P pw B) (s.weighted x.2.2) else 0) := by
  unfold cnb_opened
  rw [List.filter_append, List.map_append, List.sum_append]
  by_cases h : x.2.1 = A
  · rw [List.filter_cons_of_pos (by simpa using h), if_pos h]; simp
  · rw [List.filter_cons_of_neg (by simpa using h), if_neg h]; simp

/-- **the local invariant of the network query, weights.** Ghosts: `dn` the pointers opened so far, `rem` those
    still to open, each with the block it was read from -/
structure cnb_WOk (s : State) (n : NetSt) (dn rem : List cf_Ptr) : Prop where
  ownd : ((dn ++ rem).map (·.1)).Nodup
  owns : ∀ x ∈ dn ++ rem, cf_Owns s n.out x.1 x.2.2 ∧ (x.1, x.2.1) ∈ n.pageWe
  ph1  : n.phase2 = none → rem.map (·.2) = n.pointers ∧ dn = [] ∧ ∀ A B, netW n.graph A B = 0
  ph2  : ∀ ptrs, n.phase2 = some ptrs → rem.map (·.2) = ptrs ∧
           ∀ A B, netW n.graph A B + (if n.curSrc = A then wsumP (cnb_P n.pageWe B) n.curList else 0) ≤
             cnb_opened s n.pageWe dn A B

theorem cnb_WOk.init (s : State) (out auto : Bool) : cnb_WOk s { out := out, auto := auto } [] [] :=
  ⟨by simp, fun x hx => by simp at hx, fun _ => ⟨rfl, rfl, fun A B => rfl⟩, fun _ e => by cases e⟩

theorem cnb_WOk.mono {s s' : State} {n : NetSt} {dn rem : List cf_Ptr} (le : s ⊑ s') (hk : HeadsOk s) (hk' : HeadsOk s')
    (hg : LinkGrow s s') (hw : cnb_WOk s n dn rem) : cnb_WOk s' n dn rem where
  ownd := hw.ownd
  owns := fun x hx => ⟨(hw.owns x hx).1.mono le hk hk' hg, (hw.owns x hx).2⟩
  ph1 := hw.ph1
  ph2 := fun ptrs hp => by
    obtain ⟨h1, h2⟩ := hw.ph2 ptrs hp
    refine ⟨h1, fun A B => ?_⟩
    have : cnb_opened s' n.pageWe dn A B = cnb_opened s n.pageWe dn A B := by
      unfold cnb_opened
      congr 1
      apply List.map_congr_left
      intro x hx
      rw [cnb_weighted_le le hk hk' (hw.owns x (List.mem_append_left _ (List.mem_filter.mp hx).1)).1.hlt]
    rw [this]; exact h2 A B

theorem cnb_WOk.norm {s : State} {n : NetSt} {dn rem : List cf_Ptr} (hw : cnb_WOk s n dn rem) :
    cnb_WOk s (cnb_norm s n) dn rem := by
  obtain ⟨out, auto, started, stack, pend, pageWe, pointers, phase2, curSrc, curList, graph⟩ := n
  cases started <;> cases pend <;> exact ⟨hw.ownd, hw.owns, hw.ph1, hw.ph2⟩

/-- one iteration of phase 1 (on a normalised state) -/
theorem cnb_WOk.iter1 {s : State} {t : T} {n : NetSt} {V : List Nat} {dn rem : List cf_Ptr} (h : Shape s t)
    (hk : HeadsOk s) (hn : cnb_Ok s t n V) (hw : cnb_WOk s n dn rem) (hst : n.started = true) (hpe : n.pend = none)
    (hp2 : n.phase2 = none) :
    (∀ n', cnb_iter1 s n = .cont n' → ∃ dn' rem', cnb_WOk s n' dn' rem') ∧
    (∀ n' o, cnb_iter1 s n = .stop n' o → ∃ dn' rem', cnb_WOk s n' dn' rem') := by
  obtain ⟨out, auto, started, stack, pend, pageWe, pointers, phase2, curSrc, curList, graph⟩ := n
  simp only at hst hpe hp2
  subst hst hpe hp2
  obtain ⟨hrem, hdn, hzero⟩ := hw.ph1 rfl
  simp only at hrem hzero
  subst hdn
  have hcl : curList = [] := hn.ph1 rfl
  subst hcl
  unfold cnb_iter1
  cases stack with
  | nil =>
    simp only
    refine ⟨fun n' e => ?_, fun n' o e => by cases e⟩
    simp only [cnb_It.cont.injEq] at e
    subst e
    refine ⟨[], rem, hw.ownd, hw.owns, (fun e => by cases e), fun ptrs e => ?_⟩
    simp only [Option.some.injEq] at e
    subst e
    refine ⟨hrem, fun A B => ?_⟩
    show netW graph A B + (if curSrc = A then wsumP (cnb_P pageWe B) [] else 0) ≤ _
    rw [hzero]
    simp [wsumP, cnb_opened]
  | cons top rest =>
    obtain ⟨b, we⟩ := top
    simp only
    obtain ⟨p, hm, _⟩ := hn.stack rfl (b, we) (by simp)
    have hdfs := hn.dfs rfl
    have hfront : cf_netFront ⟨out, auto, true, (b, we) :: rest, none, pageWe, pointers, none, curSrc, [], graph⟩ =
        b :: rest.map (·.1) := rfl
    rw [hfront] at hdfs
    have hbV : b ∉ V := by
      have := hdfs.nd
      rw [List.cons_append, List.nodup_cons] at this
      exact fun hv => this.1 (List.mem_append_right _ hv)
    have hpwV : ∀ bk ∈ pageWe, bk.1 ∈ V := fun bk hbk => by simpa [cf_netPend] using (hn.pw bk hbk).2
    generalize (if (s.cell b).we ≠ 0 then (s.cell b).we else we) = cur
    by_cases hc : ((s.cell b).flags.page && decide (cur ≠ 0)) = true
    · rw [if_pos hc]
      refine ⟨fun n' e => (by cases e), fun n' o e => ?_⟩
      simp only [cnb_It.stop.injEq] at e
      obtain ⟨e1, e2⟩ := e
      subst e1 e2
      have hds : dictSet pageWe b cur = pageWe ++ [(b, cur)] :=
        dictSet_append_of_fresh _ _ _ (fun e he heq => hbV (heq ▸ hpwV e he))
      rw [hds]
      have hzero' : ∀ A B, netW (netTouch graph cur (fun r => if (s.cell b).flags.crawled then { r with crawled := r.crawled + 1 }
          else { r with uncrawled := r.uncrawled + 1 })) A B = 0 := fun A B => by
        rw [cnb_netW_tally _ _ _ _ _ (fun r => by split <;> rfl) (fun r => by split <;> rfl)]
        exact hzero A B
      have hold : ∀ x ∈ ([] : List cf_Ptr) ++ rem, cf_Owns s out x.1 x.2.2 ∧ (x.1, x.2.1) ∈ pageWe ++ [(b, cur)] :=
        fun x hx => ⟨(hw.owns x hx).1, List.mem_append_left _ (hw.owns x hx).2⟩
      generalize hhd : (if out = true then (s.cell b).out else (s.cell b).inn) = head
      by_cases hne : head ≠ 0
      · simp only [if_pos hne]
        refine ⟨[], rem ++ [(b, cur, head)], ?_, ?_, fun _ => ⟨?_, rfl, hzero'⟩, (fun _ e => by cases e)⟩
        · have := hw.ownd
          simp only [List.nil_append, List.map_append, List.map_cons, List.map_nil] at this ⊢
          rw [List.nodup_append]
          refine ⟨this, by simp, fun a ha c hc' => ?_⟩
          simp only [List.mem_singleton] at hc'
          subst hc'
          obtain ⟨x, hx, rfl⟩ := List.mem_map.mp ha
          exact fun e => hbV (e ▸ hpwV _ (hw.owns x (by simpa using hx)).2)
        · intro x hx
          simp only [List.nil_append, List.mem_append, List.mem_singleton] at hx
          rcases hx with hx | rfl
          · exact hold x (by simpa using hx)
          · refine ⟨?_, by simp⟩
            have := cf_Owns.fresh h hk out (entries_addr_mem t [] p b hm) (by rw [hhd]; exact hne)
            rw [hhd] at this
            exact this
        · simp only [List.map_append, List.map_cons, List.map_nil]
          rw [hrem]
      · simp only [if_neg hne]
        exact ⟨[], rem, hw.ownd, hold, fun _ => ⟨hrem, rfl, hzero'⟩, (fun _ e => by cases e)⟩
    · rw [if_neg hc]
      refine ⟨fun n' e => ?_, fun n' o e => by cases e⟩
      simp only [cnb_It.cont.injEq] at e
      subst e
      exact ⟨[], rem, hw.ownd, hw.owns, fun _ => ⟨hrem, rfl, hzero⟩, (fun _ e => by cases e)⟩

theorem cnb_wsumP_nil (P : Nat → Bool) : wsumP P [] = 0 := rfl

/-- one iteration of phase 2 -/
theorem cnb_WOk.iter2 {s : State} {n : NetSt} {dn rem : List cf_Ptr} {ptrs : List (Nat × Nat)} (hw : cnb_WOk s n dn rem)
    (hp2 : n.phase2 = some ptrs) :
    (∀ n', cnb_iter2 s n ptrs = .cont n' → ∃ dn' rem', cnb_WOk s n' dn' rem') ∧
    (∀ n' o, cnb_iter2 s n ptrs = .stop n' o →
      (o = .yielded ∧ ∃ dn' rem', cnb_WOk s n' dn' rem') ∨
      (o = .done (.net n.graph) ∧ n' = n ∧ ∀ A B, netW n.graph A B ≤ cnb_opened s n.pageWe dn A B)) := by
  obtain ⟨out, auto, started, stack, pend, pageWe, pointers, phase2, curSrc, curList, graph⟩ := n
  simp only at hp2
  subst hp2
  obtain ⟨hrem, hwt⟩ := hw.ph2 ptrs rfl
  simp only at hwt
  unfold cnb_iter2
  cases curList with
  | cons tw more =>
    obtain ⟨tt, w0⟩ := tw
    simp only
    have hstep : ∀ g, (∀ A B, netW g A B + (if curSrc = A then wsumP (cnb_P pageWe B) more else 0) ≤
          netW graph A B + (if curSrc = A then wsumP (cnb_P pageWe B) ((tt, w0) :: more) else 0)) →
        cnb_WOk s ⟨out, auto, started, stack, pend, pageWe, pointers, some ptrs, curSrc, more, g⟩ dn rem := fun g hg =>
      ⟨hw.ownd, hw.owns, (fun e => by cases e), fun ptrs' e => by
        simp only [Option.some.injEq] at e
        subst e
        exact ⟨hrem, fun A B => Nat.le_trans (hg A B) (hwt A B)⟩⟩
    cases hd : dictGet? pageWe tt with
    | none =>
      simp only
      refine ⟨fun n' e => ?_, fun n' o e => by cases e⟩
      simp only [cnb_It.cont.injEq] at e
      subst e
      refine ⟨dn, rem, hstep graph (fun A B => ?_)⟩
      rw [wsumP_cons]
      split <;> omega
    | some tWe =>
      simp only
      by_cases hc : (!auto && decide (curSrc = tWe)) = true
      · rw [if_pos hc]
        refine ⟨fun n' e => ?_, fun n' o e => by cases e⟩
        simp only [cnb_It.cont.injEq] at e
        subst e
        refine ⟨dn, rem, hstep graph (fun A B => ?_)⟩
        rw [wsumP_cons]
        split <;> omega
      · rw [if_neg hc]
        refine ⟨fun n' e => (by cases e), fun n' o e => ?_⟩
        simp only [cnb_It.stop.injEq] at e
        obtain ⟨e1, e2⟩ := e
        subst e1 e2
        refine Or.inl ⟨rfl, dn, rem, hstep _ (fun A B => ?_)⟩
        rw [cnb_netW_add, wsumP_cons]
        have hP : (cnb_P pageWe B tt = true) ↔ tWe = B := by
          unfold cnb_P
          rw [hd]
          simp
        by_cases hA : curSrc = A
        · simp only [hA, if_true]
          by_cases hB : tWe = B
          · rw [if_pos hB, if_pos (hP.mpr hB)]; omega
          · rw [if_neg hB, if_neg (fun h' => hB (hP.mp h'))]; omega
        · simp only [hA, if_false]; omega
  | nil =>
    simp only
    cases ptrs with
    | nil =>
      simp only
      refine ⟨fun n' e => (by cases e), fun n' o e => ?_⟩
      simp only [cnb_It.stop.injEq] at e
      refine Or.inr ⟨e.2.symm, e.1.symm, fun A B => ?_⟩
      have := hwt A B
      rw [cnb_wsumP_nil] at this
      simp only [ite_self, Nat.add_zero] at this
      exact this
    | cons sh rest =>
      obtain ⟨src, head⟩ := sh
      simp only
      refine ⟨fun n' e => ?_, fun n' o e => by cases e⟩
      simp only [cnb_It.cont.injEq] at e
      subst e
      cases rem with
      | nil => simp at hrem
      | cons x rem' =>
        simp only [List.map_cons, List.cons.injEq] at hrem
        obtain ⟨hx, hrem'⟩ := hrem
        have hx1 : x.2.1 = src := by rw [hx]
        have hx2 : x.2.2 = head := by rw [hx]
        refine ⟨dn ++ [x], rem', ?_, ?_, (fun e => by cases e), fun ptrs' e => ?_⟩
        · have := hw.ownd
          simpa [List.append_assoc] using this
        · intro y hy
          exact hw.owns y (by simpa [List.append_assoc] using hy)
        · simp only [Option.some.injEq] at e
          subst e
          refine ⟨hrem', fun A B => ?_⟩
          show netW graph A B + (if src = A then wsumP (cnb_P pageWe B) (s.weighted head) else 0) ≤
            cnb_opened s pageWe (dn ++ [x]) A B
          rw [cnb_opened_append, hx1, hx2]
          have := hwt A B
          rw [cnb_wsumP_nil] at this
          simp only [ite_self, Nat.add_zero] at this
          omega

theorem cnb_sum_erase (F : Nat → Nat) : ∀ (l : List Nat) (a : Nat), a ∈ l →
    (l.map F).sum = F a + ((l.erase a).map F).sum
  | [], _, h => by simp at h
  | x :: l, a, h => by
    by_cases hx : x = a
    · subst hx; simp
    · have ha : a ∈ l := by
        rcases List.mem_cons.mp h with e | e
        · exact absurd e.symm hx
        · exact e
      rw [List.erase_cons_tail (by simpa using hx)]
      simp only [List.map_cons, List.sum_cons]
      rw [cnb_sum_erase F l a ha]; omega

/-- a sum over distinct elements of a list is at most the sum over the list -/
theorem cnb_sum_sub (F : Nat → Nat) : ∀ (l₁ l₂ : List Nat), l₁.Nodup → (∀ a ∈ l₁, a ∈ l₂) →
    (l₁.map F).sum ≤ (l₂.map F).sum
  | [], _, _, _ => by simp
  | a :: l₁, l₂, hnd, hsub => by
    rw [List.nodup_cons] at hnd
    have ha := hsub a (by simp)
    rw [cnb_sum_erase F l₂ a ha]
    have ih := cnb_sum_sub F l₁ (l₂.erase a) hnd.2 (fun b hb => by
      have hne : b ≠ a := fun e => hnd.1 (e ▸ hb)
      exact (List.mem_erase_of_ne hne).mpr (hsub b (List.mem_cons_of_mem _ hb)))
    simp only [List.map_cons, List.sum_cons]
    omega

/-- the links (with multiplicity) from recorded pages of id `A` to recorded pages of id `B`: over the out-lists
    (`out = true`; in-lists otherwise) of the recorded blocks of id `A`, the entries that are recorded blocks of id `B` -/
def cnb_linkW (s : State) (out : Bool) (pw : List (Nat × Nat)) (A B : Nat) : Nat :=
  ((pw.filter (fun x => decide (x.2 = A))).map (fun x => ((cf_listOf s out x.1).filter (cnb_P pw B)).length)).sum

theorem cnb_linkW_mono {s s' : State} (hg : LinkGrow s s') (out : Bool) (pw : List (Nat × Nat)) (A B : Nat) :
    cnb_linkW s out pw A B ≤ cnb_linkW s' out pw A B := by
  unfold cnb_linkW
  generalize pw.filter (fun x => decide (x.2 = A)) = l
  induction l with
  | nil => simp
  | cons x l ih =>
    simp only [List.map_cons, List.sum_cons]
    have : ((cf_listOf s out x.1).filter (cnb_P pw B)).length ≤ ((cf_listOf s' out x.1).filter (cnb_P pw B)).length := by
      obtain ⟨⟨n1, e1⟩, ⟨n2, e2⟩⟩ := hg x.1
      cases out with
      | true =>
        simp only [cf_listOf, if_true]
        rw [e1, List.filter_append, List.length_append]; omega
      | false =>
        simp only [cf_listOf, Bool.false_eq_true, if_false]
        rw [e2, List.filter_append, List.length_append]; omega
    omega

/-- what the opened pointers contribute is backed by links of the present index between recorded pages -/
theorem cnb_WOk.bound {s : State} {n : NetSt} {dn rem : List cf_Ptr} (hw : cnb_WOk s n dn rem) (A B : Nat) :
    cnb_opened s n.pageWe dn A B ≤ cnb_linkW s n.out n.pageWe A B := by
  let F : Nat → Nat := fun o => ((cf_listOf s n.out o).filter (cnb_P n.pageWe B)).length
  have h1 : cnb_opened s n.pageWe dn A B ≤ (((dn.filter (fun x => decide (x.2.1 = A))).map (·.1)).map F).sum := by
    unfold cnb_opened
    rw [List.map_map]
    have hall : ∀ x ∈ dn.filter (fun x => decide (x.2.1 = A)),
        wsumP (cnb_P n.pageWe B) (s.weighted x.2.2) ≤ (F ∘ (·.1)) x := by
      intro x hx
      have hx' := (List.mem_filter.mp hx).1
      obtain ⟨new, e⟩ := (hw.owns x (List.mem_append_left _ hx')).1.suf
      rw [wsumP_weighted]
      show _ ≤ ((cf_listOf s n.out x.1).filter (cnb_P n.pageWe B)).length
      rw [e, List.filter_append, List.length_append]; omega
    generalize dn.filter (fun x => decide (x.2.1 = A)) = l at hall
    induction l with
    | nil => simp
    | cons y l ih =>
      simp only [List.map_cons, List.sum_cons]
      have := hall y (by simp)
      have := ih (fun x hx => hall x (List.mem_cons_of_mem _ hx))
      omega
  refine Nat.le_trans h1 ?_
  have h2 := cnb_sum_sub F ((dn.filter (fun x => decide (x.2.1 = A))).map (·.1))
    ((n.pageWe.filter (fun x => decide (x.2 = A))).map (·.1)) ?_ ?_
  · unfold cnb_linkW
    have e : (((n.pageWe.filter (fun x => decide (x.2 = A))).map (·.1)).map F) =
        (n.pageWe.filter (fun x => decide (x.2 = A))).map
          (fun x => ((cf_listOf s n.out x.1).filter (cnb_P n.pageWe B)).length) := by
      rw [List.map_map]; rfl
    rw [e] at h2
    exact h2
  · have hnd : (dn.map (·.1)).Nodup := by
      have := hw.ownd
      rw [List.map_append] at this
      exact (List.nodup_append.mp this).1
    exact hnd.sublist (List.Sublist.map _ List.filter_sublist)
  · intro a ha
    obtain ⟨x, hx, rfl⟩ := List.mem_map.mp ha
    obtain ⟨hx1, hx2⟩ := List.mem_filter.mp hx
    simp only [decide_eq_true_eq] at hx2
    have := (hw.owns x (List.mem_append_left _ hx1)).2
    rw [hx2] at this
    exact List.mem_map.mpr ⟨(x.1, A), List.mem_filter.mpr ⟨this, by simp⟩, rfl⟩

/-- **what the answer of the network query satisfies**: `pw` is the list of (page block, webentity id) the query
    recorded; keys, tallies, and every weight backed by links between recorded pages -/
def cnb_AnsFull (s : State) (t : T) (out auto : Bool) (g : List NetRow) : Prop :=
  ∃ pw : List (Nat × Nat), (pw.map (·.1)).Nodup ∧ (∀ bk ∈ pw, cnb_Rec s t bk) ∧ cnb_GraphOk s auto pw g ∧
    ∀ A B, netW g A B ≤ cnb_linkW s out pw A B

theorem cnb_AnsFull.mono {s s' : State} {t t' : T} {out auto : Bool} {g : List NetRow} (h : Shape s t) (x : Ext s t s' t')
    (le : s ⊑ s') (m : cnb_WeMono s s') (hg : LinkGrow s s') (ha : cnb_AnsFull s t out auto g) :
    cnb_AnsFull s' t' out auto g := by
  obtain ⟨pw, h1, h2, h3, h4⟩ := ha
  obtain ⟨pw', _, h2', h3'⟩ := cnb_AnsOk.mono h x le m ⟨pw, h1, h2, h3⟩
  refine ⟨pw, h1, fun bk hbk => (h2 bk hbk).mono h x le m, h3.mono (fun bk hbk hc => ?_),
    fun A B => Nat.le_trans (h4 A B) (cnb_linkW_mono hg out pw A B)⟩
  obtain ⟨p, hm, _⟩ := h2 bk hbk
  exact (le.cell_le _ (entry_lt h hm)).crawled hc

theorem cnb_WOk.iter {s : State} {t : T} {n : NetSt} {V : List Nat} {dn rem : List cf_Ptr} (h : Shape s t)
    (hk : HeadsOk s) (hn : cnb_Ok s t n V) (hw : cnb_WOk s n dn rem) :
    (∀ n', cnb_iter s n = .cont n' → ∃ dn' rem', cnb_WOk s n' dn' rem') ∧
    (∀ n' o, cnb_iter s n = .stop n' o →
      (o = .yielded ∧ ∃ dn' rem', cnb_WOk s n' dn' rem') ∨
      (o = .done (.net n.graph) ∧ n' = n ∧ ∀ A B, netW n.graph A B ≤ cnb_linkW s n.out n.pageWe A B)) := by
  unfold cnb_iter
  cases hp : n.phase2 with
  | some ptrs =>
    simp only
    obtain ⟨h1, h2⟩ := hw.iter2 hp
    refine ⟨h1, fun n' o e => ?_⟩
    rcases h2 n' o e with h3 | ⟨e1, e2, h3⟩
    · exact Or.inl h3
    · exact Or.inr ⟨e1, e2, fun A B => Nat.le_trans (h3 A B) (hw.bound A B)⟩
  | none =>
    simp only
    obtain ⟨V1, hn1, e1, e2, e3⟩ := hn.norm h
    obtain ⟨h1, h2⟩ := hw.norm.iter1 h hk hn1 e1 e2 (e3.trans hp)
    exact ⟨h1, fun n' o e => Or.inl ⟨((hn1.iter1 h e1 e2 (e3.trans hp)).2 n' o e).1, h2 n' o e⟩⟩

/-- one section of the network query: both invariants are re-established, a returned answer is sound -/
theorem cnb_WOk.sec {s : State} {t : T} {n : NetSt} {V : List Nat} {dn rem : List cf_Ptr} (h : Shape s t)
    (hk : HeadsOk s) (hn : cnb_Ok s t n V) (hw : cnb_WOk s n dn rem) (fuel : Nat) :
    ((netResume fuel s n).2 = .yielded → (∃ V', cnb_Ok s t (netResume fuel s n).1 V') ∧
      ∃ dn' rem', cnb_WOk s (netResume fuel s n).1 dn' rem') ∧
    (∀ a, (netResume fuel s n).2 = .done a → ∃ g, a = .net g ∧ cnb_AnsFull s t n.out n.auto g) := by
  have := cnb_netResume_lift s
    (fun n' => n'.auto = n.auto ∧ n'.out = n.out ∧ (∃ V', cnb_Ok s t n' V') ∧ ∃ dn' rem', cnb_WOk s n' dn' rem')
    (fun n' o => (o = .yielded → (∃ V', cnb_Ok s t n' V') ∧ ∃ dn' rem', cnb_WOk s n' dn' rem') ∧
      (∀ a, o = .done a → ∃ g, a = .net g ∧ cnb_AnsFull s t n.out n.auto g))
    (fun n1 n2 ⟨ha, ho, ⟨V1, h1⟩, ⟨d1, r1, w1⟩⟩ e => by
      have hf := cnb_iter_flags s n1
      rw [e] at hf
      exact ⟨hf.1.trans ha, hf.2.trans ho, (h1.iter h).1 n2 e, (w1.iter h hk h1).1 n2 e⟩)
    (fun n1 n2 o ⟨ha, ho, ⟨V1, h1⟩, ⟨d1, r1, w1⟩⟩ e => by
      rcases (w1.iter h hk h1).2 n2 o e with ⟨e1, e2⟩ | ⟨e1, e2, e3⟩
      · subst e1
        refine ⟨fun _ => ⟨?_, e2⟩, fun a ea => (by cases ea)⟩
        rcases (h1.iter h).2 n2 _ e with ⟨_, h3⟩ | ⟨h3, _⟩
        · exact h3
        · cases h3
      · subst e1 e2
        refine ⟨fun ea => (by cases ea), fun a ea => ?_⟩
        simp only [CoOut.done.injEq] at ea
        subst ea
        exact ⟨_, rfl, n2.pageWe, h1.pwnd, fun bk hbk => (h1.pw bk hbk).1, ha ▸ h1.graph, ho ▸ e3⟩)
    fuel n ⟨rfl, rfl, ⟨V, hn⟩, ⟨dn, rem, hw⟩⟩
  rcases this with hf | hP
  · exact ⟨fun e => (by rw [hf] at e; cases e), fun a e => (by rw [hf] at e; cases e)⟩
  · exact hP

/-- **soundness for every schedule, in terms of a system** -/
theorem cnb_sched_sound_full (sched : Sched) (σ : Sys) (t : T) (h : Shape σ.1 t) (hk : HeadsOk σ.1) (i : Nat) (n : NetSt)
    (V : List Nat) (dn rem : List cf_Ptr) (hi : σ.2[i]? = some (.net n)) (hn : cnb_Ok σ.1 t n V)
    (hw : cnb_WOk σ.1 n dn rem) (a : Ans) (hm : (i, CoOut.done a) ∈ (σ.run sched).2) :
    ∃ t', Ext σ.1 t (σ.run sched).1.1 t' ∧ ∃ g, a = .net g ∧ cnb_AnsFull (σ.run sched).1.1 t' n.out n.auto g :=
  cnb_sched_net (fun _ => True)
    (fun s t n' => n'.auto = n.auto ∧ n'.out = n.out ∧ (∃ V', cnb_Ok s t n' V') ∧ ∃ dn' rem', cnb_WOk s n' dn' rem')
    (fun s t g => cnb_AnsFull s t n.out n.auto g)
    (fun s t s' t' n' hs hk1 hk2 x le m hg _ _ ⟨ha, ho, ⟨V', hJ⟩, ⟨d, r, hW⟩⟩ =>
      ⟨ha, ho, ⟨V', hJ.mono hs x le m⟩, ⟨d, r, hW.mono le hk1 hk2 hg⟩⟩)
    (fun s t s' t' g hs _ _ x le m hg hA => hA.mono hs x le m hg)
    (fun s t n' hs hk1 _ ⟨ha, ho, ⟨V', hJ⟩, ⟨d, r, hW⟩⟩ => by
      obtain ⟨h1, h2⟩ := hW.sec hs hk1 hJ (s.trie.size + s.links.size + n'.pointers.length + 3)
      have hf := cnb_netResume_flags (s.trie.size + s.links.size + n'.pointers.length + 3) s n'
      exact ⟨fun ho' => ⟨hf.1.trans ha, hf.2.trans ho, h1 ho'⟩, fun a ea => ha ▸ ho ▸ h2 a ea⟩)
    sched σ t h hk i n hi ⟨rfl, rfl, ⟨V, hn⟩, ⟨dn, rem, hw⟩⟩ (cnb_Throughout_true sched σ) a hm

/-- **C16, network query, soundness**: for EVERY schedule, from every index with the shape invariant and list heads in
    range (both true of every reachable index and kept by every schedule), whatever the other generators are and do:
    if `get_webentities_links_iter(out, auto)` returns `g`, there is a duplicate-free list `pw` of (block, id) — the
    pages the query recorded — such that, in the FINAL index:
    * every recorded block is a page block of the tree and its id is the non-zero `we` field of the block of some
      stem-prefix of its path (`cnb_Rec`);
    * `g` has one row per source id, one entry per target id, positive weights (`NetOk`); every row key and every target
      key is a recorded id; self-links only if `auto`; every recorded id has its row; the two tallies of a row add up
      to the number of recorded pages of its id, and the number counted as crawled is at most the number of those
      that are crawled (`cnb_GraphOk`);
    * every weight `g[A][B]` is at most the number of links (with multiplicity; out-lists for `out = true`, in-lists
      otherwise) from recorded pages of id `A` to recorded pages of id `B` (`cnb_linkW`). -/
theorem C16_net_query_sound {s : State} {t : T} (hs : Shape s t) (hk : HeadsOk s) (reqs : List CoReq) (sched : Sched)
    (i : Nat) (out auto : Bool) (hreq : reqs[i]? = some (.queryNet out auto)) (a : Ans)
    (hdone : (i, CoOut.done a) ∈ (Sys.run (s, reqs.map CoReq.init) sched).2) :
    ∃ t', Shape (Sys.run (s, reqs.map CoReq.init) sched).1.1 t' ∧
      (∀ p b, (p, b) ∈ t.entries s [] → (p, b) ∈ t'.entries (Sys.run (s, reqs.map CoReq.init) sched).1.1 []) ∧
      ∃ g, a = .net g ∧ cnb_AnsFull (Sys.run (s, reqs.map CoReq.init) sched).1.1 t' out auto g := by
  have hget : (s, reqs.map CoReq.init).2[i]? = some (CoSt.net { out := out, auto := auto }) := by
    simp only [List.getElem?_map, hreq, Option.map_some]; rfl
  obtain ⟨t', x, g, eg, hans⟩ := cnb_sched_sound_full sched (s, reqs.map CoReq.init) t hs hk i _ [] [] [] hget
    (cnb_Ok.init s t out auto) (cnb_WOk.init s out auto) a hdone
  exact ⟨t', x.shape, x.keep, g, eg, hans⟩

/-! ## 12. every reachable start state; the hypotheses are satisfiable -/

/-- **C16, network query, soundness, from every reachable index** (statement: `C16_net_query_sound`) -/
theorem C16_net_query_sound_reachable {s : State} (hreach : Reachable s) (reqs : List CoReq) (sched : Sched)
    (i : Nat) (out auto : Bool) (hreq : reqs[i]? = some (.queryNet out auto)) (a : Ans)
    (hdone : (i, CoOut.done a) ∈ (Sys.run (s, reqs.map CoReq.init) sched).2) :
    ∃ t t', Shape s t ∧ Shape (Sys.run (s, reqs.map CoReq.init) sched).1.1 t' ∧
      (∀ p b, (p, b) ∈ t.entries s [] → (p, b) ∈ t'.entries (Sys.run (s, reqs.map CoReq.init) sched).1.1 []) ∧
      ∃ g, a = .net g ∧ cnb_AnsFull (Sys.run (s, reqs.map CoReq.init) sched).1.1 t' out auto g := by
  obtain ⟨t, hs, _⟩ := reachable_invariants hreach
  obtain ⟨t', h1, h2, h3⟩ := C16_net_query_sound hs (cfq_sumOk_of_reachable hreach).1 reqs sched i out auto hreq a hdone
  exact ⟨t, t', hs, h1, h2, h3⟩

/-- **C16, network query, completeness, from every reachable index**, the two pages and the blocks of their
    stem-prefixes named through the model's own look-up `lru_node` (statement: `C16_net_query_complete`) -/
theorem C16_net_query_complete_reachable {s : State} (hreach : Reachable s) (reqs : List CoReq) (sched : Sched)
    (i : Nat) (out auto : Bool) (hreq : reqs[i]? = some (.queryNet out auto))
    (pa pb : LRU) (a b A B : Nat) (nodesA nodesB : List Nat) (hpa0 : pa ≠ []) (hpb0 : pb ≠ [])
    (ha : s.lruNode pa = some a) (hb : s.lruNode pb = some b)
    (hpa : (s.cell a).flags.page = true) (hpb : (s.cell b).flags.page = true)
    (hnA : nodesA.length = pa.length ∧ ∀ k (hk : k < nodesA.length), s.lruNode (pa.take (k + 1)) = some nodesA[k])
    (hnB : nodesB.length = pb.length ∧ ∀ k (hk : k < nodesB.length), s.lruNode (pb.take (k + 1)) = some nodesB[k])
    (hA : A ≠ 0) (hB : B ≠ 0) (hauto : auto = true ∨ A ≠ B)
    (hlink : 0 < count b (cf_listOf s out a))
    (hthr : Throughout (fun s' => cnb_res s' 0 nodesA = A ∧ cnb_res s' 0 nodesB = B) (s, reqs.map CoReq.init) sched)
    (g : List NetRow) (hdone : (i, CoOut.done (.net g)) ∈ (Sys.run (s, reqs.map CoReq.init) sched).2) :
    ∃ r ∈ g, r.src = A ∧ ∃ w', (B, w') ∈ r.targets ∧ count b (cf_listOf s out a) ≤ w' := by
  obtain ⟨t, hs, _⟩ := reachable_invariants hreach
  have conv : ∀ (p : LRU) (nodes : List Nat), p ≠ [] →
      (nodes.length = p.length ∧ ∀ k (hk : k < nodes.length), s.lruNode (p.take (k + 1)) = some nodes[k]) →
      cnb_NodesOf s t p nodes := by
    intro p nodes hp0 ⟨h1, h2⟩
    refine ⟨h1, fun k hk => (lruNode_iff_entries hs _ ?_ _).mp (h2 k hk)⟩
    intro e
    have := congrArg List.length e
    rw [List.length_take] at this
    have hp : 0 < p.length := List.length_pos_iff.mpr hp0
    simp only [List.length_nil] at this
    omega
  exact C16_net_query_complete hs (cfq_sumOk_of_reachable hreach).1 reqs sched i out auto hreq pa pb a b A B nodesA nodesB
    ((lruNode_iff_entries hs pa hpa0 a).mp ha) ((lruNode_iff_entries hs pb hpb0 b).mp hb) hpa hpb
    (conv pa nodesA hpa0 hnA) (conv pb nodesB hpb0 hnB) hA hB hauto hlink hthr g hdone

/-- a checker for `Throughout` on concrete systems -/
def cnb_throughoutB (q : State → Bool) : Sys → Sched → Bool
  | σ, [] => q σ.1
  | σ, j :: rest => q σ.1 && cnb_throughoutB q (σ.step j).1 rest

theorem cnb_throughoutB_sound (q : State → Bool) : ∀ (sched : Sched) (σ : Sys), cnb_throughoutB q σ sched = true →
    Throughout (fun s => q s = true) σ sched
  | [], _, h => h
  | j :: rest, σ, h => by
    simp only [cnb_throughoutB, Bool.and_eq_true] at h
    exact ⟨h.1, cnb_throughoutB_sound q rest _ h.2⟩

/-! ### the hypotheses are satisfiable: the index of `Proofs/CoDrainExamples` (nested webentities, weighted links),
    a network query interleaved with a crawl batch that adds a page to webentity 1, a link to a page of webentity 2,
    and a page that creates webentity 5 -/
namespace NetEx
open DrainEx

def px : Bytes := b "s:http|h:com|h:a|p:x|"
def pb1 : Bytes := b "s:http|h:com|h:b|p:1|"
def reqs : List CoReq :=
  [.queryNet true false, .batch [(b "s:http|h:com|h:a|p:new|", [b "s:http|h:com|h:b|p:1|", b "s:http|h:net|h:d|"])]]
def sched : Sched := [0, 0, 1, 0, 0, 1, 0, 1, 0, 0, 0, 0, 1, 0, 0, 0, 0, 0, 0]
def answer : List NetRow :=
  [{ src := 1, targets := [(2, 2), (3, 1), (4, 1)], crawled := 2, uncrawled := 2 },
   { src := 3, targets := [], crawled := 1, uncrawled := 0 },
   { src := 2, targets := [(1, 2)], crawled := 0, uncrawled := 2 },
   { src := 4, targets := [], crawled := 0, uncrawled := 1 },
   { src := 5, targets := [], crawled := 0, uncrawled := 1 }]

set_option maxRecDepth 1000000 in
theorem reachable_idx : Reachable idx :=
  reachable_fresh {} .domain [] _ (fun _ h => by simp at h)
    (by
      intro op hop
      simp only [List.mem_cons, List.mem_nil_iff, or_false] at hop
      rcases hop with rfl | rfl | rfl | rfl | rfl | rfl
      · trivial
      · show lruIter _ ≠ []; decide +kernel
      · show lruIter _ ≠ []; decide +kernel
      · show ∀ st : Bytes × Bytes, st ∈ _ → lruIter st.1 ≠ [] ∧ lruIter st.2 ≠ []; decide +kernel
      · trivial
      · show ∀ d : Bytes × List Bytes, d ∈ _ → lruIter d.1 ≠ [] ∧ ∀ x ∈ d.2, lruIter x ≠ []; decide +kernel)
    ⟨trivial, trivial, trivial, trivial, trivial, trivial, trivial⟩

set_option maxRecDepth 1000000 in
/-- the query returns at the 19th step, having seen the batch's new page of webentity 1 and the new webentity 5 -/
theorem done : (0, CoOut.done (.net answer)) ∈ (Sys.run (idx, reqs.map CoReq.init) sched).2 := by decide +kernel

set_option maxRecDepth 1000000 in
/-- at every moment page `…h:a|p:x|` (block 4) resolves to webentity 1 and page `…h:b|p:1|` (block 7) to webentity 2 -/
theorem stable : Throughout (fun s' => cnb_res s' 0 [1, 2, 3, 4] = 1 ∧ cnb_res s' 0 [1, 2, 6, 7] = 2)
    (idx, reqs.map CoReq.init) sched :=
  Throughout.imp (fun s h => by simpa using h) sched _
    (cnb_throughoutB_sound (fun s' => decide (cnb_res s' 0 [1, 2, 3, 4] = 1 ∧ cnb_res s' 0 [1, 2, 6, 7] = 2)) sched _
      (by decide +kernel))

set_option maxRecDepth 1000000 in
/-- `C16_net_query_complete` applies: the two links `…h:a|p:x| → …h:b|p:1|` present from the start are in the answer -/
theorem complete_applies :
    ∃ r ∈ answer, r.src = 1 ∧ ∃ w', (2, w') ∈ r.targets ∧ count 7 (cf_listOf idx true 4) ≤ w' :=
  C16_net_query_complete_reachable reachable_idx reqs sched 0 true false rfl (lruIter px) (lruIter pb1) 4 7 1 2
    [1, 2, 3, 4] [1, 2, 6, 7] (by decide +kernel) (by decide +kernel) (by decide +kernel) (by decide +kernel)
    (by decide +kernel) (by decide +kernel) (by decide +kernel) (by decide +kernel) (by decide) (by decide)
    (Or.inr (by decide)) (by decide +kernel) stable answer done

set_option maxRecDepth 1000000 in
theorem link_count : count 7 (cf_listOf idx true 4) = 2 := by decide +kernel

/-- `C16_net_query_sound` applies -/
theorem sound_applies :
    ∃ t t', Shape idx t ∧ Shape (Sys.run (idx, reqs.map CoReq.init) sched).1.1 t' ∧
      (∀ p b, (p, b) ∈ t.entries idx [] → (p, b) ∈ t'.entries (Sys.run (idx, reqs.map CoReq.init) sched).1.1 []) ∧
      ∃ g, Ans.net answer = .net g ∧ cnb_AnsFull (Sys.run (idx, reqs.map CoReq.init) sched).1.1 t' true false g :=
  C16_net_query_sound_reachable reachable_idx reqs sched 0 true false rfl _ done

end NetEx

theorem cnb_res_congr {s s' : State} : ∀ (l : List Nat) (c : Nat), (∀ m ∈ l, (s'.cell m).we = (s.cell m).we) →
    cnb_res s' c l = cnb_res s c l
  | [], _, _ => rfl
  | m :: l, c, h => by
    rw [cnb_res_cons, cnb_res_cons, h m (by simp)]
    exact cnb_res_congr l _ (fun x hx => h x (List.mem_cons_of_mem _ hx))

/-- **C16, network query, completeness, the simple sufficient condition**: if no `we` field of the blocks of the
    stem-prefixes of the two pages is ever written during the execution, the link is counted under the ids the two
    pages resolve to when the query is created -/
theorem C16_net_query_complete_fields {s : State} {t : T} (hs : Shape s t) (hk : HeadsOk s) (reqs : List CoReq)
    (sched : Sched) (i : Nat) (out auto : Bool) (hreq : reqs[i]? = some (.queryNet out auto))
    (pa pb : LRU) (a b : Nat) (nodesA nodesB : List Nat)
    (ha : (pa, a) ∈ t.entries s []) (hb : (pb, b) ∈ t.entries s [])
    (hpa : (s.cell a).flags.page = true) (hpb : (s.cell b).flags.page = true)
    (hnA : cnb_NodesOf s t pa nodesA) (hnB : cnb_NodesOf s t pb nodesB)
    (hA : cnb_res s 0 nodesA ≠ 0) (hB : cnb_res s 0 nodesB ≠ 0)
    (hauto : auto = true ∨ cnb_res s 0 nodesA ≠ cnb_res s 0 nodesB)
    (hlink : 0 < count b (cf_listOf s out a))
    (hthr : Throughout (fun s' => ∀ m ∈ nodesA ++ nodesB, (s'.cell m).we = (s.cell m).we) (s, reqs.map CoReq.init) sched)
    (g : List NetRow) (hdone : (i, CoOut.done (.net g)) ∈ (Sys.run (s, reqs.map CoReq.init) sched).2) :
    ∃ r ∈ g, r.src = cnb_res s 0 nodesA ∧ ∃ w', (cnb_res s 0 nodesB, w') ∈ r.targets ∧
      count b (cf_listOf s out a) ≤ w' :=
  C16_net_query_complete hs hk reqs sched i out auto hreq pa pb a b _ _ nodesA nodesB ha hb hpa hpb hnA hnB hA hB hauto hlink
    (Throughout.imp (fun _ h => ⟨cnb_res_congr nodesA 0 (fun m hm => h m (List.mem_append_left _ hm)),
      cnb_res_congr nodesB 0 (fun m hm => h m (List.mem_append_right _ hm))⟩) sched _ hthr) g hdone

#print axioms cnb_weMono_resume
#print axioms cnb_sched_net
#print axioms cnb_sched_sound_full
#print axioms cnb_sched_complete
#print axioms C16_net_query_sound
#print axioms C16_net_query_complete
#print axioms C16_net_query_sound_reachable
#print axioms C16_net_query_complete_reachable
#print axioms C16_net_query_complete_fields
#print axioms NetEx.complete_applies
#print axioms NetEx.sound_applies

end Traph

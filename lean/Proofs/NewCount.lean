import Traph
/-! Counting the distinct new elements of a list (for the `pages` figure of write reports). -/
namespace Traph

theorem eraseDups_filter {α : Type} [BEq α] [LawfulBEq α] (f : α → Bool) (l : List α) :
    (l.filter f).eraseDups = l.eraseDups.filter f := by
  match l with
  | [] => simp
  | a :: l' =>
    have hlen : (l'.filter (fun b => !b == a)).length < l'.length + 1 :=
      Nat.lt_succ_of_le (List.length_filter_le _ _)
    rw [List.eraseDups_cons]
    by_cases hfa : f a = true
    · rw [List.filter_cons_of_pos hfa, List.eraseDups_cons, List.filter_cons_of_pos hfa,
        ← eraseDups_filter f (l'.filter _)]
      congr 2
      simp only [List.filter_filter]
      apply List.filter_congr
      intro x _
      exact Bool.and_comm _ _
    · rw [List.filter_cons_of_neg hfa, List.filter_cons_of_neg hfa, ← eraseDups_filter f (l'.filter _)]
      congr 1
      rw [List.filter_filter]
      apply List.filter_congr
      intro x _
      by_cases hx : (x == a) = true
      · have := eq_of_beq hx; subst this
        simp [hfa]
      · simp [hx]
termination_by l.length

open Classical in
/-- number of distinct elements of `l` outside `P` -/
noncomputable def newCount (P : LRU → Prop) (l : List LRU) : Nat :=
  ((l.eraseDups).filter (fun p => decide (¬ P p))).length

theorem newCount_nil (P : LRU → Prop) : newCount P [] = 0 := by simp [newCount]

theorem newCount_congr {P Q : LRU → Prop} (h : ∀ q, P q ↔ Q q) (l : List LRU) : newCount P l = newCount Q l := by
  have : P = Q := funext (fun q => propext (h q))
  rw [this]

open Classical in
theorem newCount_cons (P : LRU → Prop) (p : LRU) (l : List LRU) :
    newCount P (p :: l) = (if P p then 0 else 1) + newCount (fun q => P q ∨ q = p) l := by
  unfold newCount
  rw [List.eraseDups_cons, eraseDups_filter, List.filter_cons, List.filter_filter]
  have e : (l.eraseDups.filter (fun a => decide (¬ P a) && !a == p)) =
      l.eraseDups.filter (fun q => decide (¬ (P q ∨ q = p))) := by
    apply List.filter_congr
    intro x _
    by_cases h1 : P x <;> by_cases h2 : x = p <;> simp [h1, h2]
  rw [e]
  by_cases hp : P p
  · simp [hp]
  · simp [hp]; omega

theorem newCount_append (P : LRU → Prop) : ∀ (a b : List LRU),
    newCount P (a ++ b) = newCount P a + newCount (fun q => P q ∨ q ∈ a) b
  | [], b => by
    rw [List.nil_append, newCount_nil, Nat.zero_add]
    exact newCount_congr (fun q => by simp) b
  | x :: a, b => by
    rw [List.cons_append, newCount_cons, newCount_cons, newCount_append _ a b, Nat.add_assoc]
    congr 2
    apply newCount_congr
    intro q
    simp only [List.mem_cons]
    constructor
    · rintro ((h | h) | h)
      · exact Or.inl h
      · exact Or.inr (Or.inl h)
      · exact Or.inr (Or.inr h)
    · rintro (h | h | h)
      · exact Or.inl (Or.inl h)
      · exact Or.inl (Or.inr h)
      · exact Or.inr h

theorem newCount_single (P : LRU → Prop) (p : LRU) :
    (P p → newCount P [p] = 0) ∧ (¬ P p → newCount P [p] = 1) := by
  rw [newCount_cons, newCount_nil]
  constructor
  · intro h; rw [if_pos h]
  · intro h; rw [if_neg h]

end Traph

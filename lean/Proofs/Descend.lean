import Proofs.Tst
/-! The level-by-level descent of `lru_node` / `follow_lru` / `add_lru` on the ghost tree: a BST search
    in the current sibling tree (`T.find`), then the child tree of the sibling found. `T.descend` recurses
    on the stem list exactly as the heap code does, so the heap walks equal it by a direct induction;
    its meaning in terms of the finite map `T.entries` needs the order invariant. -/
namespace Traph
open State

/-- the child subtree of the sibling labelled `a` -/
def T.childAt : T → Nat → T
  | .nil, _ => .nil
  | .node b l c r, a => if b = a then c else if a ∈ l.sibs then l.childAt a else r.childAt a

def T.descend (s : State) : List Stem → T → LRU → Loc
  | [], _, _ => .corrupt
  | stem :: rest, u, pre =>
    match u.find s stem with
    | .found a =>
      (match rest with
       | [] => .found a
       | _ :: _ =>
         match u.childAt a with
         | .nil => .fell a .C (pre ++ [stem]) rest
         | .node a' l' c' r' => T.descend s rest (.node a' l' c' r') (pre ++ [stem]))
    | .missing q sl => .fell q sl pre (stem :: rest)
    | .corrupt => .corrupt

theorem T.childAt_size : ∀ (u : T) (a : Nat), (u.childAt a).size ≤ u.size
  | .nil, _ => by simp [T.childAt]
  | .node b l c r, a => by
    simp only [T.childAt]
    split
    · simp [T.size]; omega
    · split
      · have := T.childAt_size l a; simp [T.size]; omega
      · have := T.childAt_size r a; simp [T.size]; omega

/-- the child subtree of a sibling is represented, and is what the sibling's `child` pointer denotes -/
theorem Rep.childAt {s : State} : ∀ (u : T) (a : Nat), Rep s u → a ∈ u.sibs →
    Rep s (u.childAt a) ∧ ∃ cell, s.trie[a]? = some cell ∧ cell.child = (u.childAt a).root
  | .nil, a, _, h => by simp [T.sibs] at h
  | .node b l c r, a, hr, h => by
    obtain ⟨hb, ⟨cell, hc, h1, h2, h3⟩, rl, rc, rr⟩ := hr
    simp only [T.sibs, List.mem_append, List.mem_cons] at h
    simp only [T.childAt]
    by_cases e : b = a
    · subst e; rw [if_pos rfl]; exact ⟨rc, cell, hc, h2⟩
    · rw [if_neg e]
      by_cases hl : a ∈ l.sibs
      · rw [if_pos hl]; exact Rep.childAt l a rl hl
      · rw [if_neg hl]
        have : a ∈ r.sibs := by
          rcases h with h | h | h
          · exact absurd h hl
          · exact absurd h.symm e
          · exact h
        exact Rep.childAt r a rr this

theorem T.childAt_addrs : ∀ (u : T) (a x : Nat), x ∈ (u.childAt a).addrs → x ∈ u.addrs
  | .nil, _, _, h => by simp [T.childAt, T.addrs] at h
  | .node b l c r, a, x, h => by
    simp only [T.childAt] at h
    simp only [T.addrs, List.mem_cons, List.mem_append]
    split at h
    · exact Or.inr (Or.inl (Or.inr h))
    · split at h
      · exact Or.inr (Or.inl (Or.inl (T.childAt_addrs l a x h)))
      · exact Or.inr (Or.inr (T.childAt_addrs r a x h))

/-- `lru_node` = the structural descent -/
theorem lruNodeGo_eq_descend {s : State} : ∀ (stems : List Stem) (u : T) (pre : LRU),
    Rep s u → u ≠ .nil → u.size ≤ s.trie.size → stems ≠ [] →
    s.lruNodeGo stems u.root = match u.descend s stems pre with | .found b => some b | _ => none := by
  intro stems
  induction stems with
  | nil => intro _ _ _ _ _ h; exact absurd rfl h
  | cons stem rest ih =>
    intro u pre hr hne hsz _
    have hfs := findSib_eq_find (s := s) (stem := stem) u (s.trie.size + 1) hr hne (by omega)
    simp only [lruNodeGo, hfs, T.descend]
    cases hf : u.find s stem with
    | corrupt => rfl
    | missing q sl => rfl
    | found a =>
      simp only
      obtain ⟨hmem, _⟩ := T.find_sound u a hf
      obtain ⟨hrc, cell, hcell, hch⟩ := Rep.childAt u a hr hmem
      have hcella : s.cell a = cell := by simp [State.cell, hcell]
      cases rest with
      | nil => simp
      | cons st2 rest2 =>
        simp only [List.isEmpty_cons, Bool.false_eq_true, if_false, hcella]
        cases hc : u.childAt a with
        | nil =>
          rw [hc] at hch
          simp [hch]
        | node a' l' c' r' =>
          rw [hc] at hch hrc
          have hne0 : cell.child ≠ 0 := by rw [hch]; exact hrc.1
          rw [if_neg hne0, hch]
          have hsz' : (T.node a' l' c' r').size ≤ s.trie.size := by
            have := T.childAt_size u a; rw [hc] at this; omega
          exact ih (.node a' l' c' r') (pre ++ [stem]) hrc (by simp) hsz' (by simp)

end Traph

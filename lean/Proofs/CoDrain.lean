import Proofs.CoReadOnly
import Proofs.ForPrefixes
/-! C16 — the new query machines, drained on a FIXED index, compute the atomic answers of `Traph/Api.lean`.

    Part 1: the traversal cursors. `WeRuns s n w items e`: the suspended traversal `w`, advanced on the fixed index
    `s`, yields exactly `items` and then stops (`e = none`) or raises `e`; no `next()` needs more than `n`
    iterations. The cursor of a fresh request yields the items of the atomic walk (`weItems`: prefix by prefix,
    `weDfs`), provided the atomic walks end within their own fuel (`weDfsFin`, true of every index representing a
    tree — the atomic functions silently truncate otherwise). -/
namespace Traph
open State

abbrev QItem := Nat × Bytes × Cell

/-! ### the webentity walk -/

/-- the walk from `stack` empties its stack within `fuel` pops -/
def weDfsFin (s : State) (start : Nat) (d : Option Nat) : Nat → List (Nat × Bytes × Nat) → Prop
  | _, [] => True
  | 0, _ :: _ => False
  | f + 1, (b, lru, level) :: rest =>
    weDfsFin s start d f (weDfsPushD d start b lru (lru ++ s.stemAt b) level (s.cell b) rest)

theorem weDfsGo_step (s : State) (st : Nat) (d : Option Nat) (f b : Nat) (lru : Bytes) (level : Nat)
    (rest : List (Nat × Bytes × Nat)) :
    s.weDfsGo st d (f + 1) ((b, lru, level) :: rest) =
      (if (b = st || (s.cell b).we = 0) = true then [(b, lru ++ s.stemAt b)] else []) ++
        s.weDfsGo st d f (weDfsPushD d st b lru (lru ++ s.stemAt b) level (s.cell b) rest) := by
  cases d <;> simp only [weDfsGo, weDfsPushD] <;> split <;> simp

/-- the cursor with the children of the node it yielded last already pushed -/
def WeCur.norm (w : WeCur) : WeCur :=
  { w with stack := (match w.pend with
      | some (b, lru, cur, level, c) => weDfsPushD w.depth w.start b lru cur level c w.stack
      | none => w.stack), pend := none }

theorem WeCur.next_norm (g : Nat) (s : State) (w : WeCur) : w.next (g + 1) s = w.norm.next (g + 1) s := by
  obtain ⟨ps, d, st, stk, pend⟩ := w
  cases pend with
  | none => rfl
  | some p =>
    obtain ⟨b, lru, cur, level, c⟩ := p
    rfl

inductive WeRuns (s : State) (n : Nat) : Nat → WeCur → List QItem → Option Err → Prop
  | stop (m : Nat) (w w' : WeCur) : (∀ g, m ≤ g → w.next g s = (w', .stop)) → WeRuns s n m w [] none
  | fail (m : Nat) (w w' : WeCur) (e : Err) : (∀ g, m ≤ g → w.next g s = (w', .fail e)) → WeRuns s n m w [] (some e)
  | item (m : Nat) (w w' : WeCur) (b : Nat) (lru : Bytes) (c : Cell) (items : List QItem) (e : Option Err) :
      (∀ g, m ≤ g → w.next g s = (w', .item b lru c)) → WeRuns s n n w' items e →
      items.length ≤ (s.trie.size + 2) * (w'.prefixes.length + 1) →
      WeRuns s n m w ((b, lru, c) :: items) e

theorem WeRuns.mono {s : State} {n m m' : Nat} {w : WeCur} {items : List QItem} {e : Option Err}
    (h : WeRuns s n m w items e) (hm : m ≤ m') : WeRuns s n m' w items e := by
  cases h with
  | stop _ _ w' h => exact .stop _ _ w' (fun g hg => h g (by omega))
  | fail _ _ w' e h => exact .fail _ _ w' e (fun g hg => h g (by omega))
  | item _ _ w' b lru c items e h r hl => exact .item _ _ w' b lru c items e (fun g hg => h g (by omega)) r hl

/-- a cursor whose `next` is the `next` of another one with one iteration less -/
theorem WeRuns.skip {s : State} {n m : Nat} {w w2 : WeCur} {items : List QItem} {e : Option Err}
    (hw : ∀ g, w.next (g + 1) s = w2.next g s) (h : WeRuns s n m w2 items e) : WeRuns s n (m + 1) w items e := by
  have key : ∀ g, m + 1 ≤ g → w.next g s = w2.next (g - 1) s := by
    intro g hg
    obtain ⟨k, rfl⟩ : ∃ k, g = k + 1 := ⟨g - 1, by omega⟩
    simpa using hw k
  cases h with
  | stop _ _ w' h => exact .stop _ _ w' (fun g hg => by rw [key g hg]; exact h _ (by omega))
  | fail _ _ w' e h => exact .fail _ _ w' e (fun g hg => by rw [key g hg]; exact h _ (by omega))
  | item _ _ w' b lru c items e h r hl =>
    exact .item _ _ w' b lru c items e (fun g hg => by rw [key g hg]; exact h _ (by omega)) r hl

/-- cursors with the same `next` run alike -/
theorem WeRuns.congr {s : State} {n m : Nat} {w w2 : WeCur} {items : List QItem} {e : Option Err}
    (hm : 1 ≤ m) (hw : ∀ g, w.next (g + 1) s = w2.next (g + 1) s) (h : WeRuns s n m w2 items e) :
    WeRuns s n m w items e := by
  have key : ∀ g, m ≤ g → w.next g s = w2.next g s := by
    intro g hg
    obtain ⟨k, rfl⟩ : ∃ k, g = k + 1 := ⟨g - 1, by omega⟩
    exact hw k
  cases h with
  | stop _ _ w' h => exact .stop _ _ w' (fun g hg => by rw [key g hg]; exact h _ hg)
  | fail _ _ w' e h => exact .fail _ _ w' e (fun g hg => by rw [key g hg]; exact h _ hg)
  | item _ _ w' b lru c items e h r hl =>
    exact .item _ _ w' b lru c items e (fun g hg => by rw [key g hg]; exact h _ hg) r hl

def itemOf (s : State) (bl : Nat × Bytes) : QItem := (bl.1, bl.2, s.cell bl.1)

theorem weDfsGo_length_le (s : State) (st : Nat) (d : Option Nat) : ∀ (f : Nat) (stk : List (Nat × Bytes × Nat)),
    (s.weDfsGo st d f stk).length ≤ f := by
  intro f
  induction f with
  | zero => intro stk; simp [weDfsGo]
  | succ f ih =>
    intro stk
    cases stk with
    | nil => simp [weDfsGo]
    | cons p rest =>
      obtain ⟨b, lru, level⟩ := p
      rw [weDfsGo_step]
      have := ih (weDfsPushD d st b lru (lru ++ s.stemAt b) level (s.cell b) rest)
      split <;> simp <;> omega

/-- the walk in progress: from a stack the cursor yields what `weDfsGo` lists, then goes on with `K` -/
theorem weRuns_stack (s : State) (n : Nat) (ps : List Bytes) (d : Option Nat) (st : Nat)
    (itemsK : List QItem) (eK : Option Err)
    (hK : WeRuns s n 2 { prefixes := ps, depth := d, start := st, stack := [], pend := none } itemsK eK)
    (hKl : itemsK.length ≤ (s.trie.size + 2) * ps.length) :
    ∀ (f : Nat) (stk : List (Nat × Bytes × Nat)), f + 2 ≤ n → f ≤ s.trie.size + 1 → weDfsFin s st d f stk →
      WeRuns s n (f + 2) { prefixes := ps, depth := d, start := st, stack := stk, pend := none }
        ((s.weDfsGo st d f stk).map (itemOf s) ++ itemsK) eK := by
  intro f
  induction f with
  | zero =>
    intro stk _ _ hfin
    cases stk with
    | nil => simpa [weDfsGo] using hK
    | cons p rest => exact absurd hfin (by simp [weDfsFin])
  | succ f ih =>
    intro stk hn hsz hfin
    cases stk with
    | nil => simpa [weDfsGo] using hK.mono (by omega)
    | cons p rest =>
      obtain ⟨b, lru, level⟩ := p
      simp only [weDfsFin] at hfin
      have ih' := ih _ (by omega) (by omega) hfin
      rw [weDfsGo_step]
      by_cases hrel : (b = st || (s.cell b).we = 0) = true
      · rw [if_pos hrel]
        simp only [List.cons_append, List.nil_append, List.map_cons, itemOf]
        refine .item _ _ { prefixes := ps, depth := d, start := st, stack := rest,
                           pend := some (b, lru, lru ++ s.stemAt b, level, s.cell b) } b _ _ _ _ ?_ ?_ ?_
        · intro g hg
          obtain ⟨k, rfl⟩ : ∃ k, g = k + 1 := ⟨g - 1, by omega⟩
          simp only [WeCur.next, hrel, if_true]
        · refine WeRuns.congr (by omega) (fun g => WeCur.next_norm g s _) ?_
          simpa [WeCur.norm] using ih'.mono (by omega)
        · have := weDfsGo_length_le s st d f (weDfsPushD d st b lru (lru ++ s.stemAt b) level (s.cell b) rest)
          simp only [List.length_append, List.length_map]
          rw [Nat.mul_add]
          omega
      · rw [if_neg hrel]
        simp only [List.nil_append]
        refine WeRuns.skip (fun g => ?_) ih'
        simp only [WeCur.next, hrel]
        simp

/-- what the loop over the prefixes yields on the fixed index: the atomic walks, prefix by prefix, until a prefix
    is not in the trie -/
def weItems (s : State) (d : Option Nat) : List Bytes → List QItem × Option Err
  | [] => ([], none)
  | pf :: more =>
    match s.lruNode (lruIter pf) with
    | none => ([], some .traph)
    | some nn => ((s.weDfs nn pf d).map (itemOf s) ++ (weItems s d more).1, (weItems s d more).2)

theorem weItems_length (s : State) (d : Option Nat) : ∀ ps : List Bytes,
    (weItems s d ps).1.length ≤ (s.trie.size + 2) * ps.length := by
  intro ps
  induction ps with
  | nil => simp [weItems]
  | cons pf more ih =>
    cases hn : s.lruNode (lruIter pf) with
    | none => simp [weItems, hn]
    | some nn =>
      simp only [weItems, hn, List.length_append, List.length_map, List.length_cons, weDfs]
      have := weDfsGo_length_le s nn d (s.trie.size + 1) [(nn, lruDirname pf, 0)]
      rw [Nat.mul_add]
      omega

/-- every atomic walk of the request ends within the fuel the atomic request grants it -/
def WeFin (s : State) (d : Option Nat) (ps : List Bytes) : Prop :=
  ∀ pf ∈ ps, ∀ nn, s.lruNode (lruIter pf) = some nn → weDfsFin s nn d (s.trie.size + 1) [(nn, lruDirname pf, 0)]

theorem weRuns_prefixes (s : State) (d : Option Nat) : ∀ (ps : List Bytes) (st : Nat), WeFin s d ps →
    WeRuns s (s.trie.size + 3) 2 { prefixes := ps, depth := d, start := st, stack := [], pend := none }
      (weItems s d ps).1 (weItems s d ps).2 := by
  intro ps
  induction ps with
  | nil =>
    intro st _
    refine .stop _ _ { prefixes := [], depth := d, start := st, stack := [], pend := none } (fun g hg => ?_)
    obtain ⟨k, rfl⟩ : ∃ k, g = k + 1 := ⟨g - 1, by omega⟩
    simp only [WeCur.next]
  | cons pf more ih =>
    intro st hfin
    cases hn : s.lruNode (lruIter pf) with
    | none =>
      simp only [weItems, hn]
      refine .fail _ _ { prefixes := pf :: more, depth := d, start := st, stack := [], pend := none } _ (fun g hg => ?_)
      obtain ⟨k, rfl⟩ : ∃ k, g = k + 1 := ⟨g - 1, by omega⟩
      simp only [WeCur.next, hn]
    | some nn =>
      have hf := hfin pf (by simp) nn hn
      simp only [weDfsFin] at hf
      have ihm := ih nn (fun p hp => hfin p (by simp [hp]))
      have hrun := weRuns_stack s (s.trie.size + 3) more d nn _ _ ihm (weItems_length s d more) s.trie.size _
        (by omega) (by omega) hf
      simp only [weItems, hn, weDfs]
      rw [weDfsGo_step]
      simp only [decide_true, Bool.true_or, if_true, List.cons_append, List.nil_append, List.map_cons, itemOf]
      refine .item _ _ { prefixes := more, depth := d, start := nn, stack := [],
                         pend := some (nn, lruDirname pf, lruDirname pf ++ s.stemAt nn, 0, s.cell nn) } nn _ _ _ _
        (fun g hg => ?_) ?_ ?_
      · obtain ⟨k, rfl⟩ : ∃ k, g = k + 2 := ⟨g - 2, by omega⟩
        simp only [WeCur.next, hn, decide_true, Bool.true_or, if_true]
      · refine WeRuns.congr (by omega) (fun g => WeCur.next_norm g s _) ?_
        simpa [WeCur.norm] using hrun.mono (by omega)
      · have h1 := weDfsGo_length_le s nn d s.trie.size
          (weDfsPushD d nn nn (lruDirname pf) (lruDirname pf ++ s.stemAt nn) 0 (s.cell nn) [])
        have h2 := weItems_length s d more
        simp only [List.length_append, List.length_map]
        rw [Nat.mul_add]
        omega

/-- **the cursor of a fresh request** yields the items of the atomic walks -/
theorem weRuns_init (s : State) (d : Option Nat) (ps : List Bytes) (h : WeFin s d ps) :
    WeRuns s (s.trie.size + 3) (s.trie.size + 3) { prefixes := ps, depth := d } (weItems s d ps).1 (weItems s d ps).2 :=
  (weRuns_prefixes s d ps 0 h).mono (by omega)

theorem WeCur.fuel_ge (s : State) (w : WeCur) : s.trie.size + 3 ≤ w.fuel s := by
  unfold WeCur.fuel
  have : (s.trie.size + 2) * 2 ≤ (s.trie.size + 2) * (w.prefixes.length + 2) := Nat.mul_le_mul_left _ (by omega)
  omega

theorem qFuel_gt (s : State) (p x : Nat) : (s.trie.size + 2) * (p + 1) < qFuel s p x := by
  unfold qFuel
  have : (s.trie.size + 2) * (p + 1) ≤ (s.trie.size + 2) * (p + 2) := Nat.mul_le_mul_left _ (by omega)
  have h2 : 2 * (s.trie.size + 2) * (p + 2) = (s.trie.size + 2) * (p + 2) + (s.trie.size + 2) * (p + 2) := by
    rw [Nat.mul_assoc, Nat.two_mul]
  omega

/-- the answer of a drained request: the accumulated value, or the error of the prefix loop -/
def drainAns (e : Option Err) (a : Ans) : Ans := match e with | none => a | some e => .err e

/-! ## get_webentity_crawled_pages_iter -/

/-- what the consumer loop of the crawled-pages generator accumulates -/
def crawledFold (pages : List (Bytes × Bool)) (items : List QItem) : List (Bytes × Bool) :=
  items.foldl (fun acc it => if it.2.2.flags.page && it.2.2.flags.crawled then acc ++ [(it.2.1, true)] else acc) pages

theorem drain_crawled_unfold (s : State) (N : Nat) (q : CrawledSt) :
    QSt.drain s (N + 1) (.crawled q) =
      (match crawledResume (qFuel s q.cur.prefixes.length q.cur.stack.length) s q with
       | (q1, .yielded) => QSt.drain s N (.crawled q1)
       | (_, .done a) => a
       | (_, .failed e) => .err e) := by
  simp only [QSt.drain, QSt.resume]
  rcases crawledResume (qFuel s q.cur.prefixes.length q.cur.stack.length) s q with ⟨q1, o⟩
  cases o <;> rfl

theorem crawledResume_run (s : State) {m : Nat} {w : WeCur} {items : List QItem} {e : Option Err}
    (h : WeRuns s (s.trie.size + 3) m w items e) (hm : m ≤ s.trie.size + 3) :
    ∀ (pages : List (Bytes × Bool)) (fuel N : Nat), items.length < fuel → items.length < N →
      (match crawledResume fuel s ⟨w, pages⟩ with
       | (q1, .yielded) => QSt.drain s N (.crawled q1)
       | (_, .done a) => a
       | (_, .failed e) => .err e) = drainAns e (.pages (crawledFold pages items)) := by
  induction h with
  | stop m w w' hfirst =>
    intro pages fuel N hf _
    obtain ⟨k, rfl⟩ : ∃ k, fuel = k + 1 := ⟨fuel - 1, by omega⟩
    simp only [crawledResume, hfirst _ (Nat.le_trans hm (WeCur.fuel_ge s w)), drainAns, crawledFold, List.foldl_nil]
  | fail m w w' e hfirst =>
    intro pages fuel N hf _
    obtain ⟨k, rfl⟩ : ∃ k, fuel = k + 1 := ⟨fuel - 1, by omega⟩
    simp only [crawledResume, hfirst _ (Nat.le_trans hm (WeCur.fuel_ge s w)), drainAns]
  | item m w w' b lru c items e hfirst hrest hl ih =>
    intro pages fuel N hf hN
    obtain ⟨k, rfl⟩ : ∃ k, fuel = k + 1 := ⟨fuel - 1, by omega⟩
    simp only [List.length_cons] at hf hN
    simp only [crawledResume, hfirst _ (Nat.le_trans hm (WeCur.fuel_ge s w))]
    by_cases hp : c.flags.page = true
    · simp only [hp, if_true]
      obtain ⟨N', rfl⟩ : ∃ N', N = N' + 1 := ⟨N - 1, by omega⟩
      rw [drain_crawled_unfold]
      dsimp only
      have hq := qFuel_gt s w'.prefixes.length w'.stack.length
      rw [ih (Nat.le_refl _) _ _ N' (by omega) (by omega)]
      simp only [crawledFold, List.foldl_cons, hp, Bool.true_and]
    · simp only [hp, Bool.false_eq_true, if_false]
      rw [ih (Nat.le_refl _) pages k N (by omega) (by omega)]
      simp only [crawledFold, List.foldl_cons, hp, Bool.false_and, Bool.false_eq_true, if_false]

/-! ### the atomic requests in terms of `weItems` -/

theorem cd_forPrefixes_cons (s : State) {α} (p : Bytes) (ps : List Bytes) (f : Nat → Bytes → List α) :
    s.forPrefixes (p :: ps) f =
      match s.lruNode (lruIter p) with
      | none => .error .traph
      | some n => (match s.forPrefixes ps f with | .ok l => .ok (f n p ++ l) | .error e => .error e) := by
  rw [forPrefixes_eq, forPrefixes_eq]
  cases hn : s.lruNode (lruIter p) with
  | none => simp [hn]
  | some n =>
    by_cases hall : (ps.all fun p => (s.lruNode (lruIter p)).isSome) = true
    · simp [hn, hall]
    · simp [hn, hall]

theorem cd_filter_map_flatMap {α β} (P : α → Bool) (g : α → β) (l : List α) :
    (l.filter P).map g = l.flatMap (fun x => if P x then [g x] else []) := by
  induction l with
  | nil => rfl
  | cons x xs ih =>
    by_cases hx : P x = true
    · simp [hx, ih]
    · simp [hx, ih]

/-- a request that maps every node of the walks to a list of items is the same map over `weItems` -/
theorem forPrefixes_weItems (s : State) (d : Option Nat) {α} (h : QItem → List α) : ∀ ps : List Bytes,
    s.forPrefixes ps (fun n p => (s.weDfs n p d).flatMap (fun bl => h (itemOf s bl))) =
      (match (weItems s d ps).2 with
       | none => .ok ((weItems s d ps).1.flatMap h)
       | some e => .error e) := by
  intro ps
  induction ps with
  | nil => simp [forPrefixes, weItems]
  | cons p ps ih =>
    rw [cd_forPrefixes_cons, ih]
    cases hn : s.lruNode (lruIter p) with
    | none => simp [weItems, hn]
    | some n =>
      simp only [weItems, hn]
      cases (weItems s d ps).2 with
      | none => simp [List.flatMap_append, List.flatMap_map]
      | some e => simp

theorem crawledFold_eq (items : List QItem) : ∀ pages : List (Bytes × Bool),
    crawledFold pages items = pages ++
      (items.flatMap (fun it => if it.2.2.flags.page then [(it.2.1, it.2.2.flags.crawled)] else [])).filter (·.2) := by
  induction items with
  | nil => intro pages; simp [crawledFold]
  | cons it items ih =>
    intro pages
    have := ih (if it.2.2.flags.page && it.2.2.flags.crawled then pages ++ [(it.2.1, true)] else pages)
    simp only [crawledFold, List.foldl_cons] at this ⊢
    rw [this]
    by_cases hp : it.2.2.flags.page = true <;> by_cases hc : it.2.2.flags.crawled = true <;>
      simp [hp, hc]

/-- **`get_webentity_crawled_pages_iter` drained = `get_webentity_crawled_pages`** on every index whose walks end
    within the atomic fuel -/
theorem crawled_drain (s : State) (ps : List Bytes) (hfin : WeFin s none ps) (N : Nat)
    (hN : (s.trie.size + 2) * ps.length + 1 < N) :
    QSt.drain s N (.crawled { cur := { prefixes := ps } }) = s.ask (.crawledPages ps) := by
  obtain ⟨N', rfl⟩ : ∃ N', N = N' + 1 := ⟨N - 1, by omega⟩
  have hlen := weItems_length s none ps
  have hq := qFuel_gt s ps.length 0
  have hq2 : (s.trie.size + 2) * ps.length ≤ (s.trie.size + 2) * (ps.length + 1) := Nat.mul_le_mul_left _ (by omega)
  rw [drain_crawled_unfold]
  have := crawledResume_run s (weRuns_init s none ps hfin) (Nat.le_refl _) [] (qFuel s ps.length 0) N'
    (by omega) (by omega)
  simp only [List.length_nil] at this ⊢
  rw [this, crawledFold_eq]
  simp only [State.ask, webentityCrawledPages, webentityPages]
  have hF : (fun n p => ((s.weDfs n p none).filter (fun bl => (s.cell bl.1).flags.page)).map
        (fun bl => (bl.2, (s.cell bl.1).flags.crawled))) =
      (fun n p => (s.weDfs n p none).flatMap (fun bl =>
        (fun it : QItem => if it.2.2.flags.page then [(it.2.1, it.2.2.flags.crawled)] else []) (itemOf s bl))) := by
    funext n p
    rw [cd_filter_map_flatMap]
    rfl
  rw [hF, forPrefixes_weItems s none
    (fun it : QItem => if it.2.2.flags.page then [(it.2.1, it.2.2.flags.crawled)] else []) ps]
  cases (weItems s none ps).2 with
  | none => simp [drainAns, Ans.ofExcept, Except.map]
  | some e => simp [drainAns, Ans.ofExcept, Except.map]

/-! ## get_webentity_most_linked_pages_iter -/

/-- what the consumer loop of the most-linked generator accumulates: the arrival counter and the bounded heap -/
def mostFold (s : State) (k : Nat) (acc : Nat × List (Nat × Nat × Bytes)) (items : List QItem) :
    Nat × List (Nat × Nat × Bytes) :=
  items.foldl (fun acc it =>
    if it.2.2.flags.page then (acc.1 + 1, boundedPush k acc.2 (s.indegreeEntries it.2.2.inn, acc.1 + 1, it.2.1))
    else acc) acc

theorem drain_most_unfold (s : State) (N : Nat) (q : MostSt) :
    QSt.drain s (N + 1) (.mostLinked q) =
      (match mostResume s q with
       | (q1, .yielded) => QSt.drain s N (.mostLinked q1)
       | (_, .done a) => a
       | (_, .failed e) => .err e) := by
  simp only [QSt.drain, QSt.resume]
  rcases mostResume s q with ⟨q1, o⟩
  cases o <;> rfl

theorem mostResume_run (s : State) (k : Nat) {m : Nat} {w : WeCur} {items : List QItem} {e : Option Err}
    (h : WeRuns s (s.trie.size + 3) m w items e) (hm : m ≤ s.trie.size + 3) :
    ∀ (count : Nat) (heap : List (Nat × Nat × Bytes)) (N : Nat), items.length < N →
      QSt.drain s N (.mostLinked ⟨w, k, count, heap⟩) =
        drainAns e (.ranked ((mostFold s k (count, heap) items).2.reverse.map (fun x => (x.2.2, x.1)))) := by
  induction h with
  | stop m w w' hfirst =>
    intro count heap N hN
    obtain ⟨N', rfl⟩ : ∃ N', N = N' + 1 := ⟨N - 1, by omega⟩
    rw [drain_most_unfold]
    simp only [mostResume, hfirst _ (Nat.le_trans hm (WeCur.fuel_ge s w)), drainAns, mostFold, List.foldl_nil]
  | fail m w w' e hfirst =>
    intro count heap N hN
    obtain ⟨N', rfl⟩ : ∃ N', N = N' + 1 := ⟨N - 1, by omega⟩
    rw [drain_most_unfold]
    simp only [mostResume, hfirst _ (Nat.le_trans hm (WeCur.fuel_ge s w)), drainAns]
  | item m w w' b lru c items e hfirst hrest hl ih =>
    intro count heap N hN
    obtain ⟨N', rfl⟩ : ∃ N', N = N' + 1 := ⟨N - 1, by omega⟩
    simp only [List.length_cons] at hN
    rw [drain_most_unfold]
    simp only [mostResume, hfirst _ (Nat.le_trans hm (WeCur.fuel_ge s w))]
    by_cases hp : c.flags.page = true
    · simp only [hp, if_true]
      rw [ih (Nat.le_refl _) _ _ N' (by omega)]
      simp only [mostFold, List.foldl_cons, hp, if_true]
    · simp only [hp, Bool.false_eq_true, if_false]
      rw [ih (Nat.le_refl _) _ _ N' (by omega)]
      simp only [mostFold, List.foldl_cons, hp, Bool.false_eq_true, if_false]

theorem mostFold_eq (s : State) (k : Nat) (items : List QItem) : ∀ (count : Nat) (heap : List (Nat × Nat × Bytes)),
    mostFold s k (count, heap) items =
      (count + (items.flatMap (fun it => if it.2.2.flags.page then [(it.2.1, s.indegreeEntries it.2.2.inn)] else [])).length,
       ((enumFrom (count + 1) (items.flatMap (fun it =>
            if it.2.2.flags.page then [(it.2.1, s.indegreeEntries it.2.2.inn)] else []))).map
          (fun ip => (ip.2.2, ip.1, ip.2.1))).foldl (boundedPush k) heap) := by
  induction items with
  | nil => intro count heap; simp [mostFold, enumFrom]
  | cons it items ih =>
    intro count heap
    simp only [mostFold, List.foldl_cons] at ih ⊢
    by_cases hp : it.2.2.flags.page = true
    · simp only [hp, if_true, List.flatMap_cons]
      rw [ih]
      simp [enumFrom, Nat.add_assoc, Nat.add_comm 1]
    · simp only [hp, Bool.false_eq_true, if_false, List.flatMap_cons, List.nil_append]
      rw [ih]

/-- **`get_webentity_most_linked_pages_iter` drained = `get_webentity_most_linked_pages`** -/
theorem mostLinked_drain (s : State) (ps : List Bytes) (k : Nat) (d : Option Nat) (hfin : WeFin s d ps) (N : Nat)
    (hN : (s.trie.size + 2) * ps.length < N) :
    QSt.drain s N (.mostLinked { cur := { prefixes := ps, depth := d }, k := k }) = s.ask (.mostLinked ps k d) := by
  have hlen := weItems_length s d ps
  rw [mostResume_run s k (weRuns_init s d ps hfin) (Nat.le_refl _) 0 [] N (by omega), mostFold_eq]
  simp only [State.ask, mostLinked]
  have hF : (fun n p => ((s.weDfs n p d).filter (fun bl => (s.cell bl.1).flags.page)).map
        (fun bl => (bl.2, s.indegreeEntries (s.cell bl.1).inn))) =
      (fun n p => (s.weDfs n p d).flatMap (fun bl =>
        (fun it : QItem => if it.2.2.flags.page then [(it.2.1, s.indegreeEntries it.2.2.inn)] else []) (itemOf s bl))) := by
    funext n p
    rw [cd_filter_map_flatMap]
    rfl
  rw [hF, forPrefixes_weItems s d
    (fun it : QItem => if it.2.2.flags.page then [(it.2.1, s.indegreeEntries it.2.2.inn)] else []) ps]
  cases (weItems s d ps).2 with
  | none => simp [drainAns, Ans.ofExcept, Except.map, topK]
  | some e => simp [drainAns, Ans.ofExcept, Except.map]

end Traph

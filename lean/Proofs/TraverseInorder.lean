import Proofs.Traverse
/-! 5. The recursive in-order traversal `inorderGo` (un-paginated) equals a structural in-order of the
    ghost tree with the irrelevant nodes pruned as in `weDfs`, path numbers included. -/
namespace Traph
open State

def T.height : T → Nat
  | .nil => 0
  | .node _ l c r => 1 + max l.height (max c.height r.height)

theorem T.height_le_size : ∀ t : T, t.height ≤ t.size
  | .nil => Nat.le_refl _
  | .node _ l c r => by
    have := T.height_le_size l; have := T.height_le_size c; have := T.height_le_size r
    simp only [T.height, T.size]; omega

/-- structural counterpart of `inorderGo start none`: left tree, node, child tree, right tree; a node is
    relevant when it is the start or carries no webentity (irrelevant: not emitted, child tree not
    entered); the siblings of the start are not entered; path numbers are extended by 1 / 2 / 3 -/
def T.weInorder (s : State) (start : Nat) : T → Bytes → Nat → List (Nat × Bytes × Nat)
  | .nil, _, _ => []
  | .node a l c r, lru, path =>
    (if a = start then [] else l.weInorder s start lru (base4Append path 1))
    ++ (if a = start ∨ (s.cell a).we = 0 then
          (a, lru ++ s.stemAt a, path) :: c.weInorder s start (lru ++ s.stemAt a) (base4Append path 2)
        else [])
    ++ (if a = start then [] else r.weInorder s start lru (base4Append path 3))

theorem inorderGo_eq_weInorder {s : State} (start : Nat) :
    ∀ (t : T) (fuel : Nat) (lru : Bytes) (path : Nat), Rep s t → t ≠ .nil → t.height ≤ fuel →
      s.inorderGo start none fuel t.root lru path = t.weInorder s start lru path := by
  intro t
  induction t with
  | nil => intro _ _ _ _ hn; exact absurd rfl hn
  | node a l c r ihl ihc ihr =>
    intro fuel lru path hr _ hf
    obtain ⟨h1, h2, h3⟩ := hr.cell_eq
    obtain ⟨ha, _, rl, rc, rr⟩ := hr
    cases fuel with
    | zero => simp [T.height] at hf
    | succ f =>
      simp only [T.height] at hf
      -- a pointer test followed by the recursive call is the structural call on the subtree
      have sub : ∀ (u : T), Rep s u → u.height ≤ f →
          (∀ (fuel : Nat) (lru : Bytes) (path : Nat), Rep s u → u ≠ .nil → u.height ≤ fuel →
            s.inorderGo start none fuel u.root lru path = u.weInorder s start lru path) →
          ∀ (x : Bytes) (p : Nat),
            (if u.root ≠ 0 then s.inorderGo start none f u.root x p else []) = u.weInorder s start x p := by
        intro u ru hu ih x p
        cases u with
        | nil => simp [T.weInorder]
        | node b l' c' r' =>
          have hb : (T.node b l' c' r').root ≠ 0 := ru.1
          rw [if_pos hb]
          exact ih f x p ru (by simp) hu
      have sl := sub l rl (by omega) ihl
      have sc := sub c rc (by omega) ihc
      have sr := sub r rr (by omega) ihr
      simp only [T.root_node, inorderGo, h1, h2, h3, T.weInorder, Bool.false_eq_true, if_false]
      by_cases e : a = start
      · subst e
        rw [← sc (lru ++ s.stemAt a) (base4Append path 2)]
        simp
      · have e1 := sl lru (base4Append path 1)
        have e3 := sr lru (base4Append path 3)
        have e2 := sc (lru ++ s.stemAt a) (base4Append path 2)
        rw [← e1, ← e2, ← e3]
        by_cases hw : (s.cell a).we = 0
        · simp [e, hw]
        · simp [e, hw]

/-- item 5: the un-paginated `webentity_inorder_iter` from a represented node -/
theorem weInorder_eq {s : State} {a : Nat} {l c r : T} (hr : Rep s (.node a l c r))
    (hsz : (T.node a l c r).size ≤ s.trie.size) (startLru : Bytes) :
    s.weInorder a startLru none
      = some ((a, lruDirname startLru ++ s.stemAt a, 0) ::
          c.weInorder s a (lruDirname startLru ++ s.stemAt a) (base4Append 0 2)) := by
  have hh := T.height_le_size (T.node a l c r)
  have := inorderGo_eq_weInorder (s := s) a (T.node a l c r) (s.trie.size + 1) (lruDirname startLru) 0
    hr (by simp) (by omega)
  simp only [T.root_node] at this
  simp [State.weInorder, this, T.weInorder]

end Traph

section
open Traph
#print axioms inorderGo_eq_weInorder
#print axioms weInorder_eq
end

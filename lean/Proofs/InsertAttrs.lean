import Proofs.Insert
/-! Attribute frame of `add_lru` (heap level, no hypothesis on the state needed): an old block keeps
    everything except its three pointers and the `noChild` flag; every fresh block (node head or tail
    chunk) carries no webentity, no page / crawled / rule flag and no link-list heads. -/
namespace Traph
open State

/-- everything of a block except `left`, `right`, `child` and the `noChild` flag -/
structure AttrEq (c c' : Cell) : Prop where
  we      : c'.we = c.we
  page    : c'.flags.page = c.flags.page
  crawled : c'.flags.crawled = c.flags.crawled
  rule    : c'.flags.rule = c.flags.rule
  isTail  : c'.flags.isTail = c.flags.isTail
  hasTail : c'.flags.hasTail = c.flags.hasTail
  linked  : c'.flags.linked = c.flags.linked
  deleted : c'.flags.deleted = c.flags.deleted
  out     : c'.out = c.out
  inn     : c'.inn = c.inn
  chunk   : c'.chunk = c.chunk
  parent  : c'.parent = c.parent

theorem AttrEq.refl (c : Cell) : AttrEq c c := ⟨rfl, rfl, rfl, rfl, rfl, rfl, rfl, rfl, rfl, rfl, rfl, rfl⟩

theorem AttrEq.trans {a b c : Cell} (h1 : AttrEq a b) (h2 : AttrEq b c) : AttrEq a c :=
  ⟨h2.we.trans h1.we, h2.page.trans h1.page, h2.crawled.trans h1.crawled, h2.rule.trans h1.rule,
   h2.isTail.trans h1.isTail, h2.hasTail.trans h1.hasTail, h2.linked.trans h1.linked,
   h2.deleted.trans h1.deleted, h2.out.trans h1.out, h2.inn.trans h1.inn, h2.chunk.trans h1.chunk,
   h2.parent.trans h1.parent⟩

/-- a block without webentity, page / crawled / rule flag and link lists -/
structure Clean (c : Cell) : Prop where
  we      : c.we = 0
  page    : c.flags.page = false
  crawled : c.flags.crawled = false
  rule    : c.flags.rule = false
  out     : c.out = 0
  inn     : c.inn = 0

theorem Clean.of_attrEq {c c' : Cell} (h : Clean c) (e : AttrEq c c') : Clean c' :=
  ⟨e.we.trans h.we, e.page.trans h.page, e.crawled.trans h.crawled, e.rule.trans h.rule,
   e.out.trans h.out, e.inn.trans h.inn⟩

theorem Clean.default : Clean ({} : Cell) := ⟨rfl, rfl, rfl, rfl, rfl, rfl⟩

theorem cell_of_size_le (s : State) (b : Nat) (h : s.trie.size ≤ b) : s.cell b = {} := by
  unfold State.cell
  rw [Array.getElem?_eq_none h]; rfl

/-- the attribute frame between two states: old blocks keep their attributes, fresh blocks are clean -/
structure AttrStep (s s' : State) : Prop where
  size : s.trie.size ≤ s'.trie.size
  old  : ∀ a, a < s.trie.size → AttrEq (s.cell a) (s'.cell a)
  new  : ∀ b, s.trie.size ≤ b → Clean (s'.cell b)

theorem AttrStep.refl (s : State) : AttrStep s s :=
  ⟨Nat.le_refl _, fun a _ => AttrEq.refl _, fun b hb => by rw [cell_of_size_le s b hb]; exact Clean.default⟩

theorem AttrStep.trans {a b c : State} (h1 : AttrStep a b) (h2 : AttrStep b c) : AttrStep a c where
  size := Nat.le_trans h1.size h2.size
  old := fun i hi => (h1.old i hi).trans (h2.old i (Nat.lt_of_lt_of_le hi h1.size))
  new := fun i hi => by
    by_cases hlt : i < b.trie.size
    · exact (h1.new i hi).of_attrEq (h2.old i hlt)
    · exact h2.new i (Nat.le_of_not_lt hlt)

theorem attrStep_modCell (s : State) (i : Nat) (f : Cell → Cell) (hf : ∀ c, AttrEq c (f c)) :
    AttrStep s (s.modCell i f) where
  size := by rw [trie_modCell_size]; exact Nat.le_refl _
  old := fun a _ => by
    rw [cell_modCell]; split
    · exact hf _
    · exact AttrEq.refl _
  new := fun b hb => by
    rw [cell_modCell, if_neg (by omega), cell_of_size_le s b hb]; exact Clean.default

theorem clean_tailCells : ∀ (chs : List Bytes) (c : Cell), c ∈ tailCells chs → Clean c
  | [], c, h => by simp [tailCells] at h
  | [a], c, h => by
    simp only [tailCells, List.mem_singleton] at h
    subst h; exact ⟨rfl, rfl, rfl, rfl, rfl, rfl⟩
  | a :: b :: r, c, h => by
    rw [tailCells_cons_cons, List.mem_cons] at h
    rcases h with rfl | h
    · exact ⟨rfl, rfl, rfl, rfl, rfl, rfl⟩
    · exact clean_tailCells (b :: r) c h

theorem clean_tailsOf (stem : Bytes) (c : Cell) (h : c ∈ tailsOf stem) : Clean c := by
  unfold tailsOf at h
  split at h
  · exact clean_tailCells _ c h
  · simp at h

theorem attrStep_writeNew (s : State) (stem : Bytes) (p : Nat) (ch : Bool) :
    AttrStep s (s.writeNew stem p ch).1 where
  size := Nat.le_of_lt (size_lt_writeNew s stem p ch)
  old := fun a ha => by
    have : (s.writeNew stem p ch).1.cell a = s.cell a := by
      unfold State.cell; rw [writeNew_old s stem p ch a ha]
    rw [this]; exact AttrEq.refl _
  new := fun b hb => by
    by_cases e : b = s.trie.size
    · subst e; rw [cell_writeNew_head]; exact ⟨rfl, rfl, rfl, rfl, rfl, rfl⟩
    · unfold State.cell
      rw [writeNew_trie, Array.getElem?_append_right (by rw [Array.size_push]; omega),
        List.getElem?_toArray]
      cases hk : (tailsOf stem)[b - (s.trie.push (headCell stem p ch)).size]? with
      | none => exact Clean.default
      | some c => exact clean_tailsOf stem c (List.mem_of_getElem? hk)

theorem attrEq_setSlot (c : Cell) (sl : Slot) (v : Nat) : AttrEq c (c.setSlot sl v) := by
  cases sl <;> exact ⟨rfl, rfl, rfl, rfl, rfl, rfl, rfl, rfl, rfl, rfl, rfl, rfl⟩

theorem attrStep_markCanHave (s : State) (n : Nat) (b : Bool) : AttrStep s (s.markCanHave n b) := by
  unfold markCanHave; split
  · exact attrStep_modCell s n _ (fun c => ⟨rfl, rfl, rfl, rfl, rfl, rfl, rfl, rfl, rfl, rfl, rfl, rfl⟩)
  · exact AttrStep.refl s

theorem attrStep_ensureStem (s : State) (start : Nat) (ex : Bool) (stem : Stem) :
    AttrStep s (s.ensureStem start ex stem).1 := by
  unfold ensureStem
  split
  · exact attrStep_writeNew _ _ _ _
  · split
    · exact AttrStep.refl s
    · exact AttrStep.refl s
    · exact (attrStep_writeNew s stem _ false).trans
        (attrStep_modCell _ _ _ (fun c => attrEq_setSlot c _ _))

theorem attrStep_addLruDescend (flag : Bool) : ∀ (stems : List Stem) (s : State) (node : Nat) (ex : Bool)
    (pos : Nat) (h : Hist), AttrStep s (addLruDescend flag s stems node ex pos h).1 := by
  intro stems
  induction stems with
  | nil => intro s node ex pos h; exact AttrStep.refl s
  | cons stem rest ih =>
    intro s node ex pos h
    rcases he : s.ensureStem node ex stem with ⟨s1, n⟩
    have h1 : AttrStep s s1 := by have := attrStep_ensureStem s node ex stem; rw [he] at this; exact this
    simp only [addLruDescend, he]
    split
    · exact h1.trans ((attrStep_markCanHave _ _ _).trans (ih _ _ _ _ _))
    · exact h1.trans (attrStep_markCanHave _ _ _)

theorem attrStep_addLruCreate (flag : Bool) : ∀ (stems : List Stem) (s : State) (node : Nat),
    AttrStep s (addLruCreate flag s stems node).1 := by
  intro stems
  induction stems with
  | nil => intro s node; exact AttrStep.refl s
  | cons stem rest ih =>
    intro s node
    rw [addLruCreate_cons]
    exact (attrStep_writeNew s stem node _).trans
      ((attrStep_modCell _ _ _ (fun c => attrEq_setSlot c _ _)).trans (ih _ _))

theorem attrStep_addLru (s : State) (stems : LRU) (flag : Bool) : AttrStep s (s.addLru stems flag).1 :=
  (attrStep_addLruDescend flag stems s 1 (decide (s.trie.size > 1)) 0 {}).trans
    (attrStep_addLruCreate flag _ _ _)

/-- SECONDARY (old blocks): `add_lru` changes nothing of an old block except its pointers and the
    `noChild` flag -/
theorem addLru_attrs_old (s : State) (stems : LRU) (flag : Bool) (a : Nat) (ha : a < s.trie.size) :
    let c' := (s.addLru stems flag).1.cell a
    let c  := s.cell a
    c'.we = c.we ∧ c'.flags.page = c.flags.page ∧ c'.flags.crawled = c.flags.crawled ∧
    c'.flags.rule = c.flags.rule ∧ c'.flags.isTail = c.flags.isTail ∧ c'.out = c.out ∧ c'.inn = c.inn ∧
    c'.chunk = c.chunk ∧ c'.parent = c.parent ∧
    c'.flags.hasTail = c.flags.hasTail ∧ c'.flags.linked = c.flags.linked ∧
    c'.flags.deleted = c.flags.deleted := by
  intro c' c
  have e := (attrStep_addLru s stems flag).old a ha
  exact ⟨e.we, e.page, e.crawled, e.rule, e.isTail, e.out, e.inn, e.chunk, e.parent, e.hasTail,
    e.linked, e.deleted⟩

/-- SECONDARY (fresh blocks): every block appended by `add_lru` — head of a new tree node or tail chunk —
    has no webentity, no page / crawled / rule flag, no link lists -/
theorem addLru_attrs_new (s : State) (stems : LRU) (flag : Bool) (b : Nat) (hb : s.trie.size ≤ b) :
    let c' := (s.addLru stems flag).1.cell b
    c'.we = 0 ∧ c'.flags.page = false ∧ c'.flags.crawled = false ∧ c'.flags.rule = false ∧
    c'.out = 0 ∧ c'.inn = 0 := by
  intro c'
  have e := (attrStep_addLru s stems flag).new b hb
  exact ⟨e.we, e.page, e.crawled, e.rule, e.out, e.inn⟩

/-- the two frames packaged with MAIN: the ghost tree after the insertion, whose fresh nodes are clean -/
theorem addLru_shape_attrs {s : State} {t : T} (h : Shape s t) (stems : LRU) (flag : Bool)
    (hne : stems ≠ []) :
    ∃ t', Shape (s.addLru stems flag).1 t' ∧
      (stems, (s.addLru stems flag).2.1) ∈ t'.entries (s.addLru stems flag).1 [] ∧
      (∀ b ∈ t'.addrs, b ∈ t.addrs ∨ (s.trie.size ≤ b ∧ Clean ((s.addLru stems flag).1.cell b))) ∧
      (∀ a, a < s.trie.size → AttrEq (s.cell a) ((s.addLru stems flag).1.cell a)) := by
  obtain ⟨t', gr, hent⟩ := addLru_grow h stems flag hne
  refine ⟨t', gr.shape, hent, ?_, (attrStep_addLru s stems flag).old⟩
  intro b hb
  by_cases hlt : b < s.trie.size
  · left
    obtain ⟨p, hp⟩ := T.addrs_mem_entries (s := (s.addLru stems flag).1) t' [] hb
    rcases gr.new p b hp with hm | ⟨hge, _⟩
    · exact T.entries_mem_addrs t [] hm
    · omega
  · exact Or.inr ⟨Nat.le_of_not_lt hlt, (attrStep_addLru s stems flag).new b (Nat.le_of_not_lt hlt)⟩

#print axioms addLru_attrs_old
#print axioms addLru_attrs_new
#print axioms addLru_shape_attrs

end Traph

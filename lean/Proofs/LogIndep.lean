import Traph.Step
/-! Log-independence: the ghost write log `State.log` is never read by the model's write requests.
    Every write request commutes with putting extra (older) entries underneath the log. -/
namespace Traph
open State

/-- the same state with `l` put underneath its log (the log is newest-first, so older entries go at the end) -/
def State.addLog (s : State) (l : List Write) : State := { s with log := s.log ++ l }

namespace State

/-- case-split every `if`/`match` left in the goal, closing each branch by `rfl` -/
local macro "logsplit" : tactic => `(tactic| repeat' (first | rfl | split))

/-! ### field lemmas -/

@[simp] theorem addLog_trie (s : State) (l : List Write) : (s.addLog l).trie = s.trie := rfl
@[simp] theorem addLog_links (s : State) (l : List Write) : (s.addLog l).links = s.links := rfl
@[simp] theorem addLog_hdrId (s : State) (l : List Write) : (s.addLog l).hdrId = s.hdrId := rfl
@[simp] theorem addLog_rules (s : State) (l : List Write) : (s.addLog l).rules = s.rules := rfl
@[simp] theorem addLog_dflt (s : State) (l : List Write) : (s.addLog l).dflt = s.dflt := rfl
@[simp] theorem addLog_cfg (s : State) (l : List Write) : (s.addLog l).cfg = s.cfg := rfl
@[simp] theorem addLog_log (s : State) (l : List Write) : (s.addLog l).log = s.log ++ l := rfl
@[simp] theorem addLog_cell (s : State) (l : List Write) (i : Nat) : (s.addLog l).cell i = s.cell i := rfl

@[simp] theorem addLog_nil (s : State) : s.addLog [] = s := by
  cases s; simp only [addLog, List.append_nil]

@[simp] theorem addLog_addLog (s : State) (a b : List Write) : (s.addLog a).addLog b = s.addLog (a ++ b) := by
  cases s; simp only [addLog, List.append_assoc]

theorem nolog_addLog (s : State) : ({ s with log := [] } : State).addLog s.log = s := rfl

/-! ### primitives -/

theorem appendCell_addLog (s : State) (l : List Write) (c : Cell) :
    (s.addLog l).appendCell c = ((s.appendCell c).1.addLog l, (s.appendCell c).2) := rfl

theorem setCell_addLog (s : State) (l : List Write) (i : Nat) (c : Cell) :
    (s.addLog l).setCell i c = (s.setCell i c).addLog l := rfl

theorem appendStub_addLog (s : State) (l : List Write) (b : Stub) :
    (s.addLog l).appendStub b = ((s.appendStub b).1.addLog l, (s.appendStub b).2) := rfl

theorem setHdr_addLog (s : State) (l : List Write) (id : Nat) :
    (s.addLog l).setHdr id = (s.setHdr id).addLog l := rfl

theorem modCell_addLog (s : State) (l : List Write) (i : Nat) (f : Cell → Cell) :
    (s.addLog l).modCell i f = (s.modCell i f).addLog l := by
  unfold modCell
  simp only [addLog_trie]
  cases s.trie[i]? <;> rfl

theorem foldl_modCell_addLog {α} (g : α → Nat) (f : α → Cell → Cell) (xs : List α) (s : State) (l : List Write) :
    xs.foldl (fun st x => st.modCell (g x) (f x)) (s.addLog l)
      = (xs.foldl (fun st x => st.modCell (g x) (f x)) s).addLog l := by
  induction xs generalizing s with
  | nil => rfl
  | cons x xs ih => simp only [List.foldl_cons, modCell_addLog, ih]

/-! ### read-only functions -/

theorem readTail_addLog (s : State) (l : List Write) (fuel i : Nat) :
    (s.addLog l).readTail fuel i = s.readTail fuel i := by
  induction fuel generalizing i with
  | zero => rfl
  | succ n ih => simp only [readTail, addLog_trie, ih]

theorem stemAt_addLog (s : State) (l : List Write) (i : Nat) : (s.addLog l).stemAt i = s.stemAt i := by
  simp only [stemAt, addLog_trie, readTail_addLog]

theorem findSib_addLog (s : State) (l : List Write) (stem : Stem) (fuel p : Nat) :
    (s.addLog l).findSib stem fuel p = s.findSib stem fuel p := by
  induction fuel generalizing p with
  | zero => rfl
  | succ n ih => simp only [findSib, addLog_trie, stemAt_addLog, ih]

theorem longestCandidate_addLog (s : State) (l : List Write) (lru : Bytes) (h : Hist) :
    (s.addLog l).longestCandidate lru h = s.longestCandidate lru h := rfl

theorem lruNodeGo_addLog (s : State) (l : List Write) (stems : List Stem) (node : Nat) :
    (s.addLog l).lruNodeGo stems node = s.lruNodeGo stems node := by
  induction stems generalizing node with
  | nil => rfl
  | cons st rest ih => simp only [lruNodeGo, addLog_trie, findSib_addLog, addLog_cell, ih]

theorem lruNode_addLog (s : State) (l : List Write) (stems : LRU) :
    (s.addLog l).lruNode stems = s.lruNode stems := by
  simp only [lruNode, addLog_trie, lruNodeGo_addLog]

theorem deleteScanChecked_addLog (s : State) (l : List Write) (weid : Nat) (ps : List Bytes) (idx : List (Bytes × Nat)) :
    (s.addLog l).deleteScanChecked weid ps idx = s.deleteScanChecked weid ps idx := by
  induction ps generalizing idx with
  | nil => rfl
  | cons p ps ih =>
    simp only [deleteScanChecked, lruNode_addLog, addLog_cell, ih]
    rfl

/-! ### trie writes -/

theorem appendCells_addLog (s : State) (l : List Write) (cs : List Cell) :
    (s.addLog l).appendCells cs = (s.appendCells cs).addLog l := by
  induction cs generalizing s with
  | nil => rfl
  | cons c cs ih => simp only [appendCells, appendCell_addLog, ih]

theorem writeNew_addLog (s : State) (l : List Write) (stem : Stem) (parent : Nat) (canHave : Bool) :
    (s.addLog l).writeNew stem parent canHave
      = ((s.writeNew stem parent canHave).1.addLog l, (s.writeNew stem parent canHave).2) := by
  simp only [writeNew, appendCell_addLog, appendCells_addLog]

theorem ensureStem_addLog (s : State) (l : List Write) (start : Nat) (ex : Bool) (stem : Stem) :
    (s.addLog l).ensureStem start ex stem
      = ((s.ensureStem start ex stem).1.addLog l, (s.ensureStem start ex stem).2) := by
  unfold ensureStem
  simp only [findSib_addLog, addLog_trie, addLog_cell, writeNew_addLog, modCell_addLog]
  split
  · rfl
  · split <;> rfl

theorem markCanHave_addLog (s : State) (l : List Write) (n : Nat) (b : Bool) :
    (s.addLog l).markCanHave n b = (s.markCanHave n b).addLog l := by
  unfold markCanHave
  split
  · rw [modCell_addLog]
  · rfl

theorem addLruDescend_addLog (flag : Bool) (s : State) (l : List Write) (stems : List Stem)
    (node : Nat) (ex : Bool) (pos : Nat) (h : Hist) :
    addLruDescend flag (s.addLog l) stems node ex pos h
      = ((addLruDescend flag s stems node ex pos h).1.addLog l, (addLruDescend flag s stems node ex pos h).2) := by
  induction stems generalizing s node ex pos h with
  | nil => rfl
  | cons stem rest ih =>
    simp only [addLruDescend, ensureStem_addLog, addLog_cell, markCanHave_addLog, ih]
    split <;> rfl

theorem addLruCreate_addLog (flag : Bool) (s : State) (l : List Write) (stems : List Stem) (node : Nat) :
    addLruCreate flag (s.addLog l) stems node
      = ((addLruCreate flag s stems node).1.addLog l, (addLruCreate flag s stems node).2) := by
  induction stems generalizing s node with
  | nil => rfl
  | cons stem rest ih =>
    simp only [addLruCreate, writeNew_addLog, modCell_addLog, ih]

theorem addLru_addLog (s : State) (l : List Write) (stems : LRU) (flag : Bool) :
    (s.addLog l).addLru stems flag = ((s.addLru stems flag).1.addLog l, (s.addLru stems flag).2) := by
  simp only [addLru, addLruDescend_addLog, addLog_trie, addLruCreate_addLog]
  rfl

theorem addPageTrie_addLog (s : State) (l : List Write) (stems : LRU) (crawled : Bool) :
    (s.addLog l).addPageTrie stems crawled
      = ((s.addPageTrie stems crawled).1.addLog l, (s.addPageTrie stems crawled).2) := by
  simp only [addPageTrie, addLru_addLog, addLog_cell, modCell_addLog]
  split
  · rfl
  · split <;> rfl

/-! ### link store writes -/

theorem addStubsGo_addLog (s : State) (l : List Write) (tail : Nat) (ts : List Nat) :
    addStubsGo (s.addLog l) tail ts = ((addStubsGo s tail ts).1.addLog l, (addStubsGo s tail ts).2) := by
  induction ts generalizing s tail with
  | nil => rfl
  | cons t ts ih => simp only [addStubsGo, appendStub_addLog, ih]

theorem addStubs_addLog (s : State) (l : List Write) (page : Nat) (targets : List Nat) (out : Bool) :
    (s.addLog l).addStubs page targets out = (s.addStubs page targets out).addLog l := by
  simp only [addStubs, addLog_cell, addStubsGo_addLog, modCell_addLog]
  split <;> rfl

/-! ### API helpers -/

theorem mk_addLog (h : Nat) (t : Array Cell) (k : Array Stub) (r : List (Bytes × Rule)) (d : Rule) (c : Config)
    (lg l : List Write) :
    (⟨h, t, k, r, d, c, lg ++ l⟩ : State) = (⟨h, t, k, r, d, c, lg⟩ : State).addLog l := rfl

theorem genId_addLog (s : State) (l : List Write) :
    (s.addLog l).genId = (s.genId.1.addLog l, s.genId.2) := rfl

theorem addPrefixesScan_addLog (s : State) (l : List Write) (ps : List Bytes) (valid : List (Bytes × Nat)) (nInvalid : Nat) :
    addPrefixesScan (s.addLog l) ps valid nInvalid
      = ((addPrefixesScan s ps valid nInvalid).1.addLog l, (addPrefixesScan s ps valid nInvalid).2) := by
  induction ps generalizing s valid nInvalid with
  | nil => rfl
  | cons p ps ih =>
    simp only [addPrefixesScan, addLru_addLog, addLog_cell]
    split
    · rw [ih]
    · rw [ih]

theorem addPrefixes_addLog (s : State) (l : List Write) (prefixes : List Bytes) (best : Bool) :
    (s.addLog l).addPrefixes prefixes best
      = ((s.addPrefixes prefixes best).1.addLog l, (s.addPrefixes prefixes best).2) := by
  simp only [addPrefixes, addPrefixesScan_addLog, genId_addLog, foldl_modCell_addLog]
  split
  · rfl
  · split <;> rfl

theorem createWebentityAuto_addLog (s : State) (l : List Write) (pfx : Bytes) :
    (s.addLog l).createWebentityAuto pfx
      = ((s.createWebentityAuto pfx).1.addLog l, (s.createWebentityAuto pfx).2) := by
  unfold createWebentityAuto
  rw [addPrefixes_addLog]
  generalize s.addPrefixes (lruVariations pfx) true = X
  rcases X with ⟨s1, (e | ⟨(_ | id), ps⟩)⟩ <;> rfl

theorem addPageCore_addLog (s : State) (l : List Write) (lru : Bytes) (crawled : Bool) :
    (s.addLog l).addPageCore lru crawled
      = ((s.addPageCore lru crawled).1.addLog l, (s.addPageCore lru crawled).2) := by
  unfold addPageCore
  rw [addPageTrie_addLog]
  generalize s.addPageTrie (lruIter lru) crawled = X
  rcases X with ⟨s1, n, h⟩
  simp only [longestCandidate_addLog, addLog_dflt, createWebentityAuto_addLog]
  logsplit

/-! ### write requests -/

theorem addPage_addLog (s : State) (l : List Write) (lru : Bytes) (crawled : Bool) :
    (s.addLog l).addPage lru crawled = ((s.addPage lru crawled).1.addLog l, (s.addPage lru crawled).2) := by
  simp only [addPage, addPageCore_addLog]

theorem addPagesGo_addLog (always : Bool) (s : State) (l : List Write) (ls : List Bytes) (crawled : Bool) (rep : Report) :
    addPagesGo always (s.addLog l) ls crawled rep
      = ((addPagesGo always s ls crawled rep).1.addLog l, (addPagesGo always s ls crawled rep).2) := by
  induction ls generalizing s rep with
  | nil => rfl
  | cons x ls ih =>
    unfold addPagesGo
    rw [addPageCore_addLog]
    generalize s.addPageCore x crawled = X
    rcases X with ⟨s1, n, (e | r)⟩
    · rfl
    · cases always
      · exact ih s1 _
      · simp only [if_true, modCell_addLog]
        exact ih _ _

theorem addPages_addLog (s : State) (l : List Write) (lrus : List Bytes) (crawled : Bool) :
    (s.addLog l).addPages lrus crawled = ((s.addPages lrus crawled).1.addLog l, (s.addPages lrus crawled).2) := by
  simp only [addPages, addLog_cfg, addPagesGo_addLog]

theorem ensurePageCached_addLog (s : State) (l : List Write) (acc : LinkAcc) (x : Bytes) (crawled : Bool) :
    (s.addLog l).ensurePageCached acc x crawled
      = ((s.ensurePageCached acc x crawled).1.addLog l, (s.ensurePageCached acc x crawled).2) := by
  unfold ensurePageCached
  cases dictGet? acc.pages x with
  | some _ => rfl
  | none =>
    simp only
    rw [addPageCore_addLog]
    generalize s.addPageCore x crawled = X
    rcases X with ⟨s1, n, (e | r)⟩ <;> rfl

theorem flushLists_addLog (out : Bool) (pages : List (Bytes × Nat)) (s : State) (l : List Write)
    (xs : List (Bytes × List Bytes)) :
    flushLists out pages (s.addLog l) xs = (flushLists out pages s xs).addLog l := by
  induction xs generalizing s with
  | nil => rfl
  | cons x xs ih =>
    obtain ⟨p, others⟩ := x
    simp only [flushLists, addStubs_addLog, ih]

theorem addLinksScan_addLog (s : State) (l : List Write) (links : List (Bytes × Bytes)) (acc : LinkAcc) :
    addLinksScan (s.addLog l) links acc
      = ((addLinksScan s links acc).1.addLog l, (addLinksScan s links acc).2) := by
  induction links generalizing s acc with
  | nil => rfl
  | cons x rest ih =>
    obtain ⟨src, tgt⟩ := x
    unfold addLinksScan
    rw [ensurePageCached_addLog]
    generalize s.ensurePageCached acc src false = X
    rcases X with ⟨s1, (e | acc1)⟩
    · rfl
    · simp only
      rw [ensurePageCached_addLog]
      generalize s1.ensurePageCached acc1 tgt false = Y
      rcases Y with ⟨s2, (e | acc2)⟩
      · rfl
      · exact ih _ _

theorem addLinks_addLog (s : State) (l : List Write) (links : List (Bytes × Bytes)) :
    (s.addLog l).addLinks links = ((s.addLinks links).1.addLog l, (s.addLinks links).2) := by
  unfold addLinks
  rw [addLinksScan_addLog]
  generalize addLinksScan s links {} = X
  rcases X with ⟨s1, (e | acc)⟩
  · rfl
  · simp only [flushLists_addLog]

theorem batchTargets_addLog (s : State) (l : List Write) (src : Bytes) (ts : List Bytes) (acc : LinkAcc) (tb : List Nat) :
    batchTargets (s.addLog l) src ts acc tb
      = ((batchTargets s src ts acc tb).1.addLog l, (batchTargets s src ts acc tb).2) := by
  induction ts generalizing s acc tb with
  | nil => rfl
  | cons t ts ih =>
    unfold batchTargets
    rw [ensurePageCached_addLog]
    generalize s.ensurePageCached acc t false = X
    rcases X with ⟨s1, (e | acc1)⟩
    · rfl
    · exact ih _ _ _

/-- the first step of `batchSources` on one source (the `r1` of its body) -/
def bsHead (s : State) (acc : LinkAcc) (src : Bytes) : State × Except Err LinkAcc :=
  match dictGet? acc.pages src with
  | none => s.ensurePageCached acc src true
  | some n =>
    if !(s.cell n).flags.crawled then
      (s.modCell n (fun c => { c with flags := { c.flags with crawled := true } }), .ok acc)
    else (s, .ok acc)

/-- the rest of the body of `batchSources` after `r1` -/
def bsCont (src : Bytes) (tgts : List Bytes) (rest : List (Bytes × List Bytes))
    (r1 : State × Except Err LinkAcc) : State × Except Err LinkAcc :=
  match r1 with
  | (s1, .error e) => (s1, .error e)
  | (s1, .ok acc1) =>
    match batchTargets s1 src tgts acc1 [] with
    | (s2, .error e) => (s2, .error e)
    | (s2, .ok (acc2, tb)) =>
      let s3 := s2.addStubs ((dictGet? acc2.pages src).getD 0) tb true
      batchSources s3 rest acc2

theorem batchSources_cons (s : State) (src : Bytes) (tgts : List Bytes) (rest : List (Bytes × List Bytes))
    (acc : LinkAcc) :
    batchSources s ((src, tgts) :: rest) acc = bsCont src tgts rest (bsHead s acc src) := rfl

theorem bsHead_addLog (s : State) (l : List Write) (acc : LinkAcc) (src : Bytes) :
    bsHead (s.addLog l) acc src = ((bsHead s acc src).1.addLog l, (bsHead s acc src).2) := by
  unfold bsHead
  cases dictGet? acc.pages src with
  | none => exact ensurePageCached_addLog _ _ _ _ _
  | some n =>
    simp only [addLog_cell, modCell_addLog]
    logsplit

theorem batchSources_addLog (s : State) (l : List Write) (data : List (Bytes × List Bytes)) (acc : LinkAcc) :
    batchSources (s.addLog l) data acc
      = ((batchSources s data acc).1.addLog l, (batchSources s data acc).2) := by
  induction data generalizing s acc with
  | nil => rfl
  | cons x rest ih =>
    obtain ⟨src, tgts⟩ := x
    rw [batchSources_cons, batchSources_cons, bsHead_addLog]
    generalize bsHead s acc src = X
    rcases X with ⟨s1, (e | acc1)⟩
    · rfl
    · unfold bsCont
      simp only
      rw [batchTargets_addLog]
      generalize batchTargets s1 src tgts acc1 [] = Y
      rcases Y with ⟨s2, (e | ⟨acc2, tb⟩)⟩
      · rfl
      · simp only [addStubs_addLog]
        exact ih _ _

theorem batch_addLog (s : State) (l : List Write) (data : List (Bytes × List Bytes)) :
    (s.addLog l).batch data = ((s.batch data).1.addLog l, (s.batch data).2) := by
  unfold batch
  rw [batchSources_addLog]
  generalize batchSources s data {} = X
  rcases X with ⟨s1, (e | acc)⟩
  · rfl
  · simp only [flushLists_addLog]

theorem addRuleLoop_addLog (startBlock : Nat) (fuel : Nat) (s : State) (l : List Write)
    (stack : List (Nat × Bytes)) (rep : Report) :
    addRuleLoop startBlock fuel (s.addLog l) stack rep
      = ((addRuleLoop startBlock fuel s stack rep).1.addLog l, (addRuleLoop startBlock fuel s stack rep).2) := by
  induction fuel generalizing s stack rep with
  | zero => rfl
  | succ n ih =>
    cases stack with
    | nil => rfl
    | cons bl stack =>
      obtain ⟨b, lru⟩ := bl
      simp only [addRuleLoop, addLog_cell, stemAt_addLog, addPageCore_addLog]
      cases (s.cell b).flags.page
      · simp only [Bool.false_eq_true, if_false]
        exact ih _ _ _
      · simp only [if_true]
        generalize s.addPageCore (lru ++ s.stemAt b) false = X
        rcases X with ⟨s1, n', (e | r1)⟩
        · rfl
        · exact ih _ _ _

theorem addRule_addLog (s : State) (l : List Write) (anchor : Bytes) (r : Rule) (writeInTrie : Bool) :
    (s.addLog l).addRule anchor r writeInTrie
      = ((s.addRule anchor r writeInTrie).1.addLog l, (s.addRule anchor r writeInTrie).2) := by
  unfold addRule
  simp only [addLog_hdrId, addLog_trie, addLog_links, addLog_rules, addLog_dflt, addLog_cfg, addLog_log, mk_addLog,
    addLru_addLog, modCell_addLog, addRuleLoop_addLog]
  split <;> rfl

theorem removeRule_addLog (s : State) (l : List Write) (anchor : Bytes) :
    (s.addLog l).removeRule anchor = ((s.removeRule anchor).1.addLog l, (s.removeRule anchor).2) := by
  unfold removeRule
  simp only [addLog_hdrId, addLog_trie, addLog_links, addLog_rules, addLog_dflt, addLog_cfg, addLog_log, mk_addLog,
    lruNode_addLog, modCell_addLog]
  cases dictGet? s.rules anchor with
  | none => rfl
  | some _ =>
    simp only
    split <;> rfl

theorem createWebentity_addLog (s : State) (l : List Write) (prefixes : List Bytes) :
    (s.addLog l).createWebentity prefixes
      = ((s.createWebentity prefixes).1.addLog l, (s.createWebentity prefixes).2) := by
  unfold createWebentity
  rw [addPrefixes_addLog]
  generalize s.addPrefixes prefixes false = X
  rcases X with ⟨s1, (e | ⟨id, ps⟩)⟩ <;> rfl

theorem deleteWebentity_addLog (s : State) (l : List Write) (weid : Nat) (prefixes : List Bytes) :
    (s.addLog l).deleteWebentity weid prefixes
      = ((s.deleteWebentity weid prefixes).1.addLog l, (s.deleteWebentity weid prefixes).2) := by
  unfold deleteWebentity
  rw [deleteScanChecked_addLog]
  cases s.deleteScanChecked weid prefixes [] with
  | error e => rfl
  | ok idx => simp only [foldl_modCell_addLog]

theorem addPrefix_addLog (s : State) (l : List Write) (pfx : Bytes) (weid : Nat) :
    (s.addLog l).addPrefix pfx weid = ((s.addPrefix pfx weid).1.addLog l, (s.addPrefix pfx weid).2) := by
  simp only [addPrefix, addLru_addLog, addLog_cell, modCell_addLog]
  split <;> rfl

theorem removePrefix_addLog (s : State) (l : List Write) (pfx : Bytes) (weid : Option Nat) :
    (s.addLog l).removePrefix pfx weid
      = ((s.removePrefix pfx weid).1.addLog l, (s.removePrefix pfx weid).2) := by
  simp only [removePrefix, addLru_addLog, addLog_cell, modCell_addLog]
  logsplit

theorem movePrefix_addLog (s : State) (l : List Write) (pfx : Bytes) (target : Nat) (source : Option Nat) :
    (s.addLog l).movePrefix pfx target source
      = ((s.movePrefix pfx target source).1.addLog l, (s.movePrefix pfx target source).2) := by
  unfold movePrefix
  rw [removePrefix_addLog]
  generalize s.removePrefix pfx source = X
  rcases X with ⟨s1, (e | u)⟩
  · rfl
  · exact addPrefix_addLog _ _ _ _

theorem installRules_addLog (s : State) (l : List Write) (rules : List (Bytes × Rule)) (w : Bool) :
    installRules (s.addLog l) rules w = ((installRules s rules w).1.addLog l, (installRules s rules w).2) := by
  induction rules generalizing s with
  | nil => rfl
  | cons x rest ih =>
    obtain ⟨a, r⟩ := x
    unfold installRules
    rw [addRule_addLog]
    generalize s.addRule a r w = X
    rcases X with ⟨s1, (e | u)⟩
    · rfl
    · exact ih _

theorem reopen_addLog (s : State) (l : List Write) (dflt : Rule) (rules : List (Bytes × Rule)) :
    (s.addLog l).reopen dflt rules = (s.reopen dflt rules).addLog l := rfl

theorem clear_addLog (s : State) (l : List Write) (dflt : Option Rule) (rules : Option (List (Bytes × Rule))) :
    (s.addLog l).clear dflt rules = ((s.clear dflt rules).1.addLog l, (s.clear dflt rules).2) := by
  cases rules with
  | none => rfl
  | some rs =>
    exact installRules_addLog
      { cfg := s.cfg, dflt := dflt.getD s.dflt, rules := [], log := .linkHdr :: .hdr 0 :: s.log } l rs true

end State

/-! ### the request language -/

/-- MAIN: every write request commutes with `addLog` -/
theorem step_addLog (s : State) (op : Op) (l : List Write) :
    (s.addLog l).step op = (((s.step op).1).addLog l, (s.step op).2) := by
  cases op with
  | addPage x c => simp only [step, addPage_addLog]
  | addPages ls c => simp only [step, addPages_addLog]
  | addLinks ls => simp only [step, addLinks_addLog]
  | batch d => simp only [step, batch_addLog]
  | create ps => simp only [step, createWebentity_addLog]
  | delete w ps => simp only [step, deleteWebentity_addLog]
  | addPrefix p w => simp only [step, addPrefix_addLog]
  | removePrefix p w => simp only [step, removePrefix_addLog]
  | movePrefix p t f => simp only [step, movePrefix_addLog]
  | addRule a r => simp only [step, addRule_addLog]
  | removeRule a => simp only [step, removeRule_addLog]
  | reopen d rs => rfl
  | clear d rs => simp only [step, clear_addLog]

theorem fresh_addLog (cfg : Config) (dflt : Rule) (rules : List (Bytes × Rule)) (l : List Write) :
    State.fresh cfg dflt rules l
      = (((State.fresh cfg dflt rules []).1).addLog l, (State.fresh cfg dflt rules []).2) :=
  installRules_addLog { cfg := cfg, dflt := dflt, log := [.linkHdr, .hdr 0] } l rules true

theorem run_addLog (ops : List Op) (s : State) (l : List Write) : (s.addLog l).run ops = (s.run ops).addLog l := by
  induction ops generalizing s with
  | nil => rfl
  | cons op ops ih =>
    simp only [run, List.foldl_cons] at ih ⊢
    rw [step_addLog]
    exact ih _

/-- corollaries in the form the driver uses (it runs each request from `{ s with log := [] }`) -/
theorem step_eq_of_nolog (s : State) (op : Op) :
    s.step op = (((({ s with log := [] } : State).step op).1).addLog s.log,
                 (({ s with log := [] } : State).step op).2) :=
  step_addLog { s with log := [] } op s.log

theorem step_log (s : State) (op : Op) :
    (s.step op).1.log = (({ s with log := [] } : State).step op).1.log ++ s.log := by
  rw [step_eq_of_nolog s op]
  rfl

end Traph

#print axioms Traph.step_addLog
#print axioms Traph.fresh_addLog
#print axioms Traph.run_addLog
#print axioms Traph.step_eq_of_nolog
#print axioms Traph.step_log

import Proofs.InsertStep
/-! `add_lru` preserves the shape invariant, returns the block of the requested LRU, adds exactly the
    missing stem-prefixes (at fresh addresses) and leaves every old entry and stem alone. -/
namespace Traph
open State

/-! ### `Grow`: the transitive relation "shape kept, finite map extended by prefixes of `stems`" -/

structure Grow (stems : LRU) (s : State) (t : T) (s' : State) (t' : T) : Prop where
  shape : Shape s' t'
  size : s.trie.size ≤ s'.trie.size
  keep : ∀ p b, (p, b) ∈ t.entries s [] → (p, b) ∈ t'.entries s' []
  new : ∀ p b, (p, b) ∈ t'.entries s' [] → (p, b) ∈ t.entries s [] ∨
      (s.trie.size ≤ b ∧ ∃ k, 0 < k ∧ k ≤ stems.length ∧ p = stems.take k)
  stem : ∀ a, a < s.trie.size → s'.stemAt a = s.stemAt a

theorem Grow.refl {stems : LRU} {s : State} {t : T} (h : Shape s t) : Grow stems s t s t :=
  ⟨h, Nat.le_refl _, fun _ _ hm => hm, fun _ _ hm => Or.inl hm, fun _ _ => rfl⟩

theorem Grow.trans {stems : LRU} {s0 s1 s2 : State} {t0 t1 t2 : T}
    (h1 : Grow stems s0 t0 s1 t1) (h2 : Grow stems s1 t1 s2 t2) : Grow stems s0 t0 s2 t2 where
  shape := h2.shape
  size := Nat.le_trans h1.size h2.size
  keep := fun p b hm => h2.keep p b (h1.keep p b hm)
  new := fun p b hm => by
    rcases h2.new p b hm with h | ⟨hb, hk⟩
    · exact h1.new p b h
    · exact Or.inr ⟨Nat.le_trans h1.size hb, hk⟩
  stem := fun a ha => by rw [h2.stem a (Nat.lt_of_lt_of_le ha h1.size), h1.stem a ha]

theorem Grow.of_noStruct {stems : LRU} {s s' : State} {t : T} (h : Shape s t) (n : NoStruct s s') :
    Grow stems s t s' t := by
  have e : t.entries s' [] = t.entries s [] := T.entries_frame t [] (fun a _ => n.stemAt a)
  exact ⟨n.shape h, Nat.le_of_eq n.1.symm, fun p b hm => by rw [e]; exact hm,
    fun p b hm => by rw [e] at hm; exact Or.inl hm, fun a _ => n.stemAt a⟩

/-- one `GraftStep` at a hole of the whole tree whose bounds enclose the new stem -/
theorem Grow.graft_hole {stems : LRU} {s s' : State} {t : T} {q : Nat} {sl : Slot} {x : Stem}
    {pre' : LRU} {lo' hi' : Option Stem}
    (h : Shape s t) (hh : Hole s q sl t [] none none pre' lo' hi')
    (b1 : ∀ y, lo' = some y → lexLt y x = true) (b2 : ∀ y, hi' = some y → lexLt x y = true)
    (g : GraftStep s s' q sl x)
    (hk : ∃ k, 0 < k ∧ k ≤ stems.length ∧ pre' ++ [x] = stems.take k) :
    Grow stems s t s' (t.graft q sl s.trie.size) ∧
    (pre' ++ [x], s.trie.size) ∈ (t.graft q sl s.trie.size).entries s' [] ∧
    (t.graft q sl s.trie.size).childOf s.trie.size = .nil := by
  have hlt := h.rep.lt_size
  have hb : s.trie.size ∉ t.addrs := fun hm => Nat.lt_irrefl _ (hlt _ hm)
  have hst : ∀ a ∈ t.addrs, s'.stemAt a = s.stemAt a := fun a ha => g.stems a (hlt a ha)
  have hperm := hh.graft_entries (b := s.trie.size) h.nodup hst g.stemNew
  have hq := hh.mem
  have htne : t ≠ .nil := by intro e; subst e; simp [T.addrs] at hq
  have hsz : 1 < s.trie.size := by
    apply Nat.lt_of_not_le
    intro hle
    have hroot := h.root
    rw [if_pos hle] at hroot
    exact Rep.root_ne_zero h.rep htne hroot
  have hsz' := g.size_lt
  obtain ⟨cq, hcq, hslot, hq'⟩ := g.cq
  obtain ⟨f, hf, f1, f2, f3⟩ := g.fresh
  refine ⟨⟨⟨by omega, ?_, ?_, ?_, ?_, g.closed⟩, Nat.le_of_lt g.size_lt, ?_, ?_, g.stems⟩, ?_, ?_⟩
  · exact h.rep.graft_write q sl _ rfl cq hcq hslot hq' g.old f hf ⟨f1, f2, f3⟩ h.live
  · exact hh.graft_ord h.nodup hb hst g.stemNew h.ord b1 b2
  · exact (hh.graft_addrs h.nodup).nodup_iff.mpr (List.nodup_cons.mpr ⟨hb, h.nodup⟩)
  · rw [T.root_graft, h.root, if_neg (by omega), if_neg (by omega)]
  · exact fun p b hm => hperm.symm.subset (List.mem_cons_of_mem _ hm)
  · intro p b hm
    rcases List.mem_cons.mp (hperm.subset hm) with e | e
    · obtain ⟨e1, e2⟩ := Prod.mk.inj e
      obtain ⟨k, k1, k2, k3⟩ := hk
      exact Or.inr ⟨Nat.le_of_eq e2.symm, k, k1, k2, e1.trans k3⟩
    · exact Or.inl e
  · exact hperm.symm.subset (by simp)
  · exact hh.childOf_graft_new h.nodup hb

theorem take_append_cons {α : Type} (p : List α) (x : α) (r : List α) :
    (p ++ x :: r).take (p.length + 1) = p ++ [x] := by
  induction p with
  | nil => simp
  | cons a p ih => simpa using ih

/-- the first new node: after the descent fell off at `(q, sl)` -/
theorem grow_after_fell {stems : LRU} {s0 s1 s2 s3 : State} {t : T} {q : Nat} {sl : Slot} {pre' : LRU}
    {x : Stem} {rest'' : List Stem}
    (h : Shape s0 t) (hd : t.descend s0 stems [] = .fell q sl pre' (x :: rest''))
    (n1 : NoStruct s0 s1) (g : GraftStep s1 s2 q sl x) (n2 : NoStruct s2 s3) :
    ∃ tg, Grow stems s0 t s3 tg ∧ (pre' ++ [x], s1.trie.size) ∈ tg.entries s3 [] ∧
      tg.childOf s1.trie.size = .nil ∧ pre' ++ x :: rest'' = stems := by
  have h1 := n1.shape h
  have hd1 : t.descend s1 stems [] = .fell q sl pre' (x :: rest'') := by
    rw [T.descend_congr n1.stemAt]; exact hd
  obtain ⟨lo', hi', hh, b1, b2⟩ :=
    T.descend_hole stems t [] none none q sl pre' x rest'' hd1 (by simp) (by simp)
  obtain ⟨_, e, _⟩ := descend_fell_suffix stems t [] q sl pre' (x :: rest'') hd
  simp only [List.nil_append] at e
  have hk : ∃ k, 0 < k ∧ k ≤ stems.length ∧ pre' ++ [x] = stems.take k := by
    refine ⟨pre'.length + 1, by omega, ?_, ?_⟩
    · rw [← e]; simp
    · rw [← e, take_append_cons]
  obtain ⟨gr, hent, hco⟩ := Grow.graft_hole (stems := stems) h1 hh b1 b2 g hk
  refine ⟨t.graft q sl s1.trie.size,
    ((Grow.of_noStruct h n1).trans gr).trans (Grow.of_noStruct gr.shape n2), ?_, hco, e⟩
  rw [T.entries_frame _ [] (fun a _ => n2.stemAt a)]
  exact hent

/-! ### the second loop: the chain of fresh children -/

theorem addLruCreate_grow (stems : LRU) (flag : Bool) : ∀ (rest : List Stem) (s : State) (t : T) (q : Nat)
    (p : LRU), Shape s t → (p, q) ∈ t.entries s [] → t.childOf q = .nil → p ≠ [] → p ++ rest = stems →
    ∃ t', Grow stems s t (addLruCreate flag s rest q).1 t' ∧
      (stems, (addLruCreate flag s rest q).2) ∈ t'.entries (addLruCreate flag s rest q).1 [] := by
  intro rest
  induction rest with
  | nil =>
    intro s t q p h hm _ _ e
    simp only [List.append_nil] at e
    subst e
    exact ⟨t, Grow.refl h, hm⟩
  | cons x rest ih =>
    intro s t q p h hm hc hp e
    rw [addLruCreate_cons]
    have hh := T.child_hole (s := s) t [] none none h.nodup hm hc
    obtain ⟨c, hcq, hslot⟩ := hh.slot_empty h.rep
    have g := graftStep_write s q .C x q (!rest.isEmpty && flag) c hcq hslot h.closed
    have hk : ∃ k, 0 < k ∧ k ≤ stems.length ∧ p ++ [x] = stems.take k := by
      refine ⟨p.length + 1, by omega, ?_, ?_⟩
      · rw [← e]; simp
      · rw [← e, take_append_cons]
    obtain ⟨gr, hent, hco⟩ := Grow.graft_hole (stems := stems) h hh (by simp) (by simp) g hk
    obtain ⟨t', gr', hent'⟩ := ih _ (t.graft q .C s.trie.size) s.trie.size (p ++ [x]) gr.shape hent hco
      (by simp) (by rw [← e]; simp)
    exact ⟨t', gr.trans gr', hent'⟩

/-! ### the empty trie -/

theorem shape_single {s : State} (h1 : 1 < s.trie.size) (c : Cell) (hc : s.trie[1]? = some c)
    (hl : c.left = 0) (hch : c.child = 0) (hr : c.right = 0) (hcl : TailClosed s) :
    Shape s (.node 1 .nil .nil .nil) where
  live := by omega
  rep := ⟨by omega, ⟨c, hc, by simpa using hl, by simpa using hch, by simpa using hr⟩, trivial, trivial, trivial⟩
  ord := ⟨by simp, by simp, trivial, trivial, trivial⟩
  nodup := by simp [T.addrs]
  root := by rw [if_neg (by omega)]; rfl
  closed := hcl

theorem Shape.eq_nil {s : State} {t : T} (h : Shape s t) (hsz : s.trie.size ≤ 1) : t = .nil := by
  have hroot := h.root
  rw [if_pos hsz] at hroot
  cases t with
  | nil => rfl
  | node a l c r => exact absurd hroot (Rep.root_ne_zero h.rep (by simp))

/-! ### `add_lru` -/

theorem addLru_grow {s : State} {t : T} (h : Shape s t) (stems : LRU) (flag : Bool) (hne : stems ≠ []) :
    ∃ t', Grow stems s t (s.addLru stems flag).1 t' ∧
      (stems, (s.addLru stems flag).2.1) ∈ t'.entries (s.addLru stems flag).1 [] := by
  have key : ∀ D : State × Nat × List Stem × Hist,
      D = addLruDescend flag s stems 1 (decide (s.trie.size > 1)) 0 {} →
      ∃ t', Grow stems s t (addLruCreate flag D.1 D.2.2.1 D.2.1).1 t' ∧
        (stems, (addLruCreate flag D.1 D.2.2.1 D.2.1).2) ∈
          t'.entries (addLruCreate flag D.1 D.2.2.1 D.2.1).1 [] := by
    intro D hD
    by_cases hsz : s.trie.size ≤ 1
    · -- empty trie
      have hsz1 : s.trie.size = 1 := by have := h.live; omega
      have ht := h.eq_nil hsz
      subst ht
      cases stems with
      | nil => exact absurd rfl hne
      | cons stem rest =>
        have hex : decide (s.trie.size > 1) = false := by simp; omega
        rw [hex] at hD
        have he : s.ensureStem 1 false stem = ((s.writeNew stem 0 false).1, 1) := by
          simp only [ensureStem, Bool.not_false, if_true]
          exact Prod.ext rfl (by rw [writeNew_idx]; exact hsz1)
        have hhead : (s.writeNew stem 0 false).1.trie[1]? = some (headCell stem 0 false) := by
          have := getElem?_writeNew_head s stem 0 false
          rw [hsz1] at this; exact this
        have hcell : (s.writeNew stem 0 false).1.cell 1 = headCell stem 0 false := by
          simp [State.cell, hhead]
        rw [addLruDescend_cons_stop flag s stem rest 1 false 0 {} _ _ he
          (Or.inr (by rw [hcell]; rfl))] at hD
        subst hD
        simp only
        have hlt := size_lt_writeNew s stem 0 false
        have sh1 : Shape (s.writeNew stem 0 false).1 (.node 1 .nil .nil .nil) :=
          shape_single (by omega) _ hhead rfl rfl rfl (TailClosed.writeNew s stem 0 false)
        have hstem1 : (s.writeNew stem 0 false).1.stemAt 1 = stem := by
          have := stemAt_writeNew' s stem 0 false
          rw [hsz1] at this; exact this
        have gr1 : Grow (stem :: rest) s .nil (s.writeNew stem 0 false).1 (.node 1 .nil .nil .nil) := by
          refine ⟨sh1, by omega, ?_, ?_, ?_⟩
          · intro p b hm; simp [T.entries] at hm
          · intro p b hm
            simp only [T.entries, hstem1, List.nil_append, List.append_nil, List.mem_singleton,
              Prod.mk.injEq] at hm
            exact Or.inr ⟨by omega, 1, by omega, by simp, by simp [hm.1]⟩
          · intro a ha
            exact stemAt_writeNew_other s stem 0 false a ha h.closed
        have hns := noStruct_markCanHave (s.writeNew stem 0 false).1 1
          (!rest.isEmpty && flag && ((s.writeNew stem 0 false).1.cell 1).flags.noChild)
        have gr2 := gr1.trans (Grow.of_noStruct (stems := stem :: rest) sh1 hns)
        have hent : ([stem], 1) ∈ (T.node 1 .nil .nil .nil).entries
            ((s.writeNew stem 0 false).1.markCanHave 1
              (!rest.isEmpty && flag && ((s.writeNew stem 0 false).1.cell 1).flags.noChild)) [] := by
          simp [T.entries, hns.stemAt, hstem1]
        obtain ⟨t', gr', hent'⟩ := addLruCreate_grow (stem :: rest) flag rest _ _ 1 [stem] gr2.shape hent
          (by simp [T.childOf]) (by simp) (by simp)
        exact ⟨t', gr2.trans gr', hent'⟩
    · -- non-empty trie: descend from block 1
      have hex : decide (s.trie.size > 1) = true := by simp; omega
      rw [hex] at hD
      have hroot := h.root
      rw [if_neg hsz] at hroot
      have htne : t ≠ .nil := by intro e; subst e; simp at hroot
      have spec := addLruDescend_spec flag stems s t [] 0 {} h.rep htne h.size_le h.closed hne
      rw [hroot, ← hD] at spec
      obtain ⟨S, nd, rst, hi⟩ := D
      simp only
      cases hd : t.descend s stems [] with
      | corrupt => rw [hd] at spec; exact absurd spec (by simp [DescSpec])
      | found b =>
        rw [hd] at spec
        simp only [DescSpec] at spec
        obtain ⟨n1, rfl, rfl⟩ := spec
        have hm := descend_found_mem stems t [] nd hd
        simp only [List.nil_append] at hm
        have gr := Grow.of_noStruct (stems := stems) h n1
        exact ⟨t, gr, gr.keep _ _ hm⟩
      | fell q sl pre' rest' =>
        rw [hd] at spec
        simp only [DescSpec] at spec
        obtain ⟨hrne, _, _⟩ := descend_fell_suffix stems t [] q sl pre' rest' hd
        cases rest' with
        | nil => exact absurd rfl hrne
        | cons x rest'' =>
          by_cases hC : sl = .C
          · rw [if_pos hC] at spec
            subst hC
            obtain ⟨n1, rfl, rfl⟩ := spec
            rw [addLruCreate_cons]
            have hd1 : t.descend S stems [] = .fell nd .C pre' (x :: rest'') := by
              rw [T.descend_congr n1.stemAt]; exact hd
            obtain ⟨_, _, hh, _, _⟩ :=
              T.descend_hole stems t [] none none nd .C pre' x rest'' hd1 (by simp) (by simp)
            obtain ⟨c, hcq, hslot⟩ := hh.slot_empty (n1.rep h.rep)
            have g := graftStep_write S nd .C x nd (!rest''.isEmpty && flag) c hcq hslot
              (n1.closed h.closed)
            obtain ⟨tg, gr, hent, hco, e⟩ := grow_after_fell h hd n1 g (NoStruct.refl _)
            obtain ⟨t', gr', hent'⟩ := addLruCreate_grow stems flag rest'' _ tg S.trie.size
              (pre' ++ [x]) gr.shape hent hco (by simp) (by rw [← e]; simp)
            exact ⟨t', gr.trans gr', hent'⟩
          · rw [if_neg hC] at spec
            obtain ⟨x', rest3, s1, s2, e0, n1, g, n2, rfl, rfl⟩ := spec
            obtain ⟨rfl, rfl⟩ := List.cons.inj e0
            obtain ⟨tg, gr, hent, hco, e⟩ := grow_after_fell h hd n1 g n2
            obtain ⟨t', gr', hent'⟩ := addLruCreate_grow stems flag rest'' S tg s1.trie.size
              (pre' ++ [x]) gr.shape hent hco (by simp) (by rw [← e]; simp)
            exact ⟨t', gr.trans gr', hent'⟩
  exact key _ rfl

/-- MAIN: `add_lru` preserves the shape invariant, returns the block of the requested LRU, adds exactly
    the missing stem-prefixes (at fresh addresses), keeps every old entry and every old stem -/
theorem addLru_shape {s : State} {t : T} (h : Shape s t) (stems : LRU) (flag : Bool) (hne : stems ≠ []) :
    let s' := (s.addLru stems flag).1
    let n  := (s.addLru stems flag).2.1
    ∃ t', Shape s' t' ∧
      (stems, n) ∈ t'.entries s' [] ∧
      (∀ p b, (p, b) ∈ t.entries s [] → (p, b) ∈ t'.entries s' []) ∧
      (∀ p b, (p, b) ∈ t'.entries s' [] → (p, b) ∈ t.entries s [] ∨
          (s.trie.size ≤ b ∧ ∃ k, 0 < k ∧ k ≤ stems.length ∧ p = stems.take k)) ∧
      (∀ a, a < s.trie.size → s'.stemAt a = s.stemAt a) := by
  intro s' n
  obtain ⟨t', gr, hent⟩ := addLru_grow h stems flag hne
  exact ⟨t', gr.shape, hent, gr.keep, gr.new, gr.stem⟩

/-! ### initial states -/

theorem shape_of_trie_init (s : State) (h : s.trie = #[{}]) : Shape s .nil where
  live := by rw [h]; simp
  rep := trivial
  ord := trivial
  nodup := by simp [T.addrs]
  root := by rw [h]; simp
  closed := by unfold TailClosed State.cell; rw [h]; rfl

theorem shape_init : Shape ({} : State) .nil := shape_of_trie_init _ rfl

theorem shape_fresh (cfg : Config) (dflt : Rule) (log : List Write) :
    Shape (State.fresh cfg dflt [] log).1 .nil := shape_of_trie_init _ rfl

#print axioms addLru_shape
#print axioms shape_init
#print axioms shape_fresh

end Traph

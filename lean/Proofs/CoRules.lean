import Proofs.PageSet
import Proofs.SizesLinks
import Proofs.CoDict
/-! C16, "no request fails": the only failure of a writer is the `KeyError` that `__add_page` raises when a node
    flagged as the anchor of a creation rule lies on the page's path while the anchor's LRU is not a key of the
    RAM dictionary of rules. `RulesOk s` says that this never happens: the LRU of every rule-flagged node of the
    tree is a key of the dictionary (true of every index whose rules were installed through the API and
    re-supplied on reopening). Under `RulesOk`, `__add_page` cannot fail, and every write of the generators
    preserves `RulesOk` (a rule installation, provided its anchor is a complete LRU, i.e. ends with `|`). -/
namespace Traph
open State Layout

/-! ### the rule positions of a walk history -/

theorem Hist.visit_rules (h : Hist) (c : Cell) (pos : Nat) :
    (h.visit c pos).rules = if c.flags.rule = true then h.rules ++ [pos] else h.rules := by
  unfold Hist.visit
  by_cases hw : c.we ≠ 0 <;> by_cases hr : c.flags.rule = true <;> simp [hw, hr]

theorem T.pathCells_congr {s s' : State} (h : ∀ j, s'.stemAt j = s.stemAt j) :
    ∀ (stems : List Stem) (u : T), u.pathCells s' stems = u.pathCells s stems := by
  intro stems
  induction stems with
  | nil => intro u; rfl
  | cons stem rest ih =>
    intro u
    simp only [T.pathCells, T.find_congr h stem u]
    cases u.find s stem with
    | found a =>
      simp only
      cases rest with
      | nil => rfl
      | cons x r => simp only [ih]
    | missing q sl => rfl
    | corrupt => rfl

theorem co_rule_markCanHave (s : State) (n : Nat) (b : Bool) (j : Nat) :
    ((s.markCanHave n b).cell j).flags.rule = (s.cell j).flags.rule := by
  unfold markCanHave
  split
  · rw [cell_modCell]; split <;> rfl
  · rfl

/-- where the rule positions recorded by the first loop of `add_lru` come from: each is the byte length
    of a stem-prefix whose node exists already, is matched by the descent, and carries the rule flag -/
theorem addLruDescend_rules (flag : Bool) : ∀ (stems : List Stem) (s : State) (u : T) (pos : Nat) (h : Hist),
    Rep s u → u ≠ .nil → u.size ≤ s.trie.size → TailClosed s → stems ≠ [] →
    ∀ p ∈ (addLruDescend flag s stems u.root true pos h).2.2.2.rules, p ∈ h.rules ∨
      ∃ k c, (u.pathCells s stems)[k]? = some c ∧ (s.cell c.1).flags.rule = true ∧
        p = pos + (stems.take (k + 1)).flatten.length := by
  intro stems
  induction stems with
  | nil => intro _ _ _ _ _ _ _ _ h; exact absurd rfl h
  | cons stem rest ih =>
    intro s u pos h hr hne hsz hcl _ p hp
    have hfs := findSib_eq_find (s := s) (stem := stem) u (s.trie.size + 1) hr hne (by omega)
    cases hf : u.find s stem with
    | corrupt => exact absurd hf (T.find_ne_corrupt u hne)
    | missing q sl =>
      rw [hf] at hfs
      obtain ⟨c, hc, hslot⟩ := findSib_missing s stem _ _ _ _ hfs
      have hg := graftStep_write s q sl stem (s.cell q).parent false c hc hslot hcl
      have he := ensureStem_missing s u.root stem q sl hfs
      rw [addLruDescend_cons_stop flag s stem rest u.root true pos h _ _ he (Or.inr hg.cell_child_new)] at hp
      simp only at hp
      rw [Hist.visit_rules] at hp
      have hclean := (attrStep_ensureStem s u.root true stem).new s.trie.size (Nat.le_refl _)
      rw [he] at hclean
      rw [if_neg (by rw [hclean.rule]; simp)] at hp
      exact Or.inl hp
    | found a =>
      rw [hf] at hfs
      have he := ensureStem_found s u.root stem a hfs
      obtain ⟨hmem, _⟩ := T.find_sound u a hf
      obtain ⟨hrc, cell, hcell, hch⟩ := Rep.childAt u a hr hmem
      have hcella : s.cell a = cell := by simp [State.cell, hcell]
      have hhere : ∀ p, p ∈ (h.visit (s.cell a) (pos + stem.length)).rules → p ∈ h.rules ∨
          ∃ k c, (u.pathCells s (stem :: rest))[k]? = some c ∧ (s.cell c.1).flags.rule = true ∧
            p = pos + ((stem :: rest).take (k + 1)).flatten.length := by
        intro p hp
        rw [Hist.visit_rules] at hp
        split at hp
        · rename_i hrule
          rcases List.mem_append.mp hp with hp | hp
          · exact Or.inl hp
          · simp only [List.mem_singleton] at hp
            refine Or.inr ⟨0, (a, stem), ?_, hrule, ?_⟩
            · rw [T.pathCells_cons_found hf]; rfl
            · rw [hp]; simp
        · exact Or.inl hp
      cases rest with
      | nil =>
        rw [addLruDescend_cons_stop flag s stem [] u.root true pos h _ _ he (Or.inl rfl)] at hp
        exact hhere p hp
      | cons st2 rest2 =>
        cases hc : u.childAt a with
        | nil =>
          rw [hc] at hch
          rw [addLruDescend_cons_stop flag s stem _ u.root true pos h _ _ he
            (Or.inr (by rw [hcella, hch]; rfl))] at hp
          exact hhere p hp
        | node a' l' c' r' =>
          rw [hc] at hch hrc
          have hne0 : (s.cell a).child ≠ 0 := by rw [hcella, hch]; exact hrc.1
          rw [addLruDescend_cons_go flag s stem _ u.root true pos h _ _ he (by simp) hne0] at hp
          have hns := noStruct_markCanHave s a
            (!(st2 :: rest2).isEmpty && flag && (s.cell a).flags.noChild)
          have hsz' : (T.node a' l' c' r').size ≤ s.trie.size := by
            have := T.childAt_size u a; rw [hc] at this; omega
          have hroot : (s.cell a).child = (T.node a' l' c' r').root := by rw [hcella, hch]
          rw [hroot] at hp
          have := ih _ (.node a' l' c' r') (pos + stem.length)
            (h.visit (s.cell a) (pos + stem.length)) (hns.rep hrc) (by simp)
            (by rw [hns.1]; exact hsz') (hns.closed hcl) (by simp) p hp
          rcases this with h1 | ⟨k, c, hk, hrule, e⟩
          · exact hhere p h1
          · refine Or.inr ⟨k + 1, c, ?_, ?_, ?_⟩
            · rw [T.pathCells_cons_found hf, hc]
              rw [T.pathCells_congr hns.stemAt] at hk
              simpa using hk
            · rw [co_rule_markCanHave] at hrule; exact hrule
            · rw [e]; simp [List.take_succ_cons]; omega

theorem co_addLru_hist (s : State) (stems : LRU) (flag : Bool) :
    (s.addLru stems flag).2.2 = (addLruDescend flag s stems 1 (decide (s.trie.size > 1)) 0 {}).2.2.2 := by
  unfold addLru
  rcases addLruDescend flag s stems 1 (decide (s.trie.size > 1)) 0 {} with ⟨s1, node, rest, h⟩
  rfl

/-- the rule positions of `add_lru`: byte lengths of stem-prefixes of the LRU whose node was in the tree
    before and carries the rule flag -/
theorem addLru_rules {s : State} {t : T} (h : Shape s t) (stems : LRU) (flag : Bool) :
    ∀ p ∈ (s.addLru stems flag).2.2.rules, ∃ k b, 0 < k ∧ k ≤ stems.length ∧
      (stems.take k, b) ∈ t.entries s [] ∧ (s.cell b).flags.rule = true ∧ p = (stems.take k).flatten.length := by
  intro p hp
  rw [co_addLru_hist] at hp
  cases stems with
  | nil => simp [addLruDescend] at hp
  | cons stem rest =>
    by_cases hsz : s.trie.size ≤ 1
    · exfalso
      have hsz1 : s.trie.size = 1 := by have := h.live; omega
      have hex : decide (s.trie.size > 1) = false := by simp; omega
      rw [hex] at hp
      have he : s.ensureStem 1 false stem = ((s.writeNew stem 0 false).1, 1) := by
        simp only [ensureStem, Bool.not_false, if_true]
        exact Prod.ext rfl (by rw [writeNew_idx]; exact hsz1)
      have hhead : (s.writeNew stem 0 false).1.trie[1]? = some (headCell stem 0 false) := by
        have := getElem?_writeNew_head s stem 0 false
        rw [hsz1] at this; exact this
      have hcell : (s.writeNew stem 0 false).1.cell 1 = headCell stem 0 false := by
        simp [State.cell, hhead]
      rw [addLruDescend_cons_stop flag s stem rest 1 false 0 {} _ _ he
        (Or.inr (by rw [hcell]; rfl))] at hp
      simp only at hp
      rw [Hist.visit_rules, hcell] at hp
      simp [headCell] at hp
    · have hex : decide (s.trie.size > 1) = true := by simp; omega
      rw [hex] at hp
      have hroot := h.root
      rw [if_neg hsz] at hroot
      have htne : t ≠ .nil := by intro e; subst e; simp at hroot
      have := addLruDescend_rules flag (stem :: rest) s t 0 {} h.rep htne h.size_le h.closed (by simp)
      rw [hroot] at this
      rcases this p hp with h1 | ⟨k, c, hk, hrule, e⟩
      · simp at h1
      · obtain ⟨hent, _⟩ := pathCells_entries_getElem? (stem :: rest) t none none [] h.ord h.nodup k c hk
        have hlen := pathCells_length_le (s := s) (stem :: rest) t
        have hklt : k < (t.pathCells s (stem :: rest)).length := by
          rcases List.getElem?_eq_some_iff.mp hk with ⟨hlt, _⟩; exact hlt
        exact ⟨k + 1, c.1, by omega, by omega, by simpa using hent, hrule, by rw [e]; omega⟩

/-! ### the RAM dictionary is not touched by trie writes -/

theorem ramRules_writeNew (s : State) (stem : Bytes) (p : Nat) (c : Bool) :
    (s.writeNew stem p c).1.rules = s.rules := (writeNew_rest s stem p c).2.2.1

theorem ramRules_ensureStem (s : State) (start : Nat) (ex : Bool) (stem : Stem) :
    (s.ensureStem start ex stem).1.rules = s.rules := by
  unfold State.ensureStem
  split
  · exact ramRules_writeNew _ _ _ _
  · split
    · rfl
    · rfl
    · simp only [rules_modCell, ramRules_writeNew]

theorem ramRules_markCanHave (s : State) (n : Nat) (b : Bool) : (s.markCanHave n b).rules = s.rules := by
  unfold State.markCanHave; split
  · exact rules_modCell _ _ _
  · rfl

theorem ramRules_addLruDescend (flag : Bool) : ∀ (stems : List Stem) (s : State) (node : Nat) (ex : Bool)
    (pos : Nat) (h : Hist), (State.addLruDescend flag s stems node ex pos h).1.rules = s.rules := by
  intro stems
  induction stems with
  | nil => intro s node ex pos h; rfl
  | cons stem rest ih =>
    intro s node ex pos h
    rcases he : s.ensureStem node ex stem with ⟨s1, n⟩
    have h1 : s1.rules = s.rules := by have := ramRules_ensureStem s node ex stem; rw [he] at this; exact this
    simp only [State.addLruDescend, he]
    split
    · rw [ih, ramRules_markCanHave, h1]
    · simp only [ramRules_markCanHave, h1]

theorem ramRules_addLruCreate (flag : Bool) : ∀ (stems : List Stem) (s : State) (node : Nat),
    (State.addLruCreate flag s stems node).1.rules = s.rules := by
  intro stems
  induction stems with
  | nil => intro s node; rfl
  | cons stem rest ih =>
    intro s node
    simp only [State.addLruCreate]
    rw [ih, rules_modCell, ramRules_writeNew]

theorem ramRules_addLru (s : State) (stems : LRU) (flag : Bool) : (s.addLru stems flag).1.rules = s.rules := by
  unfold State.addLru
  simp only [ramRules_addLruCreate, ramRules_addLruDescend]

theorem ramRules_addPageTrie (s : State) (stems : LRU) (crawled : Bool) :
    (s.addPageTrie stems crawled).1.rules = s.rules := by
  unfold State.addPageTrie
  simp only
  split
  · simp only [rules_modCell, ramRules_addLru]
  · split
    · simp only [rules_modCell, ramRules_addLru]
    · exact ramRules_addLru _ _ _

theorem ramRules_foldl_modCell {α : Type} (idx : α → Nat) (f : α → Cell → Cell) :
    ∀ (l : List α) (s : State), (l.foldl (fun st a => st.modCell (idx a) (f a)) s).rules = s.rules
  | [], _ => rfl
  | a :: l, s => by
    rw [List.foldl_cons, ramRules_foldl_modCell idx f l, rules_modCell]

theorem ramRules_addPrefixesScan : ∀ (ps : List Bytes) (s : State) (valid : List (Bytes × Nat)) (k : Nat),
    (State.addPrefixesScan s ps valid k).1.rules = s.rules
  | [], _, _, _ => rfl
  | p :: ps, s, valid, k => by
    rcases h : s.addLru (lruIter p) true with ⟨s1, n, hh⟩
    have h1 : s1.rules = s.rules := by have := ramRules_addLru s (lruIter p) true; rw [h] at this; exact this
    simp only [State.addPrefixesScan, h]
    split <;> rw [ramRules_addPrefixesScan ps, h1]

theorem ramRules_addPrefixes (s : State) (ps : List Bytes) (best : Bool) :
    (s.addPrefixes ps best).1.rules = s.rules := by
  rcases ha : s.addPrefixesScan ps [] 0 with ⟨s1, valid, nInv⟩
  have h1 : s1.rules = s.rules := by
    have := ramRules_addPrefixesScan ps s [] 0; rw [ha] at this; exact this
  simp only [State.addPrefixes, ha]
  split
  · exact h1
  · split
    · exact h1
    · exact (ramRules_foldl_modCell (fun pn : Bytes × Nat => pn.2)
        (fun _ c => { c with we := s1.genId.2 }) valid _).trans h1

theorem ramRules_createWebentityAuto (s : State) (pfx : Bytes) :
    (s.createWebentityAuto pfx).1.rules = s.rules := by
  have hl := ramRules_addPrefixes s (lruVariations pfx) true
  unfold State.createWebentityAuto
  split <;> rename_i heq <;> rw [heq] at hl <;> exact hl

theorem ramRules_addPageCore (s : State) (lru : Bytes) (crawled : Bool) :
    (s.addPageCore lru crawled).1.rules = s.rules := by
  rcases ha : s.addPageTrie (lruIter lru) crawled with ⟨s1, n, h⟩
  have h1 : s1.rules = s.rules := by
    have := ramRules_addPageTrie s (lruIter lru) crawled; rw [ha] at this; exact this
  simp only [State.addPageCore, ha]
  repeat' split
  all_goals first | exact h1 | exact (ramRules_createWebentityAuto s1 _).trans h1

theorem ramRules_addStubsGo : ∀ (targets : List Nat) (s : State) (tail : Nat),
    (s.addStubsGo tail targets).1.rules = s.rules
  | [], _, _ => rfl
  | t :: ts, s, tail => by
    have hstep : s.addStubsGo tail (t :: ts) =
        (s.appendStub { target := t, prev := tail }).1.addStubsGo s.links.size ts := rfl
    rw [hstep, ramRules_addStubsGo ts]; rfl

theorem ramRules_addStubs (s : State) (page : Nat) (targets : List Nat) (out : Bool) :
    (s.addStubs page targets out).rules = s.rules := by
  unfold State.addStubs
  split
  · rfl
  · simp only [rules_modCell, ramRules_addStubsGo]

/-! ### `lru_iter` cuts a prefix of the byte string -/

theorem co_lruIterGo_prefix : ∀ (b cur : Bytes), ∃ tail, cur.reverse ++ b = (lruIterGo b cur).flatten ++ tail
  | [], cur => ⟨cur.reverse, by simp [lruIterGo]⟩
  | x :: xs, cur => by
    simp only [lruIterGo]
    split
    · obtain ⟨tail, e⟩ := co_lruIterGo_prefix xs []
      refine ⟨tail, ?_⟩
      simp only [List.reverse_nil, List.nil_append] at e
      rw [List.flatten_cons, List.append_assoc, ← e]; simp
    · obtain ⟨tail, e⟩ := co_lruIterGo_prefix xs (x :: cur)
      refine ⟨tail, ?_⟩
      rw [← e]; simp

theorem co_lruIter_prefix (b : Bytes) : ∃ tail, b = (lruIter b).flatten ++ tail := by
  obtain ⟨tail, e⟩ := co_lruIterGo_prefix b []
  exact ⟨tail, by simpa [lruIter] using e⟩

/-- the bytes up to the end of the `k`-th stem are the first `k` stems -/
theorem co_take_stems (b : Bytes) (k : Nat) :
    b.take ((lruIter b).take k).flatten.length = ((lruIter b).take k).flatten := by
  obtain ⟨tail, e⟩ := co_lruIter_prefix b
  have h2 : (lruIter b).flatten = ((lruIter b).take k).flatten ++ ((lruIter b).drop k).flatten := by
    rw [← List.flatten_append, List.take_append_drop]
  have h3 : b = ((lruIter b).take k).flatten ++ (((lruIter b).drop k).flatten ++ tail) := by
    rw [← List.append_assoc, ← h2]; exact e
  generalize ((lruIter b).take k).flatten = A at h3 ⊢
  rw [h3]
  exact List.take_left

/-! ### `__add_page` cannot fail when every flagged anchor is in the dictionary -/

theorem longestCandidate_fold (s : State) (lru : Bytes) : ∀ (l : List Nat) (acc : Bytes),
    (∀ pos ∈ l, (dictGet? s.rules (lru.take pos)).isSome) →
    ∃ c, l.foldl (fun acc pos =>
      match acc with
      | none => none
      | some best =>
        match dictGet? s.rules (lru.take pos) with
        | none => none
        | some r =>
          match r.search lru with
          | some cand => if !cand.isEmpty && cand.length > best.length then some cand else some best
          | none => some best) (some acc) = some c
  | [], acc, _ => ⟨acc, rfl⟩
  | pos :: l, acc, hk => by
    rw [List.foldl_cons]
    obtain ⟨r, hr⟩ := Option.isSome_iff_exists.mp (hk pos (by simp))
    simp only [hr]
    have hk' : ∀ p ∈ l, (dictGet? s.rules (lru.take p)).isSome := fun p hp => hk p (by simp [hp])
    cases r.search lru with
    | none => exact longestCandidate_fold s lru l acc hk'
    | some cand =>
      simp only
      split
      · exact longestCandidate_fold s lru l cand hk'
      · exact longestCandidate_fold s lru l acc hk'

theorem longestCandidate_some (s : State) (lru : Bytes) (h : Hist)
    (hk : ∀ pos ∈ h.rules, (dictGet? s.rules (lru.take pos)).isSome) :
    ∃ c, s.longestCandidate lru h = some c := by
  unfold longestCandidate
  exact longestCandidate_fold s lru h.rules.reverse [] (fun pos hp => hk pos (List.mem_reverse.mp hp))

/-- the LRU of every node flagged as a rule anchor is a key of the RAM dictionary of rules -/
def RulesOk (s : State) : Prop :=
  ∀ (p : LRU) (b : Nat), p ≠ [] → s.lruNode p = some b → (s.cell b).flags.rule = true →
    (dictGet? s.rules p.flatten).isSome

theorem addPageTrie_hist_rules (s : State) (stems : LRU) (c : Bool) :
    (s.addPageTrie stems c).2.2.rules = (s.addLru stems false).2.2.rules := by
  unfold addPageTrie
  rcases s.addLru stems false with ⟨s1, n, h⟩
  simp only
  split
  · rfl
  · split <;> rfl

/-- **`__add_page` does not fail** in an index with the shape invariant whose flagged anchors are all in the
    dictionary -/
theorem addPageCore_ok {s : State} {t : T} (h : Shape s t) (hr : RulesOk s) (lru : Bytes) (c : Bool) :
    ∃ r, (s.addPageCore lru c).2.2 = .ok r := by
  have key : ∃ cand, (s.addPageTrie (lruIter lru) c).1.longestCandidate lru (s.addPageTrie (lruIter lru) c).2.2 = some cand := by
    apply longestCandidate_some
    intro pos hp
    rw [addPageTrie_hist_rules] at hp
    obtain ⟨k, b, hk0, hk1, hent, hrule, e⟩ := addLru_rules h (lruIter lru) false pos hp
    have hne : (lruIter lru).take k ≠ [] := by
      intro e0
      rcases List.take_eq_nil_iff.mp e0 with h0 | h0
      · omega
      · rw [h0] at hk1; simp at hk1; omega
    have hnode := (lruNode_iff_entries h _ hne b).mpr hent
    rw [ramRules_addPageTrie, e, co_take_stems]
    exact hr _ b hne hnode hrule
  obtain ⟨cand, hc⟩ := key
  rcases ha : s.addPageTrie (lruIter lru) c with ⟨s1, n, hh⟩
  rw [ha] at hc
  simp only at hc
  simp only [addPageCore, ha, hc]
  repeat' split
  all_goals exact ⟨_, rfl⟩

/-! ### `RulesOk` is preserved by the writes of the generators -/

/-- the general frame: entries of the new tree are old entries or fresh blocks; a rule flag in the new state
    was there before, or its LRU is a key of the new dictionary; keys are kept -/
theorem RulesOk.of_frame {s s' : State} {t t' : T} (h : Shape s t) (h' : Shape s' t')
    (hnew : ∀ p b, (p, b) ∈ t'.entries s' [] → (p, b) ∈ t.entries s [] ∨ s.trie.size ≤ b)
    (hrule : ∀ p b, (p, b) ∈ t'.entries s' [] → (s'.cell b).flags.rule = true →
      (s.cell b).flags.rule = true ∨ (dictGet? s'.rules p.flatten).isSome)
    (hkeys : ∀ k, (dictGet? s.rules k).isSome → (dictGet? s'.rules k).isSome) (ok : RulesOk s) : RulesOk s' := by
  intro p b hne hnode hr
  have hent := (lruNode_iff_entries h' p hne b).mp hnode
  rcases hrule p b hent hr with hold | hkey
  · rcases hnew p b hent with hm | hfresh
    · exact hkeys _ (ok p b hne ((lruNode_iff_entries h p hne b).mpr hm) hold)
    · rw [cell_of_size_le s b hfresh] at hold
      simp at hold
  · exact hkey

/-- non-structural writes that keep the rule flags and the dictionary -/
theorem RulesOk.of_noStruct {s s' : State} {t : T} (h : Shape s t) (n : NoStruct s s')
    (hrule : ∀ a, (s'.cell a).flags.rule = (s.cell a).flags.rule) (hrules : s'.rules = s.rules)
    (ok : RulesOk s) : RulesOk s' :=
  RulesOk.of_frame h (n.shape h) (fun p b hm => Or.inl (by rw [← n.entries]; exact hm))
    (fun p b _ hr => Or.inl (by rw [← hrule]; exact hr)) (fun k hk => by rw [hrules]; exact hk) ok

theorem rulesOk_modCell {s : State} {t : T} (h : Shape s t) (i : Nat) (f : Cell → Cell)
    (hf : ∀ c, (f c).left = c.left ∧ (f c).right = c.right ∧ (f c).child = c.child ∧
      (f c).chunk = c.chunk ∧ (f c).flags.hasTail = c.flags.hasTail)
    (hrule : ∀ c, (f c).flags.rule = c.flags.rule) (ok : RulesOk s) : RulesOk (s.modCell i f) :=
  RulesOk.of_noStruct h (noStruct_modCell s i f hf)
    (fun a => by rw [cell_modCell]; split <;> simp [hrule]) (rules_modCell s i f) ok

theorem rulesOk_addLru {s : State} {t : T} (h : Shape s t) (stems : LRU) (flag : Bool) (ok : RulesOk s) :
    RulesOk (s.addLru stems flag).1 := by
  by_cases hne : stems = []
  · subst hne; rw [addLru_nil]; exact ok
  · obtain ⟨t', g, _⟩ := addLru_grow h stems flag hne
    have a := attrStep_addLru s stems flag
    refine RulesOk.of_frame h g.shape (fun p b hm => ?_) (fun p b _ hr => Or.inl ?_)
      (fun k hk => by rw [ramRules_addLru]; exact hk) ok
    · rcases g.new p b hm with h1 | ⟨h2, _⟩
      · exact Or.inl h1
      · exact Or.inr h2
    · by_cases hb : b < s.trie.size
      · rw [← (a.old b hb).rule]; exact hr
      · rw [(a.new b (Nat.le_of_not_lt hb)).rule] at hr; simp at hr

theorem rulesOk_addPageTrie {s : State} {t : T} (h : Shape s t) (stems : LRU) (c : Bool)
    (hst : ∀ x ∈ stems, StemWf x) (ok : RulesOk s) : RulesOk (s.addPageTrie stems c).1 := by
  obtain ⟨t1, k1, _⟩ := keeps_addLru h stems false hst
  have ok1 := rulesOk_addLru h stems false ok
  unfold addPageTrie
  rcases ha : s.addLru stems false with ⟨s1, n, hh⟩
  rw [ha] at k1 ok1
  simp only at k1 ok1 ⊢
  split
  · exact rulesOk_modCell k1.shape _ _ (fun _ => ⟨rfl, rfl, rfl, rfl, rfl⟩) (fun _ => rfl) ok1
  · split
    · exact rulesOk_modCell k1.shape _ _ (fun _ => ⟨rfl, rfl, rfl, rfl, rfl⟩) (fun _ => rfl) ok1
    · exact ok1

theorem rulesOk_foldl_modCell {α : Type} (g : α → Nat) (f : α → Cell → Cell)
    (hf : ∀ a c, ((f a c).left = c.left ∧ (f a c).right = c.right ∧ (f a c).child = c.child ∧
      (f a c).chunk = c.chunk ∧ (f a c).flags.hasTail = c.flags.hasTail))
    (hp : ∀ a c, (f a c).flags.page = c.flags.page) (hc : ∀ a c, (f a c).flags.crawled = c.flags.crawled)
    (hrule : ∀ a c, (f a c).flags.rule = c.flags.rule) :
    ∀ (l : List α) (s : State) (t : T), Shape s t → RulesOk s →
      RulesOk (l.foldl (fun st a => st.modCell (g a) (f a)) s)
  | [], _, _, _, ok => ok
  | a :: l, s, t, h, ok => by
    rw [List.foldl_cons]
    have k := keeps_modCell h (g a) (f a) (hf a) (hp a) (hc a)
    exact rulesOk_foldl_modCell g f hf hp hc hrule l _ t k.shape
      (rulesOk_modCell h (g a) (f a) (hf a) (hrule a) ok)

theorem rulesOk_addPrefixesScan : ∀ (ps : List Bytes) (s : State) (t : T) (valid : List (Bytes × Nat)) (nInv : Nat),
    Shape s t → RulesOk s → RulesOk (s.addPrefixesScan ps valid nInv).1
  | [], s, t, valid, nInv, h, ok => by simp only [addPrefixesScan]; exact ok
  | p :: ps, s, t, valid, nInv, h, ok => by
    obtain ⟨t1, k1, _⟩ := keeps_addLruIter h p true
    have ok1 := rulesOk_addLru h (lruIter p) true ok
    rcases ha : s.addLru (lruIter p) true with ⟨s1, n, hh⟩
    rw [ha] at k1 ok1
    simp only [addPrefixesScan, ha]
    split
    · exact rulesOk_addPrefixesScan ps s1 t1 valid (nInv + 1) k1.shape ok1
    · exact rulesOk_addPrefixesScan ps s1 t1 (dictSet valid p n) nInv k1.shape ok1

theorem rulesOk_addPrefixes {s : State} {t : T} (h : Shape s t) (prefixes : List Bytes) (best : Bool)
    (ok : RulesOk s) : RulesOk (s.addPrefixes prefixes best).1 := by
  obtain ⟨t1, k1⟩ := keeps_addPrefixesScan prefixes s t [] 0 h
  have ok1 := rulesOk_addPrefixesScan prefixes s t [] 0 h ok
  rcases ha : s.addPrefixesScan prefixes [] 0 with ⟨s1, valid, nInv⟩
  rw [ha] at k1 ok1
  simp only [addPrefixes, ha]
  split
  · exact ok1
  · split
    · exact ok1
    · have k2 := keeps_genId k1.shape
      have ok2 : RulesOk s1.genId.1 :=
        RulesOk.of_noStruct k1.shape (noStruct_of_trie_eq rfl) (fun a => rfl) rfl ok1
      exact rulesOk_foldl_modCell (fun pn : Bytes × Nat => pn.2) (fun _ c => { c with we := s1.genId.2 })
        (fun _ _ => ⟨rfl, rfl, rfl, rfl, rfl⟩) (fun _ _ => rfl) (fun _ _ => rfl) (fun _ _ => rfl) valid _ t1 k2.shape ok2

theorem rulesOk_createWebentityAuto {s : State} {t : T} (h : Shape s t) (pfx : Bytes) (ok : RulesOk s) :
    RulesOk (s.createWebentityAuto pfx).1 := by
  have ok1 := rulesOk_addPrefixes h (lruVariations pfx) true ok
  unfold createWebentityAuto
  split <;> rename_i heq <;> rw [heq] at ok1 <;> exact ok1

/-- `__add_page` keeps `RulesOk` -/
theorem rulesOk_addPageCore {s : State} {t : T} (h : Shape s t) (lru : Bytes) (c : Bool) (ok : RulesOk s) :
    RulesOk (s.addPageCore lru c).1 := by
  obtain ⟨t1, x1, _⟩ := addPageTrie_step h (lruIter lru) c (lruIter_wf lru)
  have ok1 := rulesOk_addPageTrie h (lruIter lru) c (lruIter_wf lru) ok
  obtain ⟨s2, res, e, hs2, _⟩ := addPageCore_cases s lru c
  rw [e]
  rcases hs2 with rfl | ⟨x, rfl⟩
  · exact ok1
  · exact rulesOk_createWebentityAuto x1.shape x ok1

theorem co_rule_of_trie_eq {s s' : State} (h : s'.trie = s.trie) (a : Nat) :
    (s'.cell a).flags.rule = (s.cell a).flags.rule := by
  unfold State.cell; rw [h]

/-- list writes keep `RulesOk` -/
theorem rulesOk_addStubs {s : State} {t : T} (h : Shape s t) (page : Nat) (targets : List Nat) (out : Bool)
    (ok : RulesOk s) : RulesOk (s.addStubs page targets out) := by
  unfold addStubs
  split
  · exact ok
  · have k := keeps_addStubsGo targets s (if out then (s.cell page).out else (s.cell page).inn) t h
    have ht := addStubsGo_trie_eq targets s (if out then (s.cell page).out else (s.cell page).inn)
    have ok1 : RulesOk (s.addStubsGo (if out then (s.cell page).out else (s.cell page).inn) targets).1 :=
      RulesOk.of_noStruct h (noStruct_of_trie_eq ht) (co_rule_of_trie_eq ht) (ramRules_addStubsGo _ _ _) ok
    exact rulesOk_modCell k.shape _ _ (fun c => by cases out <;> exact ⟨rfl, rfl, rfl, rfl, rfl⟩)
      (fun c => by cases out <;> rfl) ok1

/-- installing a rule keeps `RulesOk`, provided the anchor is a complete LRU (its stems spell it entirely) -/
theorem rulesOk_installAnchor {s : State} {t : T} (h : Shape s t) (anchor : Bytes) (r : Rule)
    (hne : lruIter anchor ≠ []) (hcanon : (lruIter anchor).flatten = anchor) (ok : RulesOk s) :
    RulesOk ((({ s with rules := dictSet s.rules anchor r } : State).addLru (lruIter anchor) false).1.modCell
      (({ s with rules := dictSet s.rules anchor r } : State).addLru (lruIter anchor) false).2.1
      (fun c => { c with flags := { c.flags with rule := true } })) := by
  have k0 : Keeps s t { s with rules := dictSet s.rules anchor r } t := Keeps.of_trie_eq h rfl
  have ok0 : RulesOk { s with rules := dictSet s.rules anchor r } :=
    RulesOk.of_frame h k0.shape (fun p b hm => Or.inl (by
        rw [← (noStruct_of_trie_eq (s := s) (s' := { s with rules := dictSet s.rules anchor r }) rfl).entries]
        exact hm))
      (fun p b _ hr => Or.inl hr) (fun k hk => Co.dictGet?_dictSet_isSome s.rules anchor r k hk) ok
  obtain ⟨t1, k1, hent⟩ := keeps_addLruIter k0.shape anchor false
  have ok1 := rulesOk_addLru k0.shape (lruIter anchor) false ok0
  have hr1 := ramRules_addLru { s with rules := dictSet s.rules anchor r } (lruIter anchor) false
  rcases ha : State.addLru { s with rules := dictSet s.rules anchor r } (lruIter anchor) false with ⟨s1, n, hh⟩
  rw [ha] at k1 hent ok1 hr1
  simp only at k1 hent ok1 hr1 ⊢
  have ns := noStruct_modCell s1 n (fun c => { c with flags := { c.flags with rule := true } })
    (fun _ => ⟨rfl, rfl, rfl, rfl, rfl⟩)
  refine RulesOk.of_frame k1.shape (ns.shape k1.shape) (fun p b hm => Or.inl (by rw [← ns.entries]; exact hm))
    (fun p b hm hr => ?_) (fun k hk => by rw [rules_modCell]; exact hk) ok1
  rw [ns.entries] at hm
  by_cases hb : b = n
  · subst hb
    right
    have : p = lruIter anchor := entries_addr_injective k1.shape.nodup hm (hent hne)
    rw [this, hcanon, rules_modCell, hr1]
    show (dictGet? (dictSet s.rules anchor r) anchor).isSome
    rw [Co.dictGet?_dictSet_self]; rfl
  · left
    rw [cell_modCell, if_neg (fun hx => hb hx.1.symm)] at hr
    exact hr

end Traph

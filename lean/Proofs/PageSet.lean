import Proofs.ShapeOps
import Proofs.Traverse
import Proofs.NewCount
/-! C01, the page-set refinement: what every write request does to the set of pages / crawled pages
    denoted by the tree, and what it reports. -/
namespace Traph
open State Layout

/-! ### a flag write at the node of an LRU -/

theorem adds_flagWrite {s s' : State} {t : T} (h : Shape s t) (hi : Inv s t) (n : NoStruct s s')
    {stems : LRU} {b0 : Nat} (hm : (stems, b0) ∈ t.entries s []) (cr : Bool)
    (hother : ∀ b, b ≠ b0 → (s'.cell b).flags.page = (s.cell b).flags.page ∧
      (s'.cell b).flags.crawled = (s.cell b).flags.crawled)
    (hpage : (s'.cell b0).flags.page = true)
    (hcr : (s'.cell b0).flags.crawled = ((s.cell b0).flags.crawled || cr)) :
    Adds s t s' t [(stems, cr, cr)] := by
  have e := n.entries t []
  have uniq : ∀ p, (p, b0) ∈ t.entries s [] → stems = p := fun p hp => entries_addr_injective h.nodup hm hp
  refine ⟨⟨?_, ?_⟩, ?_, ?_, ?_⟩
  · intro p b hm'; rw [e] at hm'; exact hi.wf p b hm'
  · intro p b hm' hc
    rw [e] at hm'
    by_cases hb : b = b0
    · subst hb; exact hpage
    · rw [(hother b hb).1]; rw [(hother b hb).2] at hc; exact hi.flags p b hm' hc
  · intro p
    simp only [List.mem_singleton, exists_eq_left]
    constructor
    · rintro ⟨b, hm', hp⟩
      rw [e] at hm'
      by_cases hb : b = b0
      · subst hb; exact Or.inr (uniq p hm')
      · exact Or.inl ⟨b, hm', by rw [← (hother b hb).1]; exact hp⟩
    · rintro (⟨b, hm', hp⟩ | rfl)
      · refine ⟨b, by rw [e]; exact hm', ?_⟩
        by_cases hb : b = b0
        · subst hb; exact hpage
        · rw [(hother b hb).1]; exact hp
      · exact ⟨b0, by rw [e]; exact hm, hpage⟩
  · rintro p ⟨b, hm', hp, hc⟩
    rw [e] at hm'
    simp only [List.mem_singleton, exists_eq_left]
    by_cases hb : b = b0
    · subst hb
      have hu := uniq p hm'
      rw [hcr] at hc
      cases cr with
      | true => exact Or.inr ⟨hu, rfl⟩
      | false =>
        simp only [Bool.or_false] at hc
        exact Or.inl ⟨b, hm', hi.flags p b hm' hc, hc⟩
    · exact Or.inl ⟨b, hm', by rw [← (hother b hb).1]; exact hp, by rw [← (hother b hb).2]; exact hc⟩
  · rintro p (⟨b, hm', hp, hc⟩ | h2)
    · refine ⟨b, by rw [e]; exact hm', ?_, ?_⟩
      · by_cases hb : b = b0
        · subst hb; exact hpage
        · rw [(hother b hb).1]; exact hp
      · by_cases hb : b = b0
        · subst hb; rw [hcr, hc]; rfl
        · rw [(hother b hb).2]; exact hc
    · simp only [List.mem_singleton, exists_eq_left] at h2
      obtain ⟨rfl, rfl⟩ := h2
      exact ⟨b0, by rw [e]; exact hm, hpage, by rw [hcr]; simp⟩

/-- the node found by the look-up carries the page mark iff the LRU is a page -/
theorem page_iff_isPage {s : State} {t : T} (h : Shape s t) {stems : LRU} {n : Nat}
    (hm : (stems, n) ∈ t.entries s []) : (s.cell n).flags.page = true ↔ IsPage s t stems :=
  ⟨fun hp => ⟨n, hm, hp⟩, fun ⟨b, hb, hp⟩ => by
    rw [entries_path_injective h.ord h.nodup hm hb]; exact hp⟩

/-! ### `add_page` on the trie -/

theorem addPageTrie_finish {s s1 s2 : State} {t t1 : T} {stems : LRU} {n : Nat} {c : Bool}
    (k1 : Keeps s t s1 t1) (hent : stems ≠ [] → (stems, n) ∈ t1.entries s1 [])
    (ns : NoStruct s1 s2)
    (hother : ∀ b, b ≠ n → (s2.cell b).flags.page = (s1.cell b).flags.page ∧
      (s2.cell b).flags.crawled = (s1.cell b).flags.crawled)
    (hpage : n < s1.trie.size → (s2.cell n).flags.page = true)
    (hcr : n < s1.trie.size → (s2.cell n).flags.crawled = ((s1.cell n).flags.crawled || c)) :
    Ext s t s2 t1 ∧ (stems ≠ [] → (stems, n) ∈ t1.entries s2 [] ∧ (s2.cell n).flags.page = true ∧
      (Inv s t → Adds s t s2 t1 [(stems, c, c)])) := by
  refine ⟨k1.ext.trans (ns.ext k1.shape), fun hne => ?_⟩
  have hm := hent hne
  have hlt := entry_lt k1.shape hm
  refine ⟨by rw [ns.entries]; exact hm, hpage hlt, fun hi => ?_⟩
  have a1 := k1.adds hi
  exact a1.trans (adds_flagWrite k1.shape a1.inv ns hm c hother (hpage hlt) (hcr hlt))

theorem addPageTrie_step {s : State} {t : T} (h : Shape s t) (stems : LRU) (c : Bool)
    (hst : ∀ x ∈ stems, StemWf x) :
    ∃ t', Ext s t (s.addPageTrie stems c).1 t' ∧ (stems ≠ [] →
      (stems, (s.addPageTrie stems c).2.1) ∈ t'.entries (s.addPageTrie stems c).1 [] ∧
      ((s.addPageTrie stems c).1.cell (s.addPageTrie stems c).2.1).flags.page = true ∧
      (Inv s t → Adds s t (s.addPageTrie stems c).1 t' [(stems, c, c)] ∧
        ((s.addPageTrie stems c).2.2.created = true ↔ ¬ IsPage s t stems))) := by
  obtain ⟨t1, k1, hent⟩ := keeps_addLru h stems false hst
  have hcre := addLru_created s stems false
  rcases ha : s.addLru stems false with ⟨s1, n, hh⟩
  rw [ha] at k1 hent hcre
  simp only at hent hcre k1
  have hpi : stems ≠ [] → Inv s t → ((s1.cell n).flags.page = true ↔ IsPage s t stems) := fun hne hi => by
    rw [page_iff_isPage k1.shape (hent hne), k1.page hi]
  unfold addPageTrie
  rw [ha]
  simp only
  by_cases hpg : (s1.cell n).flags.page = true
  · by_cases hcr : (c && !(s1.cell n).flags.crawled) = true
    · rw [if_neg (by simp [hpg]), if_pos hcr]
      simp only [Bool.and_eq_true, Bool.not_eq_true'] at hcr
      obtain ⟨f1, f2⟩ := addPageTrie_finish (c := c) k1 hent
        (noStruct_modCell s1 n (fun c => { c with flags := { c.flags with crawled := true } })
          (fun _ => ⟨rfl, rfl, rfl, rfl, rfl⟩))
        (fun b hb => by rw [cell_modCell, if_neg (fun hx => hb hx.1.symm)]; exact ⟨rfl, rfl⟩)
        (fun hlt => by rw [cell_modCell, if_pos ⟨rfl, hlt⟩]; exact hpg)
        (fun hlt => by rw [cell_modCell, if_pos ⟨rfl, hlt⟩]; simp [hcr.1])
      refine ⟨t1, f1, fun hne => ?_⟩
      obtain ⟨g1, g2, g3⟩ := f2 hne
      refine ⟨g1, g2, fun hi => ⟨g3 hi, ?_⟩⟩
      rw [hcre, ← hpi hne hi]; simp [hpg]
    · rw [if_neg (by simp [hpg]), if_neg hcr]
      obtain ⟨f1, f2⟩ := addPageTrie_finish (c := c) k1 hent (NoStruct.refl s1)
        (fun b hb => ⟨rfl, rfl⟩) (fun _ => hpg)
        (fun _ => by cases c <;> cases hx : (s1.cell n).flags.crawled <;> simp_all)
      refine ⟨t1, f1, fun hne => ?_⟩
      obtain ⟨g1, g2, g3⟩ := f2 hne
      refine ⟨g1, g2, fun hi => ⟨g3 hi, ?_⟩⟩
      rw [hcre, ← hpi hne hi]; simp [hpg]
  · have hpf : (s1.cell n).flags.page = false := by simpa using hpg
    rw [if_pos (by simp [hpf])]
    obtain ⟨f1, f2⟩ := addPageTrie_finish (c := c) k1 hent
      (noStruct_modCell s1 n (fun c' => { c' with flags := { c'.flags with page := true, crawled := c'.flags.crawled || c } })
        (fun _ => ⟨rfl, rfl, rfl, rfl, rfl⟩))
      (fun b hb => by rw [cell_modCell, if_neg (fun hx => hb hx.1.symm)]; exact ⟨rfl, rfl⟩)
      (fun hlt => by rw [cell_modCell, if_pos ⟨rfl, hlt⟩])
      (fun hlt => by rw [cell_modCell, if_pos ⟨rfl, hlt⟩])
    refine ⟨t1, f1, fun hne => ?_⟩
    obtain ⟨g1, g2, g3⟩ := f2 hne
    refine ⟨g1, g2, fun hi => ⟨g3 hi, ?_⟩⟩
    rw [← hpi hne hi]; simp [hpf]


/-! ### `__add_page` -/

theorem createWebentityAuto_pages (s : State) (x : Bytes) : (s.createWebentityAuto x).2.pages = 0 := by
  unfold createWebentityAuto; split <;> rfl

theorem Report.add_pages (r o : Report) : (r.add o).pages = r.pages + o.pages := rfl

/-- the shape of `__add_page`: the trie insertion, possibly followed by one automatic webentity creation;
    the only error is the `KeyError` of a flagged anchor that is missing from the RAM dict -/
theorem addPageCore_cases (s : State) (lru : Bytes) (c : Bool) :
    ∃ s2 res, s.addPageCore lru c = (s2, (s.addPageTrie (lruIter lru) c).2.1, res) ∧
      (s2 = (s.addPageTrie (lruIter lru) c).1 ∨
        ∃ x, s2 = ((s.addPageTrie (lruIter lru) c).1.createWebentityAuto x).1) ∧
      (∀ r, res = .ok r → r.pages = if (s.addPageTrie (lruIter lru) c).2.2.created then 1 else 0) ∧
      (∀ e, res = .error e → e = .other "KeyError") := by
  rcases ha : s.addPageTrie (lruIter lru) c with ⟨s1, n, h⟩
  simp only [addPageCore, ha]
  generalize (if h.created = true then 1 else 0 : Nat) = k
  repeat' split
  all_goals refine ⟨_, _, rfl, by first | exact Or.inl rfl | exact Or.inr ⟨_, rfl⟩, fun r hr => ?_, fun e he => ?_⟩
  all_goals first | cases hr | cases he
  all_goals first | rfl | simp [Report.add_pages, createWebentityAuto_pages]

theorem Adds.trans_nil {s0 s1 s2 : State} {t0 t1 t2 : T} {A : List (LRU × Bool × Bool)}
    (h1 : Adds s0 t0 s1 t1 A) (h2 : Adds s1 t1 s2 t2 []) : Adds s0 t0 s2 t2 A := by
  have := h1.trans h2
  rwa [List.append_nil] at this

theorem Adds.nil_trans {s0 s1 s2 : State} {t0 t1 t2 : T} {A : List (LRU × Bool × Bool)}
    (h1 : Adds s0 t0 s1 t1 []) (h2 : Adds s1 t1 s2 t2 A) : Adds s0 t0 s2 t2 A := h1.trans h2

theorem addPageCore_err (s : State) (lru : Bytes) (c : Bool) (e : Err)
    (h : (s.addPageCore lru c).2.2 = .error e) : e = .other "KeyError" := by
  obtain ⟨s2, res, e1, _, _, h4⟩ := addPageCore_cases s lru c
  rw [e1] at h
  exact h4 e h

theorem addPageCore_step {s : State} {t : T} (h : Shape s t) (lru : Bytes) (c : Bool) :
    ∃ t', Ext s t (s.addPageCore lru c).1 t' ∧ (lruIter lru ≠ [] →
      (lruIter lru, (s.addPageCore lru c).2.1) ∈ t'.entries (s.addPageCore lru c).1 [] ∧
      ((s.addPageCore lru c).1.cell (s.addPageCore lru c).2.1).flags.page = true ∧
      (Inv s t → Adds s t (s.addPageCore lru c).1 t' [(lruIter lru, c, c)] ∧
        ∀ r, (s.addPageCore lru c).2.2 = .ok r →
          (IsPage s t (lruIter lru) → r.pages = 0) ∧ (¬ IsPage s t (lruIter lru) → r.pages = 1))) := by
  obtain ⟨s2, res, e, hs2, hrep, _⟩ := addPageCore_cases s lru c
  obtain ⟨t1, x1, f1⟩ := addPageTrie_step h (lruIter lru) c (lruIter_wf lru)
  rw [e]
  simp only
  have hr' : ((s.addPageTrie (lruIter lru) c).2.2.created = true ↔ ¬ IsPage s t (lruIter lru)) →
      ∀ r, res = .ok r → (IsPage s t (lruIter lru) → r.pages = 0) ∧ (¬ IsPage s t (lruIter lru) → r.pages = 1) := by
    intro hc r hr
    have := hrep r hr
    constructor
    · intro hp; rw [this, if_neg]; intro hcr; exact (hc.mp hcr) hp
    · intro hp; rw [this, if_pos (hc.mpr hp)]
  rcases hs2 with rfl | ⟨x, rfl⟩
  · refine ⟨t1, x1, fun hne => ?_⟩
    obtain ⟨g1, g2, g3⟩ := f1 hne
    exact ⟨g1, g2, fun hi => ⟨(g3 hi).1, hr' (g3 hi).2⟩⟩
  · obtain ⟨t2, k2⟩ := keeps_createWebentityAuto x1.shape x
    refine ⟨t2, x1.trans k2.ext, fun hne => ?_⟩
    obtain ⟨g1, g2, g3⟩ := f1 hne
    refine ⟨k2.ext.keep _ _ g1, ?_, fun hi => ⟨(g3 hi).1.trans_nil (k2.adds (g3 hi).1.inv), hr' (g3 hi).2⟩⟩
    exact ((le_createWebentityAuto _ x x1.shape.live).cell_le _ (entry_lt x1.shape g1)).page g2

/-! ### pages added together with the number of new ones -/

structure AddsR (s : State) (t : T) (s' : State) (t' : T) (A : List (LRU × Bool × Bool)) (k : Nat) : Prop where
  adds : Adds s t s' t' A
  count : k = newCount (IsPage s t) (A.map (·.1))

theorem AddsR.trans {s0 s1 s2 : State} {t0 t1 t2 : T} {A B : List (LRU × Bool × Bool)} {k1 k2 : Nat}
    (h1 : AddsR s0 t0 s1 t1 A k1) (h2 : AddsR s1 t1 s2 t2 B k2) : AddsR s0 t0 s2 t2 (A ++ B) (k1 + k2) :=
  ⟨h1.adds.trans h2.adds, by
    rw [List.map_append, newCount_append, ← h1.count, h2.count]
    congr 1
    apply newCount_congr
    intro q
    rw [h1.adds.page, List.mem_map]⟩

theorem AddsR.nil {s s' : State} {t t' : T} (h : Adds s t s' t' []) : AddsR s t s' t' [] 0 :=
  ⟨h, by rw [List.map_nil, newCount_nil]⟩

theorem AddsR.trans_nil {s0 s1 s2 : State} {t0 t1 t2 : T} {A : List (LRU × Bool × Bool)} {k : Nat}
    (h1 : AddsR s0 t0 s1 t1 A k) (h2 : Adds s1 t1 s2 t2 []) : AddsR s0 t0 s2 t2 A k := by
  have := h1.trans (AddsR.nil h2)
  rwa [List.append_nil, Nat.add_zero] at this

theorem AddsR.nil_trans {s0 s1 s2 : State} {t0 t1 t2 : T} {A : List (LRU × Bool × Bool)} {k : Nat}
    (h1 : Adds s0 t0 s1 t1 []) (h2 : AddsR s1 t1 s2 t2 A k) : AddsR s0 t0 s2 t2 A k := by
  have := (AddsR.nil h1).trans h2
  rwa [List.nil_append, Nat.zero_add] at this

theorem AddsR.single {s s' : State} {t t' : T} {p : LRU} {m1 m2 : Bool} {k : Nat}
    (a : Adds s t s' t' [(p, m1, m2)]) (hk : (IsPage s t p → k = 0) ∧ (¬ IsPage s t p → k = 1)) :
    AddsR s t s' t' [(p, m1, m2)] k :=
  ⟨a, by
    have := newCount_single (IsPage s t) p
    by_cases hp : IsPage s t p
    · rw [hk.1 hp]; exact (this.1 hp).symm
    · rw [hk.2 hp]; exact (this.2 hp).symm⟩


/-! ### bulk page insertion -/

theorem adds_markCrawled {s : State} {t : T} (h : Shape s t) (hi : Inv s t) {p : LRU} {n : Nat}
    (hm : (p, n) ∈ t.entries s []) (hp : (s.cell n).flags.page = true) :
    Adds s t (s.modCell n (fun c => { c with flags := { c.flags with crawled := true } })) t [(p, true, true)] := by
  have hlt := entry_lt h hm
  exact adds_flagWrite h hi (noStruct_modCell s n (fun c => { c with flags := { c.flags with crawled := true } })
      (fun _ => ⟨rfl, rfl, rfl, rfl, rfl⟩)) hm true
    (fun b hb => by rw [cell_modCell, if_neg (fun hx => hb hx.1.symm)]; exact ⟨rfl, rfl⟩)
    (by rw [cell_modCell, if_pos ⟨rfl, hlt⟩]; exact hp)
    (by rw [cell_modCell, if_pos ⟨rfl, hlt⟩]; simp)

theorem ext_markCrawled {s : State} {t : T} (h : Shape s t) (n : Nat) :
    Ext s t (s.modCell n (fun c => { c with flags := { c.flags with crawled := true } })) t :=
  (noStruct_modCell s n (fun c => { c with flags := { c.flags with crawled := true } })
    (fun _ => ⟨rfl, rfl, rfl, rfl, rfl⟩)).ext h

theorem adds_always {s s1 : State} {t t1 : T} {p : LRU} {n : Nat} {c : Bool} (always : Bool)
    (a : Adds s t s1 t1 [(p, c, c)]) (h1 : Shape s1 t1) (hm : (p, n) ∈ t1.entries s1 [])
    (hp : (s1.cell n).flags.page = true) :
    Adds s t (if always then s1.modCell n (fun c => { c with flags := { c.flags with crawled := true } }) else s1)
      t1 [(p, c || always, true)] := by
  cases always with
  | false =>
    simp only [Bool.or_false]
    refine a.weaken (fun q => by simp) ?_ ?_
    · intro x hx _
      simp only [List.mem_singleton] at hx; subst hx
      exact ⟨_, List.mem_singleton.mpr rfl, rfl, rfl⟩
    · intro y hy hmu
      simp only [List.mem_singleton] at hy; subst hy
      exact ⟨_, List.mem_singleton.mpr rfl, rfl, hmu⟩
  | true =>
    simp only [Bool.or_true]
    have a2 := a.trans (adds_markCrawled h1 a.inv hm hp)
    refine a2.weaken (fun q => by simp) ?_ ?_
    · intro x hx _
      simp only [List.cons_append, List.nil_append, List.mem_cons, List.not_mem_nil, or_false] at hx
      rcases hx with rfl | rfl <;> exact ⟨_, List.mem_singleton.mpr rfl, rfl, rfl⟩
    · intro y hy _
      simp only [List.mem_singleton] at hy; subst hy
      exact ⟨(p, true, true), by simp, rfl, rfl⟩

theorem addPagesGo_step (always : Bool) : ∀ (ls : List Bytes) (s : State) (t : T) (c : Bool) (rep : Report),
    Shape s t →
    ∃ t', Ext s t (addPagesGo always s ls c rep).1 t' ∧
      ((∀ l ∈ ls, lruIter l ≠ []) → Inv s t → ∀ r, (addPagesGo always s ls c rep).2 = .ok r →
        ∃ k, r.pages = rep.pages + k ∧
          AddsR s t (addPagesGo always s ls c rep).1 t' (ls.map (fun l => (lruIter l, c || always, true))) k)
  | [], s, t, c, rep, h => by
    simp only [addPagesGo]
    refine ⟨t, Ext.refl h, fun _ hi r hr => ?_⟩
    cases hr
    exact ⟨0, rfl, AddsR.nil (Adds.refl hi)⟩
  | l :: ls, s, t, c, rep, h => by
    obtain ⟨t1, x1, f1⟩ := addPageCore_step h l c
    rw [addPagesGo]
    split
    · rename_i s1 _ e heq
      rw [heq] at x1
      exact ⟨t1, x1, fun _ _ r hr => by cases hr⟩
    · rename_i s1 n r1 heq
      rw [heq] at x1 f1
      simp only at x1 f1
      have x2 : Ext s1 t1 (if always = true then s1.modCell n (fun c => { c with flags := { c.flags with crawled := true } }) else s1) t1 := by
        split
        · exact ext_markCrawled x1.shape n
        · exact Ext.refl x1.shape
      obtain ⟨t3, x3, f3⟩ := addPagesGo_step always ls _ t1 c (rep.add r1) x2.shape
      refine ⟨t3, x1.trans (x2.trans x3), fun hne hi r hr => ?_⟩
      obtain ⟨g1, g2, g3⟩ := f1 (hne l (by simp))
      obtain ⟨a1, hrep⟩ := g3 hi
      have a2 := adds_always always a1 x1.shape g1 g2
      obtain ⟨k2, hk2, ar2⟩ := f3 (fun l' hl' => hne l' (by simp [hl'])) a2.inv r hr
      have ar1 : AddsR s t _ t1 [(lruIter l, c || always, true)] r1.pages := AddsR.single a2 (hrep r1 rfl)
      refine ⟨r1.pages + k2, ?_, ar1.trans ar2⟩
      rw [hk2, Report.add_pages]; omega

theorem addPages_step {s : State} {t : T} (h : Shape s t) (lrus : List Bytes) (c : Bool) :
    ∃ t', Ext s t (s.addPages lrus c).1 t' ∧
      ((∀ l ∈ lrus, lruIter l ≠ []) → Inv s t → ∀ r, (s.addPages lrus c).2 = .ok r →
        AddsR s t (s.addPages lrus c).1 t'
          (lrus.map (fun l => (lruIter l, c || s.cfg.addPagesAlwaysCrawled, true))) r.pages) := by
  obtain ⟨t1, x1, f1⟩ := addPagesGo_step s.cfg.addPagesAlwaysCrawled lrus s t c {} h
  refine ⟨t1, x1, fun hne hi r hr => ?_⟩
  obtain ⟨k, hk, ar⟩ := f1 hne hi r hr
  have : r.pages = k := by rw [hk]; show 0 + k = k; omega
  rw [this]; exact ar

/-! ### the page cache of `add_links` / `index_batch_crawl` -/

def CacheOk (s : State) (t : T) (pages : List (Bytes × Nat)) : Prop :=
  ∀ l n, (l, n) ∈ pages → (lruIter l, n) ∈ t.entries s [] ∧ (s.cell n).flags.page = true

theorem CacheOk.mono {s s' : State} {t t' : T} {A : List (LRU × Bool × Bool)} {pages : List (Bytes × Nat)}
    (x : Ext s t s' t') (a : Adds s t s' t' A) (hc : CacheOk s t pages) : CacheOk s' t' pages := by
  intro l n hm
  obtain ⟨h1, h2⟩ := hc l n hm
  have h1' := x.keep _ _ h1
  refine ⟨h1', ?_⟩
  exact (page_iff_isPage x.shape h1').mpr ((a.page _).mpr (Or.inl ⟨n, h1, h2⟩))

theorem dictGet?_mem {α β : Type} [DecidableEq α] (d : List (α × β)) (k : α) (v : β)
    (h : dictGet? d k = some v) : (k, v) ∈ d := by
  unfold dictGet? at h
  cases hf : d.find? (fun p => p.1 = k) with
  | none => rw [hf] at h; simp at h
  | some p =>
    rw [hf] at h
    simp only [Option.map_some, Option.some.injEq] at h
    have h1 := List.mem_of_find?_eq_some hf
    have h2 := List.find?_some hf
    simp only [decide_eq_true_eq] at h2
    rw [← h, ← h2]; exact h1

theorem Adds.of_isPage {s : State} {t : T} (hi : Inv s t) {p : LRU} (hp : IsPage s t p) (c : Bool) :
    Adds s t s t [(p, false, c)] where
  inv := hi
  page := fun q => by
    simp only [List.mem_singleton, exists_eq_left]
    exact ⟨Or.inl, fun h => h.elim id (fun e => e ▸ hp)⟩
  may := fun q h => Or.inl h
  must := fun q h => by
    rcases h with h | ⟨x, hx, _, hf⟩
    · exact h
    · simp only [List.mem_singleton] at hx; subst hx; simp at hf


theorem ensurePageCached_step {s : State} {t : T} (h : Shape s t) (acc : LinkAcc) (l : Bytes) (c : Bool) :
    ∃ t', Ext s t (s.ensurePageCached acc l c).1 t' ∧
      (lruIter l ≠ [] → Inv s t → CacheOk s t acc.pages → ∀ acc', (s.ensurePageCached acc l c).2 = .ok acc' →
        CacheOk (s.ensurePageCached acc l c).1 t' acc'.pages ∧
        ∃ k, acc'.rep.pages = acc.rep.pages + k ∧
          AddsR s t (s.ensurePageCached acc l c).1 t'
            [(lruIter l, c && (dictGet? acc.pages l).isNone, c)] k) := by
  obtain ⟨t1, x1, f1⟩ := addPageCore_step h l c
  unfold ensurePageCached
  split
  · rename_i n heq
    refine ⟨t, Ext.refl h, fun hne hi hc acc' he => ?_⟩
    cases he
    obtain ⟨h1, h2⟩ := hc l n (dictGet?_mem _ _ _ heq)
    have hp : IsPage s t (lruIter l) := ⟨n, h1, h2⟩
    refine ⟨hc, 0, rfl, ?_⟩
    simp only [heq, Option.isNone_some, Bool.and_false]
    exact AddsR.single (Adds.of_isPage hi hp c) ⟨fun _ => rfl, fun hn => absurd hp hn⟩
  · rename_i heq
    split
    · rename_i s1 _ e heq2
      rw [heq2] at x1
      exact ⟨t1, x1, fun _ _ _ acc' he => by cases he⟩
    · rename_i s1 n r heq2
      rw [heq2] at x1 f1
      simp only at x1 f1
      refine ⟨t1, x1, fun hne hi hc acc' he => ?_⟩
      cases he
      obtain ⟨g1, g2, g3⟩ := f1 hne
      obtain ⟨a1, hrep⟩ := g3 hi
      simp only [heq, Option.isNone_none, Bool.and_true]
      refine ⟨?_, r.pages, Report.add_pages _ _, AddsR.single a1 (hrep r rfl)⟩
      intro l' n' hm
      rcases List.mem_append.mp hm with hm | hm
      · exact hc.mono x1 a1 l' n' hm
      · simp only [List.mem_singleton, Prod.mk.injEq] at hm
        obtain ⟨rfl, rfl⟩ := hm
        exact ⟨g1, g2⟩

/-! ### `add_links` -/

def linkPages (links : List (Bytes × Bytes)) : List (LRU × Bool × Bool) :=
  links.flatMap (fun st => [(lruIter st.1, false, false), (lruIter st.2, false, false)])

theorem addLinksScan_step : ∀ (links : List (Bytes × Bytes)) (s : State) (t : T) (acc : LinkAcc), Shape s t →
    ∃ t', Ext s t (addLinksScan s links acc).1 t' ∧
      ((∀ st ∈ links, lruIter st.1 ≠ [] ∧ lruIter st.2 ≠ []) → Inv s t → CacheOk s t acc.pages →
        ∀ acc', (addLinksScan s links acc).2 = .ok acc' →
          ∃ k, acc'.rep.pages = acc.rep.pages + k ∧
            AddsR s t (addLinksScan s links acc).1 t' (linkPages links) k)
  | [], s, t, acc, h => by
    simp only [addLinksScan]
    refine ⟨t, Ext.refl h, fun _ hi _ acc' he => ?_⟩
    cases he
    exact ⟨0, rfl, AddsR.nil (Adds.refl hi)⟩
  | (src, tgt) :: rest, s, t, acc, h => by
    obtain ⟨t1, x1, f1⟩ := ensurePageCached_step h acc src false
    rw [addLinksScan]
    split
    · rename_i s1 e heq
      rw [heq] at x1
      exact ⟨t1, x1, fun _ _ _ acc' he => by cases he⟩
    · rename_i s1 acc1 heq
      rw [heq] at x1 f1
      simp only at x1 f1
      obtain ⟨t2, x2, f2⟩ := ensurePageCached_step x1.shape acc1 tgt false
      split
      · rename_i s2 e heq2
        rw [heq2] at x2
        exact ⟨t2, x1.trans x2, fun _ _ _ acc' he => by cases he⟩
      · rename_i s2 acc2 heq2
        rw [heq2] at x2 f2
        simp only at x2 f2
        obtain ⟨t3, x3, f3⟩ := addLinksScan_step rest s2 t2
          { acc2 with outl := multiAdd acc2.outl src tgt, inl := multiAdd acc2.inl tgt src } x2.shape
        refine ⟨t3, x1.trans (x2.trans x3), fun hne hi hc acc' he => ?_⟩
        obtain ⟨hn1, hn2⟩ := hne (src, tgt) (by simp)
        obtain ⟨c1, k1, e1, ar1⟩ := f1 hn1 hi hc acc1 rfl
        obtain ⟨c2, k2, e2, ar2⟩ := f2 hn2 ar1.adds.inv c1 acc2 rfl
        obtain ⟨k3, e3, ar3⟩ := f3 (fun st hst => hne st (by simp [hst])) ar2.adds.inv c2 acc' he
        have e3' : acc'.rep.pages = acc2.rep.pages + k3 := e3
        refine ⟨k1 + k2 + k3, by omega, ?_⟩
        have := (ar1.trans ar2).trans ar3
        rw [linkPages, List.flatMap_cons]
        exact this

theorem addLinks_step {s : State} {t : T} (h : Shape s t) (links : List (Bytes × Bytes)) :
    ∃ t', Ext s t (s.addLinks links).1 t' ∧
      ((∀ st ∈ links, lruIter st.1 ≠ [] ∧ lruIter st.2 ≠ []) → Inv s t →
        ∀ r, (s.addLinks links).2 = .ok r → AddsR s t (s.addLinks links).1 t' (linkPages links) r.pages) := by
  obtain ⟨t1, x1, f1⟩ := addLinksScan_step links s t {} h
  unfold addLinks
  split
  · rename_i s1 e heq
    rw [heq] at x1
    exact ⟨t1, x1, fun _ _ r he => by cases he⟩
  · rename_i s1 acc heq
    rw [heq] at x1 f1
    simp only at x1 f1 ⊢
    have k2 := keeps_flushLists true acc.pages acc.outl s1 t1 x1.shape
    have k3 := keeps_flushLists false acc.pages acc.inl _ t1 k2.shape
    refine ⟨t1, x1.trans (k2.ext.trans k3.ext), fun hne hi r he => ?_⟩
    cases he
    obtain ⟨k, e, ar⟩ := f1 hne hi (fun _ _ hm => by simp at hm) acc rfl
    have : acc.rep.pages = k := by rw [e]; show 0 + k = k; omega
    rw [this]
    exact (ar.trans_nil (k2.adds ar.adds.inv)).trans_nil (k3.adds (k2.adds ar.adds.inv).inv)

/-! ### `index_batch_crawl` -/

theorem batchTargets_step : ∀ (ts : List Bytes) (s : State) (t : T) (src : Bytes) (acc : LinkAcc) (tb : List Nat),
    Shape s t →
    ∃ t', Ext s t (batchTargets s src ts acc tb).1 t' ∧
      ((∀ x ∈ ts, lruIter x ≠ []) → Inv s t → CacheOk s t acc.pages →
        ∀ r, (batchTargets s src ts acc tb).2 = .ok r →
          CacheOk (batchTargets s src ts acc tb).1 t' r.1.pages ∧
          ∃ k, r.1.rep.pages = acc.rep.pages + k ∧
            AddsR s t (batchTargets s src ts acc tb).1 t' (ts.map (fun x => (lruIter x, false, false))) k)
  | [], s, t, src, acc, tb, h => by
    simp only [batchTargets]
    refine ⟨t, Ext.refl h, fun _ hi hc r he => ?_⟩
    cases he
    exact ⟨hc, 0, rfl, AddsR.nil (Adds.refl hi)⟩
  | x :: ts, s, t, src, acc, tb, h => by
    obtain ⟨t1, x1, f1⟩ := ensurePageCached_step h acc x false
    rw [batchTargets]
    split
    · rename_i s1 e heq
      rw [heq] at x1
      exact ⟨t1, x1, fun _ _ _ r he => by cases he⟩
    · rename_i s1 acc1 heq
      rw [heq] at x1 f1
      simp only at x1 f1
      obtain ⟨t2, x2, f2⟩ := batchTargets_step ts s1 t1 src { acc1 with inl := multiAdd acc1.inl x src }
        (tb ++ [(dictGet? acc1.pages x).getD 0]) x1.shape
      refine ⟨t2, x1.trans x2, fun hne hi hc r he => ?_⟩
      obtain ⟨c1, k1, e1, ar1⟩ := f1 (hne x (by simp)) hi hc acc1 rfl
      obtain ⟨c2, k2, e2, ar2⟩ := f2 (fun y hy => hne y (by simp [hy])) ar1.adds.inv c1 r he
      have e2' : r.1.rep.pages = acc1.rep.pages + k2 := e2
      exact ⟨c2, k1 + k2, by omega, ar1.trans ar2⟩

def sourceStep (s : State) (acc : LinkAcc) (src : Bytes) : State × Except Err LinkAcc :=
  match dictGet? acc.pages src with
  | none => s.ensurePageCached acc src true
  | some n =>
    if !(s.cell n).flags.crawled then
      (s.modCell n (fun c => { c with flags := { c.flags with crawled := true } }), .ok acc)
    else (s, .ok acc)

theorem sourceStep_step {s : State} {t : T} (h : Shape s t) (acc : LinkAcc) (src : Bytes) :
    ∃ t', Ext s t (sourceStep s acc src).1 t' ∧
      (lruIter src ≠ [] → Inv s t → CacheOk s t acc.pages → ∀ acc', (sourceStep s acc src).2 = .ok acc' →
        CacheOk (sourceStep s acc src).1 t' acc'.pages ∧
        ∃ k, acc'.rep.pages = acc.rep.pages + k ∧
          AddsR s t (sourceStep s acc src).1 t' [(lruIter src, true, true)] k) := by
  unfold sourceStep
  split
  · rename_i heq
    obtain ⟨t1, x1, f1⟩ := ensurePageCached_step h acc src true
    rw [heq] at f1
    simp only [Option.isNone_none, Bool.and_true] at f1
    exact ⟨t1, x1, f1⟩
  · rename_i n heq
    split
    · refine ⟨t, ext_markCrawled h n, fun hne hi hc acc' he => ?_⟩
      cases he
      obtain ⟨h1, h2⟩ := hc src n (dictGet?_mem _ _ _ heq)
      have a := adds_markCrawled h hi h1 h2
      exact ⟨hc.mono (ext_markCrawled h n) a, 0, rfl,
        AddsR.single a ⟨fun _ => rfl, fun hn => absurd ⟨n, h1, h2⟩ hn⟩⟩
    · rename_i hcr
      refine ⟨t, Ext.refl h, fun hne hi hc acc' he => ?_⟩
      cases he
      obtain ⟨h1, h2⟩ := hc src n (dictGet?_mem _ _ _ heq)
      have hcr' : (s.cell n).flags.crawled = true := by simpa using hcr
      have a : Adds s t s t [(lruIter src, true, true)] :=
        adds_flagWrite h hi (NoStruct.refl s) h1 true (fun _ _ => ⟨rfl, rfl⟩) h2 (by rw [hcr']; rfl)
      exact ⟨hc, 0, rfl, AddsR.single a ⟨fun _ => rfl, fun hn => absurd ⟨n, h1, h2⟩ hn⟩⟩

theorem batchSources_cons_ps (s : State) (src : Bytes) (tgts : List Bytes) (rest : List (Bytes × List Bytes))
    (acc : LinkAcc) :
    batchSources s ((src, tgts) :: rest) acc =
      match sourceStep s acc src with
      | (s1, .error e) => (s1, .error e)
      | (s1, .ok acc1) =>
        match batchTargets s1 src tgts acc1 [] with
        | (s2, .error e) => (s2, .error e)
        | (s2, .ok (acc2, tb)) =>
          batchSources (s2.addStubs ((dictGet? acc2.pages src).getD 0) tb true) rest acc2 := by
  rw [batchSources]; rfl

def batchPages (data : List (Bytes × List Bytes)) : List (LRU × Bool × Bool) :=
  data.flatMap (fun d => (lruIter d.1, true, true) :: d.2.map (fun x => (lruIter x, false, false)))

theorem batchSources_step : ∀ (data : List (Bytes × List Bytes)) (s : State) (t : T) (acc : LinkAcc), Shape s t →
    ∃ t', Ext s t (batchSources s data acc).1 t' ∧
      ((∀ d ∈ data, lruIter d.1 ≠ [] ∧ ∀ x ∈ d.2, lruIter x ≠ []) → Inv s t → CacheOk s t acc.pages →
        ∀ acc', (batchSources s data acc).2 = .ok acc' →
          ∃ k, acc'.rep.pages = acc.rep.pages + k ∧
            AddsR s t (batchSources s data acc).1 t' (batchPages data) k)
  | [], s, t, acc, h => by
    simp only [batchSources]
    refine ⟨t, Ext.refl h, fun _ hi _ acc' he => ?_⟩
    cases he
    exact ⟨0, rfl, AddsR.nil (Adds.refl hi)⟩
  | (src, tgts) :: rest, s, t, acc, h => by
    obtain ⟨t1, x1, f1⟩ := sourceStep_step h acc src
    rw [batchSources_cons_ps]
    split
    · rename_i s1 e heq
      rw [heq] at x1
      exact ⟨t1, x1, fun _ _ _ acc' he => by cases he⟩
    · rename_i s1 acc1 heq
      rw [heq] at x1 f1
      simp only at x1 f1
      obtain ⟨t2, x2, f2⟩ := batchTargets_step tgts s1 t1 src acc1 [] x1.shape
      split
      · rename_i s2 e heq2
        rw [heq2] at x2
        exact ⟨t2, x1.trans x2, fun _ _ _ acc' he => by cases he⟩
      · rename_i s2 acc2 tb heq2
        rw [heq2] at x2 f2
        simp only at x2 f2
        have k3 := keeps_addStubs x2.shape ((dictGet? acc2.pages src).getD 0) tb true
        obtain ⟨t4, x4, f4⟩ := batchSources_step rest _ t2 acc2 k3.shape
        refine ⟨t4, x1.trans (x2.trans (k3.ext.trans x4)), fun hne hi hc acc' he => ?_⟩
        obtain ⟨hn1, hn2⟩ := hne (src, tgts) (by simp)
        obtain ⟨c1, k1, e1, ar1⟩ := f1 hn1 hi hc acc1 rfl
        obtain ⟨c2, k2, e2, ar2⟩ := f2 hn2 ar1.adds.inv c1 (acc2, tb) rfl
        have a3 := k3.adds ar2.adds.inv
        obtain ⟨k4, e4, ar4⟩ := f4 (fun d hd => hne d (by simp [hd])) a3.inv (c2.mono k3.ext a3) acc' he
        have e2' : acc2.rep.pages = acc1.rep.pages + k2 := e2
        refine ⟨k1 + k2 + k4, by omega, ?_⟩
        have := (ar1.trans (ar2.trans_nil a3)).trans ar4
        rw [batchPages, List.flatMap_cons]
        exact this

theorem batch_step {s : State} {t : T} (h : Shape s t) (data : List (Bytes × List Bytes)) :
    ∃ t', Ext s t (s.batch data).1 t' ∧
      ((∀ d ∈ data, lruIter d.1 ≠ [] ∧ ∀ x ∈ d.2, lruIter x ≠ []) → Inv s t →
        ∀ r, (s.batch data).2 = .ok r → AddsR s t (s.batch data).1 t' (batchPages data) r.pages) := by
  obtain ⟨t1, x1, f1⟩ := batchSources_step data s t {} h
  unfold batch
  split
  · rename_i s1 e heq
    rw [heq] at x1
    exact ⟨t1, x1, fun _ _ r he => by cases he⟩
  · rename_i s1 acc heq
    rw [heq] at x1 f1
    simp only at x1 f1 ⊢
    have k2 := keeps_flushLists false acc.pages acc.inl s1 t1 x1.shape
    refine ⟨t1, x1.trans k2.ext, fun hne hi r he => ?_⟩
    cases he
    obtain ⟨k, e, ar⟩ := f1 hne hi (fun _ _ hm => by simp at hm) acc rfl
    have : acc.rep.pages = k := by rw [e]; show 0 + k = k; omega
    rw [this]
    exact ar.trans_nil (k2.adds ar.adds.inv)


/-! ### creation rules: the re-insertion walk of `add_webentity_creation_rule` -/

theorem root_entry {s : State} : ∀ (u : T) (pre : LRU), u.root ≠ 0 →
    (pre ++ [s.stemAt u.root], u.root) ∈ u.entries s pre
  | .nil, _, h => absurd rfl h
  | .node a l c r, pre, _ => by simp [T.entries]

/-- an entry's path ends with the stem of its block, and the three pointers of the block lead to
    entries: siblings under the same prefix, the child one stem further -/
theorem entries_last_and_ptrs {s : State} : ∀ (u : T) (pre p : LRU) (b : Nat), Rep s u →
    (p, b) ∈ u.entries s pre →
    ∃ q, p = q ++ [s.stemAt b] ∧
      ((s.cell b).left ≠ 0 → (q ++ [s.stemAt (s.cell b).left], (s.cell b).left) ∈ u.entries s pre) ∧
      ((s.cell b).right ≠ 0 → (q ++ [s.stemAt (s.cell b).right], (s.cell b).right) ∈ u.entries s pre) ∧
      ((s.cell b).child ≠ 0 → (p ++ [s.stemAt (s.cell b).child], (s.cell b).child) ∈ u.entries s pre)
  | .nil, _, _, _, _, h => by simp [T.entries] at h
  | .node a l c r, pre, p, b, hr, h => by
    obtain ⟨ha, ⟨cell, hc, h1, h2, h3⟩, rl, rc, rr⟩ := hr
    simp only [T.entries, List.mem_append, List.mem_cons, Prod.mk.injEq] at h
    rcases h with h | ⟨rfl, rfl⟩ | h | h
    · obtain ⟨q, e, f1, f2, f3⟩ := entries_last_and_ptrs l pre p b rl h
      refine ⟨q, e, fun hx => ?_, fun hx => ?_, fun hx => ?_⟩ <;>
        simp only [T.entries, List.mem_append, List.mem_cons]
      · exact Or.inl (f1 hx)
      · exact Or.inl (f2 hx)
      · exact Or.inl (f3 hx)
    · have hcell : s.cell b = cell := by simp [State.cell, hc]
      rw [hcell, h1, h2, h3]
      refine ⟨pre, rfl, fun hx => ?_, fun hx => ?_, fun hx => ?_⟩ <;>
        simp only [T.entries, List.mem_append, List.mem_cons]
      · exact Or.inl (root_entry l pre hx)
      · exact Or.inr (Or.inr (Or.inr (root_entry r pre hx)))
      · exact Or.inr (Or.inr (Or.inl (root_entry c _ hx)))
    · obtain ⟨q, e, f1, f2, f3⟩ := entries_last_and_ptrs c _ p b rc h
      refine ⟨q, e, fun hx => ?_, fun hx => ?_, fun hx => ?_⟩ <;>
        simp only [T.entries, List.mem_append, List.mem_cons]
      · exact Or.inr (Or.inr (Or.inl (f1 hx)))
      · exact Or.inr (Or.inr (Or.inl (f2 hx)))
      · exact Or.inr (Or.inr (Or.inl (f3 hx)))
    · obtain ⟨q, e, f1, f2, f3⟩ := entries_last_and_ptrs r pre p b rr h
      refine ⟨q, e, fun hx => ?_, fun hx => ?_, fun hx => ?_⟩ <;>
        simp only [T.entries, List.mem_append, List.mem_cons]
      · exact Or.inr (Or.inr (Or.inr (f1 hx)))
      · exact Or.inr (Or.inr (Or.inr (f2 hx)))
      · exact Or.inr (Or.inr (Or.inr (f3 hx)))

/-- a stack entry of the walk: a block of the tree together with the flattened path of its parent -/
def StackOk (s : State) (t : T) (stack : List (Nat × Bytes)) : Prop :=
  ∀ b lru, (b, lru) ∈ stack → ∃ p, (p, b) ∈ t.entries s [] ∧ lru = p.dropLast.flatten

theorem StackOk.mono {s s' : State} {t t' : T} {stack : List (Nat × Bytes)} (x : Ext s t s' t')
    (h : StackOk s t stack) : StackOk s' t' stack := fun b lru hm => by
  obtain ⟨p, h1, h2⟩ := h b lru hm
  exact ⟨p, x.keep _ _ h1, h2⟩

theorem Adds.absorb {s s' : State} {t t' : T} {p : LRU} (a : Adds s t s' t' [(p, false, false)])
    (hp : IsPage s t p) : Adds s t s' t' [] where
  inv := a.inv
  page := fun q => by
    rw [a.page]
    simp only [List.mem_singleton, exists_eq_left, List.not_mem_nil, false_and, exists_false, or_false]
    exact ⟨fun h => h.elim id (fun e => e ▸ hp), Or.inl⟩
  may := fun q h => by
    rcases a.may q h with h | ⟨x, hx, _, hf⟩
    · exact Or.inl h
    · simp only [List.mem_singleton] at hx; subst hx; simp at hf
  must := fun q h => by
    rcases h with h | ⟨x, hx, _⟩
    · exact a.must q (Or.inl h)
    · simp at hx

/-- one visit of the walk: a block that carries the page mark is re-inserted through `__add_page` -/
def ruleVisit (s : State) (b : Nat) (lru : Bytes) (rep : Report) : State × Except Err Report :=
  if (s.cell b).flags.page then
    (match s.addPageCore (lru ++ s.stemAt b) false with
     | (s1, _, .error e) => (s1, .error e)
     | (s1, _, .ok r1) => (s1, .ok (rep.add r1)))
  else (s, .ok rep)

theorem ruleVisit_step {s : State} {t : T} (h : Shape s t) (b : Nat) (lru : Bytes) (rep : Report) :
    ∃ t', Ext s t (ruleVisit s b lru rep).1 t' ∧
      (Inv s t → (∃ p, (p, b) ∈ t.entries s [] ∧ lru = p.dropLast.flatten) →
        Adds s t (ruleVisit s b lru rep).1 t' [] ∧
        ∀ r, (ruleVisit s b lru rep).2 = .ok r → r.pages = rep.pages) := by
  unfold ruleVisit
  split
  · rename_i hpg
    obtain ⟨t1, x1, f1⟩ := addPageCore_step h (lru ++ s.stemAt b) false
    have key : Inv s t → (∃ p, (p, b) ∈ t.entries s [] ∧ lru = p.dropLast.flatten) →
        Adds s t (s.addPageCore (lru ++ s.stemAt b) false).1 t1 [] ∧
        ∀ r, (s.addPageCore (lru ++ s.stemAt b) false).2.2 = .ok r → r.pages = 0 := by
      rintro hi ⟨p, hm, rfl⟩
      obtain ⟨q, e, _⟩ := entries_last_and_ptrs t [] p b h.rep hm
      have hcur : p.dropLast.flatten ++ s.stemAt b = p.flatten := by
        rw [e, List.dropLast_concat]; simp
      have e2 : lruIter (p.dropLast.flatten ++ s.stemAt b) = p := by
        rw [hcur]; exact lruIter_flatten p (hi.wf p b hm)
      have hne : p ≠ [] := by rw [e]; simp
      rw [e2] at f1
      obtain ⟨_, _, g3⟩ := f1 hne
      obtain ⟨a1, hrep⟩ := g3 hi
      have hp : IsPage s t p := ⟨b, hm, hpg⟩
      exact ⟨a1.absorb hp, fun r hr => (hrep r hr).1 hp⟩
    split
    · rename_i s1 _ e heq
      rw [heq] at x1 key
      exact ⟨t1, x1, fun hi hs => ⟨(key hi hs).1, fun r hr => by cases hr⟩⟩
    · rename_i s1 _ r1 heq
      rw [heq] at x1 key
      refine ⟨t1, x1, fun hi hs => ⟨(key hi hs).1, fun r hr => ?_⟩⟩
      cases hr
      rw [Report.add_pages, (key hi hs).2 r1 rfl, Nat.add_zero]
  · refine ⟨t, Ext.refl h, fun hi _ => ⟨Adds.refl hi, fun r hr => ?_⟩⟩
    cases hr; rfl

def ruleNext (start b : Nat) (c : Cell) (lru cur : Bytes) (stack : List (Nat × Bytes)) : List (Nat × Bytes) :=
  let stack := if b ≠ start then
      (let st := if c.right ≠ 0 then (c.right, lru) :: stack else stack
       if c.left ≠ 0 then (c.left, lru) :: st else st) else stack
  if c.child ≠ 0 then (c.child, cur) :: stack else stack

theorem mem_ite_cons {α : Type} {P : Prop} [Decidable P] {a : α} {st : List α} {x : α}
    (h : x ∈ (if P then a :: st else st)) : x ∈ st ∨ (x = a ∧ P) := by
  split at h
  · rename_i hP
    rcases List.mem_cons.mp h with rfl | h
    · exact Or.inr ⟨rfl, hP⟩
    · exact Or.inl h
  · exact Or.inl h

theorem mem_ruleNext {start b : Nat} {c : Cell} {lru cur : Bytes} {stack : List (Nat × Bytes)} {x : Nat × Bytes}
    (h : x ∈ ruleNext start b c lru cur stack) :
    x ∈ stack ∨ (x = (c.right, lru) ∧ c.right ≠ 0) ∨ (x = (c.left, lru) ∧ c.left ≠ 0) ∨
      (x = (c.child, cur) ∧ c.child ≠ 0) := by
  unfold ruleNext at h
  rcases mem_ite_cons h with h | h
  · split at h
    · rcases mem_ite_cons h with h | h
      · rcases mem_ite_cons h with h | h
        · exact Or.inl h
        · exact Or.inr (Or.inl h)
      · exact Or.inr (Or.inr (Or.inl h))
    · exact Or.inl h
  · exact Or.inr (Or.inr (Or.inr h))

theorem addRuleLoop_succ_cons (start fuel : Nat) (s : State) (b : Nat) (lru : Bytes)
    (stack : List (Nat × Bytes)) (rep : Report) :
    addRuleLoop start (fuel + 1) s ((b, lru) :: stack) rep =
      match ruleVisit s b lru rep with
      | (s1, .error e) => (s1, .error e)
      | (s1, .ok rep1) =>
        addRuleLoop start fuel s1 (ruleNext start b (s.cell b) lru (lru ++ s.stemAt b) stack) rep1 := by
  rw [addRuleLoop]; rfl

theorem stackOk_next {s : State} {t : T} (h : Shape s t) {start b : Nat} {lru : Bytes}
    {stack : List (Nat × Bytes)} (hs : StackOk s t ((b, lru) :: stack)) :
    StackOk s t (ruleNext start b (s.cell b) lru (lru ++ s.stemAt b) stack) := by
  intro b' lru' hm
  obtain ⟨p, hp, rfl⟩ := hs b lru (by simp)
  obtain ⟨q, e, f1, f2, f3⟩ := entries_last_and_ptrs t [] p b h.rep hp
  have hq : p.dropLast = q := by rw [e, List.dropLast_concat]
  rcases mem_ruleNext hm with hm | ⟨hm, hne⟩ | ⟨hm, hne⟩ | ⟨hm, hne⟩
  · exact hs b' lru' (by simp [hm])
  · obtain ⟨rfl, rfl⟩ := Prod.mk.inj hm
    exact ⟨_, f2 hne, by rw [List.dropLast_concat, hq]⟩
  · obtain ⟨rfl, rfl⟩ := Prod.mk.inj hm
    exact ⟨_, f1 hne, by rw [List.dropLast_concat, hq]⟩
  · obtain ⟨rfl, rfl⟩ := Prod.mk.inj hm
    refine ⟨_, f3 hne, ?_⟩
    rw [List.dropLast_concat, hq, e]; simp

theorem addRuleLoop_step (start : Nat) : ∀ (fuel : Nat) (s : State) (t : T) (stack : List (Nat × Bytes))
    (rep : Report), Shape s t →
    ∃ t', Ext s t (addRuleLoop start fuel s stack rep).1 t' ∧
      (Inv s t → StackOk s t stack → Adds s t (addRuleLoop start fuel s stack rep).1 t' [] ∧
        ∀ r, (addRuleLoop start fuel s stack rep).2 = .ok r → r.pages = rep.pages)
  | 0, s, t, stack, rep, h => by
    simp only [addRuleLoop]
    exact ⟨t, Ext.refl h, fun hi _ => ⟨Adds.refl hi, fun r hr => by cases hr; rfl⟩⟩
  | fuel + 1, s, t, [], rep, h => by
    simp only [addRuleLoop]
    exact ⟨t, Ext.refl h, fun hi _ => ⟨Adds.refl hi, fun r hr => by cases hr; rfl⟩⟩
  | fuel + 1, s, t, (b, lru) :: stack, rep, h => by
    obtain ⟨t1, x1, f1⟩ := ruleVisit_step h b lru rep
    rw [addRuleLoop_succ_cons]
    split
    · rename_i s1 e heq
      rw [heq] at x1 f1
      exact ⟨t1, x1, fun hi hs => ⟨(f1 hi (hs b lru (by simp))).1, fun r hr => by cases hr⟩⟩
    · rename_i s1 rep1 heq
      rw [heq] at x1 f1
      simp only at x1 f1
      obtain ⟨t2, x2, f2⟩ := addRuleLoop_step start fuel s1 t1
        (ruleNext start b (s.cell b) lru (lru ++ s.stemAt b) stack) rep1 x1.shape
      refine ⟨t2, x1.trans x2, fun hi hs => ?_⟩
      obtain ⟨a1, hr1⟩ := f1 hi (hs b lru (by simp))
      obtain ⟨a2, hr2⟩ := f2 a1.inv ((stackOk_next h hs).mono x1)
      exact ⟨a1.trans a2, fun r hr => by rw [hr2 r hr, hr1 rep1 rfl]⟩

theorem addRule_step {s : State} {t : T} (h : Shape s t) (anchor : Bytes) (r : Rule) (w : Bool) :
    ∃ t', Ext s t (s.addRule anchor r w).1 t' ∧
      (lruIter anchor ≠ [] → Inv s t → Adds s t (s.addRule anchor r w).1 t' [] ∧
        ∀ rp, (s.addRule anchor r w).2 = .ok rp → rp.pages = 0) := by
  have k0 : Keeps s t { s with rules := dictSet s.rules anchor r } t := Keeps.of_trie_eq h rfl
  obtain ⟨t1, k1, hent⟩ := keeps_addLruIter k0.shape anchor false
  rcases ha : State.addLru { s with rules := dictSet s.rules anchor r } (lruIter anchor) false with ⟨s1, n, hh⟩
  rw [ha] at k1 hent
  simp only at k1 hent
  simp only [addRule, ha]
  split
  · exact ⟨t, k0.ext, fun _ hi => ⟨k0.adds hi, fun rp hr => by cases hr; rfl⟩⟩
  · have k2 := keeps_setRule k1.shape n true
    obtain ⟨t3, x3, f3⟩ := addRuleLoop_step n (8 * ((s1.modCell n (fun c => { c with flags := { c.flags with rule := true } })).trie.size + 2) * ((s1.modCell n (fun c => { c with flags := { c.flags with rule := true } })).trie.size + 2)) _ t1 [(n, lruDirname anchor)] {} k2.shape
    refine ⟨t3, k0.ext.trans (k1.ext.trans (k2.ext.trans x3)), fun hne hi => ?_⟩
    have a0 := k0.adds hi
    have a1 := k1.adds a0.inv
    have a2 := k2.adds a1.inv
    obtain ⟨a3, hr3⟩ := f3 a2.inv (by
      intro b lru hm
      simp only [List.mem_singleton, Prod.mk.injEq] at hm
      obtain ⟨rfl, rfl⟩ := hm
      exact ⟨lruIter anchor, k2.ext.keep _ _ (hent hne), rfl⟩)
    exact ⟨a0.trans (a1.trans (a2.trans a3)), fun rp hr => hr3 rp hr⟩


/-! ### the only error of the page-submitting requests is the `KeyError` of `__add_page` -/

theorem addPagesGo_err (always : Bool) : ∀ (ls : List Bytes) (s : State) (c : Bool) (rep : Report) (e : Err),
    (addPagesGo always s ls c rep).2 = .error e → e = .other "KeyError"
  | [], s, c, rep, e, h => by simp [addPagesGo] at h
  | l :: ls, s, c, rep, e, h => by
    rw [addPagesGo] at h
    split at h
    · rename_i s1 _ e' heq
      have := addPageCore_err s l c e' (by rw [heq])
      cases h; exact this
    · exact addPagesGo_err always ls _ c _ e h

theorem ensurePageCached_err (s : State) (acc : LinkAcc) (l : Bytes) (c : Bool) (e : Err)
    (h : (s.ensurePageCached acc l c).2 = .error e) : e = .other "KeyError" := by
  unfold ensurePageCached at h
  split at h
  · cases h
  · split at h
    · rename_i s1 _ e' heq
      have := addPageCore_err s l c e' (by rw [heq])
      cases h; exact this
    · cases h

theorem addLinksScan_err : ∀ (links : List (Bytes × Bytes)) (s : State) (acc : LinkAcc) (e : Err),
    (addLinksScan s links acc).2 = .error e → e = .other "KeyError"
  | [], s, acc, e, h => by simp [addLinksScan] at h
  | (src, tgt) :: rest, s, acc, e, h => by
    rw [addLinksScan] at h
    split at h
    · rename_i s1 e' heq
      have := ensurePageCached_err s acc src false e' (by rw [heq])
      cases h; exact this
    · rename_i s1 acc1 heq
      split at h
      · rename_i s2 e' heq2
        have := ensurePageCached_err s1 acc1 tgt false e' (by rw [heq2])
        cases h; exact this
      · exact addLinksScan_err rest _ _ e h

theorem addLinks_err (s : State) (links : List (Bytes × Bytes)) (e : Err)
    (h : (s.addLinks links).2 = .error e) : e = .other "KeyError" := by
  unfold addLinks at h
  split at h
  · rename_i s1 e' heq
    have := addLinksScan_err links s {} e' (by rw [heq])
    cases h; exact this
  · cases h

theorem batchTargets_err : ∀ (ts : List Bytes) (s : State) (src : Bytes) (acc : LinkAcc) (tb : List Nat) (e : Err),
    (batchTargets s src ts acc tb).2 = .error e → e = .other "KeyError"
  | [], s, src, acc, tb, e, h => by simp [batchTargets] at h
  | x :: ts, s, src, acc, tb, e, h => by
    rw [batchTargets] at h
    split at h
    · rename_i s1 e' heq
      have := ensurePageCached_err s acc x false e' (by rw [heq])
      cases h; exact this
    · exact batchTargets_err ts _ src _ _ e h

theorem sourceStep_err (s : State) (acc : LinkAcc) (src : Bytes) (e : Err)
    (h : (sourceStep s acc src).2 = .error e) : e = .other "KeyError" := by
  unfold sourceStep at h
  split at h
  · exact ensurePageCached_err s acc src true e h
  · split at h <;> cases h

theorem batchSources_err : ∀ (data : List (Bytes × List Bytes)) (s : State) (acc : LinkAcc) (e : Err),
    (batchSources s data acc).2 = .error e → e = .other "KeyError"
  | [], s, acc, e, h => by simp [batchSources] at h
  | (src, tgts) :: rest, s, acc, e, h => by
    rw [batchSources_cons_ps] at h
    split at h
    · rename_i s1 e' heq
      have := sourceStep_err s acc src e' (by rw [heq])
      cases h; exact this
    · rename_i s1 acc1 heq
      split at h
      · rename_i s2 e' heq2
        have := batchTargets_err tgts s1 src acc1 [] e' (by rw [heq2])
        cases h; exact this
      · exact batchSources_err rest _ _ e h

theorem batch_err (s : State) (data : List (Bytes × List Bytes)) (e : Err)
    (h : (s.batch data).2 = .error e) : e = .other "KeyError" := by
  unfold batch at h
  split at h
  · rename_i s1 e' heq
    have := batchSources_err data s {} e' (by rw [heq])
    cases h; exact this
  · cases h

/-! ### constructor rules -/

theorem installRules_step : ∀ (rules : List (Bytes × Rule)) (s : State) (t : T) (w : Bool), Shape s t →
    ∃ t', Ext s t (installRules s rules w).1 t' ∧
      ((∀ ar ∈ rules, lruIter ar.1 ≠ []) → Inv s t → Adds s t (installRules s rules w).1 t' [])
  | [], s, t, w, h => by
    simp only [installRules]
    exact ⟨t, Ext.refl h, fun _ hi => Adds.refl hi⟩
  | (a, r) :: rest, s, t, w, h => by
    obtain ⟨t1, x1, f1⟩ := addRule_step h a r w
    rw [installRules]
    split
    · rename_i s1 e heq
      rw [heq] at x1 f1
      exact ⟨t1, x1, fun hne hi => (f1 (hne (a, r) (by simp)) hi).1⟩
    · rename_i s1 _ heq
      rw [heq] at x1 f1
      simp only at x1 f1
      obtain ⟨t2, x2, f2⟩ := installRules_step rest s1 t1 w x1.shape
      refine ⟨t2, x1.trans x2, fun hne hi => ?_⟩
      have a1 := (f1 (hne (a, r) (by simp)) hi).1
      exact a1.trans (f2 (fun ar har => hne ar (by simp [har])) a1.inv)

theorem inv_nil (s : State) : Inv s .nil :=
  ⟨fun p b hm => by simp [T.entries] at hm, fun p b hm => by simp [T.entries] at hm⟩

theorem not_isPage_nil (s : State) (p : LRU) : ¬ IsPage s .nil p := by
  rintro ⟨b, hm, _⟩; simp [T.entries] at hm

/-- a fresh index (with constructor rules): shape; no page when the anchors are well-formed LRUs -/
theorem fresh_spec (cfg : Config) (dflt : Rule) (rules : List (Bytes × Rule)) (log : List Write) :
    ∃ t, Shape (State.fresh cfg dflt rules log).1 t ∧
      ((∀ ar ∈ rules, lruIter ar.1 ≠ []) →
        Inv (State.fresh cfg dflt rules log).1 t ∧ ∀ p, ¬ IsPage (State.fresh cfg dflt rules log).1 t p) := by
  have h0 : Shape ({ cfg := cfg, dflt := dflt, log := .linkHdr :: .hdr 0 :: log } : State) .nil :=
    shape_of_trie_init _ rfl
  obtain ⟨t, x, f⟩ := installRules_step rules _ .nil true h0
  refine ⟨t, x.shape, fun hne => ?_⟩
  have a := f hne (inv_nil _)
  refine ⟨a.inv, fun p hp => ?_⟩
  rcases (a.page p).mp hp with hp | ⟨_, hx, _⟩
  · exact not_isPage_nil _ p hp
  · simp at hx


/-! ### requests -/

/-- the byte strings a request submits as pages cut into at least one stem (the property's
    "well-formed LRU" hypothesis); for `addRule` the anchor, whose subtree is re-inserted -/
def OpWf : Op → Prop
  | .addPage l _ => lruIter l ≠ []
  | .addPages ls _ => ∀ l ∈ ls, lruIter l ≠ []
  | .addLinks links => ∀ st ∈ links, lruIter st.1 ≠ [] ∧ lruIter st.2 ≠ []
  | .batch data => ∀ d ∈ data, lruIter d.1 ≠ [] ∧ ∀ x ∈ d.2, lruIter x ≠ []
  | .addRule a _ => lruIter a ≠ []
  | _ => True

/-- the LRUs a request submits as pages, each with its (mustCrawl, mayCrawl) marks -/
def Op.pages : Op → List (LRU × Bool × Bool)
  | .addPage l c => [(lruIter l, c, c)]
  | .addPages ls c => ls.map (fun l => (lruIter l, c, true))
  | .addLinks links => linkPages links
  | .batch data => batchPages data
  | _ => []

theorem ofExcept_report {x : Except Err Report} {r : Report} (h : Ans.ofExcept .report x = .report r) :
    x = .ok r := by
  cases x with
  | error e => simp [Ans.ofExcept] at h
  | ok a => simp only [Ans.ofExcept, Ans.report.injEq] at h; rw [h]

theorem ofExcept_unit_ne_report {x : Except Err Unit} {r : Report} :
    Ans.ofExcept (fun _ => Ans.unit) x ≠ .report r := by
  cases x <;> simp [Ans.ofExcept]

theorem ofExcept_ok_of_noKeyErr {α : Type} {f : α → Ans} {x : Except Err α}
    (herr : ∀ e, x = .error e → e = .other "KeyError")
    (h : Ans.ofExcept f x ≠ .err (.other "KeyError")) : ∃ a, x = .ok a := by
  cases x with
  | error e => rw [herr e rfl] at h; exact absurd rfl h
  | ok a => exact ⟨a, rfl⟩

theorem createWebentity_pages (s : State) (ps : List Bytes) (r : Report)
    (h : (s.createWebentity ps).2 = .ok r) : r.pages = 0 := by
  unfold createWebentity at h
  split at h
  · cases h
  · cases h; rfl

/-- what one write request does: the shape part unconditionally; for states satisfying `Inv` and
    well-formed requests the page set / crawled set move by exactly `op.pages` and the report counts
    the distinct new pages -/
theorem step_spec {s : State} {t : T} (h : Shape s t) (op : Op) (hop : ∀ d rs, op ≠ .clear d rs) :
    ∃ t', Ext s t (s.step op).1 t' ∧
      (OpWf op → Inv s t →
        ((s.step op).2 ≠ .err (.other "KeyError") → Adds s t (s.step op).1 t' op.pages) ∧
        (∀ r, (s.step op).2 = .report r → r.pages = newCount (IsPage s t) (op.pages.map (·.1)))) := by
  cases op with
  | addPage l c =>
    obtain ⟨t1, x1, f1⟩ := addPageCore_step h l c
    refine ⟨t1, x1, fun hwf hi => ?_⟩
    obtain ⟨_, _, g3⟩ := f1 hwf
    obtain ⟨a1, hrep⟩ := g3 hi
    refine ⟨fun _ => a1, fun r hr => ?_⟩
    exact (AddsR.single a1 (hrep r (ofExcept_report hr))).count
  | addPages ls c =>
    obtain ⟨t1, x1, f1⟩ := addPages_step h ls c
    refine ⟨t1, x1, fun hwf hi => ⟨fun hne => ?_, fun r hr => ?_⟩⟩
    · obtain ⟨r, hr⟩ := ofExcept_ok_of_noKeyErr (addPagesGo_err _ ls s c {}) hne
      refine (f1 hwf hi r hr).adds.weaken (fun q => ?_) ?_ ?_
      · constructor
        · rintro ⟨x, hx, e⟩
          obtain ⟨l, hl, rfl⟩ := List.mem_map.mp hx
          exact ⟨_, List.mem_map.mpr ⟨l, hl, rfl⟩, e⟩
        · rintro ⟨x, hx, e⟩
          obtain ⟨l, hl, rfl⟩ := List.mem_map.mp hx
          exact ⟨_, List.mem_map.mpr ⟨l, hl, rfl⟩, e⟩
      · intro x hx hm
        obtain ⟨l, hl, rfl⟩ := List.mem_map.mp hx
        exact ⟨_, List.mem_map.mpr ⟨l, hl, rfl⟩, rfl, rfl⟩
      · intro y hy hm
        obtain ⟨l, hl, rfl⟩ := List.mem_map.mp hy
        refine ⟨_, List.mem_map.mpr ⟨l, hl, rfl⟩, rfl, ?_⟩
        simp only at hm ⊢
        rw [hm]; rfl
    · have := (f1 hwf hi r (ofExcept_report hr)).count
      show r.pages = newCount _ ((ls.map _).map _)
      rw [List.map_map] at this ⊢
      exact this
  | addLinks links =>
    obtain ⟨t1, x1, f1⟩ := addLinks_step h links
    refine ⟨t1, x1, fun hwf hi => ⟨fun hne => ?_, fun r hr => ?_⟩⟩
    · obtain ⟨r, hr⟩ := ofExcept_ok_of_noKeyErr (addLinks_err s links) hne
      exact (f1 hwf hi r hr).adds
    · exact (f1 hwf hi r (ofExcept_report hr)).count
  | batch data =>
    obtain ⟨t1, x1, f1⟩ := batch_step h data
    refine ⟨t1, x1, fun hwf hi => ⟨fun hne => ?_, fun r hr => ?_⟩⟩
    · obtain ⟨r, hr⟩ := ofExcept_ok_of_noKeyErr (batch_err s data) hne
      exact (f1 hwf hi r hr).adds
    · exact (f1 hwf hi r (ofExcept_report hr)).count
  | create ps =>
    obtain ⟨t1, k1⟩ := keeps_createWebentity h ps
    refine ⟨t1, k1.ext, fun _ hi => ⟨fun _ => k1.adds hi, fun r hr => ?_⟩⟩
    rw [createWebentity_pages s ps r (ofExcept_report hr)]
    exact (newCount_nil _).symm
  | delete w ps =>
    exact ⟨t, (keeps_deleteWebentity h w ps).ext, fun _ hi =>
      ⟨fun _ => (keeps_deleteWebentity h w ps).adds hi, fun r hr => absurd hr ofExcept_unit_ne_report⟩⟩
  | addPrefix p w =>
    obtain ⟨t1, k1⟩ := keeps_addPrefix h p w
    exact ⟨t1, k1.ext, fun _ hi => ⟨fun _ => k1.adds hi, fun r hr => absurd hr ofExcept_unit_ne_report⟩⟩
  | removePrefix p w =>
    obtain ⟨t1, k1⟩ := keeps_removePrefix h p w
    exact ⟨t1, k1.ext, fun _ hi => ⟨fun _ => k1.adds hi, fun r hr => absurd hr ofExcept_unit_ne_report⟩⟩
  | movePrefix p tg f =>
    obtain ⟨t1, k1⟩ := keeps_movePrefix h p tg f
    exact ⟨t1, k1.ext, fun _ hi => ⟨fun _ => k1.adds hi, fun r hr => absurd hr ofExcept_unit_ne_report⟩⟩
  | addRule a r =>
    obtain ⟨t1, x1, f1⟩ := addRule_step h a r true
    refine ⟨t1, x1, fun hwf hi => ⟨fun _ => (f1 hwf hi).1, fun rp hr => ?_⟩⟩
    rw [(f1 hwf hi).2 rp (ofExcept_report hr)]
    exact (newCount_nil _).symm
  | removeRule a =>
    exact ⟨t, (keeps_removeRule h a).ext, fun _ hi =>
      ⟨fun _ => (keeps_removeRule h a).adds hi, fun r hr => absurd hr ofExcept_unit_ne_report⟩⟩
  | reopen d rs =>
    exact ⟨t, (keeps_reopen h d rs).ext, fun _ hi =>
      ⟨fun _ => (keeps_reopen h d rs).adds hi, fun r hr => by simp [State.step] at hr⟩⟩
  | clear d rs => exact absurd rfl (hop d rs)


/-! ### part A: every request preserves the shape invariant -/

theorem shape_step_any (s : State) (t : T) (h : Shape s t) (op : Op) (hop : ∀ d rs, op ≠ .clear d rs) :
    ∃ t', Shape (s.step op).1 t' ∧
      (∀ p b, (p, b) ∈ t.entries s [] → (p, b) ∈ t'.entries (s.step op).1 []) := by
  obtain ⟨t', x, _⟩ := step_spec h op hop
  exact ⟨t', x.shape, x.keep⟩

/-- the statement asked for; the well-formedness hypothesis is not needed for the shape part -/
theorem shape_step (s : State) (t : T) (h : Shape s t) (op : Op) (hop : ∀ d rs, op ≠ .clear d rs)
    (_hwf : OpWf op) :
    ∃ t', Shape (s.step op).1 t' ∧
      (∀ p b, (p, b) ∈ t.entries s [] → (p, b) ∈ t'.entries (s.step op).1 []) :=
  shape_step_any s t h op hop

theorem run_cons (s : State) (op : Op) (ops : List Op) : s.run (op :: ops) = (s.step op).1.run ops := rfl

/-- no request of the history answers `KeyError` (rules are re-supplied on reopening, as the API requires) -/
def NoKeyErr : State → List Op → Prop
  | _, [] => True
  | s, op :: ops => (s.step op).2 ≠ .err (.other "KeyError") ∧ NoKeyErr (s.step op).1 ops

theorem run_spec : ∀ (ops : List Op) (s : State) (t : T), Shape s t →
    (∀ op ∈ ops, ∀ d rs, op ≠ .clear d rs) →
    ∃ t', Ext s t (s.run ops) t' ∧
      ((∀ op ∈ ops, OpWf op) → Inv s t → NoKeyErr s ops → Adds s t (s.run ops) t' (ops.flatMap Op.pages))
  | [], s, t, h, _ => ⟨t, Ext.refl h, fun _ hi _ => Adds.refl hi⟩
  | op :: ops, s, t, h, hop => by
    obtain ⟨t1, x1, f1⟩ := step_spec h op (hop op (by simp))
    obtain ⟨t2, x2, f2⟩ := run_spec ops (s.step op).1 t1 x1.shape (fun o ho => hop o (by simp [ho]))
    rw [run_cons]
    refine ⟨t2, x1.trans x2, fun hwf hi hok => ?_⟩
    have a1 := (f1 (hwf op (by simp)) hi).1 hok.1
    have a2 := f2 (fun o ho => hwf o (by simp [ho])) a1.inv hok.2
    rw [List.flatMap_cons]
    exact a1.trans a2

theorem shape_run_from (s : State) (t : T) (h : Shape s t) (ops : List Op)
    (hop : ∀ op ∈ ops, ∀ d rs, op ≠ .clear d rs) :
    ∃ t', Shape (s.run ops) t' ∧ (∀ p b, (p, b) ∈ t.entries s [] → (p, b) ∈ t'.entries (s.run ops) []) := by
  obtain ⟨t', x, _⟩ := run_spec ops s t h hop
  exact ⟨t', x.shape, x.keep⟩

/-- the shape invariant holds after every history of write requests (without `clear`) on a fresh
    index, whatever the constructor rules -/
theorem shape_run (cfg : Config) (dflt : Rule) (rules : List (Bytes × Rule)) (ops : List Op)
    (hop : ∀ op ∈ ops, ∀ d rs, op ≠ .clear d rs) :
    ∃ t, Shape ((State.fresh cfg dflt rules []).1.run ops) t := by
  obtain ⟨t0, h0, _⟩ := fresh_spec cfg dflt rules []
  obtain ⟨t, h, _⟩ := shape_run_from _ t0 h0 ops hop
  exact ⟨t, h⟩

/-! ### C01 -/

/-- the state reached by a well-formed history, with its tree, the auxiliary invariants, and the
    page-set relation to the history -/
theorem C01_adds (cfg : Config) (dflt : Rule) (rules : List (Bytes × Rule)) (ops : List Op)
    (hrules : ∀ ar ∈ rules, lruIter ar.1 ≠ [])
    (hop : ∀ op ∈ ops, ∀ d rs, op ≠ .clear d rs) (hwf : ∀ op ∈ ops, OpWf op)
    (hok : NoKeyErr (State.fresh cfg dflt rules []).1 ops) :
    ∃ t0 t, Shape ((State.fresh cfg dflt rules []).1.run ops) t ∧
      (∀ p, ¬ IsPage (State.fresh cfg dflt rules []).1 t0 p) ∧
      Adds (State.fresh cfg dflt rules []).1 t0 ((State.fresh cfg dflt rules []).1.run ops) t
        (ops.flatMap Op.pages) := by
  obtain ⟨t0, h0, f0⟩ := fresh_spec cfg dflt rules []
  obtain ⟨hi0, hnp⟩ := f0 hrules
  obtain ⟨t, x, f⟩ := run_spec ops _ t0 h0 hop
  exact ⟨t0, t, x.shape, hnp, f hwf hi0 hok⟩

/-- C01, pages: after any history of well-formed write requests the pages of the index are exactly
    the LRUs submitted as pages -/
theorem C01_pages (cfg : Config) (dflt : Rule) (rules : List (Bytes × Rule)) (ops : List Op)
    (hrules : ∀ ar ∈ rules, lruIter ar.1 ≠ [])
    (hop : ∀ op ∈ ops, ∀ d rs, op ≠ .clear d rs) (hwf : ∀ op ∈ ops, OpWf op)
    (hok : NoKeyErr (State.fresh cfg dflt rules []).1 ops) :
    ∃ t, Shape ((State.fresh cfg dflt rules []).1.run ops) t ∧
      ∀ p, IsPage ((State.fresh cfg dflt rules []).1.run ops) t p ↔ ∃ op ∈ ops, ∃ x ∈ op.pages, x.1 = p := by
  obtain ⟨t0, t, h, hnp, a⟩ := C01_adds cfg dflt rules ops hrules hop hwf hok
  refine ⟨t, h, fun p => ?_⟩
  rw [a.page]
  simp only [List.mem_flatMap]
  constructor
  · rintro (hp | ⟨x, ⟨op, ho, hx⟩, e⟩)
    · exact absurd hp (hnp p)
    · exact ⟨op, ho, x, hx, e⟩
  · rintro ⟨op, ho, x, hx, e⟩
    exact Or.inr ⟨x, ⟨op, ho, hx⟩, e⟩

/-- C01, crawled marks: a page reported crawled was submitted by a request that may mark it; a page
    submitted by a request that must mark it is reported crawled -/
theorem C01_crawled (cfg : Config) (dflt : Rule) (rules : List (Bytes × Rule)) (ops : List Op)
    (hrules : ∀ ar ∈ rules, lruIter ar.1 ≠ [])
    (hop : ∀ op ∈ ops, ∀ d rs, op ≠ .clear d rs) (hwf : ∀ op ∈ ops, OpWf op)
    (hok : NoKeyErr (State.fresh cfg dflt rules []).1 ops) :
    ∃ t, Shape ((State.fresh cfg dflt rules []).1.run ops) t ∧
      ∀ p, (IsCrawled ((State.fresh cfg dflt rules []).1.run ops) t p →
              ∃ op ∈ ops, ∃ x ∈ op.pages, x.1 = p ∧ x.2.2 = true) ∧
           ((∃ op ∈ ops, ∃ x ∈ op.pages, x.1 = p ∧ x.2.1 = true) →
              IsCrawled ((State.fresh cfg dflt rules []).1.run ops) t p) := by
  obtain ⟨t0, t, h, hnp, a⟩ := C01_adds cfg dflt rules ops hrules hop hwf hok
  refine ⟨t, h, fun p => ⟨fun hc => ?_, ?_⟩⟩
  · rcases a.may p hc with hc | ⟨x, hx, e⟩
    · exact absurd hc.isPage (hnp p)
    · obtain ⟨op, ho, hx⟩ := List.mem_flatMap.mp hx
      exact ⟨op, ho, x, hx, e⟩
  · rintro ⟨op, ho, x, hx, e⟩
    exact a.must p (Or.inr ⟨x, List.mem_flatMap.mpr ⟨op, ho, hx⟩, e⟩)

/-- the states reached by well-formed histories satisfy the auxiliary invariants -/
theorem inv_run (cfg : Config) (dflt : Rule) (rules : List (Bytes × Rule)) (ops : List Op)
    (hrules : ∀ ar ∈ rules, lruIter ar.1 ≠ [])
    (hop : ∀ op ∈ ops, ∀ d rs, op ≠ .clear d rs) (hwf : ∀ op ∈ ops, OpWf op)
    (hok : NoKeyErr (State.fresh cfg dflt rules []).1 ops) :
    ∃ t, Shape ((State.fresh cfg dflt rules []).1.run ops) t ∧ Inv ((State.fresh cfg dflt rules []).1.run ops) t := by
  obtain ⟨_, t, h, _, a⟩ := C01_adds cfg dflt rules ops hrules hop hwf hok
  exact ⟨t, h, a.inv⟩

open Classical in
/-- C01, reports: every write report counts exactly the distinct LRUs of the request that were not
    pages before it -/
theorem C01_report {s : State} {t : T} (h : Shape s t) (hi : Inv s t) (op : Op)
    (hop : ∀ d rs, op ≠ .clear d rs) (hwf : OpWf op) (r : Report) (hr : (s.step op).2 = .report r) :
    r.pages = ((op.pages.map (·.1)).eraseDups.filter (fun p => decide (¬ IsPage s t p))).length := by
  obtain ⟨_, _, f⟩ := step_spec h op hop
  exact (f hwf hi).2 r hr


/-! ### part C: the observers agree with the page set -/

/-- the DFS order lists exactly the entries of the finite map, with flattened paths -/
theorem pre_mem_iff {s : State} : ∀ (u : T) (pre : LRU) (a : Nat) (lru : Bytes),
    (a, lru) ∈ u.pre s pre.flatten ↔ ∃ p, (p, a) ∈ u.entries s pre ∧ lru = p.flatten
  | .nil, _, _, _ => by simp [T.pre, T.entries]
  | .node d l c r, pre, a, lru => by
    have e : pre.flatten ++ s.stemAt d = (pre ++ [s.stemAt d]).flatten := by simp
    simp only [T.pre, T.entries, List.mem_cons, List.mem_append, Prod.mk.injEq]
    rw [e, pre_mem_iff c (pre ++ [s.stemAt d]), pre_mem_iff l pre, pre_mem_iff r pre]
    constructor
    · rintro (⟨rfl, rfl⟩ | (⟨p, hp, rfl⟩ | ⟨p, hp, rfl⟩) | ⟨p, hp, rfl⟩)
      · exact ⟨_, Or.inr (Or.inl ⟨rfl, rfl⟩), rfl⟩
      · exact ⟨p, Or.inr (Or.inr (Or.inl hp)), rfl⟩
      · exact ⟨p, Or.inl hp, rfl⟩
      · exact ⟨p, Or.inr (Or.inr (Or.inr hp)), rfl⟩
    · rintro ⟨p, hp | ⟨rfl, rfl⟩ | hp | hp, rfl⟩
      · exact Or.inr (Or.inl (Or.inr ⟨p, hp, rfl⟩))
      · exact Or.inl ⟨rfl, rfl⟩
      · exact Or.inr (Or.inl (Or.inl ⟨p, hp, rfl⟩))
      · exact Or.inr (Or.inr ⟨p, hp, rfl⟩)

theorem dfsIter_mem_iff {s : State} {t : T} (h : Shape s t) (a : Nat) (lru : Bytes) :
    (a, lru) ∈ s.dfsIter none false ↔ ∃ p, (p, a) ∈ t.entries s [] ∧ lru = p.flatten := by
  rw [dfsIter_root h]
  exact pre_mem_iff t [] a lru

/-- `pages_iter` lists exactly the entries flagged as pages, with their crawled marks -/
theorem pagesIter_iff {s : State} {t : T} (h : Shape s t) (lru : Bytes) (c : Bool) :
    (lru, c) ∈ s.pagesIter ↔
      ∃ p b, (p, b) ∈ t.entries s [] ∧ lru = p.flatten ∧ (s.cell b).flags.page = true ∧
        c = (s.cell b).flags.crawled := by
  unfold pagesIter
  simp only [List.mem_map, List.mem_filter, Prod.mk.injEq]
  constructor
  · rintro ⟨⟨b, l⟩, ⟨hm, hp⟩, rfl, rfl⟩
    obtain ⟨p, hp', e⟩ := (dfsIter_mem_iff h b l).mp hm
    exact ⟨p, b, hp', e, hp, rfl⟩
  · rintro ⟨p, b, hm, rfl, hp, rfl⟩
    exact ⟨(b, p.flatten), ⟨(dfsIter_mem_iff h b _).mpr ⟨p, hm, rfl⟩, hp⟩, rfl, rfl⟩

/-- in terms of the page set -/
theorem pagesIter_isPage {s : State} {t : T} (h : Shape s t) (lru : Bytes) :
    (∃ c, (lru, c) ∈ s.pagesIter) ↔ ∃ p, IsPage s t p ∧ lru = p.flatten := by
  constructor
  · rintro ⟨c, hc⟩
    obtain ⟨p, b, hm, e, hp, _⟩ := (pagesIter_iff h lru c).mp hc
    exact ⟨p, ⟨b, hm, hp⟩, e⟩
  · rintro ⟨p, ⟨b, hm, hp⟩, e⟩
    exact ⟨_, (pagesIter_iff h lru _).mpr ⟨p, b, hm, e, hp, rfl⟩⟩

/-- every page is listed once -/
theorem pagesIter_nodup {s : State} {t : T} (h : Shape s t) (hw : WfStems s t) :
    (s.pagesIter.map (·.1)).Nodup := by
  unfold pagesIter
  rw [List.map_map]
  have h1 : ((s.dfsIter none false).map (·.1)).Nodup := dfsIter_nodup h
  unfold List.Nodup at h1 ⊢
  rw [List.pairwise_map] at h1 ⊢
  refine List.Pairwise.imp_of_mem ?_ (h1.filter _)
  intro x y hx hy hne e
  apply hne
  obtain ⟨hx, _⟩ := List.mem_filter.mp hx
  obtain ⟨hy, _⟩ := List.mem_filter.mp hy
  obtain ⟨p, hp, ep⟩ := (dfsIter_mem_iff h x.1 x.2).mp hx
  obtain ⟨q, hq, eq⟩ := (dfsIter_mem_iff h y.1 y.2).mp hy
  have e' : x.2 = y.2 := e
  have hpq : p = q := by
    rw [← lruIter_flatten p (hw p _ hp), ← lruIter_flatten q (hw q _ hq), ← ep, ← eq, e']
  subst hpq
  exact entries_path_injective h.ord h.nodup hp hq


/-! ### the per-function specifications in closed form -/

theorem Adds.single_iff {s s' : State} {t t' : T} {q : LRU} {c : Bool} (a : Adds s t s' t' [(q, c, c)]) :
    (∀ p, IsPage s' t' p ↔ IsPage s t p ∨ p = q) ∧
    (∀ p, IsCrawled s' t' p ↔ IsCrawled s t p ∨ (p = q ∧ c = true)) := by
  refine ⟨fun p => ?_, fun p => ⟨fun h => ?_, fun h => ?_⟩⟩
  · rw [a.page]
    simp only [List.mem_singleton, exists_eq_left]
    exact ⟨fun h => h.imp id Eq.symm, fun h => h.imp id Eq.symm⟩
  · rcases a.may p h with h | ⟨x, hx, e, hm⟩
    · exact Or.inl h
    · simp only [List.mem_singleton] at hx; subst hx
      exact Or.inr ⟨e.symm, hm⟩
  · rcases h with h | ⟨rfl, hc⟩
    · exact a.must p (Or.inl h)
    · exact a.must p (Or.inr ⟨_, List.mem_singleton.mpr rfl, rfl, hc⟩)

/-- `IsPage` through the model's own look-up: it does not depend on the ghost tree -/
theorem isPage_iff_lruNode {s : State} {t : T} (h : Shape s t) (p : LRU) (hne : p ≠ []) :
    IsPage s t p ↔ ∃ b, s.lruNode p = some b ∧ (s.cell b).flags.page = true := by
  constructor
  · rintro ⟨b, hm, hp⟩; exact ⟨b, (lruNode_iff_entries h p hne b).mpr hm, hp⟩
  · rintro ⟨b, hm, hp⟩; exact ⟨b, (lruNode_iff_entries h p hne b).mp hm, hp⟩

theorem isCrawled_iff_lruNode {s : State} {t : T} (h : Shape s t) (p : LRU) (hne : p ≠ []) :
    IsCrawled s t p ↔ ∃ b, s.lruNode p = some b ∧ (s.cell b).flags.page = true ∧ (s.cell b).flags.crawled = true := by
  constructor
  · rintro ⟨b, hm, hp⟩; exact ⟨b, (lruNode_iff_entries h p hne b).mpr hm, hp⟩
  · rintro ⟨b, hm, hp⟩; exact ⟨b, (lruNode_iff_entries h p hne b).mp hm, hp⟩

/-- `LRUTrie.add_page(stems, c)` -/
theorem addPageTrie_spec {s : State} {t : T} (h : Shape s t) (hi : Inv s t) (stems : LRU) (c : Bool)
    (hne : stems ≠ []) (hst : ∀ x ∈ stems, StemWf x) :
    ∃ t', Shape (s.addPageTrie stems c).1 t' ∧ Inv (s.addPageTrie stems c).1 t' ∧
      (∀ p b, (p, b) ∈ t.entries s [] → (p, b) ∈ t'.entries (s.addPageTrie stems c).1 []) ∧
      (stems, (s.addPageTrie stems c).2.1) ∈ t'.entries (s.addPageTrie stems c).1 [] ∧
      (∀ p, IsPage (s.addPageTrie stems c).1 t' p ↔ IsPage s t p ∨ p = stems) ∧
      (∀ p, IsCrawled (s.addPageTrie stems c).1 t' p ↔ IsCrawled s t p ∨ (p = stems ∧ c = true)) ∧
      ((s.addPageTrie stems c).2.2.created = true ↔ ¬ IsPage s t stems) := by
  obtain ⟨t', x, f⟩ := addPageTrie_step h stems c hst
  obtain ⟨g1, _, g3⟩ := f hne
  obtain ⟨a, hc⟩ := g3 hi
  exact ⟨t', x.shape, a.inv, x.keep, g1, a.single_iff.1, a.single_iff.2, hc⟩

open Classical in
/-- `Traph.__add_page(lru, c)`: the page is added whatever the answer; an `.ok` report counts it iff new -/
theorem addPageCore_spec {s : State} {t : T} (h : Shape s t) (hi : Inv s t) (lru : Bytes) (c : Bool)
    (hne : lruIter lru ≠ []) :
    ∃ t', Shape (s.addPageCore lru c).1 t' ∧ Inv (s.addPageCore lru c).1 t' ∧
      (∀ p b, (p, b) ∈ t.entries s [] → (p, b) ∈ t'.entries (s.addPageCore lru c).1 []) ∧
      (lruIter lru, (s.addPageCore lru c).2.1) ∈ t'.entries (s.addPageCore lru c).1 [] ∧
      (∀ p, IsPage (s.addPageCore lru c).1 t' p ↔ IsPage s t p ∨ p = lruIter lru) ∧
      (∀ p, IsCrawled (s.addPageCore lru c).1 t' p ↔ IsCrawled s t p ∨ (p = lruIter lru ∧ c = true)) ∧
      (∀ r, (s.addPageCore lru c).2.2 = .ok r → r.pages = if IsPage s t (lruIter lru) then 0 else 1) ∧
      (∀ e, (s.addPageCore lru c).2.2 = .error e → e = .other "KeyError") := by
  obtain ⟨t', x, f⟩ := addPageCore_step h lru c
  obtain ⟨g1, _, g3⟩ := f hne
  obtain ⟨a, hr⟩ := g3 hi
  refine ⟨t', x.shape, a.inv, x.keep, g1, a.single_iff.1, a.single_iff.2, fun r hrr => ?_,
    addPageCore_err s lru c⟩
  by_cases hp : IsPage s t (lruIter lru)
  · rw [if_pos hp]; exact (hr r hrr).1 hp
  · rw [if_neg hp]; exact (hr r hrr).2 hp

/-- the code's behaviour (DESIGN §5.3 switch on): `add_pages` marks every listed page as crawled,
    whatever its `crawled` argument -/
theorem addPages_always {s : State} {t : T} (h : Shape s t) (hi : Inv s t) (lrus : List Bytes) (c : Bool)
    (hne : ∀ l ∈ lrus, lruIter l ≠ []) (hsw : s.cfg.addPagesAlwaysCrawled = true)
    (r : Report) (hr : (s.addPages lrus c).2 = .ok r) :
    ∃ t', Shape (s.addPages lrus c).1 t' ∧ ∀ l ∈ lrus, IsCrawled (s.addPages lrus c).1 t' (lruIter l) := by
  obtain ⟨t', x, f⟩ := addPages_step h lrus c
  refine ⟨t', x.shape, fun l hl => ?_⟩
  refine (f hne hi r hr).adds.must _ (Or.inr ⟨_, List.mem_map.mpr ⟨l, hl, rfl⟩, rfl, ?_⟩)
  simp [hsw]

/-! ### C01 seen through `pages_iter` -/

theorem C01_pagesIter (cfg : Config) (dflt : Rule) (rules : List (Bytes × Rule)) (ops : List Op)
    (hrules : ∀ ar ∈ rules, lruIter ar.1 ≠ [])
    (hop : ∀ op ∈ ops, ∀ d rs, op ≠ .clear d rs) (hwf : ∀ op ∈ ops, OpWf op)
    (hok : NoKeyErr (State.fresh cfg dflt rules []).1 ops) :
    (∀ lru, (∃ c, (lru, c) ∈ ((State.fresh cfg dflt rules []).1.run ops).pagesIter) ↔
        ∃ op ∈ ops, ∃ x ∈ op.pages, lru = x.1.flatten) ∧
    ((((State.fresh cfg dflt rules []).1.run ops).pagesIter).map (·.1)).Nodup := by
  obtain ⟨t0, t, h, hnp, a⟩ := C01_adds cfg dflt rules ops hrules hop hwf hok
  refine ⟨fun lru => ?_, pagesIter_nodup h a.inv.wf⟩
  rw [pagesIter_isPage h]
  constructor
  · rintro ⟨p, hp, rfl⟩
    rcases (a.page p).mp hp with hp | ⟨x, hx, rfl⟩
    · exact absurd hp (hnp p)
    · obtain ⟨op, ho, hx⟩ := List.mem_flatMap.mp hx
      exact ⟨op, ho, x, hx, rfl⟩
  · rintro ⟨op, ho, x, hx, rfl⟩
    exact ⟨x.1, (a.page _).mpr (Or.inr ⟨x, List.mem_flatMap.mpr ⟨op, ho, hx⟩, rfl⟩), rfl⟩

#print axioms shape_step
#print axioms shape_run
#print axioms step_spec
#print axioms C01_pages
#print axioms C01_crawled
#print axioms C01_report
#print axioms pagesIter_iff
#print axioms pagesIter_nodup
#print axioms C01_pagesIter
#print axioms addPageTrie_spec
#print axioms addPageCore_spec
#print axioms addPages_always


open Classical in
/-- C01, reports, along a history: the report of the next request counts exactly the distinct LRUs it
    submits that were not pages of the index reached so far -/
theorem C01_report_run (cfg : Config) (dflt : Rule) (rules : List (Bytes × Rule)) (ops : List Op)
    (hrules : ∀ ar ∈ rules, lruIter ar.1 ≠ [])
    (hop : ∀ op ∈ ops, ∀ d rs, op ≠ .clear d rs) (hwf : ∀ op ∈ ops, OpWf op)
    (hok : NoKeyErr (State.fresh cfg dflt rules []).1 ops)
    (op : Op) (hop' : ∀ d rs, op ≠ .clear d rs) (hwf' : OpWf op) (r : Report)
    (hr : (((State.fresh cfg dflt rules []).1.run ops).step op).2 = .report r) :
    ∃ t, Shape ((State.fresh cfg dflt rules []).1.run ops) t ∧
      r.pages = ((op.pages.map (·.1)).eraseDups.filter
        (fun p => decide (¬ IsPage ((State.fresh cfg dflt rules []).1.run ops) t p))).length := by
  obtain ⟨t, h, hi⟩ := inv_run cfg dflt rules ops hrules hop hwf hok
  exact ⟨t, h, C01_report h hi op hop' hwf' r hr⟩

#print axioms C01_report_run

end Traph

import Proofs.CoLinkSym
import Proofs.ReachableAll
/-! C16 — the final state of any complete schedule is the state of the requests applied one after another.

    Blocks differ between schedules (the order in which pages are created is the order of the sections), so the
    comparison is made at the level of LRUs: page set, crawled set, and the weight `get_page_links` reports for
    every ordered pair of pages. `C16_final_links_sequential` compares the multigraphs, `C16_final_state` is the
    headline over every reachable start state. -/
namespace Traph
open State Layout

theorem cfin_links_filterMap : ∀ (reqs : List CoReq), (reqs.filterMap CoReq.op).flatMap Op.links = reqs.flatMap CoReq.links
  | [] => rfl
  | r :: reqs => by
    rw [List.flatMap_cons, ← cfin_links_filterMap reqs]
    cases ho : r.op with
    | none => rw [List.filterMap_cons_none ho, CoReq.links_of_op_none r ho, List.nil_append]
    | some o => rw [List.filterMap_cons_some ho, List.flatMap_cons, CoReq.links_op r o ho]

theorem cfin_nsub_perm {L₁ L₂ : List (Bytes × Bytes)} (h : L₁.Perm L₂) (p q : LRU) : nsub L₁ p q = nsub L₂ p q := by
  unfold nsub
  exact (h.filter _).length_eq

/-- the atomic counterparts of generator requests never contain `clear` and are well formed -/
theorem cfin_ops_ok (reqs : List CoReq) (hwf : ∀ r ∈ reqs, r.Wf) :
    (∀ op ∈ reqs.filterMap CoReq.op, ∀ d rs, op ≠ Op.clear d rs) ∧ (∀ op ∈ reqs.filterMap CoReq.op, OpWf op) := by
  constructor
  · intro op hop d rs e
    obtain ⟨r, _, hr⟩ := List.mem_filterMap.mp hop
    subst e
    cases r <;> simp [CoReq.op] at hr
  · intro op hop
    obtain ⟨r, hr, ho⟩ := List.mem_filterMap.mp hop
    exact CoReq.op_wf r op ho (hwf r hr)

/-- the requests applied one after another, as atomic requests: the reached index is read back through `LinkView`
    for `L0` plus the links of the requests in that order -/
theorem cfin_sequential_view {s : State} {t : T} {L0 : List (Bytes × Bytes)} (hs : Shape s t) (hi : Inv s t)
    (hr : RulesOk s) (hp : ParOk s t 0) (g : Graph s t L0) (reqs : List CoReq) (hwf : ∀ r ∈ reqs, r.Wf)
    (hcanon : ∀ r ∈ reqs, r.Canon) :
    ∃ t'', LinkView (s.run (reqs.filterMap CoReq.op)) t'' (L0 ++ reqs.flatMap CoReq.links) := by
  obtain ⟨hnc, hopwf⟩ := cfin_ops_ok reqs hwf
  have hok := noKeyErr_of_rulesOk reqs s t hs hr hwf hcanon
  obtain ⟨t'', h2, i2, g2⟩ := run_graph (reqs.filterMap CoReq.op) s t L0 hs hi g hnc hopwf hok
  obtain ⟨t3, h3, p3⟩ := LinkBag.run_parKeeps (reqs.filterMap CoReq.op) s hnc t hs hp
  have e : t3 = t'' := LinkBag.shape_unique h3 h2
  subst e
  rw [cfin_links_filterMap] at g2
  exact ⟨t3, h2, i2, p3, g2⟩

/-- **C16, the final link multigraph is the sequential one**: for every complete schedule and every order `reqs'` in
    which the requests could be applied one after another, both final indexes are read back through `LinkView`,
    every ordered pair of LRUs has been submitted the same number of times in both, the page sets agree, and
    `get_page_links` (any switches) reports the same triples (page, page, weight) for every page — as sets of
    triples, each triple once on either side. -/
theorem C16_final_links_sequential {s : State} {t : T} {L0 : List (Bytes × Bytes)} (hs : Shape s t) (hi : Inv s t)
    (hr : RulesOk s) (hp : ParOk s t 0) (g : Graph s t L0) (reqs : List CoReq) (hwf : ∀ r ∈ reqs, r.Wf)
    (hcanon : ∀ r ∈ reqs, r.Canon) (sched : Sched)
    (hdone : ∀ i r, reqs[i]? = some r → r.op ≠ none →
      ∃ a, (i, CoOut.done a) ∈ (Sys.run (s, reqs.map CoReq.init) sched).2)
    (reqs' : List CoReq) (hperm : reqs'.Perm reqs) :
    ∃ t' t'', LinkView (Sys.run (s, reqs.map CoReq.init) sched).1.1 t' (L0 ++ reqs.flatMap CoReq.links) ∧
      LinkView (s.run (reqs'.filterMap CoReq.op)) t'' (L0 ++ reqs'.flatMap CoReq.links) ∧
      (∀ p q, nsub (L0 ++ reqs.flatMap CoReq.links) p q = nsub (L0 ++ reqs'.flatMap CoReq.links) p q) ∧
      (∀ p, IsPage (Sys.run (s, reqs.map CoReq.init) sched).1.1 t' p ↔ IsPage (s.run (reqs'.filterMap CoReq.op)) t'' p) ∧
      (∀ p, IsCrawled (Sys.run (s, reqs.map CoReq.init) sched).1.1 t' p ↔
        IsCrawled (s.run (reqs'.filterMap CoReq.op)) t'' p) ∧
      (∀ p, IsPage (Sys.run (s, reqs.map CoReq.init) sched).1.1 t' p → ∀ incIn incInt incOut,
        ((Sys.run (s, reqs.map CoReq.init) sched).1.1.pageLinks p.flatten incIn incInt incOut).Perm
          ((s.run (reqs'.filterMap CoReq.op)).pageLinks p.flatten incIn incInt incOut)) := by
  obtain ⟨t', v, _⟩ := C16_final_graph hs hi hr hp g reqs hwf hcanon sched hdone
  have hwf' : ∀ r ∈ reqs', r.Wf := fun r hr' => hwf r (hperm.mem_iff.mp hr')
  have hcanon' : ∀ r ∈ reqs', r.Canon := fun r hr' => hcanon r (hperm.mem_iff.mp hr')
  obtain ⟨t'', v'⟩ := cfin_sequential_view hs hi hr hp g reqs' hwf' hcanon'
  obtain ⟨u', u'', hu', hu'', hpg, hcr⟩ :=
    C16_final_pages_sequential_rulesOk hs hi hr reqs hwf hcanon sched hdone reqs' hperm
  have e1 : u' = t' := LinkBag.shape_unique hu' v.shape
  have e2 : u'' = t'' := LinkBag.shape_unique hu'' v'.shape
  subst e1 e2
  have hns : ∀ p q, nsub (L0 ++ reqs.flatMap CoReq.links) p q = nsub (L0 ++ reqs'.flatMap CoReq.links) p q :=
    fun p q => cfin_nsub_perm ((hperm.symm.flatMap_right CoReq.links).append_left L0) p q
  refine ⟨u', u'', v, v', hns, hpg, hcr, fun p hpp incIn incInt incOut => ?_⟩
  have hpp' := (hpg p).mp hpp
  rw [List.perm_ext_iff_of_nodup (v.pageLinks_nodup hpp incIn incInt incOut)
    (v'.pageLinks_nodup hpp' incIn incInt incOut)]
  intro x
  rw [v.mem_pageLinks hpp, v'.mem_pageLinks hpp']
  simp only [hns]

/-- **C16, the final bags, block by block**: once every writer has returned, whatever the schedule, the out-list of
    block `a` holds block `b` exactly as many times as the pair (LRU of `a`, LRU of `b`) occurs in `L0` plus the links
    of the requests, and so does the in-list of `b` for `a` -/
theorem C16_final_bags {s : State} {t : T} {L0 : List (Bytes × Bytes)} (hs : Shape s t) (hi : Inv s t)
    (hr : RulesOk s) (hp : ParOk s t 0) (g : Graph s t L0) (reqs : List CoReq) (hwf : ∀ r ∈ reqs, r.Wf)
    (hcanon : ∀ r ∈ reqs, r.Canon) (sched : Sched)
    (hdone : ∀ i r, reqs[i]? = some r → r.op ≠ none →
      ∃ a, (i, CoOut.done a) ∈ (Sys.run (s, reqs.map CoReq.init) sched).2) :
    ∃ t', Graph (Sys.run (s, reqs.map CoReq.init) sched).1.1 t' (L0 ++ reqs.flatMap CoReq.links) ∧
      (∀ a b, count b ((Sys.run (s, reqs.map CoReq.init) sched).1.1.bag true a) =
        ncount (Sys.run (s, reqs.map CoReq.init) sched).1.1 (L0 ++ reqs.flatMap CoReq.links) a b) ∧
      (∀ a b, count a ((Sys.run (s, reqs.map CoReq.init) sched).1.1.bag false b) =
        ncount (Sys.run (s, reqs.map CoReq.init) sched).1.1 (L0 ++ reqs.flatMap CoReq.links) a b) ∧
      (Sys.run (s, reqs.map CoReq.init) sched).1.1.links.size = 1 + 2 * (L0 ++ reqs.flatMap CoReq.links).length := by
  obtain ⟨t', v, _⟩ := C16_final_graph hs hi hr hp g reqs hwf hcanon sched hdone
  exact ⟨t', v.graph, v.graph.out, v.graph.inn, v.graph.size⟩

/-- **C16, THE FINAL STATE, every schedule, every reachable start state.** Let `s` be any index reached from a fresh
    one by a history of well-formed requests following the API's discipline (`Reachable`), `reqs` any long-running
    requests (crawl batches, rule installations, queries of all nine kinds) that are well formed (`CoReq.Wf`) with
    complete rule anchors (`CoReq.Canon`), `sched` ANY schedule after which every writer has returned, and `reqs'`
    any order in which the requests could have been applied one after another. Then

      1. no writer ever failed (the only failure event of a writer is `StopIteration` of an exhausted generator);
      2. the final index is well formed and its rule flags are backed by RAM rules;
      3. its pages and crawled pages are those of the sequential run;
      4. every ordered pair of pages is linked with the same multiplicity as in the sequential run, and
         `get_page_links` answers the same triples for every page and all switches;
      5. inbound/outbound symmetry holds: block by block the out-lists and the in-lists are the same multigraph. -/
theorem C16_final_state {s : State} (hreach : Reachable s) (reqs : List CoReq) (hwf : ∀ r ∈ reqs, r.Wf)
    (hcanon : ∀ r ∈ reqs, r.Canon) (sched : Sched)
    (hdone : ∀ i r, reqs[i]? = some r → r.op ≠ none →
      ∃ a, (i, CoOut.done a) ∈ (Sys.run (s, reqs.map CoReq.init) sched).2)
    (reqs' : List CoReq) (hperm : reqs'.Perm reqs) :
    (∀ i r e, reqs[i]? = some r → r.op ≠ none →
      (i, CoOut.failed e) ∈ (Sys.run (s, reqs.map CoReq.init) sched).2 → e = .other "StopIteration") ∧
    ∃ L0 t' t'', LinkView (Sys.run (s, reqs.map CoReq.init) sched).1.1 t' (L0 ++ reqs.flatMap CoReq.links) ∧
      LinkView (s.run (reqs'.filterMap CoReq.op)) t'' (L0 ++ reqs'.flatMap CoReq.links) ∧
      RulesOk (Sys.run (s, reqs.map CoReq.init) sched).1.1 ∧
      (∀ p, IsPage (Sys.run (s, reqs.map CoReq.init) sched).1.1 t' p ↔ IsPage (s.run (reqs'.filterMap CoReq.op)) t'' p) ∧
      (∀ p, IsCrawled (Sys.run (s, reqs.map CoReq.init) sched).1.1 t' p ↔
        IsCrawled (s.run (reqs'.filterMap CoReq.op)) t'' p) ∧
      (∀ p q, nsub (L0 ++ reqs.flatMap CoReq.links) p q = nsub (L0 ++ reqs'.flatMap CoReq.links) p q) ∧
      (∀ p, IsPage (Sys.run (s, reqs.map CoReq.init) sched).1.1 t' p → ∀ incIn incInt incOut,
        ((Sys.run (s, reqs.map CoReq.init) sched).1.1.pageLinks p.flatten incIn incInt incOut).Perm
          ((s.run (reqs'.filterMap CoReq.op)).pageLinks p.flatten incIn incInt incOut)) ∧
      (∀ a b, count b ((Sys.run (s, reqs.map CoReq.init) sched).1.1.outBag a) =
        count a ((Sys.run (s, reqs.map CoReq.init) sched).1.1.inBag b)) := by
  obtain ⟨t, hs, hi, _, hp, _, _, _, hr, _, _, L0, g⟩ := reachable_invariants hreach
  obtain ⟨okf, hnf⟩ := C16_no_writer_fails hs hi hr reqs hwf hcanon sched
  obtain ⟨t', t'', v, v', hns, hpg, hcr, hpl⟩ :=
    C16_final_links_sequential hs hi hr hp g reqs hwf hcanon sched hdone reqs' hperm
  exact ⟨hnf, L0, t', t'', v, v', okf, hpg, hcr, hns, hpl, v.graph.symm⟩

#print axioms C16_final_bags
#print axioms C16_final_links_sequential
#print axioms C16_final_state

/-! ### the hypotheses are satisfiable: the headline instantiated on the two-source batch of `SymEx` -/

namespace SymEx

theorem reachable_s0 : Reachable s0 :=
  reachable_fresh {} .never [] [] (fun _ h => by simp at h) (fun _ h => by simp at h) trivial

set_option maxRecDepth 100000 in
theorem reqs_wf : ∀ r ∈ reqs, r.Wf := by
  intro r hr
  simp only [reqs, List.mem_singleton] at hr
  subst hr
  refine ⟨?_, by decide⟩
  intro d hd
  simp only [List.mem_cons, List.mem_nil_iff, or_false] at hd
  rcases hd with rfl | rfl
  · refine ⟨by decide, fun x hx => ?_⟩
    simp only [List.mem_singleton] at hx
    subst hx
    decide
  · refine ⟨by decide, fun x hx => ?_⟩
    simp only [List.mem_singleton] at hx
    subst hx
    decide

theorem reqs_canon : ∀ r ∈ reqs, r.Canon := by
  intro r hr
  simp only [reqs, List.mem_singleton] at hr
  subst hr
  trivial

theorem all_done : ∀ i r, reqs[i]? = some r → r.op ≠ none →
    ∃ a, (i, CoOut.done a) ∈ (Sys.run (s0, reqs.map CoReq.init) [0, 0, 0, 0, 0]).2 := by
  intro i r hi _
  rw [trace]
  cases i with
  | zero => exact ⟨.report { pages := 4, we := [] }, by simp⟩
  | succ n => simp [reqs] at hi

/-- the headline applies to the example: its hypotheses are not vacuous -/
theorem final_state_applies :
    ∀ a b, count b (fin.outBag a) = count a (fin.inBag b) :=
  (C16_final_state reachable_s0 reqs reqs_wf reqs_canon [0, 0, 0, 0, 0] all_done reqs (List.Perm.refl _)).2.choose_spec.choose_spec.choose_spec.2.2.2.2.2.2.2

end SymEx

end Traph

import Proofs.PageSet
/-! The prefix map of an index: `s.weMap p` is the webentity id attached to the stem path `p`
    (0 = none). It is defined through the model's own look-up `lru_node`, so it does not mention the
    ghost tree; under `Shape s t` it is the `we` field of the entry of `p` in the finite map of `t`.
    * bridging: `weMap_entry`, `weMap_not_entry`, `weMap_ne_zero`;
    * frame: `weMap_frame` (a step that keeps old entries, keeps their `we` and whose new entries carry
      none leaves the map alone), `weMap_noStruct`, `weMap_addLru`, `weMap_trie_eq`;
    * point update: `weMap_setWe`;
    * `resolveM M stems`: the abstract longest-prefix resolution of a map, and
      `followLru_we_resolveM` : that is what `follow_lru` computes. -/
namespace Traph
open State Layout

/-- the webentity id attached to the stem path `p`, 0 if `p` carries none (or is not in the index) -/
def State.weMap (s : State) (p : LRU) : Nat :=
  if p = [] then 0 else
  match s.lruNode p with
  | some b => (s.cell b).we
  | none => 0

theorem weMap_nil (s : State) : s.weMap [] = 0 := by simp [State.weMap]

/-! ### bridging to the ghost tree -/

theorem entry_ne_nil {s : State} {t : T} {p : LRU} {b : Nat} (hm : (p, b) ∈ t.entries s []) : p ≠ [] := by
  obtain ⟨x, rest, e⟩ := entries_prefix _ _ _ _ hm
  rw [e]; simp

theorem weMap_entry {s : State} {t : T} (h : Shape s t) {p : LRU} {b : Nat}
    (hm : (p, b) ∈ t.entries s []) : s.weMap p = (s.cell b).we := by
  have hne := entry_ne_nil hm
  unfold State.weMap
  rw [if_neg hne, (lruNode_iff_entries h p hne b).mpr hm]

theorem weMap_not_entry {s : State} {t : T} (h : Shape s t) {p : LRU}
    (hn : ∀ b, (p, b) ∉ t.entries s []) : s.weMap p = 0 := by
  unfold State.weMap
  by_cases hne : p = []
  · rw [if_pos hne]
  · rw [if_neg hne]
    cases hl : s.lruNode p with
    | none => rfl
    | some b => exact absurd ((lruNode_iff_entries h p hne b).mp hl) (hn b)

theorem weMap_ne_zero {s : State} {t : T} (h : Shape s t) {p : LRU} (hw : s.weMap p ≠ 0) :
    ∃ b, (p, b) ∈ t.entries s [] ∧ (s.cell b).we = s.weMap p := by
  by_cases hex : ∃ b, (p, b) ∈ t.entries s []
  · obtain ⟨b, hb⟩ := hex
    exact ⟨b, hb, (weMap_entry h hb).symm⟩
  · exact absurd (weMap_not_entry h (fun b hb => hex ⟨b, hb⟩)) hw

/-- the map depends on the trie array only -/
theorem weMap_trie_eq {s s' : State} (e : s'.trie = s.trie) : s'.weMap = s.weMap := by
  funext p
  unfold State.weMap State.lruNode State.cell
  have : ∀ stems node, s'.lruNodeGo stems node = s.lruNodeGo stems node := by
    intro stems
    induction stems with
    | nil => intro node; rfl
    | cons st rest ih =>
      intro node
      have hf : ∀ fuel p, s'.findSib st fuel p = s.findSib st fuel p := by
        intro fuel
        induction fuel with
        | zero => intro p; rfl
        | succ fuel ihf =>
          intro p
          have hst : s'.stemAt p = s.stemAt p := by
            unfold State.stemAt
            have hrt : ∀ fuel i, s'.readTail fuel i = s.readTail fuel i := by
              intro fuel
              induction fuel with
              | zero => intro i; rfl
              | succ fuel ihr => intro i; simp only [State.readTail, e, ihr]
            rw [e, hrt]
          simp only [State.findSib, e, hst, ihf]
      simp only [State.lruNodeGo, hf, e, State.cell, ih]
      rfl
  rw [e, this]

/-! ### frame -/

/-- a step that keeps every old entry with its id and whose new entries carry none leaves the map alone -/
theorem weMap_frame {s s' : State} {t t' : T} (h : Shape s t) (h' : Shape s' t')
    (keep : ∀ p b, (p, b) ∈ t.entries s [] → (p, b) ∈ t'.entries s' [])
    (old : ∀ p b, (p, b) ∈ t.entries s [] → (s'.cell b).we = (s.cell b).we)
    (new : ∀ p b, (p, b) ∈ t'.entries s' [] → (p, b) ∈ t.entries s [] ∨ (s'.cell b).we = 0) :
    s'.weMap = s.weMap := by
  funext p
  by_cases hex : ∃ b0, (p, b0) ∈ t.entries s []
  · obtain ⟨b0, hb0⟩ := hex
    rw [weMap_entry h hb0, weMap_entry h' (keep p b0 hb0), old p b0 hb0]
  · rw [weMap_not_entry h (fun b hb => hex ⟨b, hb⟩)]
    by_cases hex' : ∃ b, (p, b) ∈ t'.entries s' []
    · obtain ⟨b, hb⟩ := hex'
      rw [weMap_entry h' hb]
      rcases new p b hb with h1 | h1
      · exact absurd ⟨b, h1⟩ hex
      · exact h1
    · exact weMap_not_entry h' (fun b hb => hex' ⟨b, hb⟩)

/-- a non-structural write that does not touch any `we` field -/
theorem weMap_noStruct {s s' : State} {t : T} (h : Shape s t) (n : NoStruct s s')
    (hw : ∀ b, (s'.cell b).we = (s.cell b).we) : s'.weMap = s.weMap := by
  have e := n.entries t []
  exact weMap_frame h (n.shape h) (fun p b hm => by rw [e]; exact hm) (fun p b _ => hw b)
    (fun p b hm => Or.inl (by rw [e] at hm; exact hm))

theorem weMap_modCell {s : State} {t : T} (h : Shape s t) (i : Nat) (f : Cell → Cell)
    (hf : ∀ c, (f c).left = c.left ∧ (f c).right = c.right ∧ (f c).child = c.child ∧
      (f c).chunk = c.chunk ∧ (f c).flags.hasTail = c.flags.hasTail)
    (hw : ∀ c, (f c).we = c.we) : (s.modCell i f).weMap = s.weMap :=
  weMap_noStruct h (noStruct_modCell s i f hf) (fun b => by rw [cell_modCell]; split <;> simp [hw])

/-- `add_lru` (of well-formed stems) leaves the map alone: old nodes keep their id, fresh nodes have none -/
theorem weMap_grow {s s' : State} {t t' : T} {stems : LRU} (h : Shape s t) (g : Grow stems s t s' t')
    (a : AttrStep s s') : s'.weMap = s.weMap :=
  weMap_frame h g.shape g.keep (fun p b hm => (a.old b (entry_lt h hm)).we)
    (fun p b hm => by
      rcases g.new p b hm with h1 | ⟨hb, _⟩
      · exact Or.inl h1
      · exact Or.inr (a.new b hb).we)

theorem weMap_addLru {s : State} {t : T} (h : Shape s t) (stems : LRU) (flag : Bool) :
    (s.addLru stems flag).1.weMap = s.weMap := by
  by_cases hne : stems = []
  · subst hne; rw [addLru_nil]
  · obtain ⟨t', g, _⟩ := addLru_grow h stems flag hne
    exact weMap_grow h g (attrStep_addLru s stems flag)

/-! ### point update -/

/-- writing the id of the node of `q` updates the map at `q` -/
theorem weMap_setWe {s : State} {t : T} (h : Shape s t) {q : LRU} {n : Nat}
    (hm : (q, n) ∈ t.entries s []) (v : Nat) :
    (s.modCell n (fun c => { c with we := v })).weMap = fun p => if p = q then v else s.weMap p := by
  have ns : NoStruct s (s.modCell n (fun c => { c with we := v })) :=
    noStruct_modCell s n _ (fun _ => ⟨rfl, rfl, rfl, rfl, rfl⟩)
  have h' := ns.shape h
  have e := ns.entries t []
  have hlt := entry_lt h hm
  funext p
  by_cases hpq : p = q
  · subst hpq
    rw [if_pos rfl, weMap_entry h' (by rw [e]; exact hm), cell_modCell, if_pos ⟨rfl, hlt⟩]
  · rw [if_neg hpq]
    by_cases hex : ∃ b, (p, b) ∈ t.entries s []
    · obtain ⟨b, hb⟩ := hex
      rw [weMap_entry h hb, weMap_entry h' (by rw [e]; exact hb), cell_modCell, if_neg]
      rintro ⟨rfl, _⟩
      exact hpq (entries_addr_injective h.nodup hb hm)
    · rw [weMap_not_entry h (fun b hb => hex ⟨b, hb⟩),
        weMap_not_entry h' (fun b hb => hex ⟨b, by rw [e] at hb; exact hb⟩)]

/-- the pointwise update of a map -/
def mapSet (M : LRU → Nat) (q : LRU) (v : Nat) : LRU → Nat := fun p => if p = q then v else M p

theorem mapSet_same (M : LRU → Nat) (q : LRU) (v : Nat) : mapSet M q v q = v := by simp [mapSet]
theorem mapSet_other (M : LRU → Nat) {p q : LRU} (v : Nat) (h : p ≠ q) : mapSet M q v p = M p := by
  simp [mapSet, h]

theorem mapSet_self (M : LRU → Nat) (q : LRU) : mapSet M q (M q) = M := by
  funext p; unfold mapSet; split
  · rename_i e; rw [e]
  · rfl

end Traph

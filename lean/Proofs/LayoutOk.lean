import Traph
/-! Facts about the GENERATED layout that the rest of the development relies on, re-proved by `decide`
    against whatever `gen/gen_layout.py` measured in the sources on this run. -/
namespace Traph.LayoutOk
open Traph Layout

theorem littleEndian_ok : littleEndian = true := by decide
theorem sep_ok : sep = 124 := by decide
theorem stemCap_pos : 0 < stemCap := by decide
theorem stemField_ok : stemField = stemCap + 1 ∧ stemField ≤ 256 := by decide
theorem node_fields_ok :
    offStem = 0 ∧ offStem + stemField ≤ offFlags ∧ widthFlags = 1 ∧ offFlags + widthFlags ≤ offWe ∧
    offWe + widthWe ≤ offLeft ∧ offLeft + widthLeft = offRight ∧ offRight + widthRight = offChild ∧
    offChild + widthChild = offParent ∧ offParent + widthParent = offOut ∧ offOut + widthOut = offInn ∧
    offInn + widthInn = trieBlock := by decide
theorem widths_ok : widthWe = 4 ∧ widthLeft = 8 ∧ widthRight = 8 ∧ widthChild = 8 ∧ widthParent = 8 ∧
    widthOut = 8 ∧ widthInn = 8 ∧ widthTarget = 8 ∧ widthPrev = 8 ∧ hdrWidthId = 4 := by decide
theorem flags_ok : [fPage, fCrawled, fLinked, fDeleted, fRule, fHasTail, fIsTail, fNoChild].Nodup ∧
    (∀ p ∈ [fPage, fCrawled, fLinked, fDeleted, fRule, fHasTail, fIsTail, fNoChild], p < 8) := by decide
theorem defaultFlags_ok : defaultFlags = ({} : Flags).encode := by decide
theorem header_ok : hdrBlock = trieBlock ∧ hdrOffId + hdrWidthId ≤ hdrOffVer ∧ hdrOffVer + hdrVerField ≤ hdrBlock ∧
    version.length < hdrVerField ∧ trieHeaderBlocks = 1 ∧ trieFirstData = trieBlock := by decide
theorem link_ok : offTarget = 0 ∧ offTarget + widthTarget = offPrev ∧ offPrev + widthPrev = linkBlock ∧
    linkHdrBlock = linkBlock ∧ linkHdrOffVer + linkHdrVerField ≤ linkHdrBlock ∧ version.length < linkHdrVerField ∧
    linkHeaderBlocks = 1 ∧ linkFirstData = linkBlock := by decide
/-- the link header read with the stub format has no `previous` (D4: the walk from block 0 stops) -/
theorem headerStub_prev_zero : headerStubRaw.2 = 0 := by decide
theorem base64_ok : base64.length = 64 ∧ base64.Nodup := by decide
theorem base4_ops_ok : base4L = digitChar 1 ∧ base4C = digitChar 2 ∧ base4R = digitChar 3 := by decide
theorem toLE_length (n k : Nat) : (toLE n k).length = k := by
  induction k generalizing n with
  | zero => rfl
  | succ k ih => simp [toLE, ih]
theorem encodeTrieHeader_length (id : Nat) : (encodeTrieHeader id).length = hdrBlock := by
  simp [encodeTrieHeader, encodePascal, zeros, toLE_length]
  decide
theorem encodeLinkHeader_length : encodeLinkHeader.length = linkHdrBlock := by decide

end Traph.LayoutOk

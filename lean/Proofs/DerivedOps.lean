import Proofs.ReachableAll
/-! Two requests of the public API that are not constructors of `Op` are compositions of requests that are:
    `delete_webentity(…, check_for_corruption=False)` and `add_webentity_creation_rule(…, write_in_trie=False)`.
    Each is modelled on its own (Traph/Api.lean: `deleteUnchecked`, `addRule … false`; the driver executes them and the
    correspondence check compares them with the code) and shown here to equal a run of `Op`s — so every theorem
    about histories of `Op`s covers histories that use them. -/
namespace Traph
open State

/-- first occurrences, in order (the keys of the dict Python builds from the list) -/
def dedupKeys : List Bytes → List Bytes
  | [] => []
  | p :: ps => p :: (dedupKeys ps).filter (fun q => q ≠ p)

/-! ### `add_lru` on a path that is in the trie writes nothing -/

/-- first loop of `add_lru` (not flagging) along a located path: same state — ghost log included —, the located
    block, nothing left to create -/
theorem dop_addLruDescend_located (s : State) : ∀ (stems : List Stem) (node pos : Nat) (h : Hist) (b : Nat),
    stems ≠ [] → s.lruNodeGo stems node = some b →
    ∃ h', addLruDescend false s stems node true pos h = (s, b, [], h')
  | [], _, _, _, _, hne, _ => absurd rfl hne
  | stem :: rest, node, pos, h, b, _, hb => by
    rw [lruNodeGo] at hb
    cases hf : s.findSib stem (s.trie.size + 1) node with
    | found i =>
      rw [hf] at hb
      simp only at hb
      cases rest with
      | nil =>
        simp only [List.isEmpty_nil, if_true, Option.some.injEq] at hb
        subst hb
        exact ⟨h.visit (s.cell i) (pos + stem.length), by simp [addLruDescend, ensureStem, hf, markCanHave]⟩
      | cons x tl =>
        simp only [List.isEmpty_cons, Bool.false_eq_true, if_false] at hb
        by_cases hc : (s.cell i).child = 0
        · rw [if_pos hc] at hb; cases hb
        · rw [if_neg hc] at hb
          obtain ⟨h', e⟩ := dop_addLruDescend_located s (x :: tl) (s.cell i).child (pos + stem.length)
            (h.visit (s.cell i) (pos + stem.length)) b (by simp) hb
          exact ⟨h', by simp [addLruDescend, ensureStem, hf, markCanHave, hc] at e ⊢; exact e⟩
    | missing l sl => rw [hf] at hb; cases hb
    | corrupt => rw [hf] at hb; cases hb

/-- `add_lru(lru, False)` of a located LRU: no write at all (the state is returned as it is), the located block -/
theorem dop_addLru_located {s : State} {stems : LRU} {b : Nat} (hb : s.lruNode stems = some b) :
    ∃ h', s.addLru stems false = (s, b, h') := by
  unfold lruNode at hb
  by_cases hsz : s.trie.size ≤ 1
  · rw [if_pos hsz] at hb; cases hb
  · rw [if_neg hsz] at hb
    cases stems with
    | nil =>
      simp only [lruNodeGo, Option.some.injEq] at hb
      subst hb
      exact ⟨_, addLru_nil s false⟩
    | cons x tl =>
      have hex : decide (s.trie.size > 1) = true := by simp; omega
      obtain ⟨h', e⟩ := dop_addLruDescend_located s (x :: tl) 1 0 {} b (by simp) hb
      exact ⟨h', by simp only [addLru, hex, e, addLruCreate]⟩

/-- hence `remove_prefix_from_webentity(p)` of a located prefix is the single block rewrite -/
theorem dop_removePrefix_located {s : State} {p : Bytes} {b : Nat} (hb : s.lruNode (lruIter p) = some b) :
    s.removePrefix p none = (s.modCell b (fun c => { c with we := 0 }), .ok ()) := by
  obtain ⟨h', e⟩ := dop_addLru_located hb
  simp [removePrefix, e]

/-! ### look-ups do not see the webentity id -/

theorem dop_noStruct_clearWe (s : State) (b : Nat) : NoStruct s (s.modCell b (fun c => { c with we := 0 })) :=
  noStruct_modCell s b _ (fun _ => ⟨rfl, rfl, rfl, rfl, rfl⟩)

/-- a write that changes no pointer, stem byte or tail flag changes no look-up -/
theorem dop_lruNode_noStruct {s s' : State} {t : T} (h : Shape s t) (n : NoStruct s s') (p : LRU) :
    s'.lruNode p = s.lruNode p := by
  cases p with
  | nil => simp [lruNode, lruNodeGo, n.1]
  | cons x tl =>
    apply Option.ext; intro b
    rw [lruNode_iff_entries (n.shape h) _ (by simp), lruNode_iff_entries h _ (by simp), n.entries]

/-! ### the dict of look-ups -/

/-- the item the scan stores for a prefix -/
def dop_entry (s : State) (p : Bytes) : Bytes × Option Nat := (p, s.lruNode (lruIter p))

theorem dop_mem_dedupKeys (q : Bytes) : ∀ ps : List Bytes, q ∈ dedupKeys ps ↔ q ∈ ps
  | [] => by simp [dedupKeys]
  | p :: ps => by
    simp only [dedupKeys, List.mem_cons, List.mem_filter, dop_mem_dedupKeys q ps, decide_eq_true_eq]
    by_cases h : q = p <;> simp [h]

/-- storing the look-up of `p` in a dict of look-ups: a repeated key rewrites the value it already has -/
theorem dop_dictSet_map (s : State) (p : Bytes) : ∀ ks : List Bytes,
    dictSet (ks.map (dop_entry s)) p (s.lruNode (lruIter p)) =
      (if p ∈ ks then ks else ks ++ [p]).map (dop_entry s)
  | [] => by simp [dictSet, dop_entry]
  | k :: ks => by
    have ih := dop_dictSet_map s p ks
    by_cases hk : k = p
    · subst hk; simp [dictSet, dop_entry]
    · have hk' : ¬ p = k := fun e => hk e.symm
      simp only [List.map_cons, dictSet, dop_entry, if_neg hk, List.mem_cons, hk', false_or] at ih ⊢
      rw [ih]
      split <;> simp [dop_entry]

/-- the scan builds the dict of the distinct prefixes, in order of first occurrence -/
theorem dop_scan (s : State) : ∀ (ps ks : List Bytes),
    deleteScanUnchecked s ps (ks.map (dop_entry s)) =
      (ks ++ (dedupKeys ps).filter (fun q => q ∉ ks)).map (dop_entry s)
  | [], ks => by simp [deleteScanUnchecked, dedupKeys]
  | p :: ps, ks => by
    rw [deleteScanUnchecked, dop_dictSet_map, dop_scan s ps]
    congr 1
    by_cases hp : p ∈ ks
    · rw [if_pos hp]
      simp only [dedupKeys, List.filter_cons, hp, not_true_eq_false, decide_false, Bool.false_eq_true, if_false,
        List.filter_filter]
      congr 1
      apply List.filter_congr
      intro q _
      by_cases hq : q ∈ ks
      · simp [hq]
      · have : q ≠ p := fun e => hq (e ▸ hp)
        simp [hq, this]
    · rw [if_neg hp]
      simp only [dedupKeys, List.filter_cons, hp, not_false_eq_true, decide_true, if_true, List.filter_filter,
        List.append_assoc, List.singleton_append]
      congr 2
      apply List.filter_congr
      intro q _
      by_cases hq : q = p <;> simp [hq, hp]

theorem dop_scan_nil (s : State) (ps : List Bytes) :
    deleteScanUnchecked s ps [] = (dedupKeys ps).map (dop_entry s) := by
  have := dop_scan s ps []
  have hf : (dedupKeys ps).filter (fun q => decide (q ∉ ([] : List Bytes))) = dedupKeys ps :=
    List.filter_eq_self.mpr (fun q _ => by simp)
  rw [hf] at this
  simpa using this

/-! ### the write loop is the run of `remove_prefix_from_webentity` -/

/-- the write loop over located prefixes (looked up in the state it starts from), then any further items -/
theorem dop_writes : ∀ (l : List Bytes) (s : State) (t : T), Shape s t →
    (∀ q ∈ l, s.lruNode (lruIter q) ≠ none) → ∀ tail : List (Bytes × Option Nat),
    deleteWrites s (l.map (dop_entry s) ++ tail) =
      deleteWrites (s.run (l.map (fun q => Op.removePrefix q none))) tail
  | [], s, _, _, _, tail => rfl
  | p :: l, s, t, hs, hloc, tail => by
    cases hb : s.lruNode (lruIter p) with
    | none => exact absurd hb (hloc p (by simp))
    | some b =>
      have n := dop_noStruct_clearWe s b
      have hmap : l.map (dop_entry s) = l.map (dop_entry (s.modCell b (fun c => { c with we := 0 }))) :=
        List.map_congr_left (fun q _ => by simp only [dop_entry, dop_lruNode_noStruct hs n])
      have hstep : (s.step (Op.removePrefix p none)).1 = s.modCell b (fun c => { c with we := 0 }) := by
        simp only [step, dop_removePrefix_located hb]
      rw [List.map_cons, List.map_cons, run_cons, hstep, List.cons_append]
      conv => lhs; rw [dop_entry, hb]
      rw [deleteWrites, hmap]
      exact dop_writes l _ t (n.shape hs)
        (fun q hq => by rw [dop_lruNode_noStruct hs n]; exact hloc q (by simp [hq])) tail

/-- the first item satisfying a predicate splits a list -/
theorem dop_split_first {α : Type} (P : α → Prop) [DecidablePred P] : ∀ l : List α, (∃ x ∈ l, P x) →
    ∃ before x rest, l = before ++ x :: rest ∧ P x ∧ ∀ q ∈ before, ¬ P q
  | [], h => by obtain ⟨_, hx, _⟩ := h; cases hx
  | a :: l, h => by
    by_cases ha : P a
    · exact ⟨[], a, l, rfl, ha, fun _ hq => by cases hq⟩
    · obtain ⟨x, hx, px⟩ := h
      have hx' : x ∈ l := by
        rcases List.mem_cons.mp hx with e | e
        · exact absurd (e ▸ px) ha
        · exact e
      obtain ⟨before, y, rest, e, py, hb⟩ := dop_split_first P l ⟨x, hx', px⟩
      refine ⟨a :: before, y, rest, by rw [e]; rfl, py, fun q hq => ?_⟩
      rcases List.mem_cons.mp hq with e | e
      · exact e ▸ ha
      · exact hb q e

/-- the unchecked deletion whose prefixes are all in the index IS the run of `remove_prefix_from_webentity(p)` (no id
    given) over the distinct prefixes in order of first occurrence: same index, same write log, both succeed -/
theorem deleteUnchecked_eq_run {s : State} {t : T} (hs : Shape s t) (ps : List Bytes)
    (hloc : ∀ p ∈ ps, s.lruNode (lruIter p) ≠ none) :
    s.deleteUnchecked ps = (s.run ((dedupKeys ps).map (fun p => Op.removePrefix p none)), .ok ()) := by
  have h := dop_writes (dedupKeys ps) s t hs (fun q hq => hloc q ((dop_mem_dedupKeys q ps).mp hq)) []
  rw [List.append_nil] at h
  rw [deleteUnchecked, dop_scan_nil, h, deleteWrites]

/-- …and when some prefix is not in the index the request fails with Python's AttributeError after having detached
    exactly the distinct prefixes that come before the first such one -/
theorem deleteUnchecked_fail {s : State} {t : T} (hs : Shape s t) (ps : List Bytes)
    (hmiss : ∃ p ∈ ps, s.lruNode (lruIter p) = none) :
    ∃ before p rest, dedupKeys ps = before ++ p :: rest ∧ s.lruNode (lruIter p) = none ∧
      (∀ q ∈ before, s.lruNode (lruIter q) ≠ none) ∧
      s.deleteUnchecked ps = (s.run (before.map (fun q => Op.removePrefix q none)), .error (.other "AttributeError")) := by
  obtain ⟨before, p, rest, e, hp, hb⟩ := dop_split_first (fun q => s.lruNode (lruIter q) = none) (dedupKeys ps)
    (by obtain ⟨p, hp, hn⟩ := hmiss; exact ⟨p, (dop_mem_dedupKeys p ps).mpr hp, hn⟩)
  refine ⟨before, p, rest, e, hp, hb, ?_⟩
  rw [deleteUnchecked, dop_scan_nil, e, List.map_append, dop_writes before s t hs hb, List.map_cons]
  conv => lhs; rw [dop_entry, hp]
  rw [deleteWrites]

/-- a rule registered in RAM only changes the rule table and nothing else, and reports nothing -/
theorem addRule_ram (s : State) (a : Bytes) (r : Rule) :
    s.addRule a r false = ({ s with rules := dictSet s.rules a r }, .ok {}) := by
  simp [addRule]

/-! ### the hypotheses of `deleteUnchecked_eq_run` are satisfiable, non-trivially

    A concrete index: two webentities (ids 1 and 2) on two distinct prefixes, a page below the first. The list of
    prefixes names the first prefix twice: the dict keeps `[pa, pb]`, both are located, both carry a webentity. -/
namespace DerivedEx

def b (s : String) : Bytes := s.toList.map (·.toNat)
def pa : Bytes := b "s:http|h:com|h:a|"
def pb : Bytes := b "s:http|h:com|h:b|"
def hist : List Op := [.create [pa], .create [pb], .addPage (b "s:http|h:com|h:a|p:x|") true]
def idx : State := (State.fresh {} .never [] []).1.run hist

/-- the index is reachable, hence has the shape invariant -/
theorem idx_shape : ∃ t, Shape idx t :=
  shape_run {} .never [] hist (fun op ho d rs e => by subst e; simp [hist] at ho)

set_option maxRecDepth 1000000 in
/-- both prefixes are located, distinct, carry webentities 1 and 2; the first is given twice -/
theorem idx_located :
    (∀ p ∈ [pa, pb, pa], idx.lruNode (lruIter p) ≠ none) ∧ pa ≠ pb ∧
    idx.ask (.webentityByPrefix pa) = .nat 1 ∧ idx.ask (.webentityByPrefix pb) = .nat 2 ∧
    dedupKeys [pa, pb, pa] = [pa, pb] := by decide +kernel

/-- so the theorem applies: the unchecked deletion of `[pa, pb, pa]` is the run of two `removePrefix` requests -/
example : idx.deleteUnchecked [pa, pb, pa] =
    (idx.run [.removePrefix pa none, .removePrefix pb none], .ok ()) := by
  obtain ⟨t, hs⟩ := idx_shape
  have h := deleteUnchecked_eq_run hs [pa, pb, pa] idx_located.1
  rw [idx_located.2.2.2.2] at h
  exact h

set_option maxRecDepth 1000000 in
/-- …and it is not a no-op: afterwards neither prefix carries a webentity (Python: `TraphException`) -/
example : (idx.deleteUnchecked [pa, pb, pa]).1.ask (.webentityByPrefix pa) = .err .traph ∧
    (idx.deleteUnchecked [pa, pb, pa]).1.ask (.webentityByPrefix pb) = .err .traph ∧
    (idx.deleteUnchecked [pa, pb, pa]).1.log.length = idx.log.length + 2 := by decide +kernel

end DerivedEx

end Traph

#print axioms Traph.deleteUnchecked_eq_run
#print axioms Traph.deleteUnchecked_fail
#print axioms Traph.addRule_ram
#print axioms Traph.DerivedEx.idx_shape
#print axioms Traph.DerivedEx.idx_located

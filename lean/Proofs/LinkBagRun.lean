import Proofs.LinkBagWrites
/-! C03 over whole histories. `Graph s t L`: the bags of the state are, block by block and on both
    sides, exactly the pairs of `L` (the links submitted so far, in submission order), every submitted
    end is a page, the stub array holds two stubs per submitted pair. Every write request keeps it with
    `L` extended by the pairs the request submits (`step_graph`), hence every reachable state
    satisfies it for the links of its history (`run_graph`, `C03_graph`). -/
namespace Traph
open State

/-- the pairs of byte strings a request submits as links -/
def Op.links : Op → List (Bytes × Bytes)
  | .addLinks links => links
  | .batch data => batchLinks data
  | _ => []

/-- how many of the pairs of `L` go from the node `a` to the node `b` (nodes by the model's `lru_node`) -/
def ncount (s : State) (L : List (Bytes × Bytes)) (a b : Nat) : Nat :=
  (L.filter (fun st => decide (s.lruNode (lruIter st.1) = some a ∧ s.lruNode (lruIter st.2) = some b))).length

/-- how many times the link `p → q` was submitted -/
def nsub (L : List (Bytes × Bytes)) (p q : LRU) : Nat :=
  (L.filter (fun st => decide (lruIter st.1 = p ∧ lruIter st.2 = q))).length

/-- the link invariant of reachable states, relative to the submitted links `L` -/
structure Graph (s : State) (t : T) (L : List (Bytes × Bytes)) : Prop where
  ok    : LinksOk s
  pages : ∀ st ∈ L, IsPage s t (lruIter st.1) ∧ IsPage s t (lruIter st.2)
  out   : ∀ a b, count b (s.bag true a) = ncount s L a b
  inn   : ∀ a b, count a (s.bag false b) = ncount s L a b
  size  : s.links.size = 1 + 2 * L.length

/-- symmetry as multisets, block by block -/
theorem Graph.symm {s : State} {t : T} {L : List (Bytes × Bytes)} (g : Graph s t L) (a b : Nat) :
    count b (s.outBag a) = count a (s.inBag b) := (g.out a b).trans (g.inn a b).symm

theorem isPage_node {s : State} {t : T} (h : Shape s t) {p : LRU} (hp : IsPage s t p) :
    p ≠ [] ∧ ∃ b, s.lruNode p = some b ∧ (p, b) ∈ t.entries s [] ∧ (s.cell b).flags.page = true := by
  obtain ⟨b, hm, hf⟩ := hp
  have hne : p ≠ [] := by
    obtain ⟨x, rest, e⟩ := entries_prefix t [] p b hm
    rw [e]; simp
  exact ⟨hne, b, (lruNode_iff_entries h p hne b).mpr hm, hm, hf⟩

theorem ncount_append (s : State) (L₁ L₂ : List (Bytes × Bytes)) (a b : Nat) :
    ncount s (L₁ ++ L₂) a b = ncount s L₁ a b + ncount s L₂ a b := by
  unfold ncount; rw [List.filter_append, List.length_append]

theorem ncount_ext {s s' : State} {t t' : T} (h : Shape s t) (x : Ext s t s' t') {L : List (Bytes × Bytes)}
    (hp : ∀ st ∈ L, IsPage s t (lruIter st.1) ∧ IsPage s t (lruIter st.2)) (a b : Nat) :
    ncount s' L a b = ncount s L a b := by
  unfold ncount
  congr 1
  apply List.filter_congr
  intro st hst
  obtain ⟨p1, p2⟩ := hp st hst
  obtain ⟨ne1, n1, e1, _⟩ := isPage_node h p1
  obtain ⟨ne2, n2, e2, _⟩ := isPage_node h p2
  rw [e1, e2, lruNode_ext h x ne1 e1, lruNode_ext h x ne2 e2]

theorem ncount_new {s : State} {blk : Bytes → Nat} {new : List (Bytes × Bytes)}
    (hn : ∀ st ∈ new, s.lruNode (lruIter st.1) = some (blk st.1) ∧ s.lruNode (lruIter st.2) = some (blk st.2))
    (a b : Nat) : ncount s new a b = pcount blk new a b := by
  unfold ncount pcount
  congr 1
  apply List.filter_congr
  intro st hst
  obtain ⟨e1, e2⟩ := hn st hst
  rw [e1, e2]
  simp only [Option.some.injEq]

/-- MAIN (one step of the invariant): a list-writing step extends `L` by what it submits -/
theorem Graph.extend {s s' : State} {t t' : T} {L : List (Bytes × Bytes)} (g : Graph s t L) (h : Shape s t)
    (x : Ext s t s' t') (mono : ∀ p, IsPage s t p → IsPage s' t' p)
    {blk : Bytes → Nat} {new : List (Bytes × Bytes)} (ls : LinkStep s s' blk new)
    (hnew : ∀ st ∈ new, IsPage s' t' (lruIter st.1) ∧ IsPage s' t' (lruIter st.2)) :
    Graph s' t' (L ++ new) where
  ok := ls.ok
  pages := fun st hst => by
    rcases List.mem_append.mp hst with hst | hst
    · exact ⟨mono _ (g.pages st hst).1, mono _ (g.pages st hst).2⟩
    · exact hnew st hst
  out := fun a b => by
    rw [ls.out, g.out, ncount_append, ncount_ext h x g.pages, ncount_new ls.node]
  inn := fun a b => by
    rw [ls.inn, g.inn, ncount_append, ncount_ext h x g.pages, ncount_new ls.node]
  size := by rw [ls.size, g.size, List.length_append]; omega

theorem LinkStep.of_ptrEq {s s' : State} (p : PtrEq s s') (hl : LinksOk s) : LinkStep s s' (fun _ => 0) [] where
  ok := p.linksOk hl
  out := fun a b => by rw [p.bag]; simp
  inn := fun a b => by rw [p.bag]; simp
  size := by rw [p.size]; simp
  node := fun st hst => by simp at hst

/-- the frame: a step that writes no list keeps the invariant with the same `L` -/
theorem Graph.frame {s s' : State} {t t' : T} {L : List (Bytes × Bytes)} (g : Graph s t L) (h : Shape s t)
    (x : Ext s t s' t') (mono : ∀ p, IsPage s t p → IsPage s' t' p) (p : PtrEq s s') : Graph s' t' L := by
  have := g.extend h x mono (LinkStep.of_ptrEq p g.ok) (fun st hst => by simp at hst)
  rwa [List.append_nil] at this

theorem mem_linkPages_left {links : List (Bytes × Bytes)} {st : Bytes × Bytes} (h : st ∈ links) :
    ∃ x ∈ linkPages links, x.1 = lruIter st.1 := by
  refine ⟨(lruIter st.1, false, false), ?_, rfl⟩
  unfold linkPages
  exact List.mem_flatMap.mpr ⟨st, h, by simp⟩

theorem mem_linkPages_right {links : List (Bytes × Bytes)} {st : Bytes × Bytes} (h : st ∈ links) :
    ∃ x ∈ linkPages links, x.1 = lruIter st.2 := by
  refine ⟨(lruIter st.2, false, false), ?_, rfl⟩
  unfold linkPages
  exact List.mem_flatMap.mpr ⟨st, h, by simp⟩

theorem mem_batchPages {data : List (Bytes × List Bytes)} {st : Bytes × Bytes} (h : st ∈ batchLinks data) :
    (∃ x ∈ batchPages data, x.1 = lruIter st.1) ∧ (∃ x ∈ batchPages data, x.1 = lruIter st.2) := by
  unfold batchLinks at h
  obtain ⟨d, hd, hst⟩ := List.mem_flatMap.mp h
  obtain ⟨y, hy, rfl⟩ := List.mem_map.mp hst
  unfold batchPages
  refine ⟨⟨(lruIter d.1, true, true), List.mem_flatMap.mpr ⟨d, hd, by simp⟩, rfl⟩,
    ⟨(lruIter y, false, false), List.mem_flatMap.mpr ⟨d, hd, ?_⟩, rfl⟩⟩
  exact List.mem_cons_of_mem _ (List.mem_map.mpr ⟨y, hy, rfl⟩)

/-- MAIN (every request): one well-formed write request that does not answer `KeyError` keeps the
    link invariant, with `L` extended by exactly the pairs the request submits -/
theorem step_graph {s : State} {t : T} {L : List (Bytes × Bytes)} (h : Shape s t) (hi : Inv s t)
    (g : Graph s t L) (op : Op) (hop : ∀ d rs, op ≠ .clear d rs) (hwf : OpWf op)
    (hok : (s.step op).2 ≠ .err (.other "KeyError")) :
    ∃ t', Ext s t (s.step op).1 t' ∧ Adds s t (s.step op).1 t' op.pages ∧
      Graph (s.step op).1 t' (L ++ op.links) := by
  obtain ⟨t', x, f⟩ := step_spec h op hop
  have a : Adds s t (s.step op).1 t' op.pages := (f hwf hi).1 hok
  have mono : ∀ p, IsPage s t p → IsPage (s.step op).1 t' p := fun p hp => (a.page p).mpr (Or.inl hp)
  refine ⟨t', x, a, ?_⟩
  cases op with
  | addLinks links =>
    obtain ⟨r, hr⟩ := ofExcept_ok_of_noKeyErr (addLinks_err s links) hok
    obtain ⟨blk, ls⟩ := addLinks_link h g.ok links hwf r hr
    refine g.extend h x mono ls (fun st hst => ?_)
    exact ⟨(a.page _).mpr (Or.inr (mem_linkPages_left hst)), (a.page _).mpr (Or.inr (mem_linkPages_right hst))⟩
  | batch data =>
    obtain ⟨r, hr⟩ := ofExcept_ok_of_noKeyErr (batch_err s data) hok
    obtain ⟨blk, ls⟩ := batch_link h g.ok data hwf r hr
    refine g.extend h x mono ls (fun st hst => ?_)
    exact ⟨(a.page _).mpr (Or.inr (mem_batchPages hst).1), (a.page _).mpr (Or.inr (mem_batchPages hst).2)⟩
  | _ =>
    simp only [Op.links, List.append_nil]
    exact g.frame h x mono (step_ptrEq s _ hop (fun _ e => by cases e) (fun _ e => by cases e))

/-- MAIN (every history): the invariant along any history of well-formed requests -/
theorem run_graph : ∀ (ops : List Op) (s : State) (t : T) (L : List (Bytes × Bytes)), Shape s t → Inv s t →
    Graph s t L → (∀ op ∈ ops, ∀ d rs, op ≠ .clear d rs) → (∀ op ∈ ops, OpWf op) → NoKeyErr s ops →
    ∃ t', Shape (s.run ops) t' ∧ Inv (s.run ops) t' ∧ Graph (s.run ops) t' (L ++ ops.flatMap Op.links)
  | [], s, t, L, h, hi, g, _, _, _ => ⟨t, h, hi, by rw [List.flatMap_nil, List.append_nil]; exact g⟩
  | op :: ops, s, t, L, h, hi, g, hop, hwf, hok => by
    obtain ⟨t1, x1, a1, g1⟩ := step_graph h hi g op (hop op (by simp)) (hwf op (by simp)) hok.1
    obtain ⟨t2, h2, i2, g2⟩ := run_graph ops (s.step op).1 t1 (L ++ op.links) x1.shape a1.inv g1
      (fun o ho => hop o (by simp [ho])) (fun o ho => hwf o (by simp [ho])) hok.2
    rw [run_cons, List.flatMap_cons, ← List.append_assoc]
    exact ⟨t2, h2, i2, g2⟩

theorem graph_fresh (cfg : Config) (dflt : Rule) (rules : List (Bytes × Rule)) (log : List Write) (t : T) :
    Graph (State.fresh cfg dflt rules log).1 t [] := by
  obtain ⟨l, sz, b⟩ := linksOk_fresh cfg dflt rules log
  exact ⟨l, fun st hst => by simp at hst, fun a b' => by rw [b]; rfl, fun a b' => by rw [b]; rfl, by rw [sz]; rfl⟩

/-- C03, the invariant of reachable states: after any history of well-formed write requests on a fresh
    index, the bags are exactly the submitted links -/
theorem C03_graph (cfg : Config) (dflt : Rule) (rules : List (Bytes × Rule)) (ops : List Op)
    (hrules : ∀ ar ∈ rules, lruIter ar.1 ≠ [])
    (hop : ∀ op ∈ ops, ∀ d rs, op ≠ .clear d rs) (hwf : ∀ op ∈ ops, OpWf op)
    (hok : NoKeyErr (State.fresh cfg dflt rules []).1 ops) :
    ∃ t, Shape ((State.fresh cfg dflt rules []).1.run ops) t ∧ Inv ((State.fresh cfg dflt rules []).1.run ops) t ∧
      Graph ((State.fresh cfg dflt rules []).1.run ops) t (ops.flatMap Op.links) := by
  obtain ⟨t0, h0, f0⟩ := fresh_spec cfg dflt rules []
  obtain ⟨hi0, _⟩ := f0 hrules
  have := run_graph ops _ t0 [] h0 hi0 (graph_fresh cfg dflt rules [] t0) hop hwf hok
  simpa using this

#print axioms step_graph
#print axioms C03_graph

end Traph

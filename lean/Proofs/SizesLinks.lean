import Proofs.LinkLists
import Proofs.Frame
import Proofs.Chunks
/-! C19, link store: trie writes never touch the link store; `addStubs` appends one stub per target;
    `flushLists` appends the total of the list lengths; `add_links` appends exactly two stubs per submitted
    link (one in the source's out-list, one in the target's in-list). -/
namespace Traph

/-! ### frame: the trie layer and the webentity layer leave `links` alone -/

theorem links_appendCells (cs : List Cell) (s : State) : (s.appendCells cs).links = s.links :=
  (appendCells_rest cs s).1

theorem links_writeNew (s : State) (stem : Bytes) (p : Nat) (c : Bool) :
    (s.writeNew stem p c).1.links = s.links := (writeNew_rest s stem p c).1

theorem links_setHdr (s : State) (id : Nat) : (s.setHdr id).links = s.links := rfl

theorem links_genId (s : State) : s.genId.1.links = s.links := rfl

theorem links_foldl_modCell {α : Type} (idx : α → Nat) (f : α → Cell → Cell) :
    ∀ (l : List α) (s : State), (l.foldl (fun st a => st.modCell (idx a) (f a)) s).links = s.links
  | [], _ => rfl
  | a :: l, s => by
    rw [List.foldl_cons, links_foldl_modCell idx f l, links_modCell]

theorem links_ensureStem (s : State) (start : Nat) (ex : Bool) (stem : Stem) :
    (s.ensureStem start ex stem).1.links = s.links := by
  unfold State.ensureStem
  split
  · exact links_writeNew _ _ _ _
  · split
    · rfl
    · rfl
    · simp only [links_modCell, links_writeNew]

theorem links_markCanHave (s : State) (n : Nat) (b : Bool) : (s.markCanHave n b).links = s.links := by
  unfold State.markCanHave; split
  · exact links_modCell _ _ _
  · rfl

theorem links_addLruDescend (flag : Bool) : ∀ (stems : List Stem) (s : State) (node : Nat) (ex : Bool)
    (pos : Nat) (h : Hist), (State.addLruDescend flag s stems node ex pos h).1.links = s.links := by
  intro stems
  induction stems with
  | nil => intro s node ex pos h; rfl
  | cons stem rest ih =>
    intro s node ex pos h
    rcases he : s.ensureStem node ex stem with ⟨s1, n⟩
    have h1 : s1.links = s.links := by have := links_ensureStem s node ex stem; rw [he] at this; exact this
    simp only [State.addLruDescend, he]
    split
    · rw [ih, links_markCanHave, h1]
    · simp only [links_markCanHave, h1]

theorem links_addLruCreate (flag : Bool) : ∀ (stems : List Stem) (s : State) (node : Nat),
    (State.addLruCreate flag s stems node).1.links = s.links := by
  intro stems
  induction stems with
  | nil => intro s node; rfl
  | cons stem rest ih =>
    intro s node
    simp only [State.addLruCreate]
    rw [ih, links_modCell, links_writeNew]

theorem links_addLru (s : State) (stems : LRU) (flag : Bool) : (s.addLru stems flag).1.links = s.links := by
  unfold State.addLru
  simp only [links_addLruCreate, links_addLruDescend]

theorem links_addPageTrie (s : State) (stems : LRU) (crawled : Bool) :
    (s.addPageTrie stems crawled).1.links = s.links := by
  unfold State.addPageTrie
  simp only
  split
  · simp only [links_modCell, links_addLru]
  · split
    · simp only [links_modCell, links_addLru]
    · exact links_addLru _ _ _

theorem links_addPrefixesScan : ∀ (ps : List Bytes) (s : State) (valid : List (Bytes × Nat)) (k : Nat),
    (State.addPrefixesScan s ps valid k).1.links = s.links
  | [], _, _, _ => rfl
  | p :: ps, s, valid, k => by
    rcases h : s.addLru (lruIter p) true with ⟨s1, n, hh⟩
    have h1 : s1.links = s.links := by have := links_addLru s (lruIter p) true; rw [h] at this; exact this
    simp only [State.addPrefixesScan, h]
    split <;> rw [links_addPrefixesScan ps, h1]

theorem links_addPrefixes (s : State) (ps : List Bytes) (best : Bool) :
    (s.addPrefixes ps best).1.links = s.links := by
  rcases ha : s.addPrefixesScan ps [] 0 with ⟨s1, valid, nInv⟩
  have h1 : s1.links = s.links := by
    have := links_addPrefixesScan ps s [] 0; rw [ha] at this; exact this
  simp only [State.addPrefixes, ha]
  split
  · exact h1
  · split
    · exact h1
    · exact (links_foldl_modCell (fun pn : Bytes × Nat => pn.2)
        (fun _ c => { c with we := s1.genId.2 }) valid _).trans h1

theorem links_createWebentityAuto (s : State) (pfx : Bytes) :
    (s.createWebentityAuto pfx).1.links = s.links := by
  have hl := links_addPrefixes s (lruVariations pfx) true
  unfold State.createWebentityAuto
  split <;> rename_i heq <;> rw [heq] at hl <;> exact hl

theorem links_addPageCore (s : State) (lru : Bytes) (crawled : Bool) :
    (s.addPageCore lru crawled).1.links = s.links := by
  rcases ha : s.addPageTrie (lruIter lru) crawled with ⟨s1, n, h⟩
  have h1 : s1.links = s.links := by
    have := links_addPageTrie s (lruIter lru) crawled; rw [ha] at this; exact this
  simp only [State.addPageCore, ha]
  repeat' split
  all_goals first | exact h1 | exact (links_createWebentityAuto s1 _).trans h1

theorem links_addPage (s : State) (lru : Bytes) (crawled : Bool) :
    (s.addPage lru crawled).1.links = s.links := by
  simp only [State.addPage]
  exact links_addPageCore s lru crawled

/-- hence the well-formedness of the stub array survives every trie-side write -/
theorem linksWf_addLru {s : State} (hwf : s.LinksWf) (stems : LRU) (flag : Bool) :
    (s.addLru stems flag).1.LinksWf := State.linksWf_congr (links_addLru s stems flag) hwf

theorem linksWf_addPageTrie {s : State} (hwf : s.LinksWf) (stems : LRU) (crawled : Bool) :
    (s.addPageTrie stems crawled).1.LinksWf := State.linksWf_congr (links_addPageTrie s stems crawled) hwf

theorem linksWf_addPrefixes {s : State} (hwf : s.LinksWf) (ps : List Bytes) (best : Bool) :
    (s.addPrefixes ps best).1.LinksWf := State.linksWf_congr (links_addPrefixes s ps best) hwf

theorem linksWf_addPageCore {s : State} (hwf : s.LinksWf) (lru : Bytes) (crawled : Bool) :
    (s.addPageCore lru crawled).1.LinksWf := State.linksWf_congr (links_addPageCore s lru crawled) hwf

theorem linksWf_modCell {s : State} (hwf : s.LinksWf) (i : Nat) (f : Cell → Cell) :
    (s.modCell i f).LinksWf := State.linksWf_congr (links_modCell s i f) hwf

/-! ### the link layer: one stub per target -/

/-- `addStubsGo` appends one stub per target (no well-formedness needed for the count) -/
theorem addStubsGo_links_size : ∀ (targets : List Nat) (s : State) (tail : Nat),
    (s.addStubsGo tail targets).1.links.size = s.links.size + targets.length
  | [], _, _ => rfl
  | t :: ts, s, tail => by
    have hstep : s.addStubsGo tail (t :: ts) =
        (s.appendStub { target := t, prev := tail }).1.addStubsGo s.links.size ts := rfl
    rw [hstep, addStubsGo_links_size ts, State.links_appendStub, Array.size_push, List.length_cons]
    omega

theorem addStubsGo_trie_eq : ∀ (targets : List Nat) (s : State) (tail : Nat),
    (s.addStubsGo tail targets).1.trie = s.trie
  | [], _, _ => rfl
  | t :: ts, s, tail => by
    have hstep : s.addStubsGo tail (t :: ts) =
        (s.appendStub { target := t, prev := tail }).1.addStubsGo s.links.size ts := rfl
    rw [hstep, addStubsGo_trie_eq ts, State.trie_appendStub]

/-- `LinkStore.add_links(page, targets, out)` appends exactly `targets.length` stubs -/
theorem addStubs_size (s : State) (page : Nat) (targets : List Nat) (out : Bool) :
    (s.addStubs page targets out).links.size = s.links.size + targets.length := by
  unfold State.addStubs
  split
  · next h => rw [List.isEmpty_iff.mp h]; rfl
  · simp only [links_modCell]
    exact addStubsGo_links_size _ _ _

/-- nothing at all happens for an empty list -/
theorem addStubs_nil (s : State) (page : Nat) (out : Bool) : s.addStubs page [] out = s := rfl

/-- …and never a trie block -/
theorem addStubs_trie_size (s : State) (page : Nat) (targets : List Nat) (out : Bool) :
    (s.addStubs page targets out).trie.size = s.trie.size := by
  unfold State.addStubs
  split
  · rfl
  · simp only [trie_modCell_size]
    rw [addStubsGo_trie_eq]

/-- well-formedness survives when the page's current head is a stub of the store -/
theorem linksWf_addStubs {s : State} (hwf : s.LinksWf) (page : Nat) (targets : List Nat) (out : Bool)
    (hh : (if out then (s.cell page).out else (s.cell page).inn) < s.links.size) :
    (s.addStubs page targets out).LinksWf := by
  unfold State.addStubs
  split
  · exact hwf
  · exact State.linksWf_congr (links_modCell _ _ _) (State.addStubsGo_wf s hwf _ hh targets)

/-! ### `flushLists`: the total of the list lengths -/

/-- total number of values of a multimap -/
def multiTotal {α β : Type} (d : List (α × List β)) : Nat := (d.map (fun kv => kv.2.length)).sum

@[simp] theorem multiTotal_nil {α β : Type} : multiTotal ([] : List (α × List β)) = 0 := rfl

theorem multiTotal_cons {α β : Type} (kv : α × List β) (d : List (α × List β)) :
    multiTotal (kv :: d) = kv.2.length + multiTotal d := by
  simp [multiTotal]

/-- `defaultdict(list)[k].append(v)` adds exactly one value -/
theorem multiAdd_total {α β : Type} [DecidableEq α] : ∀ (d : List (α × List β)) (k : α) (v : β),
    multiTotal (multiAdd d k v) = multiTotal d + 1
  | [], k, v => by simp [multiAdd, multiTotal]
  | (k', vs) :: rest, k, v => by
    unfold multiAdd
    split
    · rw [multiTotal_cons, multiTotal_cons]; simp only [List.length_append, List.length_singleton]; omega
    · rw [multiTotal_cons, multiTotal_cons, multiAdd_total rest k v]; omega

theorem blocksOf_length (pages : List (Bytes × Nat)) (ls : List Bytes) :
    (State.blocksOf pages ls).length = ls.length := by
  simp [State.blocksOf]

theorem flushLists_size (out : Bool) (pages : List (Bytes × Nat)) :
    ∀ (lists : List (Bytes × List Bytes)) (s : State),
      (State.flushLists out pages s lists).links.size = s.links.size + multiTotal lists
  | [], _ => rfl
  | (p, others) :: rest, s => by
    simp only [State.flushLists]
    rw [flushLists_size out pages rest, addStubs_size, blocksOf_length, multiTotal_cons]
    simp only
    omega

theorem flushLists_trie_size (out : Bool) (pages : List (Bytes × Nat)) :
    ∀ (lists : List (Bytes × List Bytes)) (s : State),
      (State.flushLists out pages s lists).trie.size = s.trie.size
  | [], _ => rfl
  | (p, others) :: rest, s => by
    simp only [State.flushLists]
    rw [flushLists_trie_size out pages rest, addStubs_trie_size]

/-! ### `add_links`: two stubs per submitted link -/

theorem ensurePageCached_spec (s : State) (acc : State.LinkAcc) (l : Bytes) (crawled : Bool) :
    (s.ensurePageCached acc l crawled).1.links = s.links ∧
    ∀ acc', (s.ensurePageCached acc l crawled).2 = .ok acc' → acc'.outl = acc.outl ∧ acc'.inl = acc.inl := by
  unfold State.ensurePageCached
  split
  · exact ⟨rfl, fun acc' h => by cases h; exact ⟨rfl, rfl⟩⟩
  · have hl := links_addPageCore s l crawled
    split
    · rename_i heq
      rw [heq] at hl
      exact ⟨hl, fun acc' h => by cases h⟩
    · rename_i heq
      rw [heq] at hl
      exact ⟨hl, fun acc' h => by cases h; exact ⟨rfl, rfl⟩⟩

/-- the scan writes no stub, and files every submitted link once in each of the two multimaps -/
theorem addLinksScan_spec : ∀ (pairs : List (Bytes × Bytes)) (s : State) (acc : State.LinkAcc),
    (State.addLinksScan s pairs acc).1.links = s.links ∧
    ∀ acc', (State.addLinksScan s pairs acc).2 = .ok acc' →
      multiTotal acc'.outl = multiTotal acc.outl + pairs.length ∧
      multiTotal acc'.inl = multiTotal acc.inl + pairs.length
  | [], s, acc => ⟨rfl, fun acc' h => by cases h; exact ⟨rfl, rfl⟩⟩
  | (src, tgt) :: rest, s, acc => by
    obtain ⟨a1, a2⟩ := ensurePageCached_spec s acc src false
    unfold State.addLinksScan
    split
    · rename_i s1 e heq
      rw [heq] at a1
      exact ⟨a1, fun acc' h => by cases h⟩
    · rename_i s1 acc1 heq
      rw [heq] at a1 a2
      obtain ⟨o1, i1⟩ := a2 acc1 rfl
      obtain ⟨b1, b2⟩ := ensurePageCached_spec s1 acc1 tgt false
      split
      · rename_i s2 e heq2
        rw [heq2] at b1
        exact ⟨b1.trans a1, fun acc' h => by cases h⟩
      · rename_i s2 acc2 heq2
        rw [heq2] at b1 b2
        obtain ⟨o2, i2⟩ := b2 acc2 rfl
        obtain ⟨c1, c2⟩ := addLinksScan_spec rest s2
          { acc2 with outl := multiAdd acc2.outl src tgt, inl := multiAdd acc2.inl tgt src }
        refine ⟨c1.trans (b1.trans a1), fun acc' h => ?_⟩
        obtain ⟨d1, d2⟩ := c2 acc' h
        simp only [multiAdd_total, o2, o1, i2, i1] at d1 d2
        simp only [List.length_cons]
        exact ⟨by omega, by omega⟩

/-- MAIN (link store): a successful `add_links` appends exactly two stubs per submitted link -/
theorem addLinks_links_size (s : State) (pairs : List (Bytes × Bytes)) (r : Report)
    (hok : (s.addLinks pairs).2 = .ok r) :
    (s.addLinks pairs).1.links.size = s.links.size + 2 * pairs.length := by
  obtain ⟨a1, a2⟩ := addLinksScan_spec pairs s {}
  unfold State.addLinks at hok ⊢
  split
  · rename_i s1 e heq
    rw [heq] at hok
    cases hok
  · rename_i s1 acc heq
    rw [heq] at a1 a2
    obtain ⟨o, i⟩ := a2 acc rfl
    simp only
    rw [flushLists_size, flushLists_size, a1, o, i]
    simp only [multiTotal_nil]
    omega

/-- a failing `add_links` (a page insertion raised) has written no stub at all -/
theorem addLinks_links_error (s : State) (pairs : List (Bytes × Bytes)) (e : Err)
    (herr : (s.addLinks pairs).2 = .error e) : (s.addLinks pairs).1.links = s.links := by
  obtain ⟨a1, _⟩ := addLinksScan_spec pairs s {}
  unfold State.addLinks at herr ⊢
  split
  · rename_i s1 e' heq
    rw [heq] at a1
    exact a1
  · rename_i s1 acc heq
    rw [heq] at herr
    cases herr

#print axioms links_addPageCore
#print axioms addStubs_size
#print axioms flushLists_size
#print axioms multiAdd_total
#print axioms addLinks_links_size

end Traph

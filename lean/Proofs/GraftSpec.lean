import Proofs.GraftHole
/-! Specification of the ghost graft `T.graft q sl b` at the three places the insertion code performs it:
    1. at the fall-off point of a one-level sibling search `T.find`,
    2. at the fall-off point of the level-by-level descent `T.descend`,
    3. at the (nil) child slot of an arbitrary node `q` of the tree (the fresh chain of `add_lru`).
    In each case: `OrdT` survives, exactly the address `b` is added, exactly the entry
    `(path of the slot ++ [x], b)` is added to the finite map `T.entries`.
    The three places are reduced to the relation `Hole` of `Proofs/GraftHole.lean`. -/
namespace Traph
open State

/-! ### 1. one level: the fall-off point of `T.find` is a hole -/

theorem T.find_hole {s : State} {x : Stem} : ∀ (u : T) (pre : LRU) (lo hi : Option Stem) (q : Nat) (sl : Slot),
    u.find s x = .missing q sl →
    (∀ y, lo = some y → lexLt y x = true) → (∀ y, hi = some y → lexLt x y = true) →
    ∃ lo' hi', Hole s q sl u pre lo hi pre lo' hi' ∧
      (∀ y, lo' = some y → lexLt y x = true) ∧ (∀ y, hi' = some y → lexLt x y = true) := by
  intro u
  induction u with
  | nil => intro _ _ _ _ _ hf; simp [T.find] at hf
  | node a l c r ihl _ ihr =>
    intro pre lo hi q sl hf hlo hhi
    simp only [T.find] at hf
    split at hf
    · cases hf
    · rename_i hne
      split at hf
      · rename_i hlt
        cases l with
        | nil =>
          simp only [Find.missing.injEq] at hf
          obtain ⟨rfl, rfl⟩ := hf
          exact ⟨_, _, .hereL c r pre lo hi, hlo, by intro y hy; cases hy; exact hlt⟩
        | node a' l' c' r' =>
          obtain ⟨lo', hi', hh, b1, b2⟩ :=
            ihl pre lo (some (s.stemAt a)) q sl hf hlo (by intro y hy; cases hy; exact hlt)
          exact ⟨lo', hi', .inL c r hi hh, b1, b2⟩
      · rename_i hnlt
        have hgt : lexLt (s.stemAt a) x = true := by
          rcases lexLt_tri x (s.stemAt a) with h' | h' | h'
          · exact absurd h' hnlt
          · exact absurd h'.symm hne
          · exact h'
        cases r with
        | nil =>
          simp only [Find.missing.injEq] at hf
          obtain ⟨rfl, rfl⟩ := hf
          exact ⟨_, _, .hereR l c pre lo hi, by intro y hy; cases hy; exact hgt, hhi⟩
        | node a' l' c' r' =>
          obtain ⟨lo', hi', hh, b1, b2⟩ :=
            ihr pre (some (s.stemAt a)) hi q sl hf (by intro y hy; cases hy; exact hgt) hhi
          exact ⟨lo', hi', .inR l c lo hh, b1, b2⟩

section OneLevel
variable {s s' : State} {u : T} {q b : Nat} {sl : Slot} {x : Stem} {lo hi : Option Stem}

/-- grafting at the fall-off point of `T.find` keeps the sibling BST (and everything below) ordered -/
theorem OrdT.graft_find (hnd : u.addrs.Nodup) (hb : b ∉ u.addrs)
    (hst : ∀ a ∈ u.addrs, s'.stemAt a = s.stemAt a) (hsb : s'.stemAt b = x)
    (hf : u.find s x = .missing q sl) (ho : OrdT s u lo hi)
    (hlo : ∀ y, lo = some y → lexLt y x = true) (hhi : ∀ y, hi = some y → lexLt x y = true) :
    OrdT s' (u.graft q sl b) lo hi := by
  obtain ⟨lo', hi', hh, b1, b2⟩ := T.find_hole u [] lo hi q sl hf hlo hhi
  exact hh.graft_ord hnd hb hst hsb ho b1 b2

/-- exactly one leaf is added -/
theorem addrs_graft_find (hnd : u.addrs.Nodup) (hf : u.find s x = .missing q sl) :
    (u.graft q sl b).addrs.Perm (b :: u.addrs) := by
  obtain ⟨lo', hi', hh, _, _⟩ := T.find_hole u [] none none q sl hf (by simp) (by simp)
  exact hh.graft_addrs hnd

theorem nodup_graft_find (hnd : u.addrs.Nodup) (hb : b ∉ u.addrs) (hf : u.find s x = .missing q sl) :
    (u.graft q sl b).addrs.Nodup :=
  (addrs_graft_find hnd hf).nodup_iff.mpr (List.nodup_cons.mpr ⟨hb, hnd⟩)

/-- one-level version of the entries statement: the new leaf is a sibling, at the same prefix -/
theorem entries_graft_find {pre : LRU} (hnd : u.addrs.Nodup)
    (hst : ∀ a ∈ u.addrs, s'.stemAt a = s.stemAt a) (hsb : s'.stemAt b = x)
    (hf : u.find s x = .missing q sl) :
    ((u.graft q sl b).entries s' pre).Perm ((pre ++ [x], b) :: u.entries s pre) := by
  obtain ⟨lo', hi', hh, _, _⟩ := T.find_hole u pre none none q sl hf (by simp) (by simp)
  exact hh.graft_entries hnd hst hsb
end OneLevel

/-! ### 2. multi-level: the fall-off point of `T.descend` is a hole -/

/-- a hole in the child tree of the sibling `a` is a hole of the whole tree -/
theorem Hole.of_childAt {s : State} {q : Nat} {sl : Slot} {a : Nat} {pre' : LRU} {lo' hi' : Option Stem} :
    ∀ (u : T) (pre : LRU) (lo hi : Option Stem), a ∈ u.sibs →
    Hole s q sl (u.childAt a) (pre ++ [s.stemAt a]) none none pre' lo' hi' →
    Hole s q sl u pre lo hi pre' lo' hi' := by
  intro u
  induction u with
  | nil => intro _ _ _ h; simp [T.sibs] at h
  | node d l c r ihl _ ihr =>
    intro pre lo hi ha hh
    simp only [T.sibs, List.mem_append, List.mem_cons] at ha
    simp only [T.childAt] at hh
    by_cases e : d = a
    · subst e; rw [if_pos rfl] at hh; exact .inC l r lo hi hh
    · rw [if_neg e] at hh
      by_cases hl : a ∈ l.sibs
      · rw [if_pos hl] at hh; exact .inL c r hi (ihl pre lo _ hl hh)
      · rw [if_neg hl] at hh
        have har : a ∈ r.sibs := by
          rcases ha with h | h | h
          · exact absurd h hl
          · exact absurd h.symm e
          · exact h
        exact .inR l c lo (ihr pre _ hi har hh)

/-- a sibling without child tree has a hole at its child slot -/
theorem Hole.of_childAt_nil {s : State} {a : Nat} :
    ∀ (u : T) (pre : LRU) (lo hi : Option Stem), a ∈ u.sibs → u.childAt a = .nil →
    Hole s a .C u pre lo hi (pre ++ [s.stemAt a]) none none := by
  intro u
  induction u with
  | nil => intro _ _ _ h; simp [T.sibs] at h
  | node d l c r ihl _ ihr =>
    intro pre lo hi ha hc
    simp only [T.sibs, List.mem_append, List.mem_cons] at ha
    simp only [T.childAt] at hc
    by_cases e : d = a
    · subst e; rw [if_pos rfl] at hc; subst hc; exact .hereC l r pre lo hi
    · rw [if_neg e] at hc
      by_cases hl : a ∈ l.sibs
      · rw [if_pos hl] at hc; exact .inL c r hi (ihl pre lo _ hl hc)
      · rw [if_neg hl] at hc
        have har : a ∈ r.sibs := by
          rcases ha with h | h | h
          · exact absurd h hl
          · exact absurd h.symm e
          · exact h
        exact .inR l c lo (ihr pre _ hi har hc)

/-- where the descent falls off there is a hole; its inner bounds enclose the first unconsumed stem,
    provided the outer bounds enclose the first stem searched -/
theorem T.descend_hole {s : State} : ∀ (stems : List Stem) (u : T) (pre : LRU) (lo hi : Option Stem)
    (q : Nat) (sl : Slot) (pre' : LRU) (x : Stem) (rest' : List Stem),
    u.descend s stems pre = .fell q sl pre' (x :: rest') →
    (∀ y, lo = some y → lexLt y stems.head! = true) → (∀ y, hi = some y → lexLt stems.head! y = true) →
    ∃ lo' hi', Hole s q sl u pre lo hi pre' lo' hi' ∧
      (∀ y, lo' = some y → lexLt y x = true) ∧ (∀ y, hi' = some y → lexLt x y = true) := by
  intro stems
  induction stems with
  | nil => intro u pre lo hi q sl pre' x rest' h; simp [T.descend] at h
  | cons stem rest ih =>
    intro u pre lo hi q sl pre' x rest' h hlo hhi
    have hlo : ∀ y, lo = some y → lexLt y stem = true := hlo
    have hhi : ∀ y, hi = some y → lexLt stem y = true := hhi
    simp only [T.descend] at h
    cases hf : u.find s stem with
    | corrupt => simp [hf] at h
    | missing q0 sl0 =>
      rw [hf] at h
      simp only [Loc.fell.injEq, List.cons.injEq] at h
      obtain ⟨rfl, rfl, rfl, rfl, rfl⟩ := h
      exact T.find_hole u pre lo hi q0 sl0 hf hlo hhi
    | found a =>
      rw [hf] at h
      obtain ⟨hmem, hsa⟩ := T.find_sound u a hf
      cases rest with
      | nil => simp at h
      | cons st2 rest2 =>
        simp only at h
        cases hc : u.childAt a with
        | nil =>
          rw [hc] at h
          simp only [Loc.fell.injEq, List.cons.injEq] at h
          obtain ⟨rfl, rfl, rfl, rfl, rfl⟩ := h
          refine ⟨none, none, ?_, by simp, by simp⟩
          rw [← hsa]
          exact Hole.of_childAt_nil u pre lo hi hmem hc
        | node a' l' c' r' =>
          rw [hc] at h
          simp only at h
          obtain ⟨lo', hi', hh, b1, b2⟩ :=
            ih (.node a' l' c' r') (pre ++ [stem]) none none q sl pre' x rest' h (by simp) (by simp)
          refine ⟨lo', hi', ?_, b1, b2⟩
          rw [← hc, ← hsa] at hh
          exact Hole.of_childAt u pre lo hi hmem hh

/-- the consumed prefix plus the unconsumed stems make up the whole path -/
theorem descend_fell_suffix {s : State} : ∀ (stems : List Stem) (u : T) (pre : LRU)
    (q : Nat) (sl : Slot) (pre' : LRU) (rest' : List Stem),
    u.descend s stems pre = .fell q sl pre' rest' →
    rest' ≠ [] ∧ pre' ++ rest' = pre ++ stems ∧
      ∃ k, k < stems.length ∧ pre' = pre ++ stems.take k ∧ rest' = stems.drop k := by
  intro stems
  induction stems with
  | nil => intro u pre q sl pre' rest' h; simp [T.descend] at h
  | cons stem rest ih =>
    intro u pre q sl pre' rest' h
    simp only [T.descend] at h
    cases hf : u.find s stem with
    | corrupt => simp [hf] at h
    | missing q0 sl0 =>
      rw [hf] at h
      simp only [Loc.fell.injEq] at h
      obtain ⟨rfl, rfl, rfl, rfl⟩ := h
      exact ⟨by simp, rfl, 0, by simp, by simp, by simp⟩
    | found a =>
      rw [hf] at h
      cases rest with
      | nil => simp at h
      | cons st2 rest2 =>
        simp only at h
        cases hc : u.childAt a with
        | nil =>
          rw [hc] at h
          simp only [Loc.fell.injEq] at h
          obtain ⟨rfl, rfl, rfl, rfl⟩ := h
          exact ⟨by simp, by simp, 1, by simp, by simp, by simp⟩
        | node a' l' c' r' =>
          rw [hc] at h
          simp only at h
          obtain ⟨h1, h2, k, hk, e1, e2⟩ := ih (.node a' l' c' r') (pre ++ [stem]) q sl pre' rest' h
          refine ⟨h1, by rw [h2]; simp, k + 1, by simp at hk ⊢; omega, ?_, ?_⟩
          · rw [e1]; simp
          · rw [e2]; simp

section MultiLevel
variable {s s' : State} {u : T} {q b : Nat} {sl : Slot} {x : Stem} {lo hi : Option Stem}
  {stems rest' : List Stem} {pre pre' : LRU}

/-- the node at which the descent falls off is a node of the tree -/
theorem descend_fell_mem (hd : u.descend s stems pre = .fell q sl pre' (x :: rest')) : q ∈ u.addrs := by
  obtain ⟨_, _, hh, _, _⟩ := T.descend_hole stems u pre none none q sl pre' x rest' hd (by simp) (by simp)
  exact hh.mem

/-- MAIN (order): grafting the node for the first unconsumed stem `x` at the fall-off point of the
    descent keeps every sibling tree strictly ordered -/
theorem OrdT.graft_descend (hnd : u.addrs.Nodup) (hb : b ∉ u.addrs)
    (hst : ∀ a ∈ u.addrs, s'.stemAt a = s.stemAt a) (hsb : s'.stemAt b = x)
    (hd : u.descend s stems pre = .fell q sl pre' (x :: rest')) (ho : OrdT s u lo hi)
    (hlo : ∀ y, lo = some y → lexLt y stems.head! = true)
    (hhi : ∀ y, hi = some y → lexLt stems.head! y = true) :
    OrdT s' (u.graft q sl b) lo hi := by
  obtain ⟨lo', hi', hh, b1, b2⟩ := T.descend_hole stems u pre lo hi q sl pre' x rest' hd hlo hhi
  exact hh.graft_ord hnd hb hst hsb ho b1 b2

/-- the same with the first stem named, for callers that have `stems = x0 :: rest0` -/
theorem OrdT.graft_descend_cons {x0 : Stem} {rest0 : List Stem} (hnd : u.addrs.Nodup) (hb : b ∉ u.addrs)
    (hst : ∀ a ∈ u.addrs, s'.stemAt a = s.stemAt a) (hsb : s'.stemAt b = x)
    (hd : u.descend s (x0 :: rest0) pre = .fell q sl pre' (x :: rest')) (ho : OrdT s u lo hi)
    (hlo : ∀ y, lo = some y → lexLt y x0 = true) (hhi : ∀ y, hi = some y → lexLt x0 y = true) :
    OrdT s' (u.graft q sl b) lo hi :=
  OrdT.graft_descend hnd hb hst hsb hd ho hlo hhi

/-- the top-level instance: the whole tree has open bounds -/
theorem OrdT.graft_descend_top (hnd : u.addrs.Nodup) (hb : b ∉ u.addrs)
    (hst : ∀ a ∈ u.addrs, s'.stemAt a = s.stemAt a) (hsb : s'.stemAt b = x)
    (hd : u.descend s stems pre = .fell q sl pre' (x :: rest')) (ho : OrdT s u none none) :
    OrdT s' (u.graft q sl b) none none :=
  OrdT.graft_descend hnd hb hst hsb hd ho (by simp) (by simp)

/-- MAIN (addresses): exactly one address, `b`, is added -/
theorem addrs_graft_descend (hnd : u.addrs.Nodup)
    (hd : u.descend s stems pre = .fell q sl pre' (x :: rest')) :
    (u.graft q sl b).addrs.Perm (b :: u.addrs) := by
  obtain ⟨_, _, hh, _, _⟩ := T.descend_hole stems u pre none none q sl pre' x rest' hd (by simp) (by simp)
  exact hh.graft_addrs hnd

theorem nodup_graft_descend (hnd : u.addrs.Nodup) (hb : b ∉ u.addrs)
    (hd : u.descend s stems pre = .fell q sl pre' (x :: rest')) :
    (u.graft q sl b).addrs.Nodup :=
  (addrs_graft_descend hnd hd).nodup_iff.mpr (List.nodup_cons.mpr ⟨hb, hnd⟩)

/-- MAIN (finite map): the map gains exactly the new path; all old entries are unchanged -/
theorem entries_graft_descend (hnd : u.addrs.Nodup)
    (hst : ∀ a ∈ u.addrs, s'.stemAt a = s.stemAt a) (hsb : s'.stemAt b = x)
    (hd : u.descend s stems pre = .fell q sl pre' (x :: rest')) :
    ((u.graft q sl b).entries s' pre).Perm ((pre' ++ [x], b) :: u.entries s pre) := by
  obtain ⟨_, _, hh, _, _⟩ := T.descend_hole stems u pre none none q sl pre' x rest' hd (by simp) (by simp)
  exact hh.graft_entries hnd hst hsb
end MultiLevel

/-! ### 3. the child slot of an arbitrary node without child tree -/

/-- the child subtree of the node labelled `q`, wherever it is in the tree (sibling closure and child
    trees); meaningful for duplicate-free trees -/
def T.childOf : T → Nat → T
  | .nil, _ => .nil
  | .node a l c r, q =>
    if a = q then c else if q ∈ l.addrs then l.childOf q else if q ∈ c.addrs then c.childOf q else r.childOf q

theorem T.entries_mem_addrs {s : State} {p : LRU} {q : Nat} : ∀ (t : T) (pre : LRU),
    (p, q) ∈ t.entries s pre → q ∈ t.addrs := by
  intro t
  induction t with
  | nil => intro _ h; simp [T.entries] at h
  | node a l c r ihl ihc ihr =>
    intro pre h
    simp only [T.entries, List.mem_append, List.mem_cons, Prod.mk.injEq] at h
    simp only [T.addrs, List.mem_cons, List.mem_append]
    rcases h with h | ⟨_, rfl⟩ | h | h
    · exact Or.inr (Or.inl (Or.inl (ihl _ h)))
    · exact Or.inl rfl
    · exact Or.inr (Or.inl (Or.inr (ihc _ h)))
    · exact Or.inr (Or.inr (ihr _ h))

/-- conversely every address has an entry (its path) -/
theorem T.addrs_mem_entries {s : State} {q : Nat} : ∀ (t : T) (pre : LRU),
    q ∈ t.addrs → ∃ p, (p, q) ∈ t.entries s pre := by
  intro t
  induction t with
  | nil => intro _ h; simp [T.addrs] at h
  | node a l c r ihl ihc ihr =>
    intro pre h
    simp only [T.addrs, List.mem_cons, List.mem_append] at h
    simp only [T.entries, List.mem_append, List.mem_cons, Prod.mk.injEq]
    rcases h with rfl | (h | h) | h
    · exact ⟨_, Or.inr (Or.inl ⟨rfl, rfl⟩)⟩
    · obtain ⟨p, hp⟩ := ihl pre h; exact ⟨p, Or.inl hp⟩
    · obtain ⟨p, hp⟩ := ihc _ h; exact ⟨p, Or.inr (Or.inr (Or.inl hp))⟩
    · obtain ⟨p, hp⟩ := ihr pre h; exact ⟨p, Or.inr (Or.inr (Or.inr hp))⟩

/-- a node of a duplicate-free tree whose child tree is nil has a hole at its child slot, below its own
    path -/
theorem T.child_hole {s : State} {q : Nat} {p : LRU} : ∀ (u : T) (pre : LRU) (lo hi : Option Stem),
    u.addrs.Nodup → (p, q) ∈ u.entries s pre → u.childOf q = .nil →
    Hole s q .C u pre lo hi p none none := by
  intro u
  induction u with
  | nil => intro _ _ _ _ h; simp [T.entries] at h
  | node a l c r ihl ihc ihr =>
    intro pre lo hi hnd hm hc
    obtain ⟨hal, hac, har, ndl, ndc, ndr, dlc, dlr, dcr⟩ := T.nodup_node hnd
    simp only [T.entries, List.mem_append, List.mem_cons, Prod.mk.injEq] at hm
    simp only [T.childOf] at hc
    rcases hm with hm | ⟨rfl, rfl⟩ | hm | hm
    · have hq := T.entries_mem_addrs l _ hm
      have haq : ¬ a = q := by rintro rfl; exact hal hq
      rw [if_neg haq, if_pos hq] at hc
      exact .inL c r hi (ihl pre lo _ ndl hm hc)
    · rw [if_pos rfl] at hc; subst hc
      exact .hereC l r pre lo hi
    · have hq := T.entries_mem_addrs c _ hm
      have haq : ¬ a = q := by rintro rfl; exact hac hq
      have hql : q ∉ l.addrs := fun hx => dlc q hx hq
      rw [if_neg haq, if_neg hql, if_pos hq] at hc
      exact .inC l r lo hi (ihc _ none none ndc hm hc)
    · have hq := T.entries_mem_addrs r _ hm
      have haq : ¬ a = q := by rintro rfl; exact har hq
      have hql : q ∉ l.addrs := fun hx => dlr q hx hq
      have hqc : q ∉ c.addrs := fun hx => dcr q hx hq
      rw [if_neg haq, if_neg hql, if_neg hqc] at hc
      exact .inR l c lo (ihr pre _ hi ndr hm hc)

/-- the freshly grafted leaf has no child tree (so the chain can be continued below it) -/
theorem Hole.childOf_graft_new {s : State} {q b : Nat} {sl u pre lo hi pre' lo' hi'}
    (h : Hole s q sl u pre lo hi pre' lo' hi') :
    u.addrs.Nodup → b ∉ u.addrs → (u.graft q sl b).childOf b = .nil := by
  induction h with
  | hereL c r pre lo hi =>
    intro hnd hb
    obtain ⟨_, hqc, hqr, _⟩ := T.nodup_node hnd
    obtain ⟨hbq, _, _, _⟩ := T.not_mem_node hb
    rw [T.graft_hereL c r hqc hqr]
    simp [T.childOf, T.addrs, Ne.symm hbq]
  | hereR l c pre lo hi =>
    intro hnd hb
    obtain ⟨hql, hqc, _, _⟩ := T.nodup_node hnd
    obtain ⟨hbq, hbl, hbc, _⟩ := T.not_mem_node hb
    rw [T.graft_hereR l c hql hqc]
    simp [T.childOf, Ne.symm hbq, hbl, hbc]
  | hereC l r pre lo hi =>
    intro hnd hb
    obtain ⟨hql, _, hqr, _⟩ := T.nodup_node hnd
    obtain ⟨hbq, hbl, _, _⟩ := T.not_mem_node hb
    rw [T.graft_hereC l r hql hqr]
    simp [T.childOf, T.addrs, Ne.symm hbq, hbl]
  | @inL sl a l pre lo pre' lo' hi' c r hi hl ih =>
    intro hnd hb
    obtain ⟨hal, _, _, ndl, _, _, dlc, dlr, _⟩ := T.nodup_node hnd
    obtain ⟨hba, hbl, _, _⟩ := T.not_mem_node hb
    have hq := hl.mem
    rw [T.graft_inL sl l c r (by rintro rfl; exact hal hq) (dlc q hq) (dlr q hq)]
    have hm : b ∈ (l.graft q sl b).addrs := (hl.graft_addrs ndl).symm.subset (by simp)
    simp only [T.childOf]
    rw [if_neg (Ne.symm hba), if_pos hm]
    exact ih ndl hbl
  | @inR sl a r pre hi pre' lo' hi' l c lo hr ih =>
    intro hnd hb
    obtain ⟨_, _, har, _, _, ndr, _, dlr, dcr⟩ := T.nodup_node hnd
    obtain ⟨hba, hbl, hbc, hbr⟩ := T.not_mem_node hb
    have hq := hr.mem
    rw [T.graft_inR sl l c r (by rintro rfl; exact har hq) (fun hx => dlr q hx hq) (fun hx => dcr q hx hq)]
    simp only [T.childOf]
    rw [if_neg (Ne.symm hba), if_neg hbl, if_neg hbc]
    exact ih ndr hbr
  | @inC sl a c pre pre' lo' hi' l r lo hi hc ih =>
    intro hnd hb
    obtain ⟨_, hac, _, _, ndc, _, dlc, _, dcr⟩ := T.nodup_node hnd
    obtain ⟨hba, hbl, hbc, _⟩ := T.not_mem_node hb
    have hq := hc.mem
    rw [T.graft_inC sl l c r (by rintro rfl; exact hac hq) (fun hx => dlc q hx hq) (dcr q hq)]
    have hm : b ∈ (c.graft q sl b).addrs := (hc.graft_addrs ndc).symm.subset (by simp)
    simp only [T.childOf]
    rw [if_neg (Ne.symm hba), if_neg hbl, if_pos hm]
    exact ih ndc hbc

section ChildChain
variable {s s' : State} {u : T} {q b : Nat} {x : Stem} {lo hi : Option Stem} {pre p : LRU}

/-- a single leaf with open bounds is trivially ordered -/
theorem graft_child_ord (hnd : u.addrs.Nodup) (hb : b ∉ u.addrs)
    (hst : ∀ a ∈ u.addrs, s'.stemAt a = s.stemAt a) (hsb : s'.stemAt b = x)
    (hm : (p, q) ∈ u.entries s pre) (hc : u.childOf q = .nil) (ho : OrdT s u lo hi) :
    OrdT s' (u.graft q .C b) lo hi :=
  (T.child_hole u pre lo hi hnd hm hc).graft_ord hnd hb hst hsb ho (by simp) (by simp)

/-- the same from `q ∈ u.addrs` (no path needed for the order statement) -/
theorem graft_child_ord_of_mem (hnd : u.addrs.Nodup) (hb : b ∉ u.addrs)
    (hst : ∀ a ∈ u.addrs, s'.stemAt a = s.stemAt a)
    (hq : q ∈ u.addrs) (hc : u.childOf q = .nil) (ho : OrdT s u lo hi) :
    OrdT s' (u.graft q .C b) lo hi := by
  obtain ⟨p, hm⟩ := T.addrs_mem_entries (s := s) u [] hq
  exact graft_child_ord (x := s'.stemAt b) (pre := []) hnd hb hst rfl hm hc ho

theorem graft_child_addrs (hnd : u.addrs.Nodup)
    (hm : (p, q) ∈ u.entries s pre) (hc : u.childOf q = .nil) :
    (u.graft q .C b).addrs.Perm (b :: u.addrs) :=
  (T.child_hole u pre none none hnd hm hc).graft_addrs hnd

theorem graft_child_addrs_of_mem (hnd : u.addrs.Nodup) (hq : q ∈ u.addrs) (hc : u.childOf q = .nil) :
    (u.graft q .C b).addrs.Perm (b :: u.addrs) := by
  obtain ⟨p, hm⟩ := T.addrs_mem_entries (s := default) u [] hq
  exact graft_child_addrs hnd hm hc

theorem graft_child_nodup (hnd : u.addrs.Nodup) (hb : b ∉ u.addrs)
    (hq : q ∈ u.addrs) (hc : u.childOf q = .nil) :
    (u.graft q .C b).addrs.Nodup :=
  (graft_child_addrs_of_mem hnd hq hc).nodup_iff.mpr (List.nodup_cons.mpr ⟨hb, hnd⟩)

/-- the map gains exactly the path of `q` extended by the new stem -/
theorem graft_child_entries (hnd : u.addrs.Nodup)
    (hst : ∀ a ∈ u.addrs, s'.stemAt a = s.stemAt a) (hsb : s'.stemAt b = x)
    (hm : (p, q) ∈ u.entries s pre) (hc : u.childOf q = .nil) :
    ((u.graft q .C b).entries s' pre).Perm ((p ++ [x], b) :: u.entries s pre) :=
  (T.child_hole u pre none none hnd hm hc).graft_entries hnd hst hsb

/-- after the graft the child tree of `q` is the new leaf and `b` is a node without child tree at path
    `p ++ [x]`: the hypotheses of the next link of the chain are re-established -/
theorem graft_child_next (hnd : u.addrs.Nodup)
    (hst : ∀ a ∈ u.addrs, s'.stemAt a = s.stemAt a) (hsb : s'.stemAt b = x)
    (hm : (p, q) ∈ u.entries s pre) (hc : u.childOf q = .nil) :
    (p ++ [x], b) ∈ (u.graft q .C b).entries s' pre :=
  (graft_child_entries hnd hst hsb hm hc).symm.subset (by simp)

/-- ... and `b` itself has no child tree in the new tree -/
theorem graft_child_childOf_new (hnd : u.addrs.Nodup) (hb : b ∉ u.addrs)
    (hm : (p, q) ∈ u.entries s pre) (hc : u.childOf q = .nil) :
    (u.graft q .C b).childOf b = .nil :=
  (T.child_hole u pre none none hnd hm hc).childOf_graft_new hnd hb

/-- the same for the node grafted at the fall-off point of the descent -/
theorem descend_childOf_new {stems rest' : List Stem} {pre' : LRU} {sl : Slot}
    (hnd : u.addrs.Nodup) (hb : b ∉ u.addrs)
    (hd : u.descend s stems pre = .fell q sl pre' (x :: rest')) :
    (u.graft q sl b).childOf b = .nil := by
  obtain ⟨_, _, hh, _, _⟩ := T.descend_hole stems u pre none none q sl pre' x rest' hd (by simp) (by simp)
  exact hh.childOf_graft_new hnd hb
end ChildChain

/-! ### context view: a graft below the sibling `a` only replaces the child tree of `a` -/

/-- replace the child subtree of the sibling labelled `a` -/
def T.replaceChildAt : T → Nat → T → T
  | .nil, _, _ => .nil
  | .node d l c r, a, c' =>
    if d = a then .node d l c' r
    else if a ∈ l.sibs then .node d (l.replaceChildAt a c') c r
    else .node d l c (r.replaceChildAt a c')

theorem T.graft_childAt {q b : Nat} {sl : Slot} {a : Nat} : ∀ (u : T), u.addrs.Nodup → a ∈ u.sibs →
    q ∈ (u.childAt a).addrs → u.graft q sl b = u.replaceChildAt a ((u.childAt a).graft q sl b) := by
  intro u
  induction u with
  | nil => intro _ h; simp [T.sibs] at h
  | node d l c r ihl _ ihr =>
    intro hnd ha hq
    obtain ⟨hal, hac, har, ndl, ndc, ndr, dlc, dlr, dcr⟩ := T.nodup_node hnd
    simp only [T.sibs, List.mem_append, List.mem_cons] at ha
    simp only [T.childAt] at hq ⊢
    simp only [T.replaceChildAt]
    by_cases e : d = a
    · rw [if_pos e] at hq ⊢; rw [if_pos e]
      exact T.graft_inC sl l c r (by rintro rfl; exact hac hq) (fun hx => dlc q hx hq) (dcr q hq)
    · rw [if_neg e] at hq ⊢; rw [if_neg e]
      by_cases hl : a ∈ l.sibs
      · rw [if_pos hl] at hq ⊢; rw [if_pos hl]
        have hql := T.childAt_addrs l a q hq
        rw [T.graft_inL sl l c r (by rintro rfl; exact hal hql) (dlc q hql) (dlr q hql), ihl ndl hl hq]
      · rw [if_neg hl] at hq ⊢; rw [if_neg hl]
        have har' : a ∈ r.sibs := by
          rcases ha with h | h | h
          · exact absurd h hl
          · exact absurd h.symm e
          · exact h
        have hqr := T.childAt_addrs r a q hq
        rw [T.graft_inR sl l c r (by rintro rfl; exact har hqr) (fun hx => dlr q hx hqr)
          (fun hx => dcr q hx hqr), ihr ndr har' hq]

#print axioms OrdT.graft_find
#print axioms addrs_graft_find
#print axioms OrdT.graft_descend
#print axioms addrs_graft_descend
#print axioms entries_graft_descend
#print axioms descend_fell_mem
#print axioms descend_fell_suffix
#print axioms graft_child_ord
#print axioms graft_child_addrs
#print axioms graft_child_entries

end Traph

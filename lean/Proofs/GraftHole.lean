import Proofs.Descend
/-! The empty slot at which a graft happens, as an inductive "hole" relation on the ghost tree, and the
    three effects of `T.graft` at a hole: the order invariant survives, exactly one address is added,
    exactly one entry is added to the finite map. `Proofs/GraftSpec.lean` derives the hole from
    `T.find` (one level), from `T.descend` (multi-level) and from an entry with nil child tree. -/
namespace Traph
open State

/-- `Hole s q sl u pre lo hi pre' lo' hi'`: inside the sibling tree `u` (which sits below the stem path
    `pre`, with open bounds `lo`, `hi`) there is a node labelled `q` whose subtree at slot `sl` is `nil`;
    a node put there sits below the stem path `pre'` and must lie strictly between `lo'` and `hi'`. -/
inductive Hole (s : State) (q : Nat) : Slot → T → LRU → Option Stem → Option Stem →
    LRU → Option Stem → Option Stem → Prop where
  | hereL (c r pre lo hi) : Hole s q .L (.node q .nil c r) pre lo hi pre lo (some (s.stemAt q))
  | hereR (l c pre lo hi) : Hole s q .R (.node q l c .nil) pre lo hi pre (some (s.stemAt q)) hi
  | hereC (l r pre lo hi) : Hole s q .C (.node q l .nil r) pre lo hi (pre ++ [s.stemAt q]) none none
  | inL {sl a l pre lo pre' lo' hi'} (c r hi) :
      Hole s q sl l pre lo (some (s.stemAt a)) pre' lo' hi' →
      Hole s q sl (.node a l c r) pre lo hi pre' lo' hi'
  | inR {sl a r pre hi pre' lo' hi'} (l c lo) :
      Hole s q sl r pre (some (s.stemAt a)) hi pre' lo' hi' →
      Hole s q sl (.node a l c r) pre lo hi pre' lo' hi'
  | inC {sl a c pre pre' lo' hi'} (l r lo hi) :
      Hole s q sl c (pre ++ [s.stemAt a]) none none pre' lo' hi' →
      Hole s q sl (.node a l c r) pre lo hi pre' lo' hi'

theorem Hole.mem {s : State} {q sl u pre lo hi pre' lo' hi'}
    (h : Hole s q sl u pre lo hi pre' lo' hi') : q ∈ u.addrs := by
  induction h with
  | hereL | hereR | hereC => simp [T.addrs]
  | inL _ _ _ _ ih => simp [T.addrs, ih]
  | inR _ _ _ _ ih => simp [T.addrs, ih]
  | inC _ _ _ _ _ ih => simp [T.addrs, ih]

/-- the outer bounds of a hole do not matter for its existence (only for the inner bounds) -/
theorem Hole.open_bounds {s : State} {q sl u pre lo hi pre' lo' hi'}
    (h : Hole s q sl u pre lo hi pre' lo' hi') :
    ∀ lo2 hi2, ∃ lo2' hi2', Hole s q sl u pre lo2 hi2 pre' lo2' hi2' := by
  induction h with
  | hereL c r pre lo hi => intro lo2 hi2; exact ⟨_, _, .hereL c r pre lo2 hi2⟩
  | hereR l c pre lo hi => intro lo2 hi2; exact ⟨_, _, .hereR l c pre lo2 hi2⟩
  | hereC l r pre lo hi => intro lo2 hi2; exact ⟨_, _, .hereC l r pre lo2 hi2⟩
  | inL c r hi _ ih => intro lo2 hi2; obtain ⟨_, _, h⟩ := ih lo2 _; exact ⟨_, _, .inL c r hi2 h⟩
  | inR l c lo _ ih => intro lo2 hi2; obtain ⟨_, _, h⟩ := ih _ hi2; exact ⟨_, _, .inR l c lo2 h⟩
  | inC l r lo hi _ ih => intro lo2 hi2; obtain ⟨_, _, h⟩ := ih none none; exact ⟨_, _, .inC l r lo2 hi2 h⟩

/-! ### the shape of a graft at a hole -/

section
variable {q b : Nat}

theorem T.graft_hereL (c r : T) (hc : q ∉ c.addrs) (hr : q ∉ r.addrs) :
    (T.node q .nil c r).graft q .L b = .node q (.node b .nil .nil .nil) c r := by
  simp [T.graft, T.graft_of_not_mem _ _ _ c hc, T.graft_of_not_mem _ _ _ r hr]

theorem T.graft_hereR (l c : T) (hl : q ∉ l.addrs) (hc : q ∉ c.addrs) :
    (T.node q l c .nil).graft q .R b = .node q l c (.node b .nil .nil .nil) := by
  simp [T.graft, T.graft_of_not_mem _ _ _ c hc, T.graft_of_not_mem _ _ _ l hl]

theorem T.graft_hereC (l r : T) (hl : q ∉ l.addrs) (hr : q ∉ r.addrs) :
    (T.node q l .nil r).graft q .C b = .node q l (.node b .nil .nil .nil) r := by
  simp [T.graft, T.graft_of_not_mem _ _ _ l hl, T.graft_of_not_mem _ _ _ r hr]

theorem T.graft_inL {a : Nat} (sl : Slot) (l c r : T) (ha : a ≠ q) (hc : q ∉ c.addrs) (hr : q ∉ r.addrs) :
    (T.node a l c r).graft q sl b = .node a (l.graft q sl b) c r := by
  simp [T.graft, ha, T.graft_of_not_mem _ _ _ c hc, T.graft_of_not_mem _ _ _ r hr]

theorem T.graft_inR {a : Nat} (sl : Slot) (l c r : T) (ha : a ≠ q) (hl : q ∉ l.addrs) (hc : q ∉ c.addrs) :
    (T.node a l c r).graft q sl b = .node a l c (r.graft q sl b) := by
  simp [T.graft, ha, T.graft_of_not_mem _ _ _ c hc, T.graft_of_not_mem _ _ _ l hl]

theorem T.graft_inC {a : Nat} (sl : Slot) (l c r : T) (ha : a ≠ q) (hl : q ∉ l.addrs) (hr : q ∉ r.addrs) :
    (T.node a l c r).graft q sl b = .node a l (c.graft q sl b) r := by
  simp [T.graft, ha, T.graft_of_not_mem _ _ _ l hl, T.graft_of_not_mem _ _ _ r hr]
end

/-- the pieces of `Nodup` of a node -/
theorem T.nodup_node {a : Nat} {l c r : T} (h : (T.node a l c r).addrs.Nodup) :
    a ∉ l.addrs ∧ a ∉ c.addrs ∧ a ∉ r.addrs ∧ l.addrs.Nodup ∧ c.addrs.Nodup ∧ r.addrs.Nodup ∧
    (∀ x ∈ l.addrs, x ∉ c.addrs) ∧ (∀ x ∈ l.addrs, x ∉ r.addrs) ∧ (∀ x ∈ c.addrs, x ∉ r.addrs) := by
  simp only [T.addrs, List.nodup_cons, List.mem_append, not_or, List.nodup_append] at h
  obtain ⟨⟨⟨hal, hac⟩, har⟩, ⟨⟨ndl, ndc, dlc⟩, ndr, dlcr⟩⟩ := h
  exact ⟨hal, hac, har, ndl, ndc, ndr, fun x hx hx' => dlc x hx x hx' rfl,
    fun x hx hx' => dlcr x (Or.inl hx) x hx' rfl, fun x hx hx' => dlcr x (Or.inr hx) x hx' rfl⟩

theorem T.not_mem_node {b a : Nat} {l c r : T} (h : b ∉ (T.node a l c r).addrs) :
    b ≠ a ∧ b ∉ l.addrs ∧ b ∉ c.addrs ∧ b ∉ r.addrs := by
  simp only [T.addrs, List.mem_cons, List.mem_append, not_or] at h
  exact ⟨h.1, h.2.1.1, h.2.1.2, h.2.2⟩

/-- `entries` only looks at the stems of the addresses of the tree -/
theorem T.entries_frame {s s' : State} : ∀ (t : T) (pre : LRU),
    (∀ a ∈ t.addrs, s'.stemAt a = s.stemAt a) → t.entries s' pre = t.entries s pre := by
  intro t
  induction t with
  | nil => intro _ _; rfl
  | node a l c r ihl ihc ihr =>
    intro pre hag
    have ha : s'.stemAt a = s.stemAt a := hag a (by simp [T.addrs])
    simp only [T.entries, ha]
    rw [ihl pre (fun x hx => hag x (by simp [T.addrs, hx])),
        ihc _ (fun x hx => hag x (by simp [T.addrs, hx])),
        ihr pre (fun x hx => hag x (by simp [T.addrs, hx]))]

/-! ### the three effects of a graft at a hole -/

/-- the order invariant survives a graft at a hole whose inner bounds enclose the new stem -/
theorem Hole.graft_ord {s s' : State} {q b : Nat} {x : Stem} {sl u pre lo hi pre' lo' hi'}
    (h : Hole s q sl u pre lo hi pre' lo' hi') :
    u.addrs.Nodup → b ∉ u.addrs → (∀ a ∈ u.addrs, s'.stemAt a = s.stemAt a) → s'.stemAt b = x →
    OrdT s u lo hi →
    (∀ y, lo' = some y → lexLt y x = true) → (∀ y, hi' = some y → lexLt x y = true) →
    OrdT s' (u.graft q sl b) lo hi := by
  have leafOrd : s'.stemAt b = x → ∀ lo' hi', (∀ y, lo' = some y → lexLt y x = true) →
      (∀ y, hi' = some y → lexLt x y = true) → OrdT s' (T.node b .nil .nil .nil) lo' hi' := by
    intro hsb lo' hi' a1 a2
    refine ⟨?_, ?_, trivial, trivial, trivial⟩
    · intro y hy; rw [hsb]; exact a1 y hy
    · intro y hy; rw [hsb]; exact a2 y hy
  induction h with
  | hereL c r pre lo hi =>
    intro hnd hb hst hsb ho hlo hhi
    obtain ⟨_, hqc, hqr, _⟩ := T.nodup_node hnd
    rw [T.graft_hereL c r hqc hqr]
    have hq : s'.stemAt q = s.stemAt q := hst q (by simp [T.addrs])
    obtain ⟨h1, h2, _, or_, oc⟩ := ho
    refine ⟨?_, ?_, ?_, ?_, ?_⟩
    · intro y hy; rw [hq]; exact h1 y hy
    · intro y hy; rw [hq]; exact h2 y hy
    · rw [hq]; exact leafOrd hsb _ _ hlo hhi
    · rw [hq]; exact OrdT.frame _ _ _ or_ (fun y hy => hst y (by simp [T.addrs, hy]))
    · exact OrdT.frame _ _ _ oc (fun y hy => hst y (by simp [T.addrs, hy]))
  | hereR l c pre lo hi =>
    intro hnd hb hst hsb ho hlo hhi
    obtain ⟨hql, hqc, _, _⟩ := T.nodup_node hnd
    rw [T.graft_hereR l c hql hqc]
    have hq : s'.stemAt q = s.stemAt q := hst q (by simp [T.addrs])
    obtain ⟨h1, h2, ol, _, oc⟩ := ho
    refine ⟨?_, ?_, ?_, ?_, ?_⟩
    · intro y hy; rw [hq]; exact h1 y hy
    · intro y hy; rw [hq]; exact h2 y hy
    · rw [hq]; exact OrdT.frame _ _ _ ol (fun y hy => hst y (by simp [T.addrs, hy]))
    · rw [hq]; exact leafOrd hsb _ _ hlo hhi
    · exact OrdT.frame _ _ _ oc (fun y hy => hst y (by simp [T.addrs, hy]))
  | hereC l r pre lo hi =>
    intro hnd hb hst hsb ho hlo hhi
    obtain ⟨hql, _, hqr, _⟩ := T.nodup_node hnd
    rw [T.graft_hereC l r hql hqr]
    have hq : s'.stemAt q = s.stemAt q := hst q (by simp [T.addrs])
    obtain ⟨h1, h2, ol, or_, _⟩ := ho
    refine ⟨?_, ?_, ?_, ?_, ?_⟩
    · intro y hy; rw [hq]; exact h1 y hy
    · intro y hy; rw [hq]; exact h2 y hy
    · rw [hq]; exact OrdT.frame _ _ _ ol (fun y hy => hst y (by simp [T.addrs, hy]))
    · rw [hq]; exact OrdT.frame _ _ _ or_ (fun y hy => hst y (by simp [T.addrs, hy]))
    · exact leafOrd hsb _ _ hlo hhi
  | @inL sl a l pre lo pre' lo' hi' c r hi hl ih =>
    intro hnd hb hst hsb ho hlo hhi
    obtain ⟨hal, _, _, ndl, _, _, dlc, dlr, _⟩ := T.nodup_node hnd
    obtain ⟨_, hbl, _, _⟩ := T.not_mem_node hb
    have hq := hl.mem
    rw [T.graft_inL sl l c r (by rintro rfl; exact hal hq) (dlc q hq) (dlr q hq)]
    have ha : s'.stemAt a = s.stemAt a := hst a (by simp [T.addrs])
    obtain ⟨h1, h2, ol, or_, oc⟩ := ho
    refine ⟨?_, ?_, ?_, ?_, ?_⟩
    · intro y hy; rw [ha]; exact h1 y hy
    · intro y hy; rw [ha]; exact h2 y hy
    · rw [ha]; exact ih ndl hbl (fun y hy => hst y (by simp [T.addrs, hy])) hsb ol hlo hhi
    · rw [ha]; exact OrdT.frame _ _ _ or_ (fun y hy => hst y (by simp [T.addrs, hy]))
    · exact OrdT.frame _ _ _ oc (fun y hy => hst y (by simp [T.addrs, hy]))
  | @inR sl a r pre hi pre' lo' hi' l c lo hr ih =>
    intro hnd hb hst hsb ho hlo hhi
    obtain ⟨_, _, har, _, _, ndr, _, dlr, dcr⟩ := T.nodup_node hnd
    obtain ⟨_, _, _, hbr⟩ := T.not_mem_node hb
    have hq := hr.mem
    rw [T.graft_inR sl l c r (by rintro rfl; exact har hq) (fun hx => dlr q hx hq) (fun hx => dcr q hx hq)]
    have ha : s'.stemAt a = s.stemAt a := hst a (by simp [T.addrs])
    obtain ⟨h1, h2, ol, or_, oc⟩ := ho
    refine ⟨?_, ?_, ?_, ?_, ?_⟩
    · intro y hy; rw [ha]; exact h1 y hy
    · intro y hy; rw [ha]; exact h2 y hy
    · rw [ha]; exact OrdT.frame _ _ _ ol (fun y hy => hst y (by simp [T.addrs, hy]))
    · rw [ha]; exact ih ndr hbr (fun y hy => hst y (by simp [T.addrs, hy])) hsb or_ hlo hhi
    · exact OrdT.frame _ _ _ oc (fun y hy => hst y (by simp [T.addrs, hy]))
  | @inC sl a c pre pre' lo' hi' l r lo hi hc ih =>
    intro hnd hb hst hsb ho hlo hhi
    obtain ⟨_, hac, _, _, ndc, _, dlc, _, dcr⟩ := T.nodup_node hnd
    obtain ⟨_, _, hbc, _⟩ := T.not_mem_node hb
    have hq := hc.mem
    rw [T.graft_inC sl l c r (by rintro rfl; exact hac hq) (fun hx => dlc q hx hq) (dcr q hq)]
    have ha : s'.stemAt a = s.stemAt a := hst a (by simp [T.addrs])
    obtain ⟨h1, h2, ol, or_, oc⟩ := ho
    refine ⟨?_, ?_, ?_, ?_, ?_⟩
    · intro y hy; rw [ha]; exact h1 y hy
    · intro y hy; rw [ha]; exact h2 y hy
    · rw [ha]; exact OrdT.frame _ _ _ ol (fun y hy => hst y (by simp [T.addrs, hy]))
    · rw [ha]; exact OrdT.frame _ _ _ or_ (fun y hy => hst y (by simp [T.addrs, hy]))
    · exact ih ndc hbc (fun y hy => hst y (by simp [T.addrs, hy])) hsb oc hlo hhi

/-- a graft at a hole adds exactly one address -/
theorem Hole.graft_addrs {s : State} {q b : Nat} {sl u pre lo hi pre' lo' hi'}
    (h : Hole s q sl u pre lo hi pre' lo' hi') :
    u.addrs.Nodup → (u.graft q sl b).addrs.Perm (b :: u.addrs) := by
  induction h with
  | hereL c r pre lo hi =>
    intro hnd
    obtain ⟨_, hqc, hqr, _⟩ := T.nodup_node hnd
    rw [T.graft_hereL c r hqc hqr]
    simp only [T.addrs, List.nil_append, List.append_nil, List.cons_append]
    exact List.Perm.swap _ _ _
  | hereR l c pre lo hi =>
    intro hnd
    obtain ⟨hql, hqc, _, _⟩ := T.nodup_node hnd
    rw [T.graft_hereR l c hql hqc]
    simp only [T.addrs, List.append_nil]
    refine (List.Perm.cons q ?_).trans (List.Perm.swap _ _ _)
    exact List.perm_append_singleton _ _
  | hereC l r pre lo hi =>
    intro hnd
    obtain ⟨hql, _, hqr, _⟩ := T.nodup_node hnd
    rw [T.graft_hereC l r hql hqr]
    simp only [T.addrs, List.append_nil]
    refine (List.Perm.cons q ?_).trans (List.Perm.swap _ _ _)
    rw [List.append_assoc]
    exact List.perm_middle
  | @inL sl a l pre lo pre' lo' hi' c r hi hl ih =>
    intro hnd
    obtain ⟨hal, _, _, ndl, _, _, dlc, dlr, _⟩ := T.nodup_node hnd
    have hq := hl.mem
    rw [T.graft_inL sl l c r (by rintro rfl; exact hal hq) (dlc q hq) (dlr q hq)]
    simp only [T.addrs]
    refine (List.Perm.cons a ?_).trans (List.Perm.swap _ _ _)
    exact ((ih ndl).append_right c.addrs).append_right r.addrs
  | @inR sl a r pre hi pre' lo' hi' l c lo hr ih =>
    intro hnd
    obtain ⟨_, _, har, _, _, ndr, _, dlr, dcr⟩ := T.nodup_node hnd
    have hq := hr.mem
    rw [T.graft_inR sl l c r (by rintro rfl; exact har hq) (fun hx => dlr q hx hq) (fun hx => dcr q hx hq)]
    simp only [T.addrs]
    refine (List.Perm.cons a ?_).trans (List.Perm.swap _ _ _)
    exact ((ih ndr).append_left _).trans List.perm_middle
  | @inC sl a c pre pre' lo' hi' l r lo hi hc ih =>
    intro hnd
    obtain ⟨_, hac, _, _, ndc, _, dlc, _, dcr⟩ := T.nodup_node hnd
    have hq := hc.mem
    rw [T.graft_inC sl l c r (by rintro rfl; exact hac hq) (fun hx => dlc q hx hq) (dcr q hq)]
    simp only [T.addrs]
    refine (List.Perm.cons a ?_).trans (List.Perm.swap _ _ _)
    have h1 : (l.addrs ++ (c.graft q sl b).addrs).Perm (b :: (l.addrs ++ c.addrs)) :=
      ((ih ndc).append_left _).trans List.perm_middle
    exact h1.append_right r.addrs

/-- a graft at a hole adds exactly one entry to the finite map, at the path of the hole -/
theorem Hole.graft_entries {s s' : State} {q b : Nat} {x : Stem} {sl u pre lo hi pre' lo' hi'}
    (h : Hole s q sl u pre lo hi pre' lo' hi') :
    u.addrs.Nodup → (∀ a ∈ u.addrs, s'.stemAt a = s.stemAt a) → s'.stemAt b = x →
    ((u.graft q sl b).entries s' pre).Perm ((pre' ++ [x], b) :: u.entries s pre) := by
  induction h with
  | hereL c r pre lo hi =>
    intro hnd hst hsb
    obtain ⟨_, hqc, hqr, _⟩ := T.nodup_node hnd
    rw [T.graft_hereL c r hqc hqr]
    have hq : s'.stemAt q = s.stemAt q := hst q (by simp [T.addrs])
    simp only [T.entries, hq, hsb, List.nil_append, List.append_nil, List.cons_append]
    rw [T.entries_frame c _ (fun y hy => hst y (by simp [T.addrs, hy])),
        T.entries_frame r _ (fun y hy => hst y (by simp [T.addrs, hy]))]
  | hereR l c pre lo hi =>
    intro hnd hst hsb
    obtain ⟨hql, hqc, _, _⟩ := T.nodup_node hnd
    rw [T.graft_hereR l c hql hqc]
    have hq : s'.stemAt q = s.stemAt q := hst q (by simp [T.addrs])
    simp only [T.entries, hq, hsb, List.nil_append, List.append_nil]
    rw [T.entries_frame c _ (fun y hy => hst y (by simp [T.addrs, hy])),
        T.entries_frame l _ (fun y hy => hst y (by simp [T.addrs, hy]))]
    refine List.Perm.trans ?_ List.perm_middle
    refine List.Perm.append_left _ ?_
    refine (List.Perm.cons _ ?_).trans (List.Perm.swap _ _ _)
    exact List.perm_append_singleton _ _
  | hereC l r pre lo hi =>
    intro hnd hst hsb
    obtain ⟨hql, _, hqr, _⟩ := T.nodup_node hnd
    rw [T.graft_hereC l r hql hqr]
    have hq : s'.stemAt q = s.stemAt q := hst q (by simp [T.addrs])
    simp only [T.entries, hq, hsb, List.nil_append, List.append_nil, List.cons_append]
    rw [T.entries_frame r _ (fun y hy => hst y (by simp [T.addrs, hy])),
        T.entries_frame l _ (fun y hy => hst y (by simp [T.addrs, hy]))]
    refine List.Perm.trans ?_ List.perm_middle
    refine List.Perm.append_left _ ?_
    exact List.Perm.swap _ _ _
  | @inL sl a l pre lo pre' lo' hi' c r hi hl ih =>
    intro hnd hst hsb
    obtain ⟨hal, _, _, ndl, _, _, dlc, dlr, _⟩ := T.nodup_node hnd
    have hq := hl.mem
    rw [T.graft_inL sl l c r (by rintro rfl; exact hal hq) (dlc q hq) (dlr q hq)]
    have ha : s'.stemAt a = s.stemAt a := hst a (by simp [T.addrs])
    simp only [T.entries, ha]
    rw [T.entries_frame c _ (fun y hy => hst y (by simp [T.addrs, hy])),
        T.entries_frame r _ (fun y hy => hst y (by simp [T.addrs, hy]))]
    exact (ih ndl (fun y hy => hst y (by simp [T.addrs, hy])) hsb).append_right _
  | @inR sl a r pre hi pre' lo' hi' l c lo hr ih =>
    intro hnd hst hsb
    obtain ⟨_, _, har, _, _, ndr, _, dlr, dcr⟩ := T.nodup_node hnd
    have hq := hr.mem
    rw [T.graft_inR sl l c r (by rintro rfl; exact har hq) (fun hx => dlr q hx hq) (fun hx => dcr q hx hq)]
    have ha : s'.stemAt a = s.stemAt a := hst a (by simp [T.addrs])
    simp only [T.entries, ha]
    rw [T.entries_frame c _ (fun y hy => hst y (by simp [T.addrs, hy])),
        T.entries_frame l _ (fun y hy => hst y (by simp [T.addrs, hy]))]
    refine List.Perm.trans ?_ List.perm_middle
    refine List.Perm.append_left _ ?_
    refine (List.Perm.cons _ ?_).trans (List.Perm.swap _ _ _)
    exact ((ih ndr (fun y hy => hst y (by simp [T.addrs, hy])) hsb).append_left _).trans List.perm_middle
  | @inC sl a c pre pre' lo' hi' l r lo hi hc ih =>
    intro hnd hst hsb
    obtain ⟨_, hac, _, _, ndc, _, dlc, _, dcr⟩ := T.nodup_node hnd
    have hq := hc.mem
    rw [T.graft_inC sl l c r (by rintro rfl; exact hac hq) (fun hx => dlc q hx hq) (dcr q hq)]
    have ha : s'.stemAt a = s.stemAt a := hst a (by simp [T.addrs])
    simp only [T.entries, ha]
    rw [T.entries_frame r _ (fun y hy => hst y (by simp [T.addrs, hy])),
        T.entries_frame l _ (fun y hy => hst y (by simp [T.addrs, hy]))]
    refine List.Perm.trans ?_ List.perm_middle
    refine List.Perm.append_left _ ?_
    refine (List.Perm.cons _ ?_).trans (List.Perm.swap _ _ _)
    exact (ih ndc (fun y hy => hst y (by simp [T.addrs, hy])) hsb).append_right _

end Traph

import Proofs.PagApi
import Proofs.PagLinksApi
import Proofs.PagInsert
/-! C09 / C10 with write requests between two calls.

    A token issued in a state `s` is fed back in a later state `s'` (any history of write requests without
    `clear` in between: insertions of pages and links, but also webentity and rule requests). The call does
    not fail, and the episode continued in `s'` returns exactly: the pages (resp. the links of the pages) of
    the *current* walk of the token's prefix that sort after the token's page, then those of the later
    prefixes. So nothing already delivered is delivered again (everything delivered before lies in an
    earlier prefix or sorts at or before the token's page), nothing lying after the token's page is skipped,
    and what was inserted behind the token's page in the meantime is included. -/
namespace Traph
open State Pag

theorem enumFrom_drop {α : Type} : ∀ (l : List α) (j m : Nat), (enumFrom j l).drop m = enumFrom (j + m) (l.drop m)
  | l, j, 0 => by simp
  | [], j, m + 1 => by simp [enumFrom]
  | a :: l, j, m + 1 => by
    simp only [enumFrom, List.drop_succ_cons]
    rw [enumFrom_drop l (j + 1) m]
    congr 1; omega

theorem enumFrom_eq_cons {α : Type} {l : List α} {j i : Nat} {p : α} {rest : List (Nat × α)}
    (h : enumFrom j l = (i, p) :: rest) : ∃ tl, l = p :: tl ∧ i = j ∧ rest = enumFrom (j + 1) tl := by
  cases l with
  | nil => simp [enumFrom] at h
  | cons a tl =>
    simp only [enumFrom, List.cons.injEq, Prod.mk.injEq] at h
    obtain ⟨⟨rfl, rfl⟩, rfl⟩ := h
    exact ⟨tl, rfl, rfl, rfl⟩

theorem allOk_later {s s' : State} {t t' : T} (h : Shape s t) (hl : Later s t s' t') {ps : List Bytes}
    (hok : AllOk s ps) : AllOk s' ps := by
  apply allOk_of_shape hl.shape hl.wf
  intro p hp
  obtain ⟨n, hn, _⟩ := hok p hp
  rw [lruNode_later h hl hn]; rfl

/-- where a token of `s` leads in a later state `s'`: the prefix `p` it belongs to, the prefixes `tl` behind
    it, and the tail of the walk of `s'` the resumed loop runs over -/
theorem later_tail {s s' : State} {t t' : T} (h : Shape s t) (hw : WfStems s t) (hl : Later s t s' t')
    {ps : List Bytes} (hok : AllOk s ps) (pre : List GX) (x : GX) (post : List GX)
    (hG : gItems s (enumFrom 0 ps) = pre ++ x :: post) :
    ∃ p tl n, ps.drop x.1 = p :: tl ∧ p ∈ ps ∧ (∀ q ∈ tl, q ∈ ps) ∧
      (enumFrom 0 ps).drop x.1 = (x.1, p) :: enumFrom (x.1 + 1) tl ∧
      s'.lruNode (lruIter p) = some n ∧
      s'.weInorder n p (some x.2.2.2) = some ((walkOf s' p).filter (fun y => lexLt x.2.2.1 y.2.1)) ∧
      ∃ pre', gItems s' (enumFrom 0 ps) = pre' ++
        (((walkOf s' p).filter (fun y => lexLt x.2.2.1 y.2.1)).map (fun it => (x.1, it))
          ++ gItems s' (enumFrom (x.1 + 1) tl)) := by
  obtain ⟨p, rest, L0, L1, _, hdrop, hp, hL, _⟩ := gItems_split s ps 0 pre x post hG
  rw [Nat.sub_zero] at hdrop
  have hdrop2 := hdrop
  rw [enumFrom_drop, Nat.zero_add] at hdrop2
  obtain ⟨tl, htl, _, hrest⟩ := enumFrom_eq_cons hdrop2
  subst hrest
  obtain ⟨n, hn, _⟩ := hok p hp
  have hn' := lruNode_later h hl hn
  have hit : x.2 ∈ walkOf s p := by rw [hL]; simp
  have hres := walk_resume_later h hw hl hn hit
  have hok' := allOk_later h hl hok
  obtain ⟨n'', hn'', hw''⟩ := hok' p hp
  refine ⟨p, tl, n, htl, hp, ?_, hdrop, hn', hres, ?_⟩
  · intro q hq
    exact List.mem_of_mem_drop (i := x.1) (by rw [htl]; simp [hq])
  · refine ⟨gItems s' ((enumFrom 0 ps).take x.1) ++
      ((walkOf s' p).filter (fun y => !lexLt x.2.2.1 y.2.1)).map (fun it => (x.1, it)), ?_⟩
    have e1 : enumFrom 0 ps = (enumFrom 0 ps).take x.1 ++ (x.1, p) :: enumFrom (x.1 + 1) tl := by
      rw [← hdrop, List.take_append_drop]
    have e2 := sorted_partition x.2.2.1 (walkOf s' p) hw''.sorted
    conv => lhs; rw [e1, gItems_append, gItems]
    conv => lhs; rw [e2]
    simp only [List.map_append, List.append_assoc]

/-! ### pages -/

/-- C09, writes between two calls: the token of any item `x` of the walk of `s` (in particular every token
    `paginate_webentity_pages` issued in `s`), fed back in a later state `s'`, starts an episode none of whose
    calls fails, returning exactly the pages of `s'` that sort after `x` in the prefix of `x`, in ascending
    order, followed by the pages of the later prefixes -/
theorem C09_resume_after_writes {s s' : State} {t t' : T} (h : Shape s t) (hi : Inv s t)
    (hl : Later s t s' t') {ps : List Bytes} {all : List (Bytes × Bool)}
    (hall : s.webentityPages ps = .ok all) (crawledOnly : Bool) (count : Nat) (hc : 1 ≤ count)
    (pre : List GX) (x : GX) (post : List GX) (hG : gItems s (enumFrom 0 ps) = pre ++ x :: post) :
    ∃ p tl chunks, ps.drop x.1 = p :: tl ∧
      PageEpisode s' ps crawledOnly count (some (buildToken x.1 x.2.2.2)) chunks ∧
      chunks.flatMap (·.pages)
        = ((walkOf s' p).filter (fun y => lexLt x.2.2.1 y.2.1)).flatMap
            (fun it => pgOut s' crawledOnly (it.1, it.2.1))
          ++ tl.flatMap (pagesOfPrefix s' crawledOnly) ∧
      (∀ ch ∈ chunks.dropLast, ch.pages.length = count) := by
  obtain ⟨hps, _⟩ := pages_unpaginated hall crawledOnly
  have hok : AllOk s ps := allOk_of_shape h hi.wf hps
  have hok' := allOk_later h hl hok
  obtain ⟨p, tl, n, htl, hp, htlps, hdrop, hn', hres, hpre'⟩ := later_tail h hi.wf hl hok pre x post hG
  have hpf : PfxOk s' (enumFrom (x.1 + 1) tl) :=
    pfxOk_of_allOk (fun q hq => hok' q (htlps q hq)) (x.1 + 1)
  have hcall : s'.paginatePages ps (some count) (some (buildToken x.1 x.2.2.2)) crawledOnly
      = mkPage (gRun (pageCls s' crawledOnly) count
          (((walkOf s' p).filter (fun y => lexLt x.2.2.1 y.2.1)).map (fun it => (x.1, it))
            ++ gItems s' (enumFrom (x.1 + 1) tl)) {}) := by
    simp only [paginatePages, buildToken_ne_nil, parseToken_buildToken, Option.map, Bool.false_eq_true, if_false]
    rw [hdrop]
    exact pagesPrefixes_resume s' crawledOnly count x.1 p _ {} pinv_init hpf hn' hres
  obtain ⟨chunks, segs, hep, hsegs, hf⟩ := pageEpisode_of_call hok' crawledOnly count hc _ _ hcall hpre'
  have hfields := hf.imp (fun ch seg (ha : PageAnswer s' crawledOnly ch seg) => ha.fields)
  refine ⟨p, tl, chunks, htl, hep, ?_, ?_⟩
  · rw [hfields.flatMap_eq (·.pages) ((pageCls s' crawledOnly).outs) (fun _ _ hr => hr.1),
      ← outs_flatten, hsegs.flatten, pageCls_outs_eq, List.flatMap_append, List.flatMap_map,
      gItems_flatMap s' (fun it => pgOut s' crawledOnly (it.1, it.2.1)) tl (x.1 + 1)]
    rfl
  · intro ch hch
    obtain ⟨seg, hseg, hr⟩ := hfields.dropLast.mem_left ch hch
    rw [hr.2.2.2]; exact hsegs.counts.1 seg hseg

/-- the same for a history of write requests: any well-formed requests without `clear` and without
    `KeyError` answer between the call that issued the token and the call that uses it -/
theorem C09_resume_after_run {s : State} {t : T} (h : Shape s t) (hi : Inv s t) (hlive : Live s)
    (ops : List Op) (hop : ∀ op ∈ ops, ∀ d rs, op ≠ .clear d rs) (hwf : ∀ op ∈ ops, OpWf op)
    (hok : NoKeyErr s ops) {ps : List Bytes} {all : List (Bytes × Bool)}
    (hall : s.webentityPages ps = .ok all) (crawledOnly : Bool) (count : Nat) (hc : 1 ≤ count)
    (pre : List GX) (x : GX) (post : List GX) (hG : gItems s (enumFrom 0 ps) = pre ++ x :: post) :
    ∃ p tl chunks, ps.drop x.1 = p :: tl ∧
      PageEpisode (s.run ops) ps crawledOnly count (some (buildToken x.1 x.2.2.2)) chunks ∧
      chunks.flatMap (·.pages)
        = ((walkOf (s.run ops) p).filter (fun y => lexLt x.2.2.1 y.2.1)).flatMap
            (fun it => pgOut (s.run ops) crawledOnly (it.1, it.2.1))
          ++ tl.flatMap (pagesOfPrefix (s.run ops) crawledOnly) ∧
      (∀ ch ∈ chunks.dropLast, ch.pages.length = count) := by
  obtain ⟨t', hl, _⟩ := later_run h hi hlive ops hop hwf hok
  exact C09_resume_after_writes h hi hl hall crawledOnly count hc pre x post hG

/-! ### page links -/

/-- C10, writes between two calls: the token of any item `x` of the walk of `s` (in particular every token
    `paginate_webentity_pagelinks` issued in `s`), fed back in a later state `s'`, starts an episode none of
    whose calls fails, returning exactly the links of the pages of `s'` that sort after `x` in the prefix of
    `x`, followed by the links of the pages of the later prefixes -/
theorem C10_resume_after_writes {s s' : State} {t t' : T} (h : Shape s t) (hi : Inv s t)
    (hl : Later s t s' t') {weid : Nat} {ps : List Bytes} {incInt incOut : Bool} {all : List PageLink}
    (hall : s.webentityPagelinks weid ps false incInt incOut = .ok all) (count : Nat) (hc : 1 ≤ count)
    (pre : List GX) (x : GX) (post : List GX) (hG : gItems s (enumFrom 0 ps) = pre ++ x :: post) :
    ∃ p tl chunks, ps.drop x.1 = p :: tl ∧
      LinkEpisode s' weid ps incInt incOut count (some (buildToken x.1 x.2.2.2)) chunks ∧
      chunks.flatMap (·.links)
        = ((walkOf s' p).filter (fun y => lexLt x.2.2.1 y.2.1)).flatMap
            (fun it => srcLinks s' weid incInt incOut (it.1, it.2.1))
          ++ tl.flatMap (fun q => (walkOf s' q).flatMap (fun it => srcLinks s' weid incInt incOut (it.1, it.2.1))) ∧
      (∀ ch ∈ chunks.dropLast, ch.sourcePages = count) := by
  obtain ⟨hsw, hps, _⟩ := pagelinks_unpaginated hall
  have hok : AllOk s ps := allOk_of_shape h hi.wf hps
  have hok' := allOk_later h hl hok
  obtain ⟨p, tl, n, htl, hp, htlps, hdrop, hn', hres, hpre'⟩ := later_tail h hi.wf hl hok pre x post hG
  have hpf : PfxOk s' (enumFrom (x.1 + 1) tl) :=
    pfxOk_of_allOk (fun q hq => hok' q (htlps q hq)) (x.1 + 1)
  have hsw' : (!incInt && !incOut) = false := by cases incInt <;> cases incOut <;> simp_all
  have hcall : s'.paginateLinks weid ps incInt incOut (some count) (some (buildToken x.1 x.2.2.2))
      = mkLink (gRun (linkCls s' weid incInt incOut) count
          (((walkOf s' p).filter (fun y => lexLt x.2.2.1 y.2.1)).map (fun it => (x.1, it))
            ++ gItems s' (enumFrom (x.1 + 1) tl)) {}) := by
    simp only [paginateLinks, hsw', Bool.false_eq_true, if_false, buildToken_ne_nil, parseToken_buildToken,
      Option.map]
    rw [hdrop]
    exact linksPrefixes_resume s' weid incInt incOut count x.1 p _ {} hpf hn' hres
  obtain ⟨chunks, segs, hep, hsegs, hf⟩ :=
    linkEpisode_of_call hok' weid incInt incOut hsw count hc _ _ hcall hpre'
  have hfields := hf.imp (fun ch seg (ha : LinkAnswer s' weid incInt incOut ch seg) => ha.fields)
  refine ⟨p, tl, chunks, htl, hep, ?_, ?_⟩
  · rw [hfields.flatMap_eq (·.links) ((linkCls s' weid incInt incOut).outs) (fun _ _ hr => hr.1),
      ← outs_flatten, hsegs.flatten, linkCls_outs_eq, List.flatMap_append, List.flatMap_map,
      gItems_flatMap s' (fun it => srcLinks s' weid incInt incOut (it.1, it.2.1)) tl (x.1 + 1)]
  · intro ch hch
    obtain ⟨seg, hseg, hr⟩ := hfields.dropLast.mem_left ch hch
    rw [hr.2]; exact hsegs.counts.1 seg hseg

theorem C10_resume_after_run {s : State} {t : T} (h : Shape s t) (hi : Inv s t) (hlive : Live s)
    (ops : List Op) (hop : ∀ op ∈ ops, ∀ d rs, op ≠ .clear d rs) (hwf : ∀ op ∈ ops, OpWf op)
    (hok : NoKeyErr s ops) {weid : Nat} {ps : List Bytes} {incInt incOut : Bool} {all : List PageLink}
    (hall : s.webentityPagelinks weid ps false incInt incOut = .ok all) (count : Nat) (hc : 1 ≤ count)
    (pre : List GX) (x : GX) (post : List GX) (hG : gItems s (enumFrom 0 ps) = pre ++ x :: post) :
    ∃ p tl chunks, ps.drop x.1 = p :: tl ∧
      LinkEpisode (s.run ops) weid ps incInt incOut count (some (buildToken x.1 x.2.2.2)) chunks ∧
      chunks.flatMap (·.links)
        = ((walkOf (s.run ops) p).filter (fun y => lexLt x.2.2.1 y.2.1)).flatMap
            (fun it => srcLinks (s.run ops) weid incInt incOut (it.1, it.2.1))
          ++ tl.flatMap (fun q => (walkOf (s.run ops) q).flatMap
              (fun it => srcLinks (s.run ops) weid incInt incOut (it.1, it.2.1))) ∧
      (∀ ch ∈ chunks.dropLast, ch.sourcePages = count) := by
  obtain ⟨t', hl, _⟩ := later_run h hi hlive ops hop hwf hok
  exact C10_resume_after_writes h hi hl hall count hc pre x post hG

/-! ### the model on a concrete index (kernel-checked evaluations)

    Webentity 1 with prefix `x|`, pages `x|1|`, `x|3|`. The first call (one page) returns `x|1|` and a token.
    Then `x|0|` and `x|2|` are inserted. The token, fed back, yields `x|2|` and `x|3|`: the page inserted behind
    the resume point is delivered, the one inserted before it is not, nothing is repeated. -/
section Examples

private def exX : Bytes := [120, 124]
private def exPg (l : List Nat) : Bytes := exX ++ l ++ [124]
private def exS : State :=
  (State.fresh {} .never [] []).1.run [.create [exX], .addPage (exPg [49]) false, .addPage (exPg [51]) false]
private def exS' : State := exS.run [.addPage (exPg [48]) false, .addPage (exPg [50]) true]

example : (exS.paginatePages [exX] (some 1) none false).toOption.map (fun c => (c.pages, c.token))
    = some ([(exPg [49], false)], some [48, 35, 50]) := by decide
example : (episodePages exS' [exX] false 1 3 (some [48, 35, 50])).map (fun cs => cs.map (·.pages))
    = some [[(exPg [50], true)], [(exPg [51], false)]] := by decide
example : (exS'.webentityPages [exX]).toOption.map (fun l => l.map (·.1))
    = some [exPg [49], exPg [48], exPg [51], exPg [50]] := by decide

end Examples

end Traph

section
open Traph
#print axioms C09_resume_after_writes
#print axioms C09_resume_after_run
#print axioms C10_resume_after_writes
#print axioms C10_resume_after_run
end

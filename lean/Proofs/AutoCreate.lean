import Proofs.AutoHist
import Proofs.WeMapOps
/-! C06: the automatic creation inside `__add_page`, in terms of the prefix map.
    * `State.autoDecision` / `State.autoPlan`: the decision ladder of `__add_page`, as a function of the
      state BEFORE the insertion (`addPageCore_plan`): `none` = KeyError, `some none` = nothing to create,
      `some (some K)` = create a webentity for the rule proposal `K`;
    * `addPageCore_eq`: `__add_page` = trie insertion, then that decision;
    * `addPageCore_weMap_*`: what the insertion does to the map and what it reports;
    * `potentialPrefix_plan`: `get_potential_prefix` runs the same ladder on the same data, read-only;
    * `C06_post_no_creation`, `C06_post_creation`: resolution of the page afterwards. -/
namespace Traph
open State Layout

/-! ### the decision ladder -/

/-- what `__add_page` decides from the walk history `h` of the insertion -/
def State.autoDecision (s : State) (lru : Bytes) (h : Hist) : Option (Option Bytes) :=
  match s.longestCandidate lru h with
  | none => none
  | some cand =>
    let covered := match h.wePos with | some p => decide (cand.length ≤ p) | none => false
    if covered then some none
    else if !cand.isEmpty then some (some cand)
    else
      match s.dflt.search lru with
      | none => some none
      | some k => if k.isEmpty then some none else some (some k)

/-- the same decision, computed read-only on the current state -/
def State.autoPlan (s : State) (lru : Bytes) : Option (Option Bytes) :=
  s.autoDecision lru (s.followLru (lruIter lru)).2

theorem addPageCore_eq (s : State) (lru : Bytes) (c : Bool) :
    s.addPageCore lru c =
      (match (s.addPageTrie (lruIter lru) c).1.autoDecision lru (s.addPageTrie (lruIter lru) c).2.2 with
       | none => ((s.addPageTrie (lruIter lru) c).1, (s.addPageTrie (lruIter lru) c).2.1,
                   .error (.other "KeyError"))
       | some none => ((s.addPageTrie (lruIter lru) c).1, (s.addPageTrie (lruIter lru) c).2.1,
                   .ok { pages := if (s.addPageTrie (lruIter lru) c).2.2.created then 1 else 0 })
       | some (some K) =>
          (((s.addPageTrie (lruIter lru) c).1.createWebentityAuto K).1, (s.addPageTrie (lruIter lru) c).2.1,
            .ok (({ pages := if (s.addPageTrie (lruIter lru) c).2.2.created then 1 else 0 } : Report).add
              ((s.addPageTrie (lruIter lru) c).1.createWebentityAuto K).2))) := by
  rcases ht : s.addPageTrie (lruIter lru) c with ⟨s1, n, h⟩
  simp only [addPageCore, ht, State.autoDecision]
  cases s1.longestCandidate lru h with
  | none => rfl
  | some cand =>
    simp only
    have key : ∀ covered : Bool,
        (if covered = true then (s1, n, Except.ok ({ pages := if h.created = true then 1 else 0 } : Report))
         else if (!cand.isEmpty) = true then
           ((s1.createWebentityAuto cand).1, n,
             Except.ok (({ pages := if h.created = true then 1 else 0 } : Report).add (s1.createWebentityAuto cand).2))
         else
           match s1.dflt.search lru with
           | none => (s1, n, Except.ok ({ pages := if h.created = true then 1 else 0 } : Report))
           | some k =>
             if k.isEmpty = true then (s1, n, Except.ok ({ pages := if h.created = true then 1 else 0 } : Report))
             else ((s1.createWebentityAuto k).1, n,
               Except.ok (({ pages := if h.created = true then 1 else 0 } : Report).add (s1.createWebentityAuto k).2))) =
        (match (if covered = true then some none
            else if (!cand.isEmpty) = true then some (some cand)
            else match s1.dflt.search lru with
              | none => some none
              | some k => if k.isEmpty = true then some none else some (some k) : Option (Option Bytes)) with
         | none => (s1, n, Except.error (Err.other "KeyError"))
         | some none => (s1, n, Except.ok ({ pages := if h.created = true then 1 else 0 } : Report))
         | some (some K) => ((s1.createWebentityAuto K).1, n,
             Except.ok (({ pages := if h.created = true then 1 else 0 } : Report).add (s1.createWebentityAuto K).2))) := by
      intro covered
      cases covered with
      | true => rfl
      | false =>
        simp only [Bool.false_eq_true, if_false]
        cases (!cand.isEmpty) with
        | true => rfl
        | false =>
          simp only [Bool.false_eq_true, if_false]
          cases s1.dflt.search lru with
          | none => rfl
          | some k =>
            simp only
            cases k.isEmpty <;> rfl
    cases h.wePos with
    | none => exact key false
    | some p => exact key (decide (cand.length ≤ p))

theorem autoDecision_congr {s s' : State} {h h' : Hist} (lru : Bytes) (hr : RamEq s s')
    (h1 : h'.rules = h.rules) (h2 : h'.wePos = h.wePos) : s'.autoDecision lru h' = s.autoDecision lru h := by
  unfold State.autoDecision State.longestCandidate
  rw [hr.1, hr.2, h1, h2]

/-- the decision of `__add_page` is the plan computed before the insertion -/
theorem addPageCore_plan {s : State} {t : T} (h : Shape s t) (lru : Bytes) (c : Bool) (hne : lruIter lru ≠ []) :
    (s.addPageTrie (lruIter lru) c).1.autoDecision lru (s.addPageTrie (lruIter lru) c).2.2 = s.autoPlan lru := by
  obtain ⟨_, e2, e3⟩ := addPageTrie_hist h (lruIter lru) c hne
  exact autoDecision_congr lru (ramEq_addPageTrie s (lruIter lru) c) e3 e2

/-! ### what the ladder can propose -/

theorem longestCandidate_sep (s : State) (lru : Bytes) (h : Hist) (best : Bytes)
    (hc : s.longestCandidate lru h = some best) : best = [] ∨ sep ∈ best := by
  unfold State.longestCandidate at hc
  revert hc best
  generalize h.rules.reverse = l
  suffices H : ∀ (l : List Nat) (acc : Option Bytes), (∀ b, acc = some b → b = [] ∨ sep ∈ b) →
      ∀ b, l.foldl (fun acc pos =>
        match acc with
        | none => none
        | some best =>
          match dictGet? s.rules (lru.take pos) with
          | none => none
          | some r =>
            match r.search lru with
            | some cand => if !cand.isEmpty && cand.length > best.length then some cand else some best
            | none => some best) acc = some b → b = [] ∨ sep ∈ b by
    intro best hc
    exact H l (some []) (fun b hb => by cases hb; exact Or.inl rfl) best hc
  intro l
  induction l with
  | nil => intro acc hacc b hb; exact hacc b hb
  | cons pos l ih =>
    intro acc hacc b hb
    rw [List.foldl_cons] at hb
    refine ih _ ?_ b hb
    intro b' hb'
    cases acc with
    | none => simp at hb'
    | some best =>
      simp only at hb'
      cases hd : dictGet? s.rules (lru.take pos) with
      | none => rw [hd] at hb'; simp at hb'
      | some r =>
        rw [hd] at hb'
        simp only at hb'
        cases hs : r.search lru with
        | none => rw [hs] at hb'; simp only [Option.some.injEq] at hb'; exact hacc b' (by rw [hb'])
        | some cand =>
          rw [hs] at hb'
          simp only at hb'
          split at hb'
          · rename_i hcond
            simp only [Option.some.injEq] at hb'
            subst hb'
            right
            refine search_sep r lru cand hs ?_
            intro e; rw [e] at hcond; simp at hcond
          · simp only [Option.some.injEq] at hb'; exact hacc b' (by rw [hb'])

/-- a proposal to create is never empty, cuts into stems, and is longer than the existing prefix -/
theorem autoDecision_some_some {s : State} {lru : Bytes} {h : Hist} {K : Bytes}
    (hd : s.autoDecision lru h = some (some K)) :
    sep ∈ K ∧ (h.wePos = none ∨ ∃ p, h.wePos = some p ∧ p < K.length) := by
  unfold State.autoDecision at hd
  cases hc : s.longestCandidate lru h with
  | none => rw [hc] at hd; simp at hd
  | some cand =>
    rw [hc] at hd
    simp only at hd
    have hsep := longestCandidate_sep s lru h cand hc
    -- the tail of the ladder, once the existing prefix does not cover the candidate
    have tail : (if (!cand.isEmpty) = true then some (some cand)
          else match s.dflt.search lru with
            | none => some none
            | some k => if k.isEmpty = true then some none else some (some k)) = some (some K) →
        sep ∈ K ∧ (cand = [] ∨ K = cand) := by
      intro hd
      cases hemp : cand.isEmpty with
      | false =>
        rw [hemp] at hd
        simp only [Bool.not_false, if_true, Option.some.injEq] at hd
        subst hd
        rcases hsep with e | e
        · rw [e] at hemp; simp at hemp
        · exact ⟨e, Or.inr rfl⟩
      | true =>
        have hce : cand = [] := by
          cases cand with
          | nil => rfl
          | cons x xs => simp at hemp
        rw [hemp] at hd
        simp only [Bool.not_true, Bool.false_eq_true, if_false] at hd
        cases hs : s.dflt.search lru with
        | none => rw [hs] at hd; simp at hd
        | some k =>
          rw [hs] at hd
          simp only at hd
          cases hk : k.isEmpty with
          | true => rw [hk] at hd; simp at hd
          | false =>
            rw [hk] at hd
            simp only [Bool.false_eq_true, if_false, Option.some.injEq] at hd
            subst hd
            exact ⟨search_sep _ lru k hs (by intro e; rw [e] at hk; simp at hk), Or.inl hce⟩
    cases hp : h.wePos with
    | none =>
      rw [hp] at hd
      simp only [Bool.false_eq_true, if_false] at hd
      exact ⟨(tail hd).1, Or.inl rfl⟩
    | some p =>
      rw [hp] at hd
      simp only at hd
      by_cases hle : cand.length ≤ p
      · rw [if_pos (by simpa using hle)] at hd; simp at hd
      · rw [if_neg (by simpa using hle)] at hd
        obtain ⟨t1, t2⟩ := tail hd
        refine ⟨t1, Or.inr ⟨p, rfl, ?_⟩⟩
        rcases t2 with e | e
        · rw [e] at hle; simp at hle
        · rw [e]; omega

/-! ### `__add_page` on the prefix map -/

theorem weMap_addPageTrie {s : State} {t : T} (h : Shape s t) (stems : LRU) (c : Bool) :
    (s.addPageTrie stems c).1.weMap = s.weMap := by
  have hw := weMap_addLru h stems false
  have hsh : ∃ t1, Shape (s.addLru stems false).1 t1 := by
    by_cases hne : stems = []
    · subst hne; rw [addLru_nil]; exact ⟨t, h⟩
    · obtain ⟨t1, g, _⟩ := addLru_grow h stems false hne
      exact ⟨t1, g.shape⟩
  obtain ⟨t1, h1⟩ := hsh
  unfold addPageTrie
  rcases ha : s.addLru stems false with ⟨s1, n, hh⟩
  rw [ha] at hw h1
  simp only at hw h1 ⊢
  split
  · (dsimp only; refine Eq.trans (weMap_modCell h1 n _ ?_ ?_) hw <;> intro _ <;> first | rfl | exact ⟨rfl, rfl, rfl, rfl, rfl⟩)
  · split
    · (dsimp only; refine Eq.trans (weMap_modCell h1 n _ ?_ ?_) hw <;> intro _ <;> first | rfl | exact ⟨rfl, rfl, rfl, rfl, rfl⟩)
    · exact hw

theorem Report.add_single_we (k : Nat) (id : Nat) (l : List Bytes) :
    (({ pages := k } : Report).add { we := [(some id, l)] }).we = [(some id, l)] := by
  simp [Report.add, dictSet]

theorem Report.add_empty_we (k : Nat) : (({ pages := k } : Report).add {}).we = [] := by
  simp [Report.add]

/-- KeyError: only the trie insertion happened -/
theorem addPageCore_weMap_error {s : State} {t : T} (h : Shape s t) (lru : Bytes) (c : Bool)
    (hne : lruIter lru ≠ []) (hp : s.autoPlan lru = none) :
    (s.addPageCore lru c).2.2 = .error (.other "KeyError") ∧ (s.addPageCore lru c).1.weMap = s.weMap ∧
    (s.addPageCore lru c).1.hdrId = s.hdrId := by
  rw [addPageCore_eq, addPageCore_plan h lru c hne, hp]
  exact ⟨rfl, weMap_addPageTrie h _ c, hdrId_addPageTrie s _ c⟩

/-- nothing to create: no webentity is reported and the map is unchanged -/
theorem addPageCore_weMap_none {s : State} {t : T} (h : Shape s t) (lru : Bytes) (c : Bool)
    (hne : lruIter lru ≠ []) (hp : s.autoPlan lru = some none) :
    (∃ r, (s.addPageCore lru c).2.2 = .ok r ∧ r.we = []) ∧ (s.addPageCore lru c).1.weMap = s.weMap ∧
    (s.addPageCore lru c).1.hdrId = s.hdrId := by
  rw [addPageCore_eq, addPageCore_plan h lru c hne, hp]
  exact ⟨⟨_, rfl, rfl⟩, weMap_addPageTrie h _ c, hdrId_addPageTrie s _ c⟩

/-- creation of a webentity for `K`: it owns (and reports) the variations of `K` that were free, under
    the next id; if none is free nothing happens -/
theorem addPageCore_weMap_some {s : State} {t : T} (h : Shape s t) (lru : Bytes) (c : Bool)
    (hne : lruIter lru ≠ []) {K : Bytes} (hp : s.autoPlan lru = some (some K)) :
    ((∀ p ∈ lruVariations K, s.weMap (lruIter p) ≠ 0) →
      (∃ r, (s.addPageCore lru c).2.2 = .ok r ∧ r.we = []) ∧ (s.addPageCore lru c).1.weMap = s.weMap ∧
      (s.addPageCore lru c).1.hdrId = s.hdrId) ∧
    ((∃ p ∈ lruVariations K, s.weMap (lruIter p) = 0) →
      (∃ r, (s.addPageCore lru c).2.2 = .ok r ∧
        r.we = [(some (s.hdrId + 1), freeOf s.weMap (lruVariations K))]) ∧
      (s.addPageCore lru c).1.weMap = mapAttach s.weMap ((lruVariations K).map lruIter) (s.hdrId + 1) ∧
      (s.addPageCore lru c).1.hdrId = s.hdrId + 1) := by
  have hsep := (autoDecision_some_some hp).1
  obtain ⟨t1, x1, _⟩ := addPageTrie_step h (lruIter lru) c (lruIter_wf lru)
  have hw := weMap_addPageTrie h (lruIter lru) c
  have hid := hdrId_addPageTrie s (lruIter lru) c
  obtain ⟨_, a1, a2⟩ := createWebentityAuto_spec x1.shape K (lruVariations_ne_nil K hsep)
  rw [hw, hid] at a1 a2
  rw [addPageCore_eq, addPageCore_plan h lru c hne, hp]
  simp only
  constructor
  · intro hall
    obtain ⟨b1, b2, b3⟩ := a1 hall
    refine ⟨⟨_, rfl, ?_⟩, b2, b3⟩
    rw [b1]; exact Report.add_empty_we _
  · intro hex
    obtain ⟨b1, b2, b3⟩ := a2 hex
    refine ⟨⟨_, rfl, ?_⟩, b2, b3⟩
    rw [b1]; exact Report.add_single_we _ _ _

theorem shape_addPageCore {s : State} {t : T} (h : Shape s t) (lru : Bytes) (c : Bool) :
    ∃ t', Shape (s.addPageCore lru c).1 t' := by
  obtain ⟨t', x, _⟩ := addPageCore_step h lru c
  exact ⟨t', x.shape⟩

/-! ### `get_potential_prefix` -/

/-- `get_potential_prefix` runs the ladder of `__add_page` on the same data without writing -/
theorem potentialPrefix_plan (s : State) (lru : Bytes) :
    s.potentialPrefix lru =
      (match s.autoPlan lru with
       | none => .error (.other "KeyError")
       | some (some K) => .ok (some K)
       | some none =>
         match (s.followLru (lruIter lru)).2.wePos with
         | some p => .ok (some (lru.take p))
         | none => .ok none) := by
  unfold State.potentialPrefix State.autoPlan State.autoDecision
  rcases s.followLru (lruIter lru) with ⟨n, h⟩
  simp only
  cases s.longestCandidate lru h with
  | none => rfl
  | some cand =>
    simp only
    cases hp : h.wePos with
    | some p =>
      simp only
      by_cases hle : cand.length ≤ p
      · simp [hle]
      · have hne : cand.isEmpty = false := by
          cases cand with
          | nil => simp at hle
          | cons x xs => rfl
        simp [hle, hne]
    | none =>
      simp only
      by_cases hemp : cand.isEmpty = true
      · simp only [hemp, Bool.not_true, Bool.false_eq_true, if_false]
        cases s.dflt.search lru with
        | none => rfl
        | some k =>
          simp only
          split <;> rfl
      · have : cand.isEmpty = false := by simpa using hemp
        simp [this]

/-! ### resolution depends on the map only -/

theorem retrieveWebentity_congr {s s' : State} {t t' : T} (h : Shape s t) (h' : Shape s' t')
    (e : s'.weMap = s.weMap) (q : Bytes) : s'.retrieveWebentity q = s.retrieveWebentity q := by
  cases hr : s.retrieveWebentity q with
  | ok w =>
    have := (retrieveWebentity_ok_iff h q w).mp hr
    rw [← e] at this
    exact (retrieveWebentity_ok_iff h' q w).mpr this
  | error er =>
    have := (retrieveWebentity_error_iff h q er).mp hr
    rw [← e] at this
    exact (retrieveWebentity_error_iff h' q er).mpr this

theorem retrievePrefix_congr {s s' : State} {t t' : T} (h : Shape s t) (h' : Shape s' t')
    (e : s'.weMap = s.weMap) (q : Bytes) : s'.retrievePrefix q = s.retrievePrefix q := by
  cases hr : s.retrievePrefix q with
  | ok w =>
    have := (retrievePrefix_ok_iff h q w).mp hr
    rw [← e] at this
    exact (retrievePrefix_ok_iff h' q w).mpr this
  | error er =>
    have := (retrievePrefix_error_iff h q er).mp hr
    rw [← e] at this
    exact (retrievePrefix_error_iff h' q er).mpr this

/-! ### C06: resolution of the page after its insertion -/

/-- K ≤ E (or no proposal at all): nothing is created or reported, and the page resolves as before -/
theorem C06_post_no_creation {s : State} {t : T} (h : Shape s t) (lru : Bytes) (c : Bool)
    (hne : lruIter lru ≠ []) (hp : s.autoPlan lru = some none) :
    (∃ r, (s.addPageCore lru c).2.2 = .ok r ∧ r.we = []) ∧
    (s.addPageCore lru c).1.weMap = s.weMap ∧
    (s.addPageCore lru c).1.retrievePrefix lru = s.retrievePrefix lru ∧
    (s.addPageCore lru c).1.retrieveWebentity lru = s.retrieveWebentity lru := by
  obtain ⟨a1, a2, _⟩ := addPageCore_weMap_none h lru c hne hp
  obtain ⟨t', h'⟩ := shape_addPageCore h lru c
  exact ⟨a1, a2, retrievePrefix_congr h h' a2 lru, retrieveWebentity_congr h h' a2 lru⟩

theorem flatten_take_mono (stems : LRU) {k k' : Nat} (hk : k ≤ k') :
    (stems.take k).flatten.length ≤ (stems.take k').flatten.length := by
  have : stems.take k = (stems.take k').take k := by rw [List.take_take, Nat.min_eq_left hk]
  rw [this]
  have e : (stems.take k').flatten = ((stems.take k').take k).flatten ++ ((stems.take k').drop k).flatten := by
    rw [← List.flatten_append, List.take_append_drop]
  rw [e, List.length_append]; omega

theorem mem_lruVariations_self (b : Bytes) : b ∈ lruVariations b := by
  unfold lruVariations
  split
  · simp
  · simp only
    cases httpsVariation b <;> simp only <;> repeat' split
    all_goals simp

/-- the proposal `K` of a creating insertion is free in the map before: every stem-prefix of the LRU
    longer than the existing prefix E is -/
theorem plan_free {s : State} {t : T} (h : Shape s t) (lru : Bytes) (hne : lruIter lru ≠ []) {K : Bytes}
    (hp : s.autoPlan lru = some (some K)) {k : Nat} (hk0 : 0 < k) (_hkl : k ≤ (lruIter lru).length)
    (hK : K = ((lruIter lru).take k).flatten) :
    ∀ j, k ≤ j → j ≤ (lruIter lru).length → s.weMap ((lruIter lru).take j) = 0 := by
  obtain ⟨_, hpos⟩ := autoDecision_some_some hp
  intro j hj hjl
  rcases longest_or_none s.weMap (lruIter lru) with hn | ⟨kE, hl⟩
  · exact hn j (by omega) hjl
  · have hf := (followLru_longest h _ hne hl).2
    rcases hpos with e | ⟨p, e, hlt⟩
    · rw [hf] at e; cases e
    · rw [hf] at e
      simp only [Option.some.injEq] at e
      have hlt' : kE < k := by
        by_cases hge : k ≤ kE
        · have := flatten_take_mono (lruIter lru) hge
          rw [← hK, e] at this; omega
        · omega
      exact hl.2.2.2 j (by omega) hjl

/-- K > E, K a stem-prefix of the LRU: a webentity with the next id is created and reported; it owns `K`
    and every variation of `K` that was free; the page now resolves to that webentity, and its prefix is
    `K` unless a variation of `K` is itself a longer stem-prefix of the page's LRU -/
theorem C06_post_creation {s : State} {t : T} (h : Shape s t) (lru : Bytes) (c : Bool)
    (hne : lruIter lru ≠ []) {K : Bytes} (hp : s.autoPlan lru = some (some K))
    {k : Nat} (hk0 : 0 < k) (hkl : k ≤ (lruIter lru).length) (hK : K = ((lruIter lru).take k).flatten) :
    (∃ r, (s.addPageCore lru c).2.2 = .ok r ∧
      r.we = [(some (s.hdrId + 1), freeOf s.weMap (lruVariations K))]) ∧
    K ∈ freeOf s.weMap (lruVariations K) ∧
    (∀ p, p ∈ freeOf s.weMap (lruVariations K) ↔ p ∈ lruVariations K ∧ s.weMap (lruIter p) = 0) ∧
    (s.addPageCore lru c).1.weMap = mapAttach s.weMap ((lruVariations K).map lruIter) (s.hdrId + 1) ∧
    (s.addPageCore lru c).1.retrieveWebentity lru = .ok (s.hdrId + 1) ∧
    ((∀ v ∈ lruVariations K, ∀ j, k < j → j ≤ (lruIter lru).length → lruIter v ≠ (lruIter lru).take j) →
      (s.addPageCore lru c).1.retrievePrefix lru = .ok K) := by
  have hfree := plan_free h lru hne hp hk0 hkl hK
  have hwfK : ∀ x ∈ (lruIter lru).take k, StemWf x := fun x hx => lruIter_wf lru x (List.mem_of_mem_take hx)
  have hiK : lruIter K = (lruIter lru).take k := by rw [hK]; exact lruIter_flatten _ hwfK
  have hKfree : s.weMap (lruIter K) = 0 := by rw [hiK]; exact hfree k (Nat.le_refl _) hkl
  have hKmem := mem_lruVariations_self K
  obtain ⟨_, a2⟩ := addPageCore_weMap_some h lru c hne hp
  obtain ⟨a1, aw, _⟩ := a2 ⟨K, hKmem, hKfree⟩
  obtain ⟨t', h'⟩ := shape_addPageCore h lru c
  refine ⟨a1, (mem_freeOf _ _ _).mpr ⟨hKmem, hKfree⟩, fun p => mem_freeOf _ _ _, aw, ?_, ?_⟩
  · -- the longest attached stem-prefix afterwards is at least `k` long and carries the new id
    have hM' : ∀ j, k ≤ j → j ≤ (lruIter lru).length →
        (s.addPageCore lru c).1.weMap ((lruIter lru).take j) = 0 ∨
        (s.addPageCore lru c).1.weMap ((lruIter lru).take j) = s.hdrId + 1 := by
      intro j hj hjl
      rw [aw]
      unfold mapAttach
      split
      · exact Or.inr rfl
      · exact Or.inl (hfree j hj hjl)
    have hMk : (s.addPageCore lru c).1.weMap ((lruIter lru).take k) = s.hdrId + 1 := by
      rw [aw]; unfold mapAttach
      rw [if_pos ⟨List.mem_map.mpr ⟨K, hKmem, hiK⟩, by rw [← hiK]; exact hKfree⟩]
    rcases longest_or_none (s.addPageCore lru c).1.weMap (lruIter lru) with hn | ⟨k', hl⟩
    · have := hn k hk0 hkl
      rw [hMk] at this; omega
    · have hge : k ≤ k' := by
        by_cases hlt : k' < k
        · have := hl.2.2.2 k hlt hkl
          rw [hMk] at this; omega
        · omega
      apply (retrieveWebentity_ok_iff h' lru _).mpr
      refine ⟨k', hl, ?_⟩
      rcases hM' k' hge hl.2.1 with e | e
      · exact absurd e hl.2.2.1
      · exact e.symm
  · intro hvar
    apply (retrievePrefix_ok_iff h' lru K).mpr
    refine ⟨k, ⟨hk0, hkl, ?_, ?_⟩, hK⟩
    · rw [aw]; unfold mapAttach
      rw [if_pos ⟨List.mem_map.mpr ⟨K, hKmem, hiK⟩, by rw [← hiK]; exact hKfree⟩]
      omega
    · intro j hj hjl
      rw [aw]; unfold mapAttach
      rw [if_neg]
      · exact hfree j (by omega) hjl
      · rintro ⟨hm, _⟩
        obtain ⟨v, hv, e⟩ := List.mem_map.mp hm
        exact hvar v hv j hj hjl e

/-- the ladder in terms of E (the existing prefix of the LRU, `retrieve_prefix`) and the longest rule
    proposal `cand`: with E present, a creation is planned iff `cand` is strictly longer than E; with E
    absent, `cand` is taken if there is one and the default rule is consulted only otherwise -/
theorem autoPlan_cases {s : State} {t : T} (h : Shape s t) (lru : Bytes) (hne : lruIter lru ≠ []) (cand : Bytes)
    (hc : s.longestCandidate lru (s.followLru (lruIter lru)).2 = some cand) :
    (∀ E, s.retrievePrefix lru = .ok E →
      (cand.length ≤ E.length → s.autoPlan lru = some none) ∧
      (E.length < cand.length → s.autoPlan lru = some (some cand))) ∧
    (∀ e, s.retrievePrefix lru = .error e →
      (cand ≠ [] → s.autoPlan lru = some (some cand)) ∧
      (cand = [] → s.autoPlan lru =
        match s.dflt.search lru with
        | none => some none
        | some k => if k.isEmpty then some none else some (some k))) := by
  unfold State.autoPlan State.autoDecision
  rw [hc]
  simp only
  rcases longest_or_none s.weMap (lruIter lru) with hn | ⟨k, hl⟩
  · rw [(followLru_none h _ hne hn).2]
    refine ⟨fun E hE => ?_, fun e _ => ⟨fun hcn => ?_, fun hcn => ?_⟩⟩
    · obtain ⟨k, hl, _⟩ := (retrievePrefix_ok_iff h lru E).mp hE
      exact absurd hn hl.not_none
    · have : cand.isEmpty = false := by
        cases cand with
        | nil => exact absurd rfl hcn
        | cons x xs => rfl
      simp [this]
    · subst hcn; rfl
  · rw [(followLru_longest h _ hne hl).2]
    have hE := (retrievePrefix_ok_iff h lru _).mpr ⟨k, hl, rfl⟩
    refine ⟨fun E hE' => ?_, fun e he => by rw [hE] at he; cases he⟩
    rw [hE] at hE'
    simp only [Except.ok.injEq] at hE'
    subst hE'
    constructor
    · intro hle
      rw [if_pos (decide_eq_true hle)]
    · intro hlt
      have hnl : ¬ cand.length ≤ ((lruIter lru).take k).flatten.length := by omega
      have : cand.isEmpty = false := by
        cases cand with
        | nil => simp at hlt
        | cons x xs => rfl
      rw [if_neg (by rw [decide_eq_true_eq]; exact hnl)]
      simp only [this, Bool.not_false, if_true]

/-- `get_potential_prefix` on the state before the insertion: the rule proposal when a webentity would be
    created, else the existing prefix (`False` when there is neither) -/
theorem C06_potential {s : State} {t : T} (h : Shape s t) (lru : Bytes) (hne : lruIter lru ≠ []) :
    (∀ K, s.autoPlan lru = some (some K) → s.potentialPrefix lru = .ok (some K)) ∧
    (s.autoPlan lru = some none →
      (∀ E, s.retrievePrefix lru = .ok E → s.potentialPrefix lru = .ok (some E)) ∧
      (∀ e, s.retrievePrefix lru = .error e → s.potentialPrefix lru = .ok none)) ∧
    (s.autoPlan lru = none → s.potentialPrefix lru = .error (.other "KeyError")) := by
  refine ⟨fun K hp => by rw [potentialPrefix_plan, hp], fun hp => ?_, fun hp => by rw [potentialPrefix_plan, hp]⟩
  rw [potentialPrefix_plan, hp]
  simp only
  rcases longest_or_none s.weMap (lruIter lru) with hn | ⟨k, hl⟩
  · rw [(followLru_none h _ hne hn).2]
    refine ⟨fun E hE => ?_, fun _ _ => rfl⟩
    obtain ⟨k, hl, _⟩ := (retrievePrefix_ok_iff h lru E).mp hE
    exact absurd hn hl.not_none
  · rw [(followLru_longest h _ hne hl).2]
    have hE := (retrievePrefix_ok_iff h lru _).mpr ⟨k, hl, rfl⟩
    refine ⟨fun E hE' => ?_, fun e he => ?_⟩
    · rw [hE] at hE'
      simp only [Except.ok.injEq] at hE'
      dsimp only
      rw [← hE', take_flatten_take]
    · rw [hE] at he; cases he

end Traph

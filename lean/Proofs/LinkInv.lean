import Proofs.PageSet
import Proofs.Windup
import Proofs.SizesLinks
/-! Invariants of reachable states needed by the link queries (C08):

    * `li_shape_unique`: the ghost tree is determined by the heap (`Shape s t → Shape s t' → t = t'`);
    * `LkInv s B`: there is a ghost tree with the shape invariant, the parent invariant `ParOk` (so that the
      bottom-up reconstructions `windup_lru` / `windup_lru_for_webentity` agree with the finite map), and such
      that the target of every stub of the link store (the header slot excepted) is the node of a stored path
      that is flagged as a page (`PageEntry`). `B` is an auxiliary list of blocks known to be such nodes (the
      page cache of `add_links` / `index_batch_crawl` while they run);
    * every write request preserves `LkInv s []` (`li_step`), hence it holds in every state reached from a
      fresh index by well-formed requests (`li_run`, `li_reachable`). -/
namespace Traph
open State

/-! ### the ghost tree is unique -/

theorem li_rep_unique {s : State} : ∀ (t t' : T), Rep s t → Rep s t' → t.root = t'.root → t = t'
  | .nil, .nil, _, _, _ => rfl
  | .nil, .node a l c r, _, h', e => absurd e.symm h'.1
  | .node a l c r, .nil, h, _, e => absurd e h.1
  | .node a l c r, .node a' l' c' r', h, h', e => by
    simp only [T.root_node] at e
    subst e
    obtain ⟨_, ⟨cell, hc, h1, h2, h3⟩, rl, rc, rr⟩ := h
    obtain ⟨_, ⟨cell', hc', h1', h2', h3'⟩, rl', rc', rr'⟩ := h'
    rw [hc] at hc'
    cases hc'
    rw [li_rep_unique l l' rl rl' (h1.symm.trans h1'), li_rep_unique c c' rc rc' (h2.symm.trans h2'),
      li_rep_unique r r' rr rr' (h3.symm.trans h3')]

theorem li_shape_unique {s : State} {t t' : T} (h : Shape s t) (h' : Shape s t') : t = t' :=
  li_rep_unique t t' h.rep h'.rep (by rw [h.root, h'.root])

/-! ### the invariant -/

/-- block `n` is the node of a stored path and is flagged as a page -/
def PageEntry (s : State) (t : T) (n : Nat) : Prop :=
  ∃ p, (p, n) ∈ t.entries s [] ∧ (s.cell n).flags.page = true

structure LkOk (s : State) (t : T) (B : List Nat) : Prop where
  par : ParOk s t 0
  tgt : ∀ i st, 0 < i → s.links[i]? = some st → PageEntry s t st.target
  known : ∀ n ∈ B, PageEntry s t n

def LkInv (s : State) (B : List Nat) : Prop := ∃ t, Shape s t ∧ LkOk s t B

theorem LkOk.mono {s : State} {t : T} {B B' : List Nat} (h : LkOk s t B) (hsub : ∀ n ∈ B', n ∈ B) : LkOk s t B' :=
  ⟨h.par, h.tgt, fun n hn => h.known n (hsub n hn)⟩

theorem LkInv.mono {s : State} {B B' : List Nat} (h : LkInv s B) (hsub : ∀ n ∈ B', n ∈ B) : LkInv s B' := by
  obtain ⟨t, hs, hk⟩ := h
  exact ⟨t, hs, hk.mono hsub⟩

theorem LkOk.cons {s : State} {t : T} {B : List Nat} (h : LkOk s t B) {n : Nat} (hn : PageEntry s t n) :
    LkOk s t (n :: B) :=
  ⟨h.par, h.tgt, fun m hm => by
    rcases List.mem_cons.mp hm with rfl | hm
    · exact hn
    · exact h.known m hm⟩

theorem LkInv.fst_of_eq {α : Type} {B : List Nat} {p q : State × α} (h : LkInv p.1 B) (e : p = q) : LkInv q.1 B :=
  e ▸ h

/-- generic transfer: a step of the heap that keeps the finite map, the page marks and the link store -/
theorem LkOk.transfer {s s' : State} {t t' : T} {B : List Nat} (hs : Shape s t) (hk : LkOk s t B)
    (hp' : ParOk s' t' 0)
    (keep : ∀ p b, (p, b) ∈ t.entries s [] → (p, b) ∈ t'.entries s' [])
    (page : ∀ b, b < s.trie.size → (s.cell b).flags.page = true → (s'.cell b).flags.page = true)
    (links : s'.links = s.links) : LkOk s' t' B := by
  have mono : ∀ n, PageEntry s t n → PageEntry s' t' n := by
    rintro n ⟨p, hm, hpg⟩
    exact ⟨p, keep p n hm, page n (entry_lt hs hm) hpg⟩
  refine ⟨hp', fun i st hi hst => ?_, fun n hn => mono n (hk.known n hn)⟩
  rw [links] at hst
  exact mono _ (hk.tgt i st hi hst)

theorem li_init (s : State) (ht : s.trie = #[{}]) (hl : s.links = #[{}]) : LkInv s [] := by
  refine ⟨.nil, shape_of_trie_init s ht, parOk_nil s, fun i st hi hst => ?_, fun n hn => by simp at hn⟩
  rw [hl] at hst
  have := (Array.getElem?_eq_some_iff.mp hst).1
  simp at this
  omega

theorem LkInv.of_trie_eq {s s' : State} {B : List Nat} (h : LkInv s B) (e : s'.trie = s.trie)
    (el : s'.links = s.links) : LkInv s' B := by
  obtain ⟨t, hs, hk⟩ := h
  have ns : NoStruct s s' := noStruct_of_trie_eq e
  have hc : ∀ b, s'.cell b = s.cell b := fun b => by unfold State.cell; rw [e]
  refine ⟨t, ns.shape hs, hk.transfer hs (hk.par.of_parent_eq (fun a => by rw [hc])) ?_ ?_ el⟩
  · intro p b hm; rw [ns.entries]; exact hm
  · intro b _ hb; rw [hc]; exact hb

/-- a block rewrite that touches neither pointers, stem, parent, nor clears the page mark -/
theorem LkInv.modCell {s : State} {B : List Nat} (h : LkInv s B) (i : Nat) (f : Cell → Cell)
    (hf : ∀ c, (f c).left = c.left ∧ (f c).right = c.right ∧ (f c).child = c.child ∧
      (f c).chunk = c.chunk ∧ (f c).flags.hasTail = c.flags.hasTail)
    (hpar : ∀ c, (f c).parent = c.parent) (hpg : ∀ c, c.flags.page = true → (f c).flags.page = true) :
    LkInv (s.modCell i f) B := by
  obtain ⟨t, hs, hk⟩ := h
  have ns := noStruct_modCell s i f hf
  refine ⟨t, ns.shape hs, hk.transfer hs (hk.par.modCell i f hpar) ?_ ?_ (links_modCell s i f)⟩
  · intro p b hm; rw [ns.entries]; exact hm
  · intro b _ hb
    rw [cell_modCell]; split
    · exact hpg _ hb
    · exact hb

theorem li_setFlag {s : State} {B : List Nat} (h : LkInv s B) (n : Nat) (g : Flags → Flags)
    (hg : ∀ fl, (g fl).hasTail = fl.hasTail ∧ (fl.page = true → (g fl).page = true)) :
    LkInv (s.modCell n (fun c => { c with flags := g c.flags })) B :=
  h.modCell n _ (fun c => ⟨rfl, rfl, rfl, rfl, (hg c.flags).1⟩) (fun _ => rfl) (fun c => (hg c.flags).2)

theorem li_setWe {s : State} {B : List Nat} (h : LkInv s B) (n w : Nat) :
    LkInv (s.modCell n (fun c => { c with we := w })) B :=
  h.modCell n _ (fun _ => ⟨rfl, rfl, rfl, rfl, rfl⟩) (fun _ => rfl) (fun _ hp => hp)

/-- `add_lru`: the invariant is kept, and the returned block is the node of the inserted path -/
theorem li_addLru {s : State} {B : List Nat} (h : LkInv s B) (stems : LRU) (flag : Bool) :
    ∃ t', Shape (s.addLru stems flag).1 t' ∧ LkOk (s.addLru stems flag).1 t' B ∧
      (stems ≠ [] → (stems, (s.addLru stems flag).2.1) ∈ t'.entries (s.addLru stems flag).1 []) := by
  obtain ⟨t, hs, hk⟩ := h
  cases stems with
  | nil =>
    rw [addLru_nil]
    exact ⟨t, hs, hk, fun hne => absurd rfl hne⟩
  | cons x r =>
    obtain ⟨t', gr, hp', hent⟩ := addLru_parOk hs hk.par (x :: r) (by simp) flag
    have hle := (addLru_le s (x :: r) flag hs.live (by simp)).1
    refine ⟨t', gr.shape, hk.transfer hs hp' gr.keep ?_ (links_addLru s _ flag), fun _ => hent⟩
    intro b hb hpg
    exact (hle.page_persists b hb hpg).1

theorem li_addLru' {s : State} {B : List Nat} (h : LkInv s B) (stems : LRU) (flag : Bool) :
    LkInv (s.addLru stems flag).1 B := by
  obtain ⟨t', hs', hk', _⟩ := li_addLru h stems flag
  exact ⟨t', hs', hk'⟩

/-- appending a stub whose target is a known page node -/
theorem li_appendStub {s : State} {B : List Nat} (h : LkInv s B) (b : Stub) (hb : b.target ∈ B) :
    LkInv (s.appendStub b).1 B := by
  obtain ⟨t, hs, hk⟩ := h
  have e : (s.appendStub b).1.trie = s.trie := rfl
  have ns : NoStruct s (s.appendStub b).1 := noStruct_of_trie_eq e
  have hc : ∀ j, (s.appendStub b).1.cell j = s.cell j := fun j => by unfold State.cell; rw [e]
  have mono : ∀ n, PageEntry s t n → PageEntry (s.appendStub b).1 t n := by
    rintro n ⟨p, hm, hpg⟩
    exact ⟨p, by rw [ns.entries]; exact hm, by rw [hc]; exact hpg⟩
  refine ⟨t, ns.shape hs, hk.par.of_parent_eq (fun a => by rw [hc]), fun i st hi hst => ?_,
    fun n hn => mono n (hk.known n hn)⟩
  rw [links_appendStub, Array.getElem?_push] at hst
  split at hst
  · cases hst
    exact mono _ (hk.known _ hb)
  · exact mono _ (hk.tgt i st hi hst)


/-! ### webentity layer -/

theorem li_genId {s : State} {B : List Nat} (h : LkInv s B) : LkInv s.genId.1 B := h.of_trie_eq rfl rfl

theorem li_foldl_setWe (w : Nat) {B : List Nat} : ∀ (l : List (Bytes × Nat)) (s : State), LkInv s B →
    LkInv (l.foldl (fun st pn => st.modCell pn.2 (fun c => { c with we := w })) s) B
  | [], _, h => h
  | pn :: l, s, h => by
    simp only [List.foldl_cons]
    exact li_foldl_setWe w l _ (li_setWe h pn.2 w)

theorem li_addPrefixesScan {B : List Nat} : ∀ (ps : List Bytes) (s : State) (valid : List (Bytes × Nat)) (k : Nat),
    LkInv s B → LkInv (s.addPrefixesScan ps valid k).1 B
  | [], _, _, _, h => h
  | p :: ps, s, valid, k, h => by
    have h1 := li_addLru' h (lruIter p) true
    rcases ha : s.addLru (lruIter p) true with ⟨s1, n, hh⟩
    rw [ha] at h1
    simp only at h1
    simp only [addPrefixesScan, ha]
    split
    · exact li_addPrefixesScan ps s1 _ _ h1
    · exact li_addPrefixesScan ps s1 _ _ h1

theorem li_addPrefixes {s : State} {B : List Nat} (h : LkInv s B) (prefixes : List Bytes) (best : Bool) :
    LkInv (s.addPrefixes prefixes best).1 B := by
  have h1 := li_addPrefixesScan prefixes s [] 0 h
  rcases ha : s.addPrefixesScan prefixes [] 0 with ⟨s1, valid, nInv⟩
  rw [ha] at h1
  simp only at h1
  simp only [addPrefixes, ha]
  split
  · exact h1
  · split
    · exact h1
    · exact li_foldl_setWe _ valid _ (li_genId h1)

theorem li_createWebentity {s : State} {B : List Nat} (h : LkInv s B) (prefixes : List Bytes) :
    LkInv (s.createWebentity prefixes).1 B := by
  have h1 := li_addPrefixes h prefixes false
  unfold createWebentity
  split <;> rename_i heq <;> rw [heq] at h1 <;> exact h1

theorem li_createWebentityAuto {s : State} {B : List Nat} (h : LkInv s B) (pfx : Bytes) :
    LkInv (s.createWebentityAuto pfx).1 B := by
  have h1 := li_addPrefixes h (lruVariations pfx) true
  unfold createWebentityAuto
  split <;> rename_i heq <;> rw [heq] at h1 <;> exact h1

theorem li_deleteWebentity {s : State} {B : List Nat} (h : LkInv s B) (weid : Nat) (prefixes : List Bytes) :
    LkInv (s.deleteWebentity weid prefixes).1 B := by
  unfold deleteWebentity
  split
  · exact h
  · exact li_foldl_setWe 0 _ s h

theorem li_addPrefix {s : State} {B : List Nat} (h : LkInv s B) (pfx : Bytes) (weid : Nat) :
    LkInv (s.addPrefix pfx weid).1 B := by
  have h1 := li_addLru' h (lruIter pfx) true
  rcases ha : s.addLru (lruIter pfx) true with ⟨s1, n, hh⟩
  rw [ha] at h1
  simp only at h1
  simp only [addPrefix, ha]
  split
  · exact h1
  · exact li_setWe h1 n weid

theorem li_removePrefix {s : State} {B : List Nat} (h : LkInv s B) (pfx : Bytes) (weid : Option Nat) :
    LkInv (s.removePrefix pfx weid).1 B := by
  have h1 := li_addLru' h (lruIter pfx) false
  rcases ha : s.addLru (lruIter pfx) false with ⟨s1, n, hh⟩
  rw [ha] at h1
  simp only at h1
  simp only [removePrefix, ha]
  repeat' split
  all_goals first | exact h1 | exact li_setWe h1 n 0

theorem li_movePrefix {s : State} {B : List Nat} (h : LkInv s B) (pfx : Bytes) (target : Nat) (source : Option Nat) :
    LkInv (s.movePrefix pfx target source).1 B := by
  have h1 := li_removePrefix h pfx source
  unfold movePrefix
  split
  · rename_i heq; rw [heq] at h1; exact h1
  · rename_i s1 _ heq; rw [heq] at h1
    exact li_addPrefix h1 pfx target

/-! ### pages -/

/-- `add_page` at the trie level: the returned block is a page node (for a non-empty path) -/
theorem li_addPageTrie {s : State} {B : List Nat} (h : LkInv s B) (stems : LRU) (crawled : Bool) :
    LkInv (s.addPageTrie stems crawled).1
      (if stems = [] then B else (s.addPageTrie stems crawled).2.1 :: B) := by
  obtain ⟨t', hs', hk', hent⟩ := li_addLru h stems false
  rcases ha : s.addLru stems false with ⟨s1, n, hh⟩
  rw [ha] at hs' hk' hent
  simp only at hs' hk' hent
  have gen : ∀ (f : Cell → Cell),
      (∀ c, (f c).left = c.left ∧ (f c).right = c.right ∧ (f c).child = c.child ∧
        (f c).chunk = c.chunk ∧ (f c).flags.hasTail = c.flags.hasTail) →
      (∀ c, (f c).parent = c.parent) → (∀ c, c.flags.page = true → (f c).flags.page = true) →
      ((s1.cell n).flags.page = true ∨ ∀ c, (f c).flags.page = true) →
      LkInv (s1.modCell n f) (if stems = [] then B else n :: B) := by
    intro f hf hpar hpg hnow
    have ns := noStruct_modCell s1 n f hf
    have hk2 : LkOk (s1.modCell n f) t' B := by
      refine hk'.transfer hs' (hk'.par.modCell n f hpar) ?_ ?_ (links_modCell s1 n f)
      · intro p b hm; rw [ns.entries]; exact hm
      · intro b _ hb
        rw [cell_modCell]; split
        · exact hpg _ hb
        · exact hb
    split
    · exact ⟨t', ns.shape hs', hk2⟩
    · rename_i hne
      have he := hent hne
      refine ⟨t', ns.shape hs', hk2.cons ⟨stems, by rw [ns.entries]; exact he, ?_⟩⟩
      rw [cell_modCell, if_pos ⟨rfl, entry_lt hs' he⟩]
      rcases hnow with hnow | hnow
      · exact hpg _ hnow
      · exact hnow _
  simp only [addPageTrie, ha]
  split
  · exact gen _ (fun _ => ⟨rfl, rfl, rfl, rfl, rfl⟩) (fun _ => rfl) (fun _ _ => rfl) (Or.inr (fun _ => rfl))
  · rename_i hpage
    have hpage' : (s1.cell n).flags.page = true := by simpa using hpage
    split
    · exact gen _ (fun _ => ⟨rfl, rfl, rfl, rfl, rfl⟩) (fun _ => rfl) (fun _ hp => hp) (Or.inl hpage')
    · split
      · exact ⟨t', hs', hk'⟩
      · rename_i hne
        exact ⟨t', hs', hk'.cons ⟨stems, hent hne, hpage'⟩⟩

/-- `__add_page`: the invariant is kept and the returned block is a page node (for a well-formed LRU) -/
theorem li_addPageCore_gen {s : State} {B : List Nat} (h : LkInv s B) (lru : Bytes) (crawled : Bool) :
    LkInv (s.addPageCore lru crawled).1
      (if lruIter lru = [] then B else (s.addPageCore lru crawled).2.1 :: B) := by
  have h1 := li_addPageTrie h (lruIter lru) crawled
  rcases ha : s.addPageTrie (lruIter lru) crawled with ⟨s1, n, hh⟩
  rw [ha] at h1
  simp only at h1
  have key : ∀ B', LkInv s1 B' → LkInv (s.addPageCore lru crawled).1 B' := by
    intro B' h1
    simp only [addPageCore, ha]
    repeat' split
    all_goals first | exact h1 | exact li_createWebentityAuto h1 _
  have e : (s.addPageCore lru crawled).2.1 = n := by
    simp only [addPageCore, ha]
    repeat' split
    all_goals rfl
  rw [e]
  exact key _ h1

theorem li_addPageCore {s : State} {B : List Nat} (h : LkInv s B) (lru : Bytes) (crawled : Bool) :
    LkInv (s.addPageCore lru crawled).1 B := by
  refine (li_addPageCore_gen h lru crawled).mono (fun n hn => ?_)
  split
  · exact hn
  · exact List.mem_cons_of_mem _ hn

theorem li_addPageCore_wf {s : State} {B : List Nat} (h : LkInv s B) (lru : Bytes) (crawled : Bool)
    (hne : lruIter lru ≠ []) :
    LkInv (s.addPageCore lru crawled).1 ((s.addPageCore lru crawled).2.1 :: B) := by
  have := li_addPageCore_gen h lru crawled
  rwa [if_neg hne] at this

theorem li_addPage {s : State} {B : List Nat} (h : LkInv s B) (lru : Bytes) (crawled : Bool) :
    LkInv (s.addPage lru crawled).1 B := by
  simp only [addPage]
  exact li_addPageCore h lru crawled

theorem li_setCrawled {s : State} {B : List Nat} (h : LkInv s B) (n : Nat) :
    LkInv (s.modCell n (fun c => { c with flags := { c.flags with crawled := true } })) B :=
  h.modCell n _ (fun _ => ⟨rfl, rfl, rfl, rfl, rfl⟩) (fun _ => rfl) (fun _ hp => hp)

theorem li_setRule {s : State} {B : List Nat} (h : LkInv s B) (n : Nat) (b : Bool) :
    LkInv (s.modCell n (fun c => { c with flags := { c.flags with rule := b } })) B :=
  h.modCell n _ (fun _ => ⟨rfl, rfl, rfl, rfl, rfl⟩) (fun _ => rfl) (fun _ hp => hp)

theorem li_addPagesGo (always : Bool) {B : List Nat} : ∀ (ls : List Bytes) (s : State) (crawled : Bool) (rep : Report),
    LkInv s B → LkInv (addPagesGo always s ls crawled rep).1 B
  | [], s, crawled, rep, h => by simp only [addPagesGo]; exact h
  | l :: ls, s, crawled, rep, h => by
    have h1 := li_addPageCore h l crawled
    rw [addPagesGo]
    split
    · rename_i s1 _ e heq
      rw [heq] at h1; exact h1
    · rename_i s1 n r heq
      rw [heq] at h1
      simp only at h1
      have h2 : LkInv (if always = true then
          s1.modCell n (fun c => { c with flags := { c.flags with crawled := true } }) else s1) B := by
        split
        · exact li_setCrawled h1 n
        · exact h1
      exact li_addPagesGo always ls _ crawled _ h2

theorem li_addPages {s : State} {B : List Nat} (h : LkInv s B) (lrus : List Bytes) (crawled : Bool) :
    LkInv (s.addPages lrus crawled).1 B := by
  unfold addPages
  exact li_addPagesGo _ lrus s crawled {} h

/-! ### the page cache of `add_links` / `index_batch_crawl` -/

/-- the blocks held in the page cache -/
def li_vals (pages : List (Bytes × Nat)) : List Nat := pages.map (·.2)

/-- the LRU `l` has a block in the cache -/
def li_Cached (pages : List (Bytes × Nat)) (l : Bytes) : Prop := ∃ n, dictGet? pages l = some n

theorem li_dictGet_append {pages x : List (Bytes × Nat)} {l : Bytes} {n : Nat} (h : dictGet? pages l = some n) :
    dictGet? (pages ++ x) l = some n := by
  unfold dictGet? at h ⊢
  rw [List.find?_append]
  cases hf : pages.find? (fun p => decide (p.1 = l)) with
  | none => rw [hf] at h; simp at h
  | some p => rw [hf] at h; simpa using h

theorem li_dictGet_append_new {pages : List (Bytes × Nat)} {l : Bytes} (n : Nat) (h : dictGet? pages l = none) :
    dictGet? (pages ++ [(l, n)]) l = some n := by
  unfold dictGet? at h ⊢
  rw [List.find?_append]
  cases hf : pages.find? (fun p => decide (p.1 = l)) with
  | none => simp
  | some p => rw [hf] at h; simp at h

theorem li_Cached.mono {p p' : List (Bytes × Nat)} {l : Bytes} (h : li_Cached p l) (hp : p <+: p') : li_Cached p' l := by
  obtain ⟨n, hn⟩ := h
  obtain ⟨x, rfl⟩ := hp
  exact ⟨n, li_dictGet_append hn⟩

theorem li_vals_mono {p p' : List (Bytes × Nat)} (hp : p <+: p') : ∀ n ∈ li_vals p, n ∈ li_vals p' := by
  obtain ⟨x, rfl⟩ := hp
  intro n hn
  unfold li_vals at hn ⊢
  rw [List.map_append]
  exact List.mem_append_left _ hn

theorem li_Cached.val {p : List (Bytes × Nat)} {l : Bytes} (h : li_Cached p l) :
    (dictGet? p l).getD 0 ∈ li_vals p := by
  obtain ⟨n, hn⟩ := h
  rw [hn]
  exact List.mem_map.mpr ⟨(l, n), dictGet?_mem _ _ _ hn, rfl⟩

theorem li_ensurePageCached {s : State} (acc : LinkAcc) (l : Bytes) (c : Bool)
    (h : LkInv s (li_vals acc.pages)) (hne : lruIter l ≠ []) :
    (∀ e, (s.ensurePageCached acc l c).2 = .error e → LkInv (s.ensurePageCached acc l c).1 []) ∧
    (∀ acc', (s.ensurePageCached acc l c).2 = .ok acc' →
      LkInv (s.ensurePageCached acc l c).1 (li_vals acc'.pages) ∧ acc.pages <+: acc'.pages ∧
      li_Cached acc'.pages l ∧ acc'.outl = acc.outl ∧ acc'.inl = acc.inl) := by
  have h1 := li_addPageCore_wf h l c hne
  unfold ensurePageCached
  split
  · rename_i n heq
    refine ⟨(fun e he => by cases he), fun acc' he => ?_⟩
    cases he
    exact ⟨h, List.prefix_refl _, ⟨n, heq⟩, rfl, rfl⟩
  · rename_i heq
    split
    · rename_i s1 _ e heq2
      rw [heq2] at h1
      exact ⟨fun _ _ => h1.mono (fun _ hn => by simp at hn), fun acc' he => by cases he⟩
    · rename_i s1 n r heq2
      rw [heq2] at h1
      simp only at h1
      refine ⟨(fun e he => by cases he), fun acc' he => ?_⟩
      cases he
      refine ⟨h1.mono (fun m hm => ?_), List.prefix_append _ _, ⟨n, li_dictGet_append_new n heq⟩, rfl, rfl⟩
      unfold li_vals at hm ⊢
      simp only [List.map_append, List.map_cons, List.map_nil, List.mem_append, List.mem_singleton] at hm
      rcases hm with hm | rfl
      · exact List.mem_cons_of_mem _ hm
      · exact List.mem_cons_self

/-! ### link store -/

theorem li_addStubsGo {B : List Nat} : ∀ (targets : List Nat) (s : State) (tail : Nat), LkInv s B →
    (∀ x ∈ targets, x ∈ B) → LkInv (s.addStubsGo tail targets).1 B
  | [], s, tail, h, _ => by simp only [addStubsGo]; exact h
  | x :: ts, s, tail, h, hB => by
    simp only [addStubsGo]
    exact li_addStubsGo ts _ _ (li_appendStub h { target := x, prev := tail } (hB x (by simp)))
      (fun y hy => hB y (by simp [hy]))

theorem li_addStubs {s : State} {B : List Nat} (h : LkInv s B) (page : Nat) (targets : List Nat) (out : Bool)
    (hB : ∀ x ∈ targets, x ∈ B) : LkInv (s.addStubs page targets out) B := by
  unfold addStubs
  split
  · exact h
  · refine (li_addStubsGo targets s _ h hB).modCell page _ ?_ ?_ ?_
    · intro c; split <;> exact ⟨rfl, rfl, rfl, rfl, rfl⟩
    · intro c; split <;> rfl
    · intro c hp; split <;> exact hp

theorem li_blocksOf {pages : List (Bytes × Nat)} {ls : List Bytes} (h : ∀ l ∈ ls, li_Cached pages l) :
    ∀ x ∈ blocksOf pages ls, x ∈ li_vals pages := by
  intro x hx
  obtain ⟨l, hl, rfl⟩ := List.mem_map.mp hx
  exact (h l hl).val

/-- every LRU listed in a pending adjacency map is cached -/
def li_AllCached (pages : List (Bytes × Nat)) (d : List (Bytes × List Bytes)) : Prop :=
  ∀ kv ∈ d, ∀ x ∈ kv.2, li_Cached pages x

theorem li_AllCached.mono {p p' : List (Bytes × Nat)} {d : List (Bytes × List Bytes)} (h : li_AllCached p d)
    (hp : p <+: p') : li_AllCached p' d := fun kv hkv x hx => (h kv hkv x hx).mono hp

theorem li_AllCached.multiAdd {p : List (Bytes × Nat)} : ∀ {d : List (Bytes × List Bytes)} (_ : li_AllCached p d)
    (k v : Bytes) (_ : li_Cached p v), li_AllCached p (multiAdd d k v)
  | [], _, k, v, hv => by
    intro kv hkv x hx
    simp only [Traph.multiAdd, List.mem_singleton] at hkv
    subst hkv
    simp only [List.mem_singleton] at hx
    subst hx; exact hv
  | (k', vs) :: rest, h, k, v, hv => by
    intro kv hkv x hx
    simp only [Traph.multiAdd] at hkv
    split at hkv
    · rcases List.mem_cons.mp hkv with rfl | hkv
      · simp only [List.mem_append, List.mem_singleton] at hx
        rcases hx with hx | rfl
        · exact h (k', vs) (by simp) x hx
        · exact hv
      · exact h kv (List.mem_cons_of_mem _ hkv) x hx
    · rcases List.mem_cons.mp hkv with rfl | hkv
      · exact h (k', vs) (by simp) x hx
      · exact li_AllCached.multiAdd (d := rest) (fun kv' hkv' => h kv' (List.mem_cons_of_mem _ hkv')) k v hv
          kv hkv x hx

theorem li_flushLists (out : Bool) (pages : List (Bytes × Nat)) :
    ∀ (l : List (Bytes × List Bytes)) (s : State), LkInv s (li_vals pages) → li_AllCached pages l →
      LkInv (flushLists out pages s l) (li_vals pages)
  | [], s, h, _ => by simp only [flushLists]; exact h
  | (p, others) :: rest, s, h, hc => by
    simp only [flushLists]
    exact li_flushLists out pages rest _
      (li_addStubs h _ _ out (li_blocksOf (hc (p, others) (by simp))))
      (fun kv hkv => hc kv (List.mem_cons_of_mem _ hkv))

/-! ### `add_links` -/

theorem li_addLinksScan : ∀ (links : List (Bytes × Bytes)) (s : State) (acc : LinkAcc),
    LkInv s (li_vals acc.pages) → li_AllCached acc.pages acc.outl → li_AllCached acc.pages acc.inl →
    (∀ st ∈ links, lruIter st.1 ≠ [] ∧ lruIter st.2 ≠ []) →
    (∀ e, (addLinksScan s links acc).2 = .error e → LkInv (addLinksScan s links acc).1 []) ∧
    (∀ acc', (addLinksScan s links acc).2 = .ok acc' →
      LkInv (addLinksScan s links acc).1 (li_vals acc'.pages) ∧
      li_AllCached acc'.pages acc'.outl ∧ li_AllCached acc'.pages acc'.inl)
  | [], s, acc, h, ho, hi, _ => by
    simp only [addLinksScan]
    exact ⟨(fun e he => by cases he), fun acc' he => by cases he; exact ⟨h, ho, hi⟩⟩
  | (src, tgt) :: rest, s, acc, h, ho, hi, hwf => by
    obtain ⟨hw1, hw2⟩ := hwf (src, tgt) (by simp)
    obtain ⟨e1, o1⟩ := li_ensurePageCached acc src false h hw1
    rw [addLinksScan]
    split
    · rename_i s1 e heq
      rw [heq] at e1
      exact ⟨fun _ _ => e1 e rfl, fun acc' he => by cases he⟩
    · rename_i s1 acc1 heq
      rw [heq] at o1
      obtain ⟨h1, p1, c1, eo1, ei1⟩ := o1 acc1 rfl
      simp only at h1
      obtain ⟨e2, o2⟩ := li_ensurePageCached acc1 tgt false h1 hw2
      split
      · rename_i s2 e heq2
        rw [heq2] at e2
        exact ⟨fun _ _ => e2 e rfl, fun acc' he => by cases he⟩
      · rename_i s2 acc2 heq2
        rw [heq2] at o2
        obtain ⟨h2, p2, c2, eo2, ei2⟩ := o2 acc2 rfl
        simp only at h2
        have ho2 : li_AllCached acc2.pages acc2.outl := by
          rw [eo2, eo1]; exact ho.mono (p1.trans p2)
        have hi2 : li_AllCached acc2.pages acc2.inl := by
          rw [ei2, ei1]; exact hi.mono (p1.trans p2)
        exact li_addLinksScan rest s2 _ h2 (ho2.multiAdd src tgt c2) (hi2.multiAdd tgt src (c1.mono p2))
          (fun st hst => hwf st (by simp [hst]))

theorem li_addLinks {s : State} (h : LkInv s []) (links : List (Bytes × Bytes))
    (hwf : ∀ st ∈ links, lruIter st.1 ≠ [] ∧ lruIter st.2 ≠ []) : LkInv (s.addLinks links).1 [] := by
  obtain ⟨e1, o1⟩ := li_addLinksScan links s {} h (fun _ hkv => by simp at hkv) (fun _ hkv => by simp at hkv) hwf
  unfold addLinks
  split
  · rename_i s1 e heq
    rw [heq] at e1
    exact e1 e rfl
  · rename_i s1 acc heq
    rw [heq] at o1
    obtain ⟨h1, ho, hi⟩ := o1 acc rfl
    simp only at h1 ⊢
    exact (li_flushLists false acc.pages acc.inl _ (li_flushLists true acc.pages acc.outl s1 h1 ho) hi).mono
      (fun _ hn => by simp at hn)

/-! ### `index_batch_crawl` -/

theorem li_batchTargets : ∀ (ts : List Bytes) (s : State) (src : Bytes) (acc : LinkAcc) (tb : List Nat),
    LkInv s (li_vals acc.pages) → li_AllCached acc.pages acc.inl → li_Cached acc.pages src →
    (∀ x ∈ tb, x ∈ li_vals acc.pages) → (∀ x ∈ ts, lruIter x ≠ []) →
    (∀ e, (batchTargets s src ts acc tb).2 = .error e → LkInv (batchTargets s src ts acc tb).1 []) ∧
    (∀ r, (batchTargets s src ts acc tb).2 = .ok r →
      LkInv (batchTargets s src ts acc tb).1 (li_vals r.1.pages) ∧ li_AllCached r.1.pages r.1.inl ∧
      (∀ x ∈ r.2, x ∈ li_vals r.1.pages))
  | [], s, src, acc, tb, h, hi, _, htb, _ => by
    simp only [batchTargets]
    exact ⟨(fun e he => by cases he), fun r he => by cases he; exact ⟨h, hi, htb⟩⟩
  | x :: ts, s, src, acc, tb, h, hi, hsrc, htb, hwf => by
    obtain ⟨e1, o1⟩ := li_ensurePageCached acc x false h (hwf x (by simp))
    rw [batchTargets]
    split
    · rename_i s1 e heq
      rw [heq] at e1
      exact ⟨fun _ _ => e1 e rfl, fun r he => by cases he⟩
    · rename_i s1 acc1 heq
      rw [heq] at o1
      obtain ⟨h1, p1, c1, _, ei1⟩ := o1 acc1 rfl
      simp only at h1
      have hi1 : li_AllCached acc1.pages acc1.inl := by rw [ei1]; exact hi.mono p1
      refine li_batchTargets ts s1 src _ _ h1 (hi1.multiAdd x src (hsrc.mono p1)) (hsrc.mono p1) ?_
        (fun y hy => hwf y (by simp [hy]))
      intro y hy
      rcases List.mem_append.mp hy with hy | hy
      · exact li_vals_mono p1 y (htb y hy)
      · simp only [List.mem_singleton] at hy
        subst hy
        exact c1.val

theorem li_sourceStep {s : State} (acc : LinkAcc) (src : Bytes) (h : LkInv s (li_vals acc.pages))
    (hne : lruIter src ≠ []) :
    (∀ e, (sourceStep s acc src).2 = .error e → LkInv (sourceStep s acc src).1 []) ∧
    (∀ acc', (sourceStep s acc src).2 = .ok acc' →
      LkInv (sourceStep s acc src).1 (li_vals acc'.pages) ∧ acc.pages <+: acc'.pages ∧
      li_Cached acc'.pages src ∧ acc'.outl = acc.outl ∧ acc'.inl = acc.inl) := by
  unfold sourceStep
  split
  · exact li_ensurePageCached acc src true h hne
  · rename_i n heq
    split
    · refine ⟨(fun e he => by cases he), fun acc' he => ?_⟩
      cases he
      exact ⟨li_setCrawled h n, List.prefix_refl _, ⟨n, heq⟩, rfl, rfl⟩
    · refine ⟨(fun e he => by cases he), fun acc' he => ?_⟩
      cases he
      exact ⟨h, List.prefix_refl _, ⟨n, heq⟩, rfl, rfl⟩

theorem li_batchSources : ∀ (data : List (Bytes × List Bytes)) (s : State) (acc : LinkAcc),
    LkInv s (li_vals acc.pages) → li_AllCached acc.pages acc.inl →
    (∀ d ∈ data, lruIter d.1 ≠ [] ∧ ∀ x ∈ d.2, lruIter x ≠ []) →
    (∀ e, (batchSources s data acc).2 = .error e → LkInv (batchSources s data acc).1 []) ∧
    (∀ acc', (batchSources s data acc).2 = .ok acc' →
      LkInv (batchSources s data acc).1 (li_vals acc'.pages) ∧ li_AllCached acc'.pages acc'.inl)
  | [], s, acc, h, hi, _ => by
    simp only [batchSources]
    exact ⟨(fun e he => by cases he), fun acc' he => by cases he; exact ⟨h, hi⟩⟩
  | (src, tgts) :: rest, s, acc, h, hi, hwf => by
    obtain ⟨hw1, hw2⟩ := hwf (src, tgts) (by simp)
    obtain ⟨e1, o1⟩ := li_sourceStep acc src h hw1
    rw [batchSources_cons_ps]
    split
    · rename_i s1 e heq
      rw [heq] at e1
      exact ⟨fun _ _ => e1 e rfl, fun acc' he => by cases he⟩
    · rename_i s1 acc1 heq
      rw [heq] at o1
      obtain ⟨h1, p1, c1, _, ei1⟩ := o1 acc1 rfl
      simp only at h1
      have hi1 : li_AllCached acc1.pages acc1.inl := by rw [ei1]; exact hi.mono p1
      obtain ⟨e2, o2⟩ := li_batchTargets tgts s1 src acc1 [] h1 hi1 c1 (fun _ hx => by simp at hx) hw2
      split
      · rename_i s2 e heq2
        rw [heq2] at e2
        exact ⟨fun _ _ => e2 e rfl, fun acc' he => by cases he⟩
      · rename_i s2 acc2 tb heq2
        rw [heq2] at o2
        obtain ⟨h2, hi2, htb⟩ := o2 (acc2, tb) rfl
        simp only at h2 hi2 htb
        exact li_batchSources rest _ acc2 (li_addStubs h2 _ tb true htb) hi2
          (fun d hd => hwf d (by simp [hd]))

theorem li_batch {s : State} (h : LkInv s []) (data : List (Bytes × List Bytes))
    (hwf : ∀ d ∈ data, lruIter d.1 ≠ [] ∧ ∀ x ∈ d.2, lruIter x ≠ []) : LkInv (s.batch data).1 [] := by
  obtain ⟨e1, o1⟩ := li_batchSources data s {} h (fun _ hkv => by simp at hkv) hwf
  unfold batch
  split
  · rename_i s1 e heq
    rw [heq] at e1
    exact e1 e rfl
  · rename_i s1 acc heq
    rw [heq] at o1
    obtain ⟨h1, hi⟩ := o1 acc rfl
    simp only at h1 ⊢
    exact (li_flushLists false acc.pages acc.inl s1 h1 hi).mono (fun _ hn => by simp at hn)

/-! ### creation rules -/

theorem li_addRuleLoop (startBlock : Nat) {B : List Nat} : ∀ (fuel : Nat) (s : State) (stack : List (Nat × Bytes))
    (rep : Report), LkInv s B → LkInv (addRuleLoop startBlock fuel s stack rep).1 B
  | 0, s, stack, rep, h => by simp only [addRuleLoop]; exact h
  | fuel + 1, s, [], rep, h => by simp only [addRuleLoop]; exact h
  | fuel + 1, s, (b, lru) :: stack, rep, h => by
    have h1 : LkInv (if (s.cell b).flags.page then
          (match s.addPageCore (lru ++ s.stemAt b) false with
           | (s1, _, .error e) => (s1, Except.error e)
           | (s1, _, .ok r1) => (s1, Except.ok (rep.add r1)))
        else (s, Except.ok rep) : State × Except Err Report).1 B := by
      split
      · have := li_addPageCore h (lru ++ s.stemAt b) false
        split <;> rename_i heq <;> exact this.fst_of_eq heq
      · exact h
    rw [addRuleLoop]
    simp only
    split
    · rename_i heq; exact h1.fst_of_eq heq
    · rename_i s1 rep1 heq
      replace h1 : LkInv s1 B := h1.fst_of_eq heq
      exact li_addRuleLoop startBlock fuel s1 _ _ h1

theorem li_addRule {s : State} {B : List Nat} (h : LkInv s B) (anchor : Bytes) (r : Rule) (w : Bool) :
    LkInv (s.addRule anchor r w).1 B := by
  have h0 : LkInv { s with rules := dictSet s.rules anchor r } B := h.of_trie_eq rfl rfl
  have h1 := li_addLru' h0 (lruIter anchor) false
  rcases ha : State.addLru { s with rules := dictSet s.rules anchor r } (lruIter anchor) false with ⟨s1, n, hh⟩
  rw [ha] at h1
  simp only at h1
  simp only [addRule, ha]
  split
  · exact h0
  · exact li_addRuleLoop n _ _ _ _ (li_setRule h1 n true)

theorem li_removeRule {s : State} {B : List Nat} (h : LkInv s B) (anchor : Bytes) :
    LkInv (s.removeRule anchor).1 B := by
  unfold removeRule
  split
  · exact h
  · simp only
    have h0 : LkInv { s with rules := s.rules.filter (fun p => p.1 ≠ anchor) } B := h.of_trie_eq rfl rfl
    split
    · exact h0
    · exact li_setRule h0 _ false

theorem li_installRules {B : List Nat} : ∀ (rules : List (Bytes × Rule)) (s : State) (w : Bool),
    LkInv s B → LkInv (installRules s rules w).1 B
  | [], s, w, h => by simp only [installRules]; exact h
  | (a, r) :: rest, s, w, h => by
    have h1 := li_addRule h a r w
    rw [installRules]
    split
    · rename_i heq; exact h1.fst_of_eq heq
    · rename_i s1 _ heq
      exact li_installRules rest s1 w (h1.fst_of_eq heq)

/-- a fresh index satisfies the invariant (its constructor's rules included) -/
theorem li_fresh (cfg : Config) (dflt : Rule) (rules : List (Bytes × Rule)) (log : List Write) :
    LkInv (State.fresh cfg dflt rules log).1 [] := by
  unfold fresh
  exact li_installRules rules _ true (li_init _ rfl rfl)

theorem li_reopen {s : State} {B : List Nat} (h : LkInv s B) (dflt : Rule) (rules : List (Bytes × Rule)) :
    LkInv (s.reopen dflt rules) B := h.of_trie_eq rfl rfl

theorem li_clear (s : State) (dflt : Option Rule) (rules : Option (List (Bytes × Rule))) :
    LkInv (s.clear dflt rules).1 [] := by
  unfold clear
  simp only
  split
  · exact li_init _ rfl rfl
  · exact li_installRules _ _ true (li_init _ rfl rfl)

/-! ### every write request, every reachable state -/

/-- every well-formed write request keeps the invariant -/
theorem li_step (s : State) (op : Op) (hwf : OpWf op) (h : LkInv s []) : LkInv (s.step op).1 [] := by
  cases op with
  | addPage l c => exact li_addPage h l c
  | addPages ls c => exact li_addPages h ls c
  | addLinks ls => exact li_addLinks h ls hwf
  | batch d => exact li_batch h d hwf
  | create ps => exact li_createWebentity h ps
  | delete w ps => exact li_deleteWebentity h w ps
  | addPrefix p w => exact li_addPrefix h p w
  | removePrefix p w => exact li_removePrefix h p w
  | movePrefix p t f => exact li_movePrefix h p t f
  | addRule a r => exact li_addRule h a r true
  | removeRule a => exact li_removeRule h a
  | reopen d rs => exact li_reopen h d rs
  | clear d rs => exact li_clear s d rs

theorem li_run : ∀ (ops : List Op) (s : State), (∀ op ∈ ops, OpWf op) → LkInv s [] → LkInv (s.run ops) []
  | [], _, _, h => h
  | op :: ops, s, hwf, h =>
    li_run ops (s.step op).1 (fun o ho => hwf o (by simp [ho])) (li_step s op (hwf op (by simp)) h)

/-- in every state reached from a fresh index by well-formed write requests: the parent invariant holds on
    the (unique) ghost tree, and every stub of the link store targets a page node -/
theorem li_reachable (cfg : Config) (dflt : Rule) (rules : List (Bytes × Rule)) (ops : List Op)
    (hwf : ∀ op ∈ ops, OpWf op) : LkInv ((State.fresh cfg dflt rules []).1.run ops) [] :=
  li_run ops _ hwf (li_fresh cfg dflt rules [])

/-- the same on a given ghost tree -/
theorem li_reachable_on (cfg : Config) (dflt : Rule) (rules : List (Bytes × Rule)) (ops : List Op)
    (hwf : ∀ op ∈ ops, OpWf op) {t : T} (hs : Shape ((State.fresh cfg dflt rules []).1.run ops) t) :
    LkOk ((State.fresh cfg dflt rules []).1.run ops) t [] := by
  obtain ⟨t', hs', hk⟩ := li_reachable cfg dflt rules ops hwf
  rw [li_shape_unique hs hs']
  exact hk

end Traph

section
open Traph
#print axioms li_shape_unique
#print axioms li_step
#print axioms li_reachable
#print axioms li_reachable_on
end

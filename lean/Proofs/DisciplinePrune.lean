import Proofs.ReachableAll
/-! The clause of `Disciplined` on `removeRule` ("the rule is in RAM") costs nothing: a `removeRule` of a rule that
    is not in RAM is refused by the dictionary look-up with `KeyError` and changes nothing, so it can be dropped
    from the history. `Disciplined0` is the discipline without that clause; `State.prune` drops the refused
    `removeRule`s; the pruned history is `Disciplined`, reaches the same state, and submits the same pages and
    links (also since the last `clear`). Hence every state reached under `Disciplined0` is `Reachable`, and the
    history-level theorems apply to the pruned history. -/
namespace Traph
open State

/-- the discipline without the clause on `removeRule` -/
def Disciplined0 : State → List Op → Prop
  | _, [] => True
  | s, op :: ops => ((∀ a, op ≠ .removeRule a) → StepOk s op) ∧ Disciplined0 (s.step op).1 ops

/-- a `removeRule` that the dictionary look-up refuses -/
def State.refused (s : State) : Op → Bool
  | .removeRule a => !(dictGet? s.rules a).isSome
  | _ => false

/-- the history without the refused `removeRule`s -/
def State.prune : State → List Op → List Op
  | _, [] => []
  | s, op :: ops => if s.refused op then s.prune ops else op :: (s.step op).1.prune ops

theorem ua_refused_step (s : State) (op : Op) (h : s.refused op = true) :
    (s.step op).1 = s ∧ (s.step op).2 = .err (.other "KeyError") ∧ ∃ a, op = .removeRule a := by
  cases op with
  | removeRule a =>
    have hn : dictGet? s.rules a = none := by
      simp only [State.refused, Bool.not_eq_true', Option.isSome_eq_false_iff, Option.isNone_iff_eq_none] at h
      exact h
    have := removeRule_absent s a hn
    refine ⟨?_, ?_, a, rfl⟩
    · show (s.removeRule a).1 = s
      rw [this]
    · show Ans.ofExcept (fun _ => Ans.unit) (s.removeRule a).2 = _
      rw [this]; rfl
  | _ => simp [State.refused] at h

theorem prune_cons_refused (s : State) (op : Op) (ops : List Op) (h : s.refused op = true) :
    s.prune (op :: ops) = s.prune ops := by
  rw [State.prune, if_pos h]

theorem prune_cons_kept (s : State) (op : Op) (ops : List Op) (h : s.refused op = false) :
    s.prune (op :: ops) = op :: (s.step op).1.prune ops := by
  rw [State.prune, if_neg (by rw [h]; exact Bool.false_ne_true)]

/-- pruning does not change the state reached -/
theorem run_prune : ∀ (ops : List Op) (s : State), s.run (s.prune ops) = s.run ops
  | [], _ => rfl
  | op :: ops, s => by
    cases h : s.refused op with
    | true =>
      rw [prune_cons_refused s op ops h, run_cons, (ua_refused_step s op h).1]
      exact run_prune ops s
    | false =>
      rw [prune_cons_kept s op ops h, run_cons, run_cons]
      exact run_prune ops _

/-- the pruned history meets the full discipline -/
theorem disciplined_prune : ∀ (ops : List Op) (s : State), Disciplined0 s ops → Disciplined s (s.prune ops)
  | [], _, _ => trivial
  | op :: ops, s, hd => by
    cases h : s.refused op with
    | true =>
      rw [prune_cons_refused s op ops h]
      have := disciplined_prune ops (s.step op).1 hd.2
      rwa [(ua_refused_step s op h).1] at this
    | false =>
      rw [prune_cons_kept s op ops h]
      refine ⟨?_, disciplined_prune ops _ hd.2⟩
      by_cases hr : ∃ a, op = .removeRule a
      · obtain ⟨a, rfl⟩ := hr
        simp only [State.refused, Bool.not_eq_false'] at h
        exact h
      · exact hd.1 (fun a e => hr ⟨a, e⟩)

theorem prune_sub : ∀ (ops : List Op) (s : State), ∀ op ∈ s.prune ops, op ∈ ops
  | [], _, op, h => by simp [State.prune] at h
  | o :: ops, s, op, h => by
    cases hr : s.refused o with
    | true =>
      rw [prune_cons_refused s o ops hr] at h
      exact List.mem_cons_of_mem _ (prune_sub ops s op h)
    | false =>
      rw [prune_cons_kept s o ops hr] at h
      rcases List.mem_cons.mp h with rfl | h
      · exact List.mem_cons_self
      · exact List.mem_cons_of_mem _ (prune_sub ops _ op h)

/-- only `removeRule`s are dropped: whatever a history submits (pages, links, …) is submitted by the pruned one -/
theorem prune_flatMap {β : Type} (f : Op → List β) (hf : ∀ a, f (.removeRule a) = []) :
    ∀ (ops : List Op) (s : State), (s.prune ops).flatMap f = ops.flatMap f
  | [], _ => rfl
  | op :: ops, s => by
    cases h : s.refused op with
    | true =>
      obtain ⟨_, _, a, rfl⟩ := ua_refused_step s op h
      rw [prune_cons_refused s _ ops h, List.flatMap_cons, hf, List.nil_append]
      exact prune_flatMap f hf ops s
    | false =>
      rw [prune_cons_kept s op ops h, List.flatMap_cons, List.flatMap_cons, prune_flatMap f hf ops]

theorem prune_append : ∀ (a b : List Op) (s : State), s.prune (a ++ b) = s.prune a ++ (s.run a).prune b
  | [], _, _ => rfl
  | op :: a, b, s => by
    rw [List.cons_append]
    cases h : s.refused op with
    | true =>
      rw [prune_cons_refused s op _ h, prune_cons_refused s op _ h, run_cons, (ua_refused_step s op h).1]
      exact prune_append a b s
    | false =>
      rw [prune_cons_kept s op _ h, prune_cons_kept s op _ h, run_cons, List.cons_append, prune_append a b]

/-- …also since the last `clear` -/
theorem prune_sinceClear_flatMap {β : Type} (f : Op → List β) (hf : ∀ a, f (.removeRule a) = [])
    (s : State) (ops : List Op) : (sinceClear (s.prune ops)).flatMap f = (sinceClear ops).flatMap f := by
  have free : ∀ (l : List Op) (s' : State), (∀ op ∈ l, ∀ d rs, op ≠ .clear d rs) →
      ∀ op ∈ s'.prune l, ∀ d rs, op ≠ .clear d rs := fun l s' hl op ho => hl op (prune_sub l s' op ho)
  rcases sinceClear_cases ops with ⟨h1, h2, _⟩ | ⟨d, rs, _, h2⟩
  · rw [h2, sinceClear_of_free _ (free ops s h1)]
    exact prune_flatMap f hf ops s
  · have hk : (s.run (beforeClear ops)).refused (.clear d rs) = false := rfl
    have e : s.prune ops = s.prune (beforeClear ops) ++
        .clear d rs :: ((s.run (beforeClear ops)).step (.clear d rs)).1.prune (sinceClear ops) := by
      conv => lhs; rw [h2]
      rw [prune_append, prune_cons_kept _ _ _ hk]
    rw [e, sinceClear_split _ d rs _ (free _ _ (sinceClear_free ops))]
    exact prune_flatMap f hf _ _

/-- **every state reached under the discipline without the `removeRule` clause is `Reachable`** -/
theorem reachable_of_disciplined0 (cfg : Config) (dflt : Rule) (rules : List (Bytes × Rule)) (ops : List Op)
    (hr : rulesCanonical rules) (hwf : ∀ op ∈ ops, OpWf op)
    (hd : Disciplined0 (State.fresh cfg dflt rules []).1 ops) :
    Reachable ((State.fresh cfg dflt rules []).1.run ops) := by
  rw [← run_prune]
  exact reachable_fresh cfg dflt rules _ hr (fun op ho => hwf op (prune_sub ops _ op ho))
    (disciplined_prune ops _ hd)

/-- under `Disciplined0` a request answers `KeyError` only if it is a `removeRule` of a rule that is not in RAM,
    and then it changes nothing; `RulesOk` holds throughout -/
theorem disciplined0_answers : ∀ (ops : List Op) (s : State) (t : T), Good s t → RulesOk s → Disciplined0 s ops →
    RulesOk (s.run ops) ∧
    ∀ (pre : List Op) (op : Op) (post : List Op), ops = pre ++ op :: post →
      ((s.run pre).step op).2 = .err (.other "KeyError") →
      (∃ a, op = .removeRule a ∧ dictGet? (s.run pre).rules a = none) ∧ ((s.run pre).step op).1 = s.run pre
  | [], s, t, g, ok, _ => ⟨ok, fun pre op post e => by simp at e⟩
  | o :: ops, s, t, g, ok, hd => by
    obtain ⟨t1, g1⟩ := ua_good_step_any g o
    have key : s.refused o = false → StepOk s o := by
      intro h
      by_cases hr : ∃ a, o = .removeRule a
      · obtain ⟨a, rfl⟩ := hr
        simp only [State.refused, Bool.not_eq_false'] at h
        exact h
      · exact hd.1 (fun a e => hr ⟨a, e⟩)
    have ok1 : RulesOk (s.step o).1 := by
      cases h : s.refused o with
      | true => rw [(ua_refused_step s o h).1]; exact ok
      | false => exact rulesOk_step_all g.shape g.wf ok o (key h)
    obtain ⟨okf, rest⟩ := disciplined0_answers ops (s.step o).1 t1 g1 ok1 hd.2
    refine ⟨okf, fun pre op post e herr => ?_⟩
    cases pre with
    | nil =>
      simp only [List.nil_append, List.cons.injEq] at e
      obtain ⟨rfl, _⟩ := e
      show (∃ a, o = .removeRule a ∧ dictGet? s.rules a = none) ∧ (s.step o).1 = s
      cases h : s.refused o with
      | true =>
        obtain ⟨h1, _, a, rfl⟩ := ua_refused_step s o h
        refine ⟨⟨a, rfl, ?_⟩, h1⟩
        simp only [State.refused, Bool.not_eq_true', Option.isSome_eq_false_iff, Option.isNone_iff_eq_none] at h
        exact h
      | false => exact absurd herr (step_noKeyErr g.shape ok o (key h))
    | cons p pre =>
      simp only [List.cons_append, List.cons.injEq] at e
      obtain ⟨rfl, e⟩ := e
      exact rest pre op post e herr

#print axioms run_prune
#print axioms disciplined_prune
#print axioms prune_sinceClear_flatMap
#print axioms reachable_of_disciplined0
#print axioms disciplined0_answers

end Traph

import Proofs.Shape
/-! The ternary search tree as a whole: the shape invariant `Shape`, the finite map it denotes
    (`T.entries`), the structural multi-level search (`T.locate`) and the structural traversal orders. -/
namespace Traph
open State

/-- no tail chain is open at the end of the store (so appending never changes an existing stem) -/
def TailClosed (s : State) : Prop := (s.cell (s.trie.size - 1)).flags.hasTail = false

/-- the shape invariant: the ghost tree `t` is represented by the heap, rooted at block 1 (or empty),
    every sibling tree is a strict BST on full stems, every block is referenced at most once -/
structure Shape (s : State) (t : T) : Prop where
  live   : 0 < s.trie.size
  rep    : Rep s t
  ord    : OrdT s t none none
  nodup  : t.addrs.Nodup
  root   : t.root = if s.trie.size ≤ 1 then 0 else 1
  closed : TailClosed s

/-- the finite map denoted by the tree: (stem path from the top, address), one entry per node -/
def T.entries (s : State) : T → LRU → List (LRU × Nat)
  | .nil, _ => []
  | .node a l c r, pre =>
    l.entries s pre ++ (pre ++ [s.stemAt a], a) :: (c.entries s (pre ++ [s.stemAt a]) ++ r.entries s pre)

/-- result of the structural multi-level search -/
inductive Loc where
  | found (b : Nat)
  | fell (q : Nat) (sl : Slot) (pre : LRU) (rest : List Stem)   -- slot `sl` of node `q` is empty; the node for
                                                                  -- `pre ++ [rest.head]` would go there
  | corrupt
deriving Repr, DecidableEq

/-- search `stems` below prefix `pre` in the (sibling) tree: BST search on the first stem, then descend
    into the child tree with the remaining stems -/
def T.locate (s : State) : T → LRU → List Stem → Loc
  | .nil, _, _ => .corrupt
  | .node _ _ _ _, _, [] => .corrupt
  | .node a l c r, pre, stem :: rest =>
    if s.stemAt a = stem then
      (match rest with
       | [] => .found a
       | _ :: _ =>
         match c with
         | .nil => .fell a .C (pre ++ [stem]) rest
         | .node _ _ _ _ => c.locate s (pre ++ [stem]) rest)
    else if lexLt stem (s.stemAt a) then
      (match l with
       | .nil => .fell a .L pre (stem :: rest)
       | .node _ _ _ _ => l.locate s pre (stem :: rest))
    else
      (match r with
       | .nil => .fell a .R pre (stem :: rest)
       | .node _ _ _ _ => r.locate s pre (stem :: rest))

/-- order of `dfs_iter`: node, child subtree, left subtree, right subtree; with the flattened LRU -/
def T.pre (s : State) : T → Bytes → List (Nat × Bytes)
  | .nil, _ => []
  | .node a l c r, lru =>
    (a, lru ++ s.stemAt a) :: (c.pre s (lru ++ s.stemAt a) ++ l.pre s lru ++ r.pre s lru)

/-- in-order of one sibling tree with children after their parent (ascending byte order under `OrdT`) -/
def T.inorder (s : State) : T → Bytes → List (Nat × Bytes)
  | .nil, _ => []
  | .node a l c r, lru =>
    l.inorder s lru ++ (a, lru ++ s.stemAt a) :: (c.inorder s (lru ++ s.stemAt a) ++ r.inorder s lru)

theorem T.size_eq_length_addrs : ∀ t : T, t.size = t.addrs.length
  | .nil => rfl
  | .node a l c r => by
    simp [T.size, T.addrs, T.size_eq_length_addrs l, T.size_eq_length_addrs c, T.size_eq_length_addrs r]; omega

/-- a duplicate-free list of numbers below `n` has at most `n` elements -/
theorem nodup_length_le : ∀ (n : Nat) (l : List Nat), l.Nodup → (∀ x ∈ l, x < n) → l.length ≤ n := by
  intro n
  induction n with
  | zero => intro l _ h; cases l with
    | nil => simp
    | cons a as => exact absurd (h a (by simp)) (by omega)
  | succ n ih =>
    intro l hnd h
    by_cases hm : n ∈ l
    · have h1 : (l.erase n).length ≤ n := ih _ (hnd.erase n) (by
        intro x hx
        have hx' := List.mem_of_mem_erase hx
        have : x ≠ n := by
          intro e; subst e
          exact (List.Nodup.not_mem_erase hnd) hx
        have := h x hx'; omega)
      rw [List.length_erase_of_mem hm] at h1
      omega
    · have := ih l hnd (by
        intro x hx
        have := h x hx
        have : x ≠ n := fun e => hm (e ▸ hx)
        omega)
      omega

/-- fuel `trie.size + 1` suffices for any walk over a represented duplicate-free tree -/
theorem Shape.size_le {s : State} {t : T} (h : Shape s t) : t.size ≤ s.trie.size := by
  rw [T.size_eq_length_addrs]
  exact nodup_length_le _ _ h.nodup h.rep.lt_size

end Traph

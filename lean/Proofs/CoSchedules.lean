import Proofs.CoMachines
import Proofs.CoQueryPaths
import Proofs.CoRulesOps
/-! C16 — theorems that hold **for every schedule** (`Sched = List Nat`, every loop iteration a yield point).

    * `sched_shape`, `sched_links`, `sched_pages_kept` : with no assumption at all on the private states of the
      generators, the shape invariant holds after every schedule, the tree's entries are kept, the index only
      moves up in the heap order (no block, pointer, page mark, crawled mark or link stub is lost or altered),
      the list heads stay inside the link store and every recorded out-list / in-list is a suffix of the list
      after (`LinkGrow`: refresh-before-write, no head written by another generator is overwritten).
    * `sched_spec` : for systems whose generators satisfy their local invariants (`SysOk`), every schedule keeps
      `Shape`, `Inv` and all local invariants; the pages added are pages some generator had still to submit;
      everything a generator had to submit is a page once it has returned; a writer never fails except with the
      `KeyError` of `__add_page` (and `StopIteration` when resumed after its end); a page query only lists pages.
    * `C16_pages_any_schedule`, `C16_final_pages` : started from fresh generators, once every writer has returned,
      the pages (and the crawled pages) are those of the index before plus those of the requests — whatever the
      schedule; `C16_final_pages_sequential(_rulesOk)` : hence the same as after the atomic requests run one
      after another, in any order.
    * `sched_no_failure`, `C16_no_writer_fails` : on an index satisfying `RulesOk` no writer fails at all.
    * `C16_pages_query_sound`, `C16_pages_query_complete(_entries)` : the two bounds on the answer of
      `get_webentity_pages_iter` (the third, "no item that qualified at no moment", is false: `Proofs/CoPhantom`). -/
namespace Traph
open State Layout

/-! ### the shape part: no hypothesis on the generators -/

/-- **Shape for every schedule**, unconditionally: whatever the private states of the generators (even
    states no run of the generators can reach), every schedule keeps the shape invariant and the entries
    of the tree, moves the index up in the heap order, keeps the list heads inside the link store and
    every recorded out-list / in-list as a suffix of the list after -/
theorem sched_shape : ∀ (sched : Sched) (σ : Sys) (t : T), Shape σ.1 t →
    ∃ t', Ext σ.1 t (σ.run sched).1.1 t' ∧ σ.1 ⊑ (σ.run sched).1.1 ∧ CoLinkStep σ.1 (σ.run sched).1.1
  | [], σ, t, h => ⟨t, Ext.refl h, Le.refl _, CoLinkStep.refl _⟩
  | i :: rest, σ, t, h => by
    cases hc : σ.2[i]? with
    | none => rw [Sys.run_cons_none _ hc]; exact sched_shape rest σ t h
    | some c =>
      rw [Sys.run_cons_some _ hc]
      obtain ⟨t1, sec⟩ := resume_sec h c
      obtain ⟨t2, x2, l2, k2⟩ :=
        sched_shape rest ((c.resume σ.1).1, σ.2.set i (c.resume σ.1).2.1) t1 sec.ext.shape
      exact ⟨t2, sec.ext.trans x2, sec.le.trans l2, sec.link.trans k2⟩

/-- **no link is lost or reordered under any schedule**: the heads stay inside the store and every
    out-list and in-list recorded before the schedule is a suffix of the list after it (the generators
    `refresh()` a block before they move its head, so a head moved by another generator in between is
    chained behind, not overwritten) -/
theorem sched_links (sched : Sched) (σ : Sys) (t : T) (h : Shape σ.1 t) (hk : HeadsOk σ.1) :
    HeadsOk (σ.run sched).1.1 ∧ LinkGrow σ.1 (σ.run sched).1.1 := by
  obtain ⟨_, _, _, k⟩ := sched_shape sched σ t h
  exact k hk

/-- in particular no entry of the tree, no page mark and no crawled mark is lost under any schedule -/
theorem sched_pages_kept (sched : Sched) (σ : Sys) (t : T) (h : Shape σ.1 t) :
    ∃ t', Shape (σ.run sched).1.1 t' ∧ ∀ p, (IsPage σ.1 t p → IsPage (σ.run sched).1.1 t' p) ∧
      (IsCrawled σ.1 t p → IsCrawled (σ.run sched).1.1 t' p) := by
  obtain ⟨t', x, l, _⟩ := sched_shape sched σ t h
  refine ⟨t', x.shape, fun p => ⟨?_, ?_⟩⟩
  · rintro ⟨b, hm, hp⟩
    exact ⟨b, x.keep _ _ hm, (l.cell_le b (entry_lt h hm)).page hp⟩
  · rintro ⟨b, hm, hp, hc⟩
    exact ⟨b, x.keep _ _ hm, (l.cell_le b (entry_lt h hm)).page hp, (l.cell_le b (entry_lt h hm)).crawled hc⟩

/-! ### the trace of an exhausted generator -/

/-- a generator that has returned only ever raises `StopIteration` afterwards -/
theorem finished_trace : ∀ (sched : Sched) (σ : Sys) (i : Nat), σ.2[i]? = some .finished →
    ∀ o, (i, o) ∈ (σ.run sched).2 → o = .failed (.other "StopIteration")
  | [], σ, i, _, o, hm => by simp [Sys.run_nil] at hm
  | j :: rest, σ, i, hf, o, hm => by
    cases hc : σ.2[j]? with
    | none =>
      rw [Sys.run_cons_none _ hc] at hm
      exact finished_trace rest σ i hf o hm
    | some c =>
      rw [Sys.run_cons_some _ hc] at hm
      simp only [List.mem_cons, Prod.mk.injEq] at hm
      by_cases hij : j = i
      · subst hij
        rw [hf] at hc
        cases hc
        rcases hm with ⟨_, rfl⟩ | hm
        · rfl
        · refine finished_trace rest _ j ?_ o hm
          simp only [CoSt.resume]
          rw [List.getElem?_set_self (by
            have := List.getElem?_eq_some_iff.mp hf
            exact this.1)]
      · rcases hm with ⟨e, _⟩ | hm
        · exact absurd e.symm hij
        · refine finished_trace rest _ i ?_ o hm
          simp only
          rw [List.getElem?_set_ne hij]
          exact hf

/-! ### systems satisfying the local invariants -/

/-- the invariant of a system: the index has its shape and the auxiliary invariants of reachable
    states, and every generator its local invariant -/
structure SysOk (σ : Sys) (t : T) : Prop where
  shape : Shape σ.1 t
  inv   : Inv σ.1 t
  ok    : ∀ c ∈ σ.2, CoOk σ.1 t c

/-- the submitted LRU is a page, and crawled if the submission asks for it -/
def CoSubmitted (s : State) (t : T) (x : LRU × Bool × Bool) : Prop :=
  IsPage s t x.1 ∧ (x.2.1 = true → IsCrawled s t x.1)

theorem CoSubmitted.mono {s s' : State} {t t' : T} {A : List (LRU × Bool × Bool)} {x : LRU × Bool × Bool}
    (a : Adds s t s' t' A) (h : CoSubmitted s t x) : CoSubmitted s' t' x :=
  ⟨(a.page _).mpr (Or.inl h.1), fun hx => a.must _ (Or.inl (h.2 hx))⟩

theorem CoSubmitted.of_adds {s s' : State} {t t' : T} {A : List (LRU × Bool × Bool)} {x : LRU × Bool × Bool}
    (a : Adds s t s' t' A) (hx : x ∈ A) : CoSubmitted s' t' x :=
  ⟨(a.page _).mpr (Or.inr ⟨x, hx, rfl⟩), fun hm => a.must _ (Or.inr ⟨x, hx, rfl, hm⟩)⟩

/-- what a schedule does to a system satisfying the invariant (`res` is the result of `σ.run sched`:
    the system reached and the trace) -/
structure SchedSpec (σ : Sys) (t : T) (res : Sys × List (Nat × CoOut)) (t' : T)
    (A : List (LRU × Bool × Bool)) : Prop where
  /-- the invariant is kept: shape, `Inv`, all local invariants -/
  ok       : SysOk res.1 t'
  ext      : Ext σ.1 t res.1.1 t'
  le       : σ.1 ⊑ res.1.1
  link     : CoLinkStep σ.1 res.1.1
  /-- the page set and the crawled set move by exactly the list `A` … -/
  adds     : Adds σ.1 t res.1.1 t' A
  /-- … every item of which some generator had still to submit -/
  sound    : ∀ x ∈ A, ∃ c ∈ σ.2, x ∈ c.todo
  /-- everything generator `i` had to submit has been submitted, unless it never returned -/
  complete : ∀ i c, σ.2[i]? = some c → ∀ x ∈ c.todo, CoSubmitted res.1.1 t' x ∨ ∀ a, (i, CoOut.done a) ∉ res.2
  /-- no failure of a writer other than the `KeyError` of `__add_page`, or `StopIteration` after its end -/
  fail     : ∀ i c e, σ.2[i]? = some c → c.isWriter → (i, CoOut.failed e) ∈ res.2 →
               e = .other "KeyError" ∨ e = .other "StopIteration"
  /-- the answer of a page query lists pages of the index only (with their crawled marks) -/
  answers  : ∀ i c a, σ.2[i]? = some c → c.isPagesQuery → (i, CoOut.done a) ∈ res.2 → AnswerOk res.1.1 t' a

theorem co_mem_of_getElem? {α : Type} {l : List α} {i : Nat} {a : α} (h : l[i]? = some a) : a ∈ l :=
  List.mem_of_getElem? h

/-- **every schedule**: the invariant of the system is kept, and the page set moves as described -/
theorem sched_spec : ∀ (sched : Sched) (σ : Sys) (t : T), SysOk σ t →
    ∃ t' A, SchedSpec σ t (σ.run sched) t' A
  | [], σ, t, h => by
    refine ⟨t, [], h, Ext.refl h.shape, Le.refl _, CoLinkStep.refl _, Adds.refl h.inv, fun x hx => by simp at hx, ?_, ?_, ?_⟩
    · intro i c _ x _
      exact Or.inr (fun a hm => by simp [Sys.run_nil] at hm)
    · intro i c e _ _ hm
      simp [Sys.run_nil] at hm
    · intro i c a _ _ hm
      simp [Sys.run_nil] at hm
  | j :: rest, σ, t, h => by
    cases hc : σ.2[j]? with
    | none =>
      rw [Sys.run_cons_none _ hc]
      exact sched_spec rest σ t h
    | some cj =>
      have hjlt : j < σ.2.length := (List.getElem?_eq_some_iff.mp hc).1
      obtain ⟨t1, sec⟩ := resume_sec h.shape cj
      obtain ⟨A1, rest1, a1, e1, ok1, hy1, hd1, hf1, hans1, _⟩ := sec.spec h.inv (h.ok cj (co_mem_of_getElem? hc))
      have h1 : SysOk ((cj.resume σ.1).1, σ.2.set j (cj.resume σ.1).2.1) t1 := by
        refine ⟨sec.ext.shape, a1.inv, fun c hm => ?_⟩
        rcases List.mem_or_eq_of_mem_set hm with hm | rfl
        · exact (h.ok c hm).mono h.shape sec.ext sec.le
        · exact ok1
      obtain ⟨t2, A2, sp⟩ := sched_spec rest _ t1 h1
      refine ⟨t2, A1 ++ A2, ?_⟩
      rw [Sys.run_cons_some _ hc]
      refine ⟨sp.ok, sec.ext.trans sp.ext, sec.le.trans sp.le, sec.link.trans sp.link, a1.trans sp.adds, ?_, ?_, ?_, ?_⟩
      · intro x hx
        rcases List.mem_append.mp hx with hx | hx
        · exact ⟨cj, co_mem_of_getElem? hc, by rw [e1]; exact List.mem_append_left _ hx⟩
        · obtain ⟨c, hcm, hxc⟩ := sp.sound x hx
          rcases List.mem_or_eq_of_mem_set hcm with hcm | rfl
          · exact ⟨c, hcm, hxc⟩
          · by_cases ho : (cj.resume σ.1).2.2 = .yielded
            · rw [hy1 ho] at hxc
              exact ⟨cj, co_mem_of_getElem? hc, by rw [e1]; exact List.mem_append_right _ hxc⟩
            · rw [resume_not_yielded _ _ ho] at hxc
              simp [CoSt.todo] at hxc
      · intro i c hi x hx
        by_cases hij : j = i
        · subst hij
          rw [hc] at hi
          cases hi
          rw [e1] at hx
          rcases List.mem_append.mp hx with hx | hx
          · exact Or.inl ((CoSubmitted.of_adds a1 hx).mono sp.adds)
          · have hset : (σ.2.set j (cj.resume σ.1).2.1)[j]? = some (cj.resume σ.1).2.1 :=
              List.getElem?_set_self hjlt
            by_cases ho : (cj.resume σ.1).2.2 = .yielded
            · rcases sp.complete j _ hset x (by rw [hy1 ho]; exact hx) with hh | hn
              · exact Or.inl hh
              · refine Or.inr (fun a hm => ?_)
                rcases List.mem_cons.mp hm with e | hm
                · simp only [Prod.mk.injEq, true_and] at e
                  rw [ho] at e
                  cases e
                · exact hn a hm
            · refine Or.inr (fun a hm => ?_)
              rcases List.mem_cons.mp hm with e | hm
              · simp only [Prod.mk.injEq, true_and] at e
                have := hd1 a e.symm
                rw [this] at hx
                simp at hx
              · have hset' : (σ.2.set j (cj.resume σ.1).2.1)[j]? = some .finished := by
                  rw [hset, resume_not_yielded _ _ ho]
                have := finished_trace rest _ j hset' _ hm
                cases this
        · have hset : (σ.2.set j (cj.resume σ.1).2.1)[i]? = some c := by
            rw [List.getElem?_set_ne hij]; exact hi
          rcases sp.complete i c hset x hx with hh | hn
          · exact Or.inl hh
          · refine Or.inr (fun a hm => ?_)
            rcases List.mem_cons.mp hm with e | hm
            · simp only [Prod.mk.injEq] at e
              exact hij e.1.symm
            · exact hn a hm
      · intro i c e hi hw hm
        by_cases hij : j = i
        · subst hij
          rw [hc] at hi
          cases hi
          have hset : (σ.2.set j (cj.resume σ.1).2.1)[j]? = some (cj.resume σ.1).2.1 :=
            List.getElem?_set_self hjlt
          rcases List.mem_cons.mp hm with e' | hm
          · simp only [Prod.mk.injEq, true_and] at e'
            rcases hf1 e e'.symm hw with h' | ⟨_, h'⟩
            · exact Or.inl h'
            · exact Or.inr h'
          · by_cases ho : (cj.resume σ.1).2.2 = .yielded
            · exact sp.fail j _ e hset ((resume_yielded_kind _ _ ho).1 hw) hm
            · have hset' : (σ.2.set j (cj.resume σ.1).2.1)[j]? = some .finished := by
                rw [hset, resume_not_yielded _ _ ho]
              have := finished_trace rest _ j hset' _ hm
              simp only [CoOut.failed.injEq] at this
              exact Or.inr this
        · have hset : (σ.2.set j (cj.resume σ.1).2.1)[i]? = some c := by
            rw [List.getElem?_set_ne hij]; exact hi
          rcases List.mem_cons.mp hm with e' | hm
          · simp only [Prod.mk.injEq] at e'
            exact absurd e'.1.symm hij
          · exact sp.fail i c e hset hw hm
      · intro i c a hi hq hm
        by_cases hij : j = i
        · subst hij
          rw [hc] at hi
          cases hi
          have hset : (σ.2.set j (cj.resume σ.1).2.1)[j]? = some (cj.resume σ.1).2.1 :=
            List.getElem?_set_self hjlt
          rcases List.mem_cons.mp hm with e' | hm
          · simp only [Prod.mk.injEq, true_and] at e'
            exact (hans1 a e'.symm hq).mono sec.ext.shape sp.ext sp.le
          · by_cases ho : (cj.resume σ.1).2.2 = .yielded
            · exact sp.answers j _ a hset ((resume_yielded_kind _ _ ho).2.1 hq) hm
            · have hset' : (σ.2.set j (cj.resume σ.1).2.1)[j]? = some .finished := by
                rw [hset, resume_not_yielded _ _ ho]
              have := finished_trace rest _ j hset' _ hm
              cases this
        · have hset : (σ.2.set j (cj.resume σ.1).2.1)[i]? = some c := by
            rw [List.getElem?_set_ne hij]; exact hi
          rcases List.mem_cons.mp hm with e' | hm
          · simp only [Prod.mk.injEq] at e'
            exact absurd e'.1.symm hij
          · exact sp.answers i c a hset hq hm

/-! ### from fresh generators to the final page set -/

/-- the long-running requests -/
inductive CoReq where
  | batch (data : List (Bytes × List Bytes))          -- `index_batch_crawl_iter(data)`
  | rule (anchor : Bytes) (r : Rule)                    -- `add_webentity_creation_rule_iter(prefix, pattern)`
  | queryPages (prefixes : List Bytes)                  -- `get_webentity_pages_iter(prefixes)`
  | queryNet (out auto : Bool)                          -- `get_webentities_links_iter(out, include_auto)`
  | queryOther (q : QSt)                                -- the seven other read-only generators, in their initial states
deriving Repr, DecidableEq, Inhabited

/-- the generator object before its first `next()` -/
def CoReq.init : CoReq → CoSt
  | .batch data => .batch (BatchSt.init data)
  | .rule a r => .rule (RuleSt.init a r)
  | .queryPages ps => .pages { prefixes := ps }
  | .queryNet o a => .net { out := o, auto := a }
  | .queryOther q => .query q

/-- the LRUs the request submits as pages, with their (mustCrawl, mayCrawl) marks: those of the atomic
    request (`Op.pages`) -/
def CoReq.pages : CoReq → List (LRU × Bool × Bool)
  | .batch data => batchPages data
  | _ => []

/-- the atomic write request a generator stands for (queries: none) -/
def CoReq.op : CoReq → Option Op
  | .batch data => some (.batch data)
  | .rule a r => some (.addRule a r)
  | _ => none

/-- well-formed requests: every submitted byte string cuts into at least one stem (`OpWf` of the atomic
    request), and a crawl batch is small enough for the iteration bound `CoSt.resume` grants a section -/
def CoReq.Wf : CoReq → Prop
  | .batch data => (∀ d ∈ data, lruIter d.1 ≠ [] ∧ ∀ x ∈ d.2, lruIter x ≠ []) ∧
      1 + (data.map (fun d => d.2.length + 2)).sum < 1000000
  | .rule a _ => lruIter a ≠ []
  | .queryPages ps => ∀ pf ∈ ps, lruIter pf ≠ []
  | .queryNet _ _ => True
  | .queryOther _ => True

theorem CoReq.todo_init (r : CoReq) : r.init.todo = r.pages := by
  cases r <;> rfl

theorem CoReq.init_ok (s : State) (t : T) (r : CoReq) (h : r.Wf) : CoOk s t r.init := by
  cases r with
  | batch data =>
    refine ⟨BatchOk.init s t data h.1, ?_⟩
    have : batchWork (BatchSt.init data) = 1 + 0 + (data.map (fun d => d.2.length + 2)).sum := rfl
    rw [this]
    have := h.2
    omega
  | rule a r => exact RuleOk.init s t a r h
  | queryPages ps => exact PagesOk.init s t ps h
  | queryNet o a => trivial
  | queryOther q => trivial

theorem CoReq.op_pages (r : CoReq) (o : Op) (h : r.op = some o) : o.pages = r.pages := by
  cases r <;> simp only [CoReq.op, Option.some.injEq] at h <;> first | (subst h; rfl) | cases h

theorem CoReq.op_wf (r : CoReq) (o : Op) (h : r.op = some o) (hw : r.Wf) : OpWf o := by
  cases r with
  | batch data => simp only [CoReq.op, Option.some.injEq] at h; subst h; exact hw.1
  | rule a r => simp only [CoReq.op, Option.some.injEq] at h; subst h; exact hw
  | queryPages ps => cases h
  | queryNet o a => cases h
  | queryOther q => cases h

theorem CoReq.pages_of_op_none (r : CoReq) (h : r.op = none) : r.pages = [] := by
  cases r <;> first | rfl | cases h

theorem co_batchPages_marks (data : List (Bytes × List Bytes)) : ∀ x ∈ batchPages data, x.2.1 = x.2.2 := by
  intro x hx
  simp only [batchPages, List.mem_flatMap, List.mem_cons, List.mem_map] at hx
  obtain ⟨d, _, rfl | ⟨y, _, rfl⟩⟩ := hx <;> rfl

theorem CoReq.pages_marks (r : CoReq) : ∀ x ∈ r.pages, x.2.1 = x.2.2 := by
  cases r with
  | batch data => exact co_batchPages_marks data
  | rule a r => intro x hx; simp [CoReq.pages] at hx
  | queryPages ps => intro x hx; simp [CoReq.pages] at hx
  | queryNet o a => intro x hx; simp [CoReq.pages] at hx
  | queryOther q => intro x hx; simp [CoReq.pages] at hx

theorem sysOk_init {s : State} {t : T} (hs : Shape s t) (hi : Inv s t) (reqs : List CoReq)
    (hwf : ∀ r ∈ reqs, r.Wf) : SysOk (s, reqs.map CoReq.init) t :=
  ⟨hs, hi, fun c hc => by
    obtain ⟨r, hr, rfl⟩ := List.mem_map.mp hc
    exact CoReq.init_ok s t r (hwf r hr)⟩

/-- **C16, pages, any schedule (also partial ones)**: started from fresh generators on an index satisfying the
    invariants of reachable states, after *every* schedule: the invariants hold, nothing is lost, a page of
    the index was a page before or is submitted by one of the requests, and every page submitted by a
    request whose generator has returned is a page (crawled if the request says so) -/
theorem C16_pages_any_schedule {s : State} {t : T} (hs : Shape s t) (hi : Inv s t) (reqs : List CoReq)
    (hwf : ∀ r ∈ reqs, r.Wf) (sched : Sched) :
    ∃ t', Shape (Sys.run (s, reqs.map CoReq.init) sched).1.1 t' ∧
      Inv (Sys.run (s, reqs.map CoReq.init) sched).1.1 t' ∧
      s ⊑ (Sys.run (s, reqs.map CoReq.init) sched).1.1 ∧
      (∀ p b, (p, b) ∈ t.entries s [] → (p, b) ∈ t'.entries (Sys.run (s, reqs.map CoReq.init) sched).1.1 []) ∧
      (∀ p, IsPage (Sys.run (s, reqs.map CoReq.init) sched).1.1 t' p →
        IsPage s t p ∨ ∃ r ∈ reqs, ∃ x ∈ r.pages, x.1 = p) ∧
      (∀ p, IsCrawled (Sys.run (s, reqs.map CoReq.init) sched).1.1 t' p →
        IsCrawled s t p ∨ ∃ r ∈ reqs, ∃ x ∈ r.pages, x.1 = p ∧ x.2.1 = true) ∧
      (∀ p, (IsPage s t p → IsPage (Sys.run (s, reqs.map CoReq.init) sched).1.1 t' p) ∧
        (IsCrawled s t p → IsCrawled (Sys.run (s, reqs.map CoReq.init) sched).1.1 t' p)) ∧
      (∀ i r a, reqs[i]? = some r → (i, CoOut.done a) ∈ (Sys.run (s, reqs.map CoReq.init) sched).2 →
        ∀ x ∈ r.pages, IsPage (Sys.run (s, reqs.map CoReq.init) sched).1.1 t' x.1 ∧
          (x.2.1 = true → IsCrawled (Sys.run (s, reqs.map CoReq.init) sched).1.1 t' x.1)) ∧
      (∀ i r e, reqs[i]? = some r → (i, CoOut.failed e) ∈ (Sys.run (s, reqs.map CoReq.init) sched).2 →
        r.op ≠ none → e = .other "KeyError" ∨ e = .other "StopIteration") := by
  obtain ⟨t', A, sp⟩ := sched_spec sched (s, reqs.map CoReq.init) t (sysOk_init hs hi reqs hwf)
  have hsound : ∀ x ∈ A, ∃ r ∈ reqs, x ∈ r.pages := by
    intro x hx
    obtain ⟨c, hc, hxc⟩ := sp.sound x hx
    obtain ⟨r, hr, rfl⟩ := List.mem_map.mp hc
    exact ⟨r, hr, by rw [← CoReq.todo_init]; exact hxc⟩
  refine ⟨t', sp.ok.shape, sp.ok.inv, sp.le, sp.ext.keep, ?_, ?_, ?_, ?_, ?_⟩
  · intro p hp
    rcases (sp.adds.page p).mp hp with hp | ⟨x, hx, e⟩
    · exact Or.inl hp
    · obtain ⟨r, hr, hxr⟩ := hsound x hx
      exact Or.inr ⟨r, hr, x, hxr, e⟩
  · intro p hp
    rcases sp.adds.may p hp with hp | ⟨x, hx, e, hm⟩
    · exact Or.inl hp
    · obtain ⟨r, hr, hxr⟩ := hsound x hx
      exact Or.inr ⟨r, hr, x, hxr, e, by rw [CoReq.pages_marks r x hxr]; exact hm⟩
  · intro p
    exact ⟨fun hp => (sp.adds.page p).mpr (Or.inl hp), fun hp => sp.adds.must p (Or.inl hp)⟩
  · intro i r a hi' hd x hx
    have hget : (s, reqs.map CoReq.init).2[i]? = some r.init := by
      simp only [List.getElem?_map, hi', Option.map_some]
    rcases sp.complete i r.init hget x (by rw [CoReq.todo_init]; exact hx) with hh | hn
    · exact hh
    · exact absurd hd (hn a)
  · intro i r e hi' hm hop
    have hget : (s, reqs.map CoReq.init).2[i]? = some r.init := by
      simp only [List.getElem?_map, hi', Option.map_some]
    refine sp.fail i r.init e hget ?_ hm
    cases r with
    | batch data => trivial
    | rule a r => trivial
    | queryPages ps => exact absurd rfl hop
    | queryNet o a => exact absurd rfl hop
    | queryOther q => exact absurd rfl hop

/-- **C16, final pages, independent of the schedule**: once every writer generator has returned, the pages of the
    index are the pages it had before plus the pages submitted by the requests, and the crawled pages
    those crawled before plus the crawled sources — whatever the schedule was -/
theorem C16_final_pages {s : State} {t : T} (hs : Shape s t) (hi : Inv s t) (reqs : List CoReq)
    (hwf : ∀ r ∈ reqs, r.Wf) (sched : Sched)
    (hdone : ∀ i r, reqs[i]? = some r → r.op ≠ none →
      ∃ a, (i, CoOut.done a) ∈ (Sys.run (s, reqs.map CoReq.init) sched).2) :
    ∃ t', Shape (Sys.run (s, reqs.map CoReq.init) sched).1.1 t' ∧
      Inv (Sys.run (s, reqs.map CoReq.init) sched).1.1 t' ∧
      s ⊑ (Sys.run (s, reqs.map CoReq.init) sched).1.1 ∧
      (∀ p, IsPage (Sys.run (s, reqs.map CoReq.init) sched).1.1 t' p ↔
        IsPage s t p ∨ ∃ r ∈ reqs, ∃ x ∈ r.pages, x.1 = p) ∧
      (∀ p, IsCrawled (Sys.run (s, reqs.map CoReq.init) sched).1.1 t' p ↔
        IsCrawled s t p ∨ ∃ r ∈ reqs, ∃ x ∈ r.pages, x.1 = p ∧ x.2.1 = true) := by
  obtain ⟨t', h1, h2, h3, _, h5, h6, h7, h8, _⟩ := C16_pages_any_schedule hs hi reqs hwf sched
  refine ⟨t', h1, h2, h3, fun p => ⟨h5 p, ?_⟩, fun p => ⟨h6 p, ?_⟩⟩
  · rintro (hp | ⟨r, hr, x, hx, rfl⟩)
    · exact (h7 p).1 hp
    · obtain ⟨i, hlt, rfl⟩ := List.getElem_of_mem hr
      have hop : reqs[i].op ≠ none := fun e => by rw [CoReq.pages_of_op_none _ e] at hx; simp at hx
      obtain ⟨a, ha⟩ := hdone i _ (List.getElem?_eq_getElem hlt) hop
      exact (h8 i _ a (List.getElem?_eq_getElem hlt) ha x hx).1
  · rintro (hp | ⟨r, hr, x, hx, rfl, hm⟩)
    · exact (h7 p).2 hp
    · obtain ⟨i, hlt, rfl⟩ := List.getElem_of_mem hr
      have hop : reqs[i].op ≠ none := fun e => by rw [CoReq.pages_of_op_none _ e] at hx; simp at hx
      obtain ⟨a, ha⟩ := hdone i _ (List.getElem?_eq_getElem hlt) hop
      exact (h8 i _ a (List.getElem?_eq_getElem hlt) ha x hx).2 hm

/-- **… hence equal to the requests applied one after another, in any order**: the final page set and
    crawled set of any complete schedule are those of the atomic requests run sequentially in the order
    `reqs'`, for every permutation `reqs'` of the requests -/
theorem C16_final_pages_sequential {s : State} {t : T} (hs : Shape s t) (hi : Inv s t) (reqs : List CoReq)
    (hwf : ∀ r ∈ reqs, r.Wf) (sched : Sched)
    (hdone : ∀ i r, reqs[i]? = some r → r.op ≠ none →
      ∃ a, (i, CoOut.done a) ∈ (Sys.run (s, reqs.map CoReq.init) sched).2)
    (reqs' : List CoReq) (hperm : reqs'.Perm reqs) (hok : NoKeyErr s (reqs'.filterMap CoReq.op)) :
    ∃ t' t'', Shape (Sys.run (s, reqs.map CoReq.init) sched).1.1 t' ∧
      Shape (s.run (reqs'.filterMap CoReq.op)) t'' ∧
      (∀ p, IsPage (Sys.run (s, reqs.map CoReq.init) sched).1.1 t' p ↔
        IsPage (s.run (reqs'.filterMap CoReq.op)) t'' p) ∧
      (∀ p, IsCrawled (Sys.run (s, reqs.map CoReq.init) sched).1.1 t' p ↔
        IsCrawled (s.run (reqs'.filterMap CoReq.op)) t'' p) := by
  obtain ⟨t', h1, _, _, h4, h5⟩ := C16_final_pages hs hi reqs hwf sched hdone
  have hnc : ∀ op ∈ reqs'.filterMap CoReq.op, ∀ d rs, op ≠ Op.clear d rs := by
    intro op hop d rs e
    obtain ⟨r, _, hr⟩ := List.mem_filterMap.mp hop
    subst e
    cases r <;> simp [CoReq.op] at hr
  have hopwf : ∀ op ∈ reqs'.filterMap CoReq.op, OpWf op := by
    intro op hop
    obtain ⟨r, hr, ho⟩ := List.mem_filterMap.mp hop
    exact CoReq.op_wf r op ho (hwf r ((hperm.mem_iff).mp hr))
  obtain ⟨t'', x, f⟩ := run_spec (reqs'.filterMap CoReq.op) s t hs hnc
  have a := f hopwf hi hok
  have hmem : ∀ x, x ∈ (reqs'.filterMap CoReq.op).flatMap Op.pages ↔ ∃ r ∈ reqs, x ∈ r.pages := by
    intro x
    simp only [List.mem_flatMap, List.mem_filterMap]
    constructor
    · rintro ⟨op, ⟨r, hr, ho⟩, hx⟩
      exact ⟨r, (hperm.mem_iff).mp hr, by rw [← CoReq.op_pages r op ho]; exact hx⟩
    · rintro ⟨r, hr, hx⟩
      cases ho : r.op with
      | none => rw [CoReq.pages_of_op_none r ho] at hx; simp at hx
      | some op => exact ⟨op, ⟨r, (hperm.mem_iff).mpr hr, ho⟩, by rw [CoReq.op_pages r op ho]; exact hx⟩
  refine ⟨t', t'', h1, x.shape, fun p => ?_, fun p => ?_⟩
  · rw [h4, a.page]
    constructor
    · rintro (hp | ⟨r, hr, y, hy, e⟩)
      · exact Or.inl hp
      · exact Or.inr ⟨y, (hmem y).mpr ⟨r, hr, hy⟩, e⟩
    · rintro (hp | ⟨y, hy, e⟩)
      · exact Or.inl hp
      · obtain ⟨r, hr, hy⟩ := (hmem y).mp hy
        exact Or.inr ⟨r, hr, y, hy, e⟩
  · rw [h5]
    constructor
    · rintro (hp | ⟨r, hr, y, hy, e, hm⟩)
      · exact a.must p (Or.inl hp)
      · exact a.must p (Or.inr ⟨y, (hmem y).mpr ⟨r, hr, hy⟩, e, hm⟩)
    · intro hp
      rcases a.may p hp with hp | ⟨y, hy, e, hm⟩
      · exact Or.inl hp
      · obtain ⟨r, hr, hy⟩ := (hmem y).mp hy
        exact Or.inr ⟨r, hr, y, hy, e, by rw [CoReq.pages_marks r y hy]; exact hm⟩

/-- **C16, page query, soundness of what is true**: whatever the schedule, whatever the writers do around
    it, the answer of `get_webentity_pages_iter` lists only LRUs that are pages of the index (each was a page
    when it was visited and pages are never lost), and an item reported crawled is crawled. (The stronger
    clause "every item belonged to the webentity at some moment of the query" is false of the code:
    finding F16.) -/
theorem C16_pages_query_sound {s : State} {t : T} (hs : Shape s t) (hi : Inv s t) (reqs : List CoReq)
    (hwf : ∀ r ∈ reqs, r.Wf) (sched : Sched) (i : Nat) (ps : List Bytes) (a : Ans)
    (hreq : reqs[i]? = some (.queryPages ps))
    (hdone : (i, CoOut.done a) ∈ (Sys.run (s, reqs.map CoReq.init) sched).2) :
    ∃ t', Shape (Sys.run (s, reqs.map CoReq.init) sched).1.1 t' ∧
      ∃ l, a = .pages l ∧ ∀ x ∈ l,
        IsPage (Sys.run (s, reqs.map CoReq.init) sched).1.1 t' (lruIter x.1) ∧
        (x.2 = true → IsCrawled (Sys.run (s, reqs.map CoReq.init) sched).1.1 t' (lruIter x.1)) := by
  obtain ⟨t', A, sp⟩ := sched_spec sched (s, reqs.map CoReq.init) t (sysOk_init hs hi reqs hwf)
  have hget : (s, reqs.map CoReq.init).2[i]? = some (CoReq.queryPages ps).init := by
    simp only [List.getElem?_map, hreq, Option.map_some]
  obtain ⟨l, e, hl⟩ := sp.answers i _ a hget trivial hdone
  exact ⟨t', sp.ok.shape, l, e, hl⟩

/-- **C16, links, any schedule**: started from fresh generators, after every schedule the list heads are
    inside the link store and every out-list and in-list of the index before is a suffix of the list after -/
theorem C16_links_any_schedule {s : State} {t : T} (hs : Shape s t) (hk : HeadsOk s) (cos : List CoSt)
    (sched : Sched) :
    HeadsOk (Sys.run (s, cos) sched).1.1 ∧ LinkGrow s (Sys.run (s, cos) sched).1.1 :=
  sched_links sched (s, cos) t hs hk

/-! ### the page query, completeness -/

/-- `Q` holds of the index at every moment of the schedule: before it, between any two sections, after it -/
def Throughout (Q : State → Prop) : Sys → Sched → Prop
  | σ, [] => Q σ.1
  | σ, j :: rest => Q σ.1 ∧ Throughout Q (σ.step j).1 rest

theorem sysOk_step {σ : Sys} {t : T} (h : SysOk σ t) {j : Nat} {cj : CoSt} (hc : σ.2[j]? = some cj) :
    ∃ t1, SysOk ((cj.resume σ.1).1, σ.2.set j (cj.resume σ.1).2.1) t1 ∧ Ext σ.1 t (cj.resume σ.1).1 t1 ∧
      σ.1 ⊑ (cj.resume σ.1).1 := by
  obtain ⟨t1, sec⟩ := resume_sec h.shape cj
  obtain ⟨A1, rest1, a1, e1, ok1, _⟩ := sec.spec h.inv (h.ok cj (co_mem_of_getElem? hc))
  refine ⟨t1, ⟨sec.ext.shape, a1.inv, fun c hm => ?_⟩, sec.ext, sec.le⟩
  rcases List.mem_or_eq_of_mem_set hm with hm | rfl
  · exact (h.ok c hm).mono h.shape sec.ext sec.le
  · exact ok1

/-- a target covered by the query and qualifying at every moment of the schedule is in the query's answer -/
theorem sched_cover : ∀ (sched : Sched) (σ : Sys) (t : T), SysOk σ t → ∀ (i : Nat) (p : PagesSt) (g : QTarget),
    σ.2[i]? = some (.pages p) → QCovers σ.1 p g → Throughout (fun s => QClear s g) σ sched →
    ∀ l, (i, CoOut.done (.pages l)) ∈ (σ.run sched).2 → ∃ cr, (g.cur, cr) ∈ l
  | [], σ, t, _, i, p, g, _, _, _, l, hm => by simp [Sys.run_nil] at hm
  | j :: rest, σ, t, h, i, p, g, hi, hcov, hthr, l, hm => by
    obtain ⟨hnow, hthr⟩ := hthr
    cases hc : σ.2[j]? with
    | none =>
      rw [Sys.run_cons_none _ hc] at hm
      rw [Sys.step_none hc] at hthr
      exact sched_cover rest σ t h i p g hi hcov hthr l hm
    | some cj =>
      rw [Sys.run_cons_some _ hc] at hm
      rw [Sys.step_some hc] at hthr
      have hjlt : j < σ.2.length := (List.getElem?_eq_some_iff.mp hc).1
      obtain ⟨t1, h1, x1, l1⟩ := sysOk_step h hc
      by_cases hij : j = i
      · subst hij
        rw [hc] at hi
        cases hi
        have hset : (σ.2.set j ((CoSt.pages p).resume σ.1).2.1)[j]? = some ((CoSt.pages p).resume σ.1).2.1 :=
          List.getElem?_set_self hjlt
        obtain ⟨hy, hd⟩ := pagesResume_cover ((σ.1.trie.size + 1) * (p.prefixes.length + 1)) σ.1 p g hnow hcov
        by_cases ho : (pagesResume ((σ.1.trie.size + 1) * (p.prefixes.length + 1)) σ.1 p).2 = .yielded
        · rcases List.mem_cons.mp hm with e | hm
          · simp only [Prod.mk.injEq, true_and] at e
            rw [resume_pages_out, ho] at e
            cases e
          · have hset' : (σ.2.set j ((CoSt.pages p).resume σ.1).2.1)[j]? =
                some (.pages (pagesResume ((σ.1.trie.size + 1) * (p.prefixes.length + 1)) σ.1 p).1) := by
              rw [hset, resume_pages_yielded σ.1 p ho]
            exact sched_cover rest _ t1 h1 j _ g hset' (hy ho) hthr l hm
        · rcases List.mem_cons.mp hm with e | hm
          · simp only [Prod.mk.injEq, true_and] at e
            rw [resume_pages_out] at e
            exact hd l e.symm
          · have hset' : (σ.2.set j ((CoSt.pages p).resume σ.1).2.1)[j]? = some .finished := by
              rw [hset, resume_pages_stopped σ.1 p ho]
            have := finished_trace rest _ j hset' _ hm
            cases this
      · have hset : (σ.2.set j (cj.resume σ.1).2.1)[i]? = some (.pages p) := by
          rw [List.getElem?_set_ne hij]; exact hi
        have hpo : PagesOk σ.1 t p := h.ok _ (co_mem_of_getElem? hi)
        rcases List.mem_cons.mp hm with e | hm
        · simp only [Prod.mk.injEq] at e
          exact absurd e.1.symm hij
        · exact sched_cover rest _ t1 h1 i p g hset (hcov.mono h.shape hpo x1 l1) hthr l hm

/-- **C16, page query, completeness**: a page that hangs below one of the query's prefixes by tree pointers
    present when the query is created, that is a page at every moment of the schedule, and that has no
    webentity on itself or on any of its ancestors below the prefix node at any moment of the schedule, is
    in the answer of the query — whatever the writers do in between -/
theorem C16_pages_query_complete {s : State} {t : T} (hs : Shape s t) (hi : Inv s t) (reqs : List CoReq)
    (hwf : ∀ r ∈ reqs, r.Wf) (sched : Sched) (i : Nat) (ps : List Bytes)
    (hreq : reqs[i]? = some (.queryPages ps)) (g : QTarget) (pf : Bytes) (hpf : pf ∈ ps)
    (hroot : s.lruNode (lruIter pf) = some g.root)
    (hpath : HPath s g.root g.root (lruDirname pf) g.b g.cur g.anc)
    (hclear : Throughout (fun s' => QClear s' g) (s, reqs.map CoReq.init) sched)
    (l : List (Bytes × Bool))
    (hdone : (i, CoOut.done (.pages l)) ∈ (Sys.run (s, reqs.map CoReq.init) sched).2) :
    ∃ cr, (g.cur, cr) ∈ l := by
  have hget : (s, reqs.map CoReq.init).2[i]? = some (.pages { prefixes := ps }) := by
    simp only [List.getElem?_map, hreq, Option.map_some]; rfl
  refine sched_cover sched (s, reqs.map CoReq.init) t (sysOk_init hs hi reqs hwf) i _ g hget ?_ hclear l hdone
  exact Or.inr (Or.inr ⟨pf, hpf, hroot, g.anc, fun a ha => ha, hpath⟩)

theorem Throughout.imp {Q Q' : State → Prop} (hq : ∀ s, Q s → Q' s) : ∀ (sched : Sched) (σ : Sys),
    Throughout Q σ sched → Throughout Q' σ sched
  | [], _, h => hq _ h
  | _ :: rest, _, h => ⟨hq _ h.1, Throughout.imp hq rest _ h.2⟩

/-- **C16, page query, completeness, in terms of the finite map**: let `pf` be one of the query's prefixes,
    stored at block `root` when the query is created, and let the LRU `pf ++ r` (`r ≠ []`) be stored at block
    `b` at that time. If at every moment of the schedule `b` is a page and neither `b` nor the block of any
    intermediate LRU `pf ++ r.take k` (`0 < k < |r|`) carries a webentity, then the answer of the query
    lists the page — whatever the writers do in between (they may add pages, siblings, children, webentities
    elsewhere, links …) -/
theorem C16_pages_query_complete_entries {s : State} {t : T} (hs : Shape s t) (hi : Inv s t) (reqs : List CoReq)
    (hwf : ∀ r ∈ reqs, r.Wf) (sched : Sched) (i : Nat) (ps : List Bytes)
    (hreq : reqs[i]? = some (.queryPages ps)) (pf : Bytes) (hpf : pf ∈ ps) (root b : Nat) (r : LRU) (hr : r ≠ [])
    (hq : (lruIter pf, root) ∈ t.entries s []) (hb : (lruIter pf ++ r, b) ∈ t.entries s [])
    (hclear : Throughout (fun s' => (s'.cell b).flags.page = true ∧ (s'.cell b).we = 0 ∧
        ∀ k m, 0 < k → k < r.length → (lruIter pf ++ r.take k, m) ∈ t.entries s [] → (s'.cell m).we = 0)
      (s, reqs.map CoReq.init) sched)
    (l : List (Bytes × Bool))
    (hdone : (i, CoOut.done (.pages l)) ∈ (Sys.run (s, reqs.map CoReq.init) sched).2) :
    ∃ cr, ((lruIter pf ++ r).flatten, cr) ∈ l := by
  obtain ⟨anc, hpath, hanc⟩ := hpath_of_entries hs hq hb hr
  have hne : lruIter pf ≠ [] := by
    have hw := hwf _ (List.mem_of_getElem? hreq)
    exact hw pf hpf
  have hroot : s.lruNode (lruIter pf) = some root := (lruNode_iff_entries hs _ hne root).mpr hq
  refine C16_pages_query_complete hs hi reqs hwf sched i ps hreq ⟨root, b, (lruIter pf ++ r).flatten, anc⟩ pf hpf
    hroot hpath (Throughout.imp ?_ sched _ hclear) l hdone
  intro s' ⟨h1, h2, h3⟩
  refine ⟨fun n hn => ?_, Or.inr h2, h1⟩
  rcases hanc n hn with e | ⟨k, hk0, hk1, hent⟩
  · exact Or.inl e
  · exact Or.inr (h3 k n hk0 hk1 hent)

/-! ### no request fails -/

/-- **no writer fails, whatever the schedule**: in a system satisfying its invariants whose index has every
    flagged rule anchor in the RAM dictionary (`RulesOk`) and whose rule installations have complete LRUs as
    anchors, `RulesOk` is kept and the only "failure" of a writer is the `StopIteration` of a generator that
    is resumed after it has returned -/
theorem sched_no_failure : ∀ (sched : Sched) (σ : Sys) (t : T), SysOk σ t → RulesOk σ.1 → (∀ c ∈ σ.2, c.canon) →
    RulesOk (σ.run sched).1.1 ∧
    ∀ i c e, σ.2[i]? = some c → c.isWriter → (i, CoOut.failed e) ∈ (σ.run sched).2 → e = .other "StopIteration"
  | [], σ, t, _, ok, _ => ⟨ok, fun i c e _ _ hm => by simp [Sys.run_nil] at hm⟩
  | j :: rest, σ, t, h, ok, hcan => by
    cases hc : σ.2[j]? with
    | none =>
      rw [Sys.run_cons_none _ hc]
      exact sched_no_failure rest σ t h ok hcan
    | some cj =>
      rw [Sys.run_cons_some _ hc]
      have hjlt : j < σ.2.length := (List.getElem?_eq_some_iff.mp hc).1
      obtain ⟨t0, sec⟩ := resume_sec h.shape cj
      obtain ⟨ok1, hcan1, hnk⟩ := sec.rules ok (hcan cj (co_mem_of_getElem? hc))
      obtain ⟨A1, rest1, a1, e1, okc, hy1, hd1, hf1, _⟩ := sec.spec h.inv (h.ok cj (co_mem_of_getElem? hc))
      obtain ⟨t1, h1, _, _⟩ := sysOk_step h hc
      have hcan' : ∀ c ∈ σ.2.set j (cj.resume σ.1).2.1, c.canon := by
        intro c hm
        rcases List.mem_or_eq_of_mem_set hm with hm | rfl
        · exact hcan c hm
        · exact hcan1
      obtain ⟨okf, hfail⟩ := sched_no_failure rest _ t1 h1 ok1 hcan'
      refine ⟨okf, fun i c e hi hw hm => ?_⟩
      by_cases hij : j = i
      · subst hij
        rw [hc] at hi
        cases hi
        have hset : (σ.2.set j (cj.resume σ.1).2.1)[j]? = some (cj.resume σ.1).2.1 :=
          List.getElem?_set_self hjlt
        rcases List.mem_cons.mp hm with e' | hm
        · simp only [Prod.mk.injEq, true_and] at e'
          rcases hf1 e e'.symm hw with hk | ⟨_, hs⟩
          · exact absurd hk (hnk e e'.symm hw)
          · exact hs
        · by_cases ho : (cj.resume σ.1).2.2 = .yielded
          · exact hfail j _ e hset ((resume_yielded_kind _ _ ho).1 hw) hm
          · have hset' : (σ.2.set j (cj.resume σ.1).2.1)[j]? = some .finished := by
              rw [hset, resume_not_yielded _ _ ho]
            have := finished_trace rest _ j hset' _ hm
            simp only [CoOut.failed.injEq] at this
            exact this
      · have hset : (σ.2.set j (cj.resume σ.1).2.1)[i]? = some c := by
          rw [List.getElem?_set_ne hij]; exact hi
        rcases List.mem_cons.mp hm with e' | hm
        · simp only [Prod.mk.injEq] at e'
          exact absurd e'.1.symm hij
        · exact hfail i c e hset hw hm

/-- well-formed requests with complete rule anchors -/
def CoReq.Canon : CoReq → Prop
  | .rule a _ => (lruIter a).flatten = a
  | _ => True

/-- **C16, "no request fails", writers**: started from fresh generators on an index whose flagged rule anchors
    are all in the RAM dictionary, under every schedule no crawl batch and no rule installation ever fails
    (a generator resumed after its end raises `StopIteration`, as Python generators do), and the index keeps
    `RulesOk` -/
theorem C16_no_writer_fails {s : State} {t : T} (hs : Shape s t) (hi : Inv s t) (hr : RulesOk s)
    (reqs : List CoReq) (hwf : ∀ r ∈ reqs, r.Wf) (hcanon : ∀ r ∈ reqs, r.Canon) (sched : Sched) :
    RulesOk (Sys.run (s, reqs.map CoReq.init) sched).1.1 ∧
    ∀ i r e, reqs[i]? = some r → r.op ≠ none →
      (i, CoOut.failed e) ∈ (Sys.run (s, reqs.map CoReq.init) sched).2 → e = .other "StopIteration" := by
  have hcan : ∀ c ∈ (s, reqs.map CoReq.init).2, c.canon := by
    intro c hc
    obtain ⟨r, hr', rfl⟩ := List.mem_map.mp hc
    cases r with
    | batch data => trivial
    | rule a r =>
      intro _
      exact ⟨hwf _ hr', hcanon _ hr'⟩
    | queryPages ps => trivial
    | queryNet o a => trivial
    | queryOther q => trivial
  obtain ⟨okf, hfail⟩ := sched_no_failure sched (s, reqs.map CoReq.init) t (sysOk_init hs hi reqs hwf) hr hcan
  refine ⟨okf, fun i r e hi' hop hm => ?_⟩
  have hget : (s, reqs.map CoReq.init).2[i]? = some r.init := by
    simp only [List.getElem?_map, hi', Option.map_some]
  refine hfail i r.init e hget ?_ hm
  cases r with
  | batch data => trivial
  | rule a r => trivial
  | queryPages ps => exact absurd rfl hop
  | queryNet o a => exact absurd rfl hop
  | queryOther q => exact absurd rfl hop

/-- the atomic counterparts of well-formed generator requests do not raise `KeyError` on an index satisfying
    `RulesOk` -/
theorem noKeyErr_of_rulesOk : ∀ (reqs : List CoReq) (s : State) (t : T), Shape s t → RulesOk s →
    (∀ r ∈ reqs, r.Wf) → (∀ r ∈ reqs, r.Canon) → NoKeyErr s (reqs.filterMap CoReq.op)
  | [], _, _, _, _, _, _ => trivial
  | r :: reqs, s, t, h, ok, hwf, hcan => by
    have ih := fun s' t' (h' : Shape s' t') (ok' : RulesOk s') =>
      noKeyErr_of_rulesOk reqs s' t' h' ok' (fun x hx => hwf x (by simp [hx])) (fun x hx => hcan x (by simp [hx]))
    cases r with
    | batch data =>
      simp only [List.filterMap_cons, CoReq.op]
      obtain ⟨t1, h1, _⟩ := shape_step_any s t h (.batch data) (fun d rs e => by cases e)
      obtain ⟨rp, hrp⟩ := batch_ok h ok data
      refine ⟨?_, ih _ t1 h1 (rulesOk_step h (.batch data) trivial ok)⟩
      simp only [State.step, hrp, Ans.ofExcept]
      intro e; cases e
    | rule a r =>
      simp only [List.filterMap_cons, CoReq.op]
      have hw : lruIter a ≠ [] := hwf (.rule a r) (by simp)
      have hc : (lruIter a).flatten = a := hcan (.rule a r) (by simp)
      obtain ⟨t1, h1, _⟩ := shape_step_any s t h (.addRule a r) (fun d rs e => by cases e)
      obtain ⟨rp, hrp⟩ := addRule_ok h ok a r hw hc
      refine ⟨?_, ih _ t1 h1 (rulesOk_step h (.addRule a r) ⟨hw, hc⟩ ok)⟩
      simp only [State.step, hrp, Ans.ofExcept]
      intro e; cases e
    | queryPages ps =>
      simp only [List.filterMap_cons, CoReq.op]
      exact ih s t h ok
    | queryNet o a =>
      simp only [List.filterMap_cons, CoReq.op]
      exact ih s t h ok
    | queryOther q =>
      simp only [List.filterMap_cons, CoReq.op]
      exact ih s t h ok

/-- **C16, pages: schedule-independence, unconditionally on an index satisfying `RulesOk`**: no generator fails,
    and once all have returned the pages and crawled pages are those of the atomic requests run one after
    another in any order (which do not fail either) -/
theorem C16_final_pages_sequential_rulesOk {s : State} {t : T} (hs : Shape s t) (hi : Inv s t) (hr : RulesOk s)
    (reqs : List CoReq) (hwf : ∀ r ∈ reqs, r.Wf) (hcanon : ∀ r ∈ reqs, r.Canon) (sched : Sched)
    (hdone : ∀ i r, reqs[i]? = some r → r.op ≠ none →
      ∃ a, (i, CoOut.done a) ∈ (Sys.run (s, reqs.map CoReq.init) sched).2)
    (reqs' : List CoReq) (hperm : reqs'.Perm reqs) :
    ∃ t' t'', Shape (Sys.run (s, reqs.map CoReq.init) sched).1.1 t' ∧
      Shape (s.run (reqs'.filterMap CoReq.op)) t'' ∧
      (∀ p, IsPage (Sys.run (s, reqs.map CoReq.init) sched).1.1 t' p ↔
        IsPage (s.run (reqs'.filterMap CoReq.op)) t'' p) ∧
      (∀ p, IsCrawled (Sys.run (s, reqs.map CoReq.init) sched).1.1 t' p ↔
        IsCrawled (s.run (reqs'.filterMap CoReq.op)) t'' p) :=
  C16_final_pages_sequential hs hi reqs hwf sched hdone reqs' hperm
    (noKeyErr_of_rulesOk reqs' s t hs hr (fun r hr' => hwf r (hperm.mem_iff.mp hr'))
      (fun r hr' => hcanon r (hperm.mem_iff.mp hr')))

#print axioms sched_shape
#print axioms sched_spec
#print axioms C16_pages_any_schedule
#print axioms C16_final_pages
#print axioms C16_final_pages_sequential
#print axioms C16_pages_query_sound
#print axioms C16_links_any_schedule
#print axioms C16_pages_query_complete
#print axioms C16_pages_query_complete_entries
#print axioms C16_no_writer_fails
#print axioms C16_final_pages_sequential_rulesOk

end Traph

import Proofs.GraftChain
import Proofs.Known
/-! `add_lru`, `LRUTrie.add_page`, `__create_webentity` and `__add_page` as chains of heap steps
    (`Chain`, Proofs/GraftChain.lean), on a non-empty trie, and the page marks they leave alone. -/
set_option linter.unusedSimpArgs false
namespace Traph
open State Layout

/-! ### `add_lru` -/

theorem addLruCreate_chain (stems : LRU) (flag : Bool) : ∀ (rest : List Stem) (s : State) (t : T) (q : Nat)
    (p : LRU), Shape s t → (p, q) ∈ t.entries s [] → t.childOf q = .nil → p ≠ [] → p ++ rest = stems →
    ∃ gs, Chain s (addLruCreate flag s rest q).1 gs := by
  intro rest
  induction rest with
  | nil =>
    intro s t q p _ _ _ _ _
    exact ⟨[], Chain.refl s⟩
  | cons x rest ih =>
    intro s t q p h hm hc hp e
    rw [addLruCreate_cons]
    have hh := T.child_hole (s := s) t [] none none h.nodup hm hc
    obtain ⟨c, hcq, hslot⟩ := hh.slot_empty h.rep
    have g := graftStep_write s q .C x q (!rest.isEmpty && flag) c hcq hslot h.closed
    have hk : ∃ k, 0 < k ∧ k ≤ stems.length ∧ p ++ [x] = stems.take k := by
      refine ⟨p.length + 1, by omega, ?_, ?_⟩
      · rw [← e]; simp
      · rw [← e, take_append_cons]
    obtain ⟨gr, hent, hco⟩ := Grow.graft_hole (stems := stems) h hh (by simp) (by simp) g hk
    obtain ⟨gs, ch⟩ := ih _ (t.graft q .C s.trie.size) s.trie.size (p ++ [x]) gr.shape hent hco
      (by simp) (by rw [← e]; simp)
    exact ⟨_, Chain.gr g ch⟩

/-- `add_lru` on a non-empty trie is a chain of attribute writes and grafts -/
theorem addLru_chain {s : State} {t : T} (h : Shape s t) (hsz : 1 < s.trie.size) (stems : LRU) (flag : Bool) :
    ∃ gs, Chain s (s.addLru stems flag).1 gs := by
  by_cases hne : stems = []
  · subst hne; rw [addLru_nil]; exact ⟨[], Chain.refl s⟩
  have key : ∀ D : State × Nat × List Stem × Hist,
      D = addLruDescend flag s stems 1 (decide (s.trie.size > 1)) 0 {} →
      ∃ gs, Chain s (addLruCreate flag D.1 D.2.2.1 D.2.1).1 gs := by
    intro D hD
    have hex : decide (s.trie.size > 1) = true := by simp; omega
    rw [hex] at hD
    have hroot := h.root
    rw [if_neg (by omega)] at hroot
    have htne : t ≠ .nil := by intro e; subst e; simp at hroot
    have spec := addLruDescend_spec flag stems s t [] 0 {} h.rep htne h.size_le h.closed hne
    rw [hroot, ← hD] at spec
    obtain ⟨S, nd, rst, hi⟩ := D
    simp only
    cases hd : t.descend s stems [] with
    | corrupt => rw [hd] at spec; exact absurd spec (by simp [DescSpec])
    | found b =>
      rw [hd] at spec
      simp only [DescSpec] at spec
      obtain ⟨n1, rfl, rfl⟩ := spec
      simp only [addLruCreate]
      exact ⟨[], Chain.of_noStruct n1⟩
    | fell q sl pre' rest' =>
      rw [hd] at spec
      simp only [DescSpec] at spec
      obtain ⟨hrne, _, _⟩ := descend_fell_suffix stems t [] q sl pre' rest' hd
      cases rest' with
      | nil => exact absurd rfl hrne
      | cons x rest'' =>
        by_cases hC : sl = .C
        · rw [if_pos hC] at spec
          subst hC
          obtain ⟨n1, rfl, rfl⟩ := spec
          rw [addLruCreate_cons]
          have hd1 : t.descend S stems [] = .fell nd .C pre' (x :: rest'') := by
            rw [T.descend_congr n1.stemAt]; exact hd
          obtain ⟨_, _, hh, _, _⟩ :=
            T.descend_hole stems t [] none none nd .C pre' x rest'' hd1 (by simp) (by simp)
          obtain ⟨c, hcq, hslot⟩ := hh.slot_empty (n1.rep h.rep)
          have g := graftStep_write S nd .C x nd (!rest''.isEmpty && flag) c hcq hslot
            (n1.closed h.closed)
          obtain ⟨tg, gr, hent, hco, e⟩ := grow_after_fell h hd n1 g (NoStruct.refl _)
          obtain ⟨gs, ch⟩ := addLruCreate_chain stems flag rest'' _ tg S.trie.size
            (pre' ++ [x]) gr.shape hent hco (by simp) (by rw [← e]; simp)
          exact ⟨_, Chain.ns n1 (Chain.gr g ch)⟩
        · rw [if_neg hC] at spec
          obtain ⟨x', rest3, s1, s2, e0, n1, g, n2, rfl, rfl⟩ := spec
          obtain ⟨rfl, rfl⟩ := List.cons.inj e0
          obtain ⟨tg, gr, hent, hco, e⟩ := grow_after_fell h hd n1 g n2
          obtain ⟨gs, ch⟩ := addLruCreate_chain stems flag rest'' S tg s1.trie.size
            (pre' ++ [x]) gr.shape hent hco (by simp) (by rw [← e]; simp)
          exact ⟨_, Chain.ns n1 (Chain.gr g (Chain.ns n2 ch))⟩
  exact key _ rfl

theorem pageSame_addLru (s : State) (stems : LRU) (flag : Bool) : PageSame s (s.addLru stems flag).1 :=
  pageSame_of_attrStep (attrStep_addLru s stems flag)

/-! ### `LRUTrie.add_page` -/

theorem addPageTrie_chain {s : State} {t : T} (h : Shape s t) (hsz : 1 < s.trie.size) (stems : LRU) (c : Bool) :
    ∃ gs, Chain s (s.addPageTrie stems c).1 gs := by
  obtain ⟨gs, ch⟩ := addLru_chain h hsz stems false
  have := ch.trans (Chain.of_noStruct (addPageTrie_noStruct s stems c).1)
  exact ⟨_, this⟩

/-- re-inserting a page (without the crawled argument) writes nothing after the `add_lru` part -/
theorem pageSame_addPageTrie_known {s : State} {t : T} (h : Shape s t) (stems : LRU) (hne : stems ≠ [])
    (b : Nat) (hb : (stems, b) ∈ t.entries s []) (hpg : (s.cell b).flags.page = true) :
    PageSame s (s.addPageTrie stems false).1 := by
  have hn := (addLru_known_no_growth h stems hne false b hb).2
  have hp := pageSame_addLru s stems false
  have hpb : ((s.addLru stems false).1.cell (s.addLru stems false).2.1).flags.page = true := by
    rw [hn, hp b]; exact hpg
  have e : (s.addPageTrie stems false).1 = (s.addLru stems false).1 := by
    unfold addPageTrie
    simp only [hpb, Bool.not_true, Bool.false_eq_true, if_false, Bool.false_and]
  rw [e]; exact hp

/-! ### `__create_webentity` -/

theorem addPrefixesScan_chain : ∀ (ps : List Bytes) (s : State) (t : T) (valid : List (Bytes × Nat)) (nInv : Nat),
    Shape s t → 1 < s.trie.size →
    ∃ gs, Chain s (s.addPrefixesScan ps valid nInv).1 gs ∧ PageSame s (s.addPrefixesScan ps valid nInv).1
  | [], s, t, valid, nInv, _, _ => ⟨[], by simp only [addPrefixesScan]; exact ⟨Chain.refl s, PageSame.refl s⟩⟩
  | p :: ps, s, t, valid, nInv, h, hsz => by
    obtain ⟨t1, k1, _⟩ := keeps_addLruIter h p true
    obtain ⟨g1, c1⟩ := addLru_chain h hsz (lruIter p) true
    have p1 := pageSame_addLru s (lruIter p) true
    rcases ha : s.addLru (lruIter p) true with ⟨s1, n, hh⟩
    rw [ha] at k1 c1 p1
    simp only at k1 c1 p1
    have hsz1 : 1 < s1.trie.size := Nat.lt_of_lt_of_le hsz c1.size_le
    simp only [addPrefixesScan, ha]
    split
    · obtain ⟨g2, c2, p2⟩ := addPrefixesScan_chain ps s1 t1 valid (nInv + 1) k1.shape hsz1
      exact ⟨_, c1.trans c2, p1.trans p2⟩
    · obtain ⟨g2, c2, p2⟩ := addPrefixesScan_chain ps s1 t1 (dictSet valid p n) nInv k1.shape hsz1
      exact ⟨_, c1.trans c2, p1.trans p2⟩

theorem addPrefixes_chain {s : State} {t : T} (h : Shape s t) (hsz : 1 < s.trie.size) (prefixes : List Bytes)
    (best : Bool) :
    ∃ gs, Chain s (s.addPrefixes prefixes best).1 gs ∧ PageSame s (s.addPrefixes prefixes best).1 := by
  obtain ⟨g1, c1, p1⟩ := addPrefixesScan_chain prefixes s t [] 0 h hsz
  rcases ha : s.addPrefixesScan prefixes [] 0 with ⟨s1, valid, nInv⟩
  rw [ha] at c1 p1
  simp only [addPrefixes, ha]
  split
  · exact ⟨_, c1, p1⟩
  · split
    · exact ⟨_, c1, p1⟩
    · have n2 : NoStruct s1 s1.genId.1 := noStruct_of_trie_eq rfl
      have q2 : PageSame s1 s1.genId.1 := pageSame_of_trie_eq rfl
      have n3 := chain_foldl_modCell (fun pn : Bytes × Nat => pn.2) (fun _ c => { c with we := s1.genId.2 })
        (fun _ _ => ⟨rfl, rfl, rfl, rfl, rfl⟩) valid s1.genId.1
      have q3 := pageSame_foldl_modCell (fun pn : Bytes × Nat => pn.2) (fun _ c => { c with we := s1.genId.2 })
        (fun _ _ => rfl) valid s1.genId.1
      refine ⟨_, c1.trans (Chain.of_noStruct (n2.trans n3)), p1.trans (q2.trans q3)⟩

theorem createWebentityAuto_chain {s : State} {t : T} (h : Shape s t) (hsz : 1 < s.trie.size) (pfx : Bytes) :
    ∃ gs, Chain s (s.createWebentityAuto pfx).1 gs ∧ PageSame s (s.createWebentityAuto pfx).1 := by
  obtain ⟨g1, c1, p1⟩ := addPrefixes_chain h hsz (lruVariations pfx) true
  unfold createWebentityAuto
  split <;> rename_i heq <;> rw [heq] at c1 p1 <;> exact ⟨_, c1, p1⟩

/-! ### `__add_page` on a stored page -/

/-- re-inserting a stored page: a chain of heap steps that leaves every page mark alone -/
theorem addPageCore_chain_known {s : State} {t : T} (h : Shape s t) (hsz : 1 < s.trie.size) (lru : Bytes)
    (hne : lruIter lru ≠ []) (b : Nat) (hb : (lruIter lru, b) ∈ t.entries s [])
    (hpg : (s.cell b).flags.page = true) :
    ∃ gs, Chain s (s.addPageCore lru false).1 gs ∧ PageSame s (s.addPageCore lru false).1 := by
  obtain ⟨s2, res, e, hs2, _, _⟩ := addPageCore_cases s lru false
  obtain ⟨t1, x1, _⟩ := addPageTrie_step h (lruIter lru) false (lruIter_wf lru)
  obtain ⟨g1, c1⟩ := addPageTrie_chain h hsz (lruIter lru) false
  have p1 := pageSame_addPageTrie_known h (lruIter lru) hne b hb hpg
  rw [e]
  simp only
  rcases hs2 with rfl | ⟨x, rfl⟩
  · exact ⟨_, c1, p1⟩
  · obtain ⟨g2, c2, p2⟩ := createWebentityAuto_chain x1.shape (Nat.lt_of_lt_of_le hsz c1.size_le) x
    exact ⟨_, c1.trans c2, p1.trans p2⟩

end Traph

import Proofs.PagesApi
import Proofs.LinkInv
import Proofs.LinkLists
import Proofs.Small
/-! C08 at the API level: `get_webentity_pagelinks(weid, prefixes, include_inbound, include_internal,
    include_outbound)`, `get_webentity_outlinks / inlinks` and the degrees, asked with the full current prefix
    list of the webentity (any order), in any state satisfying the invariants of reachable states
    (`Shape`, `Inv`, `LkOk`), and then for every reachable state.

    Page-level links are read off the model's own stub lists: `OutLink s src tgt k` says that `src` is an
    indexed page whose out-list (walked from its head by `link_nodes_iter`) holds `k ≥ 1` stubs whose target is
    the node of `tgt`; `InLink s src tgt k` is the same read off the in-list of the page `tgt`.

    * `C08_links`: the answer is exactly: the out-list links of the pages resolving to `w`, kept when
      (internal) the target resolves to `w` too or (outbound) it resolves elsewhere or nowhere; plus (inbound)
      the in-list links of the pages resolving to `w` whose source does not resolve to `w`; each with its full
      multiplicity as weight.
    * `C08_each_once`: no (source, target) pair is listed twice (if no prefix is given twice).
    * `C08_cited`: the cited / citing sets.  * `C08_switches`: the eight switch combinations.
    * `C08_reachable`: all of it for every reachable state. -/
namespace Traph
open State

/-! ### A. resolution of a byte string, nodes of byte strings -/

/-- the webentity an LRU resolves to by longest stored prefix (`retrieve_webentity`), 0 = none -/
def weOf (s : State) (lru : Bytes) : Nat := (s.followLru (lruIter lru)).2.we

theorem retrieveWebentity_weOf (s : State) (lru : Bytes) :
    s.retrieveWebentity lru = if weOf s lru = 0 then .error .traph else .ok (weOf s lru) := by
  unfold retrieveWebentity weOf
  rfl

theorem wl_retrieve_ok_iff (s : State) (lru : Bytes) {w : Nat} (hw : w ≠ 0) :
    s.retrieveWebentity lru = .ok w ↔ weOf s lru = w := by
  rw [retrieveWebentity_weOf]
  split
  · rename_i h0
    constructor
    · intro h; cases h
    · intro h; rw [h0] at h; exact absurd h.symm hw
  · constructor
    · intro h; cases h; rfl
    · intro h; rw [h]

theorem wl_retrieve_ne_ok_iff (s : State) (lru : Bytes) {w : Nat} (hw : w ≠ 0) :
    s.retrieveWebentity lru ≠ .ok w ↔ weOf s lru ≠ w := not_congr (wl_retrieve_ok_iff s lru hw)

/-- `lru` is, byte for byte, the LRU of the stored node `b` (found by `lru_node`) -/
def NodeOf (s : State) (lru : Bytes) (b : Nat) : Prop :=
  lruIter lru ≠ [] ∧ lru = (lruIter lru).flatten ∧ s.lruNode (lruIter lru) = some b

theorem nodeOf_iff {s : State} {t : T} (h : Shape s t) (hi : Inv s t) (lru : Bytes) (b : Nat) :
    NodeOf s lru b ↔ ∃ p, (p, b) ∈ t.entries s [] ∧ lru = p.flatten := by
  constructor
  · rintro ⟨hne, hfl, hn⟩
    exact ⟨lruIter lru, (lruNode_iff_entries h _ hne b).mp hn, hfl⟩
  · rintro ⟨p, hp, rfl⟩
    have e : lruIter p.flatten = p := lruIter_flatten p (hi.wf p b hp)
    rw [NodeOf, e]
    exact ⟨pa_entry_ne_nil hp, rfl, (lruNode_iff_entries h _ (pa_entry_ne_nil hp) b).mpr hp⟩

theorem nodeOf_unique {s : State} {lru : Bytes} {b b' : Nat} (h : NodeOf s lru b) (h' : NodeOf s lru b') : b = b' := by
  have := h.2.2.symm.trans h'.2.2
  exact Option.some.inj this

/-- two stored paths with the same bytes are the same path -/
theorem wl_flatten_inj {s : State} {t : T} (hi : Inv s t) {p q : LRU} {b c : Nat}
    (hp : (p, b) ∈ t.entries s []) (hq : (q, c) ∈ t.entries s []) (e : p.flatten = q.flatten) : p = q := by
  rw [← lruIter_flatten p (hi.wf p b hp), ← lruIter_flatten q (hi.wf q c hq), e]

/-- bottom-up reconstruction from the node of a stored path = its bytes and its top-down resolution -/
theorem wl_entry_windup {s : State} {t : T} (h : Shape s t) (hi : Inv s t) (hp : ParOk s t 0) {q : LRU} {c : Nat}
    (hq : (q, c) ∈ t.entries s []) : s.windup c = q.flatten ∧ s.windupWe c = weOf s q.flatten := by
  refine ⟨windup_eq h hp hq, ?_⟩
  rw [windupWe_eq_followLru h hp hq, weOf, lruIter_flatten q (hi.wf q c hq)]

/-! ### B. the blocks met by a list walk are stub targets -/

theorem wl_walkGo_stub (s : State) : ∀ (fuel i c : Nat), i ≠ 0 → c ∈ s.walkGo fuel i →
    ∃ j st, 0 < j ∧ s.links[j]? = some st ∧ st.target = c
  | 0, _, _, _, hc => by simp [walkGo] at hc
  | fuel + 1, i, c, hi, hc => by
    rw [walkGo] at hc
    cases hl : s.links[i]? with
    | none => rw [hl] at hc; simp at hc
    | some st =>
      rw [hl] at hc
      simp only [List.mem_cons] at hc
      rcases hc with rfl | hc
      · exact ⟨i, st, by omega, hl, rfl⟩
      · split at hc
        · rename_i hprev
          exact wl_walkGo_stub s fuel st.prev c hprev hc
        · simp at hc

/-- the other end of a stub met by a list walk is a page node of the ghost tree -/
theorem wl_walk_end {s : State} {t : T} {B : List Nat} (hk : LkOk s t B) {head c : Nat} (hh : head ≠ 0)
    (hc : c ∈ s.walk head) : PageEntry s t c := by
  obtain ⟨j, st, hj, hst, rfl⟩ := wl_walkGo_stub s _ head c hh hc
  exact hk.tgt j st hj hst

/-- winding up is injective on the blocks met by list walks -/
theorem wl_windup_inj {s : State} {t : T} (h : Shape s t) (hi : Inv s t) {B : List Nat} (hk : LkOk s t B)
    {c c' : Nat} (hc : PageEntry s t c) (hc' : PageEntry s t c') (e : s.windup c = s.windup c') : c = c' := by
  obtain ⟨q, hq, _⟩ := hc
  obtain ⟨q', hq', _⟩ := hc'
  rw [(wl_entry_windup h hi hk.par hq).1, (wl_entry_windup h hi hk.par hq').1] at e
  have := wl_flatten_inj hi hq hq' e
  subst this
  exact entries_path_injective h.ord h.nodup hq hq'

/-! ### C. the pages visited by the per-prefix loop -/

/-- the page blocks visited by the loops of the link queries, in order, with their LRUs -/
def visits (s : State) (ps : List Bytes) : List (Nat × Bytes) :=
  ps.flatMap (fun p => match s.lruNode (lruIter p) with
    | some n => (s.weDfs n p none).filter (fun bl => (s.cell bl.1).flags.page)
    | none => [])

theorem wl_forPrefixes_flatMap (s : State) {α β : Type} (ps : List Bytes) (A : Nat → Bytes → List β)
    (g : β → List α) (l : List α) (h : s.forPrefixes ps (fun n p => (A n p).flatMap g) = .ok l) :
    l = (ps.flatMap (fun p => match s.lruNode (lruIter p) with | some n => A n p | none => [])).flatMap g := by
  rw [forPrefixes_eq] at h
  split at h
  · cases h
    rw [List.flatMap_assoc]
    congr 1
    funext p
    cases s.lruNode (lruIter p) <;> simp
  · cases h

theorem wl_forPrefixes_ok {s : State} {w : Nat} {ps : List Bytes} (hf : FullPrefixList s w ps) {α : Type}
    (f : Nat → Bytes → List α) : ∃ l, s.forPrefixes ps f = .ok l := by
  cases hl : s.forPrefixes ps f with
  | ok l => exact ⟨l, rfl⟩
  | error e =>
    obtain ⟨_, p, hp, hn⟩ := forPrefixes_err s ps _ e hl
    obtain ⟨_, n, hn', _⟩ := (hf.full _).mp (List.mem_map.mpr ⟨p, hp, rfl⟩)
    rw [hn] at hn'; cases hn'

/-- the pages answer is the list of visits -/
theorem wl_pages_visits {s : State} {ps : List Bytes} {l : List (Bytes × Bool)}
    (hl : s.webentityPages ps = .ok l) : l.map (·.1) = (visits s ps).map (·.2) := by
  rw [pa_webentityPages_flatMap hl]
  unfold visits
  rw [List.map_flatMap, List.map_flatMap]
  congr 1
  funext p
  cases s.lruNode (lruIter p) with
  | none => rfl
  | some n => simp only [onePrefix, List.map_map]; rfl

/-- the visits, under a full prefix list: exactly the page nodes whose LRU resolves to `w` -/
theorem wl_visits_mem {s : State} {t : T} (h : Shape s t) (hi : Inv s t) {w : Nat} {ps : List Bytes}
    (hf : FullPrefixList s w ps) (b : Nat) (lru : Bytes) :
    (b, lru) ∈ visits s ps ↔
      ∃ X, (X, b) ∈ t.entries s [] ∧ lru = X.flatten ∧ (s.cell b).flags.page = true ∧
        s.retrieveWebentity lru = .ok w := by
  obtain ⟨l, hl⟩ := C05_ok hf
  have hstored : ∀ p ∈ ps, ∀ n, s.lruNode (lruIter p) = some n → (lruIter p, n) ∈ t.entries s [] := by
    intro p hp n hn
    obtain ⟨hne, _⟩ := (hf.full _).mp (List.mem_map.mpr ⟨p, hp, rfl⟩)
    exact (lruNode_iff_entries h _ hne n).mp hn
  have hmemV : ∀ b lru, (b, lru) ∈ visits s ps ↔ ∃ p ∈ ps, ∃ n, s.lruNode (lruIter p) = some n ∧
      (b, lru) ∈ s.weDfs n p none ∧ (s.cell b).flags.page = true := by
    intro b lru
    unfold visits
    simp only [List.mem_flatMap]
    constructor
    · rintro ⟨p, hp, hx⟩
      cases hn : s.lruNode (lruIter p) with
      | none => simp [hn] at hx
      | some n =>
        rw [hn] at hx
        simp only [List.mem_filter] at hx
        exact ⟨p, hp, n, hn, hx.1, hx.2⟩
    · rintro ⟨p, hp, n, hn, hx, hpg⟩
      refine ⟨p, hp, ?_⟩
      rw [hn]
      simp only [List.mem_filter]
      exact ⟨hx, hpg⟩
  constructor
  · intro hv
    obtain ⟨p, hp, n, hn, hx, hpg⟩ := (hmemV b lru).mp hv
    obtain ⟨X, hX, _, hfl, _⟩ := (weDfs_walk_iff h (hstored p hp n hn) b lru).mp hx
    have hmem5 : lru ∈ l.map (·.1) := by
      rw [wl_pages_visits hl]
      exact List.mem_map.mpr ⟨(b, lru), hv, rfl⟩
    obtain ⟨⟨lru', c⟩, hm, e⟩ := List.mem_map.mp hmem5
    simp only at e; subst e
    exact ⟨X, hX, hfl, hpg, ((C05_member h hi hf hl _ c).mp hm).2.2.1⟩
  · rintro ⟨X, hX, rfl, hpg, hret⟩
    have hXi : lruIter X.flatten = X := lruIter_flatten X (hi.wf X b hX)
    have hm : (X.flatten, (s.cell b).flags.crawled) ∈ l := by
      refine (C05_member h hi hf hl _ _).mpr ⟨by rw [hXi], by rw [hXi]; exact ⟨b, hX, hpg⟩, hret, ?_⟩
      rw [hXi]
      constructor
      · intro hc; exact ⟨b, hX, hpg, hc⟩
      · rintro ⟨b', hb', _, hc'⟩
        have := entries_path_injective h.ord h.nodup hX hb'
        subst this; exact hc'
    have hmem5 : X.flatten ∈ (visits s ps).map (·.2) := by
      rw [← wl_pages_visits hl]
      exact List.mem_map.mpr ⟨_, hm, rfl⟩
    obtain ⟨⟨b', lru'⟩, hv, e⟩ := List.mem_map.mp hmem5
    simp only at e; subst e
    obtain ⟨p, hp, n, hn, hx, _⟩ := (hmemV b' _).mp hv
    obtain ⟨X', hX', _, hfl', _⟩ := (weDfs_walk_iff h (hstored p hp n hn) b' _).mp hx
    have := wl_flatten_inj hi hX hX' hfl'
    subst this
    have := entries_path_injective h.ord h.nodup hX hX'
    subst this
    exact hv

/-- no page is visited twice (if no prefix is given twice) -/
theorem wl_visits_nodup {s : State} {t : T} (h : Shape s t) (hi : Inv s t) {w : Nat} {ps : List Bytes}
    (hf : FullPrefixList s w ps) (hnd : (ps.map lruIter).Nodup) : ((visits s ps).map (·.2)).Nodup := by
  obtain ⟨l, hl⟩ := C05_ok hf
  rw [← wl_pages_visits hl]
  exact C05_nodup h hi hf hnd hl

/-! ### D. the links of one page -/

theorem wl_out_of_page (s : State) (w b : Nat) (lru : Bytes) (incInt incOut : Bool) (x : PageLink) :
    x ∈ s.outLinksOfPage w b lru incInt incOut ↔
      (s.cell b).out ≠ 0 ∧ ∃ c, c ∈ s.walk (s.cell b).out ∧
        ((incOut = true ∧ s.windupWe c ≠ w) ∨ (incInt = true ∧ s.windupWe c = w)) ∧
        x = (lru, s.windup c, count c (s.walk (s.cell b).out)) := by
  unfold outLinksOfPage
  by_cases h0 : (s.cell b).out ≠ 0 <;> by_cases hsw : (incOut || incInt) = true
  · simp only [h0, hsw, ne_eq, not_false_eq_true, decide_true, Bool.and_self, if_true, List.mem_filterMap, true_and]
    constructor
    · rintro ⟨⟨c, n⟩, hm, hx⟩
      obtain ⟨hc, rfl⟩ := (weighted_spec s _ c n).mp hm
      split at hx
      · rename_i hcnd; cases hx
        exact ⟨c, hc, by simpa using hcnd, rfl⟩
      · cases hx
    · rintro ⟨c, hc, hcnd, rfl⟩
      refine ⟨(c, count c (s.walk (s.cell b).out)), (weighted_spec s _ c _).mpr ⟨hc, rfl⟩, ?_⟩
      rcases hcnd with ⟨ho, hne⟩ | ⟨hi, he⟩
      · simp [ho, hne]
      · simp [hi, he]
  · have : incOut = false ∧ incInt = false := by cases incOut <;> cases incInt <;> simp_all
    simp [this.1, this.2]
  · simp at h0; simp [h0]
  · simp at h0; simp [h0]

theorem wl_in_of_page (s : State) (w b : Nat) (lru : Bytes) (incIn : Bool) (x : PageLink) :
    x ∈ s.inLinksOfPage w b lru incIn ↔
      incIn = true ∧ (s.cell b).inn ≠ 0 ∧ ∃ c, c ∈ s.walk (s.cell b).inn ∧ s.windupWe c ≠ w ∧
        x = (s.windup c, lru, count c (s.walk (s.cell b).inn)) := by
  unfold inLinksOfPage
  by_cases h0 : (s.cell b).inn ≠ 0 <;> by_cases hsw : incIn = true
  · simp only [h0, hsw, ne_eq, not_false_eq_true, decide_true, Bool.and_self, if_true, List.mem_filterMap, true_and]
    constructor
    · rintro ⟨⟨c, n⟩, hm, hx⟩
      obtain ⟨hc, rfl⟩ := (weighted_spec s _ c n).mp hm
      split at hx
      · rename_i hcnd; cases hx
        exact ⟨c, hc, hcnd, rfl⟩
      · cases hx
    · rintro ⟨c, hc, hcnd, rfl⟩
      refine ⟨(c, count c (s.walk (s.cell b).inn)), (weighted_spec s _ c _).mpr ⟨hc, rfl⟩, ?_⟩
      simp [hcnd]
  · have : incIn = false := by cases incIn <;> simp_all
    simp [this]
  · simp at h0; simp [h0]
  · simp at h0; simp [h0]

/-! ### E. C08, the links -/

/-- page-level link, read off the out-list of its source: `src` is an indexed page whose out-list (walked
    from its head) holds `k ≥ 1` stubs whose target is the node of `tgt` -/
def OutLink (s : State) (src tgt : Bytes) (k : Nat) : Prop :=
  ∃ b c, NodeOf s src b ∧ (s.cell b).flags.page = true ∧ NodeOf s tgt c ∧
    (s.cell b).out ≠ 0 ∧ c ∈ s.walk (s.cell b).out ∧ k = count c (s.walk (s.cell b).out)

/-- page-level link, read off the in-list of its target: `tgt` is an indexed page whose in-list holds
    `k ≥ 1` stubs whose target is the node of `src` -/
def InLink (s : State) (src tgt : Bytes) (k : Nat) : Prop :=
  ∃ b c, NodeOf s tgt b ∧ (s.cell b).flags.page = true ∧ NodeOf s src c ∧
    (s.cell b).inn ≠ 0 ∧ c ∈ s.walk (s.cell b).inn ∧ k = count c (s.walk (s.cell b).inn)

theorem OutLink.pos {s : State} {src tgt : Bytes} {k : Nat} (h : OutLink s src tgt k) : 0 < k := by
  obtain ⟨b, c, _, _, _, _, hc, rfl⟩ := h
  exact (count_pos_iff c _).mpr hc

theorem InLink.pos {s : State} {src tgt : Bytes} {k : Nat} (h : InLink s src tgt k) : 0 < k := by
  obtain ⟨b, c, _, _, _, _, hc, rfl⟩ := h
  exact (count_pos_iff c _).mpr hc

/-- the weight of a link is determined by its two ends -/
theorem OutLink.weight_unique {s : State} {src tgt : Bytes} {k k' : Nat} (h : OutLink s src tgt k)
    (h' : OutLink s src tgt k') : k = k' := by
  obtain ⟨b, c, hb, _, hc, _, _, rfl⟩ := h
  obtain ⟨b', c', hb', _, hc', _, _, rfl⟩ := h'
  rw [nodeOf_unique hb hb', nodeOf_unique hc hc']

theorem InLink.weight_unique {s : State} {src tgt : Bytes} {k k' : Nat} (h : InLink s src tgt k)
    (h' : InLink s src tgt k') : k = k' := by
  obtain ⟨b, c, hb, _, hc, _, _, rfl⟩ := h
  obtain ⟨b', c', hb', _, hc', _, _, rfl⟩ := h'
  rw [nodeOf_unique hb hb', nodeOf_unique hc hc']

/-- the request, as a loop over the visited pages -/
theorem wl_pagelinks_eq {s : State} {w : Nat} {ps : List Bytes} {incIn incInt incOut : Bool} {l : List PageLink}
    (hl : s.webentityPagelinks w ps incIn incInt incOut = .ok l) :
    l = (visits s ps).flatMap (fun bl =>
      s.outLinksOfPage w bl.1 bl.2 incInt incOut ++ s.inLinksOfPage w bl.1 bl.2 incIn) := by
  unfold webentityPagelinks at hl
  split at hl
  · cases hl
  · exact wl_forPrefixes_flatMap s ps _ _ l hl

/-- the switch test on the other end, in terms of top-down resolution -/
def SwitchOut (s : State) (w : Nat) (incInt incOut : Bool) (tgt : Bytes) : Prop :=
  (incInt = true ∧ s.retrieveWebentity tgt = .ok w) ∨ (incOut = true ∧ s.retrieveWebentity tgt ≠ .ok w)

/-- C08, the links: asked with its full prefix list (any order), webentity `w` is answered exactly
    * the out-list links `(src, tgt, k)` of the indexed pages `src` that resolve to `w`, such that
      (internal) `tgt` resolves to `w` and internal links are asked for, or (outbound) `tgt` resolves to
      another webentity or to none and outbound links are asked for;
    * (inbound, if asked for) the in-list links `(src, tgt, k)` of the indexed pages `tgt` that resolve to `w`,
      such that `src` does not resolve to `w`;
    each with weight `k` = the full multiplicity of the other end in the list. -/
theorem C08_links {s : State} {t : T} (h : Shape s t) (hi : Inv s t) (hk : LkOk s t []) {w : Nat} {ps : List Bytes}
    (hf : FullPrefixList s w ps) {incIn incInt incOut : Bool} {l : List PageLink}
    (hl : s.webentityPagelinks w ps incIn incInt incOut = .ok l) (src tgt : Bytes) (k : Nat) :
    (src, tgt, k) ∈ l ↔
      (OutLink s src tgt k ∧ s.retrieveWebentity src = .ok w ∧ SwitchOut s w incInt incOut tgt) ∨
      (incIn = true ∧ InLink s src tgt k ∧ s.retrieveWebentity tgt = .ok w ∧ s.retrieveWebentity src ≠ .ok w) := by
  rw [wl_pagelinks_eq hl]
  simp only [List.mem_flatMap, List.mem_append]
  unfold SwitchOut
  constructor
  · rintro ⟨⟨b, lru⟩, hv, hx | hx⟩
    · obtain ⟨X, hX, rfl, hpg, hret⟩ := (wl_visits_mem h hi hf b lru).mp hv
      obtain ⟨hout, c, hc, hcnd, e⟩ := (wl_out_of_page s w b _ incInt incOut _).mp hx
      simp only [Prod.mk.injEq] at e
      obtain ⟨rfl, rfl, rfl⟩ := e
      obtain ⟨q, hq, _⟩ := wl_walk_end hk hout hc
      obtain ⟨e1, e2⟩ := wl_entry_windup h hi hk.par hq
      left
      refine ⟨⟨b, c, (nodeOf_iff h hi _ b).mpr ⟨X, hX, rfl⟩, hpg, (nodeOf_iff h hi _ c).mpr ⟨q, hq, e1⟩, hout, hc, rfl⟩,
        hret, ?_⟩
      rw [wl_retrieve_ok_iff s _ hf.ne, wl_retrieve_ne_ok_iff s _ hf.ne, e1, ← e2]
      rcases hcnd with ⟨ho, hne⟩ | ⟨hin, he⟩
      · exact Or.inr ⟨ho, hne⟩
      · exact Or.inl ⟨hin, he⟩
    · obtain ⟨X, hX, rfl, hpg, hret⟩ := (wl_visits_mem h hi hf b lru).mp hv
      obtain ⟨hin, hinn, c, hc, hcnd, e⟩ := (wl_in_of_page s w b _ incIn _).mp hx
      simp only [Prod.mk.injEq] at e
      obtain ⟨rfl, rfl, rfl⟩ := e
      obtain ⟨q, hq, _⟩ := wl_walk_end hk hinn hc
      obtain ⟨e1, e2⟩ := wl_entry_windup h hi hk.par hq
      right
      refine ⟨hin, ⟨b, c, (nodeOf_iff h hi _ b).mpr ⟨X, hX, rfl⟩, hpg, (nodeOf_iff h hi _ c).mpr ⟨q, hq, e1⟩,
        hinn, hc, rfl⟩, hret, ?_⟩
      rw [wl_retrieve_ne_ok_iff s _ hf.ne, e1, ← e2]
      exact hcnd
  · rintro (⟨⟨b, c, hb, hpg, hc, hout, hcw, rfl⟩, hret, hsw⟩ | ⟨hin, ⟨b, c, hb, hpg, hc, hinn, hcw, rfl⟩, hret, hne⟩)
    · obtain ⟨X, hX, rfl⟩ := (nodeOf_iff h hi _ b).mp hb
      obtain ⟨q, hq, rfl⟩ := (nodeOf_iff h hi _ c).mp hc
      obtain ⟨e1, e2⟩ := wl_entry_windup h hi hk.par hq
      refine ⟨(b, X.flatten), (wl_visits_mem h hi hf b _).mpr ⟨X, hX, rfl, hpg, hret⟩, Or.inl ?_⟩
      refine (wl_out_of_page s w b _ incInt incOut _).mpr ⟨hout, c, hcw, ?_, by rw [e1]⟩
      rw [wl_retrieve_ok_iff s _ hf.ne, wl_retrieve_ne_ok_iff s _ hf.ne, ← e2] at hsw
      rcases hsw with ⟨hin, he⟩ | ⟨ho, hne⟩
      · exact Or.inr ⟨hin, he⟩
      · exact Or.inl ⟨ho, hne⟩
    · obtain ⟨X, hX, rfl⟩ := (nodeOf_iff h hi _ b).mp hb
      obtain ⟨q, hq, rfl⟩ := (nodeOf_iff h hi _ c).mp hc
      obtain ⟨e1, e2⟩ := wl_entry_windup h hi hk.par hq
      refine ⟨(b, X.flatten), (wl_visits_mem h hi hf b _).mpr ⟨X, hX, rfl, hpg, hret⟩, Or.inr ?_⟩
      refine (wl_in_of_page s w b _ incIn _).mpr ⟨hin, hinn, c, hcw, ?_, by rw [e1]⟩
      rw [wl_retrieve_ne_ok_iff s _ hf.ne, ← e2] at hne
      exact hne

/-! ### F. each link once -/

theorem wl_nodup_filterMap {α β γ : Type} (k : α → γ) (ψ : α → Option β) : ∀ L : List α, (L.map k).Nodup →
    (∀ a ∈ L, ∀ b ∈ L, ∀ x, ψ a = some x → ψ b = some x → k a = k b) → (L.filterMap ψ).Nodup
  | [], _, _ => by simp
  | a :: L, hnd, hinj => by
    rw [List.map_cons, List.nodup_cons] at hnd
    have ih := wl_nodup_filterMap k ψ L hnd.2 (fun a' ha' b' hb' => hinj a' (by simp [ha']) b' (by simp [hb']))
    cases hψ : ψ a with
    | none => rw [List.filterMap_cons_none hψ]; exact ih
    | some x =>
      rw [List.filterMap_cons_some hψ, List.nodup_cons]
      refine ⟨fun hx => ?_, ih⟩
      obtain ⟨b', hb', hψ'⟩ := List.mem_filterMap.mp hx
      have := hinj a (by simp) b' (by simp [hb']) x hψ hψ'
      exact hnd.1 (List.mem_map.mpr ⟨b', hb', this.symm⟩)

/-- the (source, target) pair of an answer triple -/
def wlEnds (x : PageLink) : Bytes × Bytes := (x.1, x.2.1)

theorem wl_out_keys_nodup {s : State} {t : T} (h : Shape s t) (hi : Inv s t) (hk : LkOk s t []) (w b : Nat)
    (lru : Bytes) (incInt incOut : Bool) : ((s.outLinksOfPage w b lru incInt incOut).map wlEnds).Nodup := by
  unfold outLinksOfPage
  simp only
  split
  · rename_i hcond
    have hout : (s.cell b).out ≠ 0 := by
      intro e; simp [e] at hcond
    rw [List.map_filterMap]
    refine wl_nodup_filterMap (·.1) _ _ (countInto_fold_keys_nodup (s.walk (s.cell b).out)) ?_
    intro a ha a' ha' x hax hax'
    have hw : a.1 ∈ s.walk (s.cell b).out := (weighted_spec s _ a.1 a.2).mp ha |>.1
    have hw' : a'.1 ∈ s.walk (s.cell b).out := (weighted_spec s _ a'.1 a'.2).mp ha' |>.1
    simp only [Option.map_eq_some_iff] at hax hax'
    obtain ⟨y, hy, rfl⟩ := hax
    obtain ⟨y', hy', e⟩ := hax'
    split at hy
    · cases hy
      split at hy'
      · cases hy'
        simp only [wlEnds, Prod.mk.injEq, true_and] at e
        exact (wl_windup_inj h hi hk (wl_walk_end hk hout hw') (wl_walk_end hk hout hw) e).symm
      · cases hy'
    · cases hy
  · simp

theorem wl_in_keys_nodup {s : State} {t : T} (h : Shape s t) (hi : Inv s t) (hk : LkOk s t []) (w b : Nat)
    (lru : Bytes) (incIn : Bool) : ((s.inLinksOfPage w b lru incIn).map wlEnds).Nodup := by
  unfold inLinksOfPage
  simp only
  split
  · rename_i hcond
    have hinn : (s.cell b).inn ≠ 0 := by
      intro e; simp [e] at hcond
    rw [List.map_filterMap]
    refine wl_nodup_filterMap (·.1) _ _ (countInto_fold_keys_nodup (s.walk (s.cell b).inn)) ?_
    intro a ha a' ha' x hax hax'
    have hw : a.1 ∈ s.walk (s.cell b).inn := (weighted_spec s _ a.1 a.2).mp ha |>.1
    have hw' : a'.1 ∈ s.walk (s.cell b).inn := (weighted_spec s _ a'.1 a'.2).mp ha' |>.1
    simp only [Option.map_eq_some_iff] at hax hax'
    obtain ⟨y, hy, rfl⟩ := hax
    obtain ⟨y', hy', e⟩ := hax'
    split at hy
    · cases hy
      split at hy'
      · cases hy'
        simp only [wlEnds, Prod.mk.injEq, and_true] at e
        exact (wl_windup_inj h hi hk (wl_walk_end hk hinn hw') (wl_walk_end hk hinn hw) e).symm
      · cases hy'
    · cases hy
  · simp

/-- the ends of the links listed for one visited page: the page is the source, or it is the target and the
    source does not resolve to `w` -/
theorem wl_keys_of_visit {s : State} {t : T} (h : Shape s t) (hi : Inv s t) (hk : LkOk s t []) (w : Nat)
    (b : Nat) (lru : Bytes) (incIn incInt incOut : Bool) (x : Bytes × Bytes) :
    (x ∈ (s.outLinksOfPage w b lru incInt incOut).map wlEnds → x.1 = lru) ∧
    (x ∈ (s.inLinksOfPage w b lru incIn).map wlEnds → x.2 = lru ∧ weOf s x.1 ≠ w) := by
  constructor
  · intro hx
    obtain ⟨y, hy, rfl⟩ := List.mem_map.mp hx
    obtain ⟨_, c, _, _, rfl⟩ := (wl_out_of_page s w b lru incInt incOut y).mp hy
    rfl
  · intro hx
    obtain ⟨y, hy, rfl⟩ := List.mem_map.mp hx
    obtain ⟨_, hinn, c, hc, hne, rfl⟩ := (wl_in_of_page s w b lru incIn y).mp hy
    obtain ⟨q, hq, _⟩ := wl_walk_end hk hinn hc
    obtain ⟨e1, e2⟩ := wl_entry_windup h hi hk.par hq
    refine ⟨rfl, ?_⟩
    show weOf s (s.windup c) ≠ w
    rw [e1, ← e2]; exact hne

/-- C08, each once: if no prefix is given twice, no (source, target) pair is listed twice — whatever the
    switches; in particular no triple is listed twice -/
theorem C08_each_once {s : State} {t : T} (h : Shape s t) (hi : Inv s t) (hk : LkOk s t []) {w : Nat} {ps : List Bytes}
    (hf : FullPrefixList s w ps) (hnd : (ps.map lruIter).Nodup) {incIn incInt incOut : Bool} {l : List PageLink}
    (hl : s.webentityPagelinks w ps incIn incInt incOut = .ok l) : (l.map wlEnds).Nodup := by
  have hV := wl_visits_nodup h hi hf hnd
  have hres : ∀ bl ∈ visits s ps, weOf s bl.2 = w := by
    rintro ⟨b, lru⟩ hv
    obtain ⟨X, _, _, _, hret⟩ := (wl_visits_mem h hi hf b lru).mp hv
    exact (wl_retrieve_ok_iff s lru hf.ne).mp hret
  rw [wl_pagelinks_eq hl, List.map_flatMap]
  unfold List.Nodup at hV ⊢
  rw [List.pairwise_map] at hV
  rw [List.pairwise_flatMap]
  constructor
  · rintro ⟨b, lru⟩ hv
    show ((s.outLinksOfPage w b lru incInt incOut ++ s.inLinksOfPage w b lru incIn).map wlEnds).Nodup
    rw [List.map_append, List.nodup_append]
    refine ⟨wl_out_keys_nodup h hi hk w b lru incInt incOut, wl_in_keys_nodup h hi hk w b lru incIn, ?_⟩
    intro x hx y hy e
    subst e
    have h1 := (wl_keys_of_visit h hi hk w b lru incIn incInt incOut x).1 hx
    have h2 := (wl_keys_of_visit h hi hk w b lru incIn incInt incOut x).2 hy
    apply h2.2
    rw [h1]
    exact hres (b, lru) hv
  · refine List.Pairwise.imp_of_mem ?_ hV
    rintro ⟨b₁, lru₁⟩ ⟨b₂, lru₂⟩ hv₁ hv₂ hne x hx y hy e
    subst e
    simp only [List.map_append, List.mem_append] at hx hy
    have k1 := wl_keys_of_visit h hi hk w b₁ lru₁ incIn incInt incOut x
    have k2 := wl_keys_of_visit h hi hk w b₂ lru₂ incIn incInt incOut x
    have r1 := hres _ hv₁
    have r2 := hres _ hv₂
    simp only at hne r1 r2
    rcases hx with hx | hx <;> rcases hy with hy | hy
    · exact hne ((k1.1 hx).symm.trans (k2.1 hy))
    · have a1 := k1.1 hx
      have a2 := k2.2 hy
      apply a2.2; rw [a1]; exact r1
    · have a1 := k1.2 hx
      have a2 := k2.1 hy
      apply a1.2; rw [a2]; exact r2
    · exact hne ((k1.2 hx).1.symm.trans (k2.2 hy).1)

theorem C08_each_once' {s : State} {t : T} (h : Shape s t) (hi : Inv s t) (hk : LkOk s t []) {w : Nat} {ps : List Bytes}
    (hf : FullPrefixList s w ps) (hnd : (ps.map lruIter).Nodup) {incIn incInt incOut : Bool} {l : List PageLink}
    (hl : s.webentityPagelinks w ps incIn incInt incOut = .ok l) : l.Nodup :=
  List.Pairwise.of_map wlEnds (fun _ _ hab e => hab (e ▸ rfl)) (C08_each_once h hi hk hf hnd hl)

/-- both ends of a listed link are indexed pages -/
theorem OutLink.target_page {s : State} {t : T} (hk : LkOk s t []) {src tgt : Bytes} {k : Nat}
    (h : OutLink s src tgt k) : ∃ c, NodeOf s tgt c ∧ (s.cell c).flags.page = true := by
  obtain ⟨b, c, _, _, hc, hout, hcw, _⟩ := h
  obtain ⟨_, _, hpg⟩ := wl_walk_end hk hout hcw
  exact ⟨c, hc, hpg⟩

theorem InLink.source_page {s : State} {t : T} (hk : LkOk s t []) {src tgt : Bytes} {k : Nat}
    (h : InLink s src tgt k) : ∃ c, NodeOf s src c ∧ (s.cell c).flags.page = true := by
  obtain ⟨b, c, _, _, hc, hinn, hcw, _⟩ := h
  obtain ⟨_, _, hpg⟩ := wl_walk_end hk hinn hcw
  exact ⟨c, hc, hpg⟩

/-! ### G. cited and citing webentities, degrees -/

theorem wl_cited_eq {s : State} {ps : List Bytes} {out : Bool} {l : List Nat}
    (hl : s.citedWebentities ps out = .ok l) :
    l = sortDedup ((visits s ps).flatMap (fun bl =>
      if (if out then (s.cell bl.1).out else (s.cell bl.1).inn) ≠ 0 then
        (s.deduped (if out then (s.cell bl.1).out else (s.cell bl.1).inn)).map (fun t => s.windupWe t)
      else [])) := by
  unfold citedWebentities at hl
  cases hx : s.forPrefixes ps (fun n p =>
      ((s.weDfs n p none).filter (fun bl => (s.cell bl.1).flags.page)).flatMap (fun bl =>
        let c := s.cell bl.1
        let head := if out then c.out else c.inn
        if head ≠ 0 then (s.deduped head).map (fun t => s.windupWe t) else [])) with
  | error e => rw [hx] at hl; cases hl
  | ok xs =>
    rw [hx] at hl
    cases hl
    rw [wl_forPrefixes_flatMap s ps _ _ xs hx]
    rfl

/-- C08, cited / citing sets: asked with its full prefix list, the answer of `get_webentity_outlinks`
    (`out = true`) resp. `get_webentity_inlinks` (`out = false`) is the strictly increasing list of exactly the
    webentity ids (0 standing for "none") to which the other ends of the out-list resp. in-list links of the
    pages resolving to `w` resolve. NB: `w` itself is a member as soon as one of its pages has an internal
    link, and 0 is a member as soon as an other end resolves to no webentity. -/
theorem C08_cited {s : State} {t : T} (h : Shape s t) (hi : Inv s t) (hk : LkOk s t []) {w : Nat} {ps : List Bytes}
    (hf : FullPrefixList s w ps) {out : Bool} {l : List Nat} (hl : s.citedWebentities ps out = .ok l) :
    StrictAsc l ∧ ∀ x, x ∈ l ↔ ∃ own other k, s.retrieveWebentity own = .ok w ∧
      ((out = true ∧ OutLink s own other k) ∨ (out = false ∧ InLink s other own k)) ∧ x = weOf s other := by
  rw [wl_cited_eq hl]
  refine ⟨sortDedup_sorted _, fun x => ?_⟩
  rw [mem_sortDedup]
  simp only [List.mem_flatMap]
  constructor
  · rintro ⟨⟨b, lru⟩, hv, hx⟩
    obtain ⟨X, hX, rfl, hpg, hret⟩ := (wl_visits_mem h hi hf b lru).mp hv
    have key : ∀ head, head ≠ 0 → x ∈ (s.deduped head).map (fun t => s.windupWe t) →
        ∃ c q, c ∈ s.walk head ∧ (q, c) ∈ t.entries s [] ∧ x = weOf s q.flatten := by
      intro head hhead hx
      obtain ⟨c, hc, rfl⟩ := List.mem_map.mp hx
      rw [deduped_mem] at hc
      obtain ⟨q, hq, _⟩ := wl_walk_end hk hhead hc
      exact ⟨c, q, hc, hq, (wl_entry_windup h hi hk.par hq).2⟩
    have nb := (nodeOf_iff h hi _ b).mpr ⟨X, hX, rfl⟩
    cases out with
    | true =>
      simp only [if_true] at hx
      split at hx
      · rename_i hhead
        obtain ⟨c, q, hc, hq, rfl⟩ := key _ hhead hx
        have nc := (nodeOf_iff h hi _ c).mpr ⟨q, hq, rfl⟩
        exact ⟨X.flatten, q.flatten, _, hret, Or.inl ⟨rfl, b, c, nb, hpg, nc, hhead, hc, rfl⟩, rfl⟩
      · simp at hx
    | false =>
      simp only [Bool.false_eq_true, if_false] at hx
      split at hx
      · rename_i hhead
        obtain ⟨c, q, hc, hq, rfl⟩ := key _ hhead hx
        have nc := (nodeOf_iff h hi _ c).mpr ⟨q, hq, rfl⟩
        exact ⟨X.flatten, q.flatten, _, hret, Or.inr ⟨rfl, b, c, nb, hpg, nc, hhead, hc, rfl⟩, rfl⟩
      · simp at hx
  · rintro ⟨own, other, k, hret, hlink, rfl⟩
    rcases hlink with ⟨rfl, b, c, hb, hpg, hc, hhead, hcw, _⟩ | ⟨rfl, b, c, hb, hpg, hc, hhead, hcw, _⟩
    all_goals
      obtain ⟨X, hX, rfl⟩ := (nodeOf_iff h hi _ b).mp hb
      obtain ⟨q, hq, rfl⟩ := (nodeOf_iff h hi _ c).mp hc
      obtain ⟨e1, e2⟩ := wl_entry_windup h hi hk.par hq
      refine ⟨(b, X.flatten), (wl_visits_mem h hi hf b _).mpr ⟨X, hX, rfl, hpg, hret⟩, ?_⟩
      simp only [if_true, Bool.false_eq_true, if_false]
      rw [if_pos hhead]
      exact List.mem_map.mpr ⟨c, (deduped_mem s _ c).mpr hcw, e2⟩

/-- the three degrees are the sizes of the citing set, of the cited set, and their sum -/
theorem C08_degrees {s : State} {ps : List Bytes} {cited citing : List Nat}
    (ho : s.citedWebentities ps true = .ok cited) (hin : s.citedWebentities ps false = .ok citing) :
    s.webentityDegrees ps = .ok [citing.length, cited.length, citing.length + cited.length] := by
  unfold webentityDegrees
  rw [ho, hin]

theorem C08_cited_ok {s : State} {w : Nat} {ps : List Bytes} (hf : FullPrefixList s w ps) (out : Bool) :
    ∃ l, s.citedWebentities ps out = .ok l := by
  unfold citedWebentities
  obtain ⟨xs, hxs⟩ := wl_forPrefixes_ok hf (fun n p =>
      ((s.weDfs n p none).filter (fun bl => (s.cell bl.1).flags.page)).flatMap (fun bl =>
        let c := s.cell bl.1
        let head := if out then c.out else c.inn
        if head ≠ 0 then (s.deduped head).map (fun t => s.windupWe t) else []))
  rw [hxs]
  exact ⟨_, rfl⟩

/-! ### H. the eight switch combinations -/

/-- no switch at all: refused with the library's own error -/
theorem C08_refused (s : State) (w : Nat) (ps : List Bytes) :
    s.webentityPagelinks w ps false false false = .error .traph := rfl

/-- at least one switch, full prefix list: answered -/
theorem C08_ok {s : State} {w : Nat} {ps : List Bytes} (hf : FullPrefixList s w ps) {incIn incInt incOut : Bool}
    (hsw : (incIn || incInt || incOut) = true) : ∃ l, s.webentityPagelinks w ps incIn incInt incOut = .ok l := by
  unfold webentityPagelinks
  split
  · rename_i hno
    exfalso
    cases incIn <;> cases incInt <;> cases incOut <;> simp_all
  · exact wl_forPrefixes_ok hf _

/-- C08, switches: the three classes (internal / outbound / inbound = the answers with exactly one switch) are
    pairwise disjoint, and the answer for any combination of switches has exactly the members of the classes
    asked for -/
theorem C08_switches {s : State} {t : T} (h : Shape s t) (hi : Inv s t) (hk : LkOk s t []) {w : Nat} {ps : List Bytes}
    (hf : FullPrefixList s w ps) {lInt lOut lIn : List PageLink}
    (hInt : s.webentityPagelinks w ps false true false = .ok lInt)
    (hOut : s.webentityPagelinks w ps false false true = .ok lOut)
    (hIn : s.webentityPagelinks w ps true false false = .ok lIn) :
    (∀ x, x ∈ lInt → x ∉ lOut) ∧ (∀ x, x ∈ lInt → x ∉ lIn) ∧ (∀ x, x ∈ lOut → x ∉ lIn) ∧
    ∀ (incIn incInt incOut : Bool) (l : List PageLink), s.webentityPagelinks w ps incIn incInt incOut = .ok l →
      ∀ x, x ∈ l ↔ (incInt = true ∧ x ∈ lInt) ∨ (incOut = true ∧ x ∈ lOut) ∨ (incIn = true ∧ x ∈ lIn) := by
  have mInt : ∀ src tgt k, (src, tgt, k) ∈ lInt ↔
      OutLink s src tgt k ∧ s.retrieveWebentity src = .ok w ∧ s.retrieveWebentity tgt = .ok w := by
    intro src tgt k
    rw [C08_links h hi hk hf hInt]
    unfold SwitchOut
    constructor
    · rintro (⟨hA, hB, ⟨_, hC⟩ | ⟨hf', _⟩⟩ | ⟨hf', _⟩)
      · exact ⟨hA, hB, hC⟩
      · cases hf'
      · cases hf'
    · rintro ⟨hA, hB, hC⟩
      exact Or.inl ⟨hA, hB, Or.inl ⟨rfl, hC⟩⟩
  have mOut : ∀ src tgt k, (src, tgt, k) ∈ lOut ↔
      OutLink s src tgt k ∧ s.retrieveWebentity src = .ok w ∧ s.retrieveWebentity tgt ≠ .ok w := by
    intro src tgt k
    rw [C08_links h hi hk hf hOut]
    unfold SwitchOut
    constructor
    · rintro (⟨hA, hB, ⟨hf', _⟩ | ⟨_, hC⟩⟩ | ⟨hf', _⟩)
      · cases hf'
      · exact ⟨hA, hB, hC⟩
      · cases hf'
    · rintro ⟨hA, hB, hC⟩
      exact Or.inl ⟨hA, hB, Or.inr ⟨rfl, hC⟩⟩
  have mIn : ∀ src tgt k, (src, tgt, k) ∈ lIn ↔
      InLink s src tgt k ∧ s.retrieveWebentity tgt = .ok w ∧ s.retrieveWebentity src ≠ .ok w := by
    intro src tgt k
    rw [C08_links h hi hk hf hIn]
    unfold SwitchOut
    constructor
    · rintro (⟨_, _, ⟨hf', _⟩ | ⟨hf', _⟩⟩ | ⟨_, hD, hC, hB⟩)
      · cases hf'
      · cases hf'
      · exact ⟨hD, hC, hB⟩
    · rintro ⟨hD, hC, hB⟩
      exact Or.inr ⟨rfl, hD, hC, hB⟩
  refine ⟨?_, ?_, ?_, ?_⟩
  · rintro ⟨src, tgt, k⟩ h1 h2
    exact ((mOut _ _ _).mp h2).2.2 ((mInt _ _ _).mp h1).2.2
  · rintro ⟨src, tgt, k⟩ h1 h2
    exact ((mIn _ _ _).mp h2).2.2 ((mInt _ _ _).mp h1).2.1
  · rintro ⟨src, tgt, k⟩ h1 h2
    exact ((mIn _ _ _).mp h2).2.2 ((mOut _ _ _).mp h1).2.1
  · rintro incIn incInt incOut l hl ⟨src, tgt, k⟩
    rw [C08_links h hi hk hf hl, mInt, mOut, mIn]
    unfold SwitchOut
    constructor
    · rintro (⟨hA, hB, ⟨hi', hC⟩ | ⟨ho', hC⟩⟩ | ⟨hn, hD, hC, hB⟩)
      · exact Or.inl ⟨hi', hA, hB, hC⟩
      · exact Or.inr (Or.inl ⟨ho', hA, hB, hC⟩)
      · exact Or.inr (Or.inr ⟨hn, hD, hC, hB⟩)
    · rintro (⟨hi', hA, hB, hC⟩ | ⟨ho', hA, hB, hC⟩ | ⟨hn, hD, hC, hB⟩)
      · exact Or.inl ⟨hA, hB, Or.inl ⟨hi', hC⟩⟩
      · exact Or.inl ⟨hA, hB, Or.inr ⟨ho', hC⟩⟩
      · exact Or.inr ⟨hn, hD, hC, hB⟩

/-! ### I. every reachable state -/

/-- the invariants of C08 hold in every state reached from a fresh index (any constructor rules) by any history
    of write requests that are well-formed, answer no `KeyError` and do not `clear` -/
theorem wl_reachable_inv (cfg : Config) (dflt : Rule) (rules : List (Bytes × Rule)) (ops : List Op)
    (hrules : ∀ ar ∈ rules, lruIter ar.1 ≠ [])
    (hop : ∀ op ∈ ops, ∀ d rs, op ≠ .clear d rs) (hwf : ∀ op ∈ ops, OpWf op)
    (hok : NoKeyErr (State.fresh cfg dflt rules []).1 ops) :
    ∃ t, Shape ((State.fresh cfg dflt rules []).1.run ops) t ∧ Inv ((State.fresh cfg dflt rules []).1.run ops) t ∧
      LkOk ((State.fresh cfg dflt rules []).1.run ops) t [] := by
  obtain ⟨t, h, hi⟩ := inv_run cfg dflt rules ops hrules hop hwf hok
  exact ⟨t, h, hi, li_reachable_on cfg dflt rules ops hwf h⟩

/-- C08 for every reachable index state, every webentity `w` with any full prefix list `ps` (any order), every
    combination of the three switches — no reference to the ghost tree:
    1. no switch: the library's own error; otherwise the request is answered, the answer lists exactly the
       out-list links of the pages resolving to `w` that pass the internal / outbound test on the target, and
       (inbound) the in-list links of the pages resolving to `w` whose source does not resolve to `w`, each with
       its full multiplicity; no (source, target) pair twice if no prefix is given twice; the other ends are
       indexed pages;
    2. the cited / citing answers are the strictly increasing lists of exactly the ids (0 = none) to which the
       other ends of these pages' out-list / in-list links resolve, and the degrees are their sizes. -/
theorem C08_reachable (cfg : Config) (dflt : Rule) (rules : List (Bytes × Rule)) (ops : List Op)
    (hrules : ∀ ar ∈ rules, lruIter ar.1 ≠ [])
    (hop : ∀ op ∈ ops, ∀ d rs, op ≠ .clear d rs) (hwf : ∀ op ∈ ops, OpWf op)
    (hok : NoKeyErr (State.fresh cfg dflt rules []).1 ops)
    (s : State) (hs : s = (State.fresh cfg dflt rules []).1.run ops)
    (w : Nat) (ps : List Bytes) (hf : FullPrefixList s w ps) :
    (∀ incIn incInt incOut : Bool,
      (incIn = false ∧ incInt = false ∧ incOut = false →
        s.webentityPagelinks w ps incIn incInt incOut = .error .traph) ∧
      ((incIn || incInt || incOut) = true →
        ∃ l, s.webentityPagelinks w ps incIn incInt incOut = .ok l ∧
          (∀ src tgt k, (src, tgt, k) ∈ l ↔
            (OutLink s src tgt k ∧ s.retrieveWebentity src = .ok w ∧ SwitchOut s w incInt incOut tgt) ∨
            (incIn = true ∧ InLink s src tgt k ∧ s.retrieveWebentity tgt = .ok w ∧
              s.retrieveWebentity src ≠ .ok w)) ∧
          ((ps.map lruIter).Nodup → (l.map wlEnds).Nodup))) ∧
    (∀ src tgt k, OutLink s src tgt k → ∃ c, NodeOf s tgt c ∧ (s.cell c).flags.page = true) ∧
    (∀ src tgt k, InLink s src tgt k → ∃ c, NodeOf s src c ∧ (s.cell c).flags.page = true) ∧
    (∀ out : Bool, ∃ l, s.citedWebentities ps out = .ok l ∧ StrictAsc l ∧
      ∀ x, x ∈ l ↔ ∃ own other k, s.retrieveWebentity own = .ok w ∧
        ((out = true ∧ OutLink s own other k) ∨ (out = false ∧ InLink s other own k)) ∧ x = weOf s other) ∧
    (∃ cited citing, s.citedWebentities ps true = .ok cited ∧ s.citedWebentities ps false = .ok citing ∧
      s.webentityDegrees ps = .ok [citing.length, cited.length, citing.length + cited.length]) := by
  subst hs
  obtain ⟨t, h, hi, hk⟩ := wl_reachable_inv cfg dflt rules ops hrules hop hwf hok
  refine ⟨fun incIn incInt incOut => ⟨?_, fun hsw => ?_⟩, fun _ _ _ hl => hl.target_page hk,
    fun _ _ _ hl => hl.source_page hk, fun out => ?_, ?_⟩
  · rintro ⟨rfl, rfl, rfl⟩; rfl
  · obtain ⟨l, hl⟩ := C08_ok hf hsw
    exact ⟨l, hl, C08_links h hi hk hf hl, fun hnd => C08_each_once h hi hk hf hnd hl⟩
  · obtain ⟨l, hl⟩ := C08_cited_ok hf out
    obtain ⟨h1, h2⟩ := C08_cited h hi hk hf hl
    exact ⟨l, hl, h1, h2⟩
  · obtain ⟨cited, ho⟩ := C08_cited_ok hf true
    obtain ⟨citing, hin⟩ := C08_cited_ok hf false
    exact ⟨cited, citing, ho, hin, C08_degrees ho hin⟩

/-- the switch combinations, for every reachable state: the classes are disjoint and every combination is the
    union of the classes asked for -/
theorem C08_switches_reachable (cfg : Config) (dflt : Rule) (rules : List (Bytes × Rule)) (ops : List Op)
    (hrules : ∀ ar ∈ rules, lruIter ar.1 ≠ [])
    (hop : ∀ op ∈ ops, ∀ d rs, op ≠ .clear d rs) (hwf : ∀ op ∈ ops, OpWf op)
    (hok : NoKeyErr (State.fresh cfg dflt rules []).1 ops)
    (s : State) (hs : s = (State.fresh cfg dflt rules []).1.run ops)
    (w : Nat) (ps : List Bytes) (hf : FullPrefixList s w ps) :
    ∃ lInt lOut lIn, s.webentityPagelinks w ps false true false = .ok lInt ∧
      s.webentityPagelinks w ps false false true = .ok lOut ∧
      s.webentityPagelinks w ps true false false = .ok lIn ∧
      (∀ x, x ∈ lInt → x ∉ lOut) ∧ (∀ x, x ∈ lInt → x ∉ lIn) ∧ (∀ x, x ∈ lOut → x ∉ lIn) ∧
      ∀ (incIn incInt incOut : Bool) (l : List PageLink), s.webentityPagelinks w ps incIn incInt incOut = .ok l →
        ∀ x, x ∈ l ↔ (incInt = true ∧ x ∈ lInt) ∨ (incOut = true ∧ x ∈ lOut) ∨ (incIn = true ∧ x ∈ lIn) := by
  subst hs
  obtain ⟨t, h, hi, hk⟩ := wl_reachable_inv cfg dflt rules ops hrules hop hwf hok
  obtain ⟨lInt, hInt⟩ := C08_ok hf (incIn := false) (incInt := true) (incOut := false) rfl
  obtain ⟨lOut, hOut⟩ := C08_ok hf (incIn := false) (incInt := false) (incOut := true) rfl
  obtain ⟨lIn, hIn⟩ := C08_ok hf (incIn := true) (incInt := false) (incOut := false) rfl
  obtain ⟨d1, d2, d3, u⟩ := C08_switches h hi hk hf hInt hOut hIn
  exact ⟨lInt, lOut, lIn, hInt, hOut, hIn, d1, d2, d3, u⟩

/-! ### J. the model on a concrete index (kernel-checked evaluations)

    `a|` is webentity 1, `a|b|` webentity 2, `q|z|` resolves to no webentity. Links: `a|x| → a|b|c|`,
    `a|x| → a|y|` (twice), `a|b|c| → a|x|`, `q|z| → a|x|`, `a|x| → q|z|`. -/
section Examples

private def wlA : Bytes := [97, 124]
private def wlAB : Bytes := [97, 124, 98, 124]
private def wlABC : Bytes := [97, 124, 98, 124, 99, 124]
private def wlAX : Bytes := [97, 124, 120, 124]
private def wlAY : Bytes := [97, 124, 121, 124]
private def wlQZ : Bytes := [113, 124, 122, 124]
private def wlS : State :=
  (State.fresh {} .never [] []).1.run
    [.create [wlA], .create [wlAB],
     .addLinks [(wlAX, wlABC), (wlAX, wlAY), (wlABC, wlAX), (wlAX, wlAY), (wlQZ, wlAX), (wlAX, wlQZ)]]

/-- internal: the double link with weight 2, once -/
example : (wlS.webentityPagelinks 1 [wlA] false true false).toOption = some [(wlAX, wlAY, 2)] := by decide
/-- outbound: towards another webentity and towards no webentity -/
example : (wlS.webentityPagelinks 1 [wlA] false false true).toOption
    = some [(wlAX, wlQZ, 1), (wlAX, wlABC, 1)] := by decide
/-- inbound: from another webentity and from no webentity -/
example : (wlS.webentityPagelinks 1 [wlA] true false false).toOption
    = some [(wlQZ, wlAX, 1), (wlABC, wlAX, 1)] := by decide
/-- a prefix given twice: every link twice (`C08_each_once` needs the no-repetition hypothesis) -/
example : (wlS.webentityPagelinks 1 [wlA, wlA] false true false).toOption
    = some [(wlAX, wlAY, 2), (wlAX, wlAY, 2)] := by decide
/-- cited and citing sets of webentity 1: "none" (0), webentity 1 itself (internal link), webentity 2 -/
example : (wlS.citedWebentities [wlA] true).toOption = some [0, 1, 2] := by decide
example : (wlS.citedWebentities [wlA] false).toOption = some [0, 1, 2] := by decide
example : (wlS.webentityDegrees [wlA]).toOption = some [3, 3, 6] := by decide

end Examples

end Traph

section
open Traph
#print axioms C08_links
#print axioms C08_each_once
#print axioms C08_cited
#print axioms C08_switches
#print axioms C08_reachable
#print axioms C08_switches_reachable
end

import Proofs.Discipline
import Proofs.ClearCrash
import Proofs.WeMapRun
/-! `clear` as a reset: "since the last `clear`".

    `sinceClear ops` is the part of a history after its last `clear` (the whole history if there is none);
    `lastClearArgs ops` are the arguments of that `clear`. The MASTER REDUCTION `run_sinceClear`: the state a history
    reaches is the state its last `clear` builds, followed by the requests since — and what `clear` builds is
    `installRules` on a blank index (`State.clearBase`: the two header blocks only), exactly like the constructor;
    it depends on the state `clear` is issued in only through the RAM part (`cfg`; `dflt` / `rules` when the
    corresponding argument is absent) and the ghost write log, which no request reads (`cleared_congr`,
    `step_clear_eq`, Proofs/LogIndep). The same cut on transcripts (`sinceClearT`) and on the discipline. -/
namespace Traph
open State

/-! ### the part of a list after the last element satisfying `p` -/

/-- the elements after the last one satisfying `p` (everything if none does) -/
def afterLast {α : Type} (p : α → Bool) (l : List α) : List α := (l.reverse.takeWhile (fun a => !p a)).reverse

theorem ua_takeWhile_all {α : Type} (q : α → Bool) : ∀ (l : List α), (∀ a ∈ l, q a = true) → l.takeWhile q = l
  | [], _ => rfl
  | a :: l, h => by
    rw [List.takeWhile_cons, if_pos (h a (by simp)), ua_takeWhile_all q l (fun b hb => h b (by simp [hb]))]

theorem ua_takeWhile_append_stop {α : Type} (q : α → Bool) : ∀ (l : List α) (c : α) (r : List α),
    (∀ a ∈ l, q a = true) → q c = false → (l ++ c :: r).takeWhile q = l
  | [], c, r, _, hc => by simp [hc]
  | a :: l, c, r, h, hc => by
    rw [List.cons_append, List.takeWhile_cons, if_pos (h a (by simp)),
      ua_takeWhile_append_stop q l c r (fun b hb => h b (by simp [hb])) hc]

theorem afterLast_none {α : Type} (p : α → Bool) (l : List α) (h : ∀ a ∈ l, p a = false) : afterLast p l = l := by
  unfold afterLast
  rw [ua_takeWhile_all _ _ (fun a ha => by rw [h a (List.mem_reverse.mp ha)]; rfl), List.reverse_reverse]

theorem afterLast_split {α : Type} (p : α → Bool) (pre : List α) (c : α) (seg : List α) (hc : p c = true)
    (h : ∀ a ∈ seg, p a = false) : afterLast p (pre ++ c :: seg) = seg := by
  unfold afterLast
  rw [List.reverse_append, List.reverse_cons, List.append_assoc, List.singleton_append,
    ua_takeWhile_append_stop _ _ _ _ (fun a ha => by rw [h a (List.mem_reverse.mp ha)]; rfl) (by rw [hc]; rfl),
    List.reverse_reverse]

theorem ua_mem_takeWhile {α : Type} (q : α → Bool) : ∀ (l : List α), ∀ a ∈ l.takeWhile q, q a = true
  | [], a, h => by simp at h
  | b :: l, a, h => by
    rw [List.takeWhile_cons] at h
    by_cases hb : q b = true
    · rw [if_pos hb] at h
      rcases List.mem_cons.mp h with rfl | h
      · exact hb
      · exact ua_mem_takeWhile q l a h
    · rw [if_neg hb] at h; simp at h

theorem afterLast_free {α : Type} (p : α → Bool) (l : List α) : ∀ a ∈ afterLast p l, p a = false := by
  intro a ha
  unfold afterLast at ha
  have := ua_mem_takeWhile _ _ a (List.mem_reverse.mp ha)
  simpa using this

theorem afterLast_suffix {α : Type} (p : α → Bool) (l : List α) : afterLast p l <:+ l := by
  unfold afterLast
  have h := List.takeWhile_prefix (fun a => !p a) (l := l.reverse)
  have := List.reverse_suffix.mpr h
  rwa [List.reverse_reverse] at this

theorem afterLast_sub {α : Type} (p : α → Bool) (l : List α) : ∀ a ∈ afterLast p l, a ∈ l :=
  fun _ ha => (afterLast_suffix p l).subset ha

/-- a list either has no element satisfying `p` or splits at the last one -/
theorem afterLast_cases {α : Type} (p : α → Bool) : ∀ (l : List α), (∀ a ∈ l, p a = false) ∨
    ∃ pre c, p c = true ∧ l = pre ++ c :: afterLast p l
  | [] => Or.inl (by simp)
  | a :: l => by
    rcases afterLast_cases p l with h | ⟨pre, c, hc, e⟩
    · cases ha : p a with
      | false =>
        refine Or.inl (fun b hb => ?_)
        rcases List.mem_cons.mp hb with rfl | hb
        · exact ha
        · exact h b hb
      | true =>
        refine Or.inr ⟨[], a, ha, ?_⟩
        rw [show a :: l = [] ++ a :: l from rfl, afterLast_split p [] a l ha h]
    · refine Or.inr ⟨a :: pre, c, hc, ?_⟩
      have hf := afterLast_free p l
      rw [show a :: l = (a :: pre) ++ c :: afterLast p l by rw [List.cons_append, ← e]]
      rw [afterLast_split p (a :: pre) c _ hc hf]

/-! ### histories -/

/-- the requests since the last `clear` -/
def sinceClear (ops : List Op) : List Op := afterLast Op.isClear ops

/-- the arguments of a `clear` request -/
def Op.clearArgs : Op → Option (Option Rule × Option (List (Bytes × Rule)))
  | .clear d rs => some (d, rs)
  | _ => none

theorem Op.clearArgs_of_free {op : Op} (h : ∀ d rs, op ≠ .clear d rs) : op.clearArgs = none := by
  cases op with
  | clear d rs => exact absurd rfl (h d rs)
  | _ => rfl

/-- the arguments of the last `clear` of a history, if any -/
def lastClearArgs : List Op → Option (Option Rule × Option (List (Bytes × Rule)))
  | [] => none
  | op :: ops =>
    match lastClearArgs ops with
    | some x => some x
    | none => op.clearArgs

/-- the requests before the last `clear` (nothing if there is none) -/
def beforeClear (ops : List Op) : List Op := ops.take (ops.length - (sinceClear ops).length - 1)

theorem sinceClear_free (ops : List Op) : ∀ op ∈ sinceClear ops, ∀ d rs, op ≠ .clear d rs :=
  fun op ho => Op.not_clear_of_isClear (afterLast_free _ ops op ho)

theorem sinceClear_sub (ops : List Op) : ∀ op ∈ sinceClear ops, op ∈ ops := afterLast_sub _ ops

theorem sinceClear_of_free (ops : List Op) (h : ∀ op ∈ ops, ∀ d rs, op ≠ .clear d rs) : sinceClear ops = ops :=
  afterLast_none _ ops (fun op ho => Op.isClear_of_not_clear (h op ho))

theorem sinceClear_split (pre : List Op) (d : Option Rule) (rs : Option (List (Bytes × Rule))) (seg : List Op)
    (h : ∀ op ∈ seg, ∀ d rs, op ≠ .clear d rs) : sinceClear (pre ++ .clear d rs :: seg) = seg :=
  afterLast_split _ pre _ seg rfl (fun op ho => Op.isClear_of_not_clear (h op ho))

theorem sinceClear_append_free (a b : List Op) (h : ∀ op ∈ b, ∀ d rs, op ≠ .clear d rs) :
    sinceClear (a ++ b) = sinceClear a ++ b := by
  rcases afterLast_cases Op.isClear a with hf | ⟨pre, c, hc, e⟩
  · rw [sinceClear_of_free a (fun op ho => Op.not_clear_of_isClear (hf op ho)),
      sinceClear_of_free (a ++ b) (fun op ho => by
        rcases List.mem_append.mp ho with ho | ho
        · exact Op.not_clear_of_isClear (hf op ho)
        · exact h op ho)]
  · obtain ⟨d, rs, rfl⟩ := Op.eq_clear_of_isClear hc
    have hs : ∀ op ∈ sinceClear a ++ b, ∀ d rs, op ≠ .clear d rs := fun op ho => by
      rcases List.mem_append.mp ho with ho | ho
      · exact sinceClear_free a op ho
      · exact h op ho
    have : a ++ b = pre ++ .clear d rs :: (sinceClear a ++ b) := by
      conv => lhs; rw [e]
      simp [sinceClear]
    rw [this, sinceClear_split pre d rs _ hs]

theorem lastClearArgs_of_free : ∀ (ops : List Op), (∀ op ∈ ops, ∀ d rs, op ≠ .clear d rs) → lastClearArgs ops = none
  | [], _ => rfl
  | op :: ops, h => by
    rw [lastClearArgs, lastClearArgs_of_free ops (fun o ho => h o (by simp [ho]))]
    exact Op.clearArgs_of_free (h op (by simp))

theorem lastClearArgs_split : ∀ (pre : List Op) (d : Option Rule) (rs : Option (List (Bytes × Rule))) (seg : List Op),
    (∀ op ∈ seg, ∀ d rs, op ≠ .clear d rs) → lastClearArgs (pre ++ .clear d rs :: seg) = some (d, rs)
  | [], d, rs, seg, h => by
    rw [List.nil_append, lastClearArgs, lastClearArgs_of_free seg h]
    rfl
  | op :: pre, d, rs, seg, h => by
    rw [List.cons_append, lastClearArgs, lastClearArgs_split pre d rs seg h]

/-- **every history is clear-free, or is `beforeClear ++ clear d rs :: sinceClear`** with `(d, rs)` the arguments
    of its last `clear` -/
theorem sinceClear_cases (ops : List Op) :
    ((∀ op ∈ ops, ∀ d rs, op ≠ .clear d rs) ∧ sinceClear ops = ops ∧ lastClearArgs ops = none) ∨
    ∃ d rs, lastClearArgs ops = some (d, rs) ∧ ops = beforeClear ops ++ .clear d rs :: sinceClear ops := by
  rcases afterLast_cases Op.isClear ops with hf | ⟨pre, c, hc, e⟩
  · have hf' : ∀ op ∈ ops, ∀ d rs, op ≠ .clear d rs := fun op ho => Op.not_clear_of_isClear (hf op ho)
    exact Or.inl ⟨hf', sinceClear_of_free ops hf', lastClearArgs_of_free ops hf'⟩
  · obtain ⟨d, rs, rfl⟩ := Op.eq_clear_of_isClear hc
    refine Or.inr ⟨d, rs, ?_, ?_⟩
    · have : ops = pre ++ .clear d rs :: sinceClear ops := e
      rw [this, lastClearArgs_split pre d rs _ (sinceClear_free ops)]
    · have hb : beforeClear ops = pre := by
        have hl : ops.length = pre.length + ((sinceClear ops).length + 1) := by
          have := congrArg List.length e
          simpa [sinceClear] using this
        unfold beforeClear
        have e' : ops = pre ++ .clear d rs :: sinceClear ops := e
        conv => lhs; arg 2; rw [e']
        rw [show ops.length - (sinceClear ops).length - 1 = pre.length by omega]
        simp
      rw [hb]; exact e

/-! ### what `clear` builds -/

/-- `clear` = the two headers (`clearBase`), then the rules, if given, installed as by the constructor -/
theorem clear_eq_installRules (s : State) (d : Option Rule) (rs : Option (List (Bytes × Rule))) :
    s.clear d rs = installRules (s.clearBase d rs) (rs.getD []) true := by
  cases rs <;> rfl

/-- with rules given, `clear` builds the constructor's fresh index (on top of the old log) -/
theorem clear_some_eq_fresh (s : State) (d : Option Rule) (rs : List (Bytes × Rule)) :
    s.clear d (some rs) = State.fresh s.cfg (d.getD s.dflt) rs s.log := rfl

/-- the index `clear` builds depends on the state it is issued in only through the configuration and the RAM
    default rule / rules (and those only when the corresponding argument is absent) — not on the two files,
    not on the id counter -/
theorem cleared_congr (s s' : State) (d : Option Rule) (rs : Option (List (Bytes × Rule)))
    (hc : s'.cfg = s.cfg) (hd : d = none → s'.dflt = s.dflt) (hr : rs = none → s'.rules = s.rules) :
    s'.cleared d rs = s.cleared d rs := by
  have hd' : d.getD s'.dflt = d.getD s.dflt := by
    cases d with
    | none => exact hd rfl
    | some x => rfl
  cases rs with
  | none =>
    show ({ cfg := s'.cfg, dflt := d.getD s'.dflt, rules := s'.rules, log := _ } : State) = _
    rw [hc, hd', hr rfl]; rfl
  | some l =>
    show (installRules ({ cfg := s'.cfg, dflt := d.getD s'.dflt, rules := [], log := _ } : State) l true).1 = _
    rw [hc, hd']; rfl

/-- the id counter restarts at 0 and both files hold their header block only, before the rules are installed -/
theorem clearBase_blank (s : State) (d : Option Rule) (rs : Option (List (Bytes × Rule))) :
    (s.clearBase d rs).trie = #[{}] ∧ (s.clearBase d rs).links = #[{}] ∧ (s.clearBase d rs).hdrId = 0 :=
  ⟨rfl, rfl, rfl⟩

/-! ### the master reduction -/

/-- **MASTER REDUCTION**: the state reached by any history is the state built by its last `clear` (issued in the
    state the requests before it reach) followed by the requests since; or the whole history is clear-free -/
theorem run_sinceClear (s0 : State) (ops : List Op) :
    ((∀ op ∈ ops, ∀ d rs, op ≠ .clear d rs) ∧ sinceClear ops = ops) ∨
    ∃ d rs, lastClearArgs ops = some (d, rs) ∧ ops = beforeClear ops ++ .clear d rs :: sinceClear ops ∧
      s0.run ops = ((s0.run (beforeClear ops)).clear d rs).1.run (sinceClear ops) ∧
      s0.run ops = (((s0.run (beforeClear ops)).cleared d rs).run (sinceClear ops)).addLog (s0.run (beforeClear ops)).log := by
  rcases sinceClear_cases ops with ⟨h1, h2, _⟩ | ⟨d, rs, h1, h2⟩
  · exact Or.inl ⟨h1, h2⟩
  · refine Or.inr ⟨d, rs, h1, h2, ?_, ?_⟩
    · conv => lhs; rw [h2]
      rw [run_append]; rfl
    · conv => lhs; rw [h2]
      rw [run_append, run_clear_eq]

/-! ### the same cut on the discipline and on transcripts -/

theorem disciplined_sinceClear (s0 : State) (ops : List Op) (hd : Disciplined s0 ops) :
    (lastClearArgs ops = none → Disciplined s0 (sinceClear ops)) ∧
    (∀ d rs, lastClearArgs ops = some (d, rs) →
      (∀ l, rs = some l → rulesCanonical l) ∧
      Disciplined ((s0.run (beforeClear ops)).clear d rs).1 (sinceClear ops)) := by
  rcases sinceClear_cases ops with ⟨_, h2, h3⟩ | ⟨d, rs, h1, h2⟩
  · refine ⟨fun _ => by rw [h2]; exact hd, fun d rs h => ?_⟩
    rw [h3] at h; cases h
  · refine ⟨fun h => (by rw [h1] at h; cases h), fun d' rs' h => ?_⟩
    rw [h1] at h
    cases h
    rw [h2, disciplined_append] at hd
    obtain ⟨_, hc, hrest⟩ := hd
    refine ⟨fun l hl => ?_, hrest⟩
    subst hl; exact hc

/-- the entries of a transcript since its last `clear` request -/
def sinceClearT (tr : List (Op × Ans)) : List (Op × Ans) := afterLast (fun oa => oa.1.isClear) tr

theorem ua_transcript_append : ∀ (a b : List Op) (s : State),
    s.transcript (a ++ b) = s.transcript a ++ (s.run a).transcript b
  | [], _, _ => rfl
  | op :: a, b, s => by
    simp only [List.cons_append, State.transcript, run_cons, ua_transcript_append a b]

theorem ua_transcript_ops : ∀ (ops : List Op) (s : State), (s.transcript ops).map (·.1) = ops
  | [], _ => rfl
  | op :: ops, s => by simp only [State.transcript, List.map_cons, ua_transcript_ops ops]

/-- the transcript since the last `clear` is the transcript of the requests since, run from the cleared index -/
theorem sinceClearT_transcript (s0 : State) (ops : List Op) :
    (lastClearArgs ops = none → sinceClearT (s0.transcript ops) = s0.transcript (sinceClear ops)) ∧
    (∀ d rs, lastClearArgs ops = some (d, rs) →
      sinceClearT (s0.transcript ops) = ((s0.run (beforeClear ops)).clear d rs).1.transcript (sinceClear ops)) := by
  have free : ∀ (l : List Op) (s : State), (∀ op ∈ l, ∀ d rs, op ≠ .clear d rs) →
      ∀ oa ∈ s.transcript l, (fun oa : Op × Ans => oa.1.isClear) oa = false := by
    intro l s hl oa hoa
    have : oa.1 ∈ (s.transcript l).map (·.1) := List.mem_map.mpr ⟨oa, hoa, rfl⟩
    rw [ua_transcript_ops] at this
    exact Op.isClear_of_not_clear (hl _ this)
  rcases sinceClear_cases ops with ⟨h1, h2, h3⟩ | ⟨d, rs, h1, h2⟩
  · refine ⟨fun _ => ?_, fun d rs h => (by rw [h3] at h; cases h)⟩
    rw [h2]
    exact afterLast_none _ _ (free ops s0 h1)
  · refine ⟨fun h => (by rw [h1] at h; cases h), fun d' rs' h => ?_⟩
    rw [h1] at h
    cases h
    conv => lhs; rw [h2]
    rw [ua_transcript_append]
    show afterLast _ (_ ++ (Op.clear d rs, _) :: _) = _
    exact afterLast_split _ _ _ _ rfl (free _ _ (sinceClear_free ops))

#print axioms run_sinceClear
#print axioms cleared_congr
#print axioms sinceClearT_transcript

end Traph

import Proofs.ParentInsert
/-! C19, trie store: the block accounting invariant `SizeOk` ("one header block plus, for every stored
    stem-prefix, the blocks of its last stem — and nothing else"), carried through `add_lru` on the ghost
    tree of `addLru_grow`; re-submitting a known LRU allocates nothing; the exact growth of `add_lru`. -/
namespace Traph
open State

/-! ### sums of naturals over permuted lists -/

theorem perm_sum {l₁ l₂ : List Nat} (h : l₁.Perm l₂) : l₁.sum = l₂.sum := by
  induction h with
  | nil => rfl
  | cons x _ ih => simp only [List.sum_cons, ih]
  | swap x y l => simp only [List.sum_cons]; omega
  | trans _ _ ih1 ih2 => exact ih1.trans ih2

/-! ### 1. the accounting invariant -/

/-- one header block plus, for every stored stem-prefix, the blocks of its last stem — and nothing
    else: no block is unreferenced -/
def SizeOk (s : State) (t : T) : Prop :=
  s.trie.size = 1 + ((t.entries s []).map (fun pb => blocksFor (s.stemAt pb.2))).sum

theorem sizeOk_init : SizeOk ({} : State) .nil := rfl

theorem sizeOk_of_trie_init (s : State) (h : s.trie = #[{}]) : SizeOk s .nil := by
  unfold SizeOk; rw [h]; rfl

theorem sizeOk_fresh (cfg : Config) (dflt : Rule) (log : List Write) :
    SizeOk (State.fresh cfg dflt [] log).1 .nil := sizeOk_of_trie_init _ rfl

/-- the summands only look at the stems of the addresses of the tree -/
theorem map_blocks_congr {s s' : State} (t : T) (pre : LRU)
    (hst : ∀ a ∈ t.addrs, s'.stemAt a = s.stemAt a) :
    (t.entries s pre).map (fun pb => blocksFor (s'.stemAt pb.2)) =
      (t.entries s pre).map (fun pb => blocksFor (s.stemAt pb.2)) := by
  apply List.map_congr_left
  intro pb hm
  rw [hst pb.2 (entries_addr_mem t pre pb.1 pb.2 hm)]

/-- the invariant written over the addresses of the tree instead of the entries of the finite map -/
theorem sizeOk_iff_addrs (s : State) (t : T) :
    SizeOk s t ↔ s.trie.size = 1 + (t.addrs.map (fun a => blocksFor (s.stemAt a))).sum := by
  have hp := (entries_addrs_perm (s := s) t []).map (fun a => blocksFor (s.stemAt a))
  rw [List.map_map] at hp
  unfold SizeOk
  rw [← perm_sum hp]
  rfl

/-- frame: same size, same stems at the addresses of the tree -/
theorem SizeOk.frame {s s' : State} {t : T} (hz : SizeOk s t) (hsz : s'.trie.size = s.trie.size)
    (hst : ∀ a ∈ t.addrs, s'.stemAt a = s.stemAt a) : SizeOk s' t := by
  unfold SizeOk at *
  rw [T.entries_frame t [] hst, map_blocks_congr t [] hst, hsz, hz]

/-- `NoStruct` steps keep the size and all stems, hence the invariant -/
theorem NoStruct.size_stems {s s' : State} (n : NoStruct s s') :
    s'.trie.size = s.trie.size ∧ ∀ a, s'.stemAt a = s.stemAt a := ⟨n.1, n.stemAt⟩

theorem SizeOk.noStruct {s s' : State} {t : T} (hz : SizeOk s t) (n : NoStruct s s') : SizeOk s' t :=
  hz.frame n.1 (fun a _ => n.stemAt a)

/-- a graft at a hole: the store grows by exactly the blocks of the stem of the one entry added -/
theorem SizeOk.graft {s s' : State} {t : T} {q b : Nat} {sl : Slot} {x : Stem} {pre' : LRU}
    {lo' hi' : Option Stem} (hz : SizeOk s t) (hnd : t.addrs.Nodup)
    (hh : Hole s q sl t [] none none pre' lo' hi')
    (hst : ∀ a ∈ t.addrs, s'.stemAt a = s.stemAt a) (hnew : s'.stemAt b = x)
    (hsz : s'.trie.size = s.trie.size + blocksFor x) : SizeOk s' (t.graft q sl b) := by
  have hperm := (hh.graft_entries (b := b) hnd hst hnew).map (fun pb => blocksFor (s'.stemAt pb.2))
  unfold SizeOk at *
  rw [perm_sum hperm, List.map_cons, List.sum_cons, map_blocks_congr t [] hst, hsz, hz]
  simp only [hnew]
  omega

/-! ### 2. the write pair grows the store by `blocksFor x`; the three insertion situations -/

/-- the write pair "append the node for `x`, hook it into a slot" appends exactly `blocksFor x` blocks -/
theorem size_write (s : State) (q : Nat) (sl : Slot) (x : Stem) (par : Nat) (ch : Bool) (v : Nat) :
    ((s.writeNew x par ch).1.modCell q (fun c => c.setSlot sl v)).trie.size =
      s.trie.size + blocksFor x := by
  rw [trie_modCell_size, writeNew_size]

/-- `GraftStep` refined with the size -/
structure GraftStepZ (s s' : State) (q : Nat) (sl : Slot) (x : Stem) : Prop extends
    GraftStep s s' q sl x where
  size_eq : s'.trie.size = s.trie.size + blocksFor x

theorem graftStepZ_write (s : State) (q : Nat) (sl : Slot) (x : Stem) (par : Nat) (ch : Bool) (c : Cell)
    (hc : s.trie[q]? = some c) (hslot : c.slot sl = 0) (hcl : TailClosed s) :
    GraftStepZ s ((s.writeNew x par ch).1.modCell q (fun c => c.setSlot sl s.trie.size)) q sl x :=
  ⟨graftStep_write s q sl x par ch c hc hslot hcl, size_write s q sl x par ch _⟩

/-- one `GraftStepZ` at a hole keeps the accounting invariant -/
theorem SizeOk.graftStep {s s' : State} {t : T} {q : Nat} {sl : Slot} {x : Stem} {pre' : LRU}
    {lo' hi' : Option Stem} (hz : SizeOk s t) (h : Shape s t)
    (hh : Hole s q sl t [] none none pre' lo' hi') (g : GraftStepZ s s' q sl x) :
    SizeOk s' (t.graft q sl s.trie.size) :=
  hz.graft h.nodup hh (fun a ha => g.stems a (h.rep.lt_size a ha)) g.stemNew g.size_eq

/-- situation (a), one level: the sibling search fell off — one node of `blocksFor stem` blocks -/
theorem ensureStem_missing_size (s : State) (start : Nat) (stem : Stem) (q : Nat) (sl : Slot)
    (hf : s.findSib stem (s.trie.size + 1) start = .missing q sl) :
    (s.ensureStem start true stem).1.trie.size = s.trie.size + blocksFor stem := by
  rw [ensureStem_missing s start stem q sl hf]; exact size_write _ _ _ _ _ _ _

/-- situation (a), one level: the stem is there — nothing is written -/
theorem ensureStem_found_size (s : State) (start : Nat) (stem : Stem) (i : Nat)
    (hf : s.findSib stem (s.trie.size + 1) start = .found i) :
    (s.ensureStem start true stem).1 = s := by
  rw [ensureStem_found s start stem i hf]

/-- situation (c): the first node of an empty trie -/
theorem ensureStem_first_size (s : State) (start : Nat) (stem : Stem) :
    (s.ensureStem start false stem).1.trie.size = s.trie.size + blocksFor stem := by
  simp only [ensureStem, Bool.not_false, if_true]
  exact writeNew_size s stem 0 false

/-- situation (b): one iteration of the second loop -/
theorem addLruCreate_cons_size (flag : Bool) (s : State) (x : Stem) (rest : List Stem) (q : Nat) :
    ∃ s1 : State, addLruCreate flag s (x :: rest) q = addLruCreate flag s1 rest s.trie.size ∧
      s1.trie.size = s.trie.size + blocksFor x :=
  ⟨_, addLruCreate_cons flag s x rest q, size_write _ _ _ _ _ _ _⟩

/-- the whole second loop: one node per remaining stem -/
theorem addLruCreate_size (flag : Bool) : ∀ (rest : List Stem) (s : State) (q : Nat),
    (addLruCreate flag s rest q).1.trie.size = s.trie.size + (rest.map blocksFor).sum := by
  intro rest
  induction rest with
  | nil => intro s q; simp [addLruCreate]
  | cons x rest ih =>
    intro s q
    rw [addLruCreate_cons, ih, size_write, List.map_cons, List.sum_cons]; omega

/-- situation (a), the whole first loop: if the ghost descent falls off inside a sibling BST, the loop
    has appended exactly the node of the first unconsumed stem -/
theorem addLruDescend_size (flag : Bool) : ∀ (stems : List Stem) (s : State) (u : T) (pre : LRU)
    (pos : Nat) (h : Hist),
    Rep s u → u ≠ .nil → u.size ≤ s.trie.size → TailClosed s → stems ≠ [] →
    ∀ (q : Nat) (sl : Slot) (pre' : LRU) (x : Stem) (rest'' : List Stem),
      u.descend s stems pre = .fell q sl pre' (x :: rest'') → sl ≠ .C →
      (addLruDescend flag s stems u.root true pos h).1.trie.size = s.trie.size + blocksFor x := by
  intro stems
  induction stems with
  | nil => intro _ _ _ _ _ _ _ _ _ h; exact absurd rfl h
  | cons stem rest ih =>
    intro s u pre pos h hr hne hsz hcl _ q sl pre' x rest'' hd hsl
    have hfs := findSib_eq_find (s := s) (stem := stem) u (s.trie.size + 1) hr hne (by omega)
    cases hf : u.find s stem with
    | corrupt => exact absurd hf (T.find_ne_corrupt u hne)
    | missing q0 sl0 =>
      rw [hf] at hfs
      simp only [T.descend, hf, Loc.fell.injEq] at hd
      obtain ⟨rfl, rfl, _, e⟩ := hd
      obtain ⟨rfl, rfl⟩ := List.cons.inj e
      obtain ⟨c, hc, hslot⟩ := findSib_missing s stem _ _ _ _ hfs
      have hg := graftStep_write s q0 sl0 stem (s.cell q0).parent false c hc hslot hcl
      have he := ensureStem_missing s u.root stem q0 sl0 hfs
      rw [addLruDescend_cons_stop flag s stem rest u.root true pos h _ _ he (Or.inr hg.cell_child_new)]
      simp only
      rw [size_markCanHave, size_write]
    | found a =>
      rw [hf] at hfs
      have he := ensureStem_found s u.root stem a hfs
      obtain ⟨hmem, _⟩ := T.find_sound u a hf
      obtain ⟨hrc, cell, hcell, hch⟩ := Rep.childAt u a hr hmem
      have hcella : s.cell a = cell := by simp [State.cell, hcell]
      cases rest with
      | nil => simp [T.descend, hf] at hd
      | cons st2 rest2 =>
        cases hc : u.childAt a with
        | nil =>
          simp only [T.descend, hf, hc, Loc.fell.injEq] at hd
          exact absurd hd.2.1.symm hsl
        | node a' l' c' r' =>
          rw [hc] at hch hrc
          have hne0 : (s.cell a).child ≠ 0 := by rw [hcella, hch]; exact hrc.1
          rw [addLruDescend_cons_go flag s stem _ u.root true pos h _ _ he (by simp) hne0]
          have hns := noStruct_markCanHave s a
            (!(st2 :: rest2).isEmpty && flag && (s.cell a).flags.noChild)
          have hsz' : (T.node a' l' c' r').size ≤ s.trie.size := by
            have := T.childAt_size u a; rw [hc] at this; omega
          have hroot : (s.cell a).child = (T.node a' l' c' r').root := by rw [hcella, hch]
          rw [hroot]
          simp only [T.descend, hf, hc] at hd
          have := ih _ (.node a' l' c' r') (pre ++ [stem]) (pos + stem.length)
            (h.visit (s.cell a) (pos + stem.length)) (hns.rep hrc) (by simp)
            (by rw [hns.1]; exact hsz') (hns.closed hcl) (by simp) q sl pre' x rest''
            (by rw [T.descend_congr hns.stemAt]; exact hd) hsl
          rw [hns.1] at this
          exact this

/-- what the first loop returns, with the size of the one graft step recorded -/
def DescSpecZ (s : State) (r : State × Nat × List Stem × Hist) : Loc → Prop
  | .found b => NoStruct s r.1 ∧ r.2.1 = b ∧ r.2.2.1 = []
  | .fell q sl _ rest' =>
    if sl = .C then NoStruct s r.1 ∧ r.2.1 = q ∧ r.2.2.1 = rest'
    else ∃ x rest'' s1 s2, rest' = x :: rest'' ∧ NoStruct s s1 ∧ GraftStepZ s1 s2 q sl x ∧
      NoStruct s2 r.1 ∧ r.2.1 = s1.trie.size ∧ r.2.2.1 = rest''
  | .corrupt => False

/-- `addLruDescend_spec` with `GraftStep` refined to `GraftStepZ` -/
theorem addLruDescend_specZ (flag : Bool) (stems : List Stem) (s : State) (u : T) (pre : LRU)
    (pos : Nat) (h : Hist) (hr : Rep s u) (hne : u ≠ .nil) (hsz : u.size ≤ s.trie.size)
    (hcl : TailClosed s) (hs : stems ≠ []) :
    DescSpecZ s (addLruDescend flag s stems u.root true pos h) (u.descend s stems pre) := by
  have spec := addLruDescend_spec flag stems s u pre pos h hr hne hsz hcl hs
  have hsize := addLruDescend_size flag stems s u pre pos h hr hne hsz hcl hs
  cases hd : u.descend s stems pre with
  | corrupt => rw [hd] at spec; exact spec
  | found b => rw [hd] at spec; exact spec
  | fell q sl pre' rest' =>
    rw [hd] at spec
    simp only [DescSpec, DescSpecZ] at spec ⊢
    by_cases hC : sl = .C
    · rw [if_pos hC] at spec ⊢; exact spec
    · rw [if_neg hC] at spec ⊢
      obtain ⟨x, rest'', s1, s2, e, n1, g, n2, e1, e2⟩ := spec
      subst e
      refine ⟨x, rest'', s1, s2, rfl, n1, ⟨g, ?_⟩, n2, e1, e2⟩
      have := hsize q sl pre' x rest'' hd hC
      rw [n2.1] at this
      rw [this, n1.1]

/-! ### 3. `add_lru` keeps the accounting invariant -/

/-- the second loop -/
theorem addLruCreate_growZ (stems : LRU) (flag : Bool) : ∀ (rest : List Stem) (s : State) (t : T) (q : Nat)
    (p : LRU), Shape s t → SizeOk s t → (p, q) ∈ t.entries s [] → t.childOf q = .nil → p ≠ [] →
    p ++ rest = stems →
    ∃ t', Grow stems s t (addLruCreate flag s rest q).1 t' ∧
      SizeOk (addLruCreate flag s rest q).1 t' ∧
      (stems, (addLruCreate flag s rest q).2) ∈ t'.entries (addLruCreate flag s rest q).1 [] := by
  intro rest
  induction rest with
  | nil =>
    intro s t q p h hz hm _ _ e
    simp only [List.append_nil] at e
    subst e
    exact ⟨t, Grow.refl h, hz, hm⟩
  | cons x rest ih =>
    intro s t q p h hz hm hc hpne e
    rw [addLruCreate_cons]
    have hh := T.child_hole (s := s) t [] none none h.nodup hm hc
    obtain ⟨c, hcq, hslot⟩ := hh.slot_empty h.rep
    have g := graftStepZ_write s q .C x q (!rest.isEmpty && flag) c hcq hslot h.closed
    have hk : ∃ k, 0 < k ∧ k ≤ stems.length ∧ p ++ [x] = stems.take k := by
      refine ⟨p.length + 1, by omega, ?_, ?_⟩
      · rw [← e]; simp
      · rw [← e, take_append_cons]
    obtain ⟨gr, hent, hco⟩ :=
      Grow.graft_hole (stems := stems) h hh (by simp) (by simp) g.toGraftStep hk
    have hz1 := hz.graftStep h hh g
    obtain ⟨t', gr', hz', hent'⟩ := ih _ (t.graft q .C s.trie.size) s.trie.size (p ++ [x]) gr.shape hz1 hent hco
      (by simp) (by rw [← e]; simp)
    exact ⟨t', gr.trans gr', hz', hent'⟩

/-- MAIN: `add_lru` preserves the accounting invariant (on the ghost tree of `addLru_grow`): the store
    holds one header block plus the blocks of every stored stem-prefix, before and after -/
theorem addLru_sizeOk {s : State} {t : T} (h : Shape s t) (hz : SizeOk s t) (stems : LRU) (hne : stems ≠ [])
    (flag : Bool) :
    ∃ t', Grow stems s t (s.addLru stems flag).1 t' ∧ SizeOk (s.addLru stems flag).1 t' ∧
      (stems, (s.addLru stems flag).2.1) ∈ t'.entries (s.addLru stems flag).1 [] := by
  have key : ∀ D : State × Nat × List Stem × Hist,
      D = addLruDescend flag s stems 1 (decide (s.trie.size > 1)) 0 {} →
      ∃ t', Grow stems s t (addLruCreate flag D.1 D.2.2.1 D.2.1).1 t' ∧
        SizeOk (addLruCreate flag D.1 D.2.2.1 D.2.1).1 t' ∧
        (stems, (addLruCreate flag D.1 D.2.2.1 D.2.1).2) ∈
          t'.entries (addLruCreate flag D.1 D.2.2.1 D.2.1).1 [] := by
    intro D hD
    by_cases hsz : s.trie.size ≤ 1
    · -- empty trie
      have hsz1 : s.trie.size = 1 := by have := h.live; omega
      have ht := h.eq_nil hsz
      subst ht
      cases stems with
      | nil => exact absurd rfl hne
      | cons stem rest =>
        have hex : decide (s.trie.size > 1) = false := by simp; omega
        rw [hex] at hD
        have he : s.ensureStem 1 false stem = ((s.writeNew stem 0 false).1, 1) := by
          simp only [ensureStem, Bool.not_false, if_true]
          exact Prod.ext rfl (by rw [writeNew_idx]; exact hsz1)
        have hhead : (s.writeNew stem 0 false).1.trie[1]? = some (headCell stem 0 false) := by
          have := getElem?_writeNew_head s stem 0 false
          rw [hsz1] at this; exact this
        have hcell : (s.writeNew stem 0 false).1.cell 1 = headCell stem 0 false := by
          simp [State.cell, hhead]
        rw [addLruDescend_cons_stop flag s stem rest 1 false 0 {} _ _ he
          (Or.inr (by rw [hcell]; rfl))] at hD
        subst hD
        simp only
        have hlt := size_lt_writeNew s stem 0 false
        have sh1 : Shape (s.writeNew stem 0 false).1 (.node 1 .nil .nil .nil) :=
          shape_single (by omega) _ hhead rfl rfl rfl (TailClosed.writeNew s stem 0 false)
        have hstem1 : (s.writeNew stem 0 false).1.stemAt 1 = stem := by
          have := stemAt_writeNew' s stem 0 false
          rw [hsz1] at this; exact this
        have gr1 : Grow (stem :: rest) s .nil (s.writeNew stem 0 false).1 (.node 1 .nil .nil .nil) := by
          refine ⟨sh1, by omega, ?_, ?_, ?_⟩
          · intro p b hm; simp [T.entries] at hm
          · intro p b hm
            simp only [T.entries, hstem1, List.nil_append, List.append_nil, List.mem_singleton,
              Prod.mk.injEq] at hm
            exact Or.inr ⟨by omega, 1, by omega, by simp, by simp [hm.1]⟩
          · intro a ha
            exact stemAt_writeNew_other s stem 0 false a ha h.closed
        have hns := noStruct_markCanHave (s.writeNew stem 0 false).1 1
          (!rest.isEmpty && flag && ((s.writeNew stem 0 false).1.cell 1).flags.noChild)
        have gr2 := gr1.trans (Grow.of_noStruct (stems := stem :: rest) sh1 hns)
        have hent : ([stem], 1) ∈ (T.node 1 .nil .nil .nil).entries
            ((s.writeNew stem 0 false).1.markCanHave 1
              (!rest.isEmpty && flag && ((s.writeNew stem 0 false).1.cell 1).flags.noChild)) [] := by
          simp [T.entries, hns.stemAt, hstem1]
        have hz1 : SizeOk (s.writeNew stem 0 false).1 (.node 1 .nil .nil .nil) := by
          unfold SizeOk
          rw [writeNew_size, hsz1]
          simp [T.entries, hstem1]
        have hz2 := hz1.noStruct hns
        obtain ⟨t', gr', hz', hent'⟩ := addLruCreate_growZ (stem :: rest) flag rest _ _ 1 [stem] gr2.shape
          hz2 hent (by simp [T.childOf]) (by simp) (by simp)
        exact ⟨t', gr2.trans gr', hz', hent'⟩
    · -- non-empty trie: descend from block 1
      have hex : decide (s.trie.size > 1) = true := by simp; omega
      rw [hex] at hD
      have hroot := h.root
      rw [if_neg hsz] at hroot
      have htne : t ≠ .nil := by intro e; subst e; simp at hroot
      have spec := addLruDescend_specZ flag stems s t [] 0 {} h.rep htne h.size_le h.closed hne
      rw [hroot, ← hD] at spec
      obtain ⟨S, nd, rst, hi⟩ := D
      simp only at ⊢
      cases hd : t.descend s stems [] with
      | corrupt => rw [hd] at spec; exact absurd spec (by simp [DescSpecZ])
      | found b =>
        rw [hd] at spec
        simp only [DescSpecZ] at spec
        obtain ⟨n1, rfl, rfl⟩ := spec
        have hm := descend_found_mem stems t [] nd hd
        simp only [List.nil_append] at hm
        have gr := Grow.of_noStruct (stems := stems) h n1
        exact ⟨t, gr, hz.noStruct n1, gr.keep _ _ hm⟩
      | fell q sl pre' rest' =>
        rw [hd] at spec
        simp only [DescSpecZ] at spec
        obtain ⟨hrne, _, _⟩ := descend_fell_suffix stems t [] q sl pre' rest' hd
        cases rest' with
        | nil => exact absurd rfl hrne
        | cons x rest'' =>
          by_cases hC : sl = .C
          · rw [if_pos hC] at spec
            subst hC
            obtain ⟨n1, rfl, rfl⟩ := spec
            rw [addLruCreate_cons]
            have hd1 : t.descend S stems [] = .fell nd .C pre' (x :: rest'') := by
              rw [T.descend_congr n1.stemAt]; exact hd
            obtain ⟨_, _, hh, _, _⟩ :=
              T.descend_hole stems t [] none none nd .C pre' x rest'' hd1 (by simp) (by simp)
            obtain ⟨c, hcq, hslot⟩ := hh.slot_empty (n1.rep h.rep)
            have g := graftStepZ_write S nd .C x nd (!rest''.isEmpty && flag) c hcq hslot
              (n1.closed h.closed)
            obtain ⟨gr, hent, hco, e⟩ := grow_after_fell_graft h hd n1 g.toGraftStep (NoStruct.refl _)
            have hz1 := (hz.noStruct n1).graftStep (n1.shape h) hh g
            obtain ⟨t', gr', hz', hent'⟩ := addLruCreate_growZ stems flag rest'' _ _ S.trie.size
              (pre' ++ [x]) gr.shape hz1 hent hco (by simp) (by rw [← e]; simp)
            exact ⟨t', gr.trans gr', hz', hent'⟩
          · rw [if_neg hC] at spec
            obtain ⟨x', rest3, s1, s2, e0, n1, g, n2, rfl, rfl⟩ := spec
            obtain ⟨rfl, rfl⟩ := List.cons.inj e0
            obtain ⟨gr, hent, hco, e⟩ := grow_after_fell_graft h hd n1 g.toGraftStep n2
            have hd1 : t.descend s1 stems [] = .fell q sl pre' (x :: rest'') := by
              rw [T.descend_congr n1.stemAt]; exact hd
            obtain ⟨_, _, hh, _, _⟩ :=
              T.descend_hole stems t [] none none q sl pre' x rest'' hd1 (by simp) (by simp)
            have hz1 : SizeOk S (t.graft q sl s1.trie.size) :=
              ((hz.noStruct n1).graftStep (n1.shape h) hh g).noStruct n2
            obtain ⟨t', gr', hz', hent'⟩ := addLruCreate_growZ stems flag rest'' S _ s1.trie.size
              (pre' ++ [x]) gr.shape hz1 hent hco (by simp) (by rw [← e]; simp)
            exact ⟨t', gr.trans gr', hz', hent'⟩
  exact key _ rfl

/-- the two invariants together, in the form used to chain insertions -/
theorem addLru_shape_sizeOk {s : State} {t : T} (h : Shape s t) (hz : SizeOk s t) (stems : LRU)
    (hne : stems ≠ []) (flag : Bool) :
    ∃ t', Shape (s.addLru stems flag).1 t' ∧ SizeOk (s.addLru stems flag).1 t' ∧
      (stems, (s.addLru stems flag).2.1) ∈ t'.entries (s.addLru stems flag).1 [] := by
  obtain ⟨t', gr, hz', hent⟩ := addLru_sizeOk h hz stems hne flag
  exact ⟨t', gr.shape, hz', hent⟩

/-! ### idempotence: a known LRU allocates nothing -/

/-- re-submitting a known LRU allocates nothing and returns its block -/
theorem addLru_known_no_growth {s : State} {t : T} (h : Shape s t) (stems : LRU) (hne : stems ≠ [])
    (flag : Bool) (b : Nat) (hb : (stems, b) ∈ t.entries s []) :
    (s.addLru stems flag).1.trie.size = s.trie.size ∧ (s.addLru stems flag).2.1 = b := by
  have key : ∀ D : State × Nat × List Stem × Hist,
      D = addLruDescend flag s stems 1 (decide (s.trie.size > 1)) 0 {} →
      (addLruCreate flag D.1 D.2.2.1 D.2.1).1.trie.size = s.trie.size ∧
        (addLruCreate flag D.1 D.2.2.1 D.2.1).2 = b := by
    intro D hD
    have hsz : ¬ s.trie.size ≤ 1 := by
      intro hsz
      have ht := h.eq_nil hsz
      subst ht
      simp [T.entries] at hb
    have hex : decide (s.trie.size > 1) = true := by simp; omega
    rw [hex] at hD
    have hroot := h.root
    rw [if_neg hsz] at hroot
    have htne : t ≠ .nil := by intro e; subst e; simp at hroot
    have spec := addLruDescend_spec flag stems s t [] 0 {} h.rep htne h.size_le h.closed hne
    rw [hroot, ← hD] at spec
    have hd : t.descend s stems [] = .found b :=
      (descend_found_iff stems t none none [] b h.ord h.nodup hne).mpr (by simpa using hb)
    rw [hd] at spec
    obtain ⟨S, nd, rst, hi⟩ := D
    simp only [DescSpec] at spec
    obtain ⟨n1, rfl, rfl⟩ := spec
    exact ⟨n1.1, rfl⟩
  exact key _ rfl

/-- …and keeps every stem, hence the whole finite map -/
theorem addLru_known_entries {s : State} {t : T} (h : Shape s t) (stems : LRU) (hne : stems ≠ [])
    (flag : Bool) (b : Nat) (hb : (stems, b) ∈ t.entries s []) :
    Shape (s.addLru stems flag).1 t ∧ t.entries (s.addLru stems flag).1 [] = t.entries s [] := by
  have key : ∀ D : State × Nat × List Stem × Hist,
      D = addLruDescend flag s stems 1 (decide (s.trie.size > 1)) 0 {} →
      Shape (addLruCreate flag D.1 D.2.2.1 D.2.1).1 t ∧
        t.entries (addLruCreate flag D.1 D.2.2.1 D.2.1).1 [] = t.entries s [] := by
    intro D hD
    have hsz : ¬ s.trie.size ≤ 1 := by
      intro hsz
      have ht := h.eq_nil hsz
      subst ht
      simp [T.entries] at hb
    have hex : decide (s.trie.size > 1) = true := by simp; omega
    rw [hex] at hD
    have hroot := h.root
    rw [if_neg hsz] at hroot
    have htne : t ≠ .nil := by intro e; subst e; simp at hroot
    have spec := addLruDescend_spec flag stems s t [] 0 {} h.rep htne h.size_le h.closed hne
    rw [hroot, ← hD] at spec
    have hd : t.descend s stems [] = .found b :=
      (descend_found_iff stems t none none [] b h.ord h.nodup hne).mpr (by simpa using hb)
    rw [hd] at spec
    obtain ⟨S, nd, rst, hi⟩ := D
    simp only [DescSpec] at spec
    obtain ⟨n1, rfl, rfl⟩ := spec
    exact ⟨n1.shape h, T.entries_frame t [] (fun a _ => n1.stemAt a)⟩
  exact key _ rfl

#print axioms sizeOk_init
#print axioms addLruDescend_size
#print axioms addLru_sizeOk
#print axioms addLru_known_no_growth

end Traph

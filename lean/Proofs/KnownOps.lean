import Proofs.Known
/-! C02 / C19 at the level of histories, part 2: what every write request does to the set of stored LRUs.
    `State.named s op` lists the LRUs the request names: the byte strings of its arguments (`Op.lrus`)
    and the prefixes the library attaches to automatically created webentities, as announced in the
    write report of the request (`Ans.attached`). `named_step`: unless the request is aborted by the
    `KeyError` of `__add_page`, the stored LRUs afterwards are those stored before plus the non-empty
    stem-prefixes of `named s op` (`KStep`), and `Good` holds again — `good_step`: the latter for every
    request whatsoever. -/
namespace Traph
open State Layout

/-! ### link layer and flag rewrites: nothing structural -/

theorem noStruct_addStubs (s : State) (page : Nat) (targets : List Nat) (out : Bool) :
    NoStruct s (s.addStubs page targets out) := by
  unfold addStubs
  split
  · exact NoStruct.refl s
  · exact (noStruct_of_trie_eq (addStubsGo_trie_eq targets s _)).trans
      (Traph.noStruct_modCell _ _ _ (fun c => by cases out <;> exact ⟨rfl, rfl, rfl, rfl, rfl⟩))

theorem noStruct_flushLists (out : Bool) (pages : List (Bytes × Nat)) :
    ∀ (l : List (Bytes × List Bytes)) (s : State), NoStruct s (flushLists out pages s l)
  | [], s => by simp only [flushLists]; exact NoStruct.refl s
  | (p, others) :: rest, s => by
    simp only [flushLists]
    exact (noStruct_addStubs s _ _ out).trans (noStruct_flushLists out pages rest _)

theorem noStruct_markCrawled (s : State) (n : Nat) :
    NoStruct s (s.modCell n (fun c => { c with flags := { c.flags with crawled := true } })) :=
  Traph.noStruct_modCell s n _ (fun _ => ⟨rfl, rfl, rfl, rfl, rfl⟩)

theorem noStruct_setWe (s : State) (n v : Nat) : NoStruct s (s.modCell n (fun c => { c with we := v })) :=
  Traph.noStruct_modCell s n _ (fun _ => ⟨rfl, rfl, rfl, rfl, rfl⟩)

theorem noStruct_setRule (s : State) (n : Nat) (b : Bool) :
    NoStruct s (s.modCell n (fun c => { c with flags := { c.flags with rule := b } })) :=
  Traph.noStruct_modCell s n _ (fun _ => ⟨rfl, rfl, rfl, rfl, rfl⟩)

theorem noStruct_foldl_modCell {α : Type} (idx : α → Nat) (f : α → Cell → Cell)
    (hf : ∀ a c, ((f a c).left = c.left ∧ (f a c).right = c.right ∧ (f a c).child = c.child ∧
      (f a c).chunk = c.chunk ∧ (f a c).flags.hasTail = c.flags.hasTail)) :
    ∀ (l : List α) (s : State), NoStruct s (l.foldl (fun st a => st.modCell (idx a) (f a)) s)
  | [], s => NoStruct.refl s
  | a :: l, s => by
    rw [List.foldl_cons]
    exact (Traph.noStruct_modCell s (idx a) (f a) (hf a)).trans (noStruct_foldl_modCell idx f hf l _)

/-! ### reports: the prefixes attached to created webentities -/

/-- the prefixes a write report announces as attached to the webentities it created -/
def Report.attached (r : Report) : List Bytes := r.we.flatMap (·.2)

/-- every key of the report is an id, at most `n` -/
def Report.KeysLe (r : Report) (n : Nat) : Prop := ∀ kv ∈ r.we, ∃ i, kv.1 = some i ∧ i ≤ n

theorem Report.KeysLe.mono {r : Report} {n m : Nat} (h : r.KeysLe n) (hnm : n ≤ m) : r.KeysLe m := by
  intro kv hkv
  obtain ⟨i, e, hi⟩ := h kv hkv
  exact ⟨i, e, Nat.le_trans hi hnm⟩

theorem keysLe_empty (n : Nat) : ({} : Report).KeysLe n := by
  intro kv hkv; simp at hkv

theorem dictSet_new {α β : Type} [DecidableEq α] : ∀ (d : List (α × β)) (k : α) (v : β),
    (∀ kv ∈ d, kv.1 ≠ k) → dictSet d k v = d ++ [(k, v)]
  | [], _, _, _ => rfl
  | (k', v') :: rest, k, v, h => by
    have hk : k' ≠ k := h (k', v') (by simp)
    simp only [dictSet, if_neg hk, List.cons_append]
    rw [dictSet_new rest k v (fun kv hkv => h kv (by simp [hkv]))]

theorem Report.add_we_nil (a b : Report) (hb : b.we = []) : (a.add b).we = a.we := by
  simp [Report.add, hb]

theorem Report.add_we_single (a b : Report) (n id : Nat) (ps : List Bytes) (ha : a.KeysLe n) (hid : n < id)
    (hb : b.we = [(some id, ps)]) : (a.add b).we = a.we ++ [(some id, ps)] := by
  simp only [Report.add, hb, List.foldl_cons, List.foldl_nil]
  apply dictSet_new
  intro kv hkv e
  obtain ⟨i, e', hi⟩ := ha kv hkv
  rw [e'] at e
  cases e
  omega

/-! ### `__add_prefixes` -/

theorem mem_keys_dictSet {α β : Type} [DecidableEq α] : ∀ (d : List (α × β)) (k : α) (v : β) (x : α),
    x ∈ (dictSet d k v).map (·.1) ↔ x ∈ d.map (·.1) ∨ x = k
  | [], k, v, x => by simp [dictSet]
  | (k', v') :: rest, k, v, x => by
    simp only [dictSet]
    split
    · rename_i e
      subst e
      simp only [List.map_cons, List.mem_cons]
      constructor
      · rintro (h | h)
        · exact Or.inl (Or.inl h)
        · exact Or.inl (Or.inr h)
      · rintro ((h | h) | h)
        · exact Or.inl h
        · exact Or.inr h
        · exact Or.inl h
    · simp only [List.map_cons, List.mem_cons]
      rw [mem_keys_dictSet rest k v x]
      exact or_assoc.symm

/-- the scan of `__add_prefixes` from a base state `s0`: every prefix is inserted; a prefix that is not
    recorded as valid was stored (with a webentity) in the base state already -/
theorem kstep_addPrefixesScan : ∀ (ps : List Bytes) (s : State) (t : T) (valid : List (Bytes × Nat)) (nInv : Nat)
    (s0 : State) (t0 : T) (L0 : List LRU), KStep L0 s0 t0 s t → AttrStep s0 s →
    ∃ t', KStep (ps.map lruIter) s t (s.addPrefixesScan ps valid nInv).1 t' ∧
      AttrStep s (s.addPrefixesScan ps valid nInv).1 ∧
      (∀ x, x ∈ (s.addPrefixesScan ps valid nInv).2.1.map (·.1) → x ∈ valid.map (·.1) ∨ x ∈ ps) ∧
      (∀ p ∈ ps, p ∈ (s.addPrefixesScan ps valid nInv).2.1.map (·.1) ∨
        (lruIter p ≠ [] → Known s0 t0 (lruIter p))) ∧
      (∀ x ∈ valid.map (·.1), x ∈ (s.addPrefixesScan ps valid nInv).2.1.map (·.1)) ∧
      (s.addPrefixesScan ps valid nInv).2.2 ≤ nInv + ps.length ∧
      ((s.addPrefixesScan ps valid nInv).2.2 = nInv + ps.length →
        ∀ p ∈ ps, lruIter p ≠ [] → Known s0 t0 (lruIter p))
  | [], s, t, valid, nInv, s0, t0, L0, k0, a0 => by
    simp only [addPrefixesScan]
    exact ⟨t, KStep.refl k0.good, AttrStep.refl s, fun x hx => Or.inl hx, fun p hp => by simp at hp,
      fun x hx => hx, Nat.le_refl _, fun _ p hp => by simp at hp⟩
  | p :: ps, s, t, valid, nInv, s0, t0, L0, k0, a0 => by
    obtain ⟨t1, k1, hent⟩ := kstep_addLru k0.good (lruIter p) true (lruIter_wf p)
    have a1 := attrStep_addLru s (lruIter p) true
    rcases ha : s.addLru (lruIter p) true with ⟨s1, n, hh⟩
    rw [ha] at k1 hent a1
    simp only at k1 hent a1
    have k01 := k0.trans k1
    have a01 := a0.trans a1
    -- a node carrying a webentity right after its insertion is a node of the base state
    have hinv : (s1.cell n).we ≠ 0 → lruIter p ≠ [] → Known s0 t0 (lruIter p) := by
      intro hwe hne
      rcases k01.fresh _ _ (hent hne) with h | h
      · exact ⟨n, h⟩
      · exact absurd (a01.new n h).we hwe
    simp only [addPrefixesScan, ha]
    split
    · rename_i hwe
      obtain ⟨t2, k2, a2, h1, h2, h3, h4, h5⟩ := kstep_addPrefixesScan ps s1 t1 valid (nInv + 1) s0 t0 _ k01 a01
      refine ⟨t2, ?_, a1.trans a2, ?_, ?_, h3, ?_, ?_⟩
      · have := k1.trans k2
        simpa using this
      · intro x hx
        rcases h1 x hx with h | h
        · exact Or.inl h
        · exact Or.inr (List.mem_cons_of_mem _ h)
      · intro q hq
        rcases List.mem_cons.mp hq with rfl | hq
        · exact Or.inr (hinv hwe)
        · exact h2 q hq
      · simp only [List.length_cons]; omega
      · intro e q hq
        rcases List.mem_cons.mp hq with rfl | hq
        · exact hinv hwe
        · exact h5 (by simp only [List.length_cons] at e; omega) q hq
    · obtain ⟨t2, k2, a2, h1, h2, h3, h4, h5⟩ :=
        kstep_addPrefixesScan ps s1 t1 (dictSet valid p n) nInv s0 t0 _ k01 a01
      refine ⟨t2, ?_, a1.trans a2, ?_, ?_, ?_, ?_, ?_⟩
      · have := k1.trans k2
        simpa using this
      · intro x hx
        rcases h1 x hx with h | h
        · rcases (mem_keys_dictSet valid p n x).mp h with h | rfl
          · exact Or.inl h
          · exact Or.inr (by simp)
        · exact Or.inr (List.mem_cons_of_mem _ h)
      · intro q hq
        rcases List.mem_cons.mp hq with rfl | hq
        · exact Or.inl (h3 _ ((mem_keys_dictSet valid q n q).mpr (Or.inr rfl)))
        · exact h2 q hq
      · intro x hx
        exact h3 x ((mem_keys_dictSet valid p n x).mpr (Or.inl hx))
      · simp only [List.length_cons]; omega
      · intro e
        simp only [List.length_cons] at e
        omega

theorem hdrId_addPrefixesScan' : ∀ (ps : List Bytes) (s : State) (valid : List (Bytes × Nat)) (k : Nat),
    (addPrefixesScan s ps valid k).1.hdrId = s.hdrId
  | [], _, _, _ => rfl
  | p :: ps, s, valid, k => by
    rcases h : s.addLru (lruIter p) true with ⟨s1, n, hh⟩
    have h1 : s1.hdrId = s.hdrId := by have := hdrId_addLru s (lruIter p) true; rw [h] at this; exact this
    simp only [addPrefixesScan, h]
    split <;> rw [hdrId_addPrefixesScan' ps, h1]

/-- `__add_prefixes`: all the prefixes are inserted; the ones not attached to the new webentity were
    stored before; the counter moves by at most one, and by exactly one when an id is issued -/
theorem kstep_addPrefixes {s : State} {t : T} (g : Good s t) (ps : List Bytes) (best : Bool) :
    ∃ t', KStep (ps.map lruIter) s t (s.addPrefixes ps best).1 t' ∧
      s.hdrId ≤ (s.addPrefixes ps best).1.hdrId ∧
      (∀ e, (s.addPrefixes ps best).2 = .error e → best = false) ∧
      ∀ id l, (s.addPrefixes ps best).2 = .ok (id, l) →
        (∀ x ∈ l, x ∈ ps) ∧ (∀ p ∈ ps, p ∈ l ∨ (lruIter p ≠ [] → Known s t (lruIter p))) ∧
        ((id = none ∧ l = [] ∧ (s.addPrefixes ps best).1.hdrId = s.hdrId) ∨
         (id = some (s.hdrId + 1) ∧ (s.addPrefixes ps best).1.hdrId = s.hdrId + 1)) := by
  obtain ⟨t1, k1, a1, h1, h2, _, h4, h5⟩ :=
    kstep_addPrefixesScan ps s t [] 0 s t [] (KStep.refl g) (AttrStep.refl s)
  have hh := hdrId_addPrefixesScan' ps s [] 0
  rcases ha : s.addPrefixesScan ps [] 0 with ⟨s1, valid, nInv⟩
  rw [ha] at k1 a1 h1 h2 h4 h5 hh
  simp only at k1 a1 h1 h2 h4 h5 hh
  simp only [addPrefixes, ha]
  split
  · rename_i hbad
    exact ⟨t1, k1, Nat.le_of_eq hh.symm, fun e _ => by cases best <;> simp_all, fun id l he => by cases he⟩
  · split
    · rename_i hall
      refine ⟨t1, k1, Nat.le_of_eq hh.symm, (fun e he => by cases he), fun id l he => ?_⟩
      cases he
      refine ⟨fun x hx => by simp at hx, fun p hp => Or.inr (h5 (by omega) p hp), Or.inl ⟨rfl, rfl, hh⟩⟩
    · have k2 : KStep [] s1 t1 s1.genId.1 t1 := KStep.of_trie_eq k1.good rfl
      have k3 := KStep.of_noStruct k2.good (noStruct_foldl_modCell (fun pn : Bytes × Nat => pn.2)
        (fun _ c => { c with we := s1.genId.2 }) (fun _ _ => ⟨rfl, rfl, rfl, rfl, rfl⟩) valid s1.genId.1)
      have hid : (valid.foldl (fun st pn => st.modCell pn.2 (fun c => { c with we := s1.genId.2 })) s1.genId.1).hdrId
          = s.hdrId + 1 := by
        rw [hdrId_foldl_modCell (fun pn : Bytes × Nat => pn.2) (fun _ c => { c with we := s1.genId.2 })]
        rw [hdrId_genId, hh]
      refine ⟨t1, (k1.trans_nil k2).trans_nil k3, by rw [hid]; omega, (fun e he => by cases he), fun id l he => ?_⟩
      cases he
      refine ⟨fun x hx => ?_, fun p hp => h2 p hp, Or.inr ⟨by rw [snd_genId, hh], hid⟩⟩
      rcases h1 x hx with h | h
      · simp at h
      · exact h

/-- the list of named LRUs may be cut down to a sublist when the dropped ones were stored before -/
theorem KStep.shrink {A B : List LRU} {s s' : State} {t t' : T} (h : KStep A s t s' t')
    (hBA : ∀ l ∈ B, l ∈ A) (hA : ∀ l ∈ A, l ∈ B ∨ (l ≠ [] → Known s t l)) : KStep B s t s' t' := by
  refine h.congr (fun p => ⟨?_, ?_⟩)
  · rintro (h1 | ⟨hp, l, hl, hpl⟩)
    · exact Or.inl h1
    · rcases hA l hl with hb | hk
      · exact Or.inr ⟨hp, l, hb, hpl⟩
      · have hne : l ≠ [] := by
          intro e; subst e; exact hp (List.prefix_nil.mp hpl)
        exact Or.inl ((hk hne).of_prefix hp hpl)
  · rintro (h1 | hc)
    · exact Or.inl h1
    · exact Or.inr (hc.mono hBA)

/-- `__create_webentity` while adding a page: what gets stored is the prefix closure of the prefixes the
    report announces (the other variations were stored already) -/
theorem kstep_createWebentityAuto {s : State} {t : T} (g : Good s t) (x : Bytes) :
    ∃ t', KStep ((s.createWebentityAuto x).2.attached.map lruIter) s t (s.createWebentityAuto x).1 t' ∧
      s.hdrId ≤ (s.createWebentityAuto x).1.hdrId ∧
      ((s.createWebentityAuto x).2.we = [] ∨
        ∃ ps, (s.createWebentityAuto x).2.we = [(some (s.hdrId + 1), ps)] ∧
          (s.createWebentityAuto x).1.hdrId = s.hdrId + 1) := by
  obtain ⟨t1, k1, hle, herr, hres⟩ := kstep_addPrefixes g (lruVariations x) true
  unfold createWebentityAuto
  split
  · rename_i s1 id ps heq
    rw [heq] at k1 hle hres
    simp only at k1 hle hres
    obtain ⟨h1, h2, h3⟩ := hres (some id) ps rfl
    refine ⟨t1, ?_, hle, Or.inr ?_⟩
    · refine k1.shrink ?_ ?_
      · intro l hl
        simp only [Report.attached, List.flatMap_cons, List.flatMap_nil, List.append_nil] at hl
        obtain ⟨y, hy, rfl⟩ := List.mem_map.mp hl
        exact List.mem_map.mpr ⟨y, h1 y hy, rfl⟩
      · intro l hl
        obtain ⟨y, hy, rfl⟩ := List.mem_map.mp hl
        rcases h2 y hy with h | h
        · left
          simp only [Report.attached, List.flatMap_cons, List.flatMap_nil, List.append_nil]
          exact List.mem_map.mpr ⟨y, h, rfl⟩
        · exact Or.inr h
    · rcases h3 with ⟨h, _⟩ | ⟨h, h'⟩
      · cases h
      · cases h
        exact ⟨ps, rfl, h'⟩
  · rename_i s1 res hno heq
    rw [heq] at k1 hle hres herr
    simp only at k1 hle hres herr
    refine ⟨t1, ?_, hle, Or.inl rfl⟩
    rcases res with e | ⟨_ | id, l⟩
    · exact absurd (herr e rfl) (by simp)
    · obtain ⟨h1, h2, h3⟩ := hres none l rfl
      have hl : l = [] := by
        rcases h3 with ⟨_, h, _⟩ | ⟨h, _⟩
        · exact h
        · cases h
      subst hl
      refine k1.shrink (fun l hl => by simp [Report.attached] at hl) ?_
      intro l hl
      obtain ⟨y, hy, rfl⟩ := List.mem_map.mp hl
      rcases h2 y hy with h | h
      · simp at h
      · exact Or.inr h
    · exact absurd rfl (hno id l)

/-! ### `__add_page` -/

theorem addPageCore_form (s : State) (lru : Bytes) (c : Bool) :
    (∃ e, s.addPageCore lru c =
        ((s.addPageTrie (lruIter lru) c).1, (s.addPageTrie (lruIter lru) c).2.1, .error e)) ∨
    (∃ k, s.addPageCore lru c =
        ((s.addPageTrie (lruIter lru) c).1, (s.addPageTrie (lruIter lru) c).2.1, .ok { pages := k })) ∨
    (∃ k x, s.addPageCore lru c =
        (((s.addPageTrie (lruIter lru) c).1.createWebentityAuto x).1, (s.addPageTrie (lruIter lru) c).2.1,
          .ok (({ pages := k } : Report).add ((s.addPageTrie (lruIter lru) c).1.createWebentityAuto x).2))) := by
  rcases ha : s.addPageTrie (lruIter lru) c with ⟨s1, n, h⟩
  simp only [addPageCore, ha]
  generalize (if h.created = true then 1 else 0 : Nat) = k
  repeat' split
  all_goals first
    | exact Or.inl ⟨_, rfl⟩
    | exact Or.inr (Or.inl ⟨_, rfl⟩)
    | exact Or.inr (Or.inr ⟨_, _, rfl⟩)

/-- the prefixes announced by an answer of a page insertion -/
def attachedOf : Except Err Report → List Bytes
  | .ok r => r.attached
  | .error _ => []

theorem kstep_addPageTrie {s : State} {t : T} (g : Good s t) (stems : LRU) (c : Bool)
    (hst : ∀ x ∈ stems, StemWf x) :
    ∃ t', KStep [stems] s t (s.addPageTrie stems c).1 t' := by
  obtain ⟨t1, k1, _⟩ := kstep_addLru g stems false hst
  exact ⟨t1, k1.trans_nil (KStep.of_noStruct k1.good (addPageTrie_noStruct s stems c).1)⟩

theorem add_pages_we (k : Nat) (b : Report) (hb : b.we = [] ∨ ∃ id ps, b.we = [(some id, ps)]) :
    (({ pages := k } : Report).add b).we = b.we := by
  rcases hb with hb | ⟨id, ps, hb⟩
  · simp [Report.add, hb]
  · simp [Report.add, hb, dictSet]

/-- `__add_page`: the page's LRU is inserted, and (when a webentity is created automatically) the
    prefixes announced in the report; on `KeyError` only the page's LRU -/
theorem kstep_addPageCore {s : State} {t : T} (g : Good s t) (lru : Bytes) (c : Bool) :
    ∃ t', KStep (lruIter lru :: (attachedOf (s.addPageCore lru c).2.2).map lruIter) s t
        (s.addPageCore lru c).1 t' ∧
      s.hdrId ≤ (s.addPageCore lru c).1.hdrId ∧
      ∀ r, (s.addPageCore lru c).2.2 = .ok r →
        r.we = [] ∨ ∃ ps, r.we = [(some (s.hdrId + 1), ps)] ∧ (s.addPageCore lru c).1.hdrId = s.hdrId + 1 := by
  obtain ⟨t1, k1⟩ := kstep_addPageTrie g (lruIter lru) c (lruIter_wf lru)
  have hh := hdrId_addPageTrie s (lruIter lru) c
  rcases addPageCore_form s lru c with ⟨e, he⟩ | ⟨k, he⟩ | ⟨k, x, he⟩
  · rw [he]
    exact ⟨t1, k1, Nat.le_of_eq hh.symm, fun r hr => by cases hr⟩
  · rw [he]
    exact ⟨t1, k1, Nat.le_of_eq hh.symm, fun r hr => by cases hr; exact Or.inl rfl⟩
  · rw [he]
    obtain ⟨t2, k2, hle, hwe⟩ := kstep_createWebentityAuto k1.good x
    rw [hh] at hle hwe
    have hwe' : ((s.addPageTrie (lruIter lru) c).1.createWebentityAuto x).2.we = [] ∨
        ∃ id ps, ((s.addPageTrie (lruIter lru) c).1.createWebentityAuto x).2.we = [(some id, ps)] := by
      rcases hwe with h | ⟨ps, h, _⟩
      · exact Or.inl h
      · exact Or.inr ⟨_, ps, h⟩
    have e := add_pages_we k _ hwe'
    refine ⟨t2, ?_, hle, fun r hr => ?_⟩
    · have := k1.trans k2
      simp only [attachedOf, Report.attached, e]
      exact this
    · cases hr
      rw [e]
      exact hwe

/-! ### request pieces that thread a report: the combinators -/

/-- tree-free form of "the pages of the request's cache are stored" -/
def CacheN (s : State) (pages : List (Bytes × Nat)) : Prop :=
  ∀ l n, (l, n) ∈ pages → lruIter l ≠ [] → ∃ b, s.lruNode (lruIter l) = some b

theorem known_iff_lruNode {s : State} {t : T} (h : Shape s t) (p : LRU) (hne : p ≠ []) :
    Known s t p ↔ ∃ b, s.lruNode p = some b := by
  unfold Known
  constructor
  · rintro ⟨b, hb⟩; exact ⟨b, (lruNode_iff_entries h p hne b).mpr hb⟩
  · rintro ⟨b, hb⟩; exact ⟨b, (lruNode_iff_entries h p hne b).mp hb⟩

theorem CacheN.mono {L : List LRU} {s s' : State} {t t' : T} {pages : List (Bytes × Nat)}
    (g : Good s t) (k : KStep L s t s' t') (hc : CacheN s pages) : CacheN s' pages := by
  intro l n hm hne
  have h1 := (known_iff_lruNode g.shape _ hne).mpr (hc l n hm hne)
  exact (known_iff_lruNode k.good.shape _ hne).mp ((k.known _).mpr (Or.inl h1))

theorem CacheN.known {s : State} {t : T} {pages : List (Bytes × Nat)} (g : Good s t) (hc : CacheN s pages)
    {l : Bytes} {n : Nat} (hm : (l, n) ∈ pages) (hne : lruIter l ≠ []) : Known s t (lruIter l) :=
  (known_iff_lruNode g.shape _ hne).mpr (hc l n hm hne)

/-- a piece of a request run from `(s, t)` to `s'` with accumulated report `rep` on entry: `Good` is kept
    whatever the outcome; when the piece succeeds with `a`, the report `proj a` extends `rep` by the
    entries `A`, all its keys are ids issued so far, the post-condition holds, and the stored set grew by
    exactly the prefix closure of `E` and of the prefixes announced in `A` -/
def Done {α : Type} (s : State) (t : T) (s' : State) (rep : Report) (E : List LRU)
    (res : Except Err α) (proj : α → Report) (post : α → Prop) : Prop :=
  ∃ t', (∃ L, KStep L s t s' t') ∧ s.hdrId ≤ s'.hdrId ∧
    ∀ a, res = .ok a → post a ∧ ∃ A : List (Option Nat × List Bytes),
      (proj a).we = rep.we ++ A ∧ (proj a).KeysLe s'.hdrId ∧
      KStep (E ++ (A.flatMap (·.2)).map lruIter) s t s' t'

theorem Done.good {α : Type} {s s' : State} {t : T} {rep : Report} {E : List LRU} {res : Except Err α}
    {proj : α → Report} {post : α → Prop} (h : Done s t s' rep E res proj post) :
    ∃ t' L, KStep L s t s' t' := by
  obtain ⟨t', ⟨L, k⟩, _⟩ := h
  exact ⟨t', L, k⟩

/-- an aborted piece -/
theorem Done.to_error {α β : Type} {s s' : State} {t : T} {rep rep' : Report} {E E' : List LRU}
    {res : Except Err α} {proj : α → Report} {post : α → Prop} (h : Done s t s' rep E res proj post)
    (e : Err) (proj' : β → Report) (post' : β → Prop) :
    Done s t s' rep' E' (.error e : Except Err β) proj' post' := by
  obtain ⟨t', hk, hle, _⟩ := h
  exact ⟨t', hk, hle, fun a ha => by cases ha⟩

/-- the piece that does nothing -/
theorem Done.ret {α : Type} {s : State} {t : T} (g : Good s t) {rep : Report} (a : α) (proj : α → Report)
    (post : α → Prop) (hp : proj a = rep) (hk : rep.KeysLe s.hdrId) (hpost : post a) :
    Done s t s rep [] (.ok a) proj post := by
  refine ⟨t, ⟨[], KStep.refl g⟩, Nat.le_refl _, fun a' ha => ?_⟩
  cases ha
  exact ⟨hpost, [], by rw [hp]; simp, by rw [hp]; exact hk, by simpa using KStep.refl g⟩

theorem mem_reassoc {α : Type} (E1 E2 X1 X2 : List α) (l : α) :
    l ∈ (E1 ++ X1) ++ (E2 ++ X2) ↔ l ∈ (E1 ++ E2) ++ (X1 ++ X2) := by
  simp only [List.mem_append]
  constructor
  · rintro ((h | h) | (h | h))
    · exact Or.inl (Or.inl h)
    · exact Or.inr (Or.inl h)
    · exact Or.inl (Or.inr h)
    · exact Or.inr (Or.inr h)
  · rintro ((h | h) | (h | h))
    · exact Or.inl (Or.inl h)
    · exact Or.inr (Or.inl h)
    · exact Or.inl (Or.inr h)
    · exact Or.inr (Or.inr h)

/-- sequencing: a successful piece followed by another one started with the accumulated report -/
theorem Done.bind {α β : Type} {s s1 s2 : State} {t : T} {rep : Report} {E1 E2 : List LRU}
    {res1 : Except Err α} {a1 : α} {proj1 : α → Report} {post1 : α → Prop}
    {res2 : Except Err β} {proj2 : β → Report} {post2 : β → Prop}
    (h1 : Done s t s1 rep E1 res1 proj1 post1) (e : res1 = .ok a1)
    (h2 : ∀ t1 L, KStep L s t s1 t1 → post1 a1 → (proj1 a1).KeysLe s1.hdrId →
      (∀ l ∈ E1, l ≠ [] → Known s1 t1 l) → Done s1 t1 s2 (proj1 a1) E2 res2 proj2 post2) :
    Done s t s2 rep (E1 ++ E2) res2 proj2 post2 := by
  obtain ⟨t1, _, hle1, ok1⟩ := h1
  obtain ⟨hp1, A1, we1, keys1, K1⟩ := ok1 a1 e
  have hE1 : ∀ l ∈ E1, l ≠ [] → Known s1 t1 l := fun l hl hne =>
    (K1.known l).mpr (Or.inr (covered_self (List.mem_append_left _ hl) hne))
  obtain ⟨t2, ⟨L2, K2⟩, hle2, ok2⟩ := h2 t1 _ K1 hp1 keys1 hE1
  refine ⟨t2, ⟨_, K1.trans K2⟩, Nat.le_trans hle1 hle2, fun a2 ha2 => ?_⟩
  obtain ⟨hp2, A2, we2, keys2, K2'⟩ := ok2 a2 ha2
  refine ⟨hp2, A1 ++ A2, by rw [we2, we1, List.append_assoc], keys2, ?_⟩
  refine (K1.trans K2').of_mem (fun l => ?_)
  rw [List.flatMap_append, List.map_append]
  exact mem_reassoc _ _ _ _ l

/-- followed by writes that change nothing structural and issue no id -/
theorem Done.then_nil {α : Type} {s s1 s2 : State} {t : T} {rep : Report} {E : List LRU}
    {res : Except Err α} {proj : α → Report} {post post' : α → Prop}
    (h : Done s t s1 rep E res proj post) (n : NoStruct s1 s2) (hid : s2.hdrId = s1.hdrId)
    (hpost : ∀ t1, Good s1 t1 → KStep [] s1 t1 s2 t1 → ∀ a, post a → post' a) :
    Done s t s2 rep E res proj post' := by
  obtain ⟨t1, ⟨L, K⟩, hle, ok⟩ := h
  have kn := KStep.of_noStruct K.good n
  refine ⟨t1, ⟨L, K.trans_nil kn⟩, by rw [hid]; exact hle, fun a ha => ?_⟩
  obtain ⟨hp, A, we, keys, K'⟩ := ok a ha
  exact ⟨hpost t1 K.good kn a hp, A, we, by rw [hid]; exact keys, K'.trans_nil kn⟩

/-- preceded by writes that change nothing structural and issue no id -/
theorem Done.nil_then {α : Type} {s s1 s2 : State} {t : T} {rep : Report} {E : List LRU}
    {res : Except Err α} {proj : α → Report} {post : α → Prop}
    (g : Good s t) (n : NoStruct s s1) (hid : s1.hdrId = s.hdrId)
    (h : Done s1 t s2 rep E res proj post) : Done s t s2 rep E res proj post := by
  have kn := KStep.of_noStruct g n
  obtain ⟨t2, ⟨L, K⟩, hle, ok⟩ := h
  refine ⟨t2, ⟨L, kn.nil_trans K⟩, by rw [← hid]; exact hle, fun a ha => ?_⟩
  obtain ⟨hp, A, we, keys, K'⟩ := ok a ha
  exact ⟨hp, A, we, keys, kn.nil_trans K'⟩

/-- the explicit list only matters up to LRUs stored on entry -/
theorem Done.congrE {α : Type} {s s' : State} {t : T} {rep : Report} {E E' : List LRU}
    {res : Except Err α} {proj : α → Report} {post : α → Prop}
    (h : Done s t s' rep E res proj post)
    (h1 : ∀ l ∈ E, l ∈ E' ∨ (l ≠ [] → Known s t l)) (h2 : ∀ l ∈ E', l ∈ E ∨ (l ≠ [] → Known s t l)) :
    Done s t s' rep E' res proj post := by
  obtain ⟨t', hk, hle, ok⟩ := h
  refine ⟨t', hk, hle, fun a ha => ?_⟩
  obtain ⟨hp, A, we, keys, K⟩ := ok a ha
  refine ⟨hp, A, we, keys, K.congr (fun p => ?_)⟩
  have key : ∀ (X Y : List LRU), (∀ l ∈ X, l ∈ Y ∨ (l ≠ [] → Known s t l)) →
      Covered (X ++ (A.flatMap (·.2)).map lruIter) p → Known s t p ∨ Covered (Y ++ (A.flatMap (·.2)).map lruIter) p := by
    intro X Y hXY hc
    rcases (covered_append _ _ _).mp hc with ⟨hp', l, hl, hpl⟩ | hc
    · rcases hXY l hl with hy | hk
      · exact Or.inr ((covered_append _ _ _).mpr (Or.inl ⟨hp', l, hy, hpl⟩))
      · have hne : l ≠ [] := by
          intro e; subst e; exact hp' (List.prefix_nil.mp hpl)
        exact Or.inl ((hk hne).of_prefix hp' hpl)
    · exact Or.inr ((covered_append _ _ _).mpr (Or.inr hc))
  constructor
  · rintro (hk | hc)
    · exact Or.inl hk
    · exact key E E' h1 hc
  · rintro (hk | hc)
    · exact Or.inl hk
    · exact key E' E h2 hc

/-- change of result type -/
theorem Done.map {α β : Type} {s s' : State} {t : T} {rep : Report} {E : List LRU}
    {res : Except Err α} {proj : α → Report} {post : α → Prop}
    {res' : Except Err β} {proj' : β → Report} {post' : β → Prop}
    (h : Done s t s' rep E res proj post)
    (hres : ∀ b, res' = .ok b → ∃ a, res = .ok a ∧ proj' b = proj a ∧
      (∀ t', Good s' t' → (∀ l ∈ E, l ≠ [] → Known s' t' l) → (∀ p, Known s t p → Known s' t' p) → post a → post' b)) :
    Done s t s' rep E res' proj' post' := by
  obtain ⟨t', hk, hle, ok⟩ := h
  refine ⟨t', hk, hle, fun b hb => ?_⟩
  obtain ⟨a, ha, hp, hpost⟩ := hres b hb
  obtain ⟨hpa, A, we, keys, K⟩ := ok a ha
  refine ⟨hpost t' K.good ?_ (fun p hp => (K.known p).mpr (Or.inl hp)) hpa, A, by rw [hp]; exact we,
    by rw [hp]; exact keys, K⟩
  exact fun l hl hne => (K.known l).mpr (Or.inr (covered_self (List.mem_append_left _ hl) hne))

/-- at the end of a request that started with the empty report -/
theorem Done.final {s s' : State} {t : T} {E : List LRU} {res : Except Err Report} {post : Report → Prop}
    (h : Done s t s' {} E res (fun r => r) post) :
    ∃ t', (∃ L, KStep L s t s' t') ∧ s.hdrId ≤ s'.hdrId ∧
      ∀ r, res = .ok r → KStep (E ++ r.attached.map lruIter) s t s' t' := by
  obtain ⟨t', hk, hle, ok⟩ := h
  refine ⟨t', hk, hle, fun r hr => ?_⟩
  obtain ⟨_, A, we, _, K⟩ := ok r hr
  have : r.we = A := by simpa using we
  unfold Report.attached
  rw [this]
  exact K

/-! ### `__add_page` as a piece -/

theorem done_addPageCore {s : State} {t : T} (g : Good s t) (lru : Bytes) (c : Bool) (rep : Report)
    (hrep : rep.KeysLe s.hdrId) :
    Done s t (s.addPageCore lru c).1 rep [lruIter lru] (s.addPageCore lru c).2.2
      (fun r => rep.add r) (fun _ => True) := by
  obtain ⟨t1, k1, hle, hwe⟩ := kstep_addPageCore g lru c
  refine ⟨t1, ⟨_, k1⟩, hle, fun r hr => ⟨trivial, r.we, ?_, ?_, ?_⟩⟩
  · rcases hwe r hr with h | ⟨ps, h, _⟩
    · rw [Report.add_we_nil _ _ h, h]; simp
    · rw [Report.add_we_single rep r s.hdrId _ ps hrep (by omega) h, h]
  · rcases hwe r hr with h | ⟨ps, h, hid⟩
    · rw [show (rep.add r).KeysLe _ ↔ ∀ kv ∈ (rep.add r).we, ∃ i, kv.1 = some i ∧ i ≤ _ from Iff.rfl,
        Report.add_we_nil _ _ h]
      exact hrep.mono hle
    · intro kv hkv
      rw [Report.add_we_single rep r s.hdrId _ ps hrep (by omega) h] at hkv
      rcases List.mem_append.mp hkv with hkv | hkv
      · exact hrep.mono hle kv hkv
      · simp only [List.mem_singleton] at hkv
        subst hkv
        exact ⟨_, rfl, by rw [hid]; exact Nat.le_refl _⟩
  · rw [hr] at k1
    exact k1

/-! ### `add_pages` -/

theorem done_addPagesGo (always : Bool) : ∀ (ls : List Bytes) (s : State) (t : T) (c : Bool) (rep : Report),
    Good s t → rep.KeysLe s.hdrId →
    Done s t (addPagesGo always s ls c rep).1 rep (ls.map lruIter) (addPagesGo always s ls c rep).2
      (fun r => r) (fun _ => True)
  | [], s, t, c, rep, g, hrep => by
    simp only [addPagesGo]
    exact Done.ret g rep _ _ rfl hrep trivial
  | l :: ls, s, t, c, rep, g, hrep => by
    have h1 := done_addPageCore g l c rep hrep
    rw [addPagesGo]
    split
    · rename_i s1 _ e heq
      rw [heq] at h1
      exact h1.to_error e _ _
    · rename_i s1 n r heq
      rw [heq] at h1
      simp only at h1
      have h1' := h1.then_nil
        (s2 := if always = true then s1.modCell n (fun c => { c with flags := { c.flags with crawled := true } }) else s1)
        (post' := fun _ => True)
        (by split
            · exact noStruct_markCrawled s1 n
            · exact NoStruct.refl s1)
        (by split
            · exact hdrId_modCell _ _ _
            · rfl)
        (fun _ _ _ _ _ => trivial)
      have := Done.bind h1' rfl (fun t1 L K _ keys _ =>
        done_addPagesGo always ls _ t1 c (rep.add r) K.good keys)
      exact this

/-! ### the page cache of `add_links` / `index_batch_crawl` -/

theorem done_ensurePageCached {s : State} {t : T} (g : Good s t) (acc : LinkAcc) (l : Bytes) (c : Bool)
    (hrep : acc.rep.KeysLe s.hdrId) (hc : CacheN s acc.pages) :
    Done s t (s.ensurePageCached acc l c).1 acc.rep [lruIter l] (s.ensurePageCached acc l c).2
      (fun a => a.rep)
      (fun a => CacheN (s.ensurePageCached acc l c).1 a.pages ∧ a.outl = acc.outl ∧ a.inl = acc.inl) := by
  unfold ensurePageCached
  split
  · rename_i n heq
    have h0 : Done s t s acc.rep [] (.ok acc : Except Err LinkAcc) (fun a => a.rep)
        (fun a => CacheN s a.pages ∧ a.outl = acc.outl ∧ a.inl = acc.inl) :=
      Done.ret g acc _ _ rfl hrep ⟨hc, rfl, rfl⟩
    refine h0.congrE (fun l' hl' => by simp at hl') (fun l' hl' => Or.inr (fun hne => ?_))
    rw [List.mem_singleton] at hl'
    subst hl'
    exact hc.known g (dictGet?_mem _ _ _ heq) hne
  · have h1 := done_addPageCore g l c acc.rep hrep
    split
    · rename_i s1 _ e heq2
      rw [heq2] at h1
      exact h1.to_error e _ _
    · rename_i s1 n r heq2
      rw [heq2] at h1
      simp only at h1
      refine h1.map (fun b hb => ?_)
      cases hb
      refine ⟨r, rfl, rfl, fun t' g' hE hmono _ => ⟨?_, rfl, rfl⟩⟩
      intro l' n' hm hne
      rcases List.mem_append.mp hm with hm | hm
      · exact (known_iff_lruNode g'.shape _ hne).mp (hmono _ (hc.known g hm hne))
      · simp only [List.mem_singleton, Prod.mk.injEq] at hm
        obtain ⟨rfl, rfl⟩ := hm
        exact (known_iff_lruNode g'.shape _ hne).mp (hE _ (List.mem_singleton.mpr rfl) hne)

/-! ### `add_links` -/

def linkEnds (links : List (Bytes × Bytes)) : List LRU :=
  links.flatMap (fun st => [lruIter st.1, lruIter st.2])

theorem done_addLinksScan : ∀ (links : List (Bytes × Bytes)) (s : State) (t : T) (acc : LinkAcc),
    Good s t → acc.rep.KeysLe s.hdrId → CacheN s acc.pages →
    Done s t (addLinksScan s links acc).1 acc.rep (linkEnds links) (addLinksScan s links acc).2
      (fun a => a.rep) (fun _ => True)
  | [], s, t, acc, g, hrep, hc => by
    simp only [addLinksScan]
    exact Done.ret g acc _ _ rfl hrep trivial
  | (src, tgt) :: rest, s, t, acc, g, hrep, hc => by
    have h1 := done_ensurePageCached g acc src false hrep hc
    rw [addLinksScan]
    split
    · rename_i s1 e heq
      rw [heq] at h1
      exact h1.to_error e _ _
    · rename_i s1 acc1 heq
      rw [heq] at h1
      simp only at h1
      have : linkEnds ((src, tgt) :: rest) = [lruIter src] ++ ([lruIter tgt] ++ linkEnds rest) := by
        simp [linkEnds]
      rw [this]
      refine Done.bind h1 rfl (fun t1 L K hp1 keys1 _ => ?_)
      have h2 := done_ensurePageCached K.good acc1 tgt false keys1 hp1.1
      split
      · rename_i s2 e heq2
        rw [heq2] at h2
        exact h2.to_error e _ _
      · rename_i s2 acc2 heq2
        rw [heq2] at h2
        simp only at h2
        exact Done.bind h2 rfl (fun t2 L2 K2 hp2 keys2 _ =>
          done_addLinksScan rest s2 t2
            { acc2 with outl := multiAdd acc2.outl src tgt, inl := multiAdd acc2.inl tgt src }
            K2.good keys2 hp2.1)

/-! ### `index_batch_crawl` -/

theorem done_batchTargets : ∀ (ts : List Bytes) (s : State) (t : T) (src : Bytes) (acc : LinkAcc) (tb : List Nat),
    Good s t → acc.rep.KeysLe s.hdrId → CacheN s acc.pages →
    Done s t (batchTargets s src ts acc tb).1 acc.rep (ts.map lruIter) (batchTargets s src ts acc tb).2
      (fun r => r.1.rep) (fun r => CacheN (batchTargets s src ts acc tb).1 r.1.pages)
  | [], s, t, src, acc, tb, g, hrep, hc => by
    simp only [batchTargets]
    exact Done.ret g (acc, tb) _ _ rfl hrep hc
  | x :: ts, s, t, src, acc, tb, g, hrep, hc => by
    have h1 := done_ensurePageCached g acc x false hrep hc
    rw [batchTargets]
    split
    · rename_i s1 e heq
      rw [heq] at h1
      exact h1.to_error e _ _
    · rename_i s1 acc1 heq
      rw [heq] at h1
      simp only at h1
      exact Done.bind h1 rfl (fun t1 L K hp1 keys1 _ =>
        done_batchTargets ts s1 t1 src { acc1 with inl := multiAdd acc1.inl x src }
          (tb ++ [(dictGet? acc1.pages x).getD 0]) K.good keys1 hp1.1)

theorem done_sourceStep {s : State} {t : T} (g : Good s t) (acc : LinkAcc) (src : Bytes)
    (hrep : acc.rep.KeysLe s.hdrId) (hc : CacheN s acc.pages) :
    Done s t (sourceStep s acc src).1 acc.rep [lruIter src] (sourceStep s acc src).2
      (fun a => a.rep) (fun a => CacheN (sourceStep s acc src).1 a.pages) := by
  unfold sourceStep
  split
  · have h1 := done_ensurePageCached g acc src true hrep hc
    exact h1.map (fun b hb => ⟨b, hb, rfl, fun _ _ _ _ hp => hp.1⟩)
  · rename_i n heq
    have h0 : Done s t s acc.rep [] (.ok acc : Except Err LinkAcc) (fun a => a.rep) (fun a => CacheN s a.pages) :=
      Done.ret g acc _ _ rfl hrep hc
    have h0' : Done s t s acc.rep [lruIter src] (.ok acc : Except Err LinkAcc) (fun a => a.rep)
        (fun a => CacheN s a.pages) := by
      refine h0.congrE (fun l' hl' => by simp at hl') (fun l' hl' => Or.inr (fun hne => ?_))
      rw [List.mem_singleton] at hl'
      subst hl'
      exact hc.known g (dictGet?_mem _ _ _ heq) hne
    split
    · exact h0'.then_nil (noStruct_markCrawled s n) (hdrId_modCell _ _ _)
        (fun t1 g1 k1 a hp => CacheN.mono g1 k1 hp)
    · exact h0'

def batchEnds (data : List (Bytes × List Bytes)) : List LRU :=
  data.flatMap (fun d => lruIter d.1 :: d.2.map lruIter)

theorem done_batchSources : ∀ (data : List (Bytes × List Bytes)) (s : State) (t : T) (acc : LinkAcc),
    Good s t → acc.rep.KeysLe s.hdrId → CacheN s acc.pages →
    Done s t (batchSources s data acc).1 acc.rep (batchEnds data) (batchSources s data acc).2
      (fun a => a.rep) (fun _ => True)
  | [], s, t, acc, g, hrep, hc => by
    simp only [batchSources]
    exact Done.ret g acc _ _ rfl hrep trivial
  | (src, tgts) :: rest, s, t, acc, g, hrep, hc => by
    have h1 := done_sourceStep g acc src hrep hc
    rw [batchSources_cons_ps]
    split
    · rename_i s1 e heq
      rw [heq] at h1
      exact h1.to_error e _ _
    · rename_i s1 acc1 heq
      rw [heq] at h1
      simp only at h1
      have : batchEnds ((src, tgts) :: rest) = [lruIter src] ++ (tgts.map lruIter ++ batchEnds rest) := by
        simp [batchEnds]
      rw [this]
      refine Done.bind h1 rfl (fun t1 L K hp1 keys1 _ => ?_)
      have h2 := done_batchTargets tgts s1 t1 src acc1 [] K.good keys1 hp1
      split
      · rename_i s2 e heq2
        rw [heq2] at h2
        exact h2.to_error e _ _
      · rename_i s2 acc2 tb heq2
        rw [heq2] at h2
        simp only at h2
        have h2' := h2.then_nil (s2 := s2.addStubs ((dictGet? acc2.pages src).getD 0) tb true)
          (post' := fun r => CacheN (s2.addStubs ((dictGet? acc2.pages src).getD 0) tb true) r.1.pages)
          (noStruct_addStubs _ _ _ _) (hdrId_addStubs _ _ _ _)
          (fun t2 g2 k2 a hp => CacheN.mono g2 k2 hp)
        exact Done.bind h2' rfl (fun t3 L3 K3 hp3 keys3 _ =>
          done_batchSources rest _ t3 acc2 K3.good keys3 hp3)

/-! ### creation rules: the re-insertion walk -/

theorem done_ruleVisit {s : State} {t : T} (g : Good s t) (b : Nat) (lru : Bytes) (rep : Report)
    (hrep : rep.KeysLe s.hdrId) (hs : ∃ p, (p, b) ∈ t.entries s [] ∧ lru = p.dropLast.flatten) :
    Done s t (ruleVisit s b lru rep).1 rep [] (ruleVisit s b lru rep).2 (fun r => r) (fun _ => True) := by
  unfold ruleVisit
  split
  · obtain ⟨p, hm, rfl⟩ := hs
    obtain ⟨q, e, _⟩ := entries_last_and_ptrs t [] p b g.shape.rep hm
    have hcur : p.dropLast.flatten ++ s.stemAt b = p.flatten := by
      rw [e, List.dropLast_concat]; simp
    have e2 : lruIter (p.dropLast.flatten ++ s.stemAt b) = p := by
      rw [hcur]; exact lruIter_flatten p (g.wf p b hm)
    have h1 := done_addPageCore g (p.dropLast.flatten ++ s.stemAt b) false rep hrep
    rw [e2] at h1
    have h1' := h1.congrE (E' := []) (fun l hl => Or.inr (fun _ => by
      rw [List.mem_singleton] at hl; subst hl; exact ⟨b, hm⟩)) (fun l hl => by simp at hl)
    split
    · rename_i s1 _ e' heq
      rw [heq] at h1'
      exact h1'.to_error e' _ _
    · rename_i s1 _ r1 heq
      rw [heq] at h1'
      simp only at h1'
      refine h1'.map (fun b' hb' => ?_)
      cases hb'
      exact ⟨r1, rfl, rfl, fun _ _ _ _ _ => trivial⟩
  · exact Done.ret g rep _ _ rfl hrep trivial

theorem done_addRuleLoop (start : Nat) : ∀ (fuel : Nat) (s : State) (t : T) (stack : List (Nat × Bytes))
    (rep : Report), Good s t → rep.KeysLe s.hdrId → StackOk s t stack →
    Done s t (addRuleLoop start fuel s stack rep).1 rep [] (addRuleLoop start fuel s stack rep).2
      (fun r => r) (fun _ => True)
  | 0, s, t, stack, rep, g, hrep, _ => by
    simp only [addRuleLoop]
    exact Done.ret g rep _ _ rfl hrep trivial
  | fuel + 1, s, t, [], rep, g, hrep, _ => by
    simp only [addRuleLoop]
    exact Done.ret g rep _ _ rfl hrep trivial
  | fuel + 1, s, t, (b, lru) :: stack, rep, g, hrep, hs => by
    have h1 := done_ruleVisit g b lru rep hrep (hs b lru (by simp))
    rw [addRuleLoop_succ_cons]
    split
    · rename_i s1 e heq
      rw [heq] at h1
      exact h1.to_error e _ _
    · rename_i s1 rep1 heq
      rw [heq] at h1
      simp only at h1
      have := Done.bind h1 rfl (fun t1 L K _ keys1 _ =>
        done_addRuleLoop start fuel s1 t1 (ruleNext start b (s.cell b) lru (lru ++ s.stemAt b) stack) rep1
          K.good keys1 ((stackOk_next g.shape hs).mono K.ext))
      exact this

/-- a plain step followed by a piece -/
theorem Done.after {α : Type} {s s1 s2 : State} {t t1 : T} {L : List LRU} {rep : Report} {E : List LRU}
    {res : Except Err α} {proj : α → Report} {post : α → Prop}
    (k : KStep L s t s1 t1) (hid : s1.hdrId = s.hdrId) (h : Done s1 t1 s2 rep E res proj post) :
    Done s t s2 rep (L ++ E) res proj post := by
  obtain ⟨t2, ⟨L2, K⟩, hle, ok⟩ := h
  refine ⟨t2, ⟨_, k.trans K⟩, by rw [← hid]; exact hle, fun a ha => ?_⟩
  obtain ⟨hp, A, we, keys, K'⟩ := ok a ha
  refine ⟨hp, A, we, keys, ?_⟩
  have := k.trans K'
  rwa [← List.append_assoc] at this

theorem addRuleLoop_outside (start fuel : Nat) (s : State) (b : Nat) (lru : Bytes) (rep : Report)
    (hb : s.trie.size ≤ b) : addRuleLoop start (fuel + 1) s [(b, lru)] rep = (s, .ok rep) := by
  rw [addRuleLoop_succ_cons]
  have hc : s.cell b = {} := cell_of_size_le s b hb
  have hv : ruleVisit s b lru rep = (s, .ok rep) := by
    unfold ruleVisit
    rw [hc]
    rfl
  rw [hv, hc]
  have hn : ruleNext start b ({} : Cell) lru (lru ++ s.stemAt b) [] = [] := by
    unfold ruleNext
    by_cases h : b = start <;> simp [h]
  simp only [hn]
  cases fuel <;> simp [addRuleLoop]

theorem addRuleLoop_err (start : Nat) : ∀ (fuel : Nat) (s : State) (stack : List (Nat × Bytes)) (rep : Report)
    (e : Err), (addRuleLoop start fuel s stack rep).2 = .error e → e = .other "KeyError"
  | 0, s, stack, rep, e, h => by simp [addRuleLoop] at h
  | fuel + 1, s, [], rep, e, h => by simp [addRuleLoop] at h
  | fuel + 1, s, (b, lru) :: stack, rep, e, h => by
    rw [addRuleLoop_succ_cons] at h
    split at h
    · rename_i s1 e' heq
      have hv : (ruleVisit s b lru rep).2 = .error e' := by rw [heq]
      cases h
      unfold ruleVisit at hv
      split at hv
      · split at hv
        · rename_i s1' _ e'' heq'
          have := addPageCore_err s _ false e'' (by rw [heq'])
          cases hv; exact this
        · cases hv
      · cases hv
    · exact addRuleLoop_err start fuel _ _ _ e h

/-- `add_webentity_creation_rule(prefix, pattern, write_in_trie=True)`: the anchor is inserted; the pages
    below it are re-submitted (nothing new), and the webentities this creates are announced in the report -/
theorem done_addRule {s : State} {t : T} (g : Good s t) (anchor : Bytes) (r : Rule) :
    Done s t (s.addRule anchor r true).1 {} [lruIter anchor] (s.addRule anchor r true).2
      (fun r => r) (fun _ => True) := by
  have k0 : KStep [] s t { s with rules := dictSet s.rules anchor r } t := KStep.of_trie_eq g rfl
  obtain ⟨t1, k1, hent⟩ := kstep_addLru k0.good (lruIter anchor) false (lruIter_wf anchor)
  have hh := hdrId_addLru { s with rules := dictSet s.rules anchor r } (lruIter anchor) false
  have hnil := addLru_nil { s with rules := dictSet s.rules anchor r } false
  rcases ha : State.addLru { s with rules := dictSet s.rules anchor r } (lruIter anchor) false with ⟨s1, n, hhist⟩
  rw [ha] at k1 hent hh
  simp only at k1 hent hh
  simp only [addRule, ha, Bool.not_true, Bool.false_eq_true, if_false]
  have k2 := KStep.of_noStruct k1.good (noStruct_setRule s1 n true)
  have k012 : KStep [lruIter anchor] s t (s1.modCell n (fun c => { c with flags := { c.flags with rule := true } })) t1 :=
    k0.nil_trans (k1.trans_nil k2)
  have hid : (s1.modCell n (fun c => { c with flags := { c.flags with rule := true } })).hdrId = s.hdrId := by
    rw [hdrId_modCell, hh]
  have fin : ∀ {s3 : State} {res : Except Err Report},
      Done (s1.modCell n (fun c => { c with flags := { c.flags with rule := true } })) t1 s3 {} [] res
        (fun r => r) (fun _ => True) →
      Done s t s3 {} [lruIter anchor] res (fun r => r) (fun _ => True) := by
    intro s3 res h
    have := Done.after k012 hid h
    simpa using this
  apply fin
  by_cases hne : lruIter anchor = []
  · by_cases hsz : s.trie.size ≤ 1
    · -- empty trie, anchor without any stem: the walk starts outside the store
      rw [hne, hnil] at ha
      cases ha
      obtain ⟨k, hk⟩ : ∃ k, 8 * ((State.modCell { s with rules := dictSet s.rules anchor r } 1
            (fun c => { c with flags := { c.flags with rule := true } })).trie.size + 2) *
          ((State.modCell { s with rules := dictSet s.rules anchor r } 1
            (fun c => { c with flags := { c.flags with rule := true } })).trie.size + 2) = k + 1 := by
        refine ⟨8 * ((State.modCell { s with rules := dictSet s.rules anchor r } 1
            (fun c => { c with flags := { c.flags with rule := true } })).trie.size + 2) *
          ((State.modCell { s with rules := dictSet s.rules anchor r } 1
            (fun c => { c with flags := { c.flags with rule := true } })).trie.size + 2) - 1, ?_⟩
        have : 0 < 8 * ((State.modCell { s with rules := dictSet s.rules anchor r } 1
            (fun c => { c with flags := { c.flags with rule := true } })).trie.size + 2) *
          ((State.modCell { s with rules := dictSet s.rules anchor r } 1
            (fun c => { c with flags := { c.flags with rule := true } })).trie.size + 2) :=
          Nat.mul_pos (Nat.mul_pos (by omega) (by omega)) (by omega)
        omega
      rw [hk, addRuleLoop_outside _ _ _ _ _ _ (by rw [trie_modCell_size]; exact hsz)]
      exact Done.ret k2.good _ _ _ rfl (keysLe_empty _) trivial
    · refine done_addRuleLoop n _ _ t1 _ {} k2.good (keysLe_empty _) ?_
      rw [hne, hnil] at ha
      cases ha
      intro b lru hm
      simp only [List.mem_singleton, Prod.mk.injEq] at hm
      obtain ⟨rfl, rfl⟩ := hm
      have hroot := g.shape.root
      rw [if_neg hsz] at hroot
      have hre := root_entry (s := s) t [] (by rw [hroot]; omega)
      rw [hroot] at hre
      refine ⟨_, k2.keep _ _ (k1.keep _ _ (k0.keep _ _ hre)), ?_⟩
      simp [lruDirname, hne, flatten]
  · refine done_addRuleLoop n _ _ t1 _ {} k2.good (keysLe_empty _) ?_
    intro b lru hm
    simp only [List.mem_singleton, Prod.mk.injEq] at hm
    obtain ⟨rfl, rfl⟩ := hm
    exact ⟨lruIter anchor, k2.keep _ _ (hent hne), rfl⟩

/-! ### webentity edits -/

/-- `add_prefix_to_webentity`: the prefix is inserted, whatever the answer -/
theorem kstep_addPrefix {s : State} {t : T} (g : Good s t) (pfx : Bytes) (weid : Nat) :
    ∃ t', KStep [lruIter pfx] s t (s.addPrefix pfx weid).1 t' := by
  obtain ⟨t1, k1, _⟩ := kstep_addLru g (lruIter pfx) true (lruIter_wf pfx)
  rcases ha : s.addLru (lruIter pfx) true with ⟨s1, n, hh⟩
  rw [ha] at k1
  simp only [addPrefix, ha]
  split
  · exact ⟨t1, k1⟩
  · exact ⟨t1, k1.trans_nil (KStep.of_noStruct k1.good (noStruct_setWe s1 n weid))⟩

/-- `remove_prefix_from_webentity`: the prefix is *inserted* (the code looks it up with `add_lru`),
    whatever the answer -/
theorem kstep_removePrefix {s : State} {t : T} (g : Good s t) (pfx : Bytes) (weid : Option Nat) :
    ∃ t', KStep [lruIter pfx] s t (s.removePrefix pfx weid).1 t' := by
  obtain ⟨t1, k1, _⟩ := kstep_addLru g (lruIter pfx) false (lruIter_wf pfx)
  rcases ha : s.addLru (lruIter pfx) false with ⟨s1, n, hh⟩
  rw [ha] at k1
  simp only at k1
  simp only [removePrefix, ha]
  repeat' split
  all_goals first
    | exact ⟨t1, k1⟩
    | exact ⟨t1, k1.trans_nil (KStep.of_noStruct k1.good (noStruct_setWe s1 n 0))⟩

theorem kstep_movePrefix {s : State} {t : T} (g : Good s t) (pfx : Bytes) (target : Nat) (source : Option Nat) :
    ∃ t', KStep [lruIter pfx] s t (s.movePrefix pfx target source).1 t' := by
  obtain ⟨t1, k1⟩ := kstep_removePrefix g pfx source
  unfold movePrefix
  split
  · rename_i heq; rw [heq] at k1; exact ⟨t1, k1⟩
  · rename_i s1 _ heq
    rw [heq] at k1
    obtain ⟨t2, k2⟩ := kstep_addPrefix k1.good pfx target
    exact ⟨t2, (k1.trans k2).of_mem (fun l => by simp)⟩

theorem kstep_deleteWebentity {s : State} {t : T} (g : Good s t) (weid : Nat) (prefixes : List Bytes) :
    KStep [] s t (s.deleteWebentity weid prefixes).1 t := by
  unfold deleteWebentity
  split
  · exact KStep.refl g
  · exact KStep.of_noStruct g (noStruct_foldl_modCell (fun pn : Bytes × Nat => pn.2)
      (fun _ c => { c with we := 0 }) (fun _ _ => ⟨rfl, rfl, rfl, rfl, rfl⟩) _ s)

theorem kstep_removeRule {s : State} {t : T} (g : Good s t) (anchor : Bytes) :
    KStep [] s t (s.removeRule anchor).1 t := by
  unfold removeRule
  split
  · exact KStep.refl g
  · simp only
    have k0 : KStep [] s t { s with rules := s.rules.filter (fun p => p.1 ≠ anchor) } t := KStep.of_trie_eq g rfl
    split
    · exact k0
    · exact k0.trans_nil (KStep.of_noStruct k0.good (noStruct_setRule _ _ false))

theorem kstep_reopen {s : State} {t : T} (g : Good s t) (dflt : Rule) (rules : List (Bytes × Rule)) :
    KStep [] s t (s.reopen dflt rules) t := KStep.of_trie_eq g rfl

/-- `create_webentity(prefixes)`: all the prefixes are inserted, whatever the answer; the reported ones
    are among them -/
theorem kstep_createWebentity {s : State} {t : T} (g : Good s t) (ps : List Bytes) :
    ∃ t', KStep (ps.map lruIter) s t (s.createWebentity ps).1 t' ∧
      ∀ r, (s.createWebentity ps).2 = .ok r → ∀ x ∈ r.attached, x ∈ ps := by
  obtain ⟨t1, k1, _, _, hres⟩ := kstep_addPrefixes g ps false
  unfold createWebentity
  split
  · rename_i heq; rw [heq] at k1; exact ⟨t1, k1, fun r hr => by cases hr⟩
  · rename_i s1 id l heq
    rw [heq] at k1 hres
    refine ⟨t1, k1, fun r hr => ?_⟩
    cases hr
    intro x hx
    simp only [Report.attached, List.flatMap_cons, List.flatMap_nil, List.append_nil] at hx
    exact (hres id l rfl).1 x hx

/-! ### requests -/

/-- the byte strings a write request names: pages, both ends of links, sources and targets of a batch,
    webentity prefixes (also of a *removal*, which looks the prefix up by inserting it), rule anchors;
    `delete` and `removeRule` only look up -/
def Op.lrus : Op → List Bytes
  | .addPage l _ => [l]
  | .addPages ls _ => ls
  | .addLinks links => links.flatMap (fun st => [st.1, st.2])
  | .batch data => data.flatMap (fun d => d.1 :: d.2)
  | .create ps => ps
  | .delete _ _ => []
  | .addPrefix p _ => [p]
  | .removePrefix p _ => [p]
  | .movePrefix p _ _ => [p]
  | .addRule a _ => [a]
  | .removeRule _ => []
  | .reopen _ _ => []
  | .clear _ _ => []

/-- the prefixes an answer announces as attached to created webentities -/
def Ans.attached : Ans → List Bytes
  | .report r => r.attached
  | _ => []

/-- all the LRUs named by the request `op` submitted in state `s`: those of its arguments, and the
    prefixes (scheme / www variations chosen by the creation rules) that the answer announces -/
def State.named (s : State) (op : Op) : List LRU := (op.lrus ++ (s.step op).2.attached).map lruIter

theorem linkEnds_eq (links : List (Bytes × Bytes)) :
    linkEnds links = (links.flatMap (fun st => [st.1, st.2])).map lruIter := by
  induction links with
  | nil => rfl
  | cons a rest ih => simp [linkEnds] at ih ⊢; exact ih

theorem batchEnds_eq (data : List (Bytes × List Bytes)) :
    batchEnds data = (data.flatMap (fun d => d.1 :: d.2)).map lruIter := by
  induction data with
  | nil => rfl
  | cons a rest ih => simp [batchEnds] at ih ⊢; exact ih

theorem done_addLinks {s : State} {t : T} (g : Good s t) (links : List (Bytes × Bytes)) :
    Done s t (s.addLinks links).1 {} (linkEnds links) (s.addLinks links).2 (fun r => r) (fun _ => True) := by
  have h1 := done_addLinksScan links s t {} g (keysLe_empty _) (fun _ _ hm => by simp at hm)
  unfold addLinks
  split
  · rename_i s1 e heq
    rw [heq] at h1
    exact h1.to_error e _ _
  · rename_i s1 acc heq
    rw [heq] at h1
    simp only at h1 ⊢
    have h2 : Done s t s1 {} (linkEnds links) (.ok acc.rep : Except Err Report) (fun r => r) (fun _ => True) :=
      h1.map (fun b hb => by cases hb; exact ⟨acc, rfl, rfl, fun _ _ _ _ _ => trivial⟩)
    have h3 := h2.then_nil (post' := fun _ => True) (noStruct_flushLists true acc.pages acc.outl s1)
      (hdrId_flushLists _ _ _ _) (fun _ _ _ _ _ => trivial)
    exact h3.then_nil (post' := fun _ => True) (noStruct_flushLists false acc.pages acc.inl _)
      (hdrId_flushLists _ _ _ _) (fun _ _ _ _ _ => trivial)

theorem done_batch {s : State} {t : T} (g : Good s t) (data : List (Bytes × List Bytes)) :
    Done s t (s.batch data).1 {} (batchEnds data) (s.batch data).2 (fun r => r) (fun _ => True) := by
  have h1 := done_batchSources data s t {} g (keysLe_empty _) (fun _ _ hm => by simp at hm)
  unfold batch
  split
  · rename_i s1 e heq
    rw [heq] at h1
    exact h1.to_error e _ _
  · rename_i s1 acc heq
    rw [heq] at h1
    simp only at h1 ⊢
    have h2 : Done s t s1 {} (batchEnds data) (.ok acc.rep : Except Err Report) (fun r => r) (fun _ => True) :=
      h1.map (fun b hb => by cases hb; exact ⟨acc, rfl, rfl, fun _ _ _ _ _ => trivial⟩)
    exact h2.then_nil (post' := fun _ => True) (noStruct_flushLists false acc.pages acc.inl s1)
      (hdrId_flushLists _ _ _ _) (fun _ _ _ _ _ => trivial)

theorem ofExcept_report_ok {x : Except Err Report} (herr : ∀ e, x = .error e → e = .other "KeyError")
    (h : Ans.ofExcept .report x ≠ .err (.other "KeyError")) :
    ∃ r, x = .ok r ∧ Ans.ofExcept .report x = .report r := by
  cases x with
  | error e => rw [herr e rfl] at h; exact absurd rfl h
  | ok a => exact ⟨a, rfl, rfl⟩

/-- MAIN (one request): `Good` is kept by every write request (except `clear`, which starts a new index);
    unless the request is aborted by the `KeyError` of `__add_page`, the LRUs stored afterwards are those
    stored before plus the non-empty stem-prefixes of the LRUs named by the request -/
theorem named_step {s : State} {t : T} (g : Good s t) (op : Op) (hop : ∀ d rs, op ≠ .clear d rs) :
    ∃ t', (∃ L, KStep L s t (s.step op).1 t') ∧
      ((s.step op).2 ≠ .err (.other "KeyError") → KStep (s.named op) s t (s.step op).1 t') := by
  cases op with
  | addPage l c =>
    obtain ⟨t1, k1, _, _⟩ := kstep_addPageCore g l c
    refine ⟨t1, ⟨_, k1⟩, fun hne => ?_⟩
    obtain ⟨r, hr, ha⟩ := ofExcept_report_ok (addPageCore_err s l c) hne
    have hr' : (s.addPageCore l c).2.2 = .ok r := hr
    rw [hr'] at k1
    unfold State.named
    rw [show (s.step (.addPage l c)).2 = Ans.ofExcept .report (s.addPageCore l c).2.2 from rfl, hr']
    show KStep _ s t (s.addPageCore l c).1 t1
    simpa [Op.lrus, Ans.attached, Ans.ofExcept, attachedOf] using k1
  | addPages ls c =>
    obtain ⟨t1, hk, _, ok⟩ := (done_addPagesGo s.cfg.addPagesAlwaysCrawled ls s t c {} g (keysLe_empty _)).final
    refine ⟨t1, hk, fun hne => ?_⟩
    obtain ⟨r, hr, ha⟩ := ofExcept_report_ok (addPagesGo_err _ ls s c {}) hne
    have k := ok r hr
    unfold State.named
    rw [show (s.step (.addPages ls c)).2 = Ans.ofExcept .report (s.addPages ls c).2 from rfl]
    rw [show (s.addPages ls c).2 = (addPagesGo s.cfg.addPagesAlwaysCrawled s ls c {}).2 from rfl, ha]
    show KStep _ s t (addPagesGo s.cfg.addPagesAlwaysCrawled s ls c {}).1 t1
    simpa [Op.lrus, Ans.attached] using k
  | addLinks links =>
    obtain ⟨t1, hk, _, ok⟩ := (done_addLinks g links).final
    refine ⟨t1, hk, fun hne => ?_⟩
    obtain ⟨r, hr, ha⟩ := ofExcept_report_ok (addLinks_err s links) hne
    have k := ok r hr
    unfold State.named
    rw [show (s.step (.addLinks links)).2 = Ans.ofExcept .report (s.addLinks links).2 from rfl, ha]
    rw [linkEnds_eq] at k
    show KStep _ s t (s.addLinks links).1 t1
    simpa [Op.lrus, Ans.attached] using k
  | batch data =>
    obtain ⟨t1, hk, _, ok⟩ := (done_batch g data).final
    refine ⟨t1, hk, fun hne => ?_⟩
    obtain ⟨r, hr, ha⟩ := ofExcept_report_ok (batch_err s data) hne
    have k := ok r hr
    unfold State.named
    rw [show (s.step (.batch data)).2 = Ans.ofExcept .report (s.batch data).2 from rfl, ha]
    rw [batchEnds_eq] at k
    show KStep _ s t (s.batch data).1 t1
    simpa [Op.lrus, Ans.attached] using k
  | create ps =>
    obtain ⟨t1, k1, hsub⟩ := kstep_createWebentity g ps
    refine ⟨t1, ⟨_, k1⟩, fun _ => ?_⟩
    unfold State.named
    rw [show (s.step (.create ps)).2 = Ans.ofExcept .report (s.createWebentity ps).2 from rfl]
    show KStep _ s t (s.createWebentity ps).1 t1
    cases hr : (s.createWebentity ps).2 with
    | error e => simpa [Op.lrus, Ans.attached, Ans.ofExcept] using k1
    | ok r =>
      refine k1.of_mem (fun l => ?_)
      simp only [Op.lrus, Ans.attached, Ans.ofExcept, List.map_append, List.mem_append, List.mem_map]
      constructor
      · exact Or.inl
      · rintro (h | ⟨x, hx, rfl⟩)
        · exact h
        · exact ⟨x, hsub r hr x hx, rfl⟩
  | delete w ps =>
    refine ⟨t, ⟨_, kstep_deleteWebentity g w ps⟩, fun _ => ?_⟩
    have : s.named (.delete w ps) = [] := by
      unfold State.named
      rw [show (s.step (.delete w ps)).2 = Ans.ofExcept (fun _ => .unit) (s.deleteWebentity w ps).2 from rfl]
      cases (s.deleteWebentity w ps).2 <;> rfl
    rw [this]
    exact kstep_deleteWebentity g w ps
  | addPrefix p w =>
    obtain ⟨t1, k1⟩ := kstep_addPrefix g p w
    refine ⟨t1, ⟨_, k1⟩, fun _ => ?_⟩
    have : s.named (.addPrefix p w) = [lruIter p] := by
      unfold State.named
      rw [show (s.step (.addPrefix p w)).2 = Ans.ofExcept (fun _ => .unit) (s.addPrefix p w).2 from rfl]
      cases (s.addPrefix p w).2 <;> rfl
    rw [this]
    exact k1
  | removePrefix p w =>
    obtain ⟨t1, k1⟩ := kstep_removePrefix g p w
    refine ⟨t1, ⟨_, k1⟩, fun _ => ?_⟩
    have : s.named (.removePrefix p w) = [lruIter p] := by
      unfold State.named
      rw [show (s.step (.removePrefix p w)).2 = Ans.ofExcept (fun _ => .unit) (s.removePrefix p w).2 from rfl]
      cases (s.removePrefix p w).2 <;> rfl
    rw [this]
    exact k1
  | movePrefix p tg f =>
    obtain ⟨t1, k1⟩ := kstep_movePrefix g p tg f
    refine ⟨t1, ⟨_, k1⟩, fun _ => ?_⟩
    have : s.named (.movePrefix p tg f) = [lruIter p] := by
      unfold State.named
      rw [show (s.step (.movePrefix p tg f)).2 = Ans.ofExcept (fun _ => .unit) (s.movePrefix p tg f).2 from rfl]
      cases (s.movePrefix p tg f).2 <;> rfl
    rw [this]
    exact k1
  | addRule a r =>
    obtain ⟨t1, hk, _, ok⟩ := (done_addRule g a r).final
    refine ⟨t1, hk, fun hne => ?_⟩
    have herr : ∀ e, (s.addRule a r true).2 = .error e → e = .other "KeyError" := by
      intro e he
      simp only [addRule, Bool.not_true, Bool.false_eq_true, if_false] at he
      exact addRuleLoop_err _ _ _ _ _ e he
    obtain ⟨rp, hr, ha⟩ := ofExcept_report_ok herr hne
    have k := ok rp hr
    unfold State.named
    rw [show (s.step (.addRule a r)).2 = Ans.ofExcept .report (s.addRule a r true).2 from rfl, ha]
    show KStep _ s t (s.addRule a r true).1 t1
    simpa [Op.lrus, Ans.attached] using k
  | removeRule a =>
    refine ⟨t, ⟨_, kstep_removeRule g a⟩, fun _ => ?_⟩
    have : s.named (.removeRule a) = [] := by
      unfold State.named
      rw [show (s.step (.removeRule a)).2 = Ans.ofExcept (fun _ => .unit) (s.removeRule a).2 from rfl]
      cases (s.removeRule a).2 <;> rfl
    rw [this]
    exact kstep_removeRule g a
  | reopen d rs =>
    exact ⟨t, ⟨_, kstep_reopen g d rs⟩, fun _ => kstep_reopen g d rs⟩
  | clear d rs => exact absurd rfl (hop d rs)

/-- every write request keeps `Good` and every stored entry -/
theorem good_step {s : State} {t : T} (g : Good s t) (op : Op) (hop : ∀ d rs, op ≠ .clear d rs) :
    ∃ t', Good (s.step op).1 t' ∧ s.trie.size ≤ (s.step op).1.trie.size ∧
      ∀ p b, (p, b) ∈ t.entries s [] → (p, b) ∈ t'.entries (s.step op).1 [] := by
  obtain ⟨t', ⟨L, k⟩, _⟩ := named_step g op hop
  exact ⟨t', k.good, k.size, k.keep⟩

#print axioms named_step

end Traph

import Proofs.WeResolve
import Proofs.Ids
/-! Preparations for the automatic creation inside `__add_page`:
    * the trie layer never touches the RAM part (`rules`, `dflt`);
    * the walk history returned by `add_lru` / `add_page` is the one `follow_lru` computes on the state
      BEFORE the insertion (`addLru_hist`, `addPageTrie_hist`): fresh nodes are clean, so they add nothing;
    * whatever the rule matcher returns, if it is not empty it cuts into at least one stem, and so does
      every scheme / www variation of it (`search_sep`, `lruVariations_sep`, `lruIter_ne_nil_of_sep`). -/
namespace Traph
open State Layout

/-! ### RAM frame of the trie layer -/

/-- the RAM part (rule dict, default rule) is the same -/
def RamEq (s s' : State) : Prop := s'.rules = s.rules ∧ s'.dflt = s.dflt

theorem RamEq.refl (s : State) : RamEq s s := ⟨rfl, rfl⟩
theorem RamEq.trans {a b c : State} (h1 : RamEq a b) (h2 : RamEq b c) : RamEq a c :=
  ⟨h2.1.trans h1.1, h2.2.trans h1.2⟩

theorem ramEq_modCell (s : State) (i : Nat) (f : Cell → Cell) : RamEq s (s.modCell i f) :=
  ⟨rules_modCell s i f, dflt_modCell s i f⟩

theorem ramEq_writeNew (s : State) (stem : Bytes) (p : Nat) (c : Bool) : RamEq s (s.writeNew stem p c).1 :=
  ⟨(writeNew_rest s stem p c).2.2.1, (writeNew_rest s stem p c).2.2.2.1⟩

theorem ramEq_ensureStem (s : State) (start : Nat) (ex : Bool) (stem : Stem) :
    RamEq s (s.ensureStem start ex stem).1 := by
  unfold ensureStem
  split
  · exact ramEq_writeNew _ _ _ _
  · split
    · exact RamEq.refl s
    · exact RamEq.refl s
    · exact (ramEq_writeNew s stem _ false).trans (ramEq_modCell _ _ _)

theorem ramEq_markCanHave (s : State) (n : Nat) (b : Bool) : RamEq s (s.markCanHave n b) := by
  unfold markCanHave; split
  · exact ramEq_modCell _ _ _
  · exact RamEq.refl s

theorem ramEq_addLruDescend (flag : Bool) : ∀ (stems : List Stem) (s : State) (node : Nat) (ex : Bool)
    (pos : Nat) (h : Hist), RamEq s (addLruDescend flag s stems node ex pos h).1 := by
  intro stems
  induction stems with
  | nil => intro s node ex pos h; exact RamEq.refl s
  | cons stem rest ih =>
    intro s node ex pos h
    rcases he : s.ensureStem node ex stem with ⟨s1, n⟩
    have h1 : RamEq s s1 := by have := ramEq_ensureStem s node ex stem; rw [he] at this; exact this
    simp only [addLruDescend, he]
    split
    · exact h1.trans ((ramEq_markCanHave _ _ _).trans (ih _ _ _ _ _))
    · exact h1.trans (ramEq_markCanHave _ _ _)

theorem ramEq_addLruCreate (flag : Bool) : ∀ (stems : List Stem) (s : State) (node : Nat),
    RamEq s (addLruCreate flag s stems node).1 := by
  intro stems
  induction stems with
  | nil => intro s node; exact RamEq.refl s
  | cons stem rest ih =>
    intro s node
    rw [addLruCreate_cons]
    exact (ramEq_writeNew s stem node _).trans ((ramEq_modCell _ _ _).trans (ih _ _))

theorem ramEq_addLru (s : State) (stems : LRU) (flag : Bool) : RamEq s (s.addLru stems flag).1 :=
  (ramEq_addLruDescend flag stems s 1 (decide (s.trie.size > 1)) 0 {}).trans (ramEq_addLruCreate flag _ _ _)

theorem ramEq_addPageTrie (s : State) (stems : LRU) (crawled : Bool) :
    RamEq s (s.addPageTrie stems crawled).1 := by
  unfold addPageTrie
  simp only
  split
  · exact (ramEq_addLru s stems false).trans (ramEq_modCell _ _ _)
  · split
    · exact (ramEq_addLru s stems false).trans (ramEq_modCell _ _ _)
    · exact ramEq_addLru s stems false

/-! ### the walk history of an insertion is the walk history of the look-up before it -/

theorem Hist.visit_congr (h : Hist) {c c' : Cell} (pos : Nat) (hw : c'.we = c.we)
    (hr : c'.flags.rule = c.flags.rule) : h.visit c' pos = h.visit c pos := by
  unfold Hist.visit; rw [hw, hr]

theorem Hist.visit_clean (h : Hist) {c : Cell} (hc : Clean c) (pos : Nat) : h.visit c pos = h := by
  unfold Hist.visit; rw [hc.we, hc.rule]; rfl

theorem visitFold_congr {s s' : State}
    (hc : ∀ b, (s'.cell b).we = (s.cell b).we ∧ (s'.cell b).flags.rule = (s.cell b).flags.rule) :
    ∀ (cs : List (Nat × Stem)) (h : Hist) (pos : Nat), visitFold s' cs h pos = visitFold s cs h pos
  | [], _, _ => rfl
  | c :: cs, h, pos => by
    rw [visitFold_cons, visitFold_cons, Hist.visit_congr h _ (hc c.1).1 (hc c.1).2, visitFold_congr hc cs]

theorem T.pathCells_congr {s s' : State} (hst : ∀ j, s'.stemAt j = s.stemAt j) :
    ∀ (stems : List Stem) (u : T), u.pathCells s' stems = u.pathCells s stems := by
  intro stems
  induction stems with
  | nil => intro u; rfl
  | cons stem rest ih =>
    intro u
    simp only [T.pathCells, T.find_congr hst stem u]
    cases u.find s stem with
    | found a => cases rest with
      | nil => rfl
      | cons x xs => simp only [ih]
    | missing q sl => rfl
    | corrupt => rfl

theorem attrStep_cell_eq {s s' : State} (a : AttrStep s s') (b : Nat) :
    (s'.cell b).we = (s.cell b).we ∧ (s'.cell b).flags.rule = (s.cell b).flags.rule := by
  by_cases hb : b < s.trie.size
  · exact ⟨(a.old b hb).we, (a.old b hb).rule⟩
  · have hb' : s.trie.size ≤ b := Nat.le_of_not_lt hb
    rw [cell_of_size_le s b hb']
    exact ⟨(a.new b hb').we, (a.new b hb').rule⟩

theorem addLruDescend_hist (flag : Bool) : ∀ (stems : List Stem) (s : State) (u : T) (pos : Nat) (h : Hist),
    Rep s u → u ≠ .nil → u.size ≤ s.trie.size → TailClosed s → stems ≠ [] →
    (addLruDescend flag s stems u.root true pos h).2.2.2 = (visitFold s (u.pathCells s stems) h pos).1 := by
  intro stems
  induction stems with
  | nil => intro _ _ _ _ _ _ _ _ h; exact absurd rfl h
  | cons stem rest ih =>
    intro s u pos h hr hne hsz hcl _
    have hfs := findSib_eq_find (s := s) (stem := stem) u (s.trie.size + 1) hr hne (by omega)
    cases hf : u.find s stem with
    | corrupt => exact absurd hf (T.find_ne_corrupt u hne)
    | missing q sl =>
      rw [hf] at hfs
      obtain ⟨c, hc, hslot⟩ := findSib_missing s stem _ _ _ _ hfs
      have hg := graftStep_write s q sl stem (s.cell q).parent false c hc hslot hcl
      have he := ensureStem_missing s u.root stem q sl hfs
      rw [addLruDescend_cons_stop flag s stem rest u.root true pos h _ _ he (Or.inr hg.cell_child_new)]
      have hclean : Clean (((s.writeNew stem (s.cell q).parent false).1.modCell q
          (fun c => c.setSlot sl s.trie.size)).cell s.trie.size) := by
        have a := attrStep_ensureStem s u.root true stem
        rw [he] at a
        exact a.new _ (Nat.le_refl _)
      simp only [T.pathCells, hf]
      rw [Hist.visit_clean h hclean]
      rfl
    | found a =>
      rw [hf] at hfs
      have he := ensureStem_found s u.root stem a hfs
      obtain ⟨hmem, _⟩ := T.find_sound u a hf
      obtain ⟨hrc, cell, hcell, hch⟩ := Rep.childAt u a hr hmem
      have hcella : s.cell a = cell := by simp [State.cell, hcell]
      rw [T.pathCells_cons_found hf, visitFold_cons]
      cases rest with
      | nil =>
        rw [addLruDescend_cons_stop flag s stem [] u.root true pos h _ _ he (Or.inl rfl)]
        simp only [T.pathCells]
        rfl
      | cons st2 rest2 =>
        cases hc : u.childAt a with
        | nil =>
          rw [hc] at hch
          rw [addLruDescend_cons_stop flag s stem _ u.root true pos h _ _ he
            (Or.inr (by rw [hcella, hch]; rfl))]
          rw [T.pathCells_nil_tree]
          rfl
        | node a' l' c' r' =>
          rw [hc] at hch hrc
          have hne0 : (s.cell a).child ≠ 0 := by rw [hcella, hch]; exact hrc.1
          rw [addLruDescend_cons_go flag s stem _ u.root true pos h _ _ he (by simp) hne0]
          have hns := noStruct_markCanHave s a
            (!(st2 :: rest2).isEmpty && flag && (s.cell a).flags.noChild)
          have has := attrStep_markCanHave s a
            (!(st2 :: rest2).isEmpty && flag && (s.cell a).flags.noChild)
          have hsz' : (T.node a' l' c' r').size ≤ s.trie.size := by
            have := T.childAt_size u a; rw [hc] at this; omega
          have hroot : (s.cell a).child = (T.node a' l' c' r').root := by rw [hcella, hch]
          rw [hroot]
          have := ih _ (.node a' l' c' r') (pos + stem.length)
            (h.visit (s.cell a) (pos + stem.length)) (hns.rep hrc) (by simp)
            (by rw [hns.1]; exact hsz') (hns.closed hcl) (by simp)
          rw [this, T.pathCells_congr hns.stemAt, visitFold_congr (attrStep_cell_eq has)]

/-- `add_lru` returns the history `follow_lru` computes on the state before -/
theorem addLru_hist {s : State} {t : T} (h : Shape s t) (stems : LRU) (flag : Bool) (hne : stems ≠ []) :
    (s.addLru stems flag).2.2 = (s.followLru stems).2 := by
  have e1 : (s.addLru stems flag).2.2 = (addLruDescend flag s stems 1 (decide (s.trie.size > 1)) 0 {}).2.2.2 := by
    unfold addLru
    rcases addLruDescend flag s stems 1 (decide (s.trie.size > 1)) 0 {} with ⟨s1, node, rest, hh⟩
    simp only
  rw [e1, followLru_hist h stems hne]
  by_cases hsz : s.trie.size ≤ 1
  · have : t = .nil := h.eq_nil hsz
    subst this
    rw [T.pathCells_nil_tree]
    have hd : decide (s.trie.size > 1) = false := by simpa using hsz
    rw [hd]
    cases stems with
    | nil => exact absurd rfl hne
    | cons stem rest =>
      have he : s.ensureStem 1 false stem = s.writeNew stem 0 false := by simp [ensureStem]
      have hclean : Clean ((s.writeNew stem 0 false).1.cell (s.writeNew stem 0 false).2) := by
        have : (s.writeNew stem 0 false).2 = s.trie.size := rfl
        rw [this]
        exact (attrStep_writeNew s stem 0 false).new _ (Nat.le_refl _)
      have hch : ((s.writeNew stem 0 false).1.cell (s.writeNew stem 0 false).2).child = 0 := by
        have : (s.writeNew stem 0 false).2 = s.trie.size := rfl
        rw [this, cell_writeNew_head]; rfl
      simp only [addLruDescend, he, hch, ne_eq, not_true_eq_false, decide_false, Bool.and_false,
        Bool.false_eq_true, if_false]
      rw [Hist.visit_clean _ hclean]
      rfl
  · have hroot := h.root
    rw [if_neg hsz] at hroot
    have htne : t ≠ .nil := by
      intro e; subst e; simp at hroot
    have hd : decide (s.trie.size > 1) = true := by simpa using hsz
    rw [hd]
    have := addLruDescend_hist flag stems s t 0 {} h.rep htne h.size_le h.closed hne
    rw [hroot] at this
    exact this

/-- the webentity / rule part of the history returned by `LRUTrie.add_page` -/
theorem addPageTrie_hist {s : State} {t : T} (h : Shape s t) (stems : LRU) (c : Bool) (hne : stems ≠ []) :
    (s.addPageTrie stems c).2.2.we = (s.followLru stems).2.we ∧
    (s.addPageTrie stems c).2.2.wePos = (s.followLru stems).2.wePos ∧
    (s.addPageTrie stems c).2.2.rules = (s.followLru stems).2.rules := by
  have e := addLru_hist h stems false hne
  unfold addPageTrie
  rcases ha : s.addLru stems false with ⟨s1, n, hh⟩
  rw [ha] at e
  simp only at e ⊢
  split
  · exact ⟨by rw [← e], by rw [← e], by rw [← e]⟩
  · split
    · exact ⟨by rw [← e], by rw [← e], by rw [← e]⟩
    · exact ⟨by rw [← e], by rw [← e], by rw [← e]⟩

/-! ### whatever the rules return cuts into stems -/

theorem lruIterGo_ne_nil_of_sep : ∀ (b cur : Bytes), sep ∈ b → lruIterGo b cur ≠ []
  | [], _, h => by simp at h
  | x :: xs, cur, h => by
    simp only [lruIterGo]
    split
    · simp
    · rename_i hx
      have hx' : ¬ x = sep := by simpa using hx
      rcases List.mem_cons.mp h with e | h
      · exact absurd e.symm hx'
      · exact lruIterGo_ne_nil_of_sep xs _ h

theorem lruIter_ne_nil_of_sep {b : Bytes} (h : sep ∈ b) : lruIter b ≠ [] :=
  lruIterGo_ne_nil_of_sep b [] h

/-- a non-empty concatenation of stems of `lru_iter` contains a separator -/
theorem sep_mem_flatten_take (b : Bytes) (n : Nat) (hne : ((lruIter b).take n).flatten ≠ []) :
    sep ∈ ((lruIter b).take n).flatten := by
  cases hl : (lruIter b).take n with
  | nil => rw [hl] at hne; simp at hne
  | cons x xs =>
    have hx : x ∈ lruIter b := List.mem_of_mem_take (by rw [hl]; simp)
    obtain ⟨y, rfl, _⟩ := lruIter_wf b x hx
    simp

theorem matchAt0_shape (r : Rule) (b m : Bytes) (h : r.matchAt0 b = some m) :
    ∃ n, m = ((lruIter b).take n).flatten := by
  unfold Rule.matchAt0 at h
  split at h
  · cases h
  · simp only at h
    split at h
    · cases h
    · split at h
      · cases h
      · simp only [Option.map_eq_some_iff] at h
        obtain ⟨n, _, e⟩ := h
        rename_i s0 tl heq _ _
        exact ⟨n, by rw [← e, heq]; rfl⟩

theorem searchGo_shape (r : Rule) : ∀ (fuel : Nat) (b m : Bytes), r.searchGo fuel b = some m →
    ∃ b' n, m = ((lruIter b').take n).flatten
  | 0, _, _, h => by simp [Rule.searchGo] at h
  | fuel + 1, b, m, h => by
    simp only [Rule.searchGo] at h
    split at h
    · rename_i m' hm
      cases h
      obtain ⟨n, e⟩ := matchAt0_shape r b m hm
      exact ⟨b, n, e⟩
    · split at h
      · cases h
      · exact searchGo_shape r fuel _ m h

/-- a non-empty result of the rule matcher contains a separator -/
theorem search_sep (r : Rule) (b m : Bytes) (h : r.search b = some m) (hne : m ≠ []) : sep ∈ m := by
  obtain ⟨b', n, e⟩ := searchGo_shape r _ b m h
  rw [e] at hne ⊢
  exact sep_mem_flatten_take b' n hne

theorem sep_mem_replaceFirst (old new : Bytes) (hn : sep ∈ new) : ∀ (b : Bytes), sep ∈ b →
    sep ∈ replaceFirst old new b
  | [], h => by simp at h
  | x :: xs, h => by
    simp only [replaceFirst]
    split
    · exact List.mem_append_left _ hn
    · rcases List.mem_cons.mp h with e | h
      · rw [e]; exact List.mem_cons_self
      · exact List.mem_cons_of_mem _ (sep_mem_replaceFirst old new hn xs h)

theorem sep_mem_httpsVariation (b v : Bytes) (h : httpsVariation b = some v) (hb : sep ∈ b) : sep ∈ v := by
  unfold httpsVariation at h
  split at h
  · cases h; exact sep_mem_replaceFirst _ _ (by decide) b hb
  · split at h
    · cases h; exact sep_mem_replaceFirst _ _ (by decide) b hb
    · cases h

/-- every scheme / www variation of a byte string with a separator has one -/
theorem lruVariations_sep (b : Bytes) (hb : sep ∈ b) : ∀ v ∈ lruVariations b, sep ∈ v := by
  intro v hv
  have hrep : ∀ (old hs x : Bytes), sep ∈ x → sep ∈ replaceFirst old (hs ++ [sep]) x :=
    fun old hs x hx => sep_mem_replaceFirst old _ (by simp) x hx
  unfold lruVariations at hv
  cases hh : httpsVariation b with
  | none =>
    simp only [hh] at hv
    repeat' split at hv
    all_goals simp only [List.mem_append, List.mem_cons, List.not_mem_nil, or_false] at hv
    all_goals repeat' (rcases hv with hv | hv)
    all_goals first | subst hv | skip
    all_goals first | exact hb | exact hrep _ _ _ hb
  | some v' =>
    have hv' : sep ∈ v' := sep_mem_httpsVariation b v' hh hb
    simp only [hh] at hv
    repeat' split at hv
    all_goals simp only [List.mem_append, List.mem_cons, List.not_mem_nil, or_false] at hv
    all_goals repeat' (rcases hv with hv | hv)
    all_goals first | subst hv | skip
    all_goals first | exact hb | exact hv' | exact hrep _ _ _ hb | exact hrep _ _ _ hv'

theorem lruVariations_ne_nil (b : Bytes) (hb : sep ∈ b) : ∀ v ∈ lruVariations b, lruIter v ≠ [] :=
  fun v hv => lruIter_ne_nil_of_sep (lruVariations_sep b hb v hv)

end Traph

import Proofs.PtrOk
/-! Every model function and every public write request (except `clear`) is a `PTrace` from any `Whole`
    state, and ends in a `Whole` state: the pointer-safety invariant `PtrOk` holds after EVERY SINGLE
    storage write of every request. Same skeleton as Proofs/TraceOps.lean. The facts that make it work,
    all read off the write order of the code:
    * `writeNew` appends the head and then all its tail blocks before anything points to the head;
    * `ensureStem` / `addLruCreate` store the sibling / child pointer only after `writeNew`;
    * `addStubs` appends all the stubs before the page block is rewritten with the new list head;
    * the stubs' targets are blocks of pages inserted earlier in the same request. -/
namespace Traph
open State

/-- from a `Whole` state: a `PTrace` to a `Whole` state -/
def WT (s s' : State) : Prop := Whole s → PTrace s s' ∧ Whole s'

theorem WT.refl (s : State) : WT s s := fun h => ⟨PTrace.refl s, h⟩

theorem WT.trans {a b c : State} (h1 : WT a b) (h2 : WT b c) : WT a c := fun h =>
  ⟨(h1 h).1.trans (h2 (h1 h).2).1, (h2 (h1 h).2).2⟩

theorem WT.of_eq {s s' : State} (ht : s'.trie = s.trie) (hl : s'.links = s.links)
    (hh : s'.hdrId = s.hdrId) (hlog : s'.log = s.log) : WT s s' :=
  fun h => ⟨PTrace.of_eq ht hl hh hlog, h.of_eq ht hl⟩

theorem WT.fst_of_eq {α : Type} {s : State} {p q : State × α} (h : WT s p.1) (e : p = q) : WT s q.1 :=
  e ▸ h

theorem Whole.pos {s : State} (h : Whole s) : 0 < s.trie.size := h.dpos

/-! ### primitives -/

theorem CellOk.flags {c : Cell} {d nl : Nat} (h : CellOk c d nl) (fl : Flags) :
    CellOk { c with flags := fl } d nl := ⟨h.left, h.right, h.child, h.parent, h.out, h.inn⟩

theorem CellOk.we {c : Cell} {d nl : Nat} (h : CellOk c d nl) (w : Nat) :
    CellOk { c with we := w } d nl := ⟨h.left, h.right, h.child, h.parent, h.out, h.inn⟩

theorem CellOk.setSlot {c : Cell} {d nl : Nat} (h : CellOk c d nl) (sl : Slot) (v : Nat) (hv : v < d) :
    CellOk (c.setSlot sl v) d nl := by
  cases sl
  · exact ⟨hv, h.right, h.child, h.parent, h.out, h.inn⟩
  · exact ⟨h.left, h.right, hv, h.parent, h.out, h.inn⟩
  · exact ⟨h.left, hv, h.child, h.parent, h.out, h.inn⟩

theorem wt_modCell (s : State) (i : Nat) (f : Cell → Cell)
    (hle : ∀ c, s.trie[i]? = some c → CellLe c (f c))
    (hok : ∀ c, s.trie[i]? = some c → CellOk c s.trie.size s.links.size → CellOk (f c) s.trie.size s.links.size) :
    WT s (s.modCell i f) := fun hw =>
  have w := Whole.modCell hw i f (fun c hc => ⟨hok c hc (hw.cells i c hc), (hle c hc).hasTail⟩)
  ⟨PTrace.modCell i f (PTrace.refl s) hle w.ptrOk, w⟩

theorem wt_appendStub (s : State) (b : Stub) (hp : b.prev < s.links.size) (ht : b.target < s.trie.size) :
    WT s (s.appendStub b).1 := fun hw =>
  have w := Whole.appendStub hw b hp ht
  ⟨PTrace.appendStub b (PTrace.refl s) w.ptrOk, w⟩

theorem wt_setHdr (s : State) (id : Nat) : WT s (s.setHdr id) := fun hw =>
  ⟨PTrace.setHdr id (PTrace.refl s), hw.setHdr id⟩

/-! ### trie -/

/-- the tail blocks of a node, appended one by one after a head that announces them: the complete
    prefix stays at the head until the last tail block closes the file -/
theorem ptrace_tailCells : ∀ (chs : List Bytes), chs ≠ [] → ∀ (s : State) (d : Nat), PtrOkAt s d →
    PTrace s (s.appendCells (tailCells chs)) ∧ Whole (s.appendCells (tailCells chs))
  | [], h, _, _, _ => absurd rfl h
  | [ck], _, s, d, hd => by
    simp only [tailCells, appendCells]
    have w := hd.appendCell_closed { chunk := ck, flags := { isTail := true } }
      ⟨hd.dpos, hd.dpos, hd.dpos, hd.dpos, hd.lpos, hd.lpos⟩ rfl
    exact ⟨PTrace.appendCell _ (PTrace.refl s) w.ptrOk, w⟩
  | a :: b :: r, _, s, d, hd => by
    rw [tailCells_cons_cons, appendCells]
    have o := hd.appendCell_open { chunk := a, flags := { isTail := true, hasTail := true } }
      ⟨hd.dpos, hd.dpos, hd.dpos, hd.dpos, hd.lpos, hd.lpos⟩ rfl
    obtain ⟨t, w⟩ := ptrace_tailCells (b :: r) (by simp) _ d o
    exact ⟨(PTrace.appendCell _ (PTrace.refl s) ⟨d, o⟩).trans t, w⟩

theorem chunks_ne_nil_ptr (n : Nat) (l : Bytes) (hl : l ≠ []) : chunks n l ≠ [] := by
  unfold chunks
  split
  · simp
  · cases l with
    | nil => exact absurd rfl hl
    | cons a t => rw [chunksGo_cons]; simp

theorem writeNew_fst_ptr (s : State) (stem : Bytes) (p : Nat) (c : Bool) :
    (s.writeNew stem p c).1 = (s.appendCell (headCell stem p c)).1.appendCells (tailsOf stem) := by
  simp only [writeNew, headCell, tailsOf, decide_eq_true_eq]

/-- a new node: head block, then its tail blocks; `Whole` again after the last one -/
theorem wt_writeNew (s : State) (stem : Bytes) (p : Nat) (c : Bool) (hp : p < s.trie.size) :
    WT s (s.writeNew stem p c).1 := by
  intro hw
  rw [writeNew_fst_ptr]
  have hc : CellOk (headCell stem p c) s.trie.size s.links.size :=
    ⟨hw.dpos, hw.dpos, hw.dpos, hp, hw.lpos, hw.lpos⟩
  by_cases hl : stem.length > Layout.stemCap
  · have ht : (headCell stem p c).flags.hasTail = true := by simp [headCell, hl]
    have o := PtrOkAt.appendCell_open hw _ hc ht
    have hto : tailsOf stem = tailCells (chunks Layout.stemCap (stem.drop Layout.stemCap)) := by
      rw [tailsOf, if_pos hl]
    have hne : stem.drop Layout.stemCap ≠ [] := by
      intro e; have := congrArg List.length e
      simp only [List.length_drop, List.length_nil] at this; omega
    rw [hto]
    obtain ⟨t, w⟩ := ptrace_tailCells _ (chunks_ne_nil_ptr _ _ hne) _ _ o
    exact ⟨(PTrace.appendCell _ (PTrace.refl s) ⟨_, o⟩).trans t, w⟩
  · have ht : (headCell stem p c).flags.hasTail = false := by simp [headCell, hl]
    have w := PtrOkAt.appendCell_closed hw _ hc ht
    have hto : tailsOf stem = [] := by rw [tailsOf, if_neg hl]
    rw [hto]
    simp only [appendCells]
    exact ⟨PTrace.appendCell _ (PTrace.refl s) w.ptrOk, w⟩

theorem wt_ensureStem (s : State) (start : Nat) (ex : Bool) (stem : Stem) :
    WT s (s.ensureStem start ex stem).1 := by
  intro hw
  unfold ensureStem
  split
  · exact wt_writeNew s stem 0 false hw.pos hw
  · split
    · exact WT.refl s hw
    · exact WT.refl s hw
    · rename_i last sl hf
      obtain ⟨c, hc, hslot⟩ := findSib_missing s stem _ _ _ _ hf
      have hlast : last < s.trie.size := (Array.getElem?_eq_some_iff.mp hc).1
      have hpar : (s.cell last).parent < s.trie.size := (hw.cellOk last).parent
      refine (WT.trans (wt_writeNew s stem _ false hpar) (wt_modCell _ _ _ ?_ ?_)) hw
      · intro c' hc'
        rw [writeNew_old _ _ _ _ _ hlast, hc] at hc'
        cases hc'
        exact cellLe_setSlot c sl _ hslot
      · intro c' _ hok
        exact hok.setSlot sl _ (by rw [writeNew_idx]; exact size_lt_writeNew _ _ _ _)

theorem wt_markCanHave (s : State) (n : Nat) (b : Bool) : WT s (s.markCanHave n b) := by
  unfold markCanHave; split
  · exact wt_modCell _ _ _ (fun c _ => cellLe_clearNoChild c) (fun c _ h => h.flags _)
  · exact WT.refl s

theorem wt_addLruDescend (flag : Bool) : ∀ (stems : List Stem) (s : State) (node : Nat) (ex : Bool)
    (pos : Nat) (h : Hist), WT s (addLruDescend flag s stems node ex pos h).1 := by
  intro stems
  induction stems with
  | nil => intro s node ex pos h; simp only [addLruDescend]; exact WT.refl s
  | cons stem rest ih =>
    intro s node ex pos h
    rcases he : s.ensureStem node ex stem with ⟨s1, n⟩
    have ht1 : WT s s1 := by have := wt_ensureStem s node ex stem; rw [he] at this; exact this
    simp only [addLruDescend, he]
    split
    · exact ht1.trans ((wt_markCanHave _ _ _).trans (ih _ _ _ _ _))
    · exact ht1.trans (wt_markCanHave _ _ _)

theorem wt_addLruCreate (flag : Bool) : ∀ (stems : List Stem) (s : State) (node : Nat),
    node < s.trie.size → (stems ≠ [] → (s.cell node).child = 0) →
    WT s (addLruCreate flag s stems node).1 := by
  intro stems
  induction stems with
  | nil => intro s node _ _; simp only [addLruCreate]; exact WT.refl s
  | cons stem rest ih =>
    intro s node hn hch
    simp only [addLruCreate]
    rcases hw : s.writeNew stem node (!rest.isEmpty && flag) with ⟨s1, ch⟩
    have ht1 : WT s s1 := by have := wt_writeNew s stem node (!rest.isEmpty && flag) hn; rw [hw] at this; exact this
    have hidx : ch = s.trie.size := by have := writeNew_idx s stem node (!rest.isEmpty && flag); rw [hw] at this; exact this
    have hlt1 : s.trie.size < s1.trie.size := by have := size_lt_writeNew s stem node (!rest.isEmpty && flag); rw [hw] at this; exact this
    have ht2 : WT s1 (s1.modCell node (fun c => { c with child := ch })) := by
      apply wt_modCell
      · intro c hc
        apply cellLe_setChild
        have := writeNew_old s stem node (!rest.isEmpty && flag) node hn
        rw [hw] at this
        have h0 := hch (by simp)
        unfold cell at h0
        rw [← this, hc] at h0
        simpa using h0
      · intro c _ hok
        exact ⟨hok.left, hok.right, by show ch < s1.trie.size; omega, hok.parent, hok.out, hok.inn⟩
    have hhead : s1.cell ch = headCell stem node (!rest.isEmpty && flag) := by
      have := cell_writeNew_head s stem node (!rest.isEmpty && flag); rw [hw] at this; rw [hidx]; exact this
    have ih' := ih (s1.modCell node (fun c => { c with child := ch })) ch (by simp; omega) (by
      intro _
      rw [cell_modCell]
      have hne : ¬ (node = ch ∧ ch < s1.trie.size) := by omega
      rw [if_neg hne, hhead]; rfl)
    exact ht1.trans (ht2.trans ih')

/-- `add_lru` -/
theorem wt_addLru (s : State) (stems : LRU) (flag : Bool) : WT s (s.addLru stems flag).1 := by
  intro hw0
  have h0 := hw0.pos
  revert hw0
  cases stems with
  | nil => simp only [addLru, addLruDescend, addLruCreate]; exact WT.refl s
  | cons a r =>
    have hne : a :: r ≠ [] := by simp
    unfold addLru
    rcases hd : addLruDescend flag s (a :: r) 1 (decide (s.trie.size > 1)) 0 {} with ⟨s1, node, rest, h⟩
    obtain ⟨_, hlt, hch⟩ := addLruDescend_le flag (a :: r) s 1 (decide (s.trie.size > 1)) 0 {} h0
    have ht := wt_addLruDescend flag (a :: r) s 1 (decide (s.trie.size > 1)) 0 {}
    rw [hd] at ht hlt hch
    simp only at ht hlt hch ⊢
    have ht2 := wt_addLruCreate flag rest s1 node (hlt hne) (fun hr => hch hr hne)
    rcases hc : addLruCreate flag s1 rest node with ⟨s2, node2⟩
    rw [hc] at ht2
    exact ht.trans ht2

/-- `add_page` on the trie -/
theorem wt_addPageTrie (s : State) (stems : LRU) (crawled : Bool) :
    WT s (s.addPageTrie stems crawled).1 := by
  unfold addPageTrie
  rcases ha : s.addLru stems false with ⟨s1, n, h⟩
  have ht := wt_addLru s stems false
  rw [ha] at ht
  simp only at ht ⊢
  split
  · exact ht.trans (wt_modCell _ _ _ (fun c _ => cellLe_flags_page c crawled) (fun c _ h => h.flags _))
  · split
    · exact ht.trans (wt_modCell _ _ _ (fun c _ => cellLe_flags_crawled c) (fun c _ h => h.flags _))
    · exact ht

theorem wt_foldl_modCell {α : Type} (g : α → Nat) (f : α → Cell → Cell) (hf : ∀ a c, CellLe c (f a c))
    (hok : ∀ a c d nl, CellOk c d nl → CellOk (f a c) d nl) :
    ∀ (l : List α) (s : State), WT s (l.foldl (fun st a => st.modCell (g a) (f a)) s)
  | [], s => WT.refl s
  | a :: l, s => by
    rw [List.foldl_cons]
    exact (wt_modCell s (g a) (f a) (fun c _ => hf a c) (fun c _ h => hok a c _ _ h)).trans
      (wt_foldl_modCell g f hf hok l _)

/-! ### link store -/

theorem wt_addStubsGo : ∀ (targets : List Nat) (s : State) (tail : Nat), tail < s.links.size →
    (∀ t ∈ targets, t < s.trie.size) →
    WT s (s.addStubsGo tail targets).1 ∧
    (s.addStubsGo tail targets).2 < (s.addStubsGo tail targets).1.links.size ∧
    (s.addStubsGo tail targets).1.trie = s.trie
  | [], s, tail, ht, _ => ⟨WT.refl s, ht, rfl⟩
  | t :: ts, s, tail, ht, htg => by
    simp only [addStubsGo]
    have h1 := wt_appendStub s { target := t, prev := tail } ht (htg t (by simp))
    obtain ⟨h2, h3, h4⟩ := wt_addStubsGo ts (s.appendStub { target := t, prev := tail }).1 s.links.size
      (by simp [State.appendStub]) (fun x hx => htg x (by simp [hx]))
    exact ⟨h1.trans h2, h3, h4⟩

/-- all the new stubs first, the page block with the new head last -/
theorem wt_addStubs (s : State) (page : Nat) (targets : List Nat) (out : Bool)
    (htg : ∀ t ∈ targets, t < s.trie.size) : WT s (s.addStubs page targets out) := by
  intro hw
  unfold addStubs
  split
  · exact WT.refl s hw
  · have hhead : (if out = true then (s.cell page).out else (s.cell page).inn) < s.links.size := by
      split
      · exact (hw.cellOk page).out
      · exact (hw.cellOk page).inn
    obtain ⟨h1, h2, h3⟩ := wt_addStubsGo targets s _ hhead htg
    refine (h1.trans (wt_modCell _ _ _ (fun c _ => cellLe_setHead c out _) ?_)) hw
    intro c _ hok
    cases out
    · exact ⟨hok.left, hok.right, hok.child, hok.parent, hok.out, h2⟩
    · exact ⟨hok.left, hok.right, hok.child, hok.parent, h2, hok.inn⟩

theorem size_addStubs_ptr (s : State) (page : Nat) (targets : List Nat) (out : Bool) :
    (s.addStubs page targets out).trie.size = s.trie.size := by
  unfold addStubs
  split
  · rfl
  · have : ∀ (ts : List Nat) (s : State) (tail : Nat), (s.addStubsGo tail ts).1.trie = s.trie := by
      intro ts
      induction ts with
      | nil => intro s tail; rfl
      | cons t ts ih => intro s tail; simp only [addStubsGo]; rw [ih]; rfl
    simp only [trie_modCell_size]
    rw [this]

/-- the page cache of a link request: every cached block exists -/
def CacheLt (s : State) (pages : List (Bytes × Nat)) : Prop := ∀ p ∈ pages, p.2 < s.trie.size

theorem CacheLt.mono {s s' : State} {pages : List (Bytes × Nat)} (h : CacheLt s pages)
    (hle : s.trie.size ≤ s'.trie.size) : CacheLt s' pages := fun p hp => Nat.lt_of_lt_of_le (h p hp) hle

theorem dictGet?_mem_ptr {α β : Type} [DecidableEq α] (d : List (α × β)) (k : α) (v : β)
    (h : dictGet? d k = some v) : ∃ p ∈ d, p.2 = v := by
  unfold dictGet? at h
  cases hf : d.find? (fun p => p.1 = k) with
  | none => rw [hf] at h; cases h
  | some p =>
    rw [hf] at h
    simp only [Option.map_some, Option.some.injEq] at h
    exact ⟨p, List.mem_of_find?_eq_some hf, h⟩

theorem CacheLt.getD {s : State} {pages : List (Bytes × Nat)} (h : CacheLt s pages) (h0 : 0 < s.trie.size)
    (l : Bytes) : (dictGet? pages l).getD 0 < s.trie.size := by
  cases hg : dictGet? pages l with
  | none => exact h0
  | some v =>
    obtain ⟨p, hp, rfl⟩ := dictGet?_mem_ptr pages l v hg
    exact h p hp

theorem CacheLt.blocksOf {s : State} {pages : List (Bytes × Nat)} (h : CacheLt s pages) (h0 : 0 < s.trie.size)
    (ls : List Bytes) : ∀ t ∈ blocksOf pages ls, t < s.trie.size := by
  intro t ht
  unfold State.blocksOf at ht
  obtain ⟨l, _, rfl⟩ := List.mem_map.mp ht
  exact h.getD h0 l

theorem wt_flushLists (out : Bool) (pages : List (Bytes × Nat)) :
    ∀ (l : List (Bytes × List Bytes)) (s : State), CacheLt s pages → WT s (flushLists out pages s l)
  | [], s, _ => by simp only [flushLists]; exact WT.refl s
  | (p, others) :: rest, s, ha => by
    intro hw
    simp only [flushLists]
    have h1 := wt_addStubs s ((dictGet? pages p).getD 0) (State.blocksOf pages others) out
      (ha.blocksOf hw.pos others)
    have h2 := wt_flushLists out pages rest _ (ha.mono (s' := s.addStubs ((dictGet? pages p).getD 0) (State.blocksOf pages others) out)
      (Nat.le_of_eq (size_addStubs_ptr s _ _ out).symm))
    exact (h1.trans h2) hw

/-! ### webentity edits and page insertion -/

theorem wt_genId (s : State) : WT s s.genId.1 := wt_setHdr s _

theorem wt_addPrefixesScan : ∀ (ps : List Bytes) (s : State) (valid : List (Bytes × Nat)) (nInv : Nat),
    WT s (s.addPrefixesScan ps valid nInv).1
  | [], s, valid, nInv => by simp only [addPrefixesScan]; exact WT.refl s
  | p :: ps, s, valid, nInv => by
    rcases ha : s.addLru (lruIter p) true with ⟨s1, n, h⟩
    have ht := wt_addLru s (lruIter p) true
    rw [ha] at ht
    simp only [addPrefixesScan, ha]
    split
    · exact ht.trans (wt_addPrefixesScan ps s1 _ _)
    · exact ht.trans (wt_addPrefixesScan ps s1 _ _)

theorem wt_addPrefixes (s : State) (prefixes : List Bytes) (best : Bool) :
    WT s (s.addPrefixes prefixes best).1 := by
  rcases ha : s.addPrefixesScan prefixes [] 0 with ⟨s1, valid, nInv⟩
  have ht := wt_addPrefixesScan prefixes s [] 0
  rw [ha] at ht
  simp only [addPrefixes, ha]
  split
  · exact ht
  · split
    · exact ht
    · exact ht.trans ((wt_genId s1).trans
        (wt_foldl_modCell (fun pn : Bytes × Nat => pn.2) (fun _ c => { c with we := s1.genId.2 })
          (fun _ c => cellLe_setWe c _) (fun _ c _ _ h => h.we _) valid _))

theorem wt_createWebentityAuto (s : State) (pfx : Bytes) : WT s (s.createWebentityAuto pfx).1 := by
  have ht := wt_addPrefixes s (lruVariations pfx) true
  unfold createWebentityAuto
  split <;> rename_i heq <;> rw [heq] at ht <;> exact ht

theorem wt_addPageCore (s : State) (lru : Bytes) (crawled : Bool) : WT s (s.addPageCore lru crawled).1 := by
  rcases ha : s.addPageTrie (lruIter lru) crawled with ⟨s1, n, h⟩
  have ht := wt_addPageTrie s (lruIter lru) crawled
  rw [ha] at ht
  simp only at ht
  simp only [addPageCore, ha]
  repeat' split
  all_goals first | exact ht | exact ht.trans (wt_createWebentityAuto s1 _)

/-- the block `__add_page` returns exists (for an LRU with at least one stem) -/
theorem addPageCore_lt (s : State) (lru : Bytes) (crawled : Bool) (h0 : 0 < s.trie.size)
    (hne : lruIter lru ≠ []) :
    (s.addPageCore lru crawled).2.1 < (s.addPageCore lru crawled).1.trie.size := by
  rcases ha : s.addPageTrie (lruIter lru) crawled with ⟨s1, n, h⟩
  obtain ⟨hle, hlt⟩ := addPageTrie_le s (lruIter lru) crawled h0 hne
  rw [ha] at hle hlt
  have h1 : 0 < s1.trie.size := hle.pos h0
  simp only at hle hlt
  simp only [addPageCore, ha]
  repeat' split
  all_goals first | exact hlt | exact Nat.lt_of_lt_of_le hlt (le_createWebentityAuto s1 _ h1).size

theorem wt_addPage (s : State) (lru : Bytes) (crawled : Bool) : WT s (s.addPage lru crawled).1 := by
  simp only [addPage]
  exact wt_addPageCore s lru crawled

theorem wt_addPagesGo (always : Bool) : ∀ (ls : List Bytes) (s : State) (crawled : Bool) (rep : Report),
    WT s (addPagesGo always s ls crawled rep).1
  | [], s, crawled, rep => by simp only [addPagesGo]; exact WT.refl s
  | l :: ls, s, crawled, rep => by
    have ht := wt_addPageCore s l crawled
    rw [addPagesGo]
    split
    · rename_i s1 _ e heq
      rw [heq] at ht; exact ht
    · rename_i s1 n r heq
      rw [heq] at ht
      simp only at ht
      have ht2 : WT s1 (if always = true then s1.modCell n (fun c => { c with flags := { c.flags with crawled := true } }) else s1) := by
        split
        · exact wt_modCell _ _ _ (fun c _ => cellLe_flags_crawled c) (fun c _ h => h.flags _)
        · exact WT.refl s1
      exact ht.trans (ht2.trans (wt_addPagesGo always ls _ crawled _))

theorem wt_addPages (s : State) (lrus : List Bytes) (crawled : Bool) : WT s (s.addPages lrus crawled).1 := by
  unfold addPages
  exact wt_addPagesGo _ lrus s crawled {}

theorem wt_ensurePageCached (s : State) (acc : LinkAcc) (l : Bytes) (crawled : Bool) :
    WT s (s.ensurePageCached acc l crawled).1 := by
  have ht := wt_addPageCore s l crawled
  unfold ensurePageCached
  split
  · exact WT.refl s
  · split <;> rename_i heq <;> rw [heq] at ht <;> exact ht

/-- the page cache stays valid -/
theorem accOk_ensurePageCached (s : State) (acc : LinkAcc) (l : Bytes) (crawled : Bool)
    (h0 : 0 < s.trie.size) (hne : lruIter l ≠ []) (ha : CacheLt s acc.pages) :
    ∀ acc', (s.ensurePageCached acc l crawled).2 = .ok acc' →
      CacheLt (s.ensurePageCached acc l crawled).1 acc'.pages := by
  have hle := le_addPageCore s l crawled h0
  have hlt := addPageCore_lt s l crawled h0 hne
  unfold ensurePageCached
  split
  · intro acc' h; cases h; exact ha
  · split
    · intro acc' h; cases h
    · rename_i s1 n r heq
      rw [heq] at hle hlt
      simp only at hle hlt
      intro acc' h
      simp only [Except.ok.injEq] at h
      subst h
      intro p hp
      simp only [List.mem_append, List.mem_singleton] at hp
      rcases hp with hp | rfl
      · exact Nat.lt_of_lt_of_le (ha p hp) hle.size
      · exact hlt

/-! ### link requests: the page cache is threaded through the scans -/

/-- result of a scan: a `PTrace` to a `Whole` state, and a valid page cache when it succeeds -/
def ScanOk (s r : State) (res : Except Err LinkAcc) : Prop :=
  (PTrace s r ∧ Whole r) ∧ ∀ acc', res = .ok acc' → CacheLt r acc'.pages

theorem scanOk_ensurePageCached (s : State) (acc : LinkAcc) (l : Bytes) (crawled : Bool)
    (hne : lruIter l ≠ []) (ha : CacheLt s acc.pages) (hw : Whole s) :
    ScanOk s (s.ensurePageCached acc l crawled).1 (s.ensurePageCached acc l crawled).2 :=
  ⟨wt_ensurePageCached s acc l crawled hw, accOk_ensurePageCached s acc l crawled hw.pos hne ha⟩

theorem wt_addLinksScan : ∀ (links : List (Bytes × Bytes)) (s : State) (acc : LinkAcc),
    (∀ st ∈ links, lruIter st.1 ≠ [] ∧ lruIter st.2 ≠ []) → CacheLt s acc.pages → Whole s →
    ∀ r, addLinksScan s links acc = r → ScanOk s r.1 r.2
  | [], s, acc, _, ha, hw, r, hr => by
    simp only [addLinksScan] at hr; subst hr
    exact ⟨⟨PTrace.refl s, hw⟩, fun acc' h => by cases h; exact ha⟩
  | (src, tgt) :: rest, s, acc, hwf, ha, hw, r, hr => by
    have hwf1 := hwf (src, tgt) (by simp)
    have h1 := scanOk_ensurePageCached s acc src false hwf1.1 ha hw
    rw [addLinksScan] at hr
    split at hr
    · rename_i s1 e heq
      rw [heq] at h1; subst hr
      exact ⟨h1.1, fun acc' h => by cases h⟩
    · rename_i s1 acc1 heq
      rw [heq] at h1
      obtain ⟨⟨t1, w1⟩, a1⟩ := h1
      have a1' := a1 acc1 rfl
      have h2 := scanOk_ensurePageCached s1 acc1 tgt false hwf1.2 a1' w1
      split at hr
      · rename_i s2 e heq2
        rw [heq2] at h2; subst hr
        exact ⟨⟨t1.trans h2.1.1, h2.1.2⟩, fun acc' h => by cases h⟩
      · rename_i s2 acc2 heq2
        rw [heq2] at h2
        obtain ⟨⟨t2, w2⟩, a2⟩ := h2
        have a2' := a2 acc2 rfl
        have h3 := wt_addLinksScan rest s2
          { acc2 with outl := multiAdd acc2.outl src tgt, inl := multiAdd acc2.inl tgt src }
          (fun st hst => hwf st (by simp [hst])) a2' w2 r hr
        exact ⟨⟨(t1.trans t2).trans h3.1.1, h3.1.2⟩, h3.2⟩

theorem wt_addLinks (s : State) (links : List (Bytes × Bytes))
    (hwf : ∀ st ∈ links, lruIter st.1 ≠ [] ∧ lruIter st.2 ≠ []) : WT s (s.addLinks links).1 := by
  intro hw
  have h := wt_addLinksScan links s {} hwf (fun p hp => by simp at hp) hw _ rfl
  unfold addLinks
  split
  · rename_i s1 e heq; rw [heq] at h; exact h.1
  · rename_i s1 acc heq
    rw [heq] at h
    obtain ⟨⟨t1, w1⟩, a1⟩ := h
    have a1' := a1 acc rfl
    simp only
    have h2 := wt_flushLists true acc.pages acc.outl s1 a1' w1
    have hsz : s1.trie.size ≤ (flushLists true acc.pages s1 acc.outl).trie.size := h2.1.le.size
    have h3 := wt_flushLists false acc.pages acc.inl _ (a1'.mono hsz) h2.2
    exact ⟨(t1.trans h2.1).trans h3.1, h3.2⟩

theorem wt_batchTargets : ∀ (ts : List Bytes) (s : State) (src : Bytes) (acc : LinkAcc) (tb : List Nat),
    (∀ t ∈ ts, lruIter t ≠ []) → CacheLt s acc.pages → (∀ b ∈ tb, b < s.trie.size) → Whole s →
    ∀ r, batchTargets s src ts acc tb = r →
      (PTrace s r.1 ∧ Whole r.1) ∧
      ∀ acc' tb', r.2 = .ok (acc', tb') → CacheLt r.1 acc'.pages ∧ ∀ b ∈ tb', b < r.1.trie.size
  | [], s, src, acc, tb, _, ha, htb, hw, r, hr => by
    simp only [batchTargets] at hr; subst hr
    exact ⟨⟨PTrace.refl s, hw⟩, fun acc' tb' h => by cases h; exact ⟨ha, htb⟩⟩
  | t :: ts, s, src, acc, tb, hwf, ha, htb, hw, r, hr => by
    have h1 := scanOk_ensurePageCached s acc t false (hwf t (by simp)) ha hw
    rw [batchTargets] at hr
    split at hr
    · rename_i s1 e heq
      rw [heq] at h1; subst hr
      exact ⟨h1.1, fun acc' tb' h => by cases h⟩
    · rename_i s1 acc1 heq
      rw [heq] at h1
      obtain ⟨⟨t1, w1⟩, a1⟩ := h1
      have a1' := a1 acc1 rfl
      have hsz : s.trie.size ≤ s1.trie.size := t1.le.size
      have h3 := wt_batchTargets ts s1 src { acc1 with inl := multiAdd acc1.inl t src }
        (tb ++ [(dictGet? acc1.pages t).getD 0]) (fun x hx => hwf x (by simp [hx])) a1'
        (by
          intro b hb
          simp only [List.mem_append, List.mem_singleton] at hb
          rcases hb with hb | rfl
          · exact Nat.lt_of_lt_of_le (htb b hb) hsz
          · exact a1'.getD w1.pos t) w1 r hr
      exact ⟨⟨t1.trans h3.1.1, h3.1.2⟩, h3.2⟩

/-- well-formedness of the argument of `index_batch_crawl`: every LRU has at least one stem -/
def BatchWF (data : List (Bytes × List Bytes)) : Prop :=
  ∀ x ∈ data, lruIter x.1 ≠ [] ∧ ∀ t ∈ x.2, lruIter t ≠ []

theorem wt_batchSources : ∀ (data : List (Bytes × List Bytes)) (s : State) (acc : LinkAcc),
    BatchWF data → CacheLt s acc.pages → Whole s →
    ∀ r, batchSources s data acc = r → ScanOk s r.1 r.2
  | [], s, acc, _, ha, hw, r, hr => by
    simp only [batchSources] at hr; subst hr
    exact ⟨⟨PTrace.refl s, hw⟩, fun acc' h => by cases h; exact ha⟩
  | (src, tgts) :: rest, s, acc, hwf, ha, hw, r, hr => by
    have hwf1 := hwf (src, tgts) (by simp)
    have h1 : ∀ r1, (match dictGet? acc.pages src with
        | none => s.ensurePageCached acc src true
        | some n =>
          if !(s.cell n).flags.crawled then
            (s.modCell n (fun c => { c with flags := { c.flags with crawled := true } }), Except.ok acc)
          else (s, Except.ok acc)) = r1 → ScanOk s r1.1 r1.2 := by
      intro r1 hr1
      split at hr1
      · subst hr1; exact scanOk_ensurePageCached s acc src true hwf1.1 ha hw
      · split at hr1
        · rename_i n _ _
          subst hr1
          have := wt_modCell s n (fun c => { c with flags := { c.flags with crawled := true } })
            (fun c _ => cellLe_flags_crawled c) (fun c _ h => h.flags _) hw
          exact ⟨this, fun acc' h => by
            cases h; exact ha.mono (Nat.le_of_eq (trie_modCell_size s n _).symm)⟩
        · subst hr1
          exact ⟨⟨PTrace.refl s, hw⟩, fun acc' h => by cases h; exact ha⟩
    rw [batchSources] at hr
    simp only at hr
    split at hr
    · rename_i s1 e heq
      have := h1 _ heq; subst hr
      exact ⟨this.1, fun acc' h => by cases h⟩
    · rename_i s1 acc1 heq
      obtain ⟨⟨t1, w1⟩, a1⟩ := h1 _ heq
      have a1' := a1 acc1 rfl
      have h2 := wt_batchTargets tgts s1 src acc1 [] hwf1.2 a1' (fun b hb => by simp at hb) w1 _ rfl
      split at hr
      · rename_i s2 e heq2
        rw [heq2] at h2; subst hr
        exact ⟨⟨t1.trans h2.1.1, h2.1.2⟩, fun acc' h => by cases h⟩
      · rename_i s2 acc2 tb heq2
        rw [heq2] at h2
        obtain ⟨⟨t2, w2⟩, a2⟩ := h2
        obtain ⟨a2', htb⟩ := a2 acc2 tb rfl
        have h3 := wt_addStubs s2 ((dictGet? acc2.pages src).getD 0) tb true htb w2
        have h4 := wt_batchSources rest _ acc2 (fun x hx => hwf x (by simp [hx]))
          (a2'.mono (Nat.le_of_eq (size_addStubs_ptr s2 _ _ true).symm)) h3.2 r hr
        exact ⟨⟨((t1.trans t2).trans h3.1).trans h4.1.1, h4.1.2⟩, h4.2⟩

theorem wt_batch (s : State) (data : List (Bytes × List Bytes)) (hwf : BatchWF data) :
    WT s (s.batch data).1 := by
  intro hw
  have h := wt_batchSources data s {} hwf (fun p hp => by simp at hp) hw _ rfl
  unfold batch
  split
  · rename_i s1 e heq; rw [heq] at h; exact h.1
  · rename_i s1 acc heq
    rw [heq] at h
    obtain ⟨⟨t1, w1⟩, a1⟩ := h
    have h2 := wt_flushLists false acc.pages acc.inl s1 (a1 acc rfl) w1
    exact ⟨t1.trans h2.1, h2.2⟩

/-! ### creation rules -/

theorem wt_addRuleLoop (startBlock : Nat) : ∀ (fuel : Nat) (s : State) (stack : List (Nat × Bytes)) (rep : Report),
    WT s (addRuleLoop startBlock fuel s stack rep).1
  | 0, s, stack, rep => by simp only [addRuleLoop]; exact WT.refl s
  | fuel + 1, s, [], rep => by simp only [addRuleLoop]; exact WT.refl s
  | fuel + 1, s, (b, lru) :: stack, rep => by
    have ht1 : WT s (if (s.cell b).flags.page then
          (match s.addPageCore (lru ++ s.stemAt b) false with
           | (s1, _, .error e) => (s1, Except.error e)
           | (s1, _, .ok r1) => (s1, Except.ok (rep.add r1)))
        else (s, Except.ok rep) : State × Except Err Report).1 := by
      split
      · have := wt_addPageCore s (lru ++ s.stemAt b) false
        split <;> rename_i heq <;> exact this.fst_of_eq heq
      · exact WT.refl s
    rw [addRuleLoop]
    simp only
    split
    · rename_i heq; exact ht1.fst_of_eq heq
    · rename_i s1 rep1 heq
      replace ht1 : WT s s1 := ht1.fst_of_eq heq
      exact ht1.trans (wt_addRuleLoop startBlock fuel s1 _ _)

theorem wt_addRule (s : State) (anchor : Bytes) (r : Rule) (w : Bool) : WT s (s.addRule anchor r w).1 := by
  have ht0 : WT s { s with rules := dictSet s.rules anchor r } := WT.of_eq rfl rfl rfl rfl
  rcases ha : State.addLru { s with rules := dictSet s.rules anchor r } (lruIter anchor) false with ⟨s1, n, h⟩
  have ht1 := wt_addLru { s with rules := dictSet s.rules anchor r } (lruIter anchor) false
  rw [ha] at ht1
  simp only at ht1
  simp only [addRule, ha]
  split
  · exact ht0
  · have ht2 : WT s1 (s1.modCell n (fun c => { c with flags := { c.flags with rule := true } })) :=
      wt_modCell _ _ _ (fun c _ => cellLe_setRule c true) (fun c _ h => h.flags _)
    exact ht0.trans (ht1.trans (ht2.trans (wt_addRuleLoop n _ _ _ _)))

theorem wt_removeRule (s : State) (anchor : Bytes) : WT s (s.removeRule anchor).1 := by
  unfold removeRule
  split
  · exact WT.refl s
  · simp only
    split
    · exact WT.of_eq rfl rfl rfl rfl
    · refine WT.trans ?_ (wt_modCell _ _ _ (fun c _ => cellLe_setRule c false) (fun c _ h => h.flags _))
      exact WT.of_eq rfl rfl rfl rfl

/-! ### webentities -/

theorem wt_createWebentity (s : State) (prefixes : List Bytes) : WT s (s.createWebentity prefixes).1 := by
  have ht := wt_addPrefixes s prefixes false
  unfold createWebentity
  split <;> rename_i heq <;> exact ht.fst_of_eq heq

theorem wt_deleteWebentity (s : State) (weid : Nat) (prefixes : List Bytes) :
    WT s (s.deleteWebentity weid prefixes).1 := by
  unfold deleteWebentity
  split
  · exact WT.refl s
  · exact wt_foldl_modCell (fun pn : Bytes × Nat => pn.2) (fun _ c => { c with we := 0 })
      (fun _ c => cellLe_setWe c 0) (fun _ c _ _ h => h.we _) _ s

theorem wt_addPrefix (s : State) (pfx : Bytes) (weid : Nat) : WT s (s.addPrefix pfx weid).1 := by
  rcases ha : s.addLru (lruIter pfx) true with ⟨s1, n, h⟩
  have ht := wt_addLru s (lruIter pfx) true
  rw [ha] at ht
  simp only [addPrefix, ha]
  split
  · exact ht
  · exact ht.trans (wt_modCell _ _ _ (fun c _ => cellLe_setWe c weid) (fun c _ h => h.we _))

theorem wt_removePrefix (s : State) (pfx : Bytes) (weid : Option Nat) : WT s (s.removePrefix pfx weid).1 := by
  rcases ha : s.addLru (lruIter pfx) false with ⟨s1, n, h⟩
  have ht := wt_addLru s (lruIter pfx) false
  rw [ha] at ht
  simp only at ht
  simp only [removePrefix, ha]
  repeat' split
  all_goals first | exact ht | exact ht.trans (wt_modCell _ _ _ (fun c _ => cellLe_setWe c 0) (fun c _ h => h.we _))

theorem wt_movePrefix (s : State) (pfx : Bytes) (target : Nat) (source : Option Nat) :
    WT s (s.movePrefix pfx target source).1 := by
  have ht := wt_removePrefix s pfx source
  unfold movePrefix
  split
  · rename_i heq; exact ht.fst_of_eq heq
  · rename_i s1 _ heq
    replace ht : WT s s1 := ht.fst_of_eq heq
    exact ht.trans (wt_addPrefix s1 pfx target)

theorem wt_reopen (s : State) (dflt : Rule) (rules : List (Bytes × Rule)) : WT s (s.reopen dflt rules) :=
  WT.of_eq rfl rfl rfl rfl

theorem wt_installRules : ∀ (rules : List (Bytes × Rule)) (s : State) (w : Bool),
    WT s (installRules s rules w).1
  | [], s, w => by simp only [installRules]; exact WT.refl s
  | (a, r) :: rest, s, w => by
    have ht := wt_addRule s a r w
    rw [installRules]
    split
    · rename_i heq; exact ht.fst_of_eq heq
    · rename_i s1 _ heq
      replace ht : WT s s1 := ht.fst_of_eq heq
      exact ht.trans (wt_installRules rest s1 w)

/-- the state with just the two header blocks is `Whole` -/
theorem whole_base (cfg : Config) (dflt : Rule) (log : List Write) :
    Whole ({ cfg := cfg, dflt := dflt, log := log } : State) := by
  refine ⟨Nat.zero_lt_one, Nat.le_refl _, Nat.zero_lt_one, ?_, ?_, ?_, ?_⟩
  · intro b c hc
    have hc' : (#[({} : Cell)])[b]? = some c := hc
    have hb : b < 1 := (Array.getElem?_eq_some_iff.mp hc').1
    have : b = 0 := by omega
    subst this
    simp at hc'; subst hc'
    exact cellOk_default Nat.zero_lt_one Nat.zero_lt_one
  · intro j st hst
    have hst' : (#[({} : Stub)])[j]? = some st := hst
    have hb : j < 1 := (Array.getElem?_eq_some_iff.mp hst').1
    have : j = 0 := by omega
    subst this
    simp at hst'; subst hst'
    exact ⟨Nat.zero_lt_one, Nat.zero_lt_one⟩
  · intro b c hc hb hh
    have hc' : (#[({} : Cell)])[b]? = some c := hc
    have hb1 : b < 1 := hb
    have : b = 0 := by omega
    subst this
    simp at hc'; subst hc'
    cases hh
  · intro b c hc hb
    have hc' : (#[({} : Cell)])[b]? = some c := hc
    have hb1 : b < 1 := (Array.getElem?_eq_some_iff.mp hc').1
    have hb2 : 1 ≤ b := hb
    omega

/-- a fresh index is a `PTrace` from the state that has just the two header blocks -/
theorem wt_fresh (cfg : Config) (dflt : Rule) (rules : List (Bytes × Rule)) (log : List Write) :
    WT ({ cfg := cfg, dflt := dflt, log := .linkHdr :: .hdr 0 :: log } : State)
      (State.fresh cfg dflt rules log).1 := by
  unfold fresh
  exact wt_installRules rules _ true

/-! ### every write request but `clear` -/

/-- the LRUs of link requests have at least one stem (an LRU without any `|` designates no node; the
    page cache of `add_links` / `index_batch_crawl` would then hold the root's block number whether or not
    the root exists) -/
def Op.WF : Op → Prop
  | .addLinks ls => ∀ st ∈ ls, lruIter st.1 ≠ [] ∧ lruIter st.2 ≠ []
  | .batch d => BatchWF d
  | _ => True

theorem step_wt (s : State) (op : Op) (hop : ∀ d rs, op ≠ .clear d rs) (hwf : op.WF) :
    WT s (s.step op).1 := by
  cases op with
  | addPage l c => exact wt_addPage s l c
  | addPages ls c => exact wt_addPages s ls c
  | addLinks ls => exact wt_addLinks s ls hwf
  | batch d => exact wt_batch s d hwf
  | create ps => exact wt_createWebentity s ps
  | delete w ps => exact wt_deleteWebentity s w ps
  | addPrefix p w => exact wt_addPrefix s p w
  | removePrefix p w => exact wt_removePrefix s p w
  | movePrefix p t f => exact wt_movePrefix s p t f
  | addRule a r => exact wt_addRule s a r true
  | removeRule a => exact wt_removeRule s a
  | reopen d rs => exact wt_reopen s d rs
  | clear d rs => exact absurd rfl (hop d rs)

theorem run_wt : ∀ (ops : List Op) (s : State), (∀ op ∈ ops, ∀ d rs, op ≠ .clear d rs) →
    (∀ op ∈ ops, op.WF) → WT s (s.run ops)
  | [], s, _, _ => WT.refl s
  | op :: ops, s, hop, hwf => by
    have h1 := step_wt s op (hop op (by simp)) (hwf op (by simp))
    have h2 := run_wt ops (s.step op).1 (fun o ho => hop o (by simp [ho])) (fun o ho => hwf o (by simp [ho]))
    exact h1.trans h2

#print axioms step_wt
#print axioms run_wt

end Traph

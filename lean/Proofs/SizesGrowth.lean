import Proofs.Sizes
/-! C19, exact growth: `add_lru` grows the trie store by the blocks of exactly those stem-prefixes of the
    submitted LRU that were not stored before (they form a suffix of the list of prefixes: the stored
    prefixes are those of length ≤ k, and the growth is the blocks of the stems after the k-th).
    `add_page` at the trie level is `add_lru` followed by a flag rewrite: same sizes, same invariant. -/
namespace Traph
open State

/-! ### the finite map is prefix-closed -/

/-- every non-empty prefix (below `pre`) of a stored path is a stored path -/
theorem entries_prefix_closed {s : State} : ∀ (u : T) (pre p : LRU) (b : Nat),
    (p, b) ∈ u.entries s pre → ∀ j, pre.length < j → j ≤ p.length →
    ∃ b', (p.take j, b') ∈ u.entries s pre
  | .nil, _, _, _, h => by simp [T.entries] at h
  | .node a l c r, pre, p, b, h => by
    intro j hj1 hj2
    simp only [T.entries, List.mem_append, List.mem_cons, Prod.mk.injEq] at h
    rcases h with h | ⟨rfl, _⟩ | h | h
    · obtain ⟨b', hb'⟩ := entries_prefix_closed l pre p b h j hj1 hj2
      exact ⟨b', by simp only [T.entries, List.mem_append, List.mem_cons]; exact Or.inl hb'⟩
    · refine ⟨a, ?_⟩
      have hj : j = pre.length + 1 := by
        simp only [List.length_append, List.length_singleton] at hj2; omega
      subst hj
      have e : (pre ++ [s.stemAt a]).take (pre.length + 1) = pre ++ [s.stemAt a] :=
        List.take_of_length_le (by simp)
      rw [e]
      simp only [T.entries, List.mem_append, List.mem_cons]
      exact Or.inr (Or.inl trivial)
    · obtain ⟨x, rest, rfl⟩ := entries_prefix c _ p b h
      by_cases hj : j = pre.length + 1
      · subst hj
        refine ⟨a, ?_⟩
        have e : ((pre ++ [s.stemAt a]) ++ x :: rest).take (pre.length + 1) = pre ++ [s.stemAt a] := by
          have := take_append_cons pre (s.stemAt a) (x :: rest)
          simpa using this
        rw [e]
        simp only [T.entries, List.mem_append, List.mem_cons]
        exact Or.inr (Or.inl trivial)
      · obtain ⟨b', hb'⟩ := entries_prefix_closed c _ _ b h j
          (by simp only [List.length_append, List.length_singleton]; omega) hj2
        exact ⟨b', by
          simp only [T.entries, List.mem_append, List.mem_cons]; exact Or.inr (Or.inr (Or.inl hb'))⟩
    · obtain ⟨b', hb'⟩ := entries_prefix_closed r pre p b h j hj1 hj2
      exact ⟨b', by
        simp only [T.entries, List.mem_append, List.mem_cons]; exact Or.inr (Or.inr (Or.inr hb'))⟩

/-- the path below which a hole sits is the top prefix or a stored path -/
theorem Hole.path_entry {s : State} {q sl u pre lo hi pre' lo' hi'}
    (h : Hole s q sl u pre lo hi pre' lo' hi') : pre' = pre ∨ ∃ b, (pre', b) ∈ u.entries s pre := by
  induction h with
  | hereL c r pre lo hi => exact Or.inl rfl
  | hereR l c pre lo hi => exact Or.inl rfl
  | hereC l r pre lo hi =>
    exact Or.inr ⟨q, by simp only [T.entries, List.mem_append, List.mem_cons]; exact Or.inr (Or.inl trivial)⟩
  | inL c r hi _ ih =>
    rcases ih with e | ⟨b, hb⟩
    · exact Or.inl e
    · exact Or.inr ⟨b, by simp only [T.entries, List.mem_append, List.mem_cons]; exact Or.inl hb⟩
  | inR l c lo _ ih =>
    rcases ih with e | ⟨b, hb⟩
    · exact Or.inl e
    · exact Or.inr ⟨b, by
        simp only [T.entries, List.mem_append, List.mem_cons]; exact Or.inr (Or.inr (Or.inr hb))⟩
  | @inC sl a c pre pre' lo' hi' l r lo hi _ ih =>
    rcases ih with e | ⟨b, hb⟩
    · exact Or.inr ⟨a, by
        rw [e]; simp only [T.entries, List.mem_append, List.mem_cons]; exact Or.inr (Or.inl trivial)⟩
    · exact Or.inr ⟨b, by
        simp only [T.entries, List.mem_append, List.mem_cons]; exact Or.inr (Or.inr (Or.inl hb))⟩

/-- where the descent falls off, the next prefix is not stored (shown by performing the graft in thought:
    the grown map would hold that path twice) -/
theorem fell_not_entry {s : State} {t : T} {stems : LRU} {q : Nat} {sl : Slot} {pre' : LRU} {x : Stem}
    {rest'' : List Stem} (h : Shape s t) (hd : t.descend s stems [] = .fell q sl pre' (x :: rest'')) :
    ¬ ∃ b, (pre' ++ [x], b) ∈ t.entries s [] := by
  rintro ⟨b, hb⟩
  obtain ⟨_, _, hh, _, _⟩ :=
    T.descend_hole stems t [] none none q sl pre' x rest'' hd (by simp) (by simp)
  obtain ⟨c, hcq, hslot⟩ := hh.slot_empty h.rep
  have g := graftStep_write s q sl x 0 false c hcq hslot h.closed
  obtain ⟨gr, hent, _, _⟩ := grow_after_fell_graft h hd (NoStruct.refl s) g (NoStruct.refl _)
  have hb' := gr.keep _ _ hb
  have e := entries_path_injective gr.shape.ord gr.shape.nodup hb' hent
  have hlt := h.rep.lt_size b (entries_addr_mem t [] _ b hb)
  omega

/-! ### exact growth of `add_lru` -/

/-- MAIN (exact growth): the stored prefixes of `stems` are exactly those of length `≤ k`, and `add_lru`
    grows the store by the blocks of the stems after the `k`-th — one node per prefix that was not stored,
    `blocksFor` its last stem each. -/
theorem addLru_growth {s : State} {t : T} (h : Shape s t) (stems : LRU) (hne : stems ≠ []) (flag : Bool) :
    ∃ k, k ≤ stems.length ∧
      (∀ j, 0 < j → j ≤ stems.length → ((∃ b, (stems.take j, b) ∈ t.entries s []) ↔ j ≤ k)) ∧
      (s.addLru stems flag).1.trie.size = s.trie.size + ((stems.drop k).map blocksFor).sum := by
  have key : ∀ D : State × Nat × List Stem × Hist,
      D = addLruDescend flag s stems 1 (decide (s.trie.size > 1)) 0 {} →
      ∃ k, k ≤ stems.length ∧
        (∀ j, 0 < j → j ≤ stems.length → ((∃ b, (stems.take j, b) ∈ t.entries s []) ↔ j ≤ k)) ∧
        (addLruCreate flag D.1 D.2.2.1 D.2.1).1.trie.size =
          s.trie.size + ((stems.drop k).map blocksFor).sum := by
    intro D hD
    by_cases hsz : s.trie.size ≤ 1
    · -- empty trie: nothing is stored, everything is written
      have hsz1 : s.trie.size = 1 := by have := h.live; omega
      have ht := h.eq_nil hsz
      subst ht
      cases stems with
      | nil => exact absurd rfl hne
      | cons stem rest =>
        have hex : decide (s.trie.size > 1) = false := by simp; omega
        rw [hex] at hD
        have he : s.ensureStem 1 false stem = ((s.writeNew stem 0 false).1, 1) := by
          simp only [ensureStem, Bool.not_false, if_true]
          exact Prod.ext rfl (by rw [writeNew_idx]; exact hsz1)
        have hhead : (s.writeNew stem 0 false).1.trie[1]? = some (headCell stem 0 false) := by
          have := getElem?_writeNew_head s stem 0 false
          rw [hsz1] at this; exact this
        have hcell : (s.writeNew stem 0 false).1.cell 1 = headCell stem 0 false := by
          simp [State.cell, hhead]
        rw [addLruDescend_cons_stop flag s stem rest 1 false 0 {} _ _ he
          (Or.inr (by rw [hcell]; rfl))] at hD
        subst hD
        refine ⟨0, Nat.zero_le _, ?_, ?_⟩
        · intro j hj _
          constructor
          · rintro ⟨b, hb⟩; simp [T.entries] at hb
          · intro h0; omega
        · simp only
          rw [addLruCreate_size, size_markCanHave, writeNew_size]
          simp only [List.drop_zero, List.map_cons, List.sum_cons]
          omega
    · -- non-empty trie
      have hex : decide (s.trie.size > 1) = true := by simp; omega
      rw [hex] at hD
      have hroot := h.root
      rw [if_neg hsz] at hroot
      have htne : t ≠ .nil := by intro e; subst e; simp at hroot
      have spec := addLruDescend_specZ flag stems s t [] 0 {} h.rep htne h.size_le h.closed hne
      rw [hroot, ← hD] at spec
      obtain ⟨S, nd, rst, hi⟩ := D
      simp only at ⊢
      cases hd : t.descend s stems [] with
      | corrupt => rw [hd] at spec; exact absurd spec (by simp [DescSpecZ])
      | found b =>
        rw [hd] at spec
        simp only [DescSpecZ] at spec
        obtain ⟨n1, rfl, rfl⟩ := spec
        have hm := descend_found_mem stems t [] nd hd
        simp only [List.nil_append] at hm
        refine ⟨stems.length, Nat.le_refl _, ?_, ?_⟩
        · intro j hj1 hj2
          exact ⟨fun _ => hj2, fun _ => entries_prefix_closed t [] stems nd hm j hj1 hj2⟩
        · simp [addLruCreate, n1.1]
      | fell q sl pre' rest' =>
        rw [hd] at spec
        simp only [DescSpecZ] at spec
        obtain ⟨hrne, e, _⟩ := descend_fell_suffix stems t [] q sl pre' rest' hd
        simp only [List.nil_append] at e
        cases rest' with
        | nil => exact absurd rfl hrne
        | cons x rest'' =>
          have hk1 : stems.take (pre'.length + 1) = pre' ++ [x] := by rw [← e, take_append_cons]
          have hdrop : stems.drop pre'.length = x :: rest'' := by rw [← e]; simp
          obtain ⟨_, _, hh, _, _⟩ :=
            T.descend_hole stems t [] none none q sl pre' x rest'' hd (by simp) (by simp)
          refine ⟨pre'.length, by rw [← e]; simp, ?_, ?_⟩
          · intro j hj1 hj2
            constructor
            · rintro ⟨b, hb⟩
              apply Nat.le_of_not_lt
              intro hgt
              obtain ⟨b', hb'⟩ := entries_prefix_closed t [] _ b hb (pre'.length + 1) (by simp)
                (by rw [List.length_take]; omega)
              rw [List.take_take, Nat.min_eq_left (by omega), hk1] at hb'
              exact fell_not_entry h hd ⟨b', hb'⟩
            · intro hle
              rcases hh.path_entry with e0 | ⟨b, hb⟩
              · rw [e0] at hle; simp at hle; omega
              · obtain ⟨b', hb'⟩ := entries_prefix_closed t [] pre' b hb j hj1 hle
                refine ⟨b', ?_⟩
                have : stems.take j = pre'.take j := by
                  rw [← e]; exact List.take_append_of_le_length hle
                rw [this]; exact hb'
          · rw [hdrop]
            by_cases hC : sl = .C
            · rw [if_pos hC] at spec
              obtain ⟨n1, rfl, rfl⟩ := spec
              rw [addLruCreate_size, n1.1]
            · rw [if_neg hC] at spec
              obtain ⟨x', rest3, s1, s2, e0, n1, g, n2, rfl, rfl⟩ := spec
              obtain ⟨rfl, rfl⟩ := List.cons.inj e0
              rw [addLruCreate_size, n2.1, g.size_eq, n1.1, List.map_cons, List.sum_cons]
              omega
  exact key _ rfl

/-- an upper bound that needs no knowledge of the tree: never more than one node per stem -/
theorem addLru_growth_le {s : State} {t : T} (h : Shape s t) (stems : LRU) (hne : stems ≠ []) (flag : Bool) :
    (s.addLru stems flag).1.trie.size ≤ s.trie.size + (stems.map blocksFor).sum := by
  obtain ⟨k, _, _, e⟩ := addLru_growth h stems hne flag
  rw [e]
  have : (stems.map blocksFor).sum =
      ((stems.take k).map blocksFor).sum + ((stems.drop k).map blocksFor).sum := by
    rw [← List.sum_append, ← List.map_append, List.take_append_drop]
  omega

/-! ### `add_page` at the trie level: `add_lru`, then a flag rewrite -/

/-- a block rewrite that keeps pointers, chunk and has-tail flag is a `NoStruct` step -/
theorem noStruct_modCell (s : State) (i : Nat) (f : Cell → Cell)
    (hf : ∀ c, (f c).left = c.left ∧ (f c).right = c.right ∧ (f c).child = c.child ∧
      (f c).chunk = c.chunk ∧ (f c).flags.hasTail = c.flags.hasTail) : NoStruct s (s.modCell i f) := by
  refine ⟨trie_modCell_size _ _ _, fun j c hc => ?_⟩
  rw [getElem?_modCell]
  by_cases e : i = j
  · rw [if_pos e, hc]; exact ⟨_, rfl, hf c⟩
  · rw [if_neg e]; exact ⟨c, hc, rfl, rfl, rfl, rfl, rfl⟩

theorem addPageTrie_noStruct (s : State) (stems : LRU) (crawled : Bool) :
    NoStruct (s.addLru stems false).1 (s.addPageTrie stems crawled).1 ∧
      (s.addPageTrie stems crawled).2.1 = (s.addLru stems false).2.1 := by
  unfold addPageTrie
  simp only
  split
  · exact ⟨noStruct_modCell _ _ _ (fun c => ⟨rfl, rfl, rfl, rfl, rfl⟩), rfl⟩
  · split
    · exact ⟨noStruct_modCell _ _ _ (fun c => ⟨rfl, rfl, rfl, rfl, rfl⟩), rfl⟩
    · exact ⟨NoStruct.refl _, rfl⟩

theorem addPageTrie_trie_size (s : State) (stems : LRU) (crawled : Bool) :
    (s.addPageTrie stems crawled).1.trie.size = (s.addLru stems false).1.trie.size :=
  (addPageTrie_noStruct s stems crawled).1.1

/-- `add_page` (trie level) preserves shape and accounting invariant -/
theorem addPageTrie_sizeOk {s : State} {t : T} (h : Shape s t) (hz : SizeOk s t) (stems : LRU)
    (hne : stems ≠ []) (crawled : Bool) :
    ∃ t', Shape (s.addPageTrie stems crawled).1 t' ∧ SizeOk (s.addPageTrie stems crawled).1 t' ∧
      (stems, (s.addPageTrie stems crawled).2.1) ∈ t'.entries (s.addPageTrie stems crawled).1 [] := by
  obtain ⟨t', gr, hz', hent⟩ := addLru_sizeOk h hz stems hne false
  obtain ⟨n, e⟩ := addPageTrie_noStruct s stems crawled
  refine ⟨t', n.shape gr.shape, hz'.noStruct n, ?_⟩
  rw [T.entries_frame t' [] (fun a _ => n.stemAt a), e]
  exact hent

/-- re-submitting a known page allocates nothing -/
theorem addPageTrie_known_no_growth {s : State} {t : T} (h : Shape s t) (stems : LRU) (hne : stems ≠ [])
    (crawled : Bool) (b : Nat) (hb : (stems, b) ∈ t.entries s []) :
    (s.addPageTrie stems crawled).1.trie.size = s.trie.size ∧ (s.addPageTrie stems crawled).2.1 = b := by
  obtain ⟨h1, h2⟩ := addLru_known_no_growth h stems hne false b hb
  obtain ⟨n, e⟩ := addPageTrie_noStruct s stems crawled
  exact ⟨n.1.trans h1, e.trans h2⟩

#print axioms addLru_growth
#print axioms addPageTrie_sizeOk
#print axioms addPageTrie_known_no_growth

end Traph
